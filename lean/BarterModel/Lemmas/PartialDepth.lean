import BarterModel.Lemmas.Review2_C06
/-!
Partial-depth REST snapshots (review of the sub-check theorems, `audit/sub/report_A.md` #1; used by the
last sections of `Props/C06.lean` and `Props/C06E.lean`).

The code's snapshot fetchers request `limit=100`: a snapshot is the venue's book only ON the prices it
covers. The coupling invariant is therefore generalised from "the two sides denote `bookAt`" (`Synced`)
to "the two sides agree with `bookAt` on every price that the snapshot covers (`P`) or that the venue
changed since the snapshot id (`Touched v s seq`)" (`SyncedOn`); `Synced` is the case `P = everything`.
-/
namespace BarterModel.BinanceL2
open BarterModel.Book

/-! ## point-wise reading of `applyLevels` -/

/-- a price no level of the list carries keeps its amount -/
theorem applyLevels_miss (g : Rat → Rat) (ls : List Level) (p : Rat) (h : ∀ l ∈ ls, l.price ≠ p) :
    applyLevels g ls p = g p := by
  induction ls generalizing g with
  | nil => rfl
  | cons l ls ih =>
    have := ih (setLevel g l.price l.amount) (fun x hx => h x (by simp [hx]))
    show applyLevels (setLevel g l.price l.amount) ls p = g p
    rw [this]
    simp only [setLevel]
    rw [if_neg (fun hp => h l (by simp) hp.symm)]

/-- a price some level of the list carries ends at `f`'s amount when every level states `f` -/
theorem applyLevels_hit (f g : Rat → Rat) (ls : List Level) (p : Rat)
    (hamt : ∀ l ∈ ls, l.amount = f l.price) (h : ∃ l ∈ ls, l.price = p) :
    applyLevels g ls p = f p := by
  induction ls generalizing g with
  | nil => obtain ⟨l, hl, _⟩ := h; simp at hl
  | cons l ls ih =>
    have hamt' : ∀ x ∈ ls, x.amount = f x.price := fun x hx => hamt x (by simp [hx])
    show applyLevels (setLevel g l.price l.amount) ls p = f p
    by_cases h' : ∃ x ∈ ls, x.price = p
    · exact ih _ hamt' h'
    · rw [applyLevels_miss _ _ _ (fun x hx hp => h' ⟨x, hx, hp⟩)]
      obtain ⟨x, hx, hxp⟩ := h
      simp only [List.mem_cons] at hx
      rcases hx with hx | hx
      · subst hx
        simp only [setLevel]
        rw [if_pos hxp.symm, hamt x (by simp), hxp]
      · exact absurd ⟨x, hx, hxp⟩ h'

/-! ## sides -/

theorem sideOf_update (b : OrderBook) (m : Update) (sd : Side) :
    sideOf (b.update m.toEvent) sd = upsert sd (sideOf b sd) (sortLevels sd (m.levels sd)) := by
  cases sd <;> rfl

theorem sorted_sideOf {b : OrderBook} (h : SortedBook b) (sd : Side) : Sorted sd (sideOf b sd) := by
  cases sd
  · exact h.bids
  · exact h.asks

theorem genuine_levels {r : Rules} {v : Venue} {lo hi : Nat} {m : Update} (h : Genuine r v lo hi m) (sd : Side) :
    GenuineSide v lo hi sd (m.levels sd) := by
  cases sd
  · exact h.2.1
  · exact h.2.2

/-! ## the coupling invariant on a set of prices -/

/-- Coupling invariant of one instrument whose snapshot (taken at id `s`) is known to be right on the
prices `P` only: the local book is in strict book order, reports the sequencer's last id, and at every
price that `P` covers or that the venue changed in `(s, sequence]` it holds the amount of the exchange's
book as of the sequence it reports. -/
structure SyncedOn (v : Venue) (s : Nat) (P : Side → Rat → Prop) (l : Local) : Prop where
  sorted : SortedBook l.book
  seq : l.book.sequence = l.sequencer.lastUpdateId
  known : ∀ sd p, (P sd p ∨ Touched v s l.book.sequence sd p) →
    abs (sideOf l.book sd) p = bookAt v l.book.sequence sd p

/-- the invariant for a smaller set of prices follows -/
theorem SyncedOn.mono {v : Venue} {s : Nat} {P Q : Side → Rat → Prop} {l : Local}
    (h : SyncedOn v s P l) (hq : ∀ sd p, Q sd p → P sd p) : SyncedOn v s Q l :=
  ⟨h.sorted, h.seq, fun sd p hp => h.known sd p (hp.imp (hq sd p) id)⟩

/-- the full-depth invariant is the case `P = everything` (whatever `s`) -/
theorem synced_iff_on_all (v : Venue) (s : Nat) (l : Local) :
    Synced v l ↔ SyncedOn v s (fun _ _ => True) l := by
  constructor
  · intro h
    refine ⟨h.sorted, h.seq, fun sd p _ => ?_⟩
    cases sd
    · exact congrFun h.bids p
    · exact congrFun h.asks p
  · intro h
    exact ⟨h.sorted, h.seq, funext fun p => h.known .bids p (.inl trivial),
      funext fun p => h.known .asks p (.inl trivial)⟩

/-- **admitting a genuine message**: every price the message writes becomes right, every other known
price stays right (the message carries every price the venue changed in its range), and the prices the
venue changed since the snapshot stay inside the known set. -/
theorem syncedOn_admit {r : Rules} {v : Venue} {s : Nat} {P : Side → Rat → Prop} {l : Local} {m : Update}
    (hl : SyncedOn v s P l) (hg : IsGenuine r v m) (hs : ¬ Stale r l.sequencer.lastUpdateId m)
    (he : Extends r (l.sequencer.updatesProcessed == 0) l.sequencer.lastUpdateId m) :
    SyncedOn v s (fun sd p => P sd p ∨ m.Writes sd p)
      ⟨l.sequencer.advance r m, l.book.update m.toEvent⟩ := by
  obtain ⟨lo, hi, hgen⟩ := hg
  obtain ⟨h1, h2⟩ := genuine_range hgen.1 hs he
  have hu : m.lastUpdateId = hi := hgen.1.2.1
  rw [← hl.seq] at h1 h2
  have hseq : (l.book.update m.toEvent).sequence = hi := by
    simp [Update.toEvent, OrderBook.update, OrderBook.new, hu]
  refine ⟨⟨sorted_upsert hl.sorted.bids, sorted_upsert hl.sorted.asks⟩, ?_, ?_⟩
  · simp [Update.toEvent, OrderBook.update, OrderBook.new, Sequencer.advance]
  · intro sd p hp
    show abs (sideOf (l.book.update m.toEvent) sd) p = bookAt v (l.book.update m.toEvent).sequence sd p
    rw [hseq, sideOf_update, abs_upsert (sorted_sideOf hl.sorted sd)]
    have hperm := sortLevels_perm sd (m.levels sd)
    have hside := genuine_levels hgen sd
    by_cases hw : m.Writes sd p
    · obtain ⟨x, hx, hxp⟩ := hw
      exact applyLevels_hit (bookAt v hi sd) _ _ p (fun y hy => hside.1 y (hperm.mem_iff.mp hy))
        ⟨x, hperm.mem_iff.mpr hx, hxp⟩
    · rw [applyLevels_miss _ _ _ (fun y hy hyp => hw ⟨y, hperm.mem_iff.mp hy, hyp⟩)]
      have hnt : ¬ Touched v l.book.sequence hi sd p := by
        rintro ⟨c, hc, hclo, hchi, hcs, hcp⟩
        obtain ⟨y, hy, hyp⟩ := hside.2 c hc (by omega) hchi hcs
        exact hw ⟨y, hy, hyp.trans hcp⟩
      have hk : P sd p ∨ Touched v s l.book.sequence sd p := by
        rcases hp with (hp | hp) | ⟨c, hc, hclo, hchi, hcs, hcp⟩
        · exact .inl hp
        · exact absurd hp hw
        · right
          refine ⟨c, hc, hclo, ?_, hcs, hcp⟩
          rw [hseq] at hchi
          apply Nat.le_of_not_lt
          intro hlt
          exact hnt ⟨c, hc, hlt, hchi, hcs, hcp⟩
      rw [hl.known sd p hk]
      exact (bookAt_untouched v _ hi sd p h2 hnt).symm

/-- one message: only an ADMITTED message has to be genuine; the known set does not shrink -/
theorem syncedOn_step_admitted {r : Rules} {v : Venue} {s : Nat} {P : Side → Rat → Prop} {l : Local} {m : Update}
    (hl : SyncedOn v s P l)
    (hg : ¬ Stale r l.sequencer.lastUpdateId m →
      Extends r (l.sequencer.updatesProcessed == 0) l.sequencer.lastUpdateId m → IsGenuine r v m) :
    SyncedOn v s P (l.step r m).1 := by
  rcases local_step_cases r l m with ⟨_, hv⟩ | ⟨hs, he, hv⟩ | ⟨_, _, hv⟩
  · rw [hv]; exact hl
  · rw [hv]; exact (syncedOn_admit hl (hg hs he) hs he).mono (fun _ _ h => .inl h)
  · rw [hv]; exact hl

theorem admittedBy_nil (r : Rules) (l : Local) : Local.admittedBy r l [] = [] := rfl

theorem admittedBy_cons (r : Rules) (l : Local) (m : Update) (ms : List Update) :
    Local.admittedBy r l (m :: ms) =
      match l.step r m with
      | (_, .error _) => []
      | (l', .valid u) => u :: Local.admittedBy r l' ms
      | (l', .dropped) => Local.admittedBy r l' ms := rfl

/-- **the run version** (hypothesis as in `synced_run_admitted`: only a message that is admitted has to
be genuine). The known set GROWS by the prices the admitted updates wrote. -/
theorem syncedOn_run_admitted {r : Rules} {v : Venue} {s : Nat} {P : Side → Rat → Prop} {l : Local}
    {ms : List Update} (hl : SyncedOn v s P l)
    (hg : ∀ pre m post, ms = pre ++ m :: post → (Local.run r l pre).2 = none →
      ¬ Stale r (Local.run r l pre).1.sequencer.lastUpdateId m →
      Extends r ((Local.run r l pre).1.sequencer.updatesProcessed == 0)
        (Local.run r l pre).1.sequencer.lastUpdateId m → IsGenuine r v m) :
    SyncedOn v s (fun sd p => P sd p ∨ ∃ u ∈ Local.admittedBy r l ms, u.Writes sd p)
      (Local.run r l ms).1 := by
  induction ms generalizing l P with
  | nil => exact hl.mono (fun sd p h => h.elim id (fun ⟨u, hu, _⟩ => by simp [admittedBy_nil] at hu))
  | cons m ms ih =>
    rw [local_run_cons, admittedBy_cons]
    rcases local_step_cases r l m with ⟨_, hv⟩ | ⟨hs, he, hv⟩ | ⟨_, _, hv⟩
    · rw [hv]
      refine ih hl ?_
      intro pre x post hsplit
      have hrun : Local.run r l (m :: pre) = Local.run r l pre := by rw [local_run_cons, hv]
      have := hg (m :: pre) x post (by rw [hsplit]; rfl)
      rw [hrun] at this; exact this
    · rw [hv]
      have hstep := syncedOn_admit hl (hg [] m ms rfl rfl hs he) hs he
      have := ih hstep (by
        intro pre x post hsplit
        have hrun : Local.run r l (m :: pre) =
            Local.run r ⟨l.sequencer.advance r m, l.book.update m.toEvent⟩ pre := by
          rw [local_run_cons, hv]
        have := hg (m :: pre) x post (by rw [hsplit]; rfl)
        rw [hrun] at this; exact this)
      refine this.mono ?_
      intro sd p h
      rcases h with h | ⟨u, hu, hw⟩
      · exact .inl (.inl h)
      · simp only [List.mem_cons] at hu
        rcases hu with hu | hu
        · subst hu; exact .inl (.inr hw)
        · exact .inr ⟨u, hu, hw⟩
    · rw [hv]
      exact hl.mono (fun sd p h => h.elim id (fun ⟨u, hu, _⟩ => by simp at hu))

/-! ## what a depth-limited snapshot covers -/

theorem abs_append_of_not_mem (a b : List Level) (p : Rat) (h : ∀ x ∈ b, x.price ≠ p) :
    abs (a ++ b) p = abs a p := by
  induction a with
  | nil => simpa [abs] using abs_eq_zero_of_not_mem h
  | cons x xs ih => simp only [List.cons_append, abs]; rw [ih]

/-- on a strictly ordered side, the first `n` levels decide every price that is not strictly worse than
the last of them -/
theorem abs_take_of_not_after {sd : Side} {ls : List Level} (h : Sorted sd ls) (n : Nat) (w : Level) (p : Rat)
    (hw : (ls.take n).getLast? = some w) (hp : sd.before w.price p = false) :
    abs (ls.take n) p = abs ls p := by
  have hsplit : ls = ls.take n ++ ls.drop n := (List.take_append_drop n ls).symm
  have hwm : w ∈ ls.take n := List.mem_of_getLast? hw
  have hpw : (ls.take n ++ ls.drop n).Pairwise (fun a b => sd.before a.price b.price = true) := by
    rw [← hsplit]; exact h
  rw [List.pairwise_append] at hpw
  have hnot : ∀ x ∈ ls.drop n, x.price ≠ p := by
    intro x hx hxp
    have := hpw.2.2 w hwm x hx
    rw [hxp, hp] at this
    exact Bool.false_ne_true this
  conv => rhs; rw [hsplit]
  exact (abs_append_of_not_mem _ _ p hnot).symm

/-- **a depth-limited snapshot is genuine on what it covers**: the venue's book as of `s` cut to the
best `n` levels per side (`truncateBook n (specBook v s)`: what `…&limit=n` returns) agrees with the
venue's book on every price `coveredBy` accepts — all prices of a side with fewer than `n` levels, and
otherwise the prices at least as good as the side's worst level. -/
theorem truncated_genuine_on (v : Venue) (s n : Nat) :
    GenuineSnapshotOn v s (truncateBook n (specBook v s))
      (fun sd p => coveredBy n sd (sideOf (truncateBook n (specBook v s)) sd) p = true) := by
  refine ⟨rfl, ?_⟩
  intro sd p hp
  have hw := wfBook_specBook v s
  have ha := abs_specBook v s
  have hside : sideOf (truncateBook n (specBook v s)) sd = (sideOf (specBook v s) sd).take n := by
    cases sd <;> rfl
  have habs : abs (sideOf (specBook v s) sd) = bookAt v s sd := by
    cases sd
    · exact ha.1
    · exact ha.2
  have hsorted : Sorted sd (sideOf (specBook v s) sd) := sorted_sideOf hw.toSortedBook sd
  rw [hside] at hp ⊢
  rw [← habs]
  unfold coveredBy at hp
  by_cases hlen : ((sideOf (specBook v s) sd).take n).length < n
  · have : (sideOf (specBook v s) sd).take n = sideOf (specBook v s) sd := by
      apply List.take_of_length_le
      rw [List.length_take] at hlen
      omega
    rw [this]
  · rw [if_neg hlen] at hp
    cases hl : ((sideOf (specBook v s) sd).take n).getLast? with
    | none => rw [hl] at hp; simp at hp
    | some w =>
      rw [hl] at hp
      simp only [Bool.not_eq_true'] at hp
      exact abs_take_of_not_after hsorted n w p hl hp

/-! ## the start of a connection -/

/-- a fresh sequencer on a snapshot that is genuine on `P` satisfies the invariant on `P` -/
theorem start_syncedOn (v : Venue) (s : Nat) (b0 : OrderBook) (P : Side → Rat → Prop) (hs : SortedBook b0)
    (hg : GenuineSnapshotOn v s b0 P) : SyncedOn v s P ⟨Sequencer.new s, b0⟩ := by
  refine ⟨hs, hg.1, ?_⟩
  intro sd p hp
  show abs (sideOf b0 sd) p = bookAt v b0.sequence sd p
  rw [hg.1]
  rcases hp with hp | ⟨c, _, h1, h2, _, _⟩
  · exact hg.2 sd p hp
  · have h2' : c.id ≤ b0.sequence := h2
    rw [hg.1] at h2'
    omega

/-- the full-depth snapshot hypothesis is the case `P = everything` -/
theorem genuineSnapshot_iff_on_all (v : Venue) (s : Nat) (b : OrderBook) :
    GenuineSnapshot v s b ↔ GenuineSnapshotOn v s b (fun _ _ => True) := by
  constructor
  · rintro ⟨h1, h2, h3⟩
    refine ⟨h1, fun sd p _ => ?_⟩
    cases sd
    · exact congrFun h2 p
    · exact congrFun h3 p
  · rintro ⟨h1, h2⟩
    exact ⟨h1, funext fun p => h2 .bids p trivial, funext fun p => h2 .asks p trivial⟩

/-! ## the whole connection, for any per-instrument invariant -/

/-- a connection all of whose subscribed instruments satisfy a per-instrument invariant `I` (indexed by
the subscription id) and whose subscriptions feed distinct books. `ConnSynced venues` is the instance
`I a = Synced (venues a)`. -/
structure ConnInv (I : Nat → Local → Prop) (c : Conn) : Prop where
  keysInj : ∀ a a' im im', c.transformer.instrumentMap.lookup a = some im →
    c.transformer.instrumentMap.lookup a' = some im' → im.key = im'.key → a = a'
  inv : ∀ a im, c.transformer.instrumentMap.lookup a = some im →
    ∃ b, c.books.lookup im.key = some b ∧ I a ⟨im.sequencer, b⟩

theorem connSynced_iff_inv (venues : Nat → Venue) (c : Conn) :
    ConnSynced venues c ↔ ConnInv (fun a l => Synced (venues a) l) c :=
  ⟨fun h => ⟨h.keysInj, h.synced⟩, fun h => ⟨h.keysInj, h.inv⟩⟩

/-- one message keeps the connection invariant if ADMITTING it keeps the instrument's invariant (the
other two outcomes leave sequencer and book alone); same case analysis as `connSynced_step'` -/
theorem connInv_step {r : Rules} {I : Nat → Local → Prop} {c : Conn} {m : Update} (hc : ConnInv I c)
    (hstep : ∀ im b, c.transformer.instrumentMap.lookup m.sub = some im → I m.sub ⟨im.sequencer, b⟩ →
      ¬ Stale r im.sequencer.lastUpdateId m →
      Extends r (im.sequencer.updatesProcessed == 0) im.sequencer.lastUpdateId m →
      I m.sub ⟨im.sequencer.advance r m, b.update m.toEvent⟩) :
    ConnInv I (c.step r m) := by
  cases halive : c.alive with
  | false => rw [conn_step_dead m halive]; exact hc
  | true =>
    rcases conn_step_cases r c m halive with ⟨_, hv⟩ | ⟨im, hl, hcase⟩
    · rw [hv]; exact hc
    · have hlook : ∀ sq a, (setSequencer c.transformer.instrumentMap m.sub sq).lookup a =
          if a = m.sub then some { im with sequencer := sq } else c.transformer.instrumentMap.lookup a := by
        intro sq a
        rw [lookup_setSequencer]
        by_cases ha : a = m.sub
        · simp [ha, hl]
        · simp [ha]
      have hinj : ∀ sq, ∀ a a' x x', (setSequencer c.transformer.instrumentMap m.sub sq).lookup a = some x →
          (setSequencer c.transformer.instrumentMap m.sub sq).lookup a' = some x' → x.key = x'.key → a = a' := by
        intro sq a a' x x' h1 h2 hk
        rw [hlook] at h1 h2
        by_cases ha : a = m.sub <;> by_cases ha' : a' = m.sub
        · rw [ha, ha']
        · simp only [ha, ↓reduceIte, Option.some.injEq, ha'] at h1 h2
          subst h1; subst ha
          exact hc.keysInj _ _ _ _ hl h2 hk
        · simp only [ha, ↓reduceIte, Option.some.injEq, ha'] at h1 h2
          subst h2; subst ha'
          exact hc.keysInj _ _ _ _ h1 hl hk
        · simp only [ha, ↓reduceIte, ha'] at h1 h2
          exact hc.keysInj _ _ _ _ h1 h2 hk
      have key : ∀ al, ConnInv I
          ⟨⟨setSequencer c.transformer.instrumentMap m.sub im.sequencer⟩, c.books, al⟩ := by
        intro al
        refine ⟨hinj _, ?_⟩
        intro a x hx
        simp only at hx
        rw [hlook] at hx
        by_cases ha : a = m.sub
        · simp only [ha, ↓reduceIte, Option.some.injEq] at hx
          subst hx; rw [ha]; exact hc.inv _ _ hl
        · simp only [ha, ↓reduceIte] at hx; exact hc.inv _ _ hx
      rcases hcase with ⟨_, hv⟩ | ⟨hs, he, hv⟩ | ⟨_, _, hv⟩
      · rw [hv]; exact key true
      · rw [hv]
        refine ⟨hinj _, ?_⟩
        intro a x hx
        simp only at hx ⊢
        rw [hlook] at hx
        by_cases ha : a = m.sub
        · simp only [ha, ↓reduceIte, Option.some.injEq] at hx
          subst hx
          obtain ⟨b, hb, hsync⟩ := hc.inv _ _ hl
          refine ⟨b.update m.toEvent, ?_, ?_⟩
          · rw [lookup_managerStep]; simp [hb]
          · rw [ha]; exact hstep im b hl hsync hs he
        · simp only [ha, ↓reduceIte] at hx
          obtain ⟨b, hb, hsync⟩ := hc.inv _ _ hx
          have hk : x.key ≠ im.key := fun hk => ha (hc.keysInj _ _ _ _ hx hl hk)
          exact ⟨b, by rw [lookup_managerStep]; simp [hk, hb], hsync⟩
      · rw [hv]; exact key false

/-- coupling invariant of a connection whose snapshots are genuine on per-instrument price sets:
per subscription `a`, the snapshot id `s a` and the covered prices `P a` -/
def ConnSyncedOn (venues : Nat → Venue) (s : Nat → Nat) (P : Nat → Side → Rat → Prop) (c : Conn) : Prop :=
  ConnInv (fun a l => SyncedOn (venues a) (s a) (P a) l) c

theorem connSynced_iff_on_all (venues : Nat → Venue) (s : Nat → Nat) (c : Conn) :
    ConnSynced venues c ↔ ConnSyncedOn venues s (fun _ _ _ => True) c := by
  rw [connSynced_iff_inv]
  constructor
  · intro h
    exact ⟨h.keysInj, fun a im hl => by
      obtain ⟨b, hb, hs⟩ := h.inv a im hl
      exact ⟨b, hb, (synced_iff_on_all _ (s a) _).mp hs⟩⟩
  · intro h
    exact ⟨h.keysInj, fun a im hl => by
      obtain ⟨b, hb, hs⟩ := h.inv a im hl
      exact ⟨b, hb, (synced_iff_on_all _ (s a) _).mpr hs⟩⟩

theorem connSyncedOn_step' {r : Rules} {venues : Nat → Venue} {s : Nat → Nat} {P : Nat → Side → Rat → Prop}
    {c : Conn} {m : Update} (hc : ConnSyncedOn venues s P c)
    (hg : ∀ im, c.transformer.instrumentMap.lookup m.sub = some im →
      ¬ Stale r im.sequencer.lastUpdateId m → IsGenuine r (venues m.sub) m) :
    ConnSyncedOn venues s P (c.step r m) :=
  connInv_step hc (fun im b hl hsync hs he =>
    (syncedOn_admit (l := ⟨im.sequencer, b⟩) hsync (hg im hl hs) hs he).mono (fun _ _ h => .inl h))

theorem connSyncedOn_run' {r : Rules} {venues : Nat → Venue} {s : Nat → Nat} {P : Nat → Side → Rat → Prop}
    {c : Conn} {ms : List Update} (hc : ConnSyncedOn venues s P c)
    (hg : ∀ pre m post, ms = pre ++ m :: post →
      ∀ im, (c.run r pre).transformer.instrumentMap.lookup m.sub = some im →
      ¬ Stale r im.sequencer.lastUpdateId m → IsGenuine r (venues m.sub) m) :
    ConnSyncedOn venues s P (c.run r ms) := by
  induction ms generalizing c with
  | nil => exact hc
  | cons m ms ih =>
    simp only [Conn.run, List.foldl_cons]
    refine ih (connSyncedOn_step' hc (hg [] m ms rfl)) ?_
    intro pre x post hsplit
    have := hg (m :: pre) x post (by rw [hsplit]; rfl)
    simpa [Conn.run] using this

/-- a freshly initialised connection whose snapshots are strictly ordered and genuine on the price sets
`P` (taken at the ids `s`) satisfies the invariant on `P` -/
theorem connSyncedOn_start (venues : Nat → Venue) (s : Nat → Nat) (P : Nat → Side → Rat → Prop)
    (insts : List (Nat × Nat × OrderBook)) (hkey : (insts.map (·.2.1)).Nodup)
    (h : ∀ x ∈ insts, SortedBook x.2.2 ∧ GenuineSnapshotOn (venues x.1) (s x.1) x.2.2 (P x.1)) :
    ConnSyncedOn venues s P (Conn.start insts) := by
  constructor
  · intro a a' im im' h1 h2 hk
    obtain ⟨x, hx, hxa, hxm⟩ := lookup_map_some insts (·.1) _ a im h1
    obtain ⟨y, hy, hya, hym⟩ := lookup_map_some insts (·.1) _ a' im' h2
    have : x = y := eq_of_nodup_map insts (·.2.1) hkey x y hx hy (by rw [← hxm, ← hym] at hk; exact hk)
    rw [← hxa, ← hya, this]
  · intro a im h1
    obtain ⟨x, hx, hxa, hxm⟩ := lookup_map_some insts (·.1) _ a im h1
    refine ⟨x.2.2, ?_, ?_⟩
    · rw [← hxm]; exact lookup_map_mem insts (·.2.1) (·.2.2) x hx hkey
    · obtain ⟨hs, hg⟩ := h x hx
      rw [← hxm, ← hxa]
      have := start_syncedOn (venues x.1) (s x.1) x.2.2 (P x.1) hs hg
      have hseq : x.2.2.sequence = s x.1 := hg.1
      show SyncedOn (venues x.1) (s x.1) (P x.1) ⟨Sequencer.new x.2.2.sequence, x.2.2⟩
      rw [hseq]
      exact this

/-! ## the executable oracle of the per-level claim -/

theorem touchedB_iff (v : Venue) (lo hi : Nat) (sd : Side) (p : Rat) :
    touchedB v lo hi sd p = true ↔ Touched v lo hi sd p := by
  simp [touchedB, Touched, List.any_eq_true, and_assoc]

theorem sortedBook_truncate {b : OrderBook} (h : SortedBook b) (n : Nat) : SortedBook (truncateBook n b) :=
  ⟨sorted_take h.bids n, sorted_take h.asks n⟩

end BarterModel.BinanceL2
