import BarterModel.Model.Names
import BarterModel.Lemmas.Index
/-! Helper lemmas for the sub-check C11N (core Lean only). -/
namespace BarterModel.Names

/-! ### A. characters and lower-casing -/

theorem toNat_ofNat_small (k : Nat) (h : k < 55296) : (Char.ofNat k).toNat = k := by
  have hv : k.isValidChar := Or.inl h
  rw [Char.ofNat, dif_pos hv]
  rfl

theorem lowcs_ascii (c : Char) (h : c.toNat < 128) : lowcs c = [asciiLower c] := by
  unfold lowcs asciiLower
  by_cases h1 : 65 ≤ c.toNat ∧ c.toNat ≤ 90
  · simp [h1]
  · simp only [h1, if_false]
    rw [if_neg (by omega), if_neg (by omega), if_neg (by omega), if_neg (by omega), if_neg (by omega)]

/-- every character `char::to_lowercase` produces is a fixed point of it -/
theorem lowcs_fixed (c c' : Char) (h : c' ∈ lowcs c) : lowcs c' = [c'] := by
  have fix : ∀ k, k < 55296 → ¬(65 ≤ k ∧ k ≤ 90) → ¬((192 ≤ k ∧ k ≤ 214) ∨ (216 ≤ k ∧ k ≤ 222)) →
      k ≠ 304 → ¬((913 ≤ k ∧ k ≤ 929) ∨ (931 ≤ k ∧ k ≤ 937)) → ¬(1024 ≤ k ∧ k ≤ 1039) →
      ¬(1040 ≤ k ∧ k ≤ 1071) → lowcs (Char.ofNat k) = [Char.ofNat k] := by
    intro k hk h1 h2 h3 h4 h5 h6
    unfold lowcs
    simp only [toNat_ofNat_small k hk]
    rw [if_neg h1, if_neg h2, if_neg h3, if_neg h4, if_neg h5, if_neg h6]
  unfold lowcs at h
  simp only at h
  split at h
  · simp only [List.mem_singleton] at h; subst h
    exact fix _ (by omega) (by omega) (by omega) (by omega) (by omega) (by omega) (by omega)
  split at h
  · simp only [List.mem_singleton] at h; subst h
    exact fix _ (by omega) (by omega) (by omega) (by omega) (by omega) (by omega) (by omega)
  split at h
  · simp only [List.mem_cons, List.not_mem_nil, or_false] at h
    rcases h with rfl | rfl <;> decide
  split at h
  · simp only [List.mem_singleton] at h; subst h
    exact fix _ (by omega) (by omega) (by omega) (by omega) (by omega) (by omega) (by omega)
  split at h
  · simp only [List.mem_singleton] at h; subst h
    exact fix _ (by omega) (by omega) (by omega) (by omega) (by omega) (by omega) (by omega)
  split at h
  · simp only [List.mem_singleton] at h; subst h
    exact fix _ (by omega) (by omega) (by omega) (by omega) (by omega) (by omega) (by omega)
  · simp only [List.mem_singleton] at h; subst h
    unfold lowcs
    simp only
    rw [if_neg ‹_›, if_neg ‹_›, if_neg ‹_›, if_neg ‹_›, if_neg ‹_›, if_neg ‹_›]

/-- a lowercase character is its own lower case -/
theorem lowcs_of_isLowerC (c : Char) (h : isLowerC c = true) : lowcs c = [c] := by
  unfold isLowerC at h
  simp only [Bool.decide_or, Bool.decide_and, Bool.or_eq_true, Bool.and_eq_true,
    decide_eq_true_eq] at h
  unfold lowcs
  simp only
  rw [if_neg (by omega), if_neg (by omega), if_neg (by omega), if_neg (by omega), if_neg (by omega),
    if_neg (by omega)]

theorem lowerStr_append (s t : Str) : lowerStr (s ++ t) = lowerStr s ++ lowerStr t := by
  simp [lowerStr]

theorem lowerStr_cons (c : Char) (s : Str) : lowerStr (c :: s) = lowcs c ++ lowerStr s := by
  simp [lowerStr]

theorem lowerStr_fixed (s : Str) (h : ∀ c ∈ s, lowcs c = [c]) : lowerStr s = s := by
  induction s with
  | nil => rfl
  | cons c s ih =>
    rw [lowerStr_cons, h c (by simp), ih (fun x hx => h x (by simp [hx]))]
    rfl

theorem lowerStr_idem (s : Str) : lowerStr (lowerStr s) = lowerStr s := by
  apply lowerStr_fixed
  intro c hc
  simp only [lowerStr, List.mem_flatMap] at hc
  obtain ⟨a, _, ha⟩ := hc
  exact lowcs_fixed a c ha

/-- the `if all lowercase` shortcut of the constructors is unobservable -/
theorem nameNew_eq_lowerStr (s : Str) : nameNew s = lowerStr s := by
  unfold nameNew
  split
  · rename_i h
    rw [List.all_eq_true] at h
    exact (lowerStr_fixed s (fun c hc => lowcs_of_isLowerC c (h c hc))).symm
  · rfl

theorem nameNew_idem (s : Str) : nameNew (nameNew s) = nameNew s := by
  simp only [nameNew_eq_lowerStr, lowerStr_idem]

theorem lowerStr_ascii (s : Str) (h : IsAscii s) : lowerStr s = s.map asciiLower := by
  induction s with
  | nil => rfl
  | cons c s ih =>
    rw [lowerStr_cons, lowcs_ascii c (h c (by simp)), ih (fun x hx => h x (by simp [hx]))]
    rfl

/-! ### B. the documented reading: table look-up, equality up to the case of Latin letters -/

theorem upper_mem_range : ∀ x ∈ upperAlphabet, 65 ≤ x.toNat ∧ x.toNat ≤ 90 := by decide
theorem lower_mem_range : ∀ x ∈ lowerAlphabet, 97 ≤ x.toNat ∧ x.toNat ≤ 122 := by decide

theorem idxOf?_none_of_not_mem (l : Str) (c : Char) (h : c ∉ l) : l.idxOf? c = none := by
  simp [List.idxOf?, List.findIdx?_eq_none_iff]
  intro x hx hxc
  exact h (hxc ▸ hx)

theorem upper_idx (c : Char) (h1 : 65 ≤ c.toNat) (h2 : c.toNat ≤ 90) :
    upperAlphabet.idxOf? c = some (c.toNat - 65) := by
  have key : ∀ n, n < 91 → 65 ≤ n → upperAlphabet.idxOf? (Char.ofNat n) = some (n - 65) := by decide
  have := key c.toNat (by omega) h1
  rwa [Char.ofNat_toNat] at this

theorem lower_idx (c : Char) (h1 : 97 ≤ c.toNat) (h2 : c.toNat ≤ 122) :
    lowerAlphabet.idxOf? c = some (c.toNat - 97) := by
  have key : ∀ n, n < 123 → 97 ≤ n → lowerAlphabet.idxOf? (Char.ofNat n) = some (n - 97) := by decide
  have := key c.toNat (by omega) h1
  rwa [Char.ofNat_toNat] at this

theorem upper_idx_none (c : Char) (h : ¬(65 ≤ c.toNat ∧ c.toNat ≤ 90)) :
    upperAlphabet.idxOf? c = none :=
  idxOf?_none_of_not_mem _ _ (fun hm => h (upper_mem_range c hm))

theorem lower_idx_none (c : Char) (h : ¬(97 ≤ c.toNat ∧ c.toNat ≤ 122)) :
    lowerAlphabet.idxOf? c = none :=
  idxOf?_none_of_not_mem _ _ (fun hm => h (lower_mem_range c hm))

/-- the table look-up of the specification is the arithmetic of the code -/
theorem specLowerC_eq (c : Char) : specLowerC c = asciiLower c := by
  unfold specLowerC asciiLower
  by_cases h : 65 ≤ c.toNat ∧ c.toNat ≤ 90
  · rw [upper_idx c h.1 h.2, if_pos h]
    have key : ∀ n, n < 91 → 65 ≤ n → lowerAlphabet[n - 65]? = some (Char.ofNat (n + 32)) := by
      decide
    show List.getD lowerAlphabet (c.toNat - 65) c = _
    rw [List.getD_eq_getElem?_getD, key c.toNat (by omega) h.1]
    rfl
  · rw [upper_idx_none c h, if_neg h]

theorem specLower_eq (s : Str) : specLower s = s.map asciiLower := by
  unfold specLower
  congr 1
  funext c
  exact specLowerC_eq c

theorem letterIdx_eq (c : Char) :
    letterIdx c = if 65 ≤ c.toNat ∧ c.toNat ≤ 90 then some (c.toNat - 65)
      else if 97 ≤ c.toNat ∧ c.toNat ≤ 122 then some (c.toNat - 97) else none := by
  unfold letterIdx
  by_cases h : 65 ≤ c.toNat ∧ c.toNat ≤ 90
  · rw [upper_idx c h.1 h.2, if_pos h]
  · rw [upper_idx_none c h, if_neg h]
    by_cases h' : 97 ≤ c.toNat ∧ c.toNat ≤ 122
    · rw [lower_idx c h'.1 h'.2, if_pos h']
    · rw [lower_idx_none c h', if_neg h']

theorem asciiLower_toNat (c : Char) :
    (asciiLower c).toNat = if 65 ≤ c.toNat ∧ c.toNat ≤ 90 then c.toNat + 32 else c.toNat := by
  unfold asciiLower
  split
  · exact toNat_ofNat_small _ (by omega)
  · rfl

theorem caseEqC_iff (a b : Char) : caseEqC a b = true ↔ asciiLower a = asciiLower b := by
  rw [← Char.toNat_inj, asciiLower_toNat, asciiLower_toNat]
  unfold caseEqC
  simp only [Bool.or_eq_true, beq_iff_eq, Bool.and_eq_true, letterIdx_eq,
    ← Char.toNat_inj (c := a) (d := b)]
  generalize a.toNat = A
  generalize b.toNat = B
  by_cases h1 : 65 ≤ A ∧ A ≤ 90 <;> by_cases h2 : 97 ≤ A ∧ A ≤ 122 <;>
    by_cases h3 : 65 ≤ B ∧ B ≤ 90 <;> by_cases h4 : 97 ≤ B ∧ B ≤ 122 <;>
    simp only [h1, h2, h3, h4, if_true, if_false, Option.isSome_some, Option.isSome_none,
      Option.some.injEq, true_and, false_and, or_false, Bool.false_eq_true, reduceCtorEq] <;>
    omega

theorem caseEq_iff (s t : Str) : caseEq s t = true ↔ s.map asciiLower = t.map asciiLower := by
  induction s generalizing t with
  | nil => cases t <;> simp [caseEq]
  | cons a s ih =>
    cases t with
    | nil => simp [caseEq]
    | cons b t => simp [caseEq, ih, caseEqC_iff]

/-! ### C. the name code -/

theorem char_toNat_lt (c : Char) : c.toNat < 1114112 := by
  have h := c.valid
  simp only [UInt32.isValidChar, Nat.isValidChar] at h
  show c.val.toNat < 1114112
  omega

theorem B_pow_pos (n : Nat) : 0 < B ^ n := Nat.pow_pos (by decide)

theorem digit_lt {a b x P : Nat} (y : Nat) (hab : a < b) (hx : x < P) : a * P + x < b * P + y := by
  have h : (a + 1) * P ≤ b * P := Nat.mul_le_mul_right P hab
  rw [Nat.succ_mul] at h
  omega

theorem digit_lt_iff {a b x y P : Nat} (hx : x < P) (hy : y < P) :
    a * P + x < b * P + y ↔ a < b ∨ (a = b ∧ x < y) := by
  rcases Nat.lt_trichotomy a b with h | h | h
  · exact ⟨fun _ => Or.inl h, fun _ => digit_lt y h hx⟩
  · subst h
    constructor
    · intro h'; exact Or.inr ⟨rfl, by omega⟩
    · rintro (h' | ⟨_, h'⟩) <;> omega
  · have := digit_lt x h hy
    constructor
    · intro h'; omega
    · rintro (h' | ⟨h', _⟩) <;> omega

theorem digit_eq {a b x y P : Nat} (hx : x < P) (hy : y < P) (h : a * P + x = b * P + y) :
    a = b ∧ x = y := by
  rcases Nat.lt_trichotomy a b with h' | h' | h'
  · have := digit_lt y h' hx; omega
  · subst h'; exact ⟨rfl, by omega⟩
  · have := digit_lt x h' hy; omega

theorem encN_lt (n : Nat) (s : Str) : encN n s < B ^ n := by
  induction n generalizing s with
  | zero => simp [encN]
  | succ n ih =>
    cases s with
    | nil => simpa [encN] using B_pow_pos (n + 1)
    | cons c s =>
      simp only [encN]
      have h1 := ih s
      have h2 := char_toNat_lt c
      have h3 : (c.toNat + 1) * B ^ n ≤ (B - 1) * B ^ n :=
        Nat.mul_le_mul_right _ (by simp only [B]; omega)
      have h4 : B ^ (n + 1) = (B - 1) * B ^ n + B ^ n := by
        rw [Nat.pow_succ, Nat.mul_comm, ← Nat.succ_mul]; rfl
      omega

/-- the code is injective on names of at most `n` characters -/
theorem encN_inj (n : Nat) (s t : Str) (hs : s.length ≤ n) (ht : t.length ≤ n)
    (h : encN n s = encN n t) : s = t := by
  induction n generalizing s t with
  | zero =>
    have : s = [] := List.eq_nil_of_length_eq_zero (by omega)
    have : t = [] := List.eq_nil_of_length_eq_zero (by omega)
    simp_all
  | succ n ih =>
    cases s with
    | nil =>
      cases t with
      | nil => rfl
      | cons d t =>
        simp only [encN] at h
        have := Nat.mul_le_mul_right (B ^ n) (show 1 ≤ d.toNat + 1 by omega)
        have := B_pow_pos n
        omega
    | cons c s =>
      cases t with
      | nil =>
        simp only [encN] at h
        have := Nat.mul_le_mul_right (B ^ n) (show 1 ≤ c.toNat + 1 by omega)
        have := B_pow_pos n
        omega
      | cons d t =>
        simp only [encN] at h
        have ⟨h1, h2⟩ := digit_eq (encN_lt n s) (encN_lt n t) h
        have hc : c = d := Char.toNat_inj.mp (by omega)
        simp only [List.length_cons] at hs ht
        rw [hc, ih s t (by omega) (by omega) h2]

theorem char_lt_iff (c d : Char) : c < d ↔ c.toNat < d.toNat := by
  rw [Char.lt_def, UInt32.lt_iff_toNat_lt]; rfl

/-- the code is strictly monotone: the order of the codes is Rust's `str` order (lexicographic by
Unicode scalar value = by UTF-8 bytes) -/
theorem encN_lt_iff (n : Nat) (s t : Str) (hs : s.length ≤ n) (ht : t.length ≤ n) :
    encN n s < encN n t ↔ s < t := by
  induction n generalizing s t with
  | zero =>
    have : s = [] := List.eq_nil_of_length_eq_zero (by omega)
    have : t = [] := List.eq_nil_of_length_eq_zero (by omega)
    subst_vars
    simp [encN]
  | succ n ih =>
    cases s with
    | nil =>
      cases t with
      | nil => simp [encN]
      | cons d t =>
        simp only [encN, List.nil_lt_cons, iff_true]
        have := Nat.mul_le_mul_right (B ^ n) (show 1 ≤ d.toNat + 1 by omega)
        have := B_pow_pos n
        omega
    | cons c s =>
      cases t with
      | nil => simp [encN]
      | cons d t =>
        simp only [List.length_cons] at hs ht
        simp only [encN, List.cons_lt_cons_iff]
        rw [digit_lt_iff (encN_lt n s) (encN_lt n t), ih s t (by omega) (by omega), char_lt_iff,
          ← Char.toNat_inj]
        constructor <;> rintro (h | ⟨h1, h2⟩) <;>
          first | exact Or.inl (by omega) | exact Or.inr ⟨by omega, h2⟩

theorem decN_encN (n : Nat) (s : Str) (hs : s.length ≤ n) : decN n (encN n s) = s := by
  induction n generalizing s with
  | zero =>
    have : s = [] := List.eq_nil_of_length_eq_zero (by omega)
    subst this; rfl
  | succ n ih =>
    cases s with
    | nil => simp [encN, decN]
    | cons c s =>
      simp only [List.length_cons] at hs
      have hP := B_pow_pos n
      have hx := encN_lt n s
      have hd : ((c.toNat + 1) * B ^ n + encN n s) / B ^ n = c.toNat + 1 := by
        rw [Nat.add_comm, Nat.add_mul_div_right _ _ hP, Nat.div_eq_of_lt hx]; omega
      have hm : ((c.toNat + 1) * B ^ n + encN n s) % B ^ n = encN n s := by
        rw [Nat.add_comm, Nat.add_mul_mod_self_right, Nat.mod_eq_of_lt hx]
      simp only [encN, decN, hd, hm]
      rw [if_neg (by omega), ih s (by omega)]
      simp [Char.ofNat_toNat]

theorem code_inj (s t : Str) (hs : s.length ≤ L) (ht : t.length ≤ L) (h : code s = code t) : s = t :=
  encN_inj L s t hs ht h

theorem code_lt_iff (s t : Str) (hs : s.length ≤ L) (ht : t.length ≤ L) : code s < code t ↔ s < t :=
  encN_lt_iff L s t hs ht

theorem decode_code (s : Str) (hs : s.length ≤ L) : decode (code s) = s := decN_encN L s hs

/-! ### D. lookups -/
section lookups
open BarterModel.Index

theorem okOr_ok_iff {α ε : Type} (o : Option α) (e : ε) (a : α) : okOr o e = .ok a ↔ o = some a := by
  cases o <;> simp [okOr]

theorem okOr_error_iff {α ε : Type} (o : Option α) (e x : ε) :
    okOr o e = .error x ↔ o = none ∧ x = e := by
  cases o <;> simp [okOr, eq_comm]

/-- `find_map` / `position`: the first index whose element satisfies `p` -/
theorem findIdx?_first {α : Type} (p : α → Bool) (l : List α) (i : Nat) :
    l.findIdx? p = some i ↔
      (∃ x, l[i]? = some x ∧ p x = true) ∧ ∀ j, j < i → ∀ y, l[j]? = some y → p y = false := by
  rw [List.findIdx?_eq_some_iff_getElem]
  constructor
  · rintro ⟨h, hp, hlt⟩
    refine ⟨⟨l[i], by simp [h], hp⟩, ?_⟩
    intro j hj y hy
    obtain ⟨hjl, rfl⟩ := List.getElem?_eq_some_iff.mp hy
    simpa using hlt j hj
  · rintro ⟨⟨x, hx, hp⟩, hlt⟩
    obtain ⟨h, rfl⟩ := List.getElem?_eq_some_iff.mp hx
    refine ⟨h, hp, ?_⟩
    intro j hj
    have := hlt j hj l[j] (by simp [show j < l.length by omega])
    simp [this]

theorem getElem?_enumerate_eq {α : Type} (l : List α) (k : Nat) (x : Keyed Nat α) :
    (enumerate l)[k]? = some x ↔ x.key = k ∧ l[k]? = some x.value := by
  rw [getElem?_enumerate]
  obtain ⟨xk, xv⟩ := x
  cases l[k]? <;> simp [eq_comm]

end lookups

/-! ### E. instruments -/
section instruments
open BarterModel.Index (Kind Units Spec specUnitAsset)
variable {ε E A B : Type}

theorem mapAssetKey_error_iff (f : A → Except ε B) (i : Instrument E A) (x : ε) :
    i.mapAssetKeyWithLookup f = .error x ↔ firstError f i.assetRefs = some x := by
  obtain ⟨e, ni, ne, b, q, qa, k, sp⟩ := i
  simp only [Instrument.mapAssetKeyWithLookup, Instrument.assetRefs]
  cases hb : f b <;> simp only [firstError, List.cons_append, List.nil_append, hb]
  · simp
  cases hq : f q <;> simp only []
  · simp
  cases k with
  | spot =>
    simp only [kindMapE, Kind.settlementAsset, Option.toList, List.nil_append]
    cases sp with
    | none => simp [specMapE, specUnitAsset, firstError]
    | some s =>
      obtain ⟨pm, tk, u, qm, qi, nm⟩ := s
      cases u with
      | asset a => cases ha : f a <;> simp [specMapE, specUnitAsset, firstError, ha, Except.map]
      | contract => simp [specMapE, specUnitAsset, firstError]
      | quote => simp [specMapE, specUnitAsset, firstError]
  | perpetual z a0 =>
    simp only [kindMapE, Kind.settlementAsset, Option.toList, List.cons_append, List.nil_append]
    cases h0 : f a0 <;> simp only [firstError, h0, Except.map]
    · simp
    cases sp with
    | none => simp [specMapE, specUnitAsset, firstError]
    | some s =>
      obtain ⟨pm, tk, u, qm, qi, nm⟩ := s
      cases u with
      | asset a => cases ha : f a <;> simp [specMapE, specUnitAsset, firstError, ha, Except.map]
      | contract => simp [specMapE, specUnitAsset, firstError]
      | quote => simp [specMapE, specUnitAsset, firstError]
  | future z a0 ex =>
    simp only [kindMapE, Kind.settlementAsset, Option.toList, List.cons_append, List.nil_append]
    cases h0 : f a0 <;> simp only [firstError, h0, Except.map]
    · simp
    cases sp with
    | none => simp [specMapE, specUnitAsset, firstError]
    | some s =>
      obtain ⟨pm, tk, u, qm, qi, nm⟩ := s
      cases u with
      | asset a => cases ha : f a <;> simp [specMapE, specUnitAsset, firstError, ha, Except.map]
      | contract => simp [specMapE, specUnitAsset, firstError]
      | quote => simp [specMapE, specUnitAsset, firstError]
  | option z a0 p xx ex st =>
    simp only [kindMapE, Kind.settlementAsset, Option.toList, List.cons_append, List.nil_append]
    cases h0 : f a0 <;> simp only [firstError, h0, Except.map]
    · simp
    cases sp with
    | none => simp [specMapE, specUnitAsset, firstError]
    | some s =>
      obtain ⟨pm, tk, u, qm, qi, nm⟩ := s
      cases u with
      | asset a => cases ha : f a <;> simp [specMapE, specUnitAsset, firstError, ha, Except.map]
      | contract => simp [specMapE, specUnitAsset, firstError]
      | quote => simp [specMapE, specUnitAsset, firstError]

theorem firstError_none_iff (f : A → Except ε B) (l : List A) :
    firstError f l = none ↔ ∀ a ∈ l, ∃ b, f a = .ok b := by
  induction l with
  | nil => simp [firstError]
  | cons a t ih =>
    simp only [firstError, List.mem_cons, forall_eq_or_imp]
    cases f a <;> simp [ih]

theorem firstError_some_iff (f : A → Except ε B) (l : List A) (x : ε) :
    firstError f l = some x ↔
      ∃ pre a post, l = pre ++ a :: post ∧ (∀ p ∈ pre, ∃ b, f p = .ok b) ∧ f a = .error x := by
  induction l with
  | nil => simp [firstError]
  | cons a t ih =>
    simp only [firstError]
    cases ha : f a with
    | error y =>
      constructor
      · intro h; cases h
        exact ⟨[], a, t, rfl, by simp, ha⟩
      · rintro ⟨pre, a', post, hl, hpre, ha'⟩
        cases pre with
        | nil => simp at hl; obtain ⟨rfl, _⟩ := hl; rw [ha] at ha'; cases ha'; rfl
        | cons p pre =>
          simp at hl; obtain ⟨rfl, _⟩ := hl
          obtain ⟨b, hb⟩ := hpre a (by simp)
          rw [ha] at hb; cases hb
    | ok b0 =>
      simp only [ih]
      constructor
      · rintro ⟨pre, a', post, rfl, hpre, ha'⟩
        exact ⟨a :: pre, a', post, rfl, by
          intro p hp; rcases List.mem_cons.mp hp with rfl | hp
          · exact ⟨b0, ha⟩
          · exact hpre p hp, ha'⟩
      · rintro ⟨pre, a', post, hl, hpre, ha'⟩
        cases pre with
        | nil => simp at hl; obtain ⟨rfl, _⟩ := hl; rw [ha] at ha'; cases ha'
        | cons p pre =>
          simp at hl; obtain ⟨rfl, rfl⟩ := hl
          exact ⟨pre, a', post, rfl, fun p hp => hpre p (by simp [hp]), ha'⟩

end instruments

/-! ### F. string-named definitions seen by the builder -/
section erase

theorem mem_all (e : ExchangeId) : e ∈ ExchangeId.all := by cases e <;> decide

theorem ofNat?_toNat (e : ExchangeId) : ExchangeId.ofNat? e.toNat = some e := by cases e <;> rfl

theorem toNat_inj {a b : ExchangeId} (h : a.toNat = b.toNat) : a = b := by
  have := ofNat?_toNat a
  rw [h, ofNat?_toNat] at this
  exact (Option.some.inj this).symm

theorem toNat_lt (e : ExchangeId) : e.toNat < 42 := by cases e <;> decide

theorem toDef_assetRefs (d : SDef) :
    BarterModel.Index.Instrument.assetRefs (toDef d) = d.assetRefs.map Asset.erase := by
  obtain ⟨e, ni, ne, b, q, qa, k, sp⟩ := d
  cases k <;> cases sp <;>
    simp [toDef, BarterModel.Index.Instrument.assetRefs, Instrument.assetRefs, kindMap, specMap,
      BarterModel.Index.Kind.settlementAsset, BarterModel.Index.specUnitAsset]
  all_goals (rename_i s; obtain ⟨pm, tk, u, qm, qi, nm⟩ := s; cases u <;> simp)

theorem except_cases {ε α : Type} (r : Except ε α) : (∃ a, r = .ok a) ↔ ¬ ∃ x, r = .error x := by
  cases r <;> simp

end erase

/-! ### G. the error-carrying key mapping and the builder's `Option` view of it -/
section optionView
open BarterModel.Index (Kind Units Spec)

set_option hygiene false in
local macro "spec_part" : tactic => `(tactic|
  (cases sp with
   | none => simp [specMapE, BarterModel.Index.specMapOpt, Except.toOption, eraseNames]
   | some s =>
     obtain ⟨pm, tk, u, qm, qi, nm⟩ := s
     cases u with
     | asset a =>
       cases ha : f a <;>
         simp [specMapE, BarterModel.Index.specMapOpt, BarterModel.Index.Units.mapOpt, Except.toOption,
           Except.map, ha, eraseNames]
     | contract =>
       simp [specMapE, BarterModel.Index.specMapOpt, BarterModel.Index.Units.mapOpt, Except.toOption,
         eraseNames]
     | quote =>
       simp [specMapE, BarterModel.Index.specMapOpt, BarterModel.Index.Units.mapOpt, Except.toOption,
         eraseNames]))

theorem mapAssetKey_option_view {ε E A B : Type} (f : A → Except ε B) (i : Instrument E A) :
    (i.mapAssetKeyWithLookup f).toOption.map eraseNames =
      (eraseNames i).mapAssetKeyWithLookup (fun a => (f a).toOption) := by
  obtain ⟨e, ni, ne, b, q, qa, k, sp⟩ := i
  simp only [Instrument.mapAssetKeyWithLookup, BarterModel.Index.Instrument.mapAssetKeyWithLookup,
    eraseNames]
  cases hb : f b <;> simp only [Except.toOption, Option.map_none]
  cases hq : f q <;> simp only [Option.map_none]
  cases k with
  | spot =>
    simp only [kindMapE, BarterModel.Index.Kind.mapOpt]
    spec_part
  | perpetual z a0 =>
    cases h0 : f a0 <;>
      simp only [kindMapE, BarterModel.Index.Kind.mapOpt, Except.map, h0, Option.map_none,
        Option.map_some]
    spec_part
  | future z a0 ex =>
    cases h0 : f a0 <;>
      simp only [kindMapE, BarterModel.Index.Kind.mapOpt, Except.map, h0, Option.map_none,
        Option.map_some]
    spec_part
  | option z a0 p xx ex st =>
    cases h0 : f a0 <;>
      simp only [kindMapE, BarterModel.Index.Kind.mapOpt, Except.map, h0, Option.map_none,
        Option.map_some]
    spec_part

end optionView

/-! ### H. ranks, and the specification's tables (insertion into an ascending list) against the
builder's `sort(); dedup()` -/
section tables
open BarterModel.Index

theorem filter_length_of_split {α : Type} (p : α → Bool) (l : List α) (i : Nat) (hi : i ≤ l.length)
    (h1 : ∀ j x, j < i → l[j]? = some x → p x = true)
    (h2 : ∀ j x, i ≤ j → l[j]? = some x → p x = false) : (l.filter p).length = i := by
  have hsplit : l = l.take i ++ l.drop i := (List.take_append_drop i l).symm
  rw [hsplit, List.filter_append]
  have ha : (l.take i).filter p = l.take i := by
    rw [List.filter_eq_self]
    intro x hx
    obtain ⟨j, hj⟩ := List.mem_iff_getElem?.mp hx
    rw [List.getElem?_take] at hj
    split at hj
    · exact h1 j x ‹_› hj
    · cases hj
  have hb : (l.drop i).filter p = [] := by
    rw [List.filter_eq_nil_iff]
    intro x hx
    obtain ⟨j, hj⟩ := List.mem_iff_getElem?.mp hx
    rw [List.getElem?_drop] at hj
    have := h2 (i + j) x (by omega) hj
    simp [this]
  rw [ha, hb]
  simp [List.length_take]
  omega

theorem le_cons2 {a b a' b' : Nat} {r r' : List Nat} (h : a :: b :: r ≤ a' :: b' :: r') :
    a < a' ∨ (a = a' ∧ b ≤ b') := by
  have h' : ¬ (a' :: b' :: r' < a :: b :: r) := List.not_lt.mpr h
  simp only [List.cons_lt_cons_iff] at h'
  rcases Nat.lt_trichotomy a a' with h1 | h1 | h1
  · exact Or.inl h1
  · refine Or.inr ⟨h1, ?_⟩
    rcases Nat.lt_or_ge b' b with h2 | h2
    · exact absurd (Or.inr ⟨h1.symm, Or.inl h2⟩) h'
    · exact h2
  · exact absurd (Or.inl h1) h'


/-- the rank argument shared by the asset and the instrument table: in a list that is ascending in
the pair `(f x, g x)`, the first position holding the pair `(e, n)` is the number of entries whose
pair comes before it -/
theorem rank_of_first {α : Type} (f g : α → Nat) (l : List α)
    (hs : l.Pairwise (fun a b => f a < f b ∨ (f a = f b ∧ g a ≤ g b))) (e n i : Nat) (x : α)
    (hx : l[i]? = some x) (hxe : f x = e) (hxn : g x = n)
    (hfirst : ∀ j, j < i → ∀ y, l[j]? = some y → ¬(f y = e ∧ g y = n)) :
    (l.filter (fun y => keyLt (f y) (g y) e n)).length = i := by
  obtain ⟨hil, hxi⟩ := List.getElem?_eq_some_iff.mp hx
  apply filter_length_of_split _ _ _ (by omega)
  · intro j y hj hy
    obtain ⟨hjl, hyj⟩ := List.getElem?_eq_some_iff.mp hy
    have := (List.pairwise_iff_getElem.mp hs) j i hjl hil hj
    rw [hyj, hxi, hxe, hxn] at this
    have hne := hfirst j hj y hy
    simp only [keyLt, decide_eq_true_eq]
    omega
  · intro j y hj hy
    obtain ⟨hjl, hyj⟩ := List.getElem?_eq_some_iff.mp hy
    simp only [keyLt, decide_eq_false_iff_not]
    rcases Nat.lt_or_eq_of_le hj with hlt | heq
    · have := (List.pairwise_iff_getElem.mp hs) i j hil hjl hlt
      rw [hyj, hxi, hxe, hxn] at this
      omega
    · subst heq
      rw [hx] at hy; cases hy
      omega


/-- counting the distinct elements that satisfy a predicate commutes with a map that is injective on
the list -/
theorem distinct_filter_map_length {α β : Type} [DecidableEq α] [DecidableEq β] (f : α → β)
    (l : List α) (hinj : ∀ x ∈ l, ∀ y ∈ l, f x = f y → x = y) (p : β → Bool) (q : α → Bool)
    (hpq : ∀ x ∈ l, p (f x) = q x) :
    ((specDistinct (l.map f)).filter p).length = ((specDistinct l).filter q).length := by
  have hperm : ((specDistinct l).map f).Perm (specDistinct (l.map f)) := by
    apply perm_specDistinct
    · exact nodup_map_of_injOn f _ (nodup_specDistinct l) (fun x hx y hy =>
        hinj x ((mem_specDistinct l x).mp hx) y ((mem_specDistinct l y).mp hy))
    · intro x; simp [mem_specDistinct]
  rw [← (hperm.filter p).length_eq, List.filter_map, List.length_map]
  congr 1
  apply List.filter_congr
  intro x hx
  exact hpq x ((mem_specDistinct l x).mp hx)


theorem flatMap_defAssets_toDef (defs : List SDef) :
    (defs.map toDef).flatMap defAssets = (specAssetEntries defs).map eraseEntry := by
  simp only [specAssetEntries, List.flatMap_map, List.map_flatMap]
  congr 1
  funext d
  simp only [defAssets, toDef_assetRefs, List.map_map]
  rfl

theorem specKeyLt_code (e e' : ExchangeId) (n n' : Str) (hn : n.length ≤ L) (hn' : n'.length ≤ L) :
    keyLt e.toNat (code n) e'.toNat (code n') = specKeyLt e n e' n' := by
  simp only [keyLt, specKeyLt, code_lt_iff n n' hn hn']
  by_cases h1 : e.toNat < e'.toNat
  · simp [h1]
  · by_cases h2 : e = e'
    · subst h2; simp
    · have : e.toNat ≠ e'.toNat := fun h => h2 (toNat_inj h)
      simp [h1, h2, this]

theorem mem_specAssetEntries (defs : List SDef) (x : ExchangeId × BarterModel.Names.Asset) :
    x ∈ specAssetEntries defs ↔ ∃ d ∈ defs, x.1 = d.exchange ∧ x.2 ∈ d.assetRefs := by
  simp only [specAssetEntries, List.mem_flatMap, List.mem_map]
  constructor
  · rintro ⟨d, hd, a, ha, rfl⟩; exact ⟨d, hd, rfl, ha⟩
  · rintro ⟨d, hd, h1, h2⟩; exact ⟨d, hd, x.2, h2, by cases x; simp_all⟩


def Asset.ShortA (a : BarterModel.Names.Asset) : Prop :=
  a.nameInternal.name.length ≤ L ∧ a.nameExchange.name.length ≤ L

theorem erase_inj (a b : BarterModel.Names.Asset) (ha : Asset.ShortA a) (hb : Asset.ShortA b)
    (h : a.erase = b.erase) : a = b := by
  obtain ⟨⟨ai⟩, ⟨ax⟩⟩ := a
  obtain ⟨⟨bi⟩, ⟨bx⟩⟩ := b
  simp only [Asset.erase, BarterModel.Index.Asset.mk.injEq] at h
  have e1 : ai = bi := code_inj _ _ ha.1 hb.1 h.1
  have e2 : ax = bx := code_inj _ _ ha.2 hb.2 h.2
  rw [e1, e2]

theorem kindMap_erase_inj (k k' : Kind BarterModel.Names.Asset)
    (hk : ∀ a, k.settlementAsset = some a → Asset.ShortA a)
    (hk' : ∀ a, k'.settlementAsset = some a → Asset.ShortA a)
    (h : kindMap Asset.erase k = kindMap Asset.erase k') : k = k' := by
  cases k <;> cases k' <;> simp only [kindMap, Kind.perpetual.injEq, Kind.future.injEq,
    Kind.option.injEq, reduceCtorEq] at h ⊢
  all_goals
    first
    | (obtain ⟨h1, h2⟩ := h
       exact ⟨h1, erase_inj _ _ (hk _ rfl) (hk' _ rfl) h2⟩)
    | (obtain ⟨h1, h2, h3⟩ := h
       exact ⟨h1, erase_inj _ _ (hk _ rfl) (hk' _ rfl) h2, h3⟩)
    | (obtain ⟨h1, h2, h3, h4, h5, h6⟩ := h
       exact ⟨h1, erase_inj _ _ (hk _ rfl) (hk' _ rfl) h2, h3, h4, h5, h6⟩)

theorem specMap_erase_inj (s s' : Option (Spec BarterModel.Names.Asset))
    (hs : ∀ a, specUnitAsset s = some a → Asset.ShortA a)
    (hs' : ∀ a, specUnitAsset s' = some a → Asset.ShortA a)
    (h : specMap Asset.erase s = specMap Asset.erase s') : s = s' := by
  cases s with
  | none => cases s' <;> simp [specMap] at h ⊢
  | some a =>
    cases s' with
    | none => simp [specMap] at h
    | some b =>
      obtain ⟨pm, tk, u, qm, qi, nm⟩ := a
      obtain ⟨pm', tk', u', qm', qi', nm'⟩ := b
      simp only [specMap, Option.some.injEq, Spec.mk.injEq] at h ⊢
      obtain ⟨h1, h2, h3, h4, h5, h6⟩ := h
      refine ⟨h1, h2, ?_, h4, h5, h6⟩
      cases u <;> cases u' <;> simp only [Units.asset.injEq, reduceCtorEq] at h3 ⊢
      exact erase_inj _ _ (hs _ rfl) (hs' _ rfl) h3

/-- on definitions whose names fit the code, the translation into the builder model loses nothing -/
theorem toDef_inj (x y : SDef) (hx : x.Short) (hy : y.Short) (h : toDef x = toDef y) : x = y := by
  obtain ⟨xe, ⟨xi⟩, ⟨xn⟩, xb, xq, xqa, xk, xs⟩ := x
  obtain ⟨ye, ⟨yi⟩, ⟨yn⟩, yb, yq, yqa, yk, ys⟩ := y
  simp only [toDef, BarterModel.Index.Instrument.mk.injEq] at h
  obtain ⟨h1, h2, h3, h4, h5, h6, h7, h8⟩ := h
  obtain ⟨hx1, hx2, hx3⟩ := hx
  obtain ⟨hy1, hy2, hy3⟩ := hy
  simp only [BarterModel.Names.Instrument.assetRefs, List.mem_append, List.mem_cons, List.not_mem_nil, or_false,
    Option.mem_toList] at hx3 hy3
  have e1 := toNat_inj h1
  have e2 := code_inj _ _ hx1 hy1 h2
  have e3 := code_inj _ _ hx2 hy2 h3
  have e4 := erase_inj xb yb (hx3 _ (Or.inl (Or.inl (Or.inl rfl)))) (hy3 _ (Or.inl (Or.inl (Or.inl rfl)))) h4
  have e5 := erase_inj xq yq (hx3 _ (Or.inl (Or.inl (Or.inr rfl)))) (hy3 _ (Or.inl (Or.inl (Or.inr rfl)))) h5
  have e7 := kindMap_erase_inj xk yk (fun a ha => hx3 a (Or.inl (Or.inr ha)))
    (fun a ha => hy3 a (Or.inl (Or.inr ha))) h7
  have e8 := specMap_erase_inj xs ys (fun a ha => hx3 a (Or.inr ha)) (fun a ha => hy3 a (Or.inr ha)) h8
  simp only at e2 e3
  subst e1 e2 e3 e4 e5 h6 e7 e8
  rfl


section specSort
variable {α β : Type} (lt : α → α → Bool) (K : α → List Nat)

theorem mem_specInsert (x w : α) (l : List α) (h : w ∈ specInsert lt x l) : w = x ∨ w ∈ l := by
  induction l with
  | nil => simp [specInsert] at h; exact Or.inl h
  | cons y t ih =>
    simp only [specInsert] at h
    split at h
    · simpa using h
    · split at h
      · rcases List.mem_cons.mp h with rfl | h'
        · exact Or.inr (by simp)
        · rcases ih h' with h'' | h''
          · exact Or.inl h''
          · exact Or.inr (List.mem_cons_of_mem _ h'')
      · exact Or.inr h

/-- one insertion into a list ascending in `K`, for an order `lt` that is `K`'s on the elements
involved: still ascending, nothing lost, and the new element is there up to `K` -/
theorem specInsert_spec (x : α) (l : List α)
    (hlt : ∀ a ∈ x :: l, ∀ b ∈ x :: l, (lt a b = true ↔ K a < K b))
    (hs : l.Pairwise (fun a b => K a < K b)) :
    (specInsert lt x l).Pairwise (fun a b => K a < K b) ∧ (∀ w ∈ l, w ∈ specInsert lt x l) ∧
      ∃ z ∈ specInsert lt x l, K z = K x := by
  induction l with
  | nil => simp [specInsert]
  | cons y t ih =>
    have ⟨hy, ht⟩ := List.pairwise_cons.mp hs
    have ih' := ih (fun a ha b hb => hlt a (by
        rcases List.mem_cons.mp ha with rfl | ha
        · simp
        · simp [ha]) b (by
        rcases List.mem_cons.mp hb with rfl | hb
        · simp
        · simp [hb])) ht
    simp only [specInsert]
    by_cases h1 : lt x y = true
    · rw [if_pos h1]
      have hxy : K x < K y := (hlt x (by simp) y (by simp)).mp h1
      refine ⟨List.pairwise_cons.mpr ⟨?_, hs⟩, fun w hw => List.mem_cons_of_mem _ hw, x, by simp, rfl⟩
      intro z hz
      rcases List.mem_cons.mp hz with rfl | hz
      · exact hxy
      · exact List.lt_trans hxy (hy z hz)
    · rw [if_neg h1]
      by_cases h2 : lt y x = true
      · rw [if_pos h2]
        have hyx : K y < K x := (hlt y (by simp) x (by simp)).mp h2
        obtain ⟨p1, p2, z, hz, hzx⟩ := ih'
        refine ⟨List.pairwise_cons.mpr ⟨?_, p1⟩, ?_, z, List.mem_cons_of_mem _ hz, hzx⟩
        · intro w hw
          rcases mem_specInsert lt x w t hw with rfl | hw
          · exact hyx
          · exact hy w hw
        · intro w hw
          rcases List.mem_cons.mp hw with rfl | hw
          · simp
          · exact List.mem_cons_of_mem _ (p2 w hw)
      · rw [if_neg h2]
        refine ⟨hs, fun w hw => hw, y, by simp, ?_⟩
        have n1 : ¬ K x < K y := fun h => h1 ((hlt x (by simp) y (by simp)).mpr h)
        have n2 : ¬ K y < K x := fun h => h2 ((hlt y (by simp) x (by simp)).mpr h)
        exact List.le_antisymm (List.not_lt.mp n1) (List.not_lt.mp n2)

theorem specSort_fold (l acc : List α)
    (hlt : ∀ a ∈ acc ++ l, ∀ b ∈ acc ++ l, (lt a b = true ↔ K a < K b))
    (hs : acc.Pairwise (fun a b => K a < K b)) :
    (l.foldl (fun acc x => specInsert lt x acc) acc).Pairwise (fun a b => K a < K b) ∧
    (∀ w ∈ l.foldl (fun acc x => specInsert lt x acc) acc, w ∈ acc ++ l) ∧
    ∀ y ∈ acc ++ l, ∃ z ∈ l.foldl (fun acc x => specInsert lt x acc) acc, K z = K y := by
  induction l generalizing acc with
  | nil =>
    simp only [List.foldl_nil, List.append_nil]
    exact ⟨hs, fun w hw => hw, fun y hy => ⟨y, hy, rfl⟩⟩
  | cons x t ih =>
    simp only [List.foldl_cons]
    have hsub : ∀ w ∈ specInsert lt x acc, w ∈ acc ++ x :: t := by
      intro w hw
      rcases mem_specInsert lt x w acc hw with rfl | hw
      · simp
      · simp [hw]
    obtain ⟨q1, q2, z0, hz0, hzx⟩ := specInsert_spec lt K x acc (fun a ha b hb => hlt a (by
        rcases List.mem_cons.mp ha with rfl | ha
        · simp
        · simp [ha]) b (by
        rcases List.mem_cons.mp hb with rfl | hb
        · simp
        · simp [hb])) hs
    obtain ⟨r1, r2, r3⟩ := ih (specInsert lt x acc) (fun a ha b hb => hlt a (by
        rcases List.mem_append.mp ha with ha | ha
        · exact hsub a ha
        · simp [ha]) b (by
        rcases List.mem_append.mp hb with hb | hb
        · exact hsub b hb
        · simp [hb])) q1
    refine ⟨r1, ?_, ?_⟩
    · intro w hw
      rcases List.mem_append.mp (r2 w hw) with h | h
      · exact hsub w h
      · simp [h]
    · intro y hy
      rcases List.mem_append.mp hy with h | h
      · exact r3 y (List.mem_append_left _ (q2 y h))
      · rcases List.mem_cons.mp h with rfl | h
        · obtain ⟨z, hz, hzz⟩ := r3 z0 (List.mem_append_left _ hz0)
          exact ⟨z, hz, hzz.trans hzx⟩
        · exact r3 y (List.mem_append_right _ h)

/-- "sorted + deduped" written as insertion into an ascending list is the builder's `sort(); dedup()`,
seen through a translation `f` into a type with an injective sort key under which `lt` is the key order -/
theorem specSortDistinct_map_eq [DecidableEq β] (f : α → β) (key : β → List Nat)
    (hinj : Function.Injective key) (l : List α)
    (hlt : ∀ a ∈ l, ∀ b ∈ l, (lt a b = true ↔ key (f a) < key (f b))) :
    (specSortDistinct lt l).map f = sortDedup key (l.map f) := by
  obtain ⟨p1, p2, p3⟩ := specSort_fold lt (fun a => key (f a)) l [] (by simpa using hlt) (by simp)
  simp only [List.nil_append] at p2 p3
  apply strict_ext (leKey key) (leKey_antisymm key hinj)
  · unfold Strict
    rw [List.pairwise_map]
    refine p1.imp ?_
    intro a b hab
    refine ⟨decide_eq_true (List.le_of_lt hab), fun he => ?_⟩
    rw [he] at hab
    exact List.lt_irrefl _ hab
  · exact strict_sortDedup key hinj _
  · intro x
    rw [mem_sortDedup]
    simp only [List.mem_map]
    constructor
    · rintro ⟨a, ha, rfl⟩; exact ⟨a, p2 a ha, rfl⟩
    · rintro ⟨a, ha, rfl⟩
      obtain ⟨z, hz, hzz⟩ := p3 a ha
      exact ⟨z, hz, hinj hzz⟩

end specSort

theorem lt3 (a b c a' b' c' : Nat) :
    [a, b, c] < [a', b', c'] ↔ a < a' ∨ (a = a' ∧ (b < b' ∨ (b = b' ∧ c < c'))) := by
  simp [List.cons_lt_cons_iff]

theorem specAssetLt_key (x y : ExchangeId × BarterModel.Names.Asset)
    (hx : x.2.nameInternal.name.length ≤ L ∧ x.2.nameExchange.name.length ≤ L)
    (hy : y.2.nameInternal.name.length ≤ L ∧ y.2.nameExchange.name.length ≤ L) :
    specAssetLt x y = true ↔ (eraseEntry x).sortKey < (eraseEntry y).sortKey := by
  obtain ⟨xe, ⟨⟨xi⟩, ⟨xx⟩⟩⟩ := x
  obtain ⟨ye, ⟨⟨yi⟩, ⟨yx⟩⟩⟩ := y
  simp only at hx hy
  simp only [eraseEntry, ExchangeAsset.sortKey, Asset.erase, lt3, code_lt_iff _ _ hx.1 hy.1,
    code_lt_iff _ _ hx.2 hy.2, specAssetLt, specKeyLt, Bool.or_eq_true, Bool.and_eq_true,
    decide_eq_true_eq, beq_iff_eq, AssetNameInternal.mk.injEq]
  have hc : code xi = code yi ↔ xi = yi := ⟨code_inj _ _ hx.1 hy.1, fun h => h ▸ rfl⟩
  have he : xe.toNat = ye.toNat ↔ xe = ye := ⟨toNat_inj, fun h => h ▸ rfl⟩
  rw [hc, he]
  constructor
  · rintro ((h | ⟨h1, h2⟩) | ⟨⟨h1, h2⟩, h3⟩)
    · exact Or.inl h
    · exact Or.inr ⟨h1, Or.inl h2⟩
    · exact Or.inr ⟨h1, Or.inr ⟨h2, h3⟩⟩
  · rintro (h | ⟨h1, h2 | ⟨h2, h3⟩⟩)
    · exact Or.inl (Or.inl h)
    · exact Or.inl (Or.inr ⟨h1, h2⟩)
    · exact Or.inr ⟨⟨h1, h2⟩, h3⟩


theorem all_toNat_strict : ExchangeId.all.Pairwise
    (fun a b => leKey exchangeKey a.toNat b.toNat = true ∧ a.toNat ≠ b.toNat) := by decide +kernel


end tables

end BarterModel.Names
