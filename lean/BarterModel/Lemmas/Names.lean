import BarterModel.Model.Names
import BarterModel.Lemmas.Index
/-! Helper lemmas for the sub-check C11N (core Lean only). -/
namespace BarterModel.Names

/-! ### A. characters and lower-casing -/

theorem toNat_ofNat_small (k : Nat) (h : k < 55296) : (Char.ofNat k).toNat = k := by
  have hv : k.isValidChar := Or.inl h
  rw [Char.ofNat, dif_pos hv]
  rfl

theorem lowcs_ascii (c : Char) (h : c.toNat < 128) : lowcs c = [asciiLower c] := by
  unfold lowcs asciiLower
  by_cases h1 : 65 ≤ c.toNat ∧ c.toNat ≤ 90
  · simp [h1]
  · simp only [h1, if_false]
    rw [if_neg (by omega), if_neg (by omega), if_neg (by omega), if_neg (by omega), if_neg (by omega)]

/-- every character `char::to_lowercase` produces is a fixed point of it -/
theorem lowcs_fixed (c c' : Char) (h : c' ∈ lowcs c) : lowcs c' = [c'] := by
  have fix : ∀ k, k < 55296 → ¬(65 ≤ k ∧ k ≤ 90) → ¬((192 ≤ k ∧ k ≤ 214) ∨ (216 ≤ k ∧ k ≤ 222)) →
      k ≠ 304 → ¬((913 ≤ k ∧ k ≤ 929) ∨ (931 ≤ k ∧ k ≤ 937)) → ¬(1024 ≤ k ∧ k ≤ 1039) →
      ¬(1040 ≤ k ∧ k ≤ 1071) → lowcs (Char.ofNat k) = [Char.ofNat k] := by
    intro k hk h1 h2 h3 h4 h5 h6
    unfold lowcs
    simp only [toNat_ofNat_small k hk]
    rw [if_neg h1, if_neg h2, if_neg h3, if_neg h4, if_neg h5, if_neg h6]
  unfold lowcs at h
  simp only at h
  split at h
  · simp only [List.mem_singleton] at h; subst h
    exact fix _ (by omega) (by omega) (by omega) (by omega) (by omega) (by omega) (by omega)
  split at h
  · simp only [List.mem_singleton] at h; subst h
    exact fix _ (by omega) (by omega) (by omega) (by omega) (by omega) (by omega) (by omega)
  split at h
  · simp only [List.mem_cons, List.not_mem_nil, or_false] at h
    rcases h with rfl | rfl <;> decide
  split at h
  · simp only [List.mem_singleton] at h; subst h
    exact fix _ (by omega) (by omega) (by omega) (by omega) (by omega) (by omega) (by omega)
  split at h
  · simp only [List.mem_singleton] at h; subst h
    exact fix _ (by omega) (by omega) (by omega) (by omega) (by omega) (by omega) (by omega)
  split at h
  · simp only [List.mem_singleton] at h; subst h
    exact fix _ (by omega) (by omega) (by omega) (by omega) (by omega) (by omega) (by omega)
  · simp only [List.mem_singleton] at h; subst h
    unfold lowcs
    simp only
    rw [if_neg ‹_›, if_neg ‹_›, if_neg ‹_›, if_neg ‹_›, if_neg ‹_›, if_neg ‹_›]

/-- a lowercase character is its own lower case -/
theorem lowcs_of_isLowerC (c : Char) (h : isLowerC c = true) : lowcs c = [c] := by
  unfold isLowerC at h
  simp only [Bool.decide_or, Bool.decide_and, Bool.or_eq_true, Bool.and_eq_true,
    decide_eq_true_eq] at h
  unfold lowcs
  simp only
  rw [if_neg (by omega), if_neg (by omega), if_neg (by omega), if_neg (by omega), if_neg (by omega),
    if_neg (by omega)]

theorem lowerStr_append (s t : Str) : lowerStr (s ++ t) = lowerStr s ++ lowerStr t := by
  simp [lowerStr]

theorem lowerStr_cons (c : Char) (s : Str) : lowerStr (c :: s) = lowcs c ++ lowerStr s := by
  simp [lowerStr]

theorem lowerStr_fixed (s : Str) (h : ∀ c ∈ s, lowcs c = [c]) : lowerStr s = s := by
  induction s with
  | nil => rfl
  | cons c s ih =>
    rw [lowerStr_cons, h c (by simp), ih (fun x hx => h x (by simp [hx]))]
    rfl

theorem lowerStr_idem (s : Str) : lowerStr (lowerStr s) = lowerStr s := by
  apply lowerStr_fixed
  intro c hc
  simp only [lowerStr, List.mem_flatMap] at hc
  obtain ⟨a, _, ha⟩ := hc
  exact lowcs_fixed a c ha

/-- the `if all lowercase` shortcut of the constructors is unobservable -/
theorem nameNew_eq_lowerStr (s : Str) : nameNew s = lowerStr s := by
  unfold nameNew
  split
  · rename_i h
    rw [List.all_eq_true] at h
    exact (lowerStr_fixed s (fun c hc => lowcs_of_isLowerC c (h c hc))).symm
  · rfl

theorem nameNew_idem (s : Str) : nameNew (nameNew s) = nameNew s := by
  simp only [nameNew_eq_lowerStr, lowerStr_idem]

theorem lowerStr_ascii (s : Str) (h : IsAscii s) : lowerStr s = s.map asciiLower := by
  induction s with
  | nil => rfl
  | cons c s ih =>
    rw [lowerStr_cons, lowcs_ascii c (h c (by simp)), ih (fun x hx => h x (by simp [hx]))]
    rfl

/-! ### B. the documented reading: table look-up, equality up to the case of Latin letters -/

theorem upper_mem_range : ∀ x ∈ upperAlphabet, 65 ≤ x.toNat ∧ x.toNat ≤ 90 := by decide
theorem lower_mem_range : ∀ x ∈ lowerAlphabet, 97 ≤ x.toNat ∧ x.toNat ≤ 122 := by decide

theorem idxOf?_none_of_not_mem (l : Str) (c : Char) (h : c ∉ l) : l.idxOf? c = none := by
  simp [List.idxOf?, List.findIdx?_eq_none_iff]
  intro x hx hxc
  exact h (hxc ▸ hx)

theorem upper_idx (c : Char) (h1 : 65 ≤ c.toNat) (h2 : c.toNat ≤ 90) :
    upperAlphabet.idxOf? c = some (c.toNat - 65) := by
  have key : ∀ n, n < 91 → 65 ≤ n → upperAlphabet.idxOf? (Char.ofNat n) = some (n - 65) := by decide
  have := key c.toNat (by omega) h1
  rwa [Char.ofNat_toNat] at this

theorem lower_idx (c : Char) (h1 : 97 ≤ c.toNat) (h2 : c.toNat ≤ 122) :
    lowerAlphabet.idxOf? c = some (c.toNat - 97) := by
  have key : ∀ n, n < 123 → 97 ≤ n → lowerAlphabet.idxOf? (Char.ofNat n) = some (n - 97) := by decide
  have := key c.toNat (by omega) h1
  rwa [Char.ofNat_toNat] at this

theorem upper_idx_none (c : Char) (h : ¬(65 ≤ c.toNat ∧ c.toNat ≤ 90)) :
    upperAlphabet.idxOf? c = none :=
  idxOf?_none_of_not_mem _ _ (fun hm => h (upper_mem_range c hm))

theorem lower_idx_none (c : Char) (h : ¬(97 ≤ c.toNat ∧ c.toNat ≤ 122)) :
    lowerAlphabet.idxOf? c = none :=
  idxOf?_none_of_not_mem _ _ (fun hm => h (lower_mem_range c hm))

/-- the table look-up of the specification is the arithmetic of the code -/
theorem specLowerC_eq (c : Char) : specLowerC c = asciiLower c := by
  unfold specLowerC asciiLower
  by_cases h : 65 ≤ c.toNat ∧ c.toNat ≤ 90
  · rw [upper_idx c h.1 h.2, if_pos h]
    have key : ∀ n, n < 91 → 65 ≤ n → lowerAlphabet[n - 65]? = some (Char.ofNat (n + 32)) := by
      decide
    show List.getD lowerAlphabet (c.toNat - 65) c = _
    rw [List.getD_eq_getElem?_getD, key c.toNat (by omega) h.1]
    rfl
  · rw [upper_idx_none c h, if_neg h]

theorem specLower_eq (s : Str) : specLower s = s.map asciiLower := by
  unfold specLower
  congr 1
  funext c
  exact specLowerC_eq c

theorem letterIdx_eq (c : Char) :
    letterIdx c = if 65 ≤ c.toNat ∧ c.toNat ≤ 90 then some (c.toNat - 65)
      else if 97 ≤ c.toNat ∧ c.toNat ≤ 122 then some (c.toNat - 97) else none := by
  unfold letterIdx
  by_cases h : 65 ≤ c.toNat ∧ c.toNat ≤ 90
  · rw [upper_idx c h.1 h.2, if_pos h]
  · rw [upper_idx_none c h, if_neg h]
    by_cases h' : 97 ≤ c.toNat ∧ c.toNat ≤ 122
    · rw [lower_idx c h'.1 h'.2, if_pos h']
    · rw [lower_idx_none c h', if_neg h']

theorem asciiLower_toNat (c : Char) :
    (asciiLower c).toNat = if 65 ≤ c.toNat ∧ c.toNat ≤ 90 then c.toNat + 32 else c.toNat := by
  unfold asciiLower
  split
  · exact toNat_ofNat_small _ (by omega)
  · rfl

theorem caseEqC_iff (a b : Char) : caseEqC a b = true ↔ asciiLower a = asciiLower b := by
  rw [← Char.toNat_inj, asciiLower_toNat, asciiLower_toNat]
  unfold caseEqC
  simp only [Bool.or_eq_true, beq_iff_eq, Bool.and_eq_true, letterIdx_eq,
    ← Char.toNat_inj (c := a) (d := b)]
  generalize a.toNat = A
  generalize b.toNat = B
  by_cases h1 : 65 ≤ A ∧ A ≤ 90 <;> by_cases h2 : 97 ≤ A ∧ A ≤ 122 <;>
    by_cases h3 : 65 ≤ B ∧ B ≤ 90 <;> by_cases h4 : 97 ≤ B ∧ B ≤ 122 <;>
    simp only [h1, h2, h3, h4, if_true, if_false, Option.isSome_some, Option.isSome_none,
      Option.some.injEq, true_and, false_and, or_false, Bool.false_eq_true, reduceCtorEq] <;>
    omega

theorem caseEq_iff (s t : Str) : caseEq s t = true ↔ s.map asciiLower = t.map asciiLower := by
  induction s generalizing t with
  | nil => cases t <;> simp [caseEq]
  | cons a s ih =>
    cases t with
    | nil => simp [caseEq]
    | cons b t => simp [caseEq, ih, caseEqC_iff]

end BarterModel.Names
