import BarterModel.Lemmas.ExecManager
/-!
# Helper lemmas added after the independent review (round 2) — C07 liveness

The review (`audit/REVIEW-notes.md`, C07-1; scratch `audit/scratch/g2/C07a.lean`) showed that the
liveness clause of C07 is provable inside the model for **every** schedule, not just for the one
schedule `tick dt ++ settleSched` of `eventually_resolved_partial`. These are the supporting lemmas
(about `ExecManager.step` / `run`); the audited statements are in `Props/C07.lean`
(`fair_liveness`, `eventually_resolved_request`, `eventually_resolved`).
-/
namespace BarterModel.ExecManager

/-- No action makes a manager that has left the loop run again. -/
theorem status_running_back (c : Cfg) (s : State) (a : Action)
    (h : (step c s a).status = .running) : s.status = .running := by
  cases a with
  | tick dt => simpa [step] using h
  | intake q =>
    by_cases hs : s.status = .running
    · exact hs
    · simp [step, hs] at h
  | poll rid =>
    by_cases hs : s.status = .running
    · exact hs
    · simp [step, hs] at h
  | shutdown =>
    by_cases hs : s.status = .running
    · exact hs
    · simp [step, hs] at h

/-- A schedule that ends with the manager running started (and passed every intermediate state)
with the manager running. -/
theorem run_running_back (c : Cfg) (bs : List Action) : ∀ (s : State),
    (run c s bs).status = .running → s.status = .running := by
  induction bs with
  | nil => intro s h; exact h
  | cons a bs ih =>
    intro s h
    exact status_running_back c s a (ih (step c s a) (by simpa [run] using h))

theorem run_append (c : Cfg) (s : State) (as bs : List Action) :
    run c s (as ++ bs) = run c (run c s as) bs := by
  simp [run, List.foldl_append]

/-- Request `r` has left the in-flight set: its future completed (ghost log `resolved`). -/
def Resolved (s : State) (r : Req) : Prop := ∃ x ∈ s.resolved, x.req = r

/-- The ghost log of completed futures only grows. -/
theorem resolved_mono (c : Cfg) (s : State) (a : Action) (r : Req) (h : Resolved s r) :
    Resolved (step c s a) r := by
  obtain ⟨x, hx, hr⟩ := h
  refine ⟨x, ?_, hr⟩
  cases a with
  | tick dt => simpa [step] using hx
  | intake q =>
    simp only [step]; split
    · exact hx
    · split <;> exact hx
  | poll rid =>
    simp only [step]; split
    · exact hx
    · split
      · exact hx
      · split
        · exact hx
        · simp [hx]
  | shutdown =>
    simp only [step]; split <;> exact hx

theorem resolved_mono_run (c : Cfg) (bs : List Action) : ∀ (s : State) (r : Req), Resolved s r →
    Resolved (run c s bs) r := by
  induction bs with
  | nil => intro s r h; exact h
  | cons a bs ih => intro s r h; exact ih _ r (resolved_mono c s a r h)

/-- The ghost log of accepted requests only grows. -/
theorem accepted_mono (c : Cfg) (s : State) (a : Action) (r : Req) (h : r ∈ s.accepted) :
    r ∈ (step c s a).accepted := by
  cases a with
  | tick dt => simpa [step] using h
  | intake q =>
    simp only [step]; split
    · exact h
    · split
      · exact h
      · simp [h]
  | poll rid =>
    simp only [step]; split
    · exact h
    · split
      · exact h
      · split <;> exact h
  | shutdown =>
    simp only [step]; split <;> exact h

theorem accepted_mono_run (c : Cfg) (bs : List Action) : ∀ (s : State) (r : Req),
    r ∈ s.accepted → r ∈ (run c s bs).accepted := by
  induction bs with
  | nil => intro s r h; exact h
  | cons a bs ih => intro s r h; exact ih _ r (accepted_mono c s a r h)

/-- The clock never goes back. -/
theorem now_mono (c : Cfg) (s : State) (a : Action) : s.now ≤ (step c s a).now := by
  cases a with
  | tick dt => simp [step]
  | intake q =>
    simp only [step]; split
    · exact Nat.le_refl _
    · split <;> exact Nat.le_refl _
  | poll rid =>
    simp only [step]; split
    · exact Nat.le_refl _
    · split
      · exact Nat.le_refl _
      · split <;> exact Nat.le_refl _
  | shutdown =>
    simp only [step]; split <;> exact Nat.le_refl _

theorem now_mono_run (c : Cfg) (bs : List Action) : ∀ (s : State), s.now ≤ (run c s bs).now := by
  induction bs with
  | nil => intro s; exact Nat.le_refl _
  | cons a bs ih => intro s; exact Nat.le_trans (now_mono c s a) (ih _)

/-- "In flight and overdue" is kept by every step that leaves the manager running — unless the step
resolves the request. -/
theorem overdue_step (c : Cfg) (s : State) (a : Action) (r : Req)
    (hr : r ∈ s.pending) (hd : c.deadline r ≤ s.now) (hrun : (step c s a).status = .running) :
    (r ∈ (step c s a).pending ∧ c.deadline r ≤ (step c s a).now) ∨ Resolved (step c s a) r := by
  have hs : s.status = .running := status_running_back c s a hrun
  cases a with
  | tick dt => left; simp [step]; exact ⟨hr, by omega⟩
  | intake q =>
    by_cases hc : c.configured q.key = true
    · left; simp [step, hs, hc]; exact ⟨Or.inl hr, hd⟩
    · simp [step, hs, hc] at hrun
  | shutdown => simp [step, hs] at hrun
  | poll rid =>
    simp only [step, hs, ne_eq, not_true_eq_false, if_false]
    cases hf : s.pending.find? (fun r => r.rid == rid) with
    | none => left; exact ⟨hr, hd⟩
    | some r0 =>
      simp only []
      cases hp : pollReq c r0 s.now with
      | none => left; exact ⟨hr, hd⟩
      | some f =>
        simp only []
        by_cases he : r0 = r
        · right; exact ⟨⟨r0, f, s.now⟩, by simp, he⟩
        · left; exact ⟨(List.mem_erase_of_ne (Ne.symm he)).mpr hr, hd⟩

/-- **Fair liveness inside the model** (review C07-1, `fair_liveness` of the reviewer's scratch
file): from any state satisfying the invariant, a request that is in flight and whose deadline has
passed is resolved by EVERY continuation `bs` that polls it at least once and leaves the manager
running — whatever else `bs` contains (other intakes, other polls, ticks, in any order). -/
theorem overdue_poll_resolves (c : Cfg) (bs : List Action) : ∀ (s : State) (r : Req), Inv c s →
    r ∈ s.pending → c.deadline r ≤ s.now → Action.poll r.rid ∈ bs →
    (run c s bs).status = .running → Resolved (run c s bs) r := by
  induction bs with
  | nil => intro s r _ _ _ hm; simp at hm
  | cons a bs ih =>
    intro s r hi hr hd hm hrun
    have hrun1 : (step c s a).status = .running := run_running_back c bs _ (by simpa [run] using hrun)
    have hs : s.status = .running := status_running_back c s a hrun1
    show Resolved (run c (step c s a) bs) r
    rcases List.mem_cons.mp hm with hm | hm
    · subst hm
      obtain ⟨f, _, hstep⟩ := poll_resolves hi hs hr (Nat.le_trans (deadline_ready c r) hd)
      apply resolved_mono_run
      rw [hstep]; exact ⟨⟨r, f, s.now⟩, by simp, rfl⟩
    · rcases overdue_step c s a r hr hd hrun1 with ⟨hr', hd'⟩ | hres
      · exact ih _ r (inv_step c s a hi) hr' hd' hm (by simpa [run] using hrun)
      · exact resolved_mono_run c bs _ r hres

/-- In a state satisfying the invariant with the manager running, an accepted request is either
resolved or still in flight (nothing has been dropped). -/
theorem accepted_resolved_or_pending {c : Cfg} {s : State} (h : Inv c s)
    (hrun : s.status = .running) {r : Req} (hr : r ∈ s.accepted) : Resolved s r ∨ r ∈ s.pending := by
  have hm := h.part.symm.subset hr
  rw [h.running hrun] at hm
  simp only [List.append_nil, List.mem_append, List.mem_map] at hm
  rcases hm with ⟨x, hx, rfl⟩ | hm
  · exact Or.inl ⟨x, hx, rfl⟩
  · exact Or.inr hm

/-- A resolved request is not in flight (the three ghost logs partition the accepted requests,
whose ids are pairwise distinct). -/
theorem resolved_not_pending {c : Cfg} {s : State} (h : Inv c s) {r : Req} (hres : Resolved s r) :
    r ∉ s.pending := by
  obtain ⟨x, hx, rfl⟩ := hres
  have hn : (s.resolved.map (·.req) ++ s.pending ++ s.dropped).Nodup :=
    h.part.nodup_iff.mpr (nodup_of_map _ _ (accepted_nodup h))
  rw [List.append_assoc] at hn
  have hd := (List.nodup_append.mp hn).2.2
  intro hp
  exact hd x.req (List.mem_map.mpr ⟨x, hx, rfl⟩) x.req (List.mem_append_left _ hp) rfl

/-! ### what `eventOf` can produce, for every reply payload of the model (review C07-3/4)

`Reply` now covers the whole of `UnindexedOrderError` (connectivity errors as the client's answer,
asset-carrying and nameless API errors), so these lemmas are statements about every answer an
`ExecutionClient` can give. -/

/-- Whatever the client's answer is, an emitted event has the request's kind, the key the client
echoed (response) or the request's own key (timeout), the exchange of that key, a configured key
if it is a response, and carries the error value `Connectivity(Timeout)` exactly when the future
timed out **or** the client itself answered `Err(Connectivity(Timeout))` (the two are the same
`OrderError` value in the code: manager.rs:356, 412 vs indexer.rs:255). -/
theorem eventOf_some (c : Cfg) (r : Req) (f : Fate) (e : Event) (h : eventOf c r f = some e) :
    e.kind = r.spec.kind ∧
      (f = .response → e.key = r.spec.script.echo) ∧ (f = .timeout → e.key = r.spec.key) ∧
      e.exchange = e.key.exchange ∧ (f = .response → c.configured e.key = true) ∧
      (e.outcome = .timeout ↔ f = .timeout ∨ r.spec.script.reply = .connectivity .timeout) := by
  obtain ⟨rid, t0, ⟨kind, key, body, ⟨delay, reply, fills, echo, echoBody⟩⟩⟩ := r
  cases f <;> cases kind <;>
    simp only [eventOf, processOpenResponse, processCancelResponse, processOpenTimeout,
      processCancelTimeout, indexKey, openOutcome] at h
  · by_cases hc : c.configured echo = true
    · rcases reply with _ | _ | i | (_ | _ | _) | a | a | k
      · simp [hc] at h; subst h; simp [hc]; split <;> simp
      · simp [hc, indexReply] at h; subst h; simp [hc]
      · by_cases hi : i < c.nInstr
        · simp [hc, hi, indexReply] at h; subst h; simp [hc]
        · simp [hc, hi, indexReply] at h
      · simp [hc, indexReply] at h; subst h; simp [hc]
      · simp [hc, indexReply] at h; subst h; simp [hc]
      · simp [hc, indexReply] at h; subst h; simp [hc]
      · by_cases ha : a < c.nAssets
        · simp [hc, ha, indexReply, findAssetIndex] at h; subst h; simp [hc]
        · simp [hc, ha, indexReply, findAssetIndex] at h
      · by_cases ha : a < c.nAssets
        · simp [hc, ha, indexReply, findAssetIndex] at h; subst h; simp [hc]
        · simp [hc, ha, indexReply, findAssetIndex] at h
      · simp [hc, indexReply] at h; subst h; simp [hc]
    · simp [hc] at h
  · by_cases hc : c.configured echo = true
    · rcases reply with _ | _ | i | (_ | _ | _) | a | a | k
      · simp [hc, indexReply] at h; subst h; simp [hc]
      · simp [hc, indexReply] at h; subst h; simp [hc]
      · by_cases hi : i < c.nInstr
        · simp [hc, hi, indexReply] at h; subst h; simp [hc]
        · simp [hc, hi, indexReply] at h
      · simp [hc, indexReply] at h; subst h; simp [hc]
      · simp [hc, indexReply] at h; subst h; simp [hc]
      · simp [hc, indexReply] at h; subst h; simp [hc]
      · by_cases ha : a < c.nAssets
        · simp [hc, ha, indexReply, findAssetIndex] at h; subst h; simp [hc]
        · simp [hc, ha, indexReply, findAssetIndex] at h
      · by_cases ha : a < c.nAssets
        · simp [hc, ha, indexReply, findAssetIndex] at h; subst h; simp [hc]
        · simp [hc, ha, indexReply, findAssetIndex] at h
      · simp [hc, indexReply] at h; subst h; simp [hc]
    · simp [hc] at h
  · simp at h; subst h; simp
  · simp at h; subst h; simp

/-- The reply names something the indexer cannot translate: an instrument name outside the
configured ones (`find_instrument_index` fails) or an ASSET name outside the configured ones
(`find_asset_index` fails; `AssetInvalid` and `BalanceInsufficient` carry one). -/
def Reply.unindexable (c : Cfg) : Reply → Prop
  | .invalidIns i => c.nInstr ≤ i
  | .assetInvalid a | .balanceInsufficient a => c.nAssets ≤ a
  | _ => False

theorem indexReply_none_iff (c : Cfg) (rp : Reply) : indexReply c rp = none ↔ rp.unindexable c := by
  rcases rp with _ | _ | i | (_ | _ | _) | a | a | k <;>
    simp [indexReply, findAssetIndex, Reply.unindexable] <;> omega

/-- Exactly when a completed future yields NO event (`continue`, manager.rs:282-289 / 308-315): it
completed with the client's response and the indexer rejects either the echoed key or the
instrument / asset named in the error. Connectivity errors and nameless API errors are never
filtered. -/
theorem eventOf_none_iff (c : Cfg) (r : Req) (f : Fate) :
    eventOf c r f = none ↔ f = .response ∧ (c.configured r.spec.script.echo = false ∨
      r.spec.script.reply.unindexable c) := by
  obtain ⟨rid, t0, ⟨kind, key, body, ⟨delay, reply, fills, echo, echoBody⟩⟩⟩ := r
  cases f <;> cases kind <;>
    simp only [eventOf, processOpenResponse, processCancelResponse, processOpenTimeout,
      processCancelTimeout, indexKey, openOutcome]
  · by_cases hc : c.configured echo = true
    · have := indexReply_none_iff c reply
      rcases reply with _ | _ | i | (_ | _ | _) | a | a | k <;>
        simp_all [Reply.unindexable] <;> (cases hr : indexReply c _ <;> simp_all)
    · simp [hc]
  · by_cases hc : c.configured echo = true
    · have := indexReply_none_iff c reply
      simp only [hc, if_true, true_and, reduceCtorEq, false_or]
      cases hr : indexReply c reply <;> simp_all
    · simp [hc]
  · simp
  · simp

end BarterModel.ExecManager
