import BarterModel.Model.SubValidator
/-! Helper lemmas for C13S. -/
namespace BarterModel.SubValidator

section Generic
variable {R : Type} (validate : R → Option RespErr)

/-! ### How the history functions grow by one frame -/

theorem successCount_snoc (pre : List (Frame R)) (f : Frame R) :
    successCount validate (pre ++ [f]) = successCount validate pre + (if isSuccess validate f then 1 else 0) := by
  simp [successCount, List.countP_append]

theorem silence_snoc (pre : List (Frame R)) (f : Frame R) :
    silence (pre ++ [f]) = if isWait f then silence pre + waitMs f else 0 := by
  unfold silence
  rw [List.reverse_append]
  by_cases h : isWait f = true
  · simp [h]; omega
  · simp [h]

theorem elapsed_snoc (pre : List (Frame R)) (f : Frame R) :
    elapsed (pre ++ [f]) = elapsed pre + waitMs f := by
  simp [elapsed]

theorem dropWhile_of_count_zero (pre : List (Frame R)) (h : successCount validate pre = 0) :
    pre.dropWhile (fun f => !isSuccess validate f) = [] := by
  have hall : ∀ a ∈ pre, (fun f => !isSuccess validate f) a = true := by
    intro a ha
    have := (List.countP_eq_zero.mp h) a ha
    simpa using this
  have := List.dropWhile_append_of_pos (l₂ := []) hall
  simpa using this

theorem dropWhile_of_count_pos (pre l : List (Frame R)) (h : 1 ≤ successCount validate pre) :
    (pre ++ l).dropWhile (fun f => !isSuccess validate f)
      = pre.dropWhile (fun f => !isSuccess validate f) ++ l := by
  induction pre with
  | nil => simp [successCount] at h
  | cons a t ih =>
    by_cases ha : isSuccess validate a = true
    · simp [ha]
    · have ht : 1 ≤ successCount validate t := by
        simp only [successCount, List.countP_cons, ha] at h
        simpa [successCount] using h
      simp [ha, ih ht]

theorem others_append (a b : List (Frame R)) : others (a ++ b) = others a ++ others b := by
  simp [others, List.filterMap_append]

theorem bufferedOf_of_count_zero (pre : List (Frame R)) (h : successCount validate pre = 0) :
    bufferedOf validate pre = [] := by
  simp [bufferedOf, dropWhile_of_count_zero validate pre h, others]

theorem others_success (f : Frame R) (h : isSuccess validate f = true) : others [f] = [] := by
  cases f <;> simp_all [isSuccess, others]

theorem bufferedOf_snoc (pre : List (Frame R)) (f : Frame R) :
    bufferedOf validate (pre ++ [f])
      = if 1 ≤ successCount validate pre then bufferedOf validate pre ++ others [f] else [] := by
  by_cases h : 1 ≤ successCount validate pre
  · simp only [h, if_true]
    unfold bufferedOf
    rw [dropWhile_of_count_pos validate pre [f] h, others_append]
  · simp only [h, if_false]
    have h0 : successCount validate pre = 0 := by omega
    unfold bufferedOf
    rw [List.dropWhile_append_of_pos]
    · by_cases hf : isSuccess validate f = true
      · simp [hf, others_success validate f hf]
      · simp [hf, others]
    · intro a ha
      have := (List.countP_eq_zero.mp h0) a ha
      simpa using this

/-- The loop state after consuming the history `pre`. -/
def summary (pre : List (Frame R)) : St :=
  { successes := successCount validate pre, buffered := bufferedOf validate pre, idle := silence pre }

/-- The concrete loop, started in the state that summarises `pre`, agrees with the specification scanning
on from `pre`. -/
theorem run_eq_scan (timeout expected : Nat) (rest pre : List (Frame R)) :
    run validate timeout expected (summary validate pre) rest
      = scanWith (fun pre => successCount validate pre == expected)
          (fun pre rest => (bufferedOf validate pre, rest))
          (fatal validate timeout silence) pre rest := by
  induction rest generalizing pre with
  | nil => simp [run, scanWith, summary]
  | cons f rest ih =>
    unfold run scanWith
    by_cases hd : successCount validate pre = expected
    · simp [summary, hd]
    · have hd' : ((summary validate pre).successes == expected) = false := by simp [summary, hd]
      have hd'' : (successCount validate pre == expected) = false := by simp [hd]
      simp only [hd', hd'', Bool.false_eq_true, if_false]
      cases f with
      | wait d =>
        simp only [fatal]
        by_cases ht : timeout ≤ silence pre + d
        · simp [summary, ht]
        · have : { summary validate pre with idle := (summary validate pre).idle + d }
              = summary validate (pre ++ [Frame.wait d]) := by
            simp [summary, successCount_snoc, silence_snoc, bufferedOf_snoc, isSuccess, isWait, waitMs, others]
            exact bufferedOf_of_count_zero validate pre
          simp only [summary] at this
          simp [summary, ht, this, ← ih]
      | resp r =>
        simp only [fatal]
        cases hv : validate r with
        | some e => simp
        | none =>
          have : { summary validate pre with successes := (summary validate pre).successes + 1, idle := 0 }
              = summary validate (pre ++ [Frame.resp r]) := by
            simp [summary, successCount_snoc, silence_snoc, bufferedOf_snoc, isSuccess, isWait, hv, others]
            exact bufferedOf_of_count_zero validate pre
          simp only [summary] at this
          simp [summary, this, ← ih]
      | other p =>
        simp only [fatal]
        by_cases h1 : 1 ≤ successCount validate pre
        · have : { summary validate pre with buffered := (summary validate pre).buffered ++ [p], idle := 0 }
              = summary validate (pre ++ [Frame.other p]) := by
            simp [summary, successCount_snoc, silence_snoc, bufferedOf_snoc, isSuccess, isWait, others, h1]
          simp only [summary] at this
          simp [summary, h1, this, ← ih]
        · have : { summary validate pre with idle := 0 } = summary validate (pre ++ [Frame.other p]) := by
            have h0 : successCount validate pre = 0 := by omega
            simp [summary, successCount_snoc, silence_snoc, isSuccess, isWait, h0,
              bufferedOf_of_count_zero]
          simp only [summary] at this
          simp [summary, h1, this, ← ih]
      | close => simp [fatal]
      | transportErr => simp [fatal]
      | skip =>
        have : { summary validate pre with idle := 0 } = summary validate (pre ++ [Frame.skip]) := by
          simp [summary, successCount_snoc, silence_snoc, bufferedOf_snoc, isSuccess, isWait, others]
          exact bufferedOf_of_count_zero validate pre
        simp only [summary] at this
        simp [summary, fatal, this, ← ih]

/-! ### Pings and pongs only re-arm the timer -/

def notSkip : Frame R → Bool
  | .skip => false
  | _ => true

def NoWaits (frames : List (Frame R)) : Prop := ∀ f ∈ frames, isWait f = false

theorem run_done (timeout expected : Nat) (st : St) (h : st.successes = expected) (l : List (Frame R)) :
    run validate timeout expected st l = .ok (st.buffered, l) := by
  cases l <;> simp [run, h]

theorem run_idle_irrelevant (timeout expected : Nat) (frames : List (Frame R)) (hw : NoWaits frames)
    (s : Nat) (b : List Nat) (i : Nat) :
    run validate timeout expected ⟨s, b, i⟩ frames = run validate timeout expected ⟨s, b, 0⟩ frames := by
  cases frames with
  | nil => simp [run]
  | cons f rest =>
    unfold run
    by_cases hd : s = expected
    · simp [hd]
    · simp only [beq_iff_eq, hd, if_false]
      cases f with
      | wait d => have := hw (.wait d) (by simp); simp [isWait] at this
      | _ => rfl

theorem run_filter_skip (timeout expected : Nat) (frames : List (Frame R)) (hw : NoWaits frames)
    (st : St) :
    run validate timeout expected st (frames.filter notSkip)
      = (run validate timeout expected st frames).map (fun p => (p.1, p.2.filter notSkip)) := by
  induction frames generalizing st with
  | nil => simp [run]; split <;> rfl
  | cons f rest ih =>
    have hw' : NoWaits rest := fun x hx => hw x (List.mem_cons_of_mem _ hx)
    by_cases hd : st.successes = expected
    · rw [run_done validate timeout expected st hd, run_done validate timeout expected st hd]; rfl
    · cases f with
      | skip =>
        have hfil : (Frame.skip :: rest).filter notSkip = rest.filter (notSkip (R := R)) := rfl
        rw [hfil]
        conv => rhs; unfold run
        simp only [beq_iff_eq, hd, if_false]
        rw [← ih hw']
        obtain ⟨s, b, i⟩ := st
        have hwf : NoWaits (rest.filter (notSkip (R := R))) :=
          fun x hx => hw' x (List.mem_filter.mp hx).1
        rw [run_idle_irrelevant validate timeout expected _ hwf s b i]
      | wait d => have := hw (.wait d) (by simp); simp [isWait] at this
      | resp r =>
        have hfil : (Frame.resp r :: rest).filter notSkip = Frame.resp r :: rest.filter notSkip := rfl
        rw [hfil]
        unfold run
        simp only [beq_iff_eq, hd, if_false]
        cases validate r with
        | none => exact ih hw' _
        | some e => rfl
      | other p =>
        have hfil : (Frame.other p :: rest).filter notSkip
            = Frame.other p :: rest.filter (notSkip (R := R)) := rfl
        rw [hfil]
        unfold run
        simp only [beq_iff_eq, hd, if_false]
        split <;> exact ih hw' _
      | close =>
        have hfil : (Frame.close :: rest).filter notSkip
            = Frame.close :: rest.filter (notSkip (R := R)) := rfl
        rw [hfil]; unfold run; simp [hd]; rfl
      | transportErr =>
        have hfil : (Frame.transportErr :: rest).filter notSkip
            = Frame.transportErr :: rest.filter (notSkip (R := R)) := rfl
        rw [hfil]; unfold run; simp [hd]; rfl

end Generic

/-! ### What a scan result means, without recursion over counters -/

section Scan
variable {R α : Type}

/-- `Steps complete fatalNext pre mid`: starting from history `pre`, the items of `mid` can be consumed one
after the other: before each of them the validation is not yet complete and the item is not fatal. -/
inductive Steps (complete : List (Frame R) → Bool) (fatalNext : List (Frame R) → Frame R → Option ValErr) :
    List (Frame R) → List (Frame R) → Prop where
  | nil (pre : List (Frame R)) : Steps complete fatalNext pre []
  | cons {pre : List (Frame R)} {f : Frame R} {mid : List (Frame R)} :
      complete pre = false → fatalNext pre f = none →
      Steps complete fatalNext (pre ++ [f]) mid → Steps complete fatalNext pre (f :: mid)

variable {complete : List (Frame R) → Bool} {result : List (Frame R) → List (Frame R) → α}
  {fatalNext : List (Frame R) → Frame R → Option ValErr}

theorem steps_take_iff (pre mid : List (Frame R)) :
    Steps complete fatalNext pre mid ↔
      ∀ i (h : i < mid.length), complete (pre ++ mid.take i) = false ∧
        fatalNext (pre ++ mid.take i) mid[i] = none := by
  induction mid generalizing pre with
  | nil => exact ⟨fun _ i h => absurd h (by simp), fun _ => Steps.nil pre⟩
  | cons f mid ih =>
    constructor
    · intro h
      cases h with
      | cons hc hf hs =>
        intro i hi
        cases i with
        | zero => simpa using ⟨hc, hf⟩
        | succ j =>
          have := (ih (pre ++ [f])).mp hs j (by simpa using hi)
          simpa [List.append_assoc] using this
    · intro h
      have h0 := h 0 (by simp)
      refine Steps.cons (by simpa using h0.1) (by simpa using h0.2) ((ih (pre ++ [f])).mpr ?_)
      intro i hi
      have := h (i + 1) (by simpa using hi)
      simpa [List.append_assoc] using this

theorem steps_cons_inv {pre : List (Frame R)} {g : Frame R} {mid : List (Frame R)}
    (h : Steps complete fatalNext pre (g :: mid)) :
    complete pre = false ∧ fatalNext pre g = none ∧ Steps complete fatalNext (pre ++ [g]) mid := by
  cases h with
  | cons h1 h2 h3 => exact ⟨h1, h2, h3⟩

theorem scanWith_ok_iff (pre rest : List (Frame R)) (a : α) :
    scanWith complete result fatalNext pre rest = .ok a ↔
      ∃ mid tl, rest = mid ++ tl ∧ Steps complete fatalNext pre mid ∧
        complete (pre ++ mid) = true ∧ a = result (pre ++ mid) tl := by
  induction rest generalizing pre with
  | nil =>
    unfold scanWith
    constructor
    · intro h
      by_cases hc : complete pre = true
      · simp [hc] at h
        exact ⟨[], [], rfl, Steps.nil pre, by simpa using hc, by simp [h]⟩
      · simp [hc] at h
    · rintro ⟨mid, tl, hmt, _, hc, ha⟩
      cases mid with
      | cons => simp at hmt
      | nil =>
        have ht : tl = [] := by simpa using hmt.symm
        subst ht
        simp at hc
        simp [hc, ha]
  | cons f rest ih =>
    unfold scanWith
    by_cases hc : complete pre = true
    · simp only [hc, if_true]
      constructor
      · intro h
        refine ⟨[], f :: rest, rfl, Steps.nil pre, by simpa using hc, ?_⟩
        simp at h; simp [h]
      · rintro ⟨mid, tl, hmt, hs, hc', ha⟩
        cases mid with
        | nil => simp at hmt; subst hmt; simp [ha]
        | cons g mid' => have := (steps_cons_inv hs).1; rw [hc] at this; cases this
    · simp only [hc, Bool.false_eq_true, if_false]
      cases hf : fatalNext pre f with
      | some e =>
        simp only []
        constructor
        · intro h; cases h
        · rintro ⟨mid, tl, hmt, hs, hc', ha⟩
          cases mid with
          | nil => simp at hc'; exact absurd hc' hc
          | cons g mid' =>
            have h2 := (steps_cons_inv hs).2.1
            simp at hmt; rw [← hmt.1] at h2; rw [hf] at h2; cases h2
      | none =>
        simp only []
        rw [ih (pre ++ [f])]
        constructor
        · rintro ⟨mid, tl, hmt, hs, hc', ha⟩
          refine ⟨f :: mid, tl, by simp [hmt], Steps.cons (by simpa using hc) hf hs, ?_, ?_⟩
          · simpa [List.append_assoc] using hc'
          · simpa [List.append_assoc] using ha
        · rintro ⟨mid, tl, hmt, hs, hc', ha⟩
          cases mid with
          | nil => simp at hc'; exact absurd hc' hc
          | cons g mid' =>
            have h3 := (steps_cons_inv hs).2.2
            simp at hmt
            obtain ⟨hg, hr⟩ := hmt
            subst hg
            refine ⟨mid', tl, hr, h3, ?_, ?_⟩
            · simpa [List.append_assoc] using hc'
            · simpa [List.append_assoc] using ha

theorem scanWith_error_iff (pre rest : List (Frame R)) (e : ValErr) :
    scanWith complete result fatalNext pre rest = .error e ↔
      ∃ mid, Steps complete fatalNext pre mid ∧ complete (pre ++ mid) = false ∧
        ((rest = mid ∧ e = .ended) ∨
          ∃ f tl, rest = mid ++ f :: tl ∧ fatalNext (pre ++ mid) f = some e) := by
  induction rest generalizing pre with
  | nil =>
    unfold scanWith
    constructor
    · intro h
      by_cases hc : complete pre = true
      · simp [hc] at h
      · simp [hc] at h
        exact ⟨[], Steps.nil pre, by simpa using hc, Or.inl ⟨rfl, h.symm⟩⟩
    · rintro ⟨mid, _, hc, h⟩
      have hm : mid = [] := by
        rcases h with ⟨h, _⟩ | ⟨f, tl, h, _⟩
        · exact h.symm
        · cases mid <;> simp at h
      subst hm
      simp at hc
      rcases h with ⟨_, he⟩ | ⟨f, tl, h, _⟩
      · simp [hc, he]
      · simp at h
  | cons f rest ih =>
    unfold scanWith
    by_cases hc : complete pre = true
    · simp only [hc, if_true]
      constructor
      · intro h; cases h
      · rintro ⟨mid, hs, hc', _⟩
        cases mid with
        | nil => simp [hc] at hc'
        | cons g mid' => have := (steps_cons_inv hs).1; rw [hc] at this; cases this
    · simp only [hc, Bool.false_eq_true, if_false]
      cases hf : fatalNext pre f with
      | some e' =>
        simp only []
        constructor
        · intro h
          have : e' = e := by cases h; rfl
          subst this
          exact ⟨[], Steps.nil pre, by simpa using hc, Or.inr ⟨f, rest, rfl, by simpa using hf⟩⟩
        · rintro ⟨mid, hs, hc', h⟩
          cases mid with
          | nil =>
            rcases h with ⟨h, _⟩ | ⟨g, tl, h, hg⟩
            · cases h
            · simp at h; rw [← h.1] at hg; simp at hg; rw [hf] at hg; cases hg; rfl
          | cons g mid' =>
            have h2 := (steps_cons_inv hs).2.1
            have : f = g := by
              rcases h with ⟨h, _⟩ | ⟨g', tl, h, _⟩
              · simp at h; exact h.1
              · simp at h; exact h.1
            subst this; rw [hf] at h2; cases h2
      | none =>
        simp only []
        rw [ih (pre ++ [f])]
        constructor
        · rintro ⟨mid, hs, hc', h⟩
          refine ⟨f :: mid, Steps.cons (by simpa using hc) hf hs, by simpa [List.append_assoc] using hc', ?_⟩
          rcases h with ⟨h, he⟩ | ⟨g, tl, h, hg⟩
          · exact Or.inl ⟨by simp [h], he⟩
          · exact Or.inr ⟨g, tl, by simp [h], by simpa [List.append_assoc] using hg⟩
        · rintro ⟨mid, hs, hc', h⟩
          cases mid with
          | nil =>
            rcases h with ⟨h, _⟩ | ⟨g, tl, h, hg⟩
            · cases h
            · simp at h; rw [← h.1] at hg; simp at hg; rw [hf] at hg; cases hg
          | cons g mid' =>
            have h3 := (steps_cons_inv hs).2.2
            have hfg : f = g := by
              rcases h with ⟨h, _⟩ | ⟨g', tl, h, _⟩
              · simp at h; exact h.1
              · simp at h; exact h.1
            subst hfg
            refine ⟨mid', h3, by simpa [List.append_assoc] using hc', ?_⟩
            rcases h with ⟨h, he⟩ | ⟨g, tl, h, hg⟩
            · simp at h; exact Or.inl ⟨h, he⟩
            · simp at h; exact Or.inr ⟨g, tl, h, by simpa [List.append_assoc] using hg⟩

theorem steps_snoc (pre mid : List (Frame R)) (f : Frame R) :
    Steps complete fatalNext pre (mid ++ [f]) ↔
      Steps complete fatalNext pre mid ∧ complete (pre ++ mid) = false ∧ fatalNext (pre ++ mid) f = none := by
  induction mid generalizing pre with
  | nil =>
    constructor
    · intro h
      have := steps_cons_inv (by simpa using h : Steps complete fatalNext pre (f :: []))
      exact ⟨Steps.nil pre, by simpa using this.1, by simpa using this.2.1⟩
    · rintro ⟨_, h1, h2⟩
      exact Steps.cons (by simpa using h1) (by simpa using h2) (Steps.nil _)
  | cons g mid ih =>
    constructor
    · intro h
      have h' := steps_cons_inv (by simpa using h : Steps complete fatalNext pre (g :: (mid ++ [f])))
      have := (ih (pre ++ [g])).mp h'.2.2
      exact ⟨Steps.cons h'.1 h'.2.1 this.1, by simpa [List.append_assoc] using this.2.1,
        by simpa [List.append_assoc] using this.2.2⟩
    · rintro ⟨hs, h1, h2⟩
      have h' := steps_cons_inv hs
      have := (ih (pre ++ [g])).mpr ⟨h'.2.2, by simpa [List.append_assoc] using h1,
        by simpa [List.append_assoc] using h2⟩
      exact Steps.cons h'.1 h'.2.1 this

/-- If the history can be extended by `mid` without anything fatal and is complete afterwards, the scan
succeeds (possibly earlier). -/
theorem scanWith_ok_of_noFatal (pre mid tl : List (Frame R))
    (hn : ∀ i (h : i < mid.length), fatalNext (pre ++ mid.take i) mid[i] = none)
    (hc : complete (pre ++ mid) = true) :
    ∃ a, scanWith complete result fatalNext pre (mid ++ tl) = .ok a := by
  induction mid generalizing pre with
  | nil =>
    simp at hc
    cases tl <;> simp [scanWith, hc]
  | cons f mid ih =>
    simp only [List.cons_append]
    unfold scanWith
    by_cases hp : complete pre = true
    · simp [hp]
    · have h0 := hn 0 (by simp)
      simp at h0
      simp only [hp, Bool.false_eq_true, if_false, h0]
      apply ih (pre ++ [f])
      · intro i hi
        have := hn (i + 1) (by simpa using hi)
        simpa [List.append_assoc] using this
      · simpa [List.append_assoc] using hc

/-- Two notions of "fatal" that agree along the input give the same result. -/
theorem scanWith_congr {fa fb : List (Frame R) → Frame R → Option ValErr} (pre rest : List (Frame R))
    (h : ∀ i (hi : i < rest.length), fa (pre ++ rest.take i) rest[i] = fb (pre ++ rest.take i) rest[i]) :
    scanWith complete result fa pre rest = scanWith complete result fb pre rest := by
  induction rest generalizing pre with
  | nil => simp [scanWith]
  | cons f rest ih =>
    unfold scanWith
    have h0 := h 0 (by simp)
    simp at h0
    rw [h0, ih (pre ++ [f])]
    intro i hi
    have := h (i + 1) (by simpa using hi)
    simpa [List.append_assoc] using this

/-- `fb` fires whenever `fa` does (with the same error), and additionally only with timeouts. -/
structure Earlier (fa fb : List (Frame R) → Frame R → Option ValErr) : Prop where
  same : ∀ p f e, fa p f = some e → fb p f = some e
  extra : ∀ p f e, fb p f = some e → fa p f = none → e = .timeout

theorem scanWith_ok_of_earlier {fa fb : List (Frame R) → Frame R → Option ValErr} (he : Earlier fa fb)
    (pre rest : List (Frame R)) (a : α) (h : scanWith complete result fb pre rest = .ok a) :
    scanWith complete result fa pre rest = .ok a := by
  induction rest generalizing pre with
  | nil => simpa [scanWith] using h
  | cons f rest ih =>
    unfold scanWith at h ⊢
    by_cases hp : complete pre = true
    · simpa [hp] using h
    · simp only [hp, Bool.false_eq_true, if_false] at h ⊢
      cases hb : fb pre f with
      | some e => rw [hb] at h; cases h
      | none =>
        rw [hb] at h
        cases ha : fa pre f with
        | some e => have := he.same _ _ _ ha; rw [hb] at this; cases this
        | none => exact ih _ h

theorem scanWith_timeout_of_earlier {fa fb : List (Frame R) → Frame R → Option ValErr} (he : Earlier fa fb)
    (pre rest : List (Frame R)) (h : scanWith complete result fa pre rest = .error .timeout) :
    scanWith complete result fb pre rest = .error .timeout := by
  induction rest generalizing pre with
  | nil => simpa [scanWith] using h
  | cons f rest ih =>
    unfold scanWith at h ⊢
    by_cases hp : complete pre = true
    · simp [hp] at h
    · simp only [hp, Bool.false_eq_true, if_false] at h ⊢
      cases ha : fa pre f with
      | some e =>
        rw [ha] at h
        have : e = .timeout := by cases h; rfl
        subst this
        rw [he.same _ _ _ ha]
      | none =>
        rw [ha] at h
        cases hb : fb pre f with
        | some e => rw [he.extra _ _ _ hb ha]
        | none => exact ih _ h

end Scan

section Time
variable {R : Type}

theorem sum_takeWhile_le (p : Frame R → Bool) (l : List (Frame R)) :
    ((l.takeWhile p).map waitMs).sum ≤ (l.map waitMs).sum := by
  induction l with
  | nil => simp
  | cons a t ih =>
    by_cases h : p a = true
    · simp [h]; omega
    · simp [h]

theorem silence_le_elapsed (pre : List (Frame R)) : silence pre ≤ elapsed pre := by
  unfold silence elapsed
  have := sum_takeWhile_le (R := R) isWait pre.reverse
  rw [List.map_reverse, List.sum_reverse_nat] at this
  exact this

theorem earlier_silence_elapsed (validate : R → Option RespErr) (timeout : Nat) :
    Earlier (fatal validate timeout silence) (fatal validate timeout elapsed) := by
  constructor
  · intro p f e h
    cases f with
    | wait d =>
      simp only [fatal] at h ⊢
      have := silence_le_elapsed p
      split at h
      · rw [if_pos (by omega)]; exact h
      · cases h
    | _ => exact h
  · intro p f e hb ha
    cases f with
    | wait d =>
      simp only [fatal] at hb
      split at hb
      · cases hb; rfl
      · cases hb
    | resp r =>
      simp only [fatal] at hb ha
      rw [hb] at ha; cases ha
    | _ => simp [fatal] at hb ha

end Time



/-! ### Association-list facts (`IMap`) -/

section IMapFacts

theorem IMap.mem_erase (m : IMap) (k : Key) (e : Key × Nat) : e ∈ m.erase k ↔ e ∈ m ∧ e.1 ≠ k := by
  simp [IMap.erase, List.mem_filter]

theorem IMap.mem_insert (m : IMap) (k : Key) (v : Nat) (e : Key × Nat) :
    e ∈ m.insert k v ↔ e = (k, v) ∨ (e ∈ m ∧ e.1 ≠ k) := by
  simp [IMap.insert, IMap.mem_erase]

theorem IMap.get_erase (m : IMap) (k k' : Key) :
    (m.erase k).get k' = if k' = k then none else m.get k' := by
  unfold IMap.get IMap.erase
  rw [List.find?_filter]
  by_cases h : k' = k
  · subst h
    simp only [if_true, Option.map_eq_none_iff, List.find?_eq_none]
    intro x _; simp
  · simp only [h, if_false]
    congr 2
    funext x
    by_cases hx : x.1 = k'
    · simp [hx, h]
    · simp [hx]

theorem IMap.get_insert (m : IMap) (k k' : Key) (v : Nat) :
    (m.insert k v).get k' = if k' = k then some v else m.get k' := by
  by_cases h : k' = k
  · subst h; simp [IMap.insert, IMap.get]
  · have : ((k, v).1 == k') = false := by simp; exact fun h' => h h'.symm
    simp only [IMap.insert, IMap.get, List.find?_cons, this, h, if_false]
    have := IMap.get_erase m k k'
    simpa [IMap.get, h] using this

def KeysNodup (m : IMap) : Prop := (m.map (·.1)).Nodup

theorem KeysNodup.erase {m : IMap} (h : KeysNodup m) (k : Key) : KeysNodup (m.erase k) := by
  unfold KeysNodup IMap.erase at *
  exact List.Nodup.sublist (List.Sublist.map _ List.filter_sublist) h

theorem KeysNodup.insert {m : IMap} (h : KeysNodup m) (k : Key) (v : Nat) : KeysNodup (m.insert k v) := by
  unfold IMap.insert
  have h' := h.erase k
  unfold KeysNodup at *
  simp only [List.map_cons, List.nodup_cons]
  refine ⟨?_, h'⟩
  intro hk
  obtain ⟨e, he, hek⟩ := List.mem_map.mp hk
  exact ((IMap.mem_erase m k e).mp he).2 hek

theorem IMap.get_eq_some_iff {m : IMap} (h : KeysNodup m) (k : Key) (v : Nat) :
    m.get k = some v ↔ (k, v) ∈ m := by
  induction m with
  | nil => simp [IMap.get]
  | cons e t ih =>
    have ht : KeysNodup t := by unfold KeysNodup at *; exact (List.nodup_cons.mp h).2
    have hnot : e.1 ∉ t.map (·.1) := by unfold KeysNodup at h; exact (List.nodup_cons.mp h).1
    by_cases hk : e.1 = k
    · have : (e.1 == k) = true := by simp [hk]
      simp only [IMap.get, List.find?_cons, this, Option.map_some, Option.some.injEq, List.mem_cons]
      constructor
      · intro hv; left; cases e; simp_all
      · rintro (h1 | h1)
        · rw [← h1]
        · exfalso; apply hnot; rw [hk]; exact List.mem_map.mpr ⟨(k, v), h1, rfl⟩
    · have : (e.1 == k) = false := by simp [hk]
      simp only [IMap.get, List.find?_cons, this, List.mem_cons]
      have := ih ht
      simp only [IMap.get] at this
      rw [this]
      constructor
      · intro h1; right; exact h1
      · rintro (h1 | h1)
        · exfalso; apply hk; rw [← h1]
        · exact h1

theorem IMap.get_isSome_iff (m : IMap) (k : Key) : (m.get k).isSome ↔ ∃ v, (k, v) ∈ m := by
  simp only [IMap.get, Option.isSome_map, List.find?_isSome]
  constructor
  · rintro ⟨x, hx, hk⟩
    refine ⟨x.2, ?_⟩
    have : x.1 = k := by simpa using hk
    rw [← this]; exact hx
  · rintro ⟨v, hv⟩
    exact ⟨(k, v), hv, by simp⟩

theorem IMap.ofList_keysNodup (es : List (Key × Nat)) : KeysNodup (IMap.ofList es) := by
  unfold IMap.ofList
  suffices H : ∀ (m : IMap), KeysNodup m → KeysNodup (es.foldl (fun m e => m.insert e.1 e.2) m) by
    exact H [] (by simp [KeysNodup])
  induction es with
  | nil => intro m h; exact h
  | cons e t ih => intro m h; exact ih _ (h.insert e.1 e.2)

/-- every key of the map is of the `channel|market` form -/
def AllSub (m : IMap) : Prop := ∀ e ∈ m, ∃ c mk, e.1 = Key.sub c mk

theorem IMap.ofList_allSub (es : List (Key × Nat)) (h : ∀ e ∈ es, ∃ c mk, e.1 = Key.sub c mk) :
    AllSub (IMap.ofList es) := by
  unfold IMap.ofList
  suffices H : ∀ (m : IMap), AllSub m → AllSub (es.foldl (fun m e => m.insert e.1 e.2) m) by
    exact H [] (by intro e he; cases he)
  induction es with
  | nil => intro m hm; exact hm
  | cons e t ih =>
    intro m hm
    apply ih (fun x hx => h x (List.mem_cons_of_mem _ hx))
    intro x hx
    rcases (IMap.mem_insert m e.1 e.2 x).mp hx with h1 | h1
    · rw [h1]; exact h e (by simp)
    · exact hm x h1.1

end IMapFacts

/-! ### Bitfinex: how the history functions grow by one frame -/

section Bitfinex

theorem snoc_induction {α : Type} {P : List α → Prop} (h0 : P [])
    (hs : ∀ l a, P l → P (l ++ [a])) : ∀ l, P l := by
  intro l
  have : ∀ (r l' : List α), P l' → P (l' ++ r) := by
    intro r
    induction r with
    | nil => intro l' h; simpa using h
    | cons a t ih =>
      intro l' h
      have := ih (l' ++ [a]) (hs _ _ h)
      simpa using this
  simpa using this l [] h0

/-- one step of the re-keying the validator performs (bitfinex/validator.rs:99-118) -/
def rekeyStep (m : IMap) (f : Frame BfxEvent) : IMap :=
  match confOf f with
  | some (k, id) =>
    match m.get k with
    | some ins => (m.erase k).insert (.chan id) ins
    | none => m
  | none => m

/-- the concrete map after the history `pre` -/
def mapAfter (map0 : IMap) (pre : List (Frame BfxEvent)) : IMap := pre.foldl rekeyStep map0

theorem mapAfter_snoc (map0 : IMap) (pre : List (Frame BfxEvent)) (f : Frame BfxEvent) :
    mapAfter map0 (pre ++ [f]) = rekeyStep (mapAfter map0 pre) f := by
  simp [mapAfter, List.foldl_append]

theorem confOf_sub {f : Frame BfxEvent} {k : Key} {id : Nat} (h : confOf f = some (k, id)) :
    ∃ c m, k = .sub c m ∧ f = .resp (.subscribed c m id) := by
  cases f with
  | resp ev =>
    cases ev with
    | subscribed c m i => simp [confOf] at h; exact ⟨c, m, h.1.symm, by rw [h.2]⟩
    | _ => simp [confOf] at h
  | _ => simp [confOf] at h

theorem chanIdOf_snoc (pre : List (Frame BfxEvent)) (f : Frame BfxEvent) (k : Key) :
    chanIdOf (pre ++ [f]) k
      = (chanIdOf pre k).or (match confOf f with
          | some (k', id) => if k' = k then some id else none
          | none => none) := by
  unfold chanIdOf confirmations
  rw [List.filterMap_append, List.find?_append]
  cases hf : confOf f with
  | none => simp [hf]
  | some e =>
    obtain ⟨k', id⟩ := e
    simp only [List.filterMap_cons, List.filterMap_nil, hf]
    cases List.find? (fun e => e.1 == k) (List.filterMap confOf pre) with
    | some y => simp
    | none =>
      by_cases hk : k' = k
      · simp [hk]
      · simp [hk]

theorem chanIdOf_nil (k : Key) : chanIdOf [] k = none := by simp [chanIdOf, confirmations]

/-- `channel|market` lookups in the concrete map: gone once confirmed, otherwise as in the original map -/
theorem mapAfter_get_sub (map0 : IMap) (pre : List (Frame BfxEvent)) (c mk : Nat) :
    (mapAfter map0 pre).get (.sub c mk)
      = if (chanIdOf pre (.sub c mk)).isSome then none else map0.get (.sub c mk) := by
  induction pre using snoc_induction with
  | h0 => simp [mapAfter, chanIdOf_nil]
  | hs pre f ih =>
    rw [mapAfter_snoc, chanIdOf_snoc]
    unfold rekeyStep
    cases hf : confOf f with
    | none => simpa using ih
    | some e =>
      obtain ⟨k, id⟩ := e
      obtain ⟨c', m', hk, _⟩ := confOf_sub hf
      subst hk
      simp only []
      cases hg : (mapAfter map0 pre).get (.sub c' m') with
      | none =>
        simp only []
        rw [ih]
        by_cases hsame : Key.sub c' m' = Key.sub c mk
        · rw [hsame] at hg
          rw [ih] at hg
          simp only [hsame, if_true]
          cases hc : chanIdOf pre (.sub c mk) with
          | some x => simp
          | none => simp [hc] at hg; simp [hg]
        · simp [hsame]
      | some ins =>
        simp only []
        rw [IMap.get_insert, IMap.get_erase, ih]
        by_cases hsame : Key.sub c' m' = Key.sub c mk
        · have : Key.sub c mk = Key.sub c' m' := hsame.symm
          simp [hsame]
        · have h2 : ¬ Key.sub c mk = Key.sub c' m' := fun h => hsame h.symm
          simp [hsame, h2]

theorem countP_or_disjoint {α : Type} (p q : α → Bool) (l : List α)
    (h : ∀ a ∈ l, ¬ (p a = true ∧ q a = true)) :
    l.countP (fun a => p a || q a) = l.countP p + l.countP q := by
  induction l with
  | nil => simp
  | cons a t ih =>
    have iht := ih (fun x hx => h x (List.mem_cons_of_mem _ hx))
    have ha := h a (by simp)
    simp only [List.countP_cons, iht]
    cases hp : p a <;> cases hq : q a <;> simp_all <;> omega

theorem IMap.get_cons_ne (e : Key × Nat) (t : IMap) (k : Key) (h : e.1 ≠ k) :
    IMap.get (e :: t) k = IMap.get t k := by
  have hb : (e.1 == k) = false := by simp [h]
  simp [IMap.get, hb]

theorem countP_key {m : IMap} (h : KeysNodup m) (k : Key) :
    m.countP (fun e => e.1 == k) = if (m.get k).isSome then 1 else 0 := by
  induction m with
  | nil => simp [IMap.get]
  | cons e t ih =>
    have ht : KeysNodup t := by unfold KeysNodup at *; exact (List.nodup_cons.mp h).2
    have hnot : e.1 ∉ t.map (·.1) := by unfold KeysNodup at h; exact (List.nodup_cons.mp h).1
    by_cases hk : e.1 = k
    · have h0 : t.countP (fun e => e.1 == k) = 0 := by
        rw [List.countP_eq_zero]
        intro x hx hxk
        apply hnot
        have : x.1 = k := by simpa using hxk
        rw [hk, ← this]
        exact List.mem_map.mpr ⟨x, hx, rfl⟩
      simp [hk, h0, IMap.get]
    · have := ih ht
      have hb : (e.1 == k) = false := by simp [hk]
      rw [IMap.get_cons_ne e t k hk, List.countP_cons, hb, this]
      simp

/-- the frame confirms a subscription of the original map that the history has not confirmed yet -/
def isNewHit (map0 : IMap) (pre : List (Frame BfxEvent)) (f : Frame BfxEvent) : Bool :=
  match confOf f with
  | some (k, _) => (chanIdOf pre k).isNone && (map0.get k).isSome
  | none => false

theorem hitCount_snoc {map0 : IMap} (hn : KeysNodup map0) (pre : List (Frame BfxEvent))
    (f : Frame BfxEvent) :
    hitCount map0 (pre ++ [f]) = hitCount map0 pre + (if isNewHit map0 pre f then 1 else 0) := by
  unfold hitCount isNewHit
  rw [← List.countP_eq_length_filter, ← List.countP_eq_length_filter]
  cases hf : confOf f with
  | none =>
    simp only [Bool.false_eq_true, if_false, Nat.add_zero]
    congr 1; funext e; rw [chanIdOf_snoc, hf]; simp
  | some x =>
    obtain ⟨k, id⟩ := x
    simp only []
    by_cases hc : (chanIdOf pre k).isSome = true
    · have hn' : (chanIdOf pre k).isNone = false := by
        cases h : chanIdOf pre k <;> simp [h] at hc ⊢
      simp only [hn', Bool.false_and, Bool.false_eq_true, if_false, Nat.add_zero]
      apply List.countP_congr
      intro e _
      rw [chanIdOf_snoc, hf]
      by_cases hk : k = e.1
      · rw [← hk]
        cases h : chanIdOf pre k <;> simp [h] at hc ⊢
      · simp [hk]
    · have hc' : chanIdOf pre k = none := by
        cases h : chanIdOf pre k <;> simp [h] at hc ⊢
      have hfun : (fun e : Key × Nat => (chanIdOf (pre ++ [f]) e.1).isSome)
          = (fun e => (chanIdOf pre e.1).isSome || (e.1 == k)) := by
        funext e
        rw [chanIdOf_snoc, hf]
        by_cases hk : k = e.1
        · subst hk; simp [hc']
        · have : ¬ e.1 = k := fun h => hk h.symm
          simp [hk, this]
      rw [hfun, countP_or_disjoint, countP_key hn k]
      · simp [hc']
      · intro a _ ⟨h1, h2⟩
        have : a.1 = k := by simpa using h2
        rw [this, hc'] at h1
        simp at h1

theorem others_conf {f : Frame BfxEvent} {x : Key × Nat} (h : confOf f = some x) : others [f] = [] := by
  obtain ⟨k, id⟩ := x
  obtain ⟨c, m, _, hf⟩ := confOf_sub h
  subst hf
  simp [others]

theorem others_isHit (map0 : IMap) (f : Frame BfxEvent) (h : isHit map0 f = true) : others [f] = [] := by
  unfold isHit at h
  cases hf : confOf f with
  | none => simp [hf] at h
  | some x => exact others_conf hf

theorem snapshotsOf_nohit (map0 : IMap) (pre : List (Frame BfxEvent))
    (h : pre.any (isHit map0) = false) : snapshotsOf map0 pre = [] := by
  unfold snapshotsOf
  have hall : ∀ a ∈ pre, (fun f => !isHit map0 f) a = true := by
    intro a ha
    have := List.any_eq_false.mp h a ha
    simpa using this
  have := List.dropWhile_append_of_pos (l₂ := []) hall
  simp at this
  simp [this, others]

theorem dropWhile_any {α : Type} (p : α → Bool) (pre l : List α) (h : pre.any p = true) :
    (pre ++ l).dropWhile (fun f => !p f) = pre.dropWhile (fun f => !p f) ++ l := by
  induction pre with
  | nil => simp at h
  | cons a t ih =>
    by_cases ha : p a = true
    · simp [ha]
    · have ht : t.any p = true := by simpa [ha] using h
      simp [ha, ih ht]

theorem snapshotsOf_snoc (map0 : IMap) (pre : List (Frame BfxEvent)) (f : Frame BfxEvent) :
    snapshotsOf map0 (pre ++ [f])
      = if pre.any (isHit map0) then snapshotsOf map0 pre ++ others [f] else [] := by
  by_cases h : pre.any (isHit map0) = true
  · simp only [h, if_true]
    unfold snapshotsOf
    rw [dropWhile_any _ pre [f] h, others_append]
  · have h' : pre.any (isHit map0) = false := by simpa using h
    simp only [h', Bool.false_eq_true, if_false]
    unfold snapshotsOf
    have hall : ∀ a ∈ pre, (fun f => !isHit map0 f) a = true := by
      intro a ha
      have := List.any_eq_false.mp h' a ha
      simpa using this
    rw [List.dropWhile_append_of_pos hall]
    by_cases hf : isHit map0 f = true
    · simp [hf, others_isHit map0 f hf]
    · simp [hf, others]

/-- a confirmation of a subscribed key has been seen iff at least one subscription counts as confirmed -/
theorem hitSeen_iff (map0 : IMap) (pre : List (Frame BfxEvent)) :
    pre.any (isHit map0) = true ↔ 1 ≤ hitCount map0 pre := by
  unfold hitCount
  rw [← List.countP_eq_length_filter]
  rw [show (1 ≤ List.countP (fun e => (chanIdOf pre e.1).isSome) map0) ↔
      0 < List.countP (fun e => (chanIdOf pre e.1).isSome) map0 from Iff.rfl, List.countP_pos_iff]
  simp only [List.any_eq_true]
  constructor
  · rintro ⟨f, hf, hh⟩
    unfold isHit at hh
    cases hc : confOf f with
    | none => simp [hc] at hh
    | some x =>
      obtain ⟨k, id⟩ := x
      simp [hc] at hh
      obtain ⟨v, hv⟩ := (IMap.get_isSome_iff map0 k).mp (by simpa using hh)
      refine ⟨(k, v), hv, ?_⟩
      simp only [chanIdOf, confirmations, Option.isSome_map, List.find?_isSome]
      exact ⟨(k, id), List.mem_filterMap.mpr ⟨f, hf, hc⟩, by simp⟩
  · rintro ⟨e, he, hc⟩
    simp only [chanIdOf, confirmations, Option.isSome_map, List.find?_isSome] at hc
    obtain ⟨x, hx, hxk⟩ := hc
    obtain ⟨f, hf, hfx⟩ := List.mem_filterMap.mp hx
    refine ⟨f, hf, ?_⟩
    unfold isHit
    rw [hfx]
    have : x.1 = e.1 := by simpa using hxk
    obtain ⟨xk, xid⟩ := x
    simp only at this ⊢
    rw [this]
    exact (IMap.get_isSome_iff map0 e.1).mpr ⟨e.2, he⟩

/-- The loop state after consuming the history `pre`. -/
def bfxSummary (map0 : IMap) (pre : List (Frame BfxEvent)) : BfxSt :=
  { map := mapAfter map0 pre, successes := hitCount map0 pre,
    snapshots := (snapshotsOf map0 pre).length, buffered := snapshotsOf map0 pre, idle := silence pre }

theorem snapshotsOf_snoc_silent (map0 : IMap) (pre : List (Frame BfxEvent)) (f : Frame BfxEvent)
    (hf : others [f] = []) : snapshotsOf map0 (pre ++ [f]) = snapshotsOf map0 pre := by
  rw [snapshotsOf_snoc, hf]
  by_cases h : pre.any (isHit map0) = true
  · simp [h]
  · have h' : pre.any (isHit map0) = false := by simpa using h
    simp [h', snapshotsOf_nohit map0 pre h']

theorem bfxSummary_snoc_plain {map0 : IMap} (hn : KeysNodup map0) (pre : List (Frame BfxEvent))
    (f : Frame BfxEvent) (hc : confOf f = none) (ho : others [f] = []) (hw : isWait f = false) :
    bfxSummary map0 (pre ++ [f]) = { bfxSummary map0 pre with idle := 0 } := by
  simp [bfxSummary, mapAfter_snoc, rekeyStep, hc, hitCount_snoc hn, isNewHit,
    snapshotsOf_snoc_silent map0 pre f ho, silence_snoc, hw]

/-- The concrete Bitfinex loop, started in the state that summarises `pre`, agrees with the specification
scanning on from `pre` (with the concrete map as a function of the history). -/
theorem runBfx_eq_scan {map0 : IMap} (hn : KeysNodup map0) (timeout expected : Nat)
    (rest pre : List (Frame BfxEvent)) :
    runBfx timeout expected (bfxSummary map0 pre) rest
      = scanWith
          (fun pre => hitCount map0 pre == expected && (snapshotsOf map0 pre).length == expected)
          (fun pre rest => (mapAfter map0 pre, snapshotsOf map0 pre, rest))
          (fatal BfxEvent.validate timeout silence) pre rest := by
  induction rest generalizing pre with
  | nil => simp [runBfx, scanWith, bfxSummary]
  | cons f rest ih =>
    unfold runBfx scanWith
    by_cases hd : (hitCount map0 pre == expected && (snapshotsOf map0 pre).length == expected) = true
    · simp only [bfxSummary, hd, if_true]
    · simp only [bfxSummary, hd, Bool.false_eq_true, if_false]
      cases f with
      | wait d =>
        simp only [fatal]
        by_cases ht : timeout ≤ silence pre + d
        · simp [ht]
        · have hs : bfxSummary map0 (pre ++ [Frame.wait d])
              = { bfxSummary map0 pre with idle := silence pre + d } := by
            simp [bfxSummary, mapAfter_snoc, rekeyStep, confOf, hitCount_snoc hn, isNewHit,
              snapshotsOf_snoc_silent map0 pre (Frame.wait d) (by simp [others]), silence_snoc, isWait,
              waitMs]
          simp only [ht, if_false]
          rw [← ih, hs]
          rfl
      | close => simp [fatal]
      | transportErr => simp [fatal]
      | skip =>
        simp only [fatal]
        rw [← ih, bfxSummary_snoc_plain hn pre _ (by simp [confOf]) (by simp [others]) (by simp [isWait])]
        rfl
      | other p =>
        simp only [fatal]
        rw [← ih]
        by_cases h1 : 1 ≤ hitCount map0 pre
        · have hany := (hitSeen_iff map0 pre).mpr h1
          have hs : bfxSummary map0 (pre ++ [Frame.other p])
              = { bfxSummary map0 pre with
                    snapshots := (snapshotsOf map0 pre).length + 1,
                    buffered := snapshotsOf map0 pre ++ [p], idle := 0 } := by
            simp [bfxSummary, mapAfter_snoc, rekeyStep, confOf, hitCount_snoc hn, isNewHit,
              snapshotsOf_snoc, hany, others, silence_snoc, isWait]
          simp only [h1, if_true]
          rw [hs]
          rfl
        · have hany : pre.any (isHit map0) = false := by
            cases h : pre.any (isHit map0)
            · rfl
            · exact absurd ((hitSeen_iff map0 pre).mp h) h1
          have hs : bfxSummary map0 (pre ++ [Frame.other p])
              = { bfxSummary map0 pre with idle := 0 } := by
            simp [bfxSummary, mapAfter_snoc, rekeyStep, confOf, hitCount_snoc hn, isNewHit,
              snapshotsOf_snoc, hany, snapshotsOf_nohit map0 pre hany, silence_snoc, isWait]
          simp only [h1, if_false]
          rw [hs]
          rfl
      | resp ev =>
        cases ev with
        | platformStatus op =>
          cases op with
          | false => simp [fatal, BfxEvent.validate]
          | true =>
            simp only [fatal, BfxEvent.validate, Option.map_none]
            rw [← ih, bfxSummary_snoc_plain hn pre _ (by simp [confOf]) (by simp [others])
              (by simp [isWait])]
            rfl
        | error code => simp [fatal, BfxEvent.validate]
        | subscribed c m id =>
          simp only [fatal, BfxEvent.validate, Option.map_none]
          rw [← ih]
          have hget := mapAfter_get_sub map0 pre c m
          cases hg : (mapAfter map0 pre).get (.sub c m) with
          | some ins =>
            rw [hg] at hget
            have hnone : chanIdOf pre (.sub c m) = none := by
              cases h : chanIdOf pre (.sub c m) <;> simp [h] at hget ⊢
            have hsome : (map0.get (.sub c m)).isSome = true := by
              simp [hnone] at hget; simp [← hget]
            have hs : bfxSummary map0 (pre ++ [Frame.resp (.subscribed c m id)])
                = { bfxSummary map0 pre with
                      map := ((mapAfter map0 pre).erase (.sub c m)).insert (.chan id) ins,
                      successes := hitCount map0 pre + 1, idle := 0 } := by
              simp [bfxSummary, mapAfter_snoc, rekeyStep, confOf, hg, hitCount_snoc hn, isNewHit, hnone,
                hsome, snapshotsOf_snoc_silent map0 pre _ (by simp [others] : others
                  [Frame.resp (BfxEvent.subscribed c m id)] = []), silence_snoc, isWait]
            rw [hs]
            rfl
          | none =>
            rw [hg] at hget
            have hnew : isNewHit map0 pre (Frame.resp (.subscribed c m id)) = false := by
              simp only [isNewHit, confOf]
              cases h : chanIdOf pre (.sub c m) with
              | some x => simp
              | none => simp [h] at hget; simp [← hget]
            have hs : bfxSummary map0 (pre ++ [Frame.resp (.subscribed c m id)])
                = { bfxSummary map0 pre with idle := 0 } := by
              simp [bfxSummary, mapAfter_snoc, rekeyStep, confOf, hg, hitCount_snoc hn, hnew,
                snapshotsOf_snoc_silent map0 pre _ (by simp [others] : others
                  [Frame.resp (BfxEvent.subscribed c m id)] = []), silence_snoc, isWait]
            rw [hs]
            rfl

/-- `validateBfx` as a scan over the history, with the concrete map as a function of the history. -/
theorem validateBfx_eq_scan {map0 : IMap} (hn : KeysNodup map0) (frames : List (Frame BfxEvent)) :
    validateBfx map0 frames
      = scanWith (fun pre => hitCount map0 pre == map0.length && (snapshotsOf map0 pre).length == map0.length) (fun pre rest => (mapAfter map0 pre, snapshotsOf map0 pre, rest))
          (fatal BfxEvent.validate (subscriptionTimeoutMs .bitfinex) silence) [] frames := by
  have := runBfx_eq_scan hn (subscriptionTimeoutMs .bitfinex) map0.length frames []
  have h0 : bfxSummary map0 [] = { map := map0 } := by
    simp [bfxSummary, mapAfter, hitCount, chanIdOf_nil, snapshotsOf, others, silence]
  rw [h0] at this
  simpa [validateBfx, expectedResponses] using this

/-! ### The concrete map is the re-keyed original map -/

theorem filterMap_sublist_of_le {α β : Type} (g g' : α → Option β) (l : List α)
    (h : ∀ a x, g a = some x → g' a = some x) : (l.filterMap g).Sublist (l.filterMap g') := by
  induction l with
  | nil => simp
  | cons a t ih =>
    simp only [List.filterMap_cons]
    cases hg : g a with
    | none =>
      simp only []
      cases g' a with
      | none => exact ih
      | some y => exact List.Sublist.cons _ ih
    | some x =>
      rw [h a x hg]
      exact List.Sublist.cons_cons _ ih

theorem filterMap_nodup_inj {α β : Type} (g : α → Option β) (l : List α) (hn : (l.filterMap g).Nodup)
    (a b : α) (ha : a ∈ l) (hb : b ∈ l) (x : β) (hga : g a = some x) (hgb : g b = some x)
    (hl : l.Nodup) : a = b := by
  induction l with
  | nil => cases ha
  | cons c t ih =>
    have hc := List.nodup_cons.mp hl
    simp only [List.filterMap_cons] at hn
    rcases List.mem_cons.mp ha with rfl | ha' <;> rcases List.mem_cons.mp hb with rfl | hb'
    · rfl
    · rw [hga] at hn
      have := (List.nodup_cons.mp hn).1
      exact absurd (List.mem_filterMap.mpr ⟨b, hb', hgb⟩) this
    · rw [hgb] at hn
      have := (List.nodup_cons.mp hn).1
      exact absurd (List.mem_filterMap.mpr ⟨a, ha', hga⟩) this
    · apply ih _ ha' hb' hc.2
      cases hgc : g c with
      | none => rw [hgc] at hn; exact hn
      | some y => rw [hgc] at hn; exact (List.nodup_cons.mp hn).2

theorem keysNodup_nodup {m : IMap} (h : KeysNodup m) : m.Nodup := by
  unfold KeysNodup at h
  exact (List.Pairwise.of_map (·.1) (fun a b hab heq => hab (by rw [heq])) h)

theorem distinctIds_iff (map0 : IMap) (pre : List (Frame BfxEvent)) :
    distinctIds map0 pre = true ↔ (map0.filterMap (fun e => chanIdOf pre e.1)).Nodup := by
  simp [distinctIds]

theorem distinctIds_mono (map0 : IMap) (pre : List (Frame BfxEvent)) (f : Frame BfxEvent)
    (h : distinctIds map0 (pre ++ [f]) = true) : distinctIds map0 pre = true := by
  rw [distinctIds_iff] at h ⊢
  refine List.Nodup.sublist (filterMap_sublist_of_le _ _ map0 ?_) h
  intro a x ha
  rw [chanIdOf_snoc, ha]; rfl

/-- entry of the re-keyed map for an entry of the original map -/
abbrev rk (pre : List (Frame BfxEvent)) (e : Key × Nat) : Key × Nat := rekeyEntry pre e

theorem mem_rekey (map0 : IMap) (pre : List (Frame BfxEvent)) (x : Key × Nat) :
    x ∈ rekey map0 pre ↔ ∃ e ∈ map0, rk pre e = x := by
  unfold rekey
  rw [List.mem_map]

theorem mapAfter_mem_iff_rekey {map0 : IMap} (hn : KeysNodup map0) (hs : AllSub map0)
    (pre : List (Frame BfxEvent)) (hd : distinctIds map0 pre = true) (x : Key × Nat) :
    x ∈ mapAfter map0 pre ↔ x ∈ rekey map0 pre := by
  induction pre using snoc_induction generalizing x with
  | h0 =>
    rw [mem_rekey]
    simp only [mapAfter, List.foldl_nil, rk, rekeyEntry, chanIdOf_nil]
    constructor
    · intro h; exact ⟨x, h, rfl⟩
    · rintro ⟨e, he, rfl⟩; exact he
  | hs pre f ih =>
    have ih := ih (distinctIds_mono map0 pre f hd)
    rw [mapAfter_snoc]
    unfold rekeyStep
    cases hf : confOf f with
    | none =>
      simp only []
      rw [ih, mem_rekey, mem_rekey]
      have : ∀ e, rk (pre ++ [f]) e = rk pre e := by
        intro e; simp [rk, rekeyEntry, chanIdOf_snoc, hf]
      simp [this]
    | some ck =>
      obtain ⟨k, id⟩ := ck
      obtain ⟨c, m, hk, _⟩ := confOf_sub hf
      simp only []
      have hget := mapAfter_get_sub map0 pre c m
      rw [← hk] at hget
      cases hg : (mapAfter map0 pre).get k with
      | none =>
        simp only []
        rw [ih, mem_rekey, mem_rekey]
        rw [hg] at hget
        have : ∀ e ∈ map0, rk (pre ++ [f]) e = rk pre e := by
          intro e he
          simp only [rk, rekeyEntry, chanIdOf_snoc, hf]
          cases hc : chanIdOf pre e.1 with
          | some y => simp
          | none =>
            by_cases hke : k = e.1
            · exfalso
              rw [hke, hc] at hget
              simp at hget
              have := (IMap.get_isSome_iff map0 e.1).mpr ⟨e.2, he⟩
              rw [← hget] at this
              simp at this
            · simp [hke]
        constructor
        · rintro ⟨e, he, hx⟩; exact ⟨e, he, by rw [this e he]; exact hx⟩
        · rintro ⟨e, he, hx⟩; exact ⟨e, he, by rw [← this e he]; exact hx⟩
      | some ins =>
        simp only []
        rw [hg] at hget
        have hnone : chanIdOf pre k = none := by
          cases h : chanIdOf pre k <;> simp [h] at hget ⊢
        have hins : map0.get k = some ins := by simp [hnone] at hget; exact hget.symm
        have hmem : (k, ins) ∈ map0 := (IMap.get_eq_some_iff hn k ins).mp hins
        -- how `rk` changes
        have hrk_k : ∀ e ∈ map0, e.1 = k → e = (k, ins) ∧ rk (pre ++ [f]) e = (.chan id, ins) := by
          intro e he hek
          have h1 : map0.get k = some e.2 := (IMap.get_eq_some_iff hn k e.2).mpr (by rw [← hek]; exact he)
          have h2 : e.2 = ins := by rw [hins] at h1; cases h1; rfl
          refine ⟨by cases e; simp_all, ?_⟩
          simp [rk, rekeyEntry, chanIdOf_snoc, hf, hek, hnone, h2]
        have hrk_ne : ∀ e, e.1 ≠ k → rk (pre ++ [f]) e = rk pre e := by
          intro e hek
          have : ¬ k = e.1 := fun h => hek h.symm
          simp [rk, rekeyEntry, chanIdOf_snoc, hf, this]
        rw [IMap.mem_insert, IMap.mem_erase, mem_rekey]
        constructor
        · rintro (hx | ⟨⟨hxm, hxk⟩, hxc⟩)
          · exact ⟨(k, ins), hmem, by rw [(hrk_k _ hmem rfl).2, hx]⟩
          · obtain ⟨e, he, hex⟩ := (mem_rekey map0 pre x).mp ((ih x).mp hxm)
            have hek : e.1 ≠ k := by
              intro hek
              have : rk pre e = e := by simp [rk, rekeyEntry, hek, hnone]
              rw [this] at hex
              apply hxk; rw [← hex]; exact hek
            exact ⟨e, he, by rw [hrk_ne e hek]; exact hex⟩
        · rintro ⟨e, he, hex⟩
          by_cases hek : e.1 = k
          · left; rw [← hex]; exact (hrk_k e he hek).2
          · right
            rw [hrk_ne e hek] at hex
            have hxm : x ∈ mapAfter map0 pre := (ih x).mpr ((mem_rekey map0 pre x).mpr ⟨e, he, hex⟩)
            refine ⟨⟨hxm, ?_⟩, ?_⟩
            · -- the key of `rk pre e` is a channel id or `e.1`
              rw [← hex]
              simp only [rk, rekeyEntry]
              cases hc : chanIdOf pre e.1 with
              | some y => simp [hk]
              | none => exact hek
            · rw [← hex]
              simp only [rk, rekeyEntry]
              cases hc : chanIdOf pre e.1 with
              | none =>
                obtain ⟨c', m', he'⟩ := hs e he
                simp [he']
              | some y =>
                simp only
                intro hy
                have hy' : y = id := by simpa using hy
                -- two different subscriptions with the same channel id
                have hd' := (distinctIds_iff map0 (pre ++ [f])).mp hd
                have h1 : chanIdOf (pre ++ [f]) e.1 = some id := by
                  rw [chanIdOf_snoc, hc, hy']; rfl
                have h2 : chanIdOf (pre ++ [f]) (k, ins).1 = some id := by
                  simp [chanIdOf_snoc, hf, hnone]
                have := filterMap_nodup_inj (fun e => chanIdOf (pre ++ [f]) e.1) map0 hd' e (k, ins)
                  he hmem id h1 h2 (keysNodup_nodup hn)
                apply hek; rw [this]

theorem mapAfter_keysNodup {map0 : IMap} (hn : KeysNodup map0) (pre : List (Frame BfxEvent)) :
    KeysNodup (mapAfter map0 pre) := by
  induction pre using snoc_induction with
  | h0 => exact hn
  | hs pre f ih =>
    rw [mapAfter_snoc]
    unfold rekeyStep
    cases confOf f with
    | none => exact ih
    | some ck =>
      obtain ⟨k, id⟩ := ck
      simp only []
      cases (mapAfter map0 pre).get k with
      | none => exact ih
      | some ins => exact (ih.erase k).insert _ _

end Bitfinex

/-! ### Added after the review of the sub-check theorems -/

section Added

theorem IMap.get_foldl_insert (es : List (Key × Nat)) (m0 : IMap) (k : Key) :
    (es.foldl (fun m e => m.insert e.1 e.2) m0).get k
      = match lastEntry es k with
        | some v => some v
        | none => m0.get k := by
  induction es generalizing m0 with
  | nil => simp [lastEntry]
  | cons e es ih =>
    rw [List.foldl_cons, ih]
    have hl : lastEntry (e :: es) k
        = match lastEntry es k with
          | some v => some v
          | none => if e.1 = k then some e.2 else none := by
      unfold lastEntry
      rw [List.reverse_cons, List.find?_append]
      cases List.find? (fun e => e.1 == k) es.reverse with
      | some x => simp
      | none =>
        by_cases h : e.1 = k
        · simp [h]
        · simp [h]
    rw [hl, IMap.get_insert]
    cases lastEntry es k with
    | some v => rfl
    | none =>
      by_cases h : e.1 = k
      · simp [h]
      · have : ¬ k = e.1 := fun h' => h h'.symm
        simp [h, this]

/-- `Map::from_iter`: a lookup finds the instrument of the last entry with that key -/
theorem IMap.get_ofList (es : List (Key × Nat)) (k : Key) : (IMap.ofList es).get k = lastEntry es k := by
  unfold IMap.ofList
  rw [IMap.get_foldl_insert]
  cases lastEntry es k <;> simp [IMap.get]

/-- Without any assumption on the channel ids: every entry of the concrete map is an entry of the re-keyed
original map (the converse needs `distinctIds`: `mapAfter_mem_iff_rekey`). -/
theorem mapAfter_subset_rekey {map0 : IMap} (hn : KeysNodup map0)
    (pre : List (Frame BfxEvent)) (x : Key × Nat) :
    x ∈ mapAfter map0 pre → x ∈ rekey map0 pre := by
  induction pre using snoc_induction generalizing x with
  | h0 =>
    rw [mem_rekey]
    simp only [mapAfter, List.foldl_nil, rk, rekeyEntry, chanIdOf_nil]
    intro h; exact ⟨x, h, rfl⟩
  | hs pre f ih =>
    rw [mapAfter_snoc]
    unfold rekeyStep
    cases hf : confOf f with
    | none =>
      simp only []
      intro hx
      have := ih x hx
      rw [mem_rekey] at this ⊢
      have hrk : ∀ e, rk (pre ++ [f]) e = rk pre e := by
        intro e; simp [rk, rekeyEntry, chanIdOf_snoc, hf]
      obtain ⟨e, he, hex⟩ := this
      exact ⟨e, he, by rw [hrk]; exact hex⟩
    | some ck =>
      obtain ⟨k, id⟩ := ck
      obtain ⟨c, m, hk, _⟩ := confOf_sub hf
      simp only []
      have hget := mapAfter_get_sub map0 pre c m
      rw [← hk] at hget
      cases hg : (mapAfter map0 pre).get k with
      | none =>
        simp only []
        intro hx
        have := ih x hx
        rw [mem_rekey] at this ⊢
        rw [hg] at hget
        have hrk : ∀ e ∈ map0, rk (pre ++ [f]) e = rk pre e := by
          intro e he
          simp only [rk, rekeyEntry, chanIdOf_snoc, hf]
          cases hc : chanIdOf pre e.1 with
          | some y => simp
          | none =>
            by_cases hke : k = e.1
            · exfalso
              rw [hke, hc] at hget
              simp at hget
              have := (IMap.get_isSome_iff map0 e.1).mpr ⟨e.2, he⟩
              rw [← hget] at this
              simp at this
            · simp [hke]
        obtain ⟨e, he, hex⟩ := this
        exact ⟨e, he, by rw [hrk e he]; exact hex⟩
      | some ins =>
        simp only []
        rw [hg] at hget
        have hnone : chanIdOf pre k = none := by
          cases h : chanIdOf pre k <;> simp [h] at hget ⊢
        have hins : map0.get k = some ins := by simp [hnone] at hget; exact hget.symm
        have hmem : (k, ins) ∈ map0 := (IMap.get_eq_some_iff hn k ins).mp hins
        have hrk_k : rk (pre ++ [f]) (k, ins) = (.chan id, ins) := by
          simp [rk, rekeyEntry, chanIdOf_snoc, hf, hnone]
        have hrk_ne : ∀ e, e.1 ≠ k → rk (pre ++ [f]) e = rk pre e := by
          intro e hek
          have : ¬ k = e.1 := fun h => hek h.symm
          simp [rk, rekeyEntry, chanIdOf_snoc, hf, this]
        rw [IMap.mem_insert, IMap.mem_erase, mem_rekey]
        rintro (hx | ⟨⟨hxm, hxk⟩, _⟩)
        · exact ⟨(k, ins), hmem, by rw [hrk_k, hx]⟩
        · obtain ⟨e, he, hex⟩ := (mem_rekey map0 pre x).mp (ih x hxm)
          have hek : e.1 ≠ k := by
            intro hek
            have : rk pre e = e := by simp [rk, rekeyEntry, hek, hnone]
            rw [this] at hex
            apply hxk; rw [← hex]; exact hek
          exact ⟨e, he, by rw [hrk_ne e hek]; exact hex⟩

end Added

end BarterModel.SubValidator
