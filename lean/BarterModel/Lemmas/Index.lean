import BarterModel.Model.Index
/-! Helper lemmas for C11 (core Lean only). -/
namespace BarterModel.Index

theorem builder_fold (defs : List Def) (b : Builder) :
    defs.foldl Builder.addInstrument b =
      { exchanges := b.exchanges ++ defs.map (·.exchange),
        assets := b.assets ++ defs.flatMap defAssets,
        instruments := b.instruments ++ defs } := by
  induction defs generalizing b with
  | nil => simp
  | cons d t ih => simp [ih, Builder.addInstrument]


/-! ### A. the derived order -/
section order
variable {α : Type} (key : α → List Nat)

theorem leKey_trans (a b c : α) (h1 : leKey key a b = true) (h2 : leKey key b c = true) :
    leKey key a c = true := by
  simp only [leKey, decide_eq_true_eq] at *
  exact List.le_trans h1 h2

theorem leKey_total (a b : α) : (leKey key a b || leKey key b a) = true := by
  simp only [leKey, Bool.or_eq_true, decide_eq_true_eq]
  exact List.le_total _ _

theorem leKey_antisymm (hinj : Function.Injective key) (a b : α)
    (h1 : leKey key a b = true) (h2 : leKey key b a = true) : a = b := by
  simp only [leKey, decide_eq_true_eq] at *
  exact hinj (List.le_antisymm h1 h2)

end order

/-! ### B. dedup -/
section dedup
variable {α : Type} [DecidableEq α]

theorem mem_dedup (l : List α) (x : α) : x ∈ dedup l ↔ x ∈ l := by
  fun_induction dedup l with
  | case1 => simp
  | case2 a => simp
  | case3 b t ih => simp [ih]
  | case4 a b t h ih => simp [ih]

/-- strictly ascending -/
def Strict (le : α → α → Bool) (l : List α) : Prop :=
  l.Pairwise (fun a b => le a b = true ∧ a ≠ b)

theorem dedup_strict (le : α → α → Bool)
    (hanti : ∀ a b, le a b = true → le b a = true → a = b) (l : List α)
    (h : l.Pairwise (fun a b => le a b = true)) : Strict le (dedup l) := by
  unfold Strict
  fun_induction dedup l with
  | case1 => simp
  | case2 a => simp
  | case3 b t ih => exact ih (List.pairwise_cons.mp h).2
  | case4 a b t hab ih =>
    have ⟨h1, h2⟩ := List.pairwise_cons.mp h
    refine List.pairwise_cons.mpr ⟨?_, ih h2⟩
    intro x hx
    have hx' : x ∈ b :: t := (mem_dedup _ _).mp hx
    refine ⟨h1 x hx', ?_⟩
    intro hax
    subst hax
    rcases List.mem_cons.mp hx' with rfl | hxt
    · exact hab rfl
    · have h3 := (List.pairwise_cons.mp h2).1 a hxt
      exact hab (hanti _ _ (h1 b (by simp)) h3)

omit [DecidableEq α] in
theorem strict_ext (le : α → α → Bool)
    (hanti : ∀ a b, le a b = true → le b a = true → a = b) :
    ∀ (l1 l2 : List α), Strict le l1 → Strict le l2 → (∀ x, x ∈ l1 ↔ x ∈ l2) → l1 = l2
  | [], [], _, _, _ => rfl
  | [], b :: t, _, _, h => by have := (h b).mpr (by simp); simp at this
  | a :: t, [], _, _, h => by have := (h a).mp (by simp); simp at this
  | a :: t1, b :: t2, h1, h2, h => by
    have ⟨ha, ht1⟩ := List.pairwise_cons.mp h1
    have ⟨hb, ht2⟩ := List.pairwise_cons.mp h2
    have hab : a = b := by
      rcases List.mem_cons.mp ((h a).mp (by simp)) with e | ha2
      · exact e
      · rcases List.mem_cons.mp ((h b).mpr (by simp)) with e | hb1
        · exact e.symm
        · exact hanti _ _ (ha b hb1).1 (hb a ha2).1
    subst hab
    congr 1
    apply strict_ext le hanti t1 t2 ht1 ht2
    intro x
    constructor
    · intro hx
      rcases List.mem_cons.mp ((h x).mp (List.mem_cons_of_mem _ hx)) with e | h'
      · exact absurd e.symm (ha x hx).2
      · exact h'
    · intro hx
      rcases List.mem_cons.mp ((h x).mpr (List.mem_cons_of_mem _ hx)) with e | h'
      · exact absurd e.symm (hb x hx).2
      · exact h'

end dedup

/-! ### C. sort + dedup -/
section sortDedup
variable {α : Type} [DecidableEq α] (key : α → List Nat)

theorem mem_sortDedup (l : List α) (x : α) : x ∈ sortDedup key l ↔ x ∈ l := by
  simp [sortDedup, mem_dedup, List.mem_mergeSort]

theorem strict_sortDedup (hinj : Function.Injective key) (l : List α) :
    Strict (leKey key) (sortDedup key l) :=
  dedup_strict _ (leKey_antisymm key hinj) _
    (List.pairwise_mergeSort (leKey_trans key) (leKey_total key) l)

theorem nodup_sortDedup (hinj : Function.Injective key) (l : List α) : (sortDedup key l).Nodup :=
  List.nodup_iff_pairwise_ne.mpr ((strict_sortDedup key hinj l).imp (fun h => h.2))

theorem sortDedup_congr (hinj : Function.Injective key) (l1 l2 : List α)
    (h : ∀ x, x ∈ l1 ↔ x ∈ l2) : sortDedup key l1 = sortDedup key l2 :=
  strict_ext _ (leKey_antisymm key hinj) _ _ (strict_sortDedup key hinj l1)
    (strict_sortDedup key hinj l2) (fun x => by simp [mem_sortDedup, h])

end sortDedup



/-! ### D. enumerate -/
section enumerate
variable {α : Type}

theorem getElem?_enumerate (l : List α) (k : Nat) :
    (enumerate l)[k]? = l[k]?.map (fun v => ⟨k, v⟩) := by
  simp [enumerate, List.getElem?_mapIdx]

theorem length_enumerate (l : List α) : (enumerate l).length = l.length := by
  simp [enumerate]

theorem map_value_enumerate (l : List α) : (enumerate l).map (·.value) = l := by
  apply List.ext_getElem? ; intro k
  simp [getElem?_enumerate, Option.map_map, Function.comp_def]

theorem find?_key_mapIdx (l : List α) (n k : Nat) :
    (l.mapIdx (fun i v => (⟨n + i, v⟩ : Keyed Nat α))).find? (fun x => x.key = k) =
      if n ≤ k then l[k - n]?.map (fun v => ⟨k, v⟩) else none := by
  induction l generalizing n with
  | nil => simp
  | cons a t ih =>
    rw [List.mapIdx_cons]
    have e : (fun i v => (⟨n + (i + 1), v⟩ : Keyed Nat α)) = (fun i v => ⟨(n + 1) + i, v⟩) := by
      funext i v; congr 1; omega
    rw [e, List.find?_cons]
    by_cases hnk : n = k
    · subst hnk; simp
    · simp only [Nat.add_zero, hnk, decide_false]
      rw [ih]
      by_cases h1 : n + 1 ≤ k
      · have h2 : n ≤ k := by omega
        have h3 : k - n = (k - (n + 1)) + 1 := by omega
        simp [h1, h2, h3]
      · have h2 : ¬ n ≤ k := by omega
        simp [h1, h2]

theorem find?_key_enumerate (l : List α) (k : Nat) :
    (enumerate l).find? (fun x => x.key = k) = l[k]?.map (fun v => ⟨k, v⟩) := by
  have := find?_key_mapIdx l 0 k
  simpa [enumerate] using this

theorem findSome?_value_mapIdx (p : α → Bool) (l : List α) (n : Nat) :
    (l.mapIdx (fun i v => (⟨n + i, v⟩ : Keyed Nat α))).findSome?
        (fun x => if p x.value then some x.key else none) = (l.findIdx? p).map (n + ·) := by
  induction l generalizing n with
  | nil => simp
  | cons a t ih =>
    rw [List.mapIdx_cons]
    have e : (fun i v => (⟨n + (i + 1), v⟩ : Keyed Nat α)) = (fun i v => ⟨(n + 1) + i, v⟩) := by
      funext i v; congr 1; omega
    rw [e, List.findSome?_cons, List.findIdx?_cons]
    by_cases hp : p a = true
    · simp [hp]
    · simp only [hp]
      rw [ih]
      simp only [Bool.false_eq_true, ↓reduceIte, Option.map_map]
      congr 1; funext i; simp; omega

theorem findSome?_value_enumerate (p : α → Bool) (l : List α) :
    (enumerate l).findSome? (fun x => if p x.value then some x.key else none) = l.findIdx? p := by
  have := findSome?_value_mapIdx p l 0
  simpa [enumerate] using this

/-- In a duplicate-free list where at most one element satisfies `p`, "first index with `p`" and
"the element at that index satisfies `p`" are the same thing. -/
theorem findIdx?_eq_some_iff_unique (p : α → Bool) (l : List α) (hn : l.Nodup)
    (hu : ∀ x ∈ l, ∀ y ∈ l, p x = true → p y = true → x = y) (k : Nat) :
    l.findIdx? p = some k ↔ ∃ x, l[k]? = some x ∧ p x = true := by
  rw [List.findIdx?_eq_some_iff_getElem]
  constructor
  · rintro ⟨h, hp, _⟩
    exact ⟨l[k], by simp [h], hp⟩
  · rintro ⟨x, hx, hp⟩
    obtain ⟨h, rfl⟩ := List.getElem?_eq_some_iff.mp hx
    refine ⟨h, hp, ?_⟩
    intro j hj hpj
    have hj' : j < l.length := by omega
    have e := hu l[j] (List.getElem_mem _) l[k] (List.getElem_mem _) hpj hp
    have : l[j]? = l[k]? := by simp [hj', h, e]
    have := (List.getElem?_inj hj' hn).mp this
    omega

end enumerate

/-! ### E. traverse -/
section traverse
variable {α β : Type}

theorem traverse_getElem? (f : α → Option β) (l : List α) (r : List β)
    (h : traverse f l = some r) : r.length = l.length ∧ ∀ (k : Nat) (a : α), l[k]? = some a → r[k]? = f a := by
  induction l generalizing r with
  | nil => simp [traverse] at h; subst h; simp
  | cons a t ih =>
    simp only [traverse] at h
    split at h
    · cases h
    · rename_i b hb
      split at h
      · cases h
      · rename_i bs hbs
        cases h
        have ⟨h1, h2⟩ := ih bs hbs
        refine ⟨by simp [h1], ?_⟩
        intro k x hk
        cases k with
        | zero => simp at hk; subst hk; simp [hb]
        | succ k => simp at hk; simpa using h2 k x hk

theorem traverse_total (f : α → Option β) (l : List α) (h : ∀ a ∈ l, ∃ b, f a = some b) :
    ∃ r, traverse f l = some r := by
  induction l with
  | nil => exact ⟨[], rfl⟩
  | cons a t ih =>
    obtain ⟨b, hb⟩ := h a (by simp)
    obtain ⟨bs, hbs⟩ := ih (fun x hx => h x (by simp [hx]))
    exact ⟨b :: bs, by simp [traverse, hb, hbs]⟩

end traverse



/-! ### sort keys are injective -/

theorem Asset.eq_iff (a b : Asset) :
    a = b ↔ a.nameInternal = b.nameInternal ∧ a.nameExchange = b.nameExchange := by
  cases a; cases b; simp

theorem exchangeKey_inj : Function.Injective exchangeKey := by
  intro a b h; simpa [exchangeKey] using h

theorem ExchangeAsset.sortKey_inj : Function.Injective ExchangeAsset.sortKey := by
  rintro ⟨e1, ⟨i1, x1⟩⟩ ⟨e2, ⟨i2, x2⟩⟩ h
  simp [ExchangeAsset.sortKey] at h
  simp [h]

theorem Kind.sortKey_length (k : Kind Asset) : k.sortKey.length = 8 := by
  cases k <;> rfl

theorem Kind.sortKey_inj : Function.Injective Kind.sortKey := by
  intro a b h
  cases a <;> cases b <;> simp [Kind.sortKey] at h <;> simp [Asset.eq_iff, h]

theorem Units.sortKey_inj : Function.Injective Units.sortKey := by
  intro a b h
  cases a <;> cases b <;> simp [Units.sortKey] at h <;> simp [Asset.eq_iff, h]

theorem Units.sortKey_length (u : Units Asset) : u.sortKey.length = 3 := by
  cases u <;> rfl

theorem specSortKey_length (s : Option (Spec Asset)) : (specSortKey s).length = 9 := by
  cases s <;> simp [specSortKey, Units.sortKey_length]

theorem specSortKey_inj : Function.Injective specSortKey := by
  intro a b h
  cases a with
  | none => cases b with
    | none => rfl
    | some s => simp [specSortKey] at h
  | some s => cases b with
    | none => simp [specSortKey] at h
    | some s' =>
      simp only [specSortKey, List.cons_append, List.nil_append, List.cons.injEq] at h
      obtain ⟨_, h1, h2, h3⟩ := h
      have h4 := List.append_inj h3 (by simp [Units.sortKey_length])
      have h5 := Units.sortKey_inj h4.1
      have h6 := h4.2
      simp at h6
      cases s; cases s'; simp_all

theorem Instrument.sortKey_inj : Function.Injective Instrument.sortKey := by
  intro a b h
  simp only [Instrument.sortKey, List.cons_append, List.nil_append, List.cons.injEq] at h
  obtain ⟨h1, h2, h3, h4, h5, h6, h7, h8, h9⟩ := h
  have h10 := List.append_inj h9 (by simp [Kind.sortKey_length])
  have h11 := Kind.sortKey_inj h10.1
  have h12 := specSortKey_inj h10.2
  cases a; cases b; simp_all [Asset.eq_iff]



section mapAsset
variable {E A B : Type}

theorem mem_assetRefs (i : Instrument E A) (a : A) :
    a ∈ i.assetRefs ↔ a = i.base ∨ a = i.quote ∨ i.kind.settlementAsset = some a ∨
      specUnitAsset i.spec = some a := by
  simp [Instrument.assetRefs, Option.mem_toList, eq_comm]

theorem mapAsset_total (f : A → Option B) (i : Instrument E A)
    (h : ∀ a ∈ i.assetRefs, ∃ b, f a = some b) :
    ∃ i', i.mapAssetKeyWithLookup f = some i' := by
  obtain ⟨b, hb⟩ := h i.base (by simp [mem_assetRefs])
  obtain ⟨q, hq⟩ := h i.quote (by simp [mem_assetRefs])
  have hk : ∃ k, i.kind.mapOpt f = some k := by
    cases hkind : i.kind with
    | spot => exact ⟨_, rfl⟩
    | perpetual s a =>
      obtain ⟨x, hx⟩ := h a (by simp [mem_assetRefs, hkind, Kind.settlementAsset])
      simp [Kind.mapOpt, hx]
    | future s a e =>
      obtain ⟨x, hx⟩ := h a (by simp [mem_assetRefs, hkind, Kind.settlementAsset])
      simp [Kind.mapOpt, hx]
    | option s a p x e k =>
      obtain ⟨x, hx⟩ := h a (by simp [mem_assetRefs, hkind, Kind.settlementAsset])
      simp [Kind.mapOpt, hx]
  have hs : ∃ s, specMapOpt f i.spec = some s := by
    cases hspec : i.spec with
    | none => exact ⟨_, rfl⟩
    | some s =>
      cases hu : s.unit with
      | asset a =>
        obtain ⟨x, hx⟩ := h a (by simp [mem_assetRefs, hspec, specUnitAsset, hu])
        simp [specMapOpt, Units.mapOpt, hu, hx]
      | contract => simp [specMapOpt, Units.mapOpt, hu]
      | quote => simp [specMapOpt, Units.mapOpt, hu]
  obtain ⟨k, hk⟩ := hk
  obtain ⟨s, hs⟩ := hs
  simp [Instrument.mapAssetKeyWithLookup, hb, hq, hk, hs]

/-- What a successful `map_asset_key_with_lookup` returns, field by field. -/
theorem mapAsset_some (f : A → Option B) (i : Instrument E A) (i' : Instrument E B)
    (h : i.mapAssetKeyWithLookup f = some i') :
    i'.exchange = i.exchange ∧ i'.nameInternal = i.nameInternal ∧ i'.nameExchange = i.nameExchange ∧
    i'.quoteAsset = i.quoteAsset ∧ f i.base = some i'.base ∧ f i.quote = some i'.quote ∧
    i.kind.mapOpt f = some i'.kind ∧ specMapOpt f i.spec = some i'.spec := by
  simp only [Instrument.mapAssetKeyWithLookup] at h
  split at h; · cases h
  split at h; · cases h
  split at h; · cases h
  split at h; · cases h
  cases h
  simp_all

theorem kind_mapOpt_roundtrip (f : A → Option B) (g : B → Option A) (k : Kind A) (k' : Kind B)
    (h : k.mapOpt f = some k')
    (hg : ∀ a, k.settlementAsset = some a → ∀ b, f a = some b → g b = some a) :
    k'.mapOpt g = some k := by
  cases k with
  | spot => simp [Kind.mapOpt] at h; subst h; rfl
  | perpetual s a =>
    simp only [Kind.mapOpt, Option.map_eq_some_iff] at h
    obtain ⟨b, hb, rfl⟩ := h
    simp [Kind.mapOpt, hg a rfl b hb]
  | future s a e =>
    simp only [Kind.mapOpt, Option.map_eq_some_iff] at h
    obtain ⟨b, hb, rfl⟩ := h
    simp [Kind.mapOpt, hg a rfl b hb]
  | option s a p x e k =>
    simp only [Kind.mapOpt, Option.map_eq_some_iff] at h
    obtain ⟨b, hb, rfl⟩ := h
    simp [Kind.mapOpt, hg a rfl b hb]

theorem spec_mapOpt_roundtrip (f : A → Option B) (g : B → Option A) (s : Option (Spec A))
    (s' : Option (Spec B)) (h : specMapOpt f s = some s')
    (hg : ∀ a, specUnitAsset s = some a → ∀ b, f a = some b → g b = some a) :
    specMapOpt g s' = some s := by
  cases s with
  | none => simp [specMapOpt] at h; subst h; rfl
  | some s =>
    obtain ⟨pm, tk, u, qm, qi, nm⟩ := s
    simp only [specMapOpt, Option.map_eq_some_iff] at h
    obtain ⟨u', hu, rfl⟩ := h
    cases u with
    | asset a =>
      simp only [Units.mapOpt, Option.map_eq_some_iff] at hu
      obtain ⟨b, hb, rfl⟩ := hu
      simp [specMapOpt, Units.mapOpt, hg a (by simp [specUnitAsset]) b hb]
    | contract => simp [Units.mapOpt] at hu; subst hu; simp [specMapOpt, Units.mapOpt]
    | quote => simp [Units.mapOpt] at hu; subst hu; simp [specMapOpt, Units.mapOpt]

/-- Mapping the asset keys with `f` and then with any `g` that undoes `f` on the referenced
assets gives the instrument back. -/
theorem mapAsset_roundtrip (f : A → Option B) (g : B → Option A) (i : Instrument E A)
    (i' : Instrument E B) (h : i.mapAssetKeyWithLookup f = some i')
    (hg : ∀ a ∈ i.assetRefs, ∀ b, f a = some b → g b = some a) :
    i'.mapAssetKeyWithLookup g = some i := by
  obtain ⟨h1, h2, h3, h4, h5, h6, h7, h8⟩ := mapAsset_some f i i' h
  have e1 := hg i.base (by simp [mem_assetRefs]) _ h5
  have e2 := hg i.quote (by simp [mem_assetRefs]) _ h6
  have e3 := kind_mapOpt_roundtrip f g _ _ h7 (fun a ha => hg a (by simp [mem_assetRefs, ha]))
  have e4 := spec_mapOpt_roundtrip f g _ _ h8 (fun a ha => hg a (by simp [mem_assetRefs, ha]))
  cases i; cases i'
  simp_all [Instrument.mapAssetKeyWithLookup]

end mapAsset




/-! ### F. what `build` returns -/

/-- the three sorted, duplicate-free vectors of `build` -/
abbrev sortedExchanges (defs : List Def) : List Nat := sortDedup exchangeKey (defs.map (·.exchange))
abbrev sortedAssets (defs : List Def) : List ExchangeAsset :=
  sortDedup ExchangeAsset.sortKey (defs.flatMap defAssets)
abbrev sortedDefs (defs : List Def) : List Def := sortDedup Instrument.sortKey defs

theorem build_eq (defs : List Def) :
    build defs =
      (traverse (indexInstrument (enumerate (sortedExchanges defs)) (enumerate (sortedAssets defs)))
        (enumerate (sortedDefs defs))).map (fun ins =>
          { exchanges := enumerate (sortedExchanges defs), assets := enumerate (sortedAssets defs),
            instruments := ins }) := by
  simp only [build, builder_fold, Builder.build, List.nil_append]
  split <;> simp_all

theorem findExchange_enumerate (E : List Nat) (e : Nat) :
    findExchangeByExchangeId (enumerate E) e = E.findIdx? (fun v => decide (v = e)) := by
  simpa [findExchangeByExchangeId] using findSome?_value_enumerate (fun v => decide (v = e)) E

theorem findExchange_iff (E : List Nat) (hn : E.Nodup) (e k : Nat) :
    findExchangeByExchangeId (enumerate E) e = some k ↔ E[k]? = some e := by
  rw [findExchange_enumerate, findIdx?_eq_some_iff_unique _ _ hn]
  · simp
  · intro x _ y _ hx hy; simp at hx hy; omega

theorem findAsset_enumerate (A : List ExchangeAsset) (e ni : Nat) :
    findAssetByExchangeAndNameInternal (enumerate A) e ni =
      A.findIdx? (fun x => decide (x.exchange = e ∧ x.asset.nameInternal = ni)) := by
  simpa [findAssetByExchangeAndNameInternal] using
    findSome?_value_enumerate (fun x => decide (x.exchange = e ∧ x.asset.nameInternal = ni)) A

/-- the lookup finds *an* entry of that exchange with that internal name -/
theorem findAsset_some (A : List ExchangeAsset) (e ni k : Nat)
    (h : findAssetByExchangeAndNameInternal (enumerate A) e ni = some k) :
    ∃ x, A[k]? = some x ∧ x.exchange = e ∧ x.asset.nameInternal = ni := by
  rw [findAsset_enumerate, List.findIdx?_eq_some_iff_getElem] at h
  obtain ⟨hk, hp, _⟩ := h
  exact ⟨A[k], by simp [hk], by simpa using hp⟩

theorem findAsset_total (A : List ExchangeAsset) (x : ExchangeAsset) (hx : x ∈ A) :
    ∃ k, findAssetByExchangeAndNameInternal (enumerate A) x.exchange x.asset.nameInternal = some k := by
  rw [findAsset_enumerate]
  cases h : A.findIdx? (fun y => decide (y.exchange = x.exchange ∧ y.asset.nameInternal = x.asset.nameInternal)) with
  | some k => exact ⟨k, rfl⟩
  | none =>
    have := (List.findIdx?_eq_none_iff.mp h) x hx
    simp at this

section commute
variable {E E' A B : Type}

theorem mapAsset_mapExchangeKey (f : A → Option B) (i : Instrument E A) (x : E') :
    (i.mapExchangeKey x).mapAssetKeyWithLookup f =
      (i.mapAssetKeyWithLookup f).map (·.mapExchangeKey x) := by
  simp only [Instrument.mapAssetKeyWithLookup, Instrument.mapExchangeKey]
  cases f i.base <;> cases f i.quote <;> cases i.kind.mapOpt f <;> cases specMapOpt f i.spec <;> rfl

theorem mapExchangeKey_self (i : Instrument E A) : i.mapExchangeKey i.exchange = i := by
  cases i; rfl

theorem assetRefs_mapExchangeKey (i : Instrument E A) (x : E') :
    (i.mapExchangeKey x).assetRefs = i.assetRefs := rfl

end commute



theorem nodup_sortedExchanges (defs : List Def) : (sortedExchanges defs).Nodup :=
  nodup_sortDedup _ exchangeKey_inj _
theorem nodup_sortedAssets (defs : List Def) : (sortedAssets defs).Nodup :=
  nodup_sortDedup _ ExchangeAsset.sortKey_inj _
theorem nodup_sortedDefs (defs : List Def) : (sortedDefs defs).Nodup :=
  nodup_sortDedup _ Instrument.sortKey_inj _

theorem mem_sortedExchanges (defs : List Def) (e : Nat) :
    e ∈ sortedExchanges defs ↔ ∃ d ∈ defs, d.exchange = e := by
  simp [sortedExchanges, mem_sortDedup]
theorem mem_sortedAssets (defs : List Def) (x : ExchangeAsset) :
    x ∈ sortedAssets defs ↔ x ∈ defs.flatMap defAssets := by
  simp [sortedAssets, mem_sortDedup]
theorem mem_sortedDefs (defs : List Def) (d : Def) : d ∈ sortedDefs defs ↔ d ∈ defs := by
  simp [sortedDefs, mem_sortDedup]

theorem mem_defAssets (d : Def) (x : ExchangeAsset) :
    x ∈ defAssets d ↔ x.exchange = d.exchange ∧ x.asset ∈ d.assetRefs := by
  simp only [defAssets, List.mem_map]
  constructor
  · rintro ⟨a, ha, rfl⟩; exact ⟨rfl, ha⟩
  · rintro ⟨h1, h2⟩; exact ⟨x.asset, h2, by cases x; simp_all⟩

/-- The tables `build` produces, as a structure over which the closure of builder.rs:88-113 runs. -/
def tables (defs : List Def) (ins : List (Keyed Nat IInstrument)) : Indexed :=
  { exchanges := enumerate (sortedExchanges defs), assets := enumerate (sortedAssets defs),
    instruments := ins }

/-- The per-instrument closure never panics on a definition of the collection, keeps the names,
attaches the exchange's own index, and attaches to every asset reference the index of an asset
entry of the same exchange with the same internal name. -/
theorem indexInstrument_spec (defs : List Def) (d : Def) (hd : d ∈ defs) (k : Nat) :
    ∃ i : IInstrument,
      indexInstrument (enumerate (sortedExchanges defs)) (enumerate (sortedAssets defs)) ⟨k, d⟩ =
        some ⟨k, i⟩ ∧
      i.exchange.value = d.exchange ∧ (sortedExchanges defs)[i.exchange.key]? = some d.exchange ∧
      i.nameInternal = d.nameInternal ∧ i.nameExchange = d.nameExchange ∧
      (WFAssets defs → ∀ ins, resolve (tables defs ins) i = some d) := by
  -- exchange lookup
  have he : d.exchange ∈ sortedExchanges defs := (mem_sortedExchanges _ _).mpr ⟨d, hd, rfl⟩
  obtain ⟨ek, hek⟩ := List.mem_iff_getElem?.mp he
  have hfe := (findExchange_iff _ (nodup_sortedExchanges defs) d.exchange ek).mpr hek
  -- asset lookups
  let f : Asset → Option Nat := fun a =>
    findAssetByExchangeAndNameInternal (enumerate (sortedAssets defs)) d.exchange a.nameInternal
  have hmemA : ∀ a ∈ d.assetRefs, (⟨d.exchange, a⟩ : ExchangeAsset) ∈ sortedAssets defs := by
    intro a ha
    rw [mem_sortedAssets, List.mem_flatMap]
    exact ⟨d, hd, (mem_defAssets _ _).mpr ⟨rfl, ha⟩⟩
  have htot : ∀ a ∈ d.assetRefs, ∃ b, f a = some b := by
    intro a ha
    exact findAsset_total _ ⟨d.exchange, a⟩ (hmemA a ha)
  obtain ⟨i0, hi0⟩ := mapAsset_total f d htot
  have hi : (d.mapExchangeKey (⟨ek, d.exchange⟩ : Keyed Nat Nat)).mapAssetKeyWithLookup f =
      some (i0.mapExchangeKey ⟨ek, d.exchange⟩) := by
    rw [mapAsset_mapExchangeKey, hi0]; rfl
  obtain ⟨h1, h2, h3, _⟩ := mapAsset_some f d i0 hi0
  refine ⟨i0.mapExchangeKey ⟨ek, d.exchange⟩, ?_, rfl, hek, h2, h3, ?_⟩
  · simp only [indexInstrument, hfe]
    show (match (d.mapExchangeKey (⟨ek, d.exchange⟩ : Keyed Nat Nat)).mapAssetKeyWithLookup f with
      | none => none | some i => some (⟨k, i⟩ : Keyed Nat IInstrument)) = _
    rw [hi]
  · intro hwf ins
    have hg : ∀ a ∈ d.assetRefs, ∀ j, f a = some j →
        resolveAsset (enumerate (sortedAssets defs)) d.exchange j = some a := by
      intro a ha j hj
      obtain ⟨x, hx, hxe, hxn⟩ := findAsset_some _ _ _ _ hj
      have hxm : x ∈ defs.flatMap defAssets :=
        (mem_sortedAssets _ _).mp (List.mem_iff_getElem?.mpr ⟨j, hx⟩)
      have ham : (⟨d.exchange, a⟩ : ExchangeAsset) ∈ defs.flatMap defAssets :=
        (mem_sortedAssets _ _).mp (hmemA a ha)
      have hxa : x = ⟨d.exchange, a⟩ := hwf x hxm _ ham hxe hxn
      simp [resolveAsset, getElem?_enumerate, hx, hxa]
    have hr := mapAsset_roundtrip f _ d i0 hi0 hg
    have e1 : ((i0.mapExchangeKey (⟨ek, d.exchange⟩ : Keyed Nat Nat)).mapExchangeKey d.exchange) = i0 := by
      rw [← h1]; cases i0; rfl
    have e2 : (i0.mapExchangeKey (⟨ek, d.exchange⟩ : Keyed Nat Nat)).exchange = ⟨ek, d.exchange⟩ := rfl
    simp only [resolve, tables, getElem?_enumerate, hek, Option.map_some, e2, e1]
    simpa using hr



/-! ### specDistinct -/
section specDistinct
variable {α : Type} [DecidableEq α]

theorem specDistinct_aux (l acc : List α) (hacc : acc.Nodup) :
    (l.foldl (fun acc x => if x ∈ acc then acc else acc ++ [x]) acc).Nodup ∧
    ∀ x, x ∈ l.foldl (fun acc x => if x ∈ acc then acc else acc ++ [x]) acc ↔ x ∈ acc ∨ x ∈ l := by
  induction l generalizing acc with
  | nil => simp [hacc]
  | cons a t ih =>
    simp only [List.foldl_cons]
    by_cases ha : a ∈ acc
    · simp only [ha, ↓reduceIte]
      have ⟨h1, h2⟩ := ih acc hacc
      refine ⟨h1, fun x => ?_⟩
      rw [h2]; simp only [List.mem_cons]
      constructor
      · rintro (h | h); exact .inl h; exact .inr (.inr h)
      · rintro (h | rfl | h); exact .inl h; exact .inl ha; exact .inr h
    · simp only [ha, ↓reduceIte]
      have hn : (acc ++ [a]).Nodup := by
        rw [List.nodup_append]; refine ⟨hacc, by simp, ?_⟩
        intro x hx y hy; simp at hy; subst hy; intro e; subst e; exact ha hx
      have ⟨h1, h2⟩ := ih (acc ++ [a]) hn
      refine ⟨h1, fun x => ?_⟩
      rw [h2]; simp only [List.mem_append, List.mem_cons, List.not_mem_nil, or_false]
      constructor
      · rintro ((h | h) | h); exact .inl h; exact .inr (.inl h); exact .inr (.inr h)
      · rintro (h | h | h); exact .inl (.inl h); exact .inl (.inr h); exact .inr h

theorem nodup_specDistinct (l : List α) : (specDistinct l).Nodup :=
  (specDistinct_aux l [] (by simp)).1

theorem mem_specDistinct (l : List α) (x : α) : x ∈ specDistinct l ↔ x ∈ l := by
  have := (specDistinct_aux l [] (by simp)).2 x
  simpa [specDistinct] using this

theorem perm_specDistinct (l1 l2 : List α) (hn : l1.Nodup) (h : ∀ x, x ∈ l1 ↔ x ∈ l2) :
    l1.Perm (specDistinct l2) :=
  (List.perm_ext_iff_of_nodup hn (nodup_specDistinct l2)).mpr
    (fun x => by rw [mem_specDistinct, h])

end specDistinct

/-! ### IndexMap -/
section indexMap
variable {K V : Type} [DecidableEq K]

theorem indexMapInsert_new (m : List (K × V)) (k : K) (v : V) (h : ∀ e ∈ m, e.1 ≠ k) :
    indexMapInsert m k v = m ++ [(k, v)] := by
  have : m.findIdx? (fun e => decide (e.1 = k)) = none := by
    rw [List.findIdx?_eq_none_iff]; intro x hx; simpa using h x hx
  simp [indexMapInsert, this]

theorem indexMapCollect_aux (l acc : List (K × V)) (h : ((acc ++ l).map (·.1)).Nodup) :
    l.foldl (fun m e => indexMapInsert m e.1 e.2) acc = acc ++ l := by
  induction l generalizing acc with
  | nil => simp
  | cons a t ih =>
    simp only [List.foldl_cons]
    have hnew : ∀ e ∈ acc, e.1 ≠ a.1 := by
      intro e he heq
      simp only [List.map_append, List.map_cons, List.nodup_append] at h
      exact h.2.2 e.1 (List.mem_map_of_mem he) a.1 (by simp) heq
    rw [indexMapInsert_new _ _ _ hnew, ih]
    · simp
    · simpa using h

/-- Collecting pairs with pairwise distinct keys into an `IndexMap` keeps every pair at its
position. -/
theorem indexMapCollect_nodup (l : List (K × V)) (h : (l.map (·.1)).Nodup) :
    indexMapCollect l = l := by
  simpa [indexMapCollect] using indexMapCollect_aux l [] (by simpa using h)

end indexMap

section misc
variable {α β : Type}

theorem nodup_map_of_injOn (f : α → β) (l : List α) (hn : l.Nodup)
    (h : ∀ x ∈ l, ∀ y ∈ l, f x = f y → x = y) : (l.map f).Nodup := by
  rw [List.nodup_iff_pairwise_ne, List.pairwise_map]
  exact (List.nodup_iff_pairwise_ne.mp hn).imp_of_mem (fun hx hy hne he => hne (h _ hx _ hy he))

/-- `findIdx?` when at most one *position* satisfies `p`. -/
theorem findIdx?_eq_some_iff_unique_pos (p : α → Bool) (l : List α)
    (hu : ∀ (j1 j2 : Nat) (x y : α), l[j1]? = some x → l[j2]? = some y → p x = true → p y = true → j1 = j2)
    (k : Nat) : l.findIdx? p = some k ↔ ∃ x, l[k]? = some x ∧ p x = true := by
  rw [List.findIdx?_eq_some_iff_getElem]
  constructor
  · rintro ⟨h, hp, _⟩
    exact ⟨l[k], by simp [h], hp⟩
  · rintro ⟨x, hx, hp⟩
    obtain ⟨h, rfl⟩ := List.getElem?_eq_some_iff.mp hx
    refine ⟨h, hp, ?_⟩
    intro j hj hpj
    have hj' : j < l.length := by omega
    have := hu j k l[j] l[k] (by simp [hj']) (by simp [h]) hpj hp
    omega

theorem eq_enumerate_of_keys (l : List (Keyed Nat α))
    (h : ∀ (k : Nat) (x : Keyed Nat α), l[k]? = some x → x.key = k) :
    l = enumerate (l.map (·.value)) := by
  apply List.ext_getElem?; intro k
  rw [getElem?_enumerate, List.getElem?_map]
  cases hk : l[k]? with
  | none => simp
  | some x => have := h k x hk; cases x; simp_all

theorem mem_enumerate (l : List α) (x : Keyed Nat α) (h : x ∈ enumerate l) :
    l[x.key]? = some x.value := by
  obtain ⟨k, hk⟩ := List.mem_iff_getElem?.mp h
  rw [getElem?_enumerate] at hk
  cases hl : l[k]? with
  | none => simp [hl] at hk
  | some v => simp [hl] at hk; subst hk; simpa using hl

end misc

/-! ### the shape of `build`'s result -/

theorem build_spec (defs : List Def) :
    ∃ ins : List (Keyed Nat IInstrument), build defs = some (tables defs ins) ∧
      ins.length = (sortedDefs defs).length ∧
      ∀ (k : Nat) (d : Def), (sortedDefs defs)[k]? = some d →
        ins[k]? = indexInstrument (enumerate (sortedExchanges defs)) (enumerate (sortedAssets defs)) ⟨k, d⟩ := by
  have htot : ∀ x ∈ enumerate (sortedDefs defs), ∃ b,
      indexInstrument (enumerate (sortedExchanges defs)) (enumerate (sortedAssets defs)) x = some b := by
    intro x hx
    have hm := mem_enumerate _ _ hx
    have hd : x.value ∈ defs := (mem_sortedDefs _ _).mp (List.mem_iff_getElem?.mpr ⟨_, hm⟩)
    obtain ⟨i, hi, _⟩ := indexInstrument_spec defs x.value hd x.key
    exact ⟨_, hi⟩
  obtain ⟨ins, hins⟩ := traverse_total _ _ htot
  have ⟨hlen, hget⟩ := traverse_getElem? _ _ _ hins
  refine ⟨ins, ?_, by simpa [length_enumerate] using hlen, ?_⟩
  · rw [build_eq, hins]; rfl
  · intro k d hk
    exact hget k ⟨k, d⟩ (by simp [getElem?_enumerate, hk])




/-- Everything the theorems of `Props/C11` need about a successful `build`. -/
theorem build_some (defs : List Def) (ii : Indexed) (h : build defs = some ii) :
    ii.exchanges = enumerate (sortedExchanges defs) ∧ ii.assets = enumerate (sortedAssets defs) ∧
    ii.instruments.length = (sortedDefs defs).length ∧
    ∀ (k : Nat) (d : Def), (sortedDefs defs)[k]? = some d →
      ∃ i : IInstrument, ii.instruments[k]? = some ⟨k, i⟩ ∧
        i.exchange.value = d.exchange ∧ (sortedExchanges defs)[i.exchange.key]? = some d.exchange ∧
        i.nameInternal = d.nameInternal ∧ i.nameExchange = d.nameExchange ∧
        (WFAssets defs → resolve ii i = some d) := by
  obtain ⟨ins, hb, hlen, hget⟩ := build_spec defs
  rw [hb] at h; cases h
  refine ⟨rfl, rfl, hlen, ?_⟩
  intro k d hk
  have hd : d ∈ defs := (mem_sortedDefs _ _).mp (List.mem_iff_getElem?.mpr ⟨_, hk⟩)
  obtain ⟨i, hi, h1, h2, h3, h4, h5⟩ := indexInstrument_spec defs d hd k
  exact ⟨i, by rw [← hi]; exact hget k d hk, h1, h2, h3, h4, fun hwf => h5 hwf ins⟩

/-- position `k` of the instrument table, read backwards -/
theorem build_instrument_at (defs : List Def) (ii : Indexed) (h : build defs = some ii)
    (k : Nat) (x : Keyed Nat IInstrument) (hx : ii.instruments[k]? = some x) :
    ∃ d, (sortedDefs defs)[k]? = some d ∧ x.key = k ∧
      x.value.exchange.value = d.exchange ∧
      (sortedExchanges defs)[x.value.exchange.key]? = some d.exchange ∧
      x.value.nameInternal = d.nameInternal ∧ x.value.nameExchange = d.nameExchange ∧
      (WFAssets defs → resolve ii x.value = some d) := by
  obtain ⟨_, _, hlen, hget⟩ := build_some defs ii h
  have hk : k < (sortedDefs defs).length := by
    rw [← hlen]; exact (List.getElem?_eq_some_iff.mp hx).1
  obtain ⟨i, hi, rest⟩ := hget k _ (List.getElem?_eq_getElem hk)
  rw [hx] at hi; cases hi
  exact ⟨_, List.getElem?_eq_getElem hk, rfl, rest⟩

theorem perm_sortDedup_specDistinct {α : Type} [DecidableEq α] (key : α → List Nat)
    (hinj : Function.Injective key) (l : List α) : (sortDedup key l).Perm (specDistinct l) :=
  perm_specDistinct _ _ (nodup_sortDedup key hinj l) (fun x => mem_sortDedup key l x)




theorem findExchange_eq (defs : List Def) (ii : Indexed) (h : build defs = some ii) (k : Nat) :
    ii.findExchange k = (sortedExchanges defs)[k]? := by
  obtain ⟨h1, _⟩ := build_some defs ii h
  simp only [Indexed.findExchange, h1, find?_key_enumerate, Option.map_map]
  cases (sortedExchanges defs)[k]? <;> rfl

theorem findAsset_eq (defs : List Def) (ii : Indexed) (h : build defs = some ii) (k : Nat) :
    ii.findAsset k = (sortedAssets defs)[k]? := by
  obtain ⟨_, h2, _⟩ := build_some defs ii h
  simp only [Indexed.findAsset, h2, find?_key_enumerate, Option.map_map]
  cases (sortedAssets defs)[k]? <;> rfl

theorem instruments_keys (defs : List Def) (ii : Indexed) (h : build defs = some ii) :
    ii.instruments = enumerate (ii.instruments.map (·.value)) :=
  eq_enumerate_of_keys _ (fun k x hx => by
    obtain ⟨_, _, hk, _⟩ := build_instrument_at defs ii h k x hx
    exact hk)

theorem findInstrument_eq (defs : List Def) (ii : Indexed) (h : build defs = some ii) (k : Nat) :
    ii.findInstrument k = (ii.instruments[k]?).map (·.value) := by
  have e := instruments_keys defs ii h
  simp only [Indexed.findInstrument]
  conv => lhs; rw [e]
  rw [find?_key_enumerate]
  simp only [List.getElem?_map, Option.map_map]
  cases ii.instruments[k]? <;> rfl

theorem findInstrumentIndex_eq (defs : List Def) (ii : Indexed) (h : build defs = some ii)
    (e ni : Nat) :
    ii.findInstrumentIndex e ni = (ii.instruments.map (·.value)).findIdx?
      (fun i => decide (i.exchange.value = e ∧ i.nameInternal = ni)) := by
  have hk := instruments_keys defs ii h
  simp only [Indexed.findInstrumentIndex]
  conv => lhs; rw [hk]
  have := findSome?_value_enumerate
    (fun (i : IInstrument) => decide (i.exchange.value = e ∧ i.nameInternal = ni))
    (ii.instruments.map (·.value))
  simpa using this

/-- under `WFNames`, two positions of the instrument table never carry the same internal name -/
theorem instrument_name_pos_unique (defs : List Def) (ii : Indexed) (h : build defs = some ii)
    (hwf : WFNames defs) (j1 j2 : Nat) (x y : Keyed Nat IInstrument)
    (hx : ii.instruments[j1]? = some x) (hy : ii.instruments[j2]? = some y)
    (hn : x.value.nameInternal = y.value.nameInternal) : j1 = j2 := by
  obtain ⟨d1, hd1, _, _, _, n1, _⟩ := build_instrument_at defs ii h j1 x hx
  obtain ⟨d2, hd2, _, _, _, n2, _⟩ := build_instrument_at defs ii h j2 y hy
  have m1 : d1 ∈ defs := (mem_sortedDefs _ _).mp (List.mem_iff_getElem?.mpr ⟨_, hd1⟩)
  have m2 : d2 ∈ defs := (mem_sortedDefs _ _).mp (List.mem_iff_getElem?.mpr ⟨_, hd2⟩)
  have e : d1 = d2 := hwf d1 m1 d2 m2 (by rw [← n1, ← n2, hn])
  subst e
  have hlt : j1 < (sortedDefs defs).length := (List.getElem?_eq_some_iff.mp hd1).1
  exact (List.getElem?_inj hlt (nodup_sortedDefs defs)).mp (by rw [hd1, hd2])




section misc2
variable {α β : Type}

theorem nodup_map_of_pos_unique (f : α → β) (l : List α)
    (h : ∀ (j1 j2 : Nat) (x y : α), l[j1]? = some x → l[j2]? = some y → f x = f y → j1 = j2) :
    (l.map f).Nodup := by
  rw [List.nodup_iff_pairwise_ne, List.pairwise_map, List.pairwise_iff_getElem]
  intro i j hi hj hij he
  have := h i j l[i] l[j] (by simp [hi]) (by simp [hj]) he
  omega

theorem traverse_eq_map (f : α → Option β) (g : α → β) (l : List α)
    (h : ∀ x ∈ l, f x = some (g x)) : traverse f l = some (l.map g) := by
  induction l with
  | nil => rfl
  | cons a t ih =>
    simp [traverse, h a (by simp), ih (fun x hx => h x (by simp [hx]))]

end misc2

theorem instrumentStates_eq (defs : List Def) (ii : Indexed) (h : build defs = some ii)
    (hwf : WFNames defs) :
    instrumentStates ii = ii.instruments.map (fun x =>
      (x.value.nameInternal, (x.key, x.value.mapExchangeKey x.value.exchange.key))) := by
  apply indexMapCollect_nodup
  rw [List.map_map]
  apply nodup_map_of_pos_unique
  intro j1 j2 x y hx hy he
  exact instrument_name_pos_unique defs ii h hwf j1 j2 x y hx hy he

theorem assetStates_eq (defs : List Def) (ii : Indexed) (h : build defs = some ii)
    (hwf : WFAssets defs) :
    assetStates ii = ii.assets.map (fun x =>
      ((x.value.exchange, x.value.asset.nameInternal), x.value.asset)) := by
  apply indexMapCollect_nodup
  obtain ⟨_, h2, _⟩ := build_some defs ii h
  rw [List.map_map, h2]
  have : (enumerate (sortedAssets defs)).map
      ((fun (e : (Nat × Nat) × Asset) => e.1) ∘ fun x => ((x.value.exchange, x.value.asset.nameInternal), x.value.asset)) =
      (sortedAssets defs).map (fun x => (x.exchange, x.asset.nameInternal)) := by
    conv => rhs; rw [← map_value_enumerate (sortedAssets defs)]
    simp [List.map_map, Function.comp_def]
  rw [this]
  apply nodup_map_of_injOn _ _ (nodup_sortedAssets defs)
  intro x hx y hy he
  simp only [Prod.mk.injEq] at he
  exact hwf x ((mem_sortedAssets _ _).mp hx) y ((mem_sortedAssets _ _).mp hy) he.1 he.2

theorem connectivityStates_eq (defs : List Def) (ii : Indexed) (h : build defs = some ii) :
    connectivityStates ii = ii.exchanges.map (fun x => (x.value, ())) := by
  apply indexMapCollect_nodup
  obtain ⟨h1, _⟩ := build_some defs ii h
  rw [List.map_map, h1]
  have : (enumerate (sortedExchanges defs)).map
      ((fun (e : Nat × Unit) => e.1) ∘ fun x => (x.value, ())) = sortedExchanges defs := by
    conv => rhs; rw [← map_value_enumerate (sortedExchanges defs)]
    simp [Function.comp_def]
  rw [this]
  exact nodup_sortedExchanges defs

/-! ### execution transmitters -/

theorem execAddAll_inv (ii : Indexed) (es : List Nat) (acc txs : List (Nat × Nat))
    (h : execAddAll ii acc es = some txs)
    (hacc : ∀ t ∈ acc, findExchangeByExchangeId ii.exchanges t.1 = some t.2) :
    (∀ t ∈ txs, findExchangeByExchangeId ii.exchanges t.1 = some t.2) ∧
    txs.map (·.1) = acc.map (·.1) ++ es := by
  induction es generalizing acc with
  | nil => simp [execAddAll] at h; subst h; exact ⟨hacc, by simp⟩
  | cons e t ih =>
    simp only [execAddAll, execAdd] at h
    split at h
    · cases h
    · rename_i txs' hadd
      split at hadd
      · cases hadd
      · rename_i k hk
        split at hadd
        · cases hadd
        · cases hadd
          have := ih (acc ++ [(e, k)]) h (by
            intro t ht
            rcases List.mem_append.mp ht with ht | ht
            · exact hacc t ht
            · simp at ht; subst ht; exact hk)
          exact ⟨this.1, by simpa using this.2⟩

theorem execBuild_eq (defs : List Def) (ii : Indexed) (h : build defs = some ii) (es : List Nat)
    (txs : List (Nat × Nat)) (hadd : execAddAll ii [] es = some txs) :
    execBuild ii txs = some (ii.exchanges.map (fun x => (x.value, decide (x.value ∈ es)))) := by
  obtain ⟨hinv, hkeys⟩ := execAddAll_inv ii es [] txs hadd (by simp)
  simp only [List.map_nil, List.nil_append] at hkeys
  obtain ⟨h1, _⟩ := build_some defs ii h
  have hmem : ∀ e, e ∈ es ↔ ∃ t ∈ txs, t.1 = e := by
    intro e; rw [← hkeys]; simp
  simp only [execBuild]
  rw [traverse_eq_map _ (fun x => (x.value, decide (x.value ∈ es)))]
  · simp only [Option.map_some, Option.some.injEq]
    apply indexMapCollect_nodup
    rw [List.map_map, h1]
    have : (enumerate (sortedExchanges defs)).map
        ((fun (e : Nat × Bool) => e.1) ∘ fun x => (x.value, decide (x.value ∈ es))) =
        sortedExchanges defs := by
      conv => rhs; rw [← map_value_enumerate (sortedExchanges defs)]
      simp [Function.comp_def]
    rw [this]
    exact nodup_sortedExchanges defs
  · intro x hx
    rw [h1] at hx
    have hxe := mem_enumerate _ _ hx
    split
    · rename_i hf
      have : x.value ∉ es := by
        rw [hmem]; rintro ⟨t, ht, hte⟩
        have := (List.find?_eq_none.mp hf) t ht
        simp [hte] at this
      simp [this]
    · rename_i t hf
      have ht := List.mem_of_find?_eq_some hf
      have hte : t.1 = x.value := by simpa using List.find?_some hf
      have hk := hinv t ht
      rw [h1, hte, findExchange_iff _ (nodup_sortedExchanges defs)] at hk
      have hlt : x.key < (sortedExchanges defs).length := (List.getElem?_eq_some_iff.mp hxe).1
      have hkey : x.key = t.2 :=
        (List.getElem?_inj hlt (nodup_sortedExchanges defs)).mp (by rw [hxe, hk])
      have : x.value ∈ es := (hmem _).mpr ⟨t, ht, hte⟩
      simp [hkey, this]




/-- Reading instrument `k` through the engine's three tables is reading it through the index. -/
theorem resolveEngine_eq (defs : List Def) (ii : Indexed) (h : build defs = some ii)
    (hwf : WFInstruments defs) (k : Nat) (x : Keyed Nat IInstrument)
    (hx : ii.instruments[k]? = some x) :
    resolveEngine ii k = (resolve ii x.value).map (fun d => (k, d)) := by
  obtain ⟨d, hd, hkey, hev, hek, _⟩ := build_instrument_at defs ii h k x hx
  obtain ⟨h1, h2, _⟩ := build_some defs ii h
  simp only [resolveEngine, getIndex, instrumentStates_eq defs ii h hwf.2,
    connectivityStates_eq defs ii h, List.getElem?_map, hx, Option.map_some]
  have hc : ii.exchanges[x.value.exchange.key]? = some ⟨x.value.exchange.key, d.exchange⟩ := by
    rw [h1, getElem?_enumerate, hek]; rfl
  have e1 : (x.value.mapExchangeKey x.value.exchange.key).exchange = x.value.exchange.key := rfl
  have e2 : ((x.value.mapExchangeKey x.value.exchange.key).mapExchangeKey d.exchange) =
      x.value.mapExchangeKey d.exchange := rfl
  simp only [e1, hc, Option.map_some, e2, resolve, hev, ne_eq, not_true_eq_false, ↓reduceIte,
    hkey]
  congr 2
  funext a
  rw [assetStates_eq defs ii h hwf.1]
  simp only [List.getElem?_map, resolveAsset]
  cases ii.assets[a]? with
  | none => rfl
  | some y => simp




theorem execAddAll_total (ii : Indexed) (es : List Nat) (acc : List (Nat × Nat))
    (hdis : ∀ e ∈ es, ∀ t ∈ acc, t.1 ≠ e) (hn : es.Nodup)
    (hin : ∀ e ∈ es, ∃ k, findExchangeByExchangeId ii.exchanges e = some k) :
    ∃ txs, execAddAll ii acc es = some txs := by
  induction es generalizing acc with
  | nil => exact ⟨acc, rfl⟩
  | cons e t ih =>
    obtain ⟨k, hk⟩ := hin e (by simp)
    have hany : acc.any (fun t => decide (t.1 = e)) = false := by
      rw [List.any_eq_false]; intro x hx; simpa using hdis e (by simp) x hx
    have ⟨hne, hnt⟩ := List.nodup_cons.mp hn
    have := ih (acc ++ [(e, k)]) (by
      intro e' he' x hx
      rcases List.mem_append.mp hx with hx | hx
      · exact hdis e' (by simp [he']) x hx
      · simp at hx; subst hx; intro heq; simp at heq; subst heq; exact hne he')
      hnt (fun e' he' => hin e' (by simp [he']))
    obtain ⟨txs, htxs⟩ := this
    exact ⟨txs, by simp [execAddAll, execAdd, hk, hany, htxs]⟩

theorem findExchange_total (defs : List Def) (ii : Indexed) (h : build defs = some ii)
    (d : Def) (hd : d ∈ defs) : ∃ k, findExchangeByExchangeId ii.exchanges d.exchange = some k := by
  obtain ⟨h1, _⟩ := build_some defs ii h
  have he : d.exchange ∈ sortedExchanges defs := (mem_sortedExchanges _ _).mpr ⟨d, hd, rfl⟩
  obtain ⟨ek, hek⟩ := List.mem_iff_getElem?.mp he
  exact ⟨ek, by rw [h1]; exact (findExchange_iff _ (nodup_sortedExchanges defs) _ _).mpr hek⟩


end BarterModel.Index
