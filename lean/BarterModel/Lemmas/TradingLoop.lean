import BarterModel.Model.TradingLoop
import BarterModel.Props.C01
import BarterModel.Props.C02
import BarterModel.Props.C03
import BarterModel.Lemmas.EngineScope
import BarterModel.Props.C07
import BarterModel.Props.C08
import BarterModel.Props.C08C
import BarterModel.Props.C04M
import BarterModel.Props.C09
import BarterModel.Props.C20S
/-! Helper lemmas for the sub-check C20E (end-to-end trading loop).

A  engine: positions / balances are folds over the fills / balance items heard (`engFold_pos`, `engFold_bal`)
B  execution side: one request, one response; the two outcomes of an open request (`step_open_facts`)
C  exchange invariant `ExInv`: produced notifications determine trade log and ledger
D  agreement of the two views once everything produced has been heard (`pos_agree`, `bal_agree`)
E  orders: a final response untracks, untracked stays untracked until a new request (`process_keeps_none`)
F  requests = delivery log; positive fills; static parts of the exchange
S  `PosSync`: the summary commands read is the position manager's position
T  `Track`: a tracked order has a response outstanding (`track_tick`)
G  the exchange of the composition is the C08 request loop on the engine's requests (`respondAll_run`)
H  name level (C04 / C04M) vs index level: same accepted requests (`histories_same`), `specCfg_wf` -/
namespace BarterModel.TradingLoop
open BarterModel.SysHandle
open BarterModel.Engine (Req OpenReq CancelReq Command Key)

/-! ## A. The engine: positions and balances are folds over the fills / balance items heard -/

theorem lProcess_pos (s : LEng) (ev : LEv) : (lProcess s ev).1.pos = posAfter s.pos ev := rfl
theorem lProcess_bal (s : LEng) (ev : LEv) : (lProcess s ev).1.bal = balAfter s.bal ev := rfl

theorem tradesOf_append (a b : List AccEv) : tradesOf (a ++ b) = tradesOf a ++ tradesOf b := by
  simp [tradesOf, List.filterMap_append]

theorem balItemsOf_append (a b : List AccEv) : balItemsOf (a ++ b) = balItemsOf a ++ balItemsOf b := by
  simp [balItemsOf, List.flatMap_append]

theorem accountOf_cons (ev : LEv) (h : List LEv) :
    accountOf (ev :: h) = (match ev with | .account a => [a] | _ => []) ++ accountOf h := by
  cases ev <;> simp [accountOf, Ev.account?, List.filterMap_cons]

theorem fullSnapshot_append (b : Stale.Eng) (x y : List (Nat × Stale.Msg Stale.Bal)) :
    b.fullSnapshot (x ++ y) = (b.fullSnapshot x).fullSnapshot y := by
  simp [Stale.Eng.fullSnapshot, List.foldl_append]

theorem posAfter_eq (p : Position.Instruments) (ev : LEv) :
    posAfter p ev = Position.Instruments.run p (tradesOf (match ev with | .account a => [a] | _ => [])) := by
  cases ev with
  | account a => cases a <;> simp [posAfter, tradesOf, Position.Instruments.run]
  | _ => simp [posAfter, tradesOf, Position.Instruments.run]

theorem balAfter_eq (b : Stale.Eng) (ev : LEv) :
    balAfter b ev = b.fullSnapshot (balItemsOf (match ev with | .account a => [a] | _ => [])) := by
  cases ev with
  | account a => cases a <;> simp [balAfter, balItemsOf, Stale.Eng.fullSnapshot]
  | _ => simp [balAfter, balItemsOf, Stale.Eng.fullSnapshot]

theorem instruments_run_append (p : Position.Instruments) (x y : List Position.Trade) :
    Position.Instruments.run p (x ++ y) = Position.Instruments.run (Position.Instruments.run p x) y := by
  simp [Position.Instruments.run, List.foldl_append]

/-- The position table after a history is the C02 fold over the fills heard, in the order heard. -/
theorem engFold_pos (s : LEng) (h : List LEv) :
    (engFold lEngine s h).pos = Position.Instruments.run s.pos (tradesOf (accountOf h)) := by
  induction h generalizing s with
  | nil => rfl
  | cons ev h ih =>
    have : engFold lEngine s (ev :: h) = engFold lEngine (lProcess s ev).1 h := rfl
    rw [this, ih, lProcess_pos, posAfter_eq, accountOf_cons, tradesOf_append, instruments_run_append]

/-- The balance registers after a history are the C09 fold over the balance items heard. -/
theorem engFold_bal (s : LEng) (h : List LEv) :
    (engFold lEngine s h).bal = s.bal.fullSnapshot (balItemsOf (accountOf h)) := by
  induction h generalizing s with
  | nil => rfl
  | cons ev h ih =>
    have : engFold lEngine s (ev :: h) = engFold lEngine (lProcess s ev).1 h := rfl
    rw [this, ih, lProcess_bal, balAfter_eq, accountOf_cons, balItemsOf_append, fullSnapshot_append]

/-! ## B. The execution side: one request, one response; the ledger and the trade log -/

theorem responseIdent_notif (e : MockExchange.Event) : responseIdent (notif e) = none := by
  cases e <;> rfl

theorem respond_n (clk : Nat → Int) (s : LExch) (r : Req) : (respond clk s r).1.n = s.n + 1 := by
  cases r <;> rfl

/-- Whatever the exchange decides, a request produces exactly one response, and it carries the
request's own kind, instrument and client order id. -/
theorem respond_idents (clk : Nat → Int) (s : LExch) (r : Req) :
    (respond clk s r).2.filterMap responseIdent = [reqIdent r] := by
  cases r with
  | cnl r => rfl
  | opn r =>
    have : ∀ l : List MockExchange.Event, (l.map notif).filterMap responseIdent = [] := by
      intro l; induction l with
      | nil => rfl
      | cons e l ih => simp [responseIdent_notif, ih]
    simp [respond, orderResponse, responseIdent, reqIdent, this]

theorem respondAll_idents (clk : Nat → Int) (s : LExch) (rs : List Req) :
    (respondAll (lExchange clk) s rs).2.filterMap responseIdent = rs.map reqIdent := by
  induction rs generalizing s with
  | nil => rfl
  | cons r rs ih =>
    simp only [respondAll, List.filterMap_append, List.map_cons]
    rw [ih]
    show (respond clk s r).2.filterMap responseIdent ++ _ = _
    rw [respond_idents]; rfl

/-- Static parts of the exchange never change. -/
theorem step_static (x : MockExchange.State) (t : Int) (rq : MockExchange.Request) :
    (MockExchange.step x t rq).1.latency = x.latency ∧ (MockExchange.step x t rq).1.fee = x.fee ∧
    (MockExchange.step x t rq).1.instruments = x.instruments ∧
    (MockExchange.step x t rq).1.balances.length = x.balances.length := by
  cases rq with
  | openOrder r =>
    rw [MockExchange.step_open]
    rcases MockExchange.openOrder_cases (MockExchange.updateTime x t) r with ⟨_, e⟩ | ⟨_, _, e⟩ | ⟨u, _, _, _, e⟩ |
      ⟨u, cur, _, _, _, _, e⟩ | ⟨u, cur, _, _, _, _, _, e⟩ | ⟨u, cur, _, _, _, _, _, e⟩ <;> rw [e] <;>
      simp [MockExchange.updateTime, MockExchange.ackTrade]
  | _ => simp [MockExchange.step, MockExchange.updateTime]

/-- The two outcomes of an open request through the request loop (C08 `one_fill`, `exact_debit`,
`step_untouched` put together). -/
theorem step_open_facts (x : MockExchange.State) (t : Int) (q : MockExchange.Req) :
    (∃ f, (MockExchange.step x t (.openOrder q)).2.1 = .order (.accepted f) ∧
      (MockExchange.step x t (.openOrder q)).2.2 = [.balance f.asset f.balance, .trade f.trade] ∧
      (MockExchange.step x t (.openOrder q)).1.trades = x.trades ++ [f.trade] ∧
      MockExchange.ledger (MockExchange.step x t (.openOrder q)).1 =
        (MockExchange.ledger x).set f.asset (f.balance.total, f.balance.free) ∧
      f.asset < x.balances.length ∧ f.balance.time = t + ((x.latency / 2 : Nat) : Int) ∧
      f.filled = q.qty ∧ f.trade.instr = q.instr ∧ f.trade.side = q.side ∧ f.trade.qty = q.qty ∧
      f.trade.price = q.price) ∨
    ((∀ f, (MockExchange.step x t (.openOrder q)).2.1 ≠ .order (.accepted f)) ∧
      (∃ res, (MockExchange.step x t (.openOrder q)).2.1 = .order res) ∧
      (MockExchange.step x t (.openOrder q)).2.2 = [] ∧
      (MockExchange.step x t (.openOrder q)).1.trades = x.trades ∧
      MockExchange.ledger (MockExchange.step x t (.openOrder q)).1 = MockExchange.ledger x) := by
  by_cases h : ∃ f, (MockExchange.step x t (.openOrder q)).2.1 = .order (.accepted f)
  · left
    obtain ⟨f, hf⟩ := h
    obtain ⟨h1, h2, _, _, _, _, _, h8, h9, _, h11, h12, h13, h14, _⟩ := Props.C08.one_fill x t q f hf
    have hacc : (MockExchange.openOrder (MockExchange.updateTime x t) q).2 = .accepted f := by
      have := MockExchange.step_open_resp x t q
      rw [hf] at this; injection this with this; exact this.symm
    obtain ⟨_, b, hb, hl, ht, hfr, _⟩ := Props.C08.exact_debit (MockExchange.updateTime x t) q f hacc
    refine ⟨f, hf, h1, h2, ?_, ?_, ?_, h8, h9, h11, h13, h12⟩
    · rw [MockExchange.step_open_accepted hacc]
      show MockExchange.ledger (MockExchange.ackTrade _ _) = _
      have : ∀ (s : MockExchange.State) (tr : MockExchange.Trade),
          MockExchange.ledger (MockExchange.ackTrade s tr) = MockExchange.ledger s := fun _ _ => rfl
      rw [this, hl, MockExchange.updateTime_ledger, ht, hfr]
    · have := (List.getElem?_eq_some_iff.mp hb).1
      simpa [MockExchange.updateTime] using this
    · rcases MockExchange.openOrder_cases (MockExchange.updateTime x t) q with ⟨_, e⟩ | ⟨_, _, e⟩ | ⟨u, _, _, _, e⟩ |
        ⟨u, cur, _, _, _, _, e⟩ | ⟨u, cur, _, _, _, _, _, e⟩ | ⟨u, cur, _, _, _, _, _, e⟩ <;> rw [e] at hacc <;>
        try (cases hacc; done)
      simp only at hacc; injection hacc with hacc; subst hacc
      simp [MockExchange.updateTime]
  · right
    have hna : ∀ f, (MockExchange.step x t (.openOrder q)).2.1 ≠ .order (.accepted f) := fun f hf => h ⟨f, hf⟩
    obtain ⟨h1, h2, _, h4⟩ := Props.C08.step_untouched x t (.openOrder q) hna
    exact ⟨hna, ⟨_, MockExchange.step_open_resp x t q⟩, h4, h2, h1⟩

/-! ## C. The exchange invariant: what has been produced so far determines ledger and trade log -/

theorem heardBalMsgs_append (p q : List AccEv) (a : Nat) :
    Spec.heardBalMsgs (p ++ q) a = Spec.heardBalMsgs p a ++ Spec.heardBalMsgs q a := by
  simp [Spec.heardBalMsgs, balItemsOf_append, List.filter_append]

/-- The balance messages of an account snapshot for asset `a`: the one entry of position `a`. -/
theorem snapshot_msgs_aux (l : List MockExchange.Bal) (k a : Nat) :
    (((l.zipIdx k).map fun (b, i) => (i, ((b.time, (b.total, b.free)) : Stale.Msg Stale.Bal))).filter
        (fun am => am.1 = a)).map (·.2) =
      if k ≤ a then (match l[a - k]? with | some b => [(b.time, (b.total, b.free))] | none => []) else [] := by
  induction l generalizing k with
  | nil => simp
  | cons b l ih =>
    simp only [List.zipIdx_cons, List.map_cons, List.filter_cons]
    by_cases hk : k = a
    · subst hk
      simp only [decide_true, ↓reduceIte, List.map_cons, Nat.le_refl, Nat.sub_self, List.getElem?_cons_zero]
      rw [ih]
      have : ¬ k + 1 ≤ k := by omega
      simp [this]
    · simp only [hk, decide_false, Bool.false_eq_true, ↓reduceIte]
      rw [ih]
      by_cases hle : k ≤ a
      · have h1 : k + 1 ≤ a := by omega
        have h2 : a - k = (a - (k + 1)) + 1 := by omega
        simp only [h1, hle, ↓reduceIte]
        rw [h2, List.getElem?_cons_succ]
      · have h1 : ¬ k + 1 ≤ a := by omega
        simp [h1, hle]

theorem snapshot_msgs (bs : List MockExchange.Bal) (a : Nat) :
    Spec.heardBalMsgs [.snapshot (snapshotItems bs)] a =
      match bs[a]? with | some b => [(b.time, (b.total, b.free))] | none => [] := by
  have := snapshot_msgs_aux bs 0 a
  simp only [Nat.zero_le, ↓reduceIte, Nat.sub_zero] at this
  simp only [Spec.heardBalMsgs, balItemsOf, List.flatMap_cons, List.flatMap_nil, List.append_nil, snapshotItems]
  exact this

theorem snapshot_items_time (bs : List MockExchange.Bal) (te : Int) (h : ∀ b ∈ bs, b.time = te) :
    ∀ am ∈ snapshotItems bs, am.2.1 = te := by
  intro am ham
  simp only [snapshotItems, List.mem_map] at ham
  obtain ⟨⟨b, i⟩, hbi, rfl⟩ := ham
  exact h b (List.fst_mem_of_mem_zipIdx hbi)

/-- What the account events produced so far (`P`) say about the exchange (`x`): its trade log is the
list of fills notified, in order; per asset the balance messages carry strictly increasing exchange
times and the last one is the asset's ledger entry; every message is older than the next request. -/
structure ExInv (clk : Nat → Int) (nA : Nat) (lat2 : Int) (x : LExch) (P : List AccEv) : Prop where
  len : x.x.balances.length = nA
  lat : ((x.x.latency / 2 : Nat) : Int) = lat2
  trades : tradesOf P = x.x.trades.map toPosTrade
  bound : ∀ am ∈ balItemsOf P, am.2.1 < clk x.n + lat2
  last : ∀ a, a < nA → ∃ m, (Spec.heardBalMsgs P a).getLast? = some m ∧ (MockExchange.ledger x.x)[a]? = some m.2
  sorted : ∀ a, (Spec.heardBalMsgs P a).Pairwise (fun m1 m2 => m1.1 < m2.1)

/-- The client's clock is strictly increasing from one request to the next. -/
def StrictClock (clk : Nat → Int) : Prop := ∀ n, clk n < clk (n + 1)

theorem exInv_init (clk : Nat → Int) (hclk : StrictClock clk) (c : MockExchange.Cfg) :
    ExInv clk c.init.length ((c.latency / 2 : Nat) : Int) (exchInit clk c).1 (exchInit clk c).2 := by
  have hst : (MockExchange.step (MockExchange.init c) (clk 0) .fetchSnapshot).1 =
      MockExchange.updateTime (MockExchange.init c) (clk 0) := rfl
  have htime : ∀ b ∈ (MockExchange.updateTime (MockExchange.init c) (clk 0)).balances,
      b.time = clk 0 + ((c.latency / 2 : Nat) : Int) := by
    intro b hb
    simp only [MockExchange.updateTime, List.mem_map] at hb
    obtain ⟨b0, _, rfl⟩ := hb
    rfl
  refine ⟨?_, rfl, rfl, ?_, ?_, ?_⟩
  · simp [exchInit, MockExchange.step, MockExchange.updateTime, MockExchange.init]
  · intro am ham
    have : am ∈ snapshotItems (MockExchange.updateTime (MockExchange.init c) (clk 0)).balances := by
      simpa [exchInit, balItemsOf, hst] using ham
    rw [snapshot_items_time _ _ htime am this]
    have h01 : clk 0 < clk 1 := hclk 0
    show clk 0 + _ < clk 1 + _
    exact Int.add_lt_add_right h01 _
  · intro a ha
    have hlen : (MockExchange.updateTime (MockExchange.init c) (clk 0)).balances.length = c.init.length := by
      simp [MockExchange.updateTime, MockExchange.init]
    have hget := List.getElem?_eq_getElem (hlen ▸ ha : a < (MockExchange.updateTime (MockExchange.init c) (clk 0)).balances.length)
    let b0 := (MockExchange.updateTime (MockExchange.init c) (clk 0)).balances[a]'(hlen ▸ ha)
    refine ⟨(b0.time, (b0.total, b0.free)), ?_, ?_⟩
    · show (Spec.heardBalMsgs [.snapshot (snapshotItems _)] a).getLast? = _
      rw [hst, snapshot_msgs, hget]; rfl
    · show (MockExchange.ledger (MockExchange.step _ _ _).1)[a]? = _
      rw [hst]
      simp only [MockExchange.ledger, List.getElem?_map, hget, Option.map_some]
      rfl
  · intro a
    show (Spec.heardBalMsgs [.snapshot (snapshotItems _)] a).Pairwise _
    rw [snapshot_msgs]
    split <;> simp

theorem pairwise_snoc {α : Type} (R : α → α → Prop) (l : List α) (x : α) (h : l.Pairwise R)
    (hx : ∀ y ∈ l, R y x) : (l ++ [x]).Pairwise R := by
  rw [List.pairwise_append]
  exact ⟨h, by simp, fun a ha b hb => by simp at hb; subst hb; exact hx a ha⟩

theorem exInv_respond (clk : Nat → Int) (hclk : StrictClock clk) (nA : Nat) (lat2 : Int) (x : LExch)
    (P : List AccEv) (h : ExInv clk nA lat2 x P) (r : Req) :
    ExInv clk nA lat2 (respond clk x r).1 (P ++ (respond clk x r).2) := by
  have hn : clk x.n + lat2 < clk (x.n + 1) + lat2 := by have := hclk x.n; omega
  cases r with
  | cnl r =>
    have hst : (MockExchange.step x.x (clk x.n) .cancelOrder).1 = MockExchange.updateTime x.x (clk x.n) := rfl
    refine ⟨?_, ?_, ?_, ?_, ?_, ?_⟩
    · show (MockExchange.step x.x (clk x.n) .cancelOrder).1.balances.length = nA
      rw [(step_static _ _ _).2.2.2]; exact h.len
    · show (((MockExchange.step x.x (clk x.n) .cancelOrder).1.latency / 2 : Nat) : Int) = lat2
      rw [(step_static _ _ _).1]; exact h.lat
    · show tradesOf (P ++ [.cancelled _ _ _]) = (MockExchange.step x.x (clk x.n) .cancelOrder).1.trades.map toPosTrade
      rw [tradesOf_append, hst]
      simpa [tradesOf, MockExchange.updateTime] using h.trades
    · intro am ham
      have : am ∈ balItemsOf P := by
        simpa [respond, balItemsOf_append, balItemsOf] using ham
      exact Int.lt_trans (h.bound am this) hn
    · intro a ha
      obtain ⟨m, hm1, hm2⟩ := h.last a ha
      refine ⟨m, ?_, ?_⟩
      · show (Spec.heardBalMsgs (P ++ [.cancelled _ _ _]) a).getLast? = _
        rw [heardBalMsgs_append]
        simpa [Spec.heardBalMsgs, balItemsOf] using hm1
      · show (MockExchange.ledger (MockExchange.step x.x (clk x.n) .cancelOrder).1)[a]? = _
        rw [hst, MockExchange.updateTime_ledger]; exact hm2
    · intro a
      show (Spec.heardBalMsgs (P ++ [.cancelled _ _ _]) a).Pairwise _
      rw [heardBalMsgs_append]
      simpa [Spec.heardBalMsgs, balItemsOf] using h.sorted a
  | opn r =>
    have hout : (respond clk x (.opn r)).2 =
        orderResponse r (resultOf (MockExchange.step x.x (clk x.n) (.openOrder (toXReq r))).2.1) ::
          (MockExchange.step x.x (clk x.n) (.openOrder (toXReq r))).2.2.map notif := rfl
    have hx : (respond clk x (.opn r)).1.x = (MockExchange.step x.x (clk x.n) (.openOrder (toXReq r))).1 := rfl
    have hnn : (respond clk x (.opn r)).1.n = x.n + 1 := rfl
    have hstat := step_static x.x (clk x.n) (.openOrder (toXReq r))
    rcases step_open_facts x.x (clk x.n) (toXReq r) with
      ⟨f, _, hev, htr, hled, hfa, hft, _, _, _, _, _⟩ | ⟨_, _, hev, htr, hled⟩
    · -- accepted: one balance message for `f.asset`, one fill
      have hitems : balItemsOf (respond clk x (.opn r)).2 = [(f.asset, (f.balance.time, (f.balance.total, f.balance.free)))] := by
        rw [hout, hev]; simp [balItemsOf, orderResponse, notif]
      have htrades : tradesOf (respond clk x (.opn r)).2 = [toPosTrade f.trade] := by
        rw [hout, hev]; simp [tradesOf, orderResponse, notif]
      have hmsgs : ∀ a, Spec.heardBalMsgs (respond clk x (.opn r)).2 a =
          if f.asset = a then [(f.balance.time, (f.balance.total, f.balance.free))] else [] := by
        intro a
        simp only [Spec.heardBalMsgs, hitems, List.filter_cons, List.filter_nil]
        by_cases hfa' : f.asset = a <;> simp [hfa']
      have hftime : f.balance.time = clk x.n + lat2 := by rw [hft, h.lat]
      refine ⟨?_, ?_, ?_, ?_, ?_, ?_⟩
      · rw [hx, hstat.2.2.2]; exact h.len
      · rw [hx, hstat.1]; exact h.lat
      · rw [tradesOf_append, htrades, hx, htr, h.trades]; simp
      · intro am ham
        show am.2.1 < clk (x.n + 1) + lat2
        rw [balItemsOf_append, hitems] at ham
        rcases List.mem_append.mp ham with ham | ham
        · exact Int.lt_trans (h.bound am ham) hn
        · simp only [List.mem_singleton] at ham; subst ham
          show f.balance.time < _
          rw [hftime]; exact hn
      · intro a ha
        rw [heardBalMsgs_append, hmsgs, hx, hled]
        by_cases hfa' : f.asset = a
        · have hlt : a < (MockExchange.ledger x.x).length := by
            rw [← hfa']; simpa [MockExchange.ledger] using hfa
          simp only [hfa', ↓reduceIte]
          refine ⟨_, List.getLast?_concat, ?_⟩
          simp [hlt]
        · obtain ⟨m, hm1, hm2⟩ := h.last a ha
          refine ⟨m, by simpa [hfa'] using hm1, ?_⟩
          rw [List.getElem?_set]; simp [hfa', hm2]
      · intro a
        rw [heardBalMsgs_append, hmsgs]
        by_cases hfa' : f.asset = a
        · simp only [hfa', ↓reduceIte]
          apply pairwise_snoc _ _ _ (h.sorted a)
          intro y hy
          show y.1 < f.balance.time
          rw [hftime]
          simp only [Spec.heardBalMsgs, List.mem_map, List.mem_filter] at hy
          obtain ⟨am, ⟨ham, _⟩, rfl⟩ := hy
          exact h.bound am ham
        · simpa [hfa'] using h.sorted a
    · -- not accepted: only the order response comes back
      have hitems : balItemsOf (respond clk x (.opn r)).2 = [] := by
        rw [hout, hev]; simp [balItemsOf, orderResponse]
      have htrades : tradesOf (respond clk x (.opn r)).2 = [] := by
        rw [hout, hev]; simp [tradesOf, orderResponse]
      have hmsgs : ∀ a, Spec.heardBalMsgs (respond clk x (.opn r)).2 a = [] := by
        intro a; simp [Spec.heardBalMsgs, hitems]
      refine ⟨?_, ?_, ?_, ?_, ?_, ?_⟩
      · rw [hx, hstat.2.2.2]; exact h.len
      · rw [hx, hstat.1]; exact h.lat
      · rw [tradesOf_append, htrades, hx, htr, h.trades]; simp
      · intro am ham
        show am.2.1 < clk (x.n + 1) + lat2
        rw [balItemsOf_append, hitems, List.append_nil] at ham
        exact Int.lt_trans (h.bound am ham) hn
      · intro a ha
        obtain ⟨m, hm1, hm2⟩ := h.last a ha
        exact ⟨m, by rw [heardBalMsgs_append, hmsgs, List.append_nil]; exact hm1, by rw [hx, hled]; exact hm2⟩
      · intro a
        rw [heardBalMsgs_append, hmsgs, List.append_nil]; exact h.sorted a

theorem exInv_respondAll (clk : Nat → Int) (hclk : StrictClock clk) (nA : Nat) (lat2 : Int) (rs : List Req)
    (x : LExch) (P : List AccEv) (h : ExInv clk nA lat2 x P) :
    ExInv clk nA lat2 (respondAll (lExchange clk) x rs).1 (P ++ (respondAll (lExchange clk) x rs).2) := by
  induction rs generalizing x P with
  | nil => simpa [respondAll] using h
  | cons r rs ih =>
    have h1 := exInv_respond clk hclk nA lat2 x P h r
    have h2 := ih _ _ h1
    simpa [respondAll, lExchange, List.append_assoc] using h2

/-! ## D. Agreement of the two views once everything produced has been heard -/

theorem perm_sum_rat {l l' : List Rat} (h : l.Perm l') : l.sum = l'.sum := by
  induction h with
  | nil => rfl
  | cons x _ ih => simp [ih]
  | swap x y l => simp only [List.sum_cons]; grind
  | trans _ _ ih1 ih2 => exact ih1.trans ih2

theorem tradesOf_perm {p q : List AccEv} (h : p.Perm q) : (tradesOf p).Perm (tradesOf q) :=
  h.filterMap _

theorem balItemsOf_perm {p q : List AccEv} (h : p.Perm q) : (balItemsOf p).Perm (balItemsOf q) := by
  induction h with
  | nil => exact List.Perm.refl _
  | cons x _ ih => simp only [balItemsOf, List.flatMap_cons] at *; exact ih.append_left _
  | swap x y l =>
    simp only [balItemsOf, List.flatMap_cons, ← List.append_assoc]
    exact List.Perm.append_right _ List.perm_append_comm
  | trans _ _ ih1 ih2 => exact ih1.trans ih2

theorem heardBalMsgs_perm {p q : List AccEv} (h : p.Perm q) (a : Nat) :
    (Spec.heardBalMsgs p a).Perm (Spec.heardBalMsgs q a) :=
  ((balItemsOf_perm h).filter _).map _

/-- In a list with strictly increasing times the last element is the only one with the greatest time. -/
theorem last_is_max {α : Type} (l : List (Stale.Msg α)) (m : Stale.Msg α)
    (hs : l.Pairwise (fun m1 m2 => m1.1 < m2.1)) (hl : l.getLast? = some m) :
    ∀ r ∈ l, r = m ∨ r.1 < m.1 := by
  obtain ⟨ys, rfl⟩ := List.getLast?_eq_some_iff.mp hl
  intro r hr
  rcases List.mem_append.mp hr with hr | hr
  · right
    exact (List.pairwise_append.mp hs).2.2 r hr m (by simp)
  · left; simpa using hr

/-- Net over the exchange's trade log = C02 net over the translated fills of one instrument. -/
theorem net_toPosTrade (l : List MockExchange.Trade) (i : Nat) :
    Position.net ((l.map toPosTrade).filter fun t => t.instrument = i) = Spec.net l i := by
  induction l with
  | nil => rfl
  | cons t l ih =>
    simp only [Position.net, Spec.net, List.map_cons, List.filter_cons] at *
    by_cases h : t.instr = i
    · have h' : (toPosTrade t).instrument = i := h
      simp only [h, h', decide_true, ↓reduceIte, List.map_cons, List.sum_cons, ih]
      congr 1
      cases hs : t.side <;> simp [Position.signedQty, Spec.signed, toPosTrade, sidePosOfX, hs]
    · have h' : ¬ (toPosTrade t).instrument = i := h
      simp only [h, h', decide_false, Bool.false_eq_true, ↓reduceIte, ih]

/-- (positions) If the engine's position table is the C02 fold over a permutation of the fills the
exchange has notified, the signed position of every instrument is the net of the exchange's trade
log. -/
theorem pos_agree (clk : Nat → Int) (nA : Nat) (lat2 : Int) (x : LExch) (P Q : List AccEv)
    (h : ExInv clk nA lat2 x P) (hperm : Q.Perm P) (e : LEng) (k : Nat)
    (he : e.pos = Position.Instruments.run (Position.Instruments.init k) (tradesOf Q))
    (hq : ∀ t ∈ x.x.trades, 0 < t.qty) (i : Nat) (hi : i < k) :
    enginePos e i = Spec.net x.x.trades i := by
  have hmem : ∀ t ∈ tradesOf Q, 0 < t.quantity := by
    intro t ht
    have : t ∈ tradesOf P := (tradesOf_perm hperm).mem_iff.mp ht
    rw [h.trades] at this
    obtain ⟨t0, ht0, rfl⟩ := List.mem_map.mp this
    exact hq t0 ht0
  have hroute := Props.C02.engine_routes_per_instrument k (tradesOf Q) i hi
  have hpq : Position.PosQty ((tradesOf Q).filter fun f => f.instrument = i) :=
    fun f hf => hmem f (List.mem_filter.mp hf).1
  have hnet := (Props.C02.size_is_net _ (Props.C02.oneInstrument_filter (tradesOf Q) i) hpq).1
  unfold enginePos
  rw [he, hroute]
  simp only
  rw [hnet, ← net_toPosTrade, ← h.trades]
  unfold Position.net
  exact perm_sum_rat (((tradesOf_perm hperm).filter _).map _)

/-- (balances) If the engine's registers are the C09 fold over a permutation of the balance items
the exchange has sent, every register holds the exchange's ledger entry. -/
theorem bal_agree (clk : Nat → Int) (nA : Nat) (lat2 : Int) (x : LExch) (P Q : List AccEv)
    (h : ExInv clk nA lat2 x P) (hperm : Q.Perm P) (e : LEng) (nI : Nat)
    (he : e.bal = (Stale.Eng.init nA nI).fullSnapshot (balItemsOf Q)) (a : Nat) (ha : a < nA) :
    engineBal e a = (MockExchange.ledger x.x)[a]? := by
  obtain ⟨m, hm1, hm2⟩ := h.last a ha
  have hpm := heardBalMsgs_perm hperm a
  have hmP : m ∈ Spec.heardBalMsgs P a := by
    obtain ⟨ys, hys⟩ := List.getLast?_eq_some_iff.mp hm1
    rw [hys]; simp
  have hne : Spec.heardBalMsgs Q a ≠ [] := by
    intro hnil
    have := hpm.mem_iff.mpr hmP
    rw [hnil] at this; cases this
  have h0 : (Stale.Eng.init nA nI).assets[a]? = some none := by simp [Stale.Eng.init, ha]
  have hrun := Props.C09.full_snapshot_item_by_item (Stale.Eng.init nA nI) (balItemsOf Q) a none h0
  obtain ⟨r, hr, hrmem, hrmax⟩ := Props.C09.carries_max false (Spec.heardBalMsgs Q a) hne
  have hrP : r ∈ Spec.heardBalMsgs P a := hpm.mem_iff.mp hrmem
  have hle : m.1 ≤ r.1 := hrmax m (hpm.mem_iff.mpr hmP)
  have hrm : r = m := by
    rcases last_is_max _ m (h.sorted a) hm1 r hrP with h1 | h1
    · exact h1
    · omega
  unfold engineBal
  rw [he, hrun]
  show (match some (Stale.deliver false none (Spec.heardBalMsgs Q a)) with
    | some (some m) => some m.2 | _ => none) = _
  rw [hr, hrm, hm2]

/-! ## E. Orders: a response ends the order, and it stays ended until a new request is sent -/

section Orders
open BarterModel.Engine BarterModel.Orders

theorem orderState_applyUpdate_order (e : Eng) (i : Nat) (op : Op) (j c : Nat) :
    Engine.orderState (applyUpdate e (.order i op)) j c =
      if j = i then (e.instruments[i]?).bind (fun s => stateOf (step s.orders op) c)
      else Engine.orderState e j c := by
  unfold Engine.orderState applyUpdate
  simp only [modifyInstr_getElem?]
  by_cases h : j = i
  · subst h; cases e.instruments[j]? <;> simp
  · simp [h]

/-- Updates that are not about an order leave every order table alone. -/
theorem orderState_applyUpdate_other (e : Eng) (u : Update) (i c : Nat)
    (h : ∀ j op, u ≠ .order j op) :
    Engine.orderState (applyUpdate e u) i c = Engine.orderState e i c := by
  cases u with
  | order j op => exact absurd rfl (h j op)
  | other => rfl
  | position j sd q =>
    unfold Engine.orderState applyUpdate
    simp only [modifyInstr_getElem?]
    by_cases hj : i = j
    · subst hj; cases e.instruments[i]? <;> simp
    · simp [hj]
  | flat j =>
    unfold Engine.orderState applyUpdate
    simp only [modifyInstr_getElem?]
    by_cases hj : i = j
    · subst hj; cases e.instruments[i]? <;> simp
    · simp [hj]
  | price j p =>
    unfold Engine.orderState applyUpdate
    simp only [modifyInstr_getElem?]
    by_cases hj : i = j
    · subst hj; cases e.instruments[i]? <;> simp
    · simp [hj]

theorem orderState_updateTradingState (e : Eng) (on : Bool) (i c : Nat) :
    Engine.orderState (updateTradingState e on) i c = Engine.orderState e i c := by
  unfold updateTradingState; split <;> rfl

/-- The generation stage with a strategy that only opens: a key none of the SENT opens names keeps
"untracked". -/
theorem generateStage_keeps_none (e : Eng) (cmd : Option ActionOut) (os : List OpenReq) (rf : Key → Bool)
    (i c : Nat) (h0 : Engine.orderState e i c = none)
    (h : ∀ g, (generateStage e cmd [] os rf).2.generated = some g →
      ∀ o ∈ g.opens.sent, ¬ (o.key.instrument = i ∧ o.key.cid = c)) :
    Engine.orderState (generateStage e cmd [] os rf).1 i c = none := by
  unfold generateStage at h ⊢
  split
  · rename_i hen
    simp only [hen, ↓reduceIte] at h
    have h' := h _ rfl
    simp only [generateAlgoOrders] at h' ⊢
    rw [orderState_recordOpens_other _ _ _ _ h']
    apply orderState_recordCancels_none
    exact h0
  · exact h0

theorem action_keeps_none (e : Eng) (cm : Command) (i c : Nat) (h0 : Engine.orderState e i c = none)
    (h : ∀ o ∈ (action e cm).2.opens.sent, ¬ (o.key.instrument = i ∧ o.key.cid = c)) :
    Engine.orderState (action e cm).1 i c = none := by
  cases cm with
  | sendCancelRequests rs =>
    simp only [action]
    exact orderState_recordCancels_none _ _ _ _ h0
  | sendOpenRequests rs =>
    simp only [action] at h ⊢
    rw [orderState_recordOpens_other _ _ _ _ h]; exact h0
  | closePositions f =>
    simp only [action] at h ⊢
    rw [orderState_recordOpens_other _ _ _ _ h]
    exact orderState_recordCancels_none _ _ _ _ h0
  | cancelOrders f =>
    simp only [action]
    exact orderState_recordCancels_none _ _ _ _ h0

/-- The state the generation stage of a tick starts from, as far as order tables go. -/
def preState (e : Eng) : Engine.Event → Eng
  | .update u => applyUpdate e u
  | _ => e

/-- One tick of the engine: if `(i, c)` is untracked once the event's own update has been applied and
no open request for `(i, c)` is SENT during the tick, it is untracked after the tick. -/
theorem process_keeps_none (e : Eng) (ev : Engine.Event) (os : List OpenReq) (rf : Key → Bool) (i c : Nat)
    (h0 : Engine.orderState (preState e ev) i c = none)
    (hsent : ∀ o, Req.opn o ∈ Props.C03.Audit.sentReqs (Engine.process e ev [] os rf).2 →
      ¬ (o.key.instrument = i ∧ o.key.cid = c)) :
    Engine.orderState (Engine.process e ev [] os rf).1 i c = none := by
  cases ev with
  | shutdown => exact h0
  | command cm =>
    simp only [Engine.process] at hsent ⊢
    have hact : Engine.orderState (action e cm).1 i c = none := by
      apply action_keeps_none e cm i c h0
      intro o ho
      apply hsent o
      split
      · simp [Props.C03.Audit.sentReqs, ho]
      · have hc := (Props.C03.generateStage_log (action e cm).1 (some (action e cm).2) [] os rf).2
        simp only [Props.C03.Audit.sentReqs, hc, List.mem_append, List.mem_map]
        exact Or.inl (Or.inr ⟨o, ho, rfl⟩)
    split
    · exact hact
    · rename_i hnf
      simp only [hnf, Bool.false_eq_true, ↓reduceIte] at hsent
      apply generateStage_keeps_none _ _ _ _ _ _ hact
      intro g hg o ho
      apply hsent o
      simp only [Props.C03.Audit.sentReqs, hg, List.mem_append, List.mem_map]
      exact Or.inr (Or.inr ⟨o, ho, rfl⟩)
  | tradingState on =>
    simp only [Engine.process] at hsent ⊢
    apply generateStage_keeps_none
    · rw [orderState_updateTradingState]; exact h0
    · intro g hg o ho
      apply hsent o
      simp only [Props.C03.Audit.sentReqs, hg, List.mem_append, List.mem_map]
      exact Or.inr (Or.inr ⟨o, ho, rfl⟩)
  | update u =>
    simp only [Engine.process] at hsent ⊢
    have h0' : Engine.orderState (applyUpdate e u) i c = none := h0
    apply generateStage_keeps_none _ _ _ _ _ _ h0'
    intro g hg o ho
    apply hsent o
    simp only [Props.C03.Audit.sentReqs, hg, List.mem_append, List.mem_map]
    exact Or.inr (Or.inr ⟨o, ho, rfl⟩)

/-- The requests of a tick are exactly what its audit reports as sent (C03
`process_delivers_exactly_sent`). -/
theorem lProcess_requests (s : LEng) (ev : LEv) :
    (lProcess s ev).2 = Props.C03.Audit.sentReqs (lStep s ev).2 := by
  show (Engine.process s.core _ [] _ _).1.log.drop s.core.log.length = _
  rw [Props.C03.process_delivers_exactly_sent]
  simp [lStep]

/-- `(i, c)` is not re-opened by the event: an order snapshot about it reports a final state. -/
def NoReopen (i c : Nat) (ev : LEv) : Prop :=
  ∀ sn, ev = .account (.order i sn) → sn.cid = c → ∃ k, sn.state = .inactive k

theorem stateOf_none_iff (m : Orders) (c : Nat) : stateOf m c = none ↔ lookup m c = none := by
  unfold stateOf; cases lookup m c <;> simp

/-- Once `(i, c)` is untracked it stays untracked over a tick that neither re-opens it nor sends an
open request for it. -/
theorem lStep_keeps_none (s : LEng) (ev : LEv) (i c : Nat)
    (h0 : Engine.orderState s.core i c = none) (hre : NoReopen i c ev)
    (hsent : ∀ o, Req.opn o ∈ (lProcess s ev).2 → ¬ (o.key.instrument = i ∧ o.key.cid = c)) :
    Engine.orderState (lStep s ev).1.core i c = none := by
  rw [lProcess_requests] at hsent
  show Engine.orderState (Engine.process s.core _ [] _ _).1 i c = none
  apply process_keeps_none _ _ _ _ _ _ _ hsent
  -- the event's own update keeps `(i, c)` untracked
  have hlk : ∀ st, s.core.instruments[i]? = some st → lookup st.orders c = none := by
    intro st hst
    have := h0
    simp only [Engine.orderState, hst] at this
    exact (stateOf_none_iff _ _).mp this
  cases ev with
  | shutdown => exact h0
  | command cm => exact h0
  | trading on => exact h0
  | market m =>
    simp only [toEngineEvent]
    split
    · exact h0
    · show Engine.orderState (applyUpdate s.core _) i c = none
      rw [orderState_applyUpdate_other _ _ _ _ (by intro j op h; cases h)]; exact h0
  | account a =>
    cases a with
    | snapshot items => exact h0
    | balance a m => exact h0
    | trade t =>
      show Engine.orderState (applyUpdate s.core (posSummary _ _)) i c = none
      rw [orderState_applyUpdate_other _ _ _ _ (by
        intro j op h; unfold posSummary at h; split at h <;> cases h)]
      exact h0
    | cancelled j cid ok =>
      show Engine.orderState (applyUpdate s.core (.order j (.cancelResp cid ok))) i c = none
      rw [orderState_applyUpdate_order]
      split
      · rename_i hij
        subst hij
        cases hst : s.core.instruments[i]? with
        | none => rfl
        | some st =>
          simp only [Option.bind_some]
          rw [stateOf_none_iff]
          by_cases hc : c = cid
          · subst hc
            simp only [Orders.step, updateFromCancelResponse, hlk st hst]
          · rw [Props.C01.frame_cid _ _ _ (by simpa [Op.cid] using hc)]; exact hlk st hst
      · exact h0
    | order j sn =>
      show Engine.orderState (applyUpdate s.core (.order j (.snapshot sn))) i c = none
      rw [orderState_applyUpdate_order]
      split
      · rename_i hij
        subst hij
        cases hst : s.core.instruments[i]? with
        | none => rfl
        | some st =>
          simp only [Option.bind_some]
          rw [stateOf_none_iff]
          by_cases hc : c = sn.cid
          · obtain ⟨kd, hk⟩ := hre sn rfl hc.symm
            subst hc
            have := Props.C01.untracked_on_inactive st.orders sn.cid sn.quantity sn.price kd sn.exchange
            have hsn : sn = ⟨sn.cid, sn.quantity, sn.price, .inactive kd, sn.exchange⟩ := by
              cases sn; simp_all
            rw [hsn]; exact this
          · rw [Props.C01.frame_cid _ _ _ (by simpa [Op.cid] using hc)]; exact hlk st hst
      · exact h0

end Orders

/-! ## F. Requests, delivery log, static parts of the exchange over whole histories -/

/-- The delivery log grows by exactly the requests of the tick. -/
theorem lProcess_log (s : LEng) (ev : LEv) :
    (lProcess s ev).1.core.log = s.core.log ++ (lProcess s ev).2 := by
  rw [lProcess_requests]
  exact Props.C03.process_delivers_exactly_sent _ _ _ _ _

theorem engAfter_log (e : Eng LEng) (h : List LEv) :
    (engAfter lEngine e h).state.core.log = e.state.core.log ++ requestsOf lEngine e h := by
  induction h generalizing e with
  | nil => simp [requestsOf]
  | cons ev h ih =>
    rw [engAfter_cons, ih]
    simp only [requestsOf, processWithAudit]
    show (lProcess e.state ev).1.core.log ++ _ = _
    rw [lProcess_log, List.append_assoc]
    rfl

/-- A request the engine may send: an open request carries a positive quantity. -/
def PosReq : Req → Prop
  | .opn o => 0 < o.quantity
  | .cnl _ => True

instance (r : Req) : Decidable (PosReq r) := by
  cases r <;> unfold PosReq <;> infer_instance

theorem respond_trades_pos (clk : Nat → Int) (x : LExch) (r : Req) (hr : PosReq r)
    (h : ∀ t ∈ x.x.trades, 0 < t.qty) : ∀ t ∈ (respond clk x r).1.x.trades, 0 < t.qty := by
  cases r with
  | cnl r => simpa [respond, MockExchange.step, MockExchange.updateTime] using h
  | opn r =>
    show ∀ t ∈ (MockExchange.step x.x (clk x.n) (.openOrder (toXReq r))).1.trades, 0 < t.qty
    rcases step_open_facts x.x (clk x.n) (toXReq r) with
      ⟨f, _, _, htr, _, _, _, _, _, _, hq, _⟩ | ⟨_, _, _, htr, _⟩
    · rw [htr]
      intro t ht
      rcases List.mem_append.mp ht with ht | ht
      · exact h t ht
      · simp only [List.mem_singleton] at ht; subst ht
        rw [hq]; exact hr
    · rw [htr]; exact h

theorem respondAll_trades_pos (clk : Nat → Int) (rs : List Req) (x : LExch) (hr : ∀ r ∈ rs, PosReq r)
    (h : ∀ t ∈ x.x.trades, 0 < t.qty) :
    ∀ t ∈ (respondAll (lExchange clk) x rs).1.x.trades, 0 < t.qty := by
  induction rs generalizing x with
  | nil => exact h
  | cons r rs ih =>
    simp only [respondAll]
    exact ih _ (fun r' hr' => hr r' (List.mem_cons_of_mem _ hr'))
      (respond_trades_pos clk x r (hr r (by simp)) h)

theorem respond_instruments (clk : Nat → Int) (x : LExch) (r : Req) :
    (respond clk x r).1.x.instruments = x.x.instruments := by
  cases r with
  | cnl r => exact (step_static _ _ _).2.2.1
  | opn r => exact (step_static _ _ _).2.2.1

theorem respondAll_instruments (clk : Nat → Int) (rs : List Req) (x : LExch) :
    (respondAll (lExchange clk) x rs).1.x.instruments = x.x.instruments := by
  induction rs generalizing x with
  | nil => rfl
  | cons r rs ih =>
    simp only [respondAll]
    rw [ih]; exact respond_instruments clk x r

/-! ## S. The `(side, quantity)` summary that commands read is the position manager's position -/

section Sync
open BarterModel.Engine

/-- `(side, quantity_abs)` of instrument `j`'s open position. -/
def posSum (p : Position.Instruments) (j : Nat) : Option (Engine.Side × Rat) :=
  ((p[j]?).bind (·.pm.current)).map fun q => (sideEngOfPos q.side, q.quantityAbs)

/-- What `close_positions` reads (`Instr.position`) is what the position manager holds. -/
def PosSync (e : LEng) : Prop :=
  ∀ j st, e.core.instruments[j]? = some st → st.position = posSum e.pos j

theorem static_position (x y : Option Instr) (h : x.map Instr.static = y.map Instr.static) :
    x.map (·.position) = y.map (·.position) := by
  have := congrArg (Option.map (fun t : Nat × Nat × Nat × Option (Side × Rat) × Option Rat => t.2.2.2.1)) h
  simpa [Option.map_map, Function.comp_def, Instr.static] using this

theorem generateStage_static (e : Eng) (cmd : Option ActionOut) (os : List OpenReq) (rf : Key → Bool) (j : Nat) :
    ((generateStage e cmd [] os rf).1.instruments[j]?).map Instr.static = (e.instruments[j]?).map Instr.static := by
  unfold generateStage
  split
  · simp only [generateAlgoOrders]
    rw [recordOpens_static, recordCancels_static]; rfl
  · rfl

theorem action_static (e : Eng) (cm : Command) (j : Nat) :
    ((action e cm).1.instruments[j]?).map Instr.static = (e.instruments[j]?).map Instr.static := by
  cases cm with
  | sendCancelRequests rs => simp only [action]; rw [recordCancels_static]; rfl
  | sendOpenRequests rs => simp only [action]; rw [recordOpens_static]; rfl
  | closePositions f => simp only [action]; rw [recordOpens_static, recordCancels_static]; rfl
  | cancelOrders f => simp only [action]; rw [recordCancels_static]; rfl

theorem process_static (e : Eng) (ev : Engine.Event) (os : List OpenReq) (rf : Key → Bool) (j : Nat) :
    ((Engine.process e ev [] os rf).1.instruments[j]?).map Instr.static =
      ((preState e ev).instruments[j]?).map Instr.static := by
  cases ev with
  | shutdown => rfl
  | command cm =>
    simp only [Engine.process, preState]
    split
    · exact action_static e cm j
    · rw [generateStage_static]; exact action_static e cm j
  | tradingState on =>
    simp only [Engine.process, preState]
    rw [generateStage_static]
    unfold updateTradingState; split <;> rfl
  | update u =>
    simp only [Engine.process, preState]
    rw [generateStage_static]

theorem instruments_step_getElem? (p : Position.Instruments) (t : Position.Trade) (j : Nat)
    (h : j ≠ t.instrument) : (p.step t)[j]? = p[j]? := by
  unfold Position.Instruments.step
  split
  · simp [Ne.symm h]
  · rfl

theorem modifyInstr_position (l : List Instr) (i : Nat) (f : Instr → Instr)
    (hf : ∀ s, (f s).position = s.position) (k : Nat) :
    ((modifyInstr l i f)[k]?).map Instr.position = (l[k]?).map Instr.position := by
  rw [modifyInstr_getElem?]
  by_cases hk : k = i
  · rw [if_pos hk, hk]; cases l[i]? <;> simp [hf]
  · rw [if_neg hk]

theorem modifyInstr_position_set (l : List Instr) (i : Nat) (f : Instr → Instr) (v : Option (Side × Rat))
    (hf : ∀ s, (f s).position = v) :
    ((modifyInstr l i f)[i]?).map Instr.position = (l[i]?).map (fun _ => v) := by
  rw [modifyInstr_getElem?, if_pos rfl]; cases l[i]? <;> simp [hf]

theorem modifyInstr_other (l : List Instr) (i : Nat) (f : Instr → Instr) (k : Nat) (hk : k ≠ i) :
    (modifyInstr l i f)[k]? = l[k]? := by
  rw [modifyInstr_getElem?, if_neg hk]

theorem applyUpdate_posSummary_same (e : Eng) (p : Position.Instruments) (i : Nat) :
    ((applyUpdate e (posSummary p i)).instruments[i]?).map Instr.position =
      (e.instruments[i]?).map (fun _ => posSum p i) := by
  unfold posSummary posSum
  cases hq : (p[i]?).bind (·.pm.current) with
  | none => exact modifyInstr_position_set _ _ _ _ (fun _ => rfl)
  | some q => exact modifyInstr_position_set _ _ _ _ (fun _ => rfl)

theorem applyUpdate_posSummary_other (e : Eng) (p : Position.Instruments) (i j : Nat) (hj : j ≠ i) :
    (applyUpdate e (posSummary p i)).instruments[j]? = e.instruments[j]? := by
  unfold posSummary
  split <;> exact modifyInstr_other _ _ _ _ hj

theorem applyUpdate_order_position (e : Eng) (i : Nat) (op : Orders.Op) (k : Nat) :
    ((applyUpdate e (.order i op)).instruments[k]?).map Instr.position = (e.instruments[k]?).map Instr.position := by
  show ((modifyInstr e.instruments i _)[k]?).map Instr.position = _
  apply modifyInstr_position
  intro _; rfl

theorem applyUpdate_price_position (e : Eng) (i : Nat) (p : Rat) (k : Nat) :
    ((applyUpdate e (.price i p)).instruments[k]?).map Instr.position = (e.instruments[k]?).map Instr.position := by
  show ((modifyInstr e.instruments i _)[k]?).map Instr.position = _
  apply modifyInstr_position
  intro _; rfl

theorem posSync_lStep (s : LEng) (ev : LEv) (h : PosSync s) : PosSync (lStep s ev).1 := by
  intro j st' hst'
  have hcore : (lStep s ev).1.core = (Engine.process s.core (toEngineEvent (posAfter s.pos ev) ev) []
      (lOpens s ev) (fun _ => false)).1 := rfl
  have hpos' : (lStep s ev).1.pos = posAfter s.pos ev := rfl
  rw [hcore] at hst'
  have hstat := static_position _ _ (process_static s.core (toEngineEvent (posAfter s.pos ev) ev)
    (lOpens s ev) (fun _ => false) j)
  rw [hst'] at hstat
  simp only [Option.map_some] at hstat
  rw [hpos']
  -- position of `j` in the state the generation stage starts from
  have key : ((preState s.core (toEngineEvent (posAfter s.pos ev) ev)).instruments[j]?).map Instr.position =
      (s.core.instruments[j]?).map (fun _ => posSum (posAfter s.pos ev) j) := by
    have hsame : ∀ (e' : Eng), (∀ k : Nat, (e'.instruments[k]?).map Instr.position = (s.core.instruments[k]?).map Instr.position) →
        posAfter s.pos ev = s.pos →
        (e'.instruments[j]?).map Instr.position = (s.core.instruments[j]?).map (fun _ => posSum (posAfter s.pos ev) j) := by
      intro e' he' hp
      rw [he' j, hp]
      cases hs : s.core.instruments[j]? with
      | none => rfl
      | some st => simp [h j st hs]
    cases ev with
    | shutdown => exact hsame _ (fun _ => rfl) rfl
    | command cm => exact hsame _ (fun _ => rfl) rfl
    | trading on => exact hsame _ (fun _ => rfl) rfl
    | market m =>
      simp only [toEngineEvent]
      split
      · exact hsame _ (fun _ => rfl) rfl
      · exact hsame _ (fun k => applyUpdate_price_position _ _ _ k) rfl
    | account a =>
      cases a with
      | snapshot items => exact hsame _ (fun _ => rfl) rfl
      | balance a m => exact hsame _ (fun _ => rfl) rfl
      | order i sn => exact hsame _ (fun k => applyUpdate_order_position _ _ _ k) rfl
      | cancelled i cid ok => exact hsame _ (fun k => applyUpdate_order_position _ _ _ k) rfl
      | trade t =>
        show ((applyUpdate s.core (posSummary (s.pos.step t) t.instrument)).instruments[j]?).map Instr.position =
          (s.core.instruments[j]?).map (fun _ => posSum (s.pos.step t) j)
        by_cases hj : j = t.instrument
        · rw [hj]; exact applyUpdate_posSummary_same _ _ _
        · rw [applyUpdate_posSummary_other _ _ _ _ hj]
          have hps : posSum (s.pos.step t) j = posSum s.pos j := by
            unfold posSum; rw [instruments_step_getElem? _ _ _ hj]
          rw [hps]
          cases hs : s.core.instruments[j]? with
          | none => rfl
          | some st => simp [h j st hs]
  rw [key] at hstat
  cases hs : s.core.instruments[j]? with
  | none => rw [hs] at hstat; cases hstat
  | some st => rw [hs] at hstat; simpa using hstat

theorem posSync_engFold (s : LEng) (h : List LEv) (hs : PosSync s) : PosSync (engFold lEngine s h) := by
  induction h generalizing s with
  | nil => exact hs
  | cons ev h ih => exact ih _ (posSync_lStep s ev hs)

end Sync

/-! ## T. A tracked order has a response outstanding -/

section Track
open BarterModel.Engine

/-- identity of the open request / order response for `(i, c)` -/
def kOpen (i c : Nat) : ExecManager.Kind × Nat × Nat := (.open, i, c)

/-- number of order responses for `(i, c)` among account events -/
def respCount (i c : Nat) (l : List AccEv) : Nat := (l.filterMap responseIdent).count (kOpen i c)

/-- number of open requests for `(i, c)` among requests -/
def reqCount (i c : Nat) (l : List Req) : Nat := (l.map reqIdent).count (kOpen i c)

/-- Every order snapshot in the list reports a final state. -/
def AllFinal (l : List AccEv) : Prop := ∀ i sn, AccEv.order i sn ∈ l → ∃ k, sn.state = .inactive k

/-- Whatever the engine tracks has a response outstanding: more open requests for the key have been
sent than order responses for it processed. -/
def Track (s : LSys) : Prop :=
  ∀ i c, Engine.orderState s.eng.state.core i c ≠ none →
    respCount i c (accountOf s.processed) < reqCount i c s.requests

theorem respCount_append (i c : Nat) (a b : List AccEv) :
    respCount i c (a ++ b) = respCount i c a + respCount i c b := by
  simp [respCount, List.filterMap_append, List.count_append]

theorem reqCount_append (i c : Nat) (a b : List Req) :
    reqCount i c (a ++ b) = reqCount i c a + reqCount i c b := by
  simp [reqCount, List.count_append]

theorem respCount_perm (i c : Nat) {a b : List AccEv} (h : a.Perm b) : respCount i c a = respCount i c b :=
  (h.filterMap responseIdent).count_eq _

theorem respCount_single_zero (i c : Nat) (a : AccEv) (h : ¬ ∃ sn, a = .order i sn ∧ sn.cid = c) :
    respCount i c [a] = 0 := by
  cases a with
  | order j sn =>
    simp only [respCount, List.filterMap_cons, responseIdent, List.filterMap_nil, kOpen]
    simp only [List.count_cons, List.count_nil, Nat.zero_add]
    split
    · rename_i heq
      simp only [beq_iff_eq, Prod.mk.injEq, true_and] at heq
      exact absurd ⟨sn, by rw [heq.1], heq.2⟩ h
    · rfl
  | cancelled j cid ok => simp [respCount, responseIdent, kOpen]
  | snapshot items => rfl
  | balance a m => rfl
  | trade t => rfl

theorem reqCount_pos_of_mem (i c : Nat) (l : List Req) (o : OpenReq) (h : Req.opn o ∈ l)
    (hk : o.key.instrument = i ∧ o.key.cid = c) : 0 < reqCount i c l := by
  unfold reqCount
  apply List.count_pos_iff.mpr
  apply List.mem_map.mpr
  exact ⟨_, h, by simp [reqIdent, kOpen, hk.1, hk.2]⟩

theorem accountOf_single (ev : LEv) :
    accountOf [ev] = (match ev with | .account a => [a] | _ => []) := by
  have := accountOf_cons ev []
  simpa [accountOf] using this

/-- One tick of the engine preserves `Track`, given the flow facts of the state it starts from:
`hflow`: responses processed + responses on the feed + … never exceed the requests sent;
`hfin`: the event being processed, if an order snapshot, is final. -/
theorem track_tick (st : LEng) (processed : List LEv) (requests : List Req) (e : LEv)
    (ht : ∀ i c, Engine.orderState st.core i c ≠ none →
      respCount i c (accountOf processed) < reqCount i c requests)
    (hflow : ∀ i c, respCount i c (accountOf processed) + respCount i c (accountOf [e]) ≤ reqCount i c requests)
    (hfin : ∀ i sn, e = .account (.order i sn) → ∃ k, sn.state = .inactive k) :
    ∀ i c, Engine.orderState (lProcess st e).1.core i c ≠ none →
      respCount i c (accountOf (processed ++ [e])) < reqCount i c (requests ++ (lProcess st e).2) := by
  intro i c hne
  have hacc : accountOf (processed ++ [e]) = accountOf processed ++ accountOf [e] := by
    simp [accountOf, List.filterMap_append]
  rw [hacc, respCount_append, reqCount_append]
  by_cases hN : 0 < reqCount i c (lProcess st e).2
  · have := hflow i c; omega
  · -- no open request for `(i, c)` is sent during the tick
    have hsent : ∀ o, Req.opn o ∈ (lProcess st e).2 → ¬ (o.key.instrument = i ∧ o.key.cid = c) :=
      fun o ho hk => hN (reqCount_pos_of_mem i c _ o ho hk)
    have hN0 : reqCount i c (lProcess st e).2 = 0 := by omega
    rw [hN0, Nat.add_zero]
    by_cases hresp : ∃ sn, e = .account (.order i sn) ∧ sn.cid = c
    · -- the tick processes the response for `(i, c)`: afterwards it is untracked
      obtain ⟨sn, rfl, rfl⟩ := hresp
      obtain ⟨kd, hk⟩ := hfin i sn rfl
      exfalso
      apply hne
      -- `response_closes_order`, inlined (it lives in Props)
      have hs := hsent
      rw [lProcess_requests] at hs
      show Engine.orderState (Engine.process st.core _ [] _ _).1 i sn.cid = none
      apply process_keeps_none _ _ _ _ _ _ _ hs
      show Engine.orderState (Engine.applyUpdate st.core (.order i (.snapshot sn))) i sn.cid = none
      rw [orderState_applyUpdate_order]
      simp only [↓reduceIte]
      cases hst : st.core.instruments[i]? with
      | none => rfl
      | some st' =>
        simp only [Option.bind_some]
        rw [stateOf_none_iff]
        have hsn : sn = ⟨sn.cid, sn.quantity, sn.price, .inactive kd, sn.exchange⟩ := by
          cases sn; simp_all
        rw [hsn]
        exact Props.C01.untracked_on_inactive st'.orders _ _ _ kd _
    · -- some other event
      have hδ : respCount i c (accountOf [e]) = 0 := by
        rw [accountOf_single]
        cases e with
        | account a =>
          simp only
          apply respCount_single_zero
          rintro ⟨sn, ha, hc⟩; exact hresp ⟨sn, by rw [ha], hc⟩
        | _ => rfl
      rw [hδ, Nat.add_zero]
      by_cases h0 : Engine.orderState st.core i c = none
      · exfalso
        apply hne
        apply lStep_keeps_none st e i c h0 _ hsent
        intro sn he hc
        exact absurd ⟨sn, he, hc⟩ hresp
      · exact ht i c h0

end Track

/-! ## G. The exchange of the composition IS the C08 exchange run on the engine's requests -/

theorem respond_x (clk : Nat → Int) (x : LExch) (r : Req) :
    (respond clk x r).1.x = (MockExchange.step x.x (clk x.n) (wire r)).1 := by
  cases r <;> rfl

theorem respondAll_run (clk : Nat → Int) (rs : List Req) (x : LExch) :
    (respondAll (lExchange clk) x rs).1.x = MockExchange.run x.x (exchOps clk x.n rs) ∧
    (respondAll (lExchange clk) x rs).1.n = x.n + rs.length := by
  induction rs generalizing x with
  | nil => exact ⟨rfl, rfl⟩
  | cons r rs ih =>
    simp only [respondAll]
    have h := ih ((lExchange clk).respond x r).1
    have hn : ((lExchange clk).respond x r).1.n = x.n + 1 := respond_n clk x r
    have hx : ((lExchange clk).respond x r).1.x = (MockExchange.step x.x (clk x.n) (wire r)).1 :=
      respond_x clk x r
    refine ⟨?_, ?_⟩
    · rw [h.1, hn, hx]
      simp [exchOps, List.zipIdx_cons, MockExchange.run]
    · rw [h.2, hn]; simp; omega

/-! ## H. The name-level exchange (C04 / C04M) shows the engine what the index-level exchange shows -/

section NameLevel
open BarterModel.MockExchange (Cfg Instr)
open BarterModel.MockExchange.Spec
open BarterModel.MockInstruments

/-- Two accepted-order histories with the same requests (exchange times may differ). -/
def SameReqs (a b : List Ev) : Prop := a.map (·.req) = b.map (·.req)

theorem debited_same (fee : Rat) (is : List Instr) :
    ∀ (a b : List Ev), SameReqs a b → ∀ x, debited fee is a x = debited fee is b x
  | [], [], _, _ => rfl
  | e :: es, f :: fs, h, x => by
    simp only [SameReqs, List.map_cons, List.cons.injEq] at h
    simp only [debited, h.1, debited_same fee is es fs h.2 x]
  | [], _ :: _, h, _ => by simp [SameReqs] at h
  | _ :: _, [], h, _ => by simp [SameReqs] at h

theorem sameReqs_length {a b : List Ev} (h : SameReqs a b) : a.length = b.length := by
  have := congrArg List.length h; simpa using this

theorem fundsOk_same (c : Cfg) {a b : List Ev} (h : SameReqs a b) (r : MockExchange.Req) :
    fundsOk c a r = fundsOk c b r := by
  unfold fundsOk balance
  cases spends c.instruments r with
  | none => rfl
  | some x => simp only [debited_same c.fee c.instruments a b h x]

/-- What the specification prescribes for the engine to see does not depend on the time stamps. -/
def seen (r : Option (Nat × Rat × MockExchange.Trade)) :
    Option (Nat × Rat × Nat × MockExchange.Side × Rat × Rat × Rat) :=
  r.map fun x => (x.1, x.2.1, x.2.2.instr, x.2.2.side, x.2.2.price, x.2.2.qty, x.2.2.fees)

theorem respond_same (c : Cfg) {a b : List Ev} (h : SameReqs a b) (t t' : Int) (r : MockExchange.Req) :
    seen (MockExchange.Spec.respond c a ⟨t, r⟩) = seen (MockExchange.Spec.respond c b ⟨t', r⟩) := by
  unfold MockExchange.Spec.respond
  simp only [fundsOk_same c h r]
  split
  · cases hs : spends c.instruments r with
    | none => rfl
    | some x =>
      simp only [balance, debited_same c.fee c.instruments a b h x]
      cases c.init[x]? <;> simp [seen, fillOf]
  · rfl

theorem specReq_toOpen (r : OpenReq) : specReq (toOpen r) = toXReq r := rfl

/-- the C08 history of the index-level exchange after the open requests `rs` -/
def idxHistory (clk : Nat → Int) (c : Cfg) (rs : List OpenReq) : List Ev :=
  accepted c (MockExchange.opens c (exchHistory clk (rs.map Req.opn)))

theorem exchHistory_snoc (clk : Nat → Int) (rs : List Req) (r : Req) :
    exchHistory clk (rs ++ [r]) = exchHistory clk rs ++ [(clk (1 + rs.length), wire r)] := by
  simp [exchHistory, exchOps, List.zipIdx_append]

/-- The two histories — name level (C04M `specHistory`, every request stamped 0) and index level
(this composition, the `j`-th request stamped `clk j`) — accept the same requests. -/
theorem histories_same (clk : Nat → Int) (ii : Index.Indexed) (mc : MockConfig) (rs : List OpenReq) :
    SameReqs (specHistory ii mc (rs.map toOpen)) (idxHistory clk (specCfg ii mc) rs) := by
  induction rs using MockExchange.snoc_induction with
  | nil => rfl
  | snoc rs r ih =>
    have h1 : specHistory ii mc ((rs ++ [r]).map toOpen) =
        specNext ii mc (specHistory ii mc (rs.map toOpen)) (toOpen r) := by
      simp [specHistory, List.foldl_append]
    have h2 : idxHistory clk (specCfg ii mc) (rs ++ [r]) =
        MockExchange.extend (specCfg ii mc) (idxHistory clk (specCfg ii mc) rs)
          (some ⟨MockExchange.exchangeTime (specCfg ii mc) (clk (1 + (rs.map Req.opn).length)), toXReq r⟩) := by
      unfold idxHistory
      rw [List.map_append, List.map_cons, List.map_nil, exchHistory_snoc, MockExchange.opens_append]
      rfl
    rw [h1, h2]
    unfold specNext MockExchange.extend
    simp only [specObserve]
    have hiff := MockInstruments.respond_isSome_iff (specCfg ii mc) (specHistory ii mc (rs.map toOpen))
      ⟨MockExchange.exchangeTime (specCfg ii mc) 0, specReq (toOpen r)⟩
    have hf := fundsOk_same (specCfg ii mc) ih (toXReq r)
    by_cases hfo : fundsOk (specCfg ii mc) (idxHistory clk (specCfg ii mc) rs) (toXReq r) = true
    · have h1' := hiff.mpr (by rw [specReq_toOpen, hf]; exact hfo)
      simp only [h1', hfo, ↓reduceIte]
      simp only [SameReqs, List.map_cons, specReq_toOpen] at ih ⊢
      rw [ih]
    · have h1' : ¬ (MockExchange.Spec.respond (specCfg ii mc) (specHistory ii mc (rs.map toOpen))
          ⟨MockExchange.exchangeTime (specCfg ii mc) 0, specReq (toOpen r)⟩).isSome = true := by
        intro h; apply hfo; have := hiff.mp h; rw [specReq_toOpen, hf] at this; exact this
      simp only [h1', hfo]
      exact ih

theorem resolveAsset_lt (assets : List (Index.Keyed Nat Index.ExchangeAsset)) (e k : Nat) (a : Index.Asset)
    (h : Index.resolveAsset assets e k = some a) : k < assets.length := by
  unfold Index.resolveAsset at h
  cases hk : assets[k]? with
  | none => simp [hk] at h
  | some x => exact (List.getElem?_eq_some_iff.mp hk).1

/-- The engine-view configuration of builder output is well formed: every instrument's base / quote
asset index is an index of the asset table (C11: references resolve). -/
theorem specCfg_wf {defs : List Index.Def} {ii : Index.Indexed} (h : Index.build defs = some ii)
    (hwf : Index.WFAssets defs) (mc : MockConfig) : (specCfg ii mc).wf = true := by
  simp only [MockExchange.Cfg.wf, specCfg, Bool.and_eq_true, List.all_eq_true, List.mem_map,
    decide_eq_true_eq, List.length_map]
  refine ⟨?_, ?_⟩
  · rintro p ⟨a, _, rfl⟩; rfl
  · rintro u ⟨x, hx, rfl⟩
    obtain ⟨k, hk⟩ := List.mem_iff_getElem?.mp hx
    obtain ⟨d, _, _, _, _, _, _, hres⟩ := Index.build_instrument_at defs ii h k x hk
    have hr := hres hwf
    unfold Index.resolve at hr
    split at hr
    · cases hr
    · split at hr
      · cases hr
      · unfold Index.Instrument.mapAssetKeyWithLookup at hr
        split at hr
        · cases hr
        · rename_i b hb
          split at hr
          · cases hr
          · rename_i q hq
            exact ⟨resolveAsset_lt _ _ _ _ hb, resolveAsset_lt _ _ _ _ hq⟩

end NameLevel

end BarterModel.TradingLoop
