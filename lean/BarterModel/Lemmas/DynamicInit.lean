import BarterModel.Model.DynamicInit
import BarterModel.Lemmas.Subscribe
/-!
Lemmas for C13D (`Props/C13D.lean`): the arm-body table is right (kernel `decide` over the whole 42 × 6 table),
and for EVERY right table the calls `DynamicStreams::init` makes are, group by group, the subscriptions the
caller asked for.
-/
namespace BarterModel.DynamicInit
open BarterModel.Names (ExchangeId Str)
open BarterModel.Connectors (Exch)
open BarterModel.Subscribe
open BarterModel.Index (sortDedup leKey)

/-! ### the table -/

/-- one entry of the table is right (Boolean, so that the kernel decides the whole table) -/
def entryOk (e : ExchangeId) (k : SubKind) : Bool :=
  ((armBody e k).isSome == hasArm e k) &&
    match armBody e k with
    | some b =>
      decide (connId b.conn = e) && decide (b.kind = k) && decide (route k = some b.chan) && selector b.conn b.kind
    | none => true

theorem armBody_table : ∀ e ∈ ExchangeId.all, ∀ k ∈ SubKind.all, entryOk e k = true := by decide +kernel

theorem armBody_entry (e : ExchangeId) (k : SubKind) :
    (armBody e k).isSome = hasArm e k ∧
      ∀ b, armBody e k = some b →
        connId b.conn = e ∧ b.kind = k ∧ route k = some b.chan ∧ selector b.conn b.kind = true := by
  have h := armBody_table e (BarterModel.Names.mem_all e) k (SubKind.mem_all k)
  unfold entryOk at h
  have h1 := (Bool.and_eq_true _ _ ▸ h).1
  have h2 := (Bool.and_eq_true _ _ ▸ h).2
  refine ⟨by simpa using h1, fun b hb => ?_⟩
  rw [hb] at h2
  simpa [and_assoc] using h2

theorem armBody_ok : TableOk armBody :=
  ⟨fun e k => (armBody_entry e k).1, fun e k b hb => ((armBody_entry e k).2 b hb).1,
    fun e k b hb => ((armBody_entry e k).2 b hb).2.1, fun e k b hb => ((armBody_entry e k).2 b hb).2.2.1⟩

theorem connId_inj : Function.Injective connId := by
  intro a b h; cases a <;> cases b <;> first | rfl | cases h

/-! ### arms -/
section arms
variable {ι : Type} {tbl : Table} (ht : TableOk tbl)
include ht

theorem runArm_ok (g : (ExchangeId × SubKind) × List (Subscr ι))
    (harm : hasArm g.1.1 g.1.2 = true) (hne : g.2 ≠ []) : runArm tbl g = .ok (armCall tbl g) := by
  have h := ht.arm_iff g.1.1 g.1.2
  rw [harm] at h
  obtain ⟨b, hb⟩ := Option.isSome_iff_exists.mp h
  have he : g.2.isEmpty = false := by
    cases hg : g.2 with
    | nil => exact absurd hg hne
    | cons _ _ => rfl
  simp [runArm, armCall, hb, he]

theorem runArms_ok (gs : List ((ExchangeId × SubKind) × List (Subscr ι)))
    (h : ∀ g ∈ gs, hasArm g.1.1 g.1.2 = true ∧ g.2 ≠ []) :
    runArms tbl gs = (gs.map (armCall tbl), none) := by
  induction gs with
  | nil => rfl
  | cons g t ih =>
    have hg := h g (by simp)
    have ih' := ih (fun x hx => h x (List.mem_cons_of_mem _ hx))
    simp [runArms, runArm_ok ht g hg.1 hg.2, ih']

/-- a call initialises exactly the subscriptions of its group — this is where `own_id` / `own_kind` are used -/
theorem armCall_initialised (g : (ExchangeId × SubKind) × List (Subscr ι))
    (harm : hasArm g.1.1 g.1.2 = true) (hk : ∀ s ∈ g.2, s.gkey = g.1) :
    (armCall tbl g).initialised = g.2 := by
  have h := ht.arm_iff g.1.1 g.1.2
  rw [harm] at h
  obtain ⟨b, hb⟩ := Option.isSome_iff_exists.mp h
  have hid := ht.own_id _ _ b hb
  have hkind := ht.own_kind _ _ b hb
  simp only [armCall, hb, Option.getD_some, callOf, Call.initialised, Call.id, List.map_map]
  rw [hid, hkind]
  conv => rhs; rw [← List.map_id g.2]
  apply List.map_congr_left
  intro s hs
  have := hk s hs
  obtain ⟨e, i, k⟩ := s
  simp only [Subscr.gkey] at this
  simp only [Function.comp, id]
  rw [← this]

/-- … and is the connection the C13V model assumes for the group -/
theorem armCall_toConn (g : (ExchangeId × SubKind) × List (Subscr ι))
    (harm : hasArm g.1.1 g.1.2 = true) : (armCall tbl g).toConn = connOf g := by
  have h := ht.arm_iff g.1.1 g.1.2
  rw [harm] at h
  obtain ⟨b, hb⟩ := Option.isSome_iff_exists.mp h
  simp [armCall, hb, callOf, Call.toConn, Call.id, connOf, ht.own_id _ _ b hb, ht.own_kind _ _ b hb,
    ht.own_chan _ _ b hb]

end arms

/-! ### lists -/
section lists
variable {α β : Type}

theorem perm_flatMap_left (l : List α) (f g : α → List β) (h : ∀ a ∈ l, (f a).Perm (g a)) :
    (l.flatMap f).Perm (l.flatMap g) := by
  induction l with
  | nil => exact .refl _
  | cons a t ih =>
    simp only [List.flatMap_cons]
    exact (h a (by simp)).append (ih fun x hx => h x (List.mem_cons_of_mem _ hx))

variable {ι : Type} [DecidableEq ι]

theorem mem_nub (l : List (Subscr ι)) (x : Subscr ι) : x ∈ nub l ↔ x ∈ l := by
  induction l with
  | nil => simp [nub]
  | cons a t ih =>
    simp only [nub, List.mem_cons, List.mem_filter, ih, decide_eq_true_eq]
    by_cases hxa : x = a <;> simp [hxa]

theorem nodup_nub (l : List (Subscr ι)) : (nub l).Nodup := by
  induction l with
  | nil => simp [nub]
  | cons a t ih =>
    simp only [nub]
    refine List.nodup_cons.mpr ⟨by simp [List.mem_filter], ?_⟩
    exact List.Nodup.sublist List.filter_sublist ih

theorem specSet_perm_nub (ops : InstOps ι) (hl : ops.Lawful) (b : List (Subscr ι)) :
    (specSet ops b).Perm (nub b) :=
  (List.perm_ext_iff_of_nodup (BarterModel.Index.nodup_sortDedup _ (sortKey_inj ops hl) b) (nodup_nub b)).mpr
    fun x => by rw [BarterModel.Index.mem_sortDedup, mem_nub]

theorem count_flatMap_nub (batches : List (List (Subscr ι))) (s : Subscr ι) :
    (batches.flatMap nub).count s = (batches.filter fun b => decide (s ∈ b)).length := by
  induction batches with
  | nil => rfl
  | cons b t ih =>
    simp only [List.flatMap_cons, List.count_append, ih, List.filter_cons]
    rw [(nodup_nub b).count]
    by_cases h : s ∈ b
    · have h' : s ∈ nub b := (mem_nub b s).mpr h
      simp [h, h', Nat.add_comm]
    · have h' : s ∉ nub b := fun x => h ((mem_nub b s).mp x)
      simp [h, h']

end lists

/-! ### `init` -/
section init
variable {ι : Type} [DecidableEq ι] {tbl : Table} (ht : TableOk tbl) (ops : InstOps ι)
  {usort : List (Subscr ι) → List (Subscr ι)} (hu : UnstableSort usort)
include ht hu

omit ht in
/-- the groups of validated batches reach an arm, are not empty and carry their key -/
theorem groups_good (batches : List (List (Subscr ι))) (hv : ∀ b ∈ batches, ∀ s ∈ b, s.valid ops = true) :
    ∀ g ∈ (batches.map (specSet ops)).flatMap (groups usort),
      hasArm g.1.1 g.1.2 = true ∧ g.2 ≠ [] ∧ ∀ s ∈ g.2, s.gkey = g.1 := by
  intro g hg
  obtain ⟨b', hb', hg'⟩ := List.mem_flatMap.mp hg
  obtain ⟨b, hb, rfl⟩ := List.mem_map.mp hb'
  have ⟨hne, hg2⟩ := groups_wf hu (specSet ops b) g hg'
  obtain ⟨s, hs⟩ := List.exists_mem_of_ne_nil _ hne
  have ⟨hk, hsb⟩ := hg2 s hs
  have hval := hv b hb s ((mem_specSet ops b s).mp hsb)
  have harm := (valid_arm_route ops s hval).1
  have he : s.exchange = g.1.1 := by rw [← hk]; rfl
  have hkk : s.kind = g.1.2 := by rw [← hk]; rfl
  rw [he, hkk] at harm
  exact ⟨harm, hne, fun x hx => (hg2 x hx).1⟩

omit ht hu in
theorem init_rejected (s : Subscr ι) (batches : List (List (Subscr ι)))
    (h : validateBatches ops batches = .error s) : init tbl ops usort batches = ⟨[], .error (.validation s)⟩ := by
  simp [init, h]

/-- On accepted batches: one call per group of every validated batch, in order; the outcome is `network` as soon
as there is a call. -/
theorem init_accepted (batches : List (List (Subscr ι))) (hv : ∀ b ∈ batches, ∀ s ∈ b, s.valid ops = true) :
    ∃ chans, channels (batches.map (specSet ops)) = .ok chans ∧
      init tbl ops usort batches =
        ⟨((batches.map (specSet ops)).flatMap (groups usort)).map (armCall tbl),
          if ((batches.map (specSet ops)).flatMap (groups usort)).isEmpty then .ok chans else .network⟩ := by
  obtain ⟨chans, hch, _, _, _⟩ := init_ok ops hu batches hv
  have hvs := (validateBatches_ok_iff ops batches _).mpr ⟨hv, rfl⟩
  have hgood := groups_good ops hu batches hv
  refine ⟨chans, hch, ?_⟩
  unfold init
  rw [hvs]
  simp only
  rw [show channels (batches.map (specSet ops)) = .ok chans from hch]
  simp only
  rw [runArms_ok ht _ (fun g hg => ⟨(hgood g hg).1, (hgood g hg).2.1⟩)]
  cases (batches.map (specSet ops)).flatMap (groups usort) with
  | nil => rfl
  | cons g t => rfl

omit [DecidableEq ι] hu in
theorem initialised_of_groups (gs : List ((ExchangeId × SubKind) × List (Subscr ι)))
    (h : ∀ g ∈ gs, hasArm g.1.1 g.1.2 = true ∧ ∀ s ∈ g.2, s.gkey = g.1) :
    (gs.map (armCall tbl)).flatMap Call.initialised = gs.flatMap (·.2) := by
  induction gs with
  | nil => rfl
  | cons g t ih =>
    have hg := h g (by simp)
    simp only [List.map_cons, List.flatMap_cons, armCall_initialised ht g hg.1 hg.2,
      ih (fun x hx => h x (List.mem_cons_of_mem _ hx))]

omit ht in
theorem groups_flatten_perm_nub (hl : ops.Lawful) (batches : List (List (Subscr ι))) :
    (((batches.map (specSet ops)).flatMap (groups usort)).flatMap (·.2)).Perm (batches.flatMap nub) := by
  induction batches with
  | nil => exact .refl _
  | cons b t ih =>
    simp only [List.map_cons, List.flatMap_cons, List.flatMap_append]
    exact ((groups_flatten_perm hu (specSet ops b)).trans (specSet_perm_nub ops hl b)).append ih

theorem initialised_accepted (hl : ops.Lawful) (batches : List (List (Subscr ι)))
    (hv : ∀ b ∈ batches, ∀ s ∈ b, s.valid ops = true) :
    (init tbl ops usort batches).initialised.Perm (batches.flatMap nub) := by
  obtain ⟨chans, _, hinit⟩ := init_accepted ht ops hu batches hv
  have hgood := groups_good ops hu batches hv
  rw [hinit]
  show ((((batches.map (specSet ops)).flatMap (groups usort)).map (armCall tbl)).flatMap Call.initialised).Perm _
  rw [initialised_of_groups ht _ (fun g hg => ⟨(hgood g hg).1, (hgood g hg).2.2⟩)]
  exact groups_flatten_perm_nub ops hu hl batches

end init

end BarterModel.DynamicInit
