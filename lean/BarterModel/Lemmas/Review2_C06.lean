import BarterModel.Lemmas.BinanceL2
/-!
Lemmas added after the independent review of C06 (`audit/REVIEW-notes.md`, section C06); used by the
theorems at the end of `Props/C06.lean` (`book_is_truth'`, `no_false_alarm_conn`, …).
-/
namespace BarterModel.BinanceL2
open BarterModel.Book

/-! ## review C06-4: genuineness is needed of the admitted (a fortiori: of the non-stale) messages only -/

/-- the step lemma with the weaker hypothesis: a message the sequencer drops as stale may be
anything (reviewer's `synced_step'`, `audit/scratch/g2/C06a.lean`) -/
theorem synced_step' {r : Rules} {v : Venue} {l : Local} {m : Update} (hl : Synced v l)
    (hg : ¬ Stale r l.sequencer.lastUpdateId m → IsGenuine r v m) : Synced v (l.step r m).1 := by
  rcases local_step_cases r l m with ⟨_, hv⟩ | ⟨hs, he, hv⟩ | ⟨_, _, hv⟩
  · rw [hv]; exact hl
  · rw [hv]; exact synced_admit hl (hg hs) hs he
  · rw [hv]; exact hl

/-- … and in fact only a message that is *admitted* (not stale and extending the chain) has to be
genuine: the other two kinds leave the book alone -/
theorem synced_step_admitted {r : Rules} {v : Venue} {l : Local} {m : Update} (hl : Synced v l)
    (hg : ¬ Stale r l.sequencer.lastUpdateId m →
      Extends r (l.sequencer.updatesProcessed == 0) l.sequencer.lastUpdateId m → IsGenuine r v m) :
    Synced v (l.step r m).1 := by
  rcases local_step_cases r l m with ⟨_, hv⟩ | ⟨hs, he, hv⟩ | ⟨_, _, hv⟩
  · rw [hv]; exact hl
  · rw [hv]; exact synced_admit hl (hg hs he) hs he
  · rw [hv]; exact hl

/-- the run version. The hypothesis speaks about every position of the delivery: if the messages
before it (`pre`) were processed without error, and the message at the position is, in the state
reached then, neither stale nor breaking the chain, then it is genuine. -/
theorem synced_run_admitted {r : Rules} {v : Venue} {l : Local} {ms : List Update} (hl : Synced v l)
    (hg : ∀ pre m post, ms = pre ++ m :: post → (Local.run r l pre).2 = none →
      ¬ Stale r (Local.run r l pre).1.sequencer.lastUpdateId m →
      Extends r ((Local.run r l pre).1.sequencer.updatesProcessed == 0)
        (Local.run r l pre).1.sequencer.lastUpdateId m → IsGenuine r v m) :
    Synced v (Local.run r l ms).1 := by
  induction ms generalizing l with
  | nil => exact hl
  | cons m ms ih =>
    rw [local_run_cons]
    rcases local_step_cases r l m with ⟨_, hv⟩ | ⟨hs, he, hv⟩ | ⟨_, _, hv⟩
    · rw [hv]
      refine ih hl ?_
      intro pre x post hsplit
      have hrun : Local.run r l (m :: pre) = Local.run r l pre := by rw [local_run_cons, hv]
      have := hg (m :: pre) x post (by rw [hsplit]; rfl)
      rw [hrun] at this; exact this
    · rw [hv]
      refine ih (synced_admit hl (hg [] m ms rfl rfl hs he) hs he) ?_
      intro pre x post hsplit
      have hrun : Local.run r l (m :: pre) =
          Local.run r ⟨l.sequencer.advance r m, l.book.update m.toEvent⟩ pre := by
        rw [local_run_cons, hv]
      have := hg (m :: pre) x post (by rw [hsplit]; rfl)
      rw [hrun] at this; exact this
    · rw [hv]; exact hl

/-- the form asked for by the review: every message that is not dropped as stale is genuine -/
theorem synced_run' {r : Rules} {v : Venue} {l : Local} {ms : List Update} (hl : Synced v l)
    (hg : ∀ pre m post, ms = pre ++ m :: post → (Local.run r l pre).2 = none →
      ¬ Stale r (Local.run r l pre).1.sequencer.lastUpdateId m → IsGenuine r v m) :
    Synced v (Local.run r l ms).1 :=
  synced_run_admitted hl (fun pre m post h1 h2 h3 _ => hg pre m post h1 h2 h3)

/-! ## review C06-2: one instrument's sequencer, seen from the connection -/

/-- `Local.step` is `validate_sequence` on the sequencer component -/
theorem local_step_validate (r : Rules) (l : Local) (m : Update) :
    (l.step r m).1.sequencer = (l.sequencer.validateSequence r m).1 ∧
    (l.step r m).2 = (l.sequencer.validateSequence r m).2 := by
  rcases validate_cases r l.sequencer m with ⟨_, hv⟩ | ⟨_, _, hv⟩ | ⟨_, _, hv⟩ <;>
    simp [Local.step, hv]

/-- a delivery that `Local.run` processes without error makes the bare sequencer (`Sequencer.run`,
which would continue past errors) produce no error either, and both end in the same state -/
theorem seq_run_of_local_run {r : Rules} {l : Local} {ms : List Update}
    (h : (Local.run r l ms).2 = none) :
    (∀ e, Validated.error e ∉ (Sequencer.run r l.sequencer ms).2) ∧
    (Sequencer.run r l.sequencer ms).1 = (Local.run r l ms).1.sequencer := by
  induction ms generalizing l with
  | nil => simp [run_nil, local_run_nil]
  | cons m ms ih =>
    rw [local_run_cons] at h ⊢
    rw [run_cons]
    rcases local_step_cases r l m with ⟨hs, hv⟩ | ⟨hs, he, hv⟩ | ⟨_, _, hv⟩
    · rw [hv] at h ⊢
      rw [validate_stale hs]
      have := ih h
      exact ⟨fun e => by simpa using this.1 e, this.2⟩
    · rw [hv] at h ⊢
      rw [validate_extends hs he]
      have := ih h
      exact ⟨fun e => by simpa using this.1 e, this.2⟩
    · rw [hv] at h; simp at h

/-- **no false alarm, sequencer level**: strictly older messages followed by a gap-free genuine
run covering the snapshot point: the sequencer reports no error, has counted the run and stands at
its last id -/
theorem seq_run_no_false_alarm {r : Rules} {v : Venue} {sq : Sequencer} {c0 : Nat}
    {old run : List Update} (hup : sq.updatesProcessed = 0)
    (hold : ∀ m ∈ old, Stale r sq.lastUpdateId m) (hrun : GenuineRun r v c0 run)
    (hcov : Covers r v sq.lastUpdateId c0 run) :
    (∀ e, Validated.error e ∉ (Sequencer.run r sq (old ++ run)).2) ∧
    (Sequencer.run r sq (old ++ run)).1.updatesProcessed = run.length ∧
    (Sequencer.run r sq (old ++ run)).1.lastUpdateId =
      ((run.getLast?.map (·.lastUpdateId)).getD sq.lastUpdateId) := by
  let l : Local := ⟨sq, default⟩
  have h1 : Local.run r l (old ++ run) = (Local.admitAll r l run, none) := by
    rw [run_stale_prefix old run hold]
    exact run_covering (l := l) hup hcov hrun
  have h2 := seq_run_of_local_run (r := r) (l := l) (ms := old ++ run) (by rw [h1])
  have h3 := admitAll_state r l run
  rw [h1] at h2
  refine ⟨h2.1, ?_, ?_⟩
  · rw [h2.2, h3.1]; simp [l, hup]
  · rw [h2.2, h3.2]

/-- the last id a sequencer reports never decreases, whatever it is fed -/
theorem seq_run_last_mono (r : Rules) (sq : Sequencer) (ms : List Update) :
    sq.lastUpdateId ≤ (Sequencer.run r sq ms).1.lastUpdateId := by
  induction ms generalizing sq with
  | nil => simp [run_nil]
  | cons m ms ih =>
    rw [run_cons]
    rcases validate_cases r sq m with ⟨_, hv⟩ | ⟨hs, _, hv⟩ | ⟨_, _, hv⟩
    · rw [hv]; exact ih sq
    · rw [hv]
      refine Nat.le_trans ?_ (ih _)
      cases r <;> simp_all [Stale, Sequencer.advance] <;> omega
    · rw [hv]; exact ih sq

/-- stale stays stale when the last id grows -/
theorem stale_mono {r : Rules} {a b : Nat} {m : Update} (hab : a ≤ b) (h : Stale r a m) :
    Stale r b m := by
  cases r <;> simp_all [Stale] <;> omega

/-! ### projection of the transformer on one subscription -/

theorem filter_sub_cons_eq (m : Update) (ms : List Update) :
    (m :: ms).filter (fun x => x.sub == m.sub) = m :: ms.filter (fun x => x.sub == m.sub) := by
  simp

theorem filter_sub_cons_ne {a : Nat} (m : Update) (ms : List Update) (h : a ≠ m.sub) :
    (m :: ms).filter (fun x => x.sub == a) = ms.filter (fun x => x.sub == a) := by
  have : (m.sub == a) = false := by simpa using fun h' => h h'.symm
  simp [this]

/-- what `transform` does to the map entry of the message's own subscription -/
theorem transform_own {r : Rules} {t : Transformer} {m : Update} {im : Meta}
    (h : t.instrumentMap.lookup m.sub = some im) :
    (t.transform r m).1.instrumentMap.lookup m.sub =
      some { im with sequencer := (im.sequencer.validateSequence r m).1 } := by
  rcases transform_known (r := r) h with ⟨hs, hv⟩ | ⟨hs, he, hv⟩ | ⟨hs, he, hv⟩
  · rw [hv, validate_stale hs]; simp [lookup_setSequencer, h]
  · rw [hv, validate_extends hs he]; simp [lookup_setSequencer, h]
  · rw [hv, validate_breaks hs he]; simp [lookup_setSequencer, h]

/-- `transform` never adds or removes a subscription -/
theorem transform_lookup_none (r : Rules) (t : Transformer) (m : Update) (a : Nat) :
    (t.transform r m).1.instrumentMap.lookup a = none ↔ t.instrumentMap.lookup a = none := by
  by_cases ha : a = m.sub
  · subst ha
    cases h : t.instrumentMap.lookup m.sub with
    | none => rw [transform_unknown h]; simp [h]
    | some im => rw [transform_own h]; simp
  · rw [transform_other r t m a ha]

/-- … nor does a whole delivery -/
theorem transformer_run_lookup_none {r : Rules} {t : Transformer} {ms : List Update} {a : Nat}
    (h : t.instrumentMap.lookup a = none) :
    (Transformer.run r t ms).1.instrumentMap.lookup a = none := by
  induction ms generalizing t with
  | nil => simpa [Transformer.run] using h
  | cons m ms ih =>
    rw [transformer_run_cons]
    exact ih ((transform_lookup_none r t m a).mpr h)

/-- **projection**: after any interleaved delivery, the map entry of subscription `a` holds the
same key and the sequencer obtained by feeding `a`'s own messages (in their order) to `a`'s
initial sequencer — messages of other subscriptions are invisible to it -/
theorem transformer_run_lookup {r : Rules} {t : Transformer} {ms : List Update} {a : Nat} {im : Meta}
    (h : t.instrumentMap.lookup a = some im) :
    (Transformer.run r t ms).1.instrumentMap.lookup a =
      some { im with sequencer :=
        (Sequencer.run r im.sequencer (ms.filter (fun x => x.sub == a))).1 } := by
  induction ms generalizing t im with
  | nil => simpa [Transformer.run, run_nil] using h
  | cons m ms ih =>
    rw [transformer_run_cons]
    by_cases ha : a = m.sub
    · subst ha
      rw [filter_sub_cons_eq, run_cons]
      exact ih (transform_own h)
    · rw [filter_sub_cons_ne m ms ha]
      exact ih (by rw [transform_other r t m a ha]; exact h)

/-- if no subscribed instrument's own sub-sequence makes its sequencer report an error, the only
errors in the transformer's output are the non-terminal `Unidentifiable` ones answering messages
for subscription ids that are not in the map -/
theorem transformer_run_errors {r : Rules} {t : Transformer} {ms : List Update}
    (h : ∀ a im, t.instrumentMap.lookup a = some im →
      ∀ e, Validated.error e ∉ (Sequencer.run r im.sequencer (ms.filter (fun x => x.sub == a))).2) :
    ∀ e, Out.error e ∈ (Transformer.run r t ms).2 →
      ∃ m ∈ ms, t.instrumentMap.lookup m.sub = none ∧ e = .unidentifiable m.sub := by
  induction ms generalizing t with
  | nil => intro e he; simp [Transformer.run] at he
  | cons m ms ih =>
    intro e he
    rw [transformer_run_cons, List.mem_append] at he
    have htail : ∀ a im, (t.transform r m).1.instrumentMap.lookup a = some im →
        ∀ e, Validated.error e ∉ (Sequencer.run r im.sequencer (ms.filter (fun x => x.sub == a))).2 := by
      intro a im' hl e'
      by_cases ha : a = m.sub
      · subst ha
        cases hm : t.instrumentMap.lookup m.sub with
        | none => rw [(transform_lookup_none r t m m.sub).mpr hm] at hl; simp at hl
        | some im =>
          rw [transform_own hm] at hl
          simp only [Option.some.injEq] at hl
          subst hl
          have := h m.sub im hm e'
          rw [filter_sub_cons_eq, run_cons] at this
          simp only [List.mem_cons, not_or] at this
          exact this.2
      · rw [transform_other r t m a ha] at hl
        have := h a im' hl e'
        rwa [filter_sub_cons_ne m ms ha] at this
    rcases he with he | he
    · cases hm : t.instrumentMap.lookup m.sub with
      | none =>
        rw [transform_unknown hm] at he
        simp only [List.mem_cons, Out.error.injEq, List.not_mem_nil, or_false] at he
        exact ⟨m, by simp, hm, he⟩
      | some im =>
        exfalso
        have hno := h m.sub im hm
        rw [filter_sub_cons_eq, run_cons] at hno
        rcases transform_known (r := r) hm with ⟨_, hv⟩ | ⟨_, _, hv⟩ | ⟨hs, hb, hv⟩
        · rw [hv] at he; simp at he
        · rw [hv] at he; simp at he
        · rw [validate_breaks hs hb] at hno
          exact hno (.invalidSequence im.sequencer.lastUpdateId m.firstUpdateId) (by simp)
    · obtain ⟨x, hx, hnone, hex⟩ := ih htail e he
      exact ⟨x, by simp [hx], (transform_lookup_none r t m x.sub).mp hnone, hex⟩

/-- a terminated output list contains a terminal error -/
theorem terminated_has_terminal {outs : List Out} (h : terminated outs = true) :
    ∃ e, Out.error e ∈ outs ∧ e.isTerminal = true := by
  induction outs with
  | nil => simp [terminated] at h
  | cons o os ih =>
    cases o with
    | event k ev =>
      obtain ⟨e, he, ht⟩ := ih (by simpa [terminated] using h)
      exact ⟨e, by simp [he], ht⟩
    | error e' =>
      simp only [terminated, Bool.or_eq_true] at h
      rcases h with h | h
      · exact ⟨e', by simp, h⟩
      · obtain ⟨e, he, ht⟩ := ih h
        exact ⟨e, by simp [he], ht⟩

/-- while the connection lives, its transformer is the transformer run over what was delivered -/
theorem conn_run_transformer {r : Rules} {c : Conn} {ms : List Update}
    (h : (c.run r ms).alive = true) :
    (c.run r ms).transformer = (Transformer.run r c.transformer ms).1 := by
  induction ms generalizing c with
  | nil => rfl
  | cons m ms ih =>
    have hc : c.alive = true := by
      cases hc : c.alive with
      | true => rfl
      | false => rw [conn_run_dead r c _ hc] at h; rw [hc] at h; exact h
    simp only [Conn.run, List.foldl_cons] at h ⊢
    rw [transformer_run_cons]
    have hstep : (c.step r m).transformer = (c.transformer.transform r m).1 := by
      simp [Conn.step, hc]
    have := ih (c := c.step r m) h
    simp only [Conn.run] at this
    rw [this, hstep]

/-- a connection alive after a delivery was alive after every prefix of it -/
theorem conn_run_alive_prefix {r : Rules} {c : Conn} {pre rest : List Update}
    (h : (c.run r (pre ++ rest)).alive = true) : (c.run r pre).alive = true := by
  cases hp : (c.run r pre).alive with
  | true => rfl
  | false =>
    have : c.run r (pre ++ rest) = (c.run r pre).run r rest := by simp [Conn.run, List.foldl_append]
    rw [this, conn_run_dead r _ rest hp, hp] at h; exact h

/-! ### the connection invariant needs genuineness of non-stale messages only (review C06-4) -/

/-- `connSynced_step` with the weaker hypothesis (same proof; the genuineness is used in the
admitted branch only, where the message is not stale) -/
theorem connSynced_step' {r : Rules} {venues : Nat → Venue} {c : Conn} {m : Update}
    (hc : ConnSynced venues c)
    (hg : ∀ im, c.transformer.instrumentMap.lookup m.sub = some im →
      ¬ Stale r im.sequencer.lastUpdateId m → IsGenuine r (venues m.sub) m) :
    ConnSynced venues (c.step r m) := by
  cases halive : c.alive with
  | false => rw [conn_step_dead m halive]; exact hc
  | true =>
    rcases conn_step_cases r c m halive with ⟨_, hv⟩ | ⟨im, hl, hcase⟩
    · rw [hv]; exact hc
    · have hlook : ∀ sq a, (setSequencer c.transformer.instrumentMap m.sub sq).lookup a =
          if a = m.sub then some { im with sequencer := sq } else c.transformer.instrumentMap.lookup a := by
        intro sq a
        rw [lookup_setSequencer]
        by_cases ha : a = m.sub
        · simp [ha, hl]
        · simp [ha]
      have hinj : ∀ sq, ∀ a a' x x', (setSequencer c.transformer.instrumentMap m.sub sq).lookup a = some x →
          (setSequencer c.transformer.instrumentMap m.sub sq).lookup a' = some x' → x.key = x'.key → a = a' := by
        intro sq a a' x x' h1 h2 hk
        rw [hlook] at h1 h2
        by_cases ha : a = m.sub <;> by_cases ha' : a' = m.sub
        · rw [ha, ha']
        · simp only [ha, ↓reduceIte, Option.some.injEq, ha'] at h1 h2
          subst h1; subst ha
          exact hc.keysInj _ _ _ _ hl h2 hk
        · simp only [ha, ↓reduceIte, Option.some.injEq, ha'] at h1 h2
          subst h2; subst ha'
          exact hc.keysInj _ _ _ _ h1 hl hk
        · simp only [ha, ↓reduceIte, ha'] at h1 h2
          exact hc.keysInj _ _ _ _ h1 h2 hk
      -- a step that writes `im`'s own sequencer back and leaves the books alone keeps the invariant
      have hsame : ConnSynced venues
          ⟨⟨setSequencer c.transformer.instrumentMap m.sub im.sequencer⟩, c.books, c.alive⟩ ∧
          ∀ al, ConnSynced venues
            ⟨⟨setSequencer c.transformer.instrumentMap m.sub im.sequencer⟩, c.books, al⟩ := by
        have key : ∀ al, ConnSynced venues
            ⟨⟨setSequencer c.transformer.instrumentMap m.sub im.sequencer⟩, c.books, al⟩ := by
          intro al
          refine ⟨hinj _, ?_⟩
          intro a x hx
          simp only at hx
          rw [hlook] at hx
          by_cases ha : a = m.sub
          · simp only [ha, ↓reduceIte, Option.some.injEq] at hx
            subst hx; rw [ha]; exact hc.synced _ _ hl
          · simp only [ha, ↓reduceIte] at hx; exact hc.synced _ _ hx
        exact ⟨key _, key⟩
      rcases hcase with ⟨_, hv⟩ | ⟨hs, he, hv⟩ | ⟨_, _, hv⟩
      · rw [hv]; exact hsame.2 true
      · rw [hv]
        refine ⟨hinj _, ?_⟩
        intro a x hx
        simp only at hx ⊢
        rw [hlook] at hx
        by_cases ha : a = m.sub
        · simp only [ha, ↓reduceIte, Option.some.injEq] at hx
          subst hx
          obtain ⟨b, hb, hsync⟩ := hc.synced _ _ hl
          refine ⟨b.update m.toEvent, ?_, ?_⟩
          · rw [lookup_managerStep]; simp [hb]
          · rw [ha]; exact synced_admit (l := ⟨im.sequencer, b⟩) hsync (hg im hl hs) hs he
        · simp only [ha, ↓reduceIte] at hx
          obtain ⟨b, hb, hsync⟩ := hc.synced _ _ hx
          have hk : x.key ≠ im.key := fun hk => ha (hc.keysInj _ _ _ _ hx hl hk)
          exact ⟨b, by rw [lookup_managerStep]; simp [hk, hb], hsync⟩
      · rw [hv]; exact hsame.2 false

/-- the run version: at every position of the delivery, a message for a subscribed instrument
that is not stale for that instrument's sequencer *as it stands then* is genuine -/
theorem connSynced_run' {r : Rules} {venues : Nat → Venue} {c : Conn} {ms : List Update}
    (hc : ConnSynced venues c)
    (hg : ∀ pre m post, ms = pre ++ m :: post →
      ∀ im, (c.run r pre).transformer.instrumentMap.lookup m.sub = some im →
      ¬ Stale r im.sequencer.lastUpdateId m → IsGenuine r (venues m.sub) m) :
    ConnSynced venues (c.run r ms) := by
  induction ms generalizing c with
  | nil => exact hc
  | cons m ms ih =>
    simp only [Conn.run, List.foldl_cons]
    refine ih (connSynced_step' hc (hg [] m ms rfl)) ?_
    intro pre x post hsplit
    have := hg (m :: pre) x post (by rw [hsplit]; rfl)
    simpa [Conn.run] using this

end BarterModel.BinanceL2
