import BarterModel.Model.L2Pipeline
import BarterModel.Props.C12W
import BarterModel.Props.C06
import BarterModel.Props.C12
import BarterModel.Props.C05
import BarterModel.Props.C05M
/-!
Lemmas for C06E (end-to-end Binance L2 pipeline). Every layer contributes what its own theorem
says: `Props.C12W.outputs_complete` (ExchangeStream), `Props.C12.errors_to_handler` (reconnecting
stream), `Props.C06.stream_view` / `connection_book_is_truth` (sequencing), `Props.C05.
manager_applies_per_instrument` (manager).
-/
namespace BarterModel.L2Pipeline
open BarterModel.Book BarterModel.BinanceL2 BarterModel.ExStream

/-! ## A. one connection: the polled stream hands out `connItems` -/

theorem messages_map_item {μ : Type} (l : List μ) : messages (l.map Inner.item) = l := by
  induction l with
  | nil => rfl
  | cons x xs ih => simp [messages, ih]

/-- the stream `MarketStream::init` builds owes exactly `connItems` -/
theorem init_future (cfg : Config) (c : ConnInput) (s : WsStream) (h : marketStreamInit cfg c = .ok s) :
    connItems cfg c = some (future cfg.params s) := by
  unfold marketStreamInit at h
  unfold connItems
  cases hi : Transformer.init cfg.instrumentMap c.snapshots with
  | error e => simp [hi] at h
  | ok t =>
    simp only [hi, processBuffered_eq] at h ⊢
    injection h with h
    subst h
    simp [future, St.new, messages_map_item, List.append_assoc]

theorem init_error (cfg : Config) (c : ConnInput) (e : InitError) (h : marketStreamInit cfg c = .error e) :
    connItems cfg c = none := by
  unfold marketStreamInit at h
  unfold connItems
  cases hi : Transformer.init cfg.instrumentMap c.snapshots with
  | error e => rfl
  | ok t => simp [hi] at h

/-- with enough polls a connection is, for the reconnecting stream, `connItems` -/
theorem connOut_eq (cfg : Config) (fuel : Nat) (c : ConnInput) (hf : connFuel cfg c ≤ fuel) :
    connOut cfg fuel c =
      match connItems cfg c with
      | none => .fail
      | some items => .ok items (!c.ended) := by
  unfold connOut connFuel at *
  cases hs : marketStreamInit cfg c with
  | error e => simp [init_error cfg c e hs]
  | ok s =>
    simp only [hs] at hf
    rw [init_future cfg c s hs]
    simp only
    rw [Props.C12W.outputs_complete cfg.params s fuel hf]
    rfl

theorem foldl_max_ge (cfg : Config) (conns : List ConnInput) (n : Nat) :
    n ≤ conns.foldl (fun n c => max n (connFuel cfg c)) n ∧
    ∀ c ∈ conns, connFuel cfg c ≤ conns.foldl (fun n c => max n (connFuel cfg c)) n := by
  induction conns generalizing n with
  | nil => simp
  | cons c cs ih =>
    simp only [List.foldl_cons, List.mem_cons, forall_eq_or_imp]
    have h := ih (max n (connFuel cfg c))
    refine ⟨by omega, by omega, h.2⟩

theorem enoughFuel_spec (cfg : Config) (conns : List ConnInput) :
    ∀ c ∈ conns, connFuel cfg c ≤ enoughFuel cfg conns := (foldl_max_ge cfg conns 0).2

/-! ## B. labelling for the C12 model and reading the labels back -/

/-- the stream at the level of connection outcomes -/
def outsStream : List ConnOut → List StreamEvent
  | [] => []
  | .fail :: cs => outsStream cs
  | .ok items hang :: cs =>
    itemEvents (deliveredItems items) ++
      if hasTerminalItem items || !hang then .reconnecting :: outsStream cs else []

def outsHandled : List ConnOut → List PipeError
  | [] => []
  | .fail :: cs => outsHandled cs
  | .ok items hang :: cs =>
    itemErrors (deliveredItems items) ++
      if hasTerminalItem items || !hang then outsHandled cs else []

theorem getElem?_mid {α : Type} (pre : List α) (x : α) (post : List α) :
    (pre ++ x :: post)[pre.length]? = some x := by
  simp

/-- reading back the delivered part of one labelled connection gives its delivered events -/
theorem decode_connItems (pre items post : List Item) :
    (Streams.okEvents (Streams.connItems (label pre.length items))).filterMap
        (decodeEvent (pre ++ items ++ post)) = itemEvents (deliveredItems items) := by
  induction items generalizing pre with
  | nil => rfl
  | cons x r ih =>
    have hidx : (pre ++ x :: r ++ post)[pre.length]? = some x := by
      rw [List.append_assoc]; exact getElem?_mid pre x (r ++ post)
    have hih := ih (pre ++ [x])
    have hlen : (pre ++ [x]).length = pre.length + 1 := by simp
    have hcat : pre ++ [x] ++ r ++ post = pre ++ x :: r ++ post := by simp
    rw [hlen, hcat] at hih
    cases x with
    | ok kev =>
      obtain ⟨k, ev⟩ := kev
      simp only [label, Streams.connItems, Streams.okEvents, List.filterMap_cons, decodeEvent, hidx,
        deliveredItems, Item.isTerminal]
      simp only [Bool.false_eq_true, ↓reduceIte, itemEvents]
      rw [hih]
    | error e =>
      cases ht : e.isTerminal with
      | true => simp [label, Streams.connItems, Streams.okEvents, deliveredItems, Item.isTerminal, ht, itemEvents]
      | false =>
        simp only [label, ht, Streams.connItems, Streams.okEvents, deliveredItems, Item.isTerminal,
          Bool.false_eq_true, ↓reduceIte, itemEvents]
        exact hih

theorem decode_connErrors (pre items post : List Item) :
    (Streams.errorIds (Streams.connItems (label pre.length items))).filterMap
        (decodeHandled (pre ++ items ++ post)) = itemErrors (deliveredItems items) := by
  induction items generalizing pre with
  | nil => rfl
  | cons x r ih =>
    have hidx : (pre ++ x :: r ++ post)[pre.length]? = some x := by
      rw [List.append_assoc]; exact getElem?_mid pre x (r ++ post)
    have hih := ih (pre ++ [x])
    have hlen : (pre ++ [x]).length = pre.length + 1 := by simp
    have hcat : pre ++ [x] ++ r ++ post = pre ++ x :: r ++ post := by simp
    rw [hlen, hcat] at hih
    cases x with
    | ok kev =>
      simp only [label, Streams.connItems, Streams.errorIds, deliveredItems, Item.isTerminal,
        Bool.false_eq_true, ↓reduceIte, itemErrors]
      exact hih
    | error e =>
      cases ht : e.isTerminal with
      | true => simp [label, Streams.connItems, Streams.errorIds, deliveredItems, Item.isTerminal, ht, itemErrors]
      | false =>
        simp only [label, ht, Streams.connItems, Streams.errorIds, List.filterMap_cons, decodeHandled, hidx,
          deliveredItems, Item.isTerminal, Bool.false_eq_true, ↓reduceIte, itemErrors]
        rw [hih]

theorem hasTerminal_label (g : Nat) (items : List Item) :
    Streams.hasTerminal (label g items) = hasTerminalItem items := by
  induction items generalizing g with
  | nil => rfl
  | cons x r ih =>
    cases x with
    | ok kev => simp [label, Streams.hasTerminal, hasTerminalItem, Item.isTerminal, ih]
    | error e =>
      cases ht : e.isTerminal <;> simp [label, Streams.hasTerminal, hasTerminalItem, Item.isTerminal, ht, ih]

theorem notices_no_handled (l : List (Streams.Event Streams.Res)) :
    Streams.errorIds (.reconnecting :: l) = Streams.errorIds l := rfl

/-- the C12 segments of the labelled script, read back, are the stream of the connection outcomes -/
theorem decode_segments (pre : List Item) (outs : List ConnOut) :
    (Streams.okEvents (Streams.segments (script pre.length outs))).filterMap
        (decodeEvent (pre ++ table outs)) = outsStream outs ∧
    (Streams.errorIds (Streams.segments (script pre.length outs))).filterMap
        (decodeHandled (pre ++ table outs)) = outsHandled outs := by
  induction outs generalizing pre with
  | nil => exact ⟨rfl, rfl⟩
  | cons o cs ih =>
    cases o with
    | fail => simpa [script, table, Streams.segments, outsStream, outsHandled] using ih pre
    | ok items hang =>
      have hih := ih (pre ++ items)
      have hlen : (pre ++ items).length = pre.length + items.length := by simp
      have hcat : pre ++ items ++ table cs = pre ++ (items ++ table cs) := by simp
      rw [hlen, hcat] at hih
      have h1 := decode_connItems pre items (table cs)
      have h2 := decode_connErrors pre items (table cs)
      rw [hcat] at h1 h2
      simp only [script, table, Streams.segments, Streams.dropped, hasTerminal_label, outsStream, outsHandled,
        Streams.okEvents_append, Streams.errorIds_append, List.filterMap_append, h1, h2]
      cases hd : (hasTerminalItem items || !hang) with
      | false => simp [Streams.okEvents, Streams.errorIds]
      | true =>
        simp [Streams.okEvents, Streams.errorIds, decodeEvent, hih.1, hih.2]

/-! ## C. the composed pipeline is its specification -/

/-- the number of polls granted to every connection suffices to drain it -/
def Enough (cfg : Config) (fuel : Nat) (conns : List ConnInput) : Prop :=
  ∀ c ∈ conns, connFuel cfg c ≤ fuel

theorem outs_eq_spec (cfg : Config) (fuel : Nat) (conns : List ConnInput) (h : Enough cfg fuel conns) :
    outsStream (conns.map (connOut cfg fuel)) = specStream cfg conns ∧
    outsHandled (conns.map (connOut cfg fuel)) = specHandled cfg conns := by
  induction conns with
  | nil => exact ⟨rfl, rfl⟩
  | cons c cs ih =>
    have hc := connOut_eq cfg fuel c (h c (by simp))
    have hcs := ih (fun x hx => h x (by simp [hx]))
    simp only [List.map_cons, hc, specStream, specHandled]
    cases hi : connItems cfg c with
    | none => simpa [outsStream, outsHandled] using hcs
    | some items =>
      simp only [outsStream, outsHandled, connOver, Bool.not_not, hcs.1, hcs.2]
      exact ⟨rfl, rfl⟩

theorem runHandler_fin_ok (p : Streams.Policy) (elems : List Streams.Elem) (hang : Bool) (rest : List Streams.Conn) :
    (Streams.runHandler p (.initOk elems hang :: rest)).fin = .pending := by
  rw [Props.C12.run_handler_refines_spec]; rfl

theorem pipeline_eq_spec (cfg : Config) (fuel : Nat) (books : Books) (conns : List ConnInput)
    (h : Enough cfg fuel conns) : pipeline cfg fuel books conns = specPipeline cfg books conns := by
  cases conns with
  | nil => rfl
  | cons c cs =>
    have hc := connOut_eq cfg fuel c (h c (by simp))
    have hspec := outs_eq_spec cfg fuel (c :: cs) h
    cases hi : connItems cfg c with
    | none =>
      rw [hi] at hc
      simp only [pipeline, specPipeline, specFin, hi, List.map_cons, hc, script, Streams.runHandler, Streams.runWith]
      simp [Streams.yields, Streams.effects, Streams.handledOf, managerRun]
    | some items =>
      rw [hi] at hc
      have hdec := decode_segments [] ((c :: cs).map (connOut cfg fuel))
      simp only [List.length_nil, List.nil_append] at hdec
      rw [hspec.1, hspec.2] at hdec
      have hscript : script 0 ((c :: cs).map (connOut cfg fuel)) =
          .initOk (label 0 items) (!c.ended) :: script (0 + items.length) (cs.map (connOut cfg fuel)) := by
        simp [List.map_cons, hc, script]
      have hyh := Props.C12.errors_to_handler cfg.policy (label 0 items) (!c.ended)
        (script (0 + items.length) (cs.map (connOut cfg fuel)))
      rw [← hscript] at hyh
      have hfin := runHandler_fin_ok cfg.policy (label 0 items) (!c.ended)
        (script (0 + items.length) (cs.map (connOut cfg fuel)))
      rw [← hscript] at hfin
      simp only [pipeline, specPipeline, specFin, hi, hyh.1, hyh.2, hdec.1, hdec.2, hfin,
        Props.C05.manager_applies_per_instrument]

/-! ## D. list algebra of delivered items -/

theorem deliveredItems_append (a b : List Item) :
    deliveredItems (a ++ b) = deliveredItems a ++ (if hasTerminalItem a then [] else deliveredItems b) := by
  induction a with
  | nil => simp [deliveredItems, hasTerminalItem]
  | cons x r ih =>
    cases hx : x.isTerminal with
    | true => simp [deliveredItems, hasTerminalItem, hx]
    | false => simp [deliveredItems, hasTerminalItem, hx, ih]

theorem hasTerminalItem_append (a b : List Item) :
    hasTerminalItem (a ++ b) = (hasTerminalItem a || hasTerminalItem b) := by
  induction a with
  | nil => simp [hasTerminalItem]
  | cons x r ih => simp [hasTerminalItem, ih, Bool.or_assoc]

theorem itemEvents_append (a b : List Item) : itemEvents (a ++ b) = itemEvents a ++ itemEvents b := by
  induction a with
  | nil => rfl
  | cons x r ih =>
    cases x with
    | ok kev => obtain ⟨k, ev⟩ := kev; simp [itemEvents, ih]
    | error e => simp [itemEvents, ih]

theorem itemErrors_append (a b : List Item) : itemErrors (a ++ b) = itemErrors a ++ itemErrors b := by
  induction a with
  | nil => rfl
  | cons x r ih =>
    cases x with
    | ok kev => simp [itemErrors, ih]
    | error e => simp [itemErrors, ih]

theorem deliveredItems_oks (l : List MarketEv) : deliveredItems (l.map Except.ok) = l.map Except.ok := by
  induction l with
  | nil => rfl
  | cons x r ih => simp [deliveredItems, Item.isTerminal, ih]

theorem hasTerminalItem_oks (l : List MarketEv) : hasTerminalItem (l.map (Except.ok : MarketEv → Item)) = false := by
  induction l with
  | nil => rfl
  | cons x r ih => simp [hasTerminalItem, Item.isTerminal, ih]

theorem itemEvents_oks (l : List MarketEv) :
    itemEvents (l.map Except.ok) = l.map (fun s => StreamEvent.item s.1 s.2) := by
  induction l with
  | nil => rfl
  | cons x r ih => obtain ⟨k, ev⟩ := x; simp [itemEvents, ih]

theorem itemErrors_oks (l : List MarketEv) : itemErrors (l.map (Except.ok : MarketEv → Item)) = [] := by
  induction l with
  | nil => rfl
  | cons x r ih => simp [itemErrors, ih]

/-- the events of C06 outputs, as the manager receives them -/
def outEvents : List Out → List StreamEvent
  | [] => []
  | .event k ev :: r => .item k ev :: outEvents r
  | .error _ :: r => outEvents r

theorem consume_eq_managerRun (books : Books) (outs : List Out) :
    consume books outs = managerRun books (outEvents outs) := by
  induction outs generalizing books with
  | nil => rfl
  | cons o r ih =>
    cases o with
    | event k ev => simpa [consume, consumeOut, managerRun, outEvents] using ih _
    | error e => simpa [consume, consumeOut, managerRun, outEvents] using ih _

/-- C06's `terminate` / `terminated` are `deliveredItems` / `hasTerminalItem` on the stream items -/
theorem view_of_outs (outs : List Out) :
    itemEvents (deliveredItems (outs.map ofOut)) = outEvents (terminate outs) ∧
    hasTerminalItem (outs.map ofOut) = terminated outs := by
  induction outs with
  | nil => exact ⟨rfl, rfl⟩
  | cons o r ih =>
    cases o with
    | event k ev =>
      simp [ofOut, deliveredItems, hasTerminalItem, Item.isTerminal, itemEvents, terminate, terminated,
        outEvents, ih.1, ih.2]
    | error e =>
      cases he : e.isTerminal with
      | true =>
        simp [ofOut, deliveredItems, hasTerminalItem, Item.isTerminal, PipeError.isTerminal, he, itemEvents,
          terminate, terminated, outEvents]
      | false =>
        simp [ofOut, deliveredItems, hasTerminalItem, Item.isTerminal, PipeError.isTerminal, he, itemEvents,
          terminate, terminated, outEvents, ih.1, ih.2]

theorem managerRun_append (books : Books) (a b : List StreamEvent) :
    managerRun books (a ++ b) = managerRun (managerRun books a) b := by
  simp [managerRun, List.foldl_append]

theorem managerRun_reconnecting (books : Books) (l : List StreamEvent) :
    managerRun books (.reconnecting :: l) = managerRun books l := rfl

theorem managerRun_snapshots (books : Books) (snaps : List MarketEv) :
    managerRun books (snaps.map fun s => StreamEvent.item s.1 s.2) = applySnapshots books snaps := by
  simp [managerRun, applySnapshots, List.foldl_map]

/-! ## E. frames act on a connection state -/

theorem frames_dead (cfg : Config) (c : Conn) (frames : List Frame) (h : c.alive = false) :
    frames.foldl (frameStep cfg) c = c := by
  induction frames with
  | nil => rfl
  | cons f r ih =>
    simp only [List.foldl_cons]
    have : frameStep cfg c f = c := by
      unfold frameStep
      split
      · exact conn_step_dead _ h
      · rfl
    rw [this]; exact ih

theorem conn_step_eq (r : Rules) (c : Conn) (m : Update) (h : c.alive = true) :
    c.step r m = ⟨(c.transformer.transform r m).1,
      consume c.books (terminate (c.transformer.transform r m).2), !terminated (c.transformer.transform r m).2⟩ := by
  simp [Conn.step, h]

/-- a live connection state run over frames: its books are the manager's books after the delivered
events of those frames, it stays alive iff no terminal error occurred, and while it is alive its
transformer is the stream's transformer -/
theorem frames_view (cfg : Config) (c : Conn) (frames : List Frame) (h : c.alive = true) :
    (frames.foldl (frameStep cfg) c).books =
      managerRun c.books (itemEvents (deliveredItems (specOut cfg.params c.transformer frames))) ∧
    (frames.foldl (frameStep cfg) c).alive = !hasTerminalItem (specOut cfg.params c.transformer frames) ∧
    ((frames.foldl (frameStep cfg) c).alive = true →
      (frames.foldl (frameStep cfg) c).transformer = specState cfg.params c.transformer frames) := by
  induction frames generalizing c with
  | nil => simp [specOut, specState, deliveredItems, itemEvents, hasTerminalItem, managerRun, h]
  | cons f r ih =>
    simp only [List.foldl_cons, specOut, specState, contribution, frameStep, Config.params]
    cases hp : ExStream.parse cfg.de f with
    | none =>
      simp only [List.nil_append]
      exact ih c h
    | some res =>
      cases res with
      | error e =>
        simp only [List.cons_append, List.nil_append, deliveredItems, hasTerminalItem, Item.isTerminal,
          PipeError.isTerminal, Bool.false_eq_true, ↓reduceIte, itemEvents, Bool.false_or]
        exact ih c h
      | ok m =>
        simp only
        rw [conn_step_eq cfg.rules c m h]
        have hv := view_of_outs (c.transformer.transform cfg.rules m).2
        cases ht : terminated (c.transformer.transform cfg.rules m).2 with
        | true =>
          rw [frames_dead cfg _ r (by simp)]
          rw [deliveredItems_append, hasTerminalItem_append, hv.2, ht]
          simp only [↓reduceIte, List.append_nil, Bool.true_or, Bool.not_true, hv.1, consume_eq_managerRun]
          simp
        | false =>
          have := ih ⟨(c.transformer.transform cfg.rules m).1,
            consume c.books (terminate (c.transformer.transform cfg.rules m).2), true⟩ rfl
          simp only [Config.params] at this
          rw [deliveredItems_append, hasTerminalItem_append, hv.2, ht, itemEvents_append, managerRun_append, hv.1,
            ← consume_eq_managerRun]
          simpa using this

theorem updatesOf_fold (cfg : Config) (c : Conn) (frames : List Frame) :
    frames.foldl (frameStep cfg) c = c.run cfg.rules (updatesOf cfg.de frames) := by
  induction frames generalizing c with
  | nil => rfl
  | cons f r ih =>
    simp only [List.foldl_cons, updatesOf, frameStep]
    cases hp : ExStream.parse cfg.de f with
    | none => simpa using ih c
    | some res =>
      cases res with
      | error e => simpa using ih c
      | ok m => simpa [Conn.run] using ih (c.step cfg.rules m)

theorem mem_updatesOf (de : De Update) (frames : List Frame) (m : Update) (h : m ∈ updatesOf de frames) :
    ∃ f ∈ frames, ExStream.parse de f = some (.ok m) := by
  induction frames with
  | nil => simp [updatesOf] at h
  | cons f r ih =>
    simp only [updatesOf] at h
    cases hp : ExStream.parse de f with
    | none =>
      rw [hp] at h
      obtain ⟨g, hg, hm⟩ := ih h
      exact ⟨g, by simp [hg], hm⟩
    | some res =>
      cases res with
      | error e =>
        rw [hp] at h
        obtain ⟨g, hg, hm⟩ := ih h
        exact ⟨g, by simp [hg], hm⟩
      | ok m' =>
        rw [hp] at h
        simp only [List.mem_cons] at h
        rcases h with h | h
        · subst h; exact ⟨f, by simp, hp⟩
        · obtain ⟨g, hg, hm⟩ := ih h
          exact ⟨g, by simp [hg], hm⟩

/-! ## F. the pipeline as a state machine over connections -/

/-- without buffered events a connection hands out its snapshots, then the frames' contributions -/
theorem connItems_noBuffered (cfg : Config) (c : ConnInput) (hb : c.buffered = []) :
    connItems cfg c =
      match Transformer.init cfg.instrumentMap c.snapshots with
      | .error _ => none
      | .ok t => some (c.snapshots.map .ok ++ specOut cfg.params t c.frames) := by
  unfold connItems
  cases Transformer.init cfg.instrumentMap c.snapshots with
  | error e => rfl
  | ok t => simp [hb, specOut, specState]

/-- what `openConn` yields, in terms of the connection's items -/
theorem openConn_view (cfg : Config) (books : Books) (c : ConnInput) (hb : c.buffered = []) :
    match connItems cfg c, openConn cfg books c with
    | none, none => True
    | some items, some st =>
      st.books = managerRun books (itemEvents (deliveredItems items)) ∧
      st.alive = !connOver items c.ended
    | _, _ => False := by
  rw [connItems_noBuffered cfg c hb]
  unfold openConn
  cases hi : Transformer.init cfg.instrumentMap c.snapshots with
  | error e => trivial
  | ok t =>
    have hv := frames_view cfg ⟨t, applySnapshots books c.snapshots, true⟩ c.frames rfl
    simp only at hv ⊢
    rw [deliveredItems_append, hasTerminalItem_oks, deliveredItems_oks, itemEvents_append, itemEvents_oks,
      managerRun_append, managerRun_snapshots]
    simp only [Bool.false_eq_true, ↓reduceIte, connOver, hasTerminalItem_append, hasTerminalItem_oks,
      Bool.false_or]
    refine ⟨hv.1, ?_⟩
    rw [hv.2.1]
    cases hasTerminalItem (specOut cfg.params t c.frames) <;> cases c.ended <;> rfl

/-- the books the specification's stream produces are those of the state machine -/
theorem runConns_books (cfg : Config) (st : Conn) (conns : List ConnInput)
    (hb : ∀ c ∈ conns, c.buffered = []) :
    managerRun st.books (specStream cfg conns) = (runConns cfg st conns).books := by
  induction conns generalizing st with
  | nil => rfl
  | cons c cs ih =>
    have hv := openConn_view cfg st.books c (hb c (by simp))
    have hcs : ∀ c ∈ cs, c.buffered = [] := fun x hx => hb x (by simp [hx])
    simp only [specStream, runConns]
    cases hi : connItems cfg c with
    | none =>
      cases ho : openConn cfg st.books c with
      | none => exact ih st hcs
      | some st' => simp [hi, ho] at hv
    | some items =>
      cases ho : openConn cfg st.books c with
      | none => simp [hi, ho] at hv
      | some st' =>
        simp only [hi, ho] at hv
        simp only [managerRun_append]
        cases hover : connOver items c.ended with
        | true =>
          have ha : st'.alive = false := by rw [hv.2, hover]; rfl
          simp only [ha, Bool.false_eq_true, ↓reduceIte, managerRun_reconnecting, ← hv.1]
          exact ih st' hcs
        | false =>
          have ha : st'.alive = true := by rw [hv.2, hover]; rfl
          simp [ha, managerRun, hv.1]

/-- when the state machine ends with no connection delivering, the last thing the consumer received
(if it received anything) is a `Reconnecting` notice -/
theorem runConns_told (cfg : Config) (st : Conn) (conns : List ConnInput)
    (hb : ∀ c ∈ conns, c.buffered = []) (hst : st.alive = false)
    (h : (runConns cfg st conns).alive = false) :
    specStream cfg conns = [] ∨ (specStream cfg conns).getLast? = some .reconnecting := by
  induction conns generalizing st with
  | nil => left; rfl
  | cons c cs ih =>
    have hv := openConn_view cfg st.books c (hb c (by simp))
    have hcs : ∀ c ∈ cs, c.buffered = [] := fun x hx => hb x (by simp [hx])
    simp only [specStream, runConns] at h ⊢
    cases hi : connItems cfg c with
    | none =>
      cases ho : openConn cfg st.books c with
      | none => simp only [ho] at h; exact ih st hcs hst h
      | some st' => simp [hi, ho] at hv
    | some items =>
      cases ho : openConn cfg st.books c with
      | none => simp [hi, ho] at hv
      | some st' =>
        simp only [hi, ho] at hv h
        cases hover : connOver items c.ended with
        | true =>
          have ha : st'.alive = false := by rw [hv.2, hover]; rfl
          simp only [ha, Bool.false_eq_true, ↓reduceIte] at h
          right
          rcases ih st' hcs ha h with h0 | h1
          · simp [h0, hover, List.getLast?_append]
          · simp [h1, hover, List.getLast?_append, List.getLast?_cons]
        | false =>
          have ha : st'.alive = true := by rw [hv.2, hover]; rfl
          simp [ha] at h

/-! ## G. `Transformer::init`, the snapshots on persisting books, and the coupling invariant -/

/-- the id the sequencer of an instrument starts from: its first initial snapshot's -/
def snapSeq (snaps : List MarketEv) (key : Nat) : Nat :=
  match firstSnapshot snaps key with
  | some b => b.sequence
  | none => 0

theorem init_go_ok (snaps : List MarketEv) (map : List (Nat × Nat)) (metas : List (Nat × Meta))
    (h : Transformer.init.go snaps map = .ok metas) :
    metas = map.map (fun x => (x.1, (⟨x.2, Sequencer.new (snapSeq snaps x.2)⟩ : Meta))) ∧
    ∀ x ∈ map, (firstSnapshot snaps x.2).isSome := by
  induction map generalizing metas with
  | nil =>
    simp only [Transformer.init.go] at h
    injection h with h
    subst h
    simp
  | cons x xs ih =>
    obtain ⟨subId, key⟩ := x
    simp only [Transformer.init.go] at h
    cases hf : snaps.find? (fun s => s.1 == key) with
    | none => simp [hf] at h
    | some se =>
      obtain ⟨k', ev⟩ := se
      cases ev with
      | update b => simp [hf] at h
      | snapshot b =>
        simp only [hf] at h
        cases hg : Transformer.init.go snaps xs with
        | error e => simp [hg] at h
        | ok ms =>
          simp only [hg] at h
          injection h with h
          subst h
          obtain ⟨h1, h2⟩ := ih ms hg
          refine ⟨?_, ?_⟩
          · simp [h1, snapSeq, firstSnapshot, hf]
          · intro y hy
            simp only [List.mem_cons] at hy
            rcases hy with hy | hy
            · subst hy; simp [firstSnapshot, hf]
            · exact h2 y hy

theorem init_ok (map : List (Nat × Nat)) (snaps : List MarketEv) (t : Transformer)
    (h : Transformer.init map snaps = .ok t) :
    t.instrumentMap = map.map (fun x => (x.1, (⟨x.2, Sequencer.new (snapSeq snaps x.2)⟩ : Meta))) ∧
    ∀ x ∈ map, (firstSnapshot snaps x.2).isSome := by
  unfold Transformer.init at h
  cases hg : Transformer.init.go snaps map with
  | error e => simp [hg] at h
  | ok ms =>
    simp only [hg] at h
    injection h with h
    subst h
    exact init_go_ok snaps map ms hg

theorem lookup_map_isSome {α β : Type} (l : List α) (f : α → Nat) (g : α → β) (a : Nat) :
    ((l.map fun x => (f x, g x)).lookup a).isSome = ((l.map fun x => (f x, ())).lookup a).isSome := by
  induction l with
  | nil => rfl
  | cons x xs ih =>
    simp only [List.map_cons, List.lookup]
    cases a == f x <;> simp [ih]

theorem lookup_pairs_isSome (l : List (Nat × Nat)) (a : Nat) :
    ((l.map fun x => (x.1, ())).lookup a).isSome = (l.lookup a).isSome := by
  induction l with
  | nil => rfl
  | cons x xs ih =>
    obtain ⟨s, k⟩ := x
    simp only [List.map_cons, List.lookup]
    cases a == s <;> simp [ih]

/-- the subscriptions of an initialised transformer are those of the instrument map -/
theorem init_subscribed (map : List (Nat × Nat)) (snaps : List MarketEv) (t : Transformer)
    (h : Transformer.init map snaps = .ok t) (a : Nat) :
    (t.instrumentMap.lookup a).isSome = (map.lookup a).isSome := by
  rw [(init_ok map snaps t h).1, lookup_map_isSome map (·.1) _ a, lookup_pairs_isSome]

/-- what the snapshots do to the book of key `k` -/
def applyFor (k : Nat) (snaps : List MarketEv) (b : OrderBook) : OrderBook :=
  snaps.foldl (fun b s => if s.1 = k then b.update s.2 else b) b

theorem applySnapshots_lookup (books : Books) (snaps : List MarketEv) (k : Nat) :
    (applySnapshots books snaps).lookup k = (books.lookup k).map (applyFor k snaps) := by
  induction snaps generalizing books with
  | nil => cases h : books.lookup k <;> simp [applySnapshots, applyFor, h]
  | cons s r ih =>
    have := ih (managerStep books (.item s.1 s.2))
    simp only [applySnapshots, List.foldl_cons] at this ⊢
    rw [this, lookup_managerStep]
    by_cases hk : k = s.1
    · subst hk
      cases books.lookup s.1 <;> simp [applyFor]
    · have hk' : ¬ s.1 = k := fun h => hk h.symm
      cases books.lookup k <;> simp [hk, hk', applyFor]

theorem applyFor_absent (k : Nat) (snaps : List MarketEv) (b : OrderBook) (h : k ∉ snaps.map (·.1)) :
    applyFor k snaps b = b := by
  induction snaps generalizing b with
  | nil => rfl
  | cons s r ih =>
    simp only [List.map_cons, List.mem_cons, not_or] at h
    have hs : ¬ s.1 = k := fun e => h.1 e.symm
    simp only [applyFor, List.foldl_cons, hs, ↓reduceIte]
    exact ih b h.2

theorem applyFor_unique (k : Nat) (snaps : List MarketEv) (b0 b : OrderBook)
    (hn : (snaps.map (·.1)).Nodup) (hm : (k, Event.snapshot b) ∈ snaps) : applyFor k snaps b0 = b := by
  induction snaps generalizing b0 with
  | nil => simp at hm
  | cons s r ih =>
    simp only [List.map_cons, List.nodup_cons] at hn
    simp only [List.mem_cons] at hm
    rcases hm with hm | hm
    · subst hm
      simp only [applyFor, List.foldl_cons, ↓reduceIte, OrderBook.update]
      exact applyFor_absent k r b hn.1
    · have hs : ¬ s.1 = k := by
        intro e
        apply hn.1
        rw [e]
        exact List.mem_map.mpr ⟨(k, Event.snapshot b), hm, rfl⟩
      simp only [applyFor, List.foldl_cons, hs, ↓reduceIte]
      exact ih b0 hn.2 hm

theorem firstSnapshot_mem (snaps : List MarketEv) (key : Nat) (b : OrderBook)
    (h : firstSnapshot snaps key = some b) : (key, Event.snapshot b) ∈ snaps := by
  unfold firstSnapshot at h
  cases hf : snaps.find? (fun s => s.1 == key) with
  | none => simp [hf] at h
  | some se =>
    obtain ⟨k', ev⟩ := se
    cases ev with
    | update u => simp [hf] at h
    | snapshot sb =>
      simp only [hf, Option.some.injEq] at h
      subst h
      have hp := List.find?_some hf
      have hk : k' = key := by simpa using hp
      subst hk
      exact List.mem_of_find?_eq_some hf

/-- every subscribed instrument has a book in the manager's map -/
def HasBooks (cfg : Config) (books : Books) : Prop :=
  ∀ x ∈ cfg.instrumentMap, (books.lookup x.2).isSome

/-- the REST snapshots of one connection are genuine: one initial event per instrument, and the
snapshot of every subscribed instrument is strictly ordered and is its venue's book at its id -/
structure SnapshotsGenuine (cfg : Config) (venues : Nat → Venue) (snaps : List MarketEv) : Prop where
  keys : (snaps.map (·.1)).Nodup
  genuine : ∀ x ∈ cfg.instrumentMap, ∀ b, firstSnapshot snaps x.2 = some b →
    SortedBook b ∧ GenuineSnapshot (venues x.1) b.sequence b

/-- a freshly initialised connection on persisting books satisfies C06's coupling invariant — whatever
the books held before -/
theorem open_synced (cfg : Config) (venues : Nat → Venue) (books : Books) (snaps : List MarketEv)
    (t : Transformer) (alive : Bool)
    (hkeys : (cfg.instrumentMap.map (·.2)).Nodup) (hbooks : HasBooks cfg books)
    (hs : SnapshotsGenuine cfg venues snaps) (hi : Transformer.init cfg.instrumentMap snaps = .ok t) :
    ConnSynced venues ⟨t, applySnapshots books snaps, alive⟩ := by
  obtain ⟨hmap, hsome⟩ := init_ok cfg.instrumentMap snaps t hi
  constructor
  · intro a a' im im' h1 h2 hk
    simp only [hmap] at h1 h2
    obtain ⟨x, hx, hxa, hxm⟩ := lookup_map_some cfg.instrumentMap (·.1) _ a im h1
    obtain ⟨y, hy, hya, hym⟩ := lookup_map_some cfg.instrumentMap (·.1) _ a' im' h2
    have hxy : x = y := eq_of_nodup_map cfg.instrumentMap (·.2) hkeys x y hx hy (by
      rw [← hxm, ← hym] at hk; exact hk)
    rw [← hxa, ← hya, hxy]
  · intro a im h1
    simp only [hmap] at h1
    obtain ⟨x, hx, hxa, hxm⟩ := lookup_map_some cfg.instrumentMap (·.1) _ a im h1
    have hfs := hsome x hx
    cases hb : firstSnapshot snaps x.2 with
    | none => simp [hb] at hfs
    | some b =>
      obtain ⟨hsorted, hgen⟩ := hs.genuine x hx b hb
      have hbk := hbooks x hx
      cases hb0 : books.lookup x.2 with
      | none => simp [hb0] at hbk
      | some b0 =>
        refine ⟨b, ?_, ?_⟩
        · rw [← hxm]
          simp only
          rw [applySnapshots_lookup, hb0]
          simp [applyFor_unique x.2 snaps b0 b hs.keys (firstSnapshot_mem snaps x.2 b hb)]
        · rw [← hxm, ← hxa]
          simp only [snapSeq, hb]
          exact ⟨hsorted, rfl, hgen.2.1, hgen.2.2⟩

theorem lookup_map_keys {β : Type} (l : List (Nat × β)) (g : Nat × β → β) (k : Nat) :
    ((l.map fun kb => (kb.1, g kb)).lookup k).isSome = (l.lookup k).isSome := by
  induction l with
  | nil => rfl
  | cons x xs ih =>
    obtain ⟨k', b⟩ := x
    simp only [List.map_cons, List.lookup]
    cases k == k' <;> simp [ih]

theorem hasBooks_managerRun (cfg : Config) (books : Books) (evs : List StreamEvent) (h : HasBooks cfg books) :
    HasBooks cfg (managerRun books evs) := by
  intro x hx
  rw [Props.C05.manager_applies_per_instrument, lookup_map_keys]
  exact h x hx

/-- the venue contract for one connection: no message was buffered before the snapshots (Binance:
`expected_responses` = 1), the snapshots are genuine, and every deserialised depth update for a
subscribed instrument is a genuine message of that instrument's venue (for *some* id range: loss,
duplication, reordering and replay are all allowed) -/
structure Contract (cfg : Config) (venues : Nat → Venue) (c : ConnInput) : Prop where
  noBuffered : c.buffered = []
  snapshots : SnapshotsGenuine cfg venues c.snapshots
  frames : ∀ f ∈ c.frames, ∀ m, ExStream.parse cfg.de f = some (.ok m) →
    (cfg.instrumentMap.lookup m.sub).isSome → IsGenuine cfg.rules (venues m.sub) m

/-- a connection that comes up under the contract ends in a state satisfying the invariant -/
theorem openConn_synced (cfg : Config) (venues : Nat → Venue) (books : Books) (c : ConnInput) (st : Conn)
    (hkeys : (cfg.instrumentMap.map (·.2)).Nodup) (hbooks : HasBooks cfg books)
    (hc : Contract cfg venues c) (ho : openConn cfg books c = some st) : ConnSynced venues st := by
  unfold openConn at ho
  cases hi : Transformer.init cfg.instrumentMap c.snapshots with
  | error e => simp [hi] at ho
  | ok t =>
    simp only [hi, Option.some.injEq] at ho
    subst ho
    have h0 := open_synced cfg venues books c.snapshots t true hkeys hbooks hc.snapshots hi
    have hrun : ConnSynced venues (c.frames.foldl (frameStep cfg) ⟨t, applySnapshots books c.snapshots, true⟩) := by
      rw [updatesOf_fold]
      apply Props.C06.connection_book_is_truth cfg.rules venues _ _ h0
      intro m hm hsub
      obtain ⟨f, hf, hp⟩ := mem_updatesOf cfg.de c.frames m hm
      simp only at hsub
      rw [init_subscribed cfg.instrumentMap c.snapshots t hi] at hsub
      exact hc.frames f hf m hp hsub
    exact ⟨hrun.keysInj, hrun.synced⟩

theorem openConn_books (cfg : Config) (books : Books) (c : ConnInput) (st : Conn) (hb : c.buffered = [])
    (ho : openConn cfg books c = some st) : ∃ evs, st.books = managerRun books evs := by
  have hv := openConn_view cfg books c hb
  cases hi : connItems cfg c with
  | none => simp [hi, ho] at hv
  | some items =>
    simp only [hi, ho] at hv
    exact ⟨_, hv.1⟩

/-- **the invariant along the whole input** -/
theorem runConns_synced (cfg : Config) (venues : Nat → Venue) (st : Conn) (conns : List ConnInput)
    (hkeys : (cfg.instrumentMap.map (·.2)).Nodup) (hbooks : HasBooks cfg st.books)
    (hst : ConnSynced venues st) (hc : ∀ c ∈ conns, Contract cfg venues c) :
    ConnSynced venues (runConns cfg st conns) := by
  induction conns generalizing st with
  | nil => exact hst
  | cons c cs ih =>
    have hcs : ∀ c ∈ cs, Contract cfg venues c := fun x hx => hc x (by simp [hx])
    simp only [runConns]
    cases ho : openConn cfg st.books c with
    | none => exact ih st hbooks hst hcs
    | some st' =>
      have hs' := openConn_synced cfg venues st.books c st' hkeys hbooks (hc c (by simp)) ho
      simp only
      split
      · exact hs'
      · obtain ⟨evs, hevs⟩ := openConn_books cfg st.books c st' (hc c (by simp)).noBuffered ho
        exact ih st' (by rw [hevs]; exact hasBooks_managerRun cfg _ _ hbooks) hs' hcs

/-! ## H. what the pipeline sees of a connection; splitting the input -/

/-- all the specification reads of a connection: the events it delivers, the errors it hands to the
handler, and whether it is over (`none`: `init` failed) -/
def connView (cfg : Config) (c : ConnInput) : Option (List StreamEvent × List PipeError × Bool) :=
  (connItems cfg c).map fun items =>
    (itemEvents (deliveredItems items), itemErrors (deliveredItems items), connOver items c.ended)

def viewStream : List (Option (List StreamEvent × List PipeError × Bool)) → List StreamEvent
  | [] => []
  | none :: vs => viewStream vs
  | some (evs, _, over) :: vs => evs ++ if over then .reconnecting :: viewStream vs else []

def viewHandled : List (Option (List StreamEvent × List PipeError × Bool)) → List PipeError
  | [] => []
  | none :: vs => viewHandled vs
  | some (_, errs, over) :: vs => errs ++ if over then viewHandled vs else []

theorem specStream_view (cfg : Config) (conns : List ConnInput) :
    specStream cfg conns = viewStream (conns.map (connView cfg)) ∧
    specHandled cfg conns = viewHandled (conns.map (connView cfg)) := by
  induction conns with
  | nil => exact ⟨rfl, rfl⟩
  | cons c cs ih =>
    simp only [specStream, specHandled, List.map_cons, connView]
    cases connItems cfg c with
    | none => simpa [viewStream, viewHandled] using ih
    | some items => simp [viewStream, viewHandled, ih.1, ih.2]

theorem specFin_view (cfg : Config) (conns : List ConnInput) :
    specFin cfg conns =
      match conns.map (connView cfg) with
      | [] => .initPending
      | none :: _ => .initError
      | some _ :: _ => .pending := by
  cases conns with
  | nil => rfl
  | cons c cs =>
    simp only [specFin, List.map_cons, connView]
    cases connItems cfg c <;> rfl

/-- the specification depends on the connections only through their views -/
theorem specPipeline_congr (cfg : Config) (books : Books) (a b : List ConnInput)
    (h : a.map (connView cfg) = b.map (connView cfg)) : specPipeline cfg books a = specPipeline cfg books b := by
  unfold specPipeline
  rw [specFin_view, specFin_view, (specStream_view cfg a).1, (specStream_view cfg a).2,
    (specStream_view cfg b).1, (specStream_view cfg b).2, h]

/-- … and for events, books and status, only through events and over-ness -/
def connView' (cfg : Config) (c : ConnInput) : Option (List StreamEvent × Bool) :=
  (connView cfg c).map fun v => (v.1, v.2.2)

def viewStream' : List (Option (List StreamEvent × Bool)) → List StreamEvent
  | [] => []
  | none :: vs => viewStream' vs
  | some (evs, over) :: vs => evs ++ if over then .reconnecting :: viewStream' vs else []

theorem viewStream_eq' (vs : List (Option (List StreamEvent × List PipeError × Bool))) :
    viewStream vs = viewStream' (vs.map fun v => v.map fun x => (x.1, x.2.2)) := by
  induction vs with
  | nil => rfl
  | cons v r ih =>
    cases v with
    | none => simpa [viewStream, viewStream'] using ih
    | some x => obtain ⟨e, h, o⟩ := x; simp [viewStream, viewStream', ih]

theorem specPipeline_congr_events (cfg : Config) (books : Books) (a b : List ConnInput)
    (h : a.map (connView' cfg) = b.map (connView' cfg)) :
    (specPipeline cfg books a).events = (specPipeline cfg books b).events ∧
    (specPipeline cfg books a).books = (specPipeline cfg books b).books ∧
    (specPipeline cfg books a).fin = (specPipeline cfg books b).fin := by
  have hs : specStream cfg a = specStream cfg b := by
    rw [(specStream_view cfg a).1, (specStream_view cfg b).1, viewStream_eq', viewStream_eq']
    have : (a.map (connView cfg)).map (fun v => v.map fun x => (x.1, x.2.2)) = a.map (connView' cfg) := by
      simp [connView', Function.comp_def]
    rw [this]
    have : (b.map (connView cfg)).map (fun v => v.map fun x => (x.1, x.2.2)) = b.map (connView' cfg) := by
      simp [connView', Function.comp_def]
    rw [this, h]
  have hf : specFin cfg a = specFin cfg b := by
    cases a with
    | nil =>
      cases b with
      | nil => rfl
      | cons d ds => simp at h
    | cons c cs =>
      cases b with
      | nil => simp at h
      | cons d ds =>
        simp only [List.map_cons, List.cons.injEq] at h
        have h1 := h.1
        simp only [specFin, connView', connView] at h1 ⊢
        cases hc : connItems cfg c <;> cases hd : connItems cfg d <;> simp [hc, hd] at h1 ⊢
  unfold specPipeline
  rw [hf, hs]
  cases specFin cfg b <;> simp

theorem allOver_view (cfg : Config) (conns : List ConnInput) :
    allOver cfg conns = (conns.map (connView cfg)).all fun v =>
      match v with
      | none => true
      | some x => x.2.2 := by
  induction conns with
  | nil => rfl
  | cons c cs ih =>
    simp only [allOver, List.map_cons, List.all_cons, connView]
    cases connItems cfg c <;> simp [ih]

/-- splitting the input: what follows is reached exactly when everything before is over -/
theorem specStream_append (cfg : Config) (pre post : List ConnInput) :
    specStream cfg (pre ++ post) = specStream cfg pre ++ (if allOver cfg pre then specStream cfg post else []) ∧
    specHandled cfg (pre ++ post) = specHandled cfg pre ++ (if allOver cfg pre then specHandled cfg post else []) := by
  induction pre with
  | nil => simp [specStream, specHandled, allOver]
  | cons c cs ih =>
    cases hi : connItems cfg c with
    | none => simpa [specStream, specHandled, allOver, hi] using ih
    | some items =>
      cases ho : connOver items c.ended with
      | false => simp [specStream, specHandled, allOver, hi, ho]
      | true => simp [specStream, specHandled, allOver, hi, ho, ih.1, ih.2]

theorem runConns_append (cfg : Config) (st : Conn) (pre post : List ConnInput) (hst : st.alive = false) :
    runConns cfg st (pre ++ post) =
      if (runConns cfg st pre).alive then runConns cfg st pre else runConns cfg (runConns cfg st pre) post := by
  induction pre generalizing st with
  | nil => simp [runConns, hst]
  | cons c cs ih =>
    cases ho : openConn cfg st.books c with
    | none => simpa [runConns, ho] using ih st hst
    | some st' =>
      cases ha : st'.alive with
      | true => simp [runConns, ho, ha]
      | false => simpa [runConns, ho, ha] using ih st' ha

theorem openConn_ignores_buffered (cfg : Config) (books : Books) (c : ConnInput) :
    openConn cfg books c = openConn cfg books { c with buffered := [] } := rfl

theorem openConn_hasBooks (cfg : Config) (books : Books) (c : ConnInput) (st : Conn)
    (hb : HasBooks cfg books) (ho : openConn cfg books c = some st) : HasBooks cfg st.books := by
  rw [openConn_ignores_buffered] at ho
  obtain ⟨evs, hevs⟩ := openConn_books cfg books { c with buffered := [] } st rfl ho
  rw [hevs]
  exact hasBooks_managerRun cfg _ _ hb

theorem runConns_hasBooks (cfg : Config) (st : Conn) (conns : List ConnInput) (hb : HasBooks cfg st.books) :
    HasBooks cfg (runConns cfg st conns).books := by
  induction conns generalizing st with
  | nil => exact hb
  | cons c cs ih =>
    simp only [runConns]
    cases ho : openConn cfg st.books c with
    | none => exact ih st hb
    | some st' =>
      have := openConn_hasBooks cfg st.books c st' hb ho
      simp only
      split
      · exact this
      · exact ih st' this

/-! ## I. one frame in the middle of a connection -/

/-- what a connection hands out before its live frames: buffered outputs, then the snapshots -/
def connHead (cfg : Config) (c : ConnInput) (t0 : Transformer) : List Item :=
  specOut (quiet cfg.params) t0 (c.buffered.map .ok) ++ c.snapshots.map .ok

/-- the transformer the live frames start from -/
def connT (cfg : Config) (c : ConnInput) (t0 : Transformer) : Transformer :=
  specState (quiet cfg.params) t0 (c.buffered.map .ok)

theorem connItems_eq (cfg : Config) (c : ConnInput) :
    connItems cfg c =
      match Transformer.init cfg.instrumentMap c.snapshots with
      | .error _ => none
      | .ok t0 => some (connHead cfg c t0 ++ specOut cfg.params (connT cfg c t0) c.frames) := rfl

theorem specOut_mid (cfg : Config) (t : Transformer) (a : List Frame) (f : Frame) (b : List Frame) :
    specOut cfg.params t (a ++ f :: b) =
      specOut cfg.params t a ++ (contribution cfg.params (specState cfg.params t a) f).2 ++
        specOut cfg.params (contribution cfg.params (specState cfg.params t a) f).1 b := by
  rw [specOut_append]; simp [specOut, List.append_assoc]

/-- a frame that contributes nothing and leaves the transformer alone can be deleted -/
theorem specOut_skip (cfg : Config) (t : Transformer) (a : List Frame) (f : Frame) (b : List Frame)
    (h : contribution cfg.params (specState cfg.params t a) f = (specState cfg.params t a, [])) :
    specOut cfg.params t (a ++ f :: b) = specOut cfg.params t (a ++ b) := by
  rw [specOut_mid, h, specOut_append]; simp

/-- a frame that contributes one error and leaves the transformer alone -/
theorem specOut_error (cfg : Config) (t : Transformer) (a : List Frame) (f : Frame) (b : List Frame) (e : PipeError)
    (h : contribution cfg.params (specState cfg.params t a) f = (specState cfg.params t a, [.error e])) :
    specOut cfg.params t (a ++ f :: b) =
      specOut cfg.params t a ++ .error e :: specOut cfg.params (specState cfg.params t a) b ∧
    specOut cfg.params t (a ++ b) = specOut cfg.params t a ++ specOut cfg.params (specState cfg.params t a) b := by
  rw [specOut_mid, h, specOut_append]; simp

/-- inserting a non-terminal error item changes neither the delivered events nor whether the
connection is over; the handler receives it iff the connection was still delivering -/
theorem view_insert_error (X Y : List Item) (e : PipeError) (he : e.isTerminal = false) :
    itemEvents (deliveredItems (X ++ .error e :: Y)) = itemEvents (deliveredItems (X ++ Y)) ∧
    hasTerminalItem (X ++ .error e :: Y) = hasTerminalItem (X ++ Y) ∧
    itemErrors (deliveredItems (X ++ .error e :: Y)) =
      itemErrors (deliveredItems X) ++
        (if hasTerminalItem X then [] else e :: itemErrors (deliveredItems Y)) ∧
    itemErrors (deliveredItems (X ++ Y)) =
      itemErrors (deliveredItems X) ++ (if hasTerminalItem X then [] else itemErrors (deliveredItems Y)) := by
  simp only [deliveredItems_append, hasTerminalItem_append, deliveredItems, hasTerminalItem, Item.isTerminal, he,
    itemEvents_append, itemErrors_append]
  cases hasTerminalItem X <;> simp [itemEvents, itemErrors]

/-- a terminal error item: nothing after it is delivered, the connection is over -/
theorem view_terminal (X Y : List Item) (e : PipeError) (he : e.isTerminal = true) (hX : hasTerminalItem X = false) :
    deliveredItems (X ++ .error e :: Y) = deliveredItems X ∧ hasTerminalItem (X ++ .error e :: Y) = true := by
  simp [deliveredItems_append, hasTerminalItem_append, deliveredItems, hasTerminalItem, Item.isTerminal, he, hX]

/-- `transform` never adds or removes a subscription -/
theorem transform_subscribed (r : Rules) (t : Transformer) (m : Update) (a : Nat) :
    ((t.transform r m).1.instrumentMap.lookup a).isSome = (t.instrumentMap.lookup a).isSome := by
  cases h : t.instrumentMap.lookup m.sub with
  | none => rw [transform_unknown h]
  | some im =>
    rcases transform_known (r := r) h with ⟨_, hv⟩ | ⟨_, _, hv⟩ | ⟨_, _, hv⟩ <;>
      rw [hv] <;> simp only [lookup_setSequencer] <;> split <;> simp_all

theorem contribution_subscribed (cfg : Config) (t : Transformer) (f : Frame) (a : Nat) :
    ((contribution cfg.params t f).1.instrumentMap.lookup a).isSome = (t.instrumentMap.lookup a).isSome := by
  unfold contribution
  cases hp : cfg.params.parse f with
  | none => rfl
  | some res =>
    cases res with
    | error e => rfl
    | ok m => exact transform_subscribed cfg.rules t m a

theorem specState_subscribed (cfg : Config) (t : Transformer) (frames : List Frame) (a : Nat) :
    ((specState cfg.params t frames).instrumentMap.lookup a).isSome = (t.instrumentMap.lookup a).isSome := by
  induction frames generalizing t with
  | nil => rfl
  | cons f r ih => simp only [specState]; rw [ih, contribution_subscribed]

theorem quiet_contribution (cfg : Config) (t : Transformer) (f : Frame) :
    contribution (quiet cfg.params) t f = contribution cfg.params t f ∨
    contribution (quiet cfg.params) t f = (t, []) := by
  unfold contribution quiet
  cases hp : cfg.params.parse f with
  | none => left; simp [hp]
  | some res =>
    cases res with
    | error e => right; simp [hp]
    | ok m => left; simp [hp]

theorem specState_quiet_subscribed (cfg : Config) (t : Transformer) (frames : List Frame) (a : Nat) :
    ((specState (quiet cfg.params) t frames).instrumentMap.lookup a).isSome = (t.instrumentMap.lookup a).isSome := by
  induction frames generalizing t with
  | nil => rfl
  | cons f r ih =>
    simp only [specState]
    rw [ih]
    rcases quiet_contribution cfg t f with h | h
    · rw [h, contribution_subscribed]
    · rw [h]

/-- at every moment of a connection the transformer knows exactly the configured subscriptions -/
theorem live_subscribed (cfg : Config) (c : ConnInput) (t0 : Transformer) (a : List Frame) (sub : Nat)
    (hi : Transformer.init cfg.instrumentMap c.snapshots = .ok t0) :
    ((specState cfg.params (connT cfg c t0) a).instrumentMap.lookup sub).isSome =
      (cfg.instrumentMap.lookup sub).isSome := by
  rw [specState_subscribed, connT, specState_quiet_subscribed, init_subscribed _ _ _ hi]

/-- the contribution of a depth update for a symbol nobody subscribed to -/
theorem contribution_unsubscribed (cfg : Config) (t : Transformer) (f : Frame) (m : Update)
    (hp : ExStream.parse cfg.de f = some (.ok m)) (hl : t.instrumentMap.lookup m.sub = none) :
    contribution cfg.params t f = (t, [.error (.data (.unidentifiable m.sub))]) := by
  have hp' : cfg.params.parse f = some (.ok m) := hp
  simp only [contribution, hp']
  show ((t.transform cfg.rules m).1, (t.transform cfg.rules m).2.map ofOut) = _
  rw [transform_unknown hl]
  rfl

/-- the contribution of a depth update that breaks its instrument's chain -/
theorem contribution_break (cfg : Config) (t : Transformer) (f : Frame) (m : Update) (im : Meta)
    (hp : ExStream.parse cfg.de f = some (.ok m)) (hl : t.instrumentMap.lookup m.sub = some im)
    (hs : ¬ Stale cfg.rules im.sequencer.lastUpdateId m)
    (he : ¬ Extends cfg.rules (im.sequencer.updatesProcessed == 0) im.sequencer.lastUpdateId m) :
    (contribution cfg.params t f).2 =
      [.error (.data (.invalidSequence im.sequencer.lastUpdateId m.firstUpdateId))] := by
  have hp' : cfg.params.parse f = some (.ok m) := hp
  simp only [contribution, hp']
  show (t.transform cfg.rules m).2.map ofOut = _
  rcases transform_known (r := cfg.rules) hl with ⟨h, _⟩ | ⟨_, h, _⟩ | ⟨_, _, hv⟩
  · exact absurd h hs
  · exact absurd h he
  · rw [hv]; rfl

/-- replace the frames of a connection -/
def ConnInput.withFrames (c : ConnInput) (frames : List Frame) : ConnInput := { c with frames := frames }

theorem connView'_of_items (cfg : Config) (c d : ConnInput)
    (h : match connItems cfg c, connItems cfg d with
      | none, none => True
      | some x, some y =>
        itemEvents (deliveredItems x) = itemEvents (deliveredItems y) ∧
          connOver x c.ended = connOver y d.ended
      | _, _ => False) : connView' cfg c = connView' cfg d := by
  unfold connView' connView
  cases hc : connItems cfg c <;> cases hd : connItems cfg d <;> simp_all

/-- replacing one connection by one with the same view leaves events, books and status alone -/
theorem replace_conn (cfg : Config) (books : Books) (pre post : List ConnInput) (c d : ConnInput)
    (h : connView' cfg c = connView' cfg d) :
    (specPipeline cfg books (pre ++ c :: post)).events = (specPipeline cfg books (pre ++ d :: post)).events ∧
    (specPipeline cfg books (pre ++ c :: post)).books = (specPipeline cfg books (pre ++ d :: post)).books ∧
    (specPipeline cfg books (pre ++ c :: post)).fin = (specPipeline cfg books (pre ++ d :: post)).fin := by
  apply specPipeline_congr_events
  simp [h]

/-! ## J. the state after the whole input -/

theorem runConns_alive (cfg : Config) (st : Conn) (conns : List ConnInput)
    (hb : ∀ c ∈ conns, c.buffered = []) (hst : st.alive = false) :
    (runConns cfg st conns).alive = !allOver cfg conns := by
  induction conns generalizing st with
  | nil => simp [runConns, allOver, hst]
  | cons c cs ih =>
    have hv := openConn_view cfg st.books c (hb c (by simp))
    have hcs : ∀ c ∈ cs, c.buffered = [] := fun x hx => hb x (by simp [hx])
    cases hi : connItems cfg c with
    | none =>
      cases ho : openConn cfg st.books c with
      | none => simpa [runConns, allOver, hi, ho] using ih st hcs hst
      | some st' => simp [hi, ho] at hv
    | some items =>
      cases ho : openConn cfg st.books c with
      | none => simp [hi, ho] at hv
      | some st' =>
        simp only [hi, ho] at hv
        cases hover : connOver items c.ended with
        | true =>
          have ha : st'.alive = false := by rw [hv.2, hover]; rfl
          simpa [runConns, allOver, hi, ho, ha, hover] using ih st' hcs ha
        | false =>
          have ha : st'.alive = true := by rw [hv.2, hover]; rfl
          simp [runConns, allOver, hi, ho, ha, hover]

theorem openConn_isSome (cfg : Config) (books : Books) (c : ConnInput) :
    (openConn cfg books c).isSome = (connItems cfg c).isSome := by
  unfold openConn connItems
  cases Transformer.init cfg.instrumentMap c.snapshots <;> rfl

/-- the books of the specification are the books of the state machine -/
theorem spec_books_state (cfg : Config) (books : Books) (conns : List ConnInput)
    (hb : ∀ c ∈ conns, c.buffered = []) :
    (specPipeline cfg books conns).books = (pipelineState cfg books conns).books := by
  cases conns with
  | nil => rfl
  | cons c cs =>
    have hsome := openConn_isSome cfg books c
    cases hi : connItems cfg c with
    | none =>
      cases ho : openConn cfg books c with
      | none => simp [specPipeline, specFin, hi, pipelineState, ho]
      | some st => simp [hi, ho] at hsome
    | some items =>
      cases ho : openConn cfg books c with
      | none => simp [hi, ho] at hsome
      | some st =>
        simp only [specPipeline, specFin, hi, pipelineState, ho]
        rw [← Props.C05.manager_applies_per_instrument]
        exact runConns_books cfg ⟨⟨[]⟩, books, false⟩ (c :: cs) hb

/-! ## K. the state's transformer knows the configured subscriptions -/

def Subscribed (cfg : Config) (st : Conn) : Prop :=
  ∀ a, (st.transformer.instrumentMap.lookup a).isSome = (cfg.instrumentMap.lookup a).isSome

theorem step_subscribed (r : Rules) (c : Conn) (m : Update) (a : Nat) :
    ((c.step r m).transformer.instrumentMap.lookup a).isSome = (c.transformer.instrumentMap.lookup a).isSome := by
  cases h : c.alive with
  | false => rw [conn_step_dead m h]
  | true => rw [conn_step_eq r c m h]; exact transform_subscribed r c.transformer m a

theorem frames_subscribed (cfg : Config) (c : Conn) (frames : List Frame) (a : Nat) :
    ((frames.foldl (frameStep cfg) c).transformer.instrumentMap.lookup a).isSome =
      (c.transformer.instrumentMap.lookup a).isSome := by
  induction frames generalizing c with
  | nil => rfl
  | cons f r ih =>
    simp only [List.foldl_cons]
    rw [ih]
    unfold frameStep
    split
    · exact step_subscribed _ _ _ _
    · rfl

theorem openConn_subscribed (cfg : Config) (books : Books) (c : ConnInput) (st : Conn)
    (ho : openConn cfg books c = some st) : Subscribed cfg st := by
  unfold openConn at ho
  cases hi : Transformer.init cfg.instrumentMap c.snapshots with
  | error e => simp [hi] at ho
  | ok t =>
    simp only [hi, Option.some.injEq] at ho
    subst ho
    intro a
    simp only
    rw [frames_subscribed, init_subscribed _ _ _ hi]

theorem runConns_subscribed (cfg : Config) (st : Conn) (conns : List ConnInput) (h : Subscribed cfg st) :
    Subscribed cfg (runConns cfg st conns) := by
  induction conns generalizing st with
  | nil => exact h
  | cons c cs ih =>
    simp only [runConns]
    cases ho : openConn cfg st.books c with
    | none => exact ih st h
    | some st' =>
      have := openConn_subscribed cfg st.books c st' ho
      simp only
      split
      · exact this
      · exact ih st' this

/-- once the first connection came up, the state's transformer knows every configured subscription -/
theorem pipelineState_subscribed (cfg : Config) (books : Books) (conns : List ConnInput)
    (h : specFin cfg conns = .pending) : Subscribed cfg (pipelineState cfg books conns) := by
  cases conns with
  | nil => simp [specFin] at h
  | cons c cs =>
    have hsome := openConn_isSome cfg books c
    cases hi : connItems cfg c with
    | none => simp [specFin, hi] at h
    | some items =>
      cases ho : openConn cfg books c with
      | none => simp [hi, ho] at hsome
      | some st =>
        simp only [pipelineState, ho, runConns]
        have hs := openConn_subscribed cfg books c st ho
        split
        · exact hs
        · exact runConns_subscribed cfg st cs hs

/-- a live state has processed every frame of its connection -/
theorem openConn_live (cfg : Config) (books : Books) (c : ConnInput) (st : Conn)
    (ho : openConn cfg books c = some st) (ha : st.alive = true) :
    ∃ t0, Transformer.init cfg.instrumentMap c.snapshots = .ok t0 ∧
      st.transformer = specState cfg.params t0 c.frames ∧
      hasTerminalItem (specOut cfg.params t0 c.frames) = false ∧ c.ended = false := by
  unfold openConn at ho
  cases hi : Transformer.init cfg.instrumentMap c.snapshots with
  | error e => simp [hi] at ho
  | ok t =>
    simp only [hi, Option.some.injEq] at ho
    subst ho
    have hv := frames_view cfg ⟨t, applySnapshots books c.snapshots, true⟩ c.frames rfl
    simp only [Bool.and_eq_true, Bool.not_eq_eq_eq_not, Bool.not_true] at ha hv
    refine ⟨t, rfl, hv.2.2 ha.1, ?_, ha.2⟩
    have := hv.2.1
    rw [ha.1] at this
    simpa using this.symm

/-! ## L. the stream only grows with the input -/

theorem deliveredItems_prefix (a b : List Item) : deliveredItems a <+: deliveredItems (a ++ b) := by
  rw [deliveredItems_append]; exact List.prefix_append _ _

theorem itemEvents_prefix {a b : List Item} (h : a <+: b) : itemEvents a <+: itemEvents b := by
  obtain ⟨t, rfl⟩ := h
  rw [itemEvents_append]; exact List.prefix_append _ _

/-- more connections: everything delivered so far stays delivered, unchanged -/
theorem specStream_prefix_conns (cfg : Config) (conns ext : List ConnInput) :
    specStream cfg conns <+: specStream cfg (conns ++ ext) := by
  rw [(specStream_append cfg conns ext).1]; exact List.prefix_append _ _

/-- more frames on the last, still open, connection: the same -/
theorem specStream_prefix_frames (cfg : Config) (pre : List ConnInput) (c : ConnInput) (more : List Frame)
    (ended : Bool) (hc : c.ended = false) :
    specStream cfg (pre ++ [c]) <+:
      specStream cfg (pre ++ [{ c with frames := c.frames ++ more, ended := ended }]) := by
  rw [(specStream_append cfg pre [c]).1, (specStream_append cfg pre _).1]
  cases allOver cfg pre with
  | false => simp
  | true =>
    simp only [↓reduceIte]
    apply List.prefix_append_right_inj _ |>.mpr
    simp only [specStream, connItems_eq]
    cases hi : Transformer.init cfg.instrumentMap c.snapshots with
    | error e => simp
    | ok t0 =>
      simp only [connHead, connT, specOut_append, ← List.append_assoc]
      simp only [connOver, hc, Bool.or_false]
      generalize specOut (quiet cfg.params) t0 (List.map Except.ok c.buffered) ++ List.map Except.ok c.snapshots ++
        specOut cfg.params (specState (quiet cfg.params) t0 (List.map Except.ok c.buffered)) c.frames = X
      generalize specOut cfg.params (specState cfg.params (specState (quiet cfg.params) t0
        (List.map Except.ok c.buffered)) c.frames) more = Y
      cases hX : hasTerminalItem X with
      | true =>
        simp [deliveredItems_append, hasTerminalItem_append, hX]
      | false =>
        simp only [Bool.false_eq_true, ↓reduceIte, List.append_nil]
        exact List.prefix_append_of_prefix (itemEvents_prefix (deliveredItems_prefix X Y))

/-! ## M. break, stale window, re-initialisation -/

theorem specFin_append (cfg : Config) (p : ConnInput) (ps post : List ConnInput) :
    specFin cfg (p :: ps ++ post) = specFin cfg (p :: ps) := rfl

theorem pipelineState_eq_runConns (cfg : Config) (books : Books) (conns : List ConnInput)
    (h : specFin cfg conns = .pending) :
    pipelineState cfg books conns = runConns cfg ⟨⟨[]⟩, books, false⟩ conns := by
  cases conns with
  | nil => simp [specFin] at h
  | cons c cs =>
    have hsome := openConn_isSome cfg books c
    cases hi : connItems cfg c with
    | none => simp [specFin, hi] at h
    | some items =>
      cases ho : openConn cfg books c with
      | none => simp [hi, ho] at hsome
      | some st => simp [pipelineState, ho]

theorem spec_books_eq_managerRun (cfg : Config) (books : Books) (conns : List ConnInput)
    (h : specFin cfg conns = .pending) :
    (specPipeline cfg books conns).books = managerRun books (specStream cfg conns) ∧
    (specPipeline cfg books conns).events = specStream cfg conns ∧
    (specPipeline cfg books conns).handled = specHandled cfg conns := by
  simp [specPipeline, h, Props.C05.manager_applies_per_instrument]

/-- the items of a connection whose frame `f` (after the frames `a`) breaks a chain: everything the
connection delivers was delivered before `f`, and the connection is over — whatever follows `f` -/
theorem break_items (cfg : Config) (c : ConnInput) (a : List Frame) (f : Frame) (b : List Frame)
    (t0 : Transformer) (m : Update) (im : Meta)
    (hframes : c.frames = a ++ f :: b)
    (hi : Transformer.init cfg.instrumentMap c.snapshots = .ok t0)
    (halive : hasTerminalItem (connHead cfg c t0 ++ specOut cfg.params (connT cfg c t0) a) = false)
    (hp : ExStream.parse cfg.de f = some (.ok m))
    (hl : (specState cfg.params (connT cfg c t0) a).instrumentMap.lookup m.sub = some im)
    (hs : ¬ Stale cfg.rules im.sequencer.lastUpdateId m)
    (he : ¬ Extends cfg.rules (im.sequencer.updatesProcessed == 0) im.sequencer.lastUpdateId m) :
    ∃ items, connItems cfg c = some items ∧
      deliveredItems items = deliveredItems (connHead cfg c t0 ++ specOut cfg.params (connT cfg c t0) a) ∧
      hasTerminalItem items = true ∧
      connItems cfg { c with frames := a, ended := false } =
        some (connHead cfg c t0 ++ specOut cfg.params (connT cfg c t0) a) := by
  refine ⟨_, by rw [connItems_eq, hi], ?_, ?_, ?_⟩
  · rw [hframes, specOut_mid, contribution_break cfg _ f m im hp hl hs he]
    have := view_terminal (connHead cfg c t0 ++ specOut cfg.params (connT cfg c t0) a)
      (specOut cfg.params (contribution cfg.params (specState cfg.params (connT cfg c t0) a) f).1 b)
      (.data (.invalidSequence im.sequencer.lastUpdateId m.firstUpdateId)) rfl halive
    simpa [List.append_assoc] using this.1
  · rw [hframes, specOut_mid, contribution_break cfg _ f m im hp hl hs he]
    have := view_terminal (connHead cfg c t0 ++ specOut cfg.params (connT cfg c t0) a)
      (specOut cfg.params (contribution cfg.params (specState cfg.params (connT cfg c t0) a) f).1 b)
      (.data (.invalidSequence im.sequencer.lastUpdateId m.firstUpdateId)) rfl halive
    simpa [List.append_assoc] using this.2
  · rw [connItems_eq]
    simp only [hi]
    rfl

/-- **stale window, specification level**: the break adds exactly one `Reconnecting` to what the
consumer had received, and changes no book and no handler call -/
theorem break_spec (cfg : Config) (books : Books) (pre : List ConnInput) (c : ConnInput)
    (a : List Frame) (f : Frame) (b : List Frame) (t0 : Transformer) (m : Update) (im : Meta)
    (hfirst : specFin cfg (pre ++ [c]) = .pending)
    (hpre : allOver cfg pre = true)
    (hframes : c.frames = a ++ f :: b)
    (hi : Transformer.init cfg.instrumentMap c.snapshots = .ok t0)
    (halive : hasTerminalItem (connHead cfg c t0 ++ specOut cfg.params (connT cfg c t0) a) = false)
    (hp : ExStream.parse cfg.de f = some (.ok m))
    (hl : (specState cfg.params (connT cfg c t0) a).instrumentMap.lookup m.sub = some im)
    (hs : ¬ Stale cfg.rules im.sequencer.lastUpdateId m)
    (he : ¬ Extends cfg.rules (im.sequencer.updatesProcessed == 0) im.sequencer.lastUpdateId m) :
    (specPipeline cfg books (pre ++ [c])).events =
      (specPipeline cfg books (pre ++ [{ c with frames := a, ended := false }])).events ++ [.reconnecting] ∧
    (specPipeline cfg books (pre ++ [c])).handled =
      (specPipeline cfg books (pre ++ [{ c with frames := a, ended := false }])).handled ∧
    (specPipeline cfg books (pre ++ [c])).books =
      (specPipeline cfg books (pre ++ [{ c with frames := a, ended := false }])).books := by
  obtain ⟨items, hitems, hdel, hterm, hca⟩ := break_items cfg c a f b t0 m im hframes hi halive hp hl hs he
  have hfirst' : specFin cfg (pre ++ [{ c with frames := a, ended := false }]) = .pending := by
    cases pre with
    | nil => simp [specFin, hca]
    | cons p ps => exact hfirst
  obtain ⟨hb1, he1, hh1⟩ := spec_books_eq_managerRun cfg books _ hfirst
  obtain ⟨hb2, he2, hh2⟩ := spec_books_eq_managerRun cfg books _ hfirst'
  have hs1 : specStream cfg [c] = itemEvents (deliveredItems items) ++ [.reconnecting] := by
    simp [specStream, hitems, connOver, hterm]
  have hs2 : specStream cfg [{ c with frames := a, ended := false }] = itemEvents (deliveredItems items) := by
    simp [specStream, hca, connOver, halive, hdel]
  have hh1' : specHandled cfg [c] = itemErrors (deliveredItems items) := by
    simp [specHandled, hitems, connOver, hterm]
  have hh2' : specHandled cfg [{ c with frames := a, ended := false }] = itemErrors (deliveredItems items) := by
    simp [specHandled, hca, connOver, halive, hdel]
  rw [hb1, he1, hh1, hb2, he2, hh2, (specStream_append cfg pre _).1, (specStream_append cfg pre _).1,
    (specStream_append cfg pre _).2, (specStream_append cfg pre _).2, hpre, hs1, hs2, hh1', hh2']
  simp [← List.append_assoc, managerRun, managerStep]

theorem managerRun_lookup_isSome (books : Books) (evs : List StreamEvent) (k : Nat) :
    ((managerRun books evs).lookup k).isSome = (books.lookup k).isSome := by
  rw [Props.C05.manager_applies_per_instrument, lookup_map_keys]

/-- **re-initialisation, specification level**: right after a connection came up every snapshot it
brought is the book of its key, whatever the earlier connections left there -/
theorem reinit_spec (cfg : Config) (books : Books) (pre : List ConnInput) (c : ConnInput) (k : Nat) (b : OrderBook)
    (hfirst : specFin cfg (pre ++ [c]) = .pending)
    (hpre : allOver cfg pre = true)
    (hopen : (connItems cfg c).isSome)
    (hnb : c.buffered = []) (hfr : c.frames = [])
    (hn : (c.snapshots.map (·.1)).Nodup) (hm : (k, Event.snapshot b) ∈ c.snapshots)
    (hk : (books.lookup k).isSome) :
    (specPipeline cfg books (pre ++ [c])).books.lookup k = some b := by
  rw [(spec_books_eq_managerRun cfg books _ hfirst).1, (specStream_append cfg pre _).1, hpre]
  simp only [↓reduceIte, managerRun_append]
  have hitems : connItems cfg c = some (c.snapshots.map .ok) := by
    rw [connItems_noBuffered cfg c hnb] at hopen ⊢
    cases hi : Transformer.init cfg.instrumentMap c.snapshots with
    | error e => simp [hi] at hopen
    | ok t => simp [hfr, specOut]
  have hB := managerRun_lookup_isSome books (specStream cfg pre) k
  rw [hk] at hB
  generalize managerRun books (specStream cfg pre) = B at hB
  have hrun : managerRun B (specStream cfg [c]) = applySnapshots B c.snapshots := by
    simp only [specStream, hitems, deliveredItems_oks, itemEvents_oks]
    rw [managerRun_append, managerRun_snapshots]
    split <;> rfl
  rw [hrun, applySnapshots_lookup]
  cases hb0 : B.lookup k with
  | none => simp [hb0] at hB
  | some b0 => simp [applyFor_unique k c.snapshots b0 b hn hm]

/-- **truth after re-initialisation**: the invariant needs the venue contract only from the last
successful initialisation on — whatever the earlier connections delivered -/
theorem reinit_synced (cfg : Config) (venues : Nat → Venue) (books : Books) (pre : List ConnInput)
    (c : ConnInput) (post : List ConnInput)
    (hkeys : (cfg.instrumentMap.map (·.2)).Nodup) (hbooks : HasBooks cfg books)
    (hfirst : specFin cfg (pre ++ c :: post) = .pending)
    (hnb : ∀ x ∈ pre, x.buffered = [])
    (hpre : allOver cfg pre = true)
    (hopen : (connItems cfg c).isSome)
    (hc : ∀ x ∈ c :: post, Contract cfg venues x) :
    ConnSynced venues (pipelineState cfg books (pre ++ c :: post)) ∧
    Subscribed cfg (pipelineState cfg books (pre ++ c :: post)) := by
  refine ⟨?_, pipelineState_subscribed cfg books _ hfirst⟩
  rw [pipelineState_eq_runConns cfg books _ hfirst, runConns_append cfg _ pre (c :: post) rfl,
    runConns_alive cfg _ pre hnb rfl, hpre]
  simp only [Bool.not_true, Bool.false_eq_true, ↓reduceIte]
  have hB := runConns_hasBooks cfg ⟨⟨[]⟩, books, false⟩ pre hbooks
  generalize runConns cfg ⟨⟨[]⟩, books, false⟩ pre = s at hB
  have hsome := openConn_isSome cfg s.books c
  rw [hopen] at hsome
  cases ho : openConn cfg s.books c with
  | none => simp [ho] at hsome
  | some st' =>
    have hs' := openConn_synced cfg venues s.books c st' hkeys hB (hc c (by simp)) ho
    simp only [runConns, ho]
    split
    · exact hs'
    · exact runConns_synced cfg venues st' post hkeys (openConn_hasBooks cfg s.books c st' hB ho) hs'
        (fun x hx => hc x (by simp [hx]))

/-! ## N. the manager with time stamps and shared cells (C05M) holds the same books -/

/-- a stream event of the C05M model with its time stamps forgotten -/
def coreEvent : BookManager.TStreamEvent → StreamEvent
  | .reconnecting => .reconnecting
  | .item k ev => .item k ev.toCore

theorem eventsForKey_core (k : Nat) (ts : List BookManager.TStreamEvent) :
    (BookManager.eventsForKey k ts).map BookManager.TEvent.toCore = eventsFor k (ts.map coreEvent) := by
  induction ts with
  | nil => rfl
  | cons e r ih =>
    cases e with
    | reconnecting => simpa [BookManager.eventsForKey, eventsFor, coreEvent] using ih
    | item k' ev =>
      simp only [BookManager.eventsForKey, List.filterMap_cons, List.map_cons, coreEvent, eventsFor] at ih ⊢
      by_cases hk : k' = k
      · simp [hk, ih]
      · simp [hk, ih]

theorem lookup_map_run (books : Books) (evs : List StreamEvent) (k : Nat) :
    (books.map fun kb => (kb.1, kb.2.run (eventsFor kb.1 evs))).lookup k =
      (books.lookup k).map fun b => b.run (eventsFor k evs) := by
  induction books with
  | nil => rfl
  | cons x xs ih =>
    obtain ⟨k', b⟩ := x
    simp only [List.map_cons, List.lookup]
    by_cases hk : k = k'
    · subst hk; simp
    · have : (k == k') = false := by simpa using hk
      simp [this, ih]

theorem managerRun_lookup (books : Books) (evs : List StreamEvent) (k : Nat) :
    (managerRun books evs).lookup k = (books.lookup k).map fun b => b.run (eventsFor k evs) := by
  rw [Props.C05.manager_applies_per_instrument, lookup_map_run]

/-! ## O. no zero amounts: the books are literally the venue's books -/

/-- no managed book stores a zero amount -/
def BooksNonZero (books : Books) : Prop := ∀ kb ∈ books, NonZero kb.2.bids ∧ NonZero kb.2.asks

theorem managerStep_nonZero (books : Books) (ev : StreamEvent) (h : BooksNonZero books)
    (hs : ∀ k b, ev = .item k (.snapshot b) → NonZero b.bids ∧ NonZero b.asks) :
    BooksNonZero (managerStep books ev) := by
  cases ev with
  | reconnecting => exact h
  | item k e =>
    intro kb hkb
    simp only [managerStep, List.mem_map] at hkb
    obtain ⟨x, hx, hxe⟩ := hkb
    obtain ⟨k', b⟩ := x
    have hb := h (k', b) hx
    by_cases hk : k' = k
    · simp only [hk, ↓reduceIte] at hxe
      subst hxe
      cases e with
      | snapshot sb => exact hs k sb rfl
      | update ub => exact ⟨nonZero_upsert hb.1, nonZero_upsert hb.2⟩
    · simp only [hk, ↓reduceIte] at hxe
      subst hxe
      exact hb

theorem managerRun_nonZero (books : Books) (evs : List StreamEvent) (h : BooksNonZero books)
    (hs : ∀ k b, StreamEvent.item k (.snapshot b) ∈ evs → NonZero b.bids ∧ NonZero b.asks) :
    BooksNonZero (managerRun books evs) := by
  induction evs generalizing books with
  | nil => exact h
  | cons e r ih =>
    simp only [managerRun, List.foldl_cons]
    exact ih _ (managerStep_nonZero books e h (fun k b he => hs k b (by simp [he])))
      (fun k b hm => hs k b (by simp [hm]))

theorem mem_itemEvents {k : Nat} {ev : Event} {X : List Item} (h : StreamEvent.item k ev ∈ itemEvents X) :
    Except.ok (k, ev) ∈ X := by
  induction X with
  | nil => simp [itemEvents] at h
  | cons x r ih =>
    cases x with
    | ok kev =>
      obtain ⟨k', ev'⟩ := kev
      simp only [itemEvents, List.mem_cons] at h
      rcases h with h | h
      · injection h with h1 h2
        subst h1; subst h2
        simp
      · simp [ih h]
    | error e => simp only [itemEvents] at h; simp [ih h]

theorem mem_deliveredItems {x : Item} {X : List Item} (h : x ∈ deliveredItems X) : x ∈ X := by
  induction X with
  | nil => simp [deliveredItems] at h
  | cons y r ih =>
    simp only [deliveredItems] at h
    split at h
    · simp at h
    · simp only [List.mem_cons] at h
      rcases h with h | h
      · simp [h]
      · simp [ih h]

/-- `transform` produces updates and errors, never a snapshot -/
theorem transform_no_snapshot (r : Rules) (t : Transformer) (m : Update) (k : Nat) (b : OrderBook) :
    Out.event k (.snapshot b) ∉ (t.transform r m).2 := by
  cases h : t.instrumentMap.lookup m.sub with
  | none => rw [transform_unknown h]; simp
  | some im =>
    rcases transform_known (r := r) h with ⟨_, hv⟩ | ⟨_, _, hv⟩ | ⟨_, _, hv⟩ <;> rw [hv] <;>
      simp [Update.toEvent]

theorem contribution_no_snapshot (P : Params Frame SocketError Update Transformer MarketEv PipeError)
    (cfg : Config) (hP : P = cfg.params ∨ P = quiet cfg.params) (t : Transformer) (f : Frame) (k : Nat) (b : OrderBook) :
    (Except.ok (k, Event.snapshot b) : Item) ∉ (contribution P t f).2 := by
  have key : (Except.ok (k, Event.snapshot b) : Item) ∉ (contribution cfg.params t f).2 := by
    unfold contribution
    cases hp : cfg.params.parse f with
    | none => simp
    | some res =>
      cases res with
      | error e => simp
      | ok m =>
        simp only [Config.params, List.mem_map, not_exists, not_and]
        intro o ho hoe
        cases o with
        | event k' ev =>
          simp only [ofOut, Except.ok.injEq, Prod.mk.injEq] at hoe
          obtain ⟨h1, h2⟩ := hoe
          subst h1; subst h2
          exact transform_no_snapshot cfg.rules t m _ b ho
        | error e => simp [ofOut] at hoe
  rcases hP with hP | hP
  · rw [hP]; exact key
  · rw [hP]
    rcases quiet_contribution cfg t f with h | h
    · rw [h]; exact key
    · rw [h]; simp

theorem specOut_no_snapshot (P : Params Frame SocketError Update Transformer MarketEv PipeError)
    (cfg : Config) (hP : P = cfg.params ∨ P = quiet cfg.params) (t : Transformer) (frames : List Frame)
    (k : Nat) (b : OrderBook) : (Except.ok (k, Event.snapshot b) : Item) ∉ specOut P t frames := by
  induction frames generalizing t with
  | nil => simp [specOut]
  | cons f r ih =>
    simp only [specOut, List.mem_append, not_or]
    exact ⟨contribution_no_snapshot P cfg hP t f k b, ih _⟩

/-- every snapshot event of the stream is one of the REST snapshots of some connection -/
theorem specStream_snapshots (cfg : Config) (conns : List ConnInput) (k : Nat) (b : OrderBook)
    (h : StreamEvent.item k (.snapshot b) ∈ specStream cfg conns) :
    ∃ c ∈ conns, (k, Event.snapshot b) ∈ c.snapshots := by
  induction conns with
  | nil => simp [specStream] at h
  | cons c cs ih =>
    cases hi : connItems cfg c with
    | none =>
      simp only [specStream, hi] at h
      obtain ⟨d, hd, hm⟩ := ih h
      exact ⟨d, by simp [hd], hm⟩
    | some items =>
      simp only [specStream, hi, List.mem_append] at h
      rcases h with h | h
      · have hmem := mem_deliveredItems (mem_itemEvents h)
        rw [connItems_eq] at hi
        cases hinit : Transformer.init cfg.instrumentMap c.snapshots with
        | error e => simp [hinit] at hi
        | ok t0 =>
          simp only [hinit, Option.some.injEq] at hi
          subst hi
          simp only [connHead, List.mem_append, List.mem_map] at hmem
          rcases hmem with (hmem | hmem) | hmem
          · exact absurd hmem (specOut_no_snapshot _ cfg (.inr rfl) _ _ k b)
          · obtain ⟨s, hs, hse⟩ := hmem
            injection hse with hse
            subst hse
            exact ⟨c, by simp, hs⟩
          · exact absurd hmem (specOut_no_snapshot _ cfg (.inl rfl) _ _ k b)
      · split at h
        · simp only [List.mem_cons, reduceCtorEq, false_or] at h
          obtain ⟨d, hd, hm⟩ := ih h
          exact ⟨d, by simp [hd], hm⟩
        · simp at h

theorem mem_of_lookup {β : Type} (l : List (Nat × β)) (k : Nat) (b : β) (h : l.lookup k = some b) : (k, b) ∈ l := by
  induction l with
  | nil => simp at h
  | cons x xs ih =>
    obtain ⟨k', b'⟩ := x
    simp only [List.lookup] at h
    by_cases hk : k = k'
    · subst hk
      simp only [beq_self_eq_true, Option.some.injEq] at h
      subst h; simp
    · have : (k == k') = false := by simpa using hk
      rw [this] at h
      simp [ih h]

end BarterModel.L2Pipeline
