import BarterModel.Model.MockInstruments
import BarterModel.Lemmas.Index
import BarterModel.Lemmas.ExecMap
import BarterModel.Lemmas.MockExchange
/-!
Lemmas for sub-check C04M (`Props/C04M.lean`): generic association-list facts for `collectG`
("last pair wins"), `mapE` as a pointwise statement, the per-instrument closure of
`generate_mock_exchange_instruments` against the positional reading `nativeI`, the table against the
instruments of the exchange, builder output (C11) against the definitions, the bridge
`toColl` into the C04 collection, and the renaming simulation between the name-keyed mock exchange
and the index-keyed engine view (C08).
-/
namespace BarterModel.MockInstruments
open BarterModel.Index

/-! ### association lists with arbitrary values -/
section assoc
variable {β : Type}

theorem lookup_upsertG (m : List (Nat × β)) (k k' : Nat) (v : β) :
    (ExecMap.upsertG m k v).lookup k' = if k' = k then some v else m.lookup k' := by
  induction m with
  | nil => simp [ExecMap.upsertG, List.lookup]; split <;> simp_all
  | cons h t ih =>
    obtain ⟨a, b⟩ := h
    simp only [ExecMap.upsertG]
    split
    · subst_vars; simp only [List.lookup]; split <;> simp_all
    · simp only [List.lookup, ih]; split <;> simp_all

theorem keys_upsertG (m : List (Nat × β)) (k : Nat) (v : β) :
    (ExecMap.upsertG m k v).map (·.1) = if k ∈ m.map (·.1) then m.map (·.1) else m.map (·.1) ++ [k] := by
  induction m with
  | nil => simp [ExecMap.upsertG]
  | cons h t ih =>
    obtain ⟨a, b⟩ := h
    simp only [ExecMap.upsertG]
    split
    · subst_vars; simp
    · rename_i hne
      simp only [List.map_cons, ih, List.mem_cons]
      have : ¬ k = a := fun e => hne e.symm
      split <;> simp_all

/-- The value of the last pair with key `k`, if any. -/
def lastWith : List (Nat × β) → Nat → Option β
  | [], _ => none
  | p :: t, k =>
    match lastWith t k with
    | some v => some v
    | none => if p.1 = k then some p.2 else none

theorem lookup_foldl_upsertG (l m : List (Nat × β)) (k : Nat) :
    (l.foldl (fun m kv => ExecMap.upsertG m kv.1 kv.2) m).lookup k =
      match lastWith l k with
      | some v => some v
      | none => m.lookup k := by
  induction l generalizing m with
  | nil => simp [lastWith]
  | cons p t ih =>
    rw [List.foldl_cons, ih, lookup_upsertG]
    simp only [lastWith]
    cases lastWith t k with
    | some v => rfl
    | none =>
      by_cases h : p.1 = k
      · simp [h]
      · have h' : ¬ k = p.1 := fun e => h e.symm
        simp [h, h']

/-- `collect()` into a hash map: the value under `k` is that of the LAST pair with key `k`. -/
theorem lookup_collectG (l : List (Nat × β)) (k : Nat) :
    (ExecMap.collectG l).lookup k = lastWith l k := by
  unfold ExecMap.collectG
  rw [lookup_foldl_upsertG]
  cases lastWith l k <;> simp [List.lookup]

theorem lastWith_eq_none_iff (l : List (Nat × β)) (k : Nat) :
    lastWith l k = none ↔ k ∉ l.map (·.1) := by
  induction l with
  | nil => simp [lastWith]
  | cons p t ih =>
    simp only [lastWith, List.map_cons, List.mem_cons, not_or]
    cases h : lastWith t k with
    | some v =>
      have : ¬ (k ∉ t.map (·.1)) := fun hn => by rw [ih.mpr hn] at h; cases h
      constructor
      · intro x; cases x
      · intro x; exact absurd x.2 this
    | none =>
      have := ih.mp h
      by_cases e : p.1 = k
      · simp [e]
      · have e' : ¬ k = p.1 := fun x => e x.symm
        constructor
        · intro _; exact ⟨e', this⟩
        · intro _; simp [e]

theorem lastWith_mem (l : List (Nat × β)) (k : Nat) (v : β) (h : lastWith l k = some v) :
    (k, v) ∈ l := by
  induction l with
  | nil => cases h
  | cons p t ih =>
    simp only [lastWith] at h
    cases ht : lastWith t k with
    | some w => rw [ht] at h; cases h; exact List.mem_cons_of_mem _ (ih ht)
    | none =>
      rw [ht] at h
      by_cases e : p.1 = k
      · simp only [e, if_true, Option.some.injEq] at h
        subst h; subst e; simp
      · simp [e] at h

/-- with pairwise distinct keys every pair is the last of its key -/
theorem lastWith_of_nodup (l : List (Nat × β)) (hn : (l.map (·.1)).Nodup) (p : Nat × β) (hp : p ∈ l) :
    lastWith l p.1 = some p.2 := by
  induction l with
  | nil => cases hp
  | cons q t ih =>
    simp only [List.map_cons, List.nodup_cons] at hn
    simp only [lastWith]
    rcases List.mem_cons.mp hp with rfl | ht
    · have : lastWith t p.1 = none := (lastWith_eq_none_iff t p.1).mpr hn.1
      simp [this]
    · rw [ih hn.2 ht]

theorem foldl_upsertG_keys_nodup (l m : List (Nat × β)) (hm : (m.map (·.1)).Nodup) :
    ((l.foldl (fun m kv => ExecMap.upsertG m kv.1 kv.2) m).map (·.1)).Nodup := by
  induction l generalizing m with
  | nil => simpa
  | cons p t ih =>
    apply ih
    rw [keys_upsertG]
    split
    · exact hm
    · rename_i hn
      rw [List.nodup_append]
      refine ⟨hm, by simp, ?_⟩
      intro a ha b hb
      simp only [List.mem_cons, List.not_mem_nil, or_false] at hb
      subst hb
      intro e; subst e; exact hn ha

/-- a hash map holds every key once -/
theorem collectG_keys_nodup (l : List (Nat × β)) : ((ExecMap.collectG l).map (·.1)).Nodup :=
  foldl_upsertG_keys_nodup l [] (by simp)

theorem lookup_isSome_iff_mem_keys (m : List (Nat × β)) (k : Nat) :
    (m.lookup k).isSome ↔ k ∈ m.map (·.1) := by
  induction m with
  | nil => simp [List.lookup]
  | cons h t ih =>
    obtain ⟨a, b⟩ := h
    simp only [List.lookup]
    split
    · rename_i e; simp only [beq_iff_eq] at e; subst e; simp
    · rename_i e
      have : ¬ k = a := by simpa using e
      simp [ih, this]

/-- the keys of the collected map are exactly the keys that occur -/
theorem mem_collectG_keys (l : List (Nat × β)) (k : Nat) :
    k ∈ (ExecMap.collectG l).map (·.1) ↔ k ∈ l.map (·.1) := by
  rw [← lookup_isSome_iff_mem_keys, lookup_collectG]
  have := lastWith_eq_none_iff l k
  cases h : lastWith l k with
  | none => simp [this.mp h]
  | some v =>
    simp only [Option.isSome_some, true_iff]
    exact Classical.byContradiction fun hn => by simp [this.mpr hn] at h

theorem lookup_eq_some_iff_memG (m : List (Nat × β)) (hn : (m.map (·.1)).Nodup) (k : Nat) (v : β) :
    m.lookup k = some v ↔ (k, v) ∈ m := by
  induction m with
  | nil => simp [List.lookup]
  | cons x t ih =>
    obtain ⟨a, b⟩ := x
    simp only [List.map_cons, List.nodup_cons] at hn
    simp only [List.lookup]
    split
    · rename_i e; simp only [beq_iff_eq] at e; subst e
      constructor
      · intro h; cases h; simp
      · intro h
        rcases List.mem_cons.mp h with h | h
        · cases h; rfl
        · exact absurd (List.mem_map_of_mem (f := (·.1)) h) hn.1
    · rename_i e
      have hne : ¬ k = a := by simpa using e
      rw [ih hn.2]
      constructor
      · intro h; exact List.mem_cons_of_mem _ h
      · intro h
        rcases List.mem_cons.mp h with h | h
        · cases h; exact absurd rfl hne
        · exact h

end assoc

/-! ### `mapE` pointwise -/
section mapE
variable {ε α γ : Type}

theorem mapE_ok_iff (f : α → Except ε γ) (l : List α) (ys : List γ) :
    ExecMap.mapE f l = .ok ys ↔ l.map f = ys.map .ok := by
  induction l generalizing ys with
  | nil => cases ys <;> simp [ExecMap.mapE]
  | cons x t ih =>
    simp only [ExecMap.mapE]
    cases hx : f x with
    | error e => cases ys <;> simp [hx]
    | ok y =>
      cases ht : ExecMap.mapE f t with
      | error e =>
        cases ys with
        | nil => simp
        | cons y' ys' =>
          simp only [List.map_cons, hx, List.cons.injEq, Except.ok.injEq, reduceCtorEq, false_iff, not_and]
          intro _ h
          rw [← ih] at h; rw [ht] at h; cases h
      | ok zs =>
        have := (ih zs).mp ht
        cases ys with
        | nil => simp
        | cons y' ys' =>
          simp only [List.map_cons, hx, List.cons.injEq, Except.ok.injEq]
          constructor
          · rintro ⟨rfl, rfl⟩; exact ⟨rfl, this⟩
          · rintro ⟨rfl, h⟩
            refine ⟨rfl, ?_⟩
            rw [← ih] at h; rw [ht] at h; cases h; rfl

/-- `mapE` fails with the error of the FIRST failing element. -/
theorem mapE_error_iff (f : α → Except ε γ) (l : List α) (e : ε) :
    ExecMap.mapE f l = .error e ↔
      ∃ pre x post, l = pre ++ x :: post ∧ (∀ y ∈ pre, ∃ z, f y = .ok z) ∧ f x = .error e := by
  induction l with
  | nil => simp [ExecMap.mapE]
  | cons a t ih =>
    simp only [ExecMap.mapE]
    cases ha : f a with
    | error e' =>
      constructor
      · intro h; cases h; exact ⟨[], a, t, rfl, by simp, ha⟩
      · rintro ⟨pre, x, post, hl, hpre, hx⟩
        cases pre with
        | nil => simp only [List.nil_append, List.cons.injEq] at hl; obtain ⟨rfl, _⟩ := hl; rw [ha] at hx; cases hx; rfl
        | cons p ps =>
          simp only [List.cons_append, List.cons.injEq] at hl
          obtain ⟨rfl, _⟩ := hl
          obtain ⟨z, hz⟩ := hpre a (by simp)
          rw [ha] at hz; cases hz
    | ok y =>
      cases ht : ExecMap.mapE f t with
      | error e' =>
        constructor
        · intro h; cases h
          obtain ⟨pre, x, post, hl, hpre, hx⟩ := ih.mp ht
          refine ⟨a :: pre, x, post, by simp [hl], ?_, hx⟩
          intro y hy
          rcases List.mem_cons.mp hy with rfl | hy
          · exact ⟨_, ha⟩
          · exact hpre y hy
        · rintro ⟨pre, x, post, hl, hpre, hx⟩
          cases pre with
          | nil => simp only [List.nil_append, List.cons.injEq] at hl; obtain ⟨rfl, _⟩ := hl; rw [ha] at hx; cases hx
          | cons p ps =>
            simp only [List.cons_append, List.cons.injEq] at hl
            obtain ⟨rfl, rfl⟩ := hl
            have := ih.mpr ⟨ps, x, post, rfl, fun y hy => hpre y (List.mem_cons_of_mem _ hy), hx⟩
            rw [ht] at this; cases this; rfl
      | ok zs =>
        constructor
        · intro h; cases h
        · rintro ⟨pre, x, post, hl, hpre, hx⟩
          cases pre with
          | nil => simp only [List.nil_append, List.cons.injEq] at hl; obtain ⟨rfl, _⟩ := hl; rw [ha] at hx; cases hx
          | cons p ps =>
            simp only [List.cons_append, List.cons.injEq] at hl
            obtain ⟨rfl, rfl⟩ := hl
            have := ih.mpr ⟨ps, x, post, rfl, fun y hy => hpre y (List.mem_cons_of_mem _ hy), hx⟩
            rw [ht] at this; cases this

end mapE

/-! ### the per-instrument closure -/

theorem assetName_ok_iff (ii : Indexed) (k n : Nat) :
    assetName ii k = .ok n ↔ (ii.findAsset k).map (·.asset.nameExchange) = some n := by
  unfold assetName
  cases ii.findAsset k <;> simp

theorem assetName_error (ii : Indexed) (k : Nat) (e : Panic) (h : assetName ii k = .error e) :
    e = .unknownAsset ∧ ii.findAsset k = none := by
  unfold assetName at h
  cases hk : ii.findAsset k <;> simp_all

theorem mockKind_ok_iff (k k' : Kind Nat) : mockKind k = .ok k' ↔ k = .spot ∧ k' = .spot := by
  cases k <;> simp [mockKind, eq_comm]

theorem mockKind_error_iff (k : Kind Nat) (e : Panic) :
    mockKind k = .error e ↔ k ≠ .spot ∧ e = .unsupportedKind := by
  cases k <;> simp [mockKind, eq_comm]

theorem mockSpec_ok_iff (ii : Indexed) (s s' : Option (Spec Nat)) :
    mockSpec ii s = .ok s' ↔
      specMapOpt (fun k => (ii.findAsset k).map (·.asset.nameExchange)) s = some s' := by
  cases s with
  | none => simp [mockSpec, specMapOpt, eq_comm]
  | some s =>
    obtain ⟨pm, tk, u, qm, qi, nm⟩ := s
    cases u with
    | asset a =>
      simp only [mockSpec, mockUnit, assetName, specMapOpt, Units.mapOpt]
      cases ii.findAsset a <;> simp [eq_comm]
    | contract => simp [mockSpec, mockUnit, specMapOpt, Units.mapOpt, eq_comm]
    | quote => simp [mockSpec, mockUnit, specMapOpt, Units.mapOpt, eq_comm]

theorem mockSpec_error_iff (ii : Indexed) (s : Option (Spec Nat)) (e : Panic) :
    mockSpec ii s = .error e ↔
      specMapOpt (fun k => (ii.findAsset k).map (·.asset.nameExchange)) s = none ∧ e = .unknownAsset := by
  cases s with
  | none => simp [mockSpec, specMapOpt]
  | some s =>
    obtain ⟨pm, tk, u, qm, qi, nm⟩ := s
    cases u with
    | asset a =>
      simp only [mockSpec, mockUnit, assetName, specMapOpt, Units.mapOpt]
      cases ii.findAsset a <;> simp [eq_comm]
    | contract => simp [mockSpec, mockUnit, specMapOpt, Units.mapOpt]
    | quote => simp [mockSpec, mockUnit, specMapOpt, Units.mapOpt]

/-- The closure succeeds exactly on spot instruments all of whose asset indices resolve, and then
returns the instrument in the exchange's vocabulary under its own exchange name. -/
theorem mockEntry_ok_iff (ii : Indexed) (i : IInstrument) (p : Nat × MInstrument) :
    mockEntry ii i = .ok p ↔ i.kind = .spot ∧ p.1 = i.nameExchange ∧ nativeI ii i = some p.2 := by
  obtain ⟨n, e⟩ := p
  simp only [mockEntry, nativeI, Instrument.mapAssetKeyWithLookup, Instrument.mapExchangeKey]
  cases hk : i.kind with
  | spot =>
    simp only [mockKind, Kind.mapOpt]
    cases hs : mockSpec ii i.spec with
    | error er =>
      have := (mockSpec_error_iff ii i.spec er).mp hs
      simp only [this.1]
      cases (ii.findAsset i.base) <;> cases (ii.findAsset i.quote) <;> simp
    | ok s' =>
      have := (mockSpec_ok_iff ii i.spec s').mp hs
      simp only [this, assetName]
      cases (ii.findAsset i.base) <;> cases (ii.findAsset i.quote) <;> simp [eq_comm]
  | perpetual s a => simp [mockKind]
  | future s a x => simp [mockKind]
  | option s a p x y k => simp [mockKind]

theorem mockEntry_error_iff (ii : Indexed) (i : IInstrument) (e : Panic) :
    mockEntry ii i = .error e ↔
      (i.kind ≠ .spot ∧ e = .unsupportedKind) ∨ (i.kind = .spot ∧ nativeI ii i = none ∧ e = .unknownAsset) := by
  simp only [mockEntry, nativeI, Instrument.mapAssetKeyWithLookup, Instrument.mapExchangeKey]
  cases hk : i.kind with
  | spot =>
    simp only [mockKind, Kind.mapOpt]
    cases hs : mockSpec ii i.spec with
    | error er =>
      have := (mockSpec_error_iff ii i.spec er).mp hs
      simp only [this.1, this.2]
      cases (ii.findAsset i.base) <;> cases (ii.findAsset i.quote) <;> simp [eq_comm]
    | ok s' =>
      have := (mockSpec_ok_iff ii i.spec s').mp hs
      simp only [this, assetName]
      cases (ii.findAsset i.base) <;> cases (ii.findAsset i.quote) <;> simp [eq_comm]
  | perpetual s a => simp [mockKind, eq_comm]
  | future s a x => simp [mockKind, eq_comm]
  | option s a p x y k => simp [mockKind, eq_comm]

/-! ### the table -/

theorem mem_ofExchange (ii : Indexed) (ex : Nat) (i : IInstrument) :
    i ∈ ofExchange ii ex ↔ ∃ x ∈ ii.instruments, x.value.exchange.value = ex ∧ x.value = i := by
  simp only [ofExchange, List.mem_map, List.mem_filter, beq_iff_eq]
  constructor
  · rintro ⟨x, ⟨hx, he⟩, rfl⟩; exact ⟨x, hx, he, rfl⟩
  · rintro ⟨x, hx, he, rfl⟩; exact ⟨x, ⟨hx, he⟩, rfl⟩

theorem ofExchange_exchange (ii : Indexed) (ex : Nat) (i : IInstrument) (h : i ∈ ofExchange ii ex) :
    i.exchange.value = ex := by
  obtain ⟨x, _, he, rfl⟩ := (mem_ofExchange ii ex i).mp h
  exact he

theorem map_ok_inj {ε α : Type} (l1 l2 : List α)
    (h : l1.map (Except.ok : α → Except ε α) = l2.map .ok) : l1 = l2 := by
  induction l1 generalizing l2 with
  | nil => cases l2 <;> simp_all
  | cons a t ih =>
    cases l2 with
    | nil => simp at h
    | cons b u =>
      simp only [List.map_cons, List.cons.injEq, Except.ok.injEq] at h
      rw [h.1, ih u h.2]

theorem genMock_ok_iff (ii : Indexed) (ex : Nat) (t : Table) :
    genMockInstruments ii ex = .ok t ↔
      ∃ pairs, (ofExchange ii ex).map (mockEntry ii) = pairs.map .ok ∧ t = ExecMap.collectG pairs := by
  unfold genMockInstruments
  cases h : ExecMap.mapE (mockEntry ii) (ofExchange ii ex) with
  | error e =>
    simp only [reduceCtorEq, false_iff, not_exists, not_and]
    intro pairs hp
    rw [← mapE_ok_iff, h] at hp; cases hp
  | ok pairs =>
    have hp := (mapE_ok_iff _ _ _).mp h
    simp only [Except.ok.injEq]
    constructor
    · rintro rfl; exact ⟨pairs, hp, rfl⟩
    · rintro ⟨pairs', hp', rfl⟩
      rw [hp] at hp'
      rw [map_ok_inj _ _ hp']

theorem genMock_error_iff (ii : Indexed) (ex : Nat) (e : Panic) :
    genMockInstruments ii ex = .error e ↔
      ∃ pre x post, ofExchange ii ex = pre ++ x :: post ∧ (∀ y ∈ pre, ∃ z, mockEntry ii y = .ok z) ∧
        mockEntry ii x = .error e := by
  unfold genMockInstruments
  rw [← mapE_error_iff]
  cases h : ExecMap.mapE (mockEntry ii) (ofExchange ii ex) <;> simp

/-- pairs produced from a list of instruments: last pair with key `n` = last instrument named `n` -/
theorem lastWith_pairs (ii : Indexed) (l : List IInstrument) (pairs : List (Nat × MInstrument))
    (h : l.map (mockEntry ii) = pairs.map .ok) (n : Nat) :
    lastWith pairs n = (lastNamed l n).bind (nativeI ii) := by
  induction l generalizing pairs with
  | nil =>
    cases pairs with
    | nil => rfl
    | cons p ps => simp at h
  | cons i t ih =>
    cases pairs with
    | nil => simp at h
    | cons p ps =>
      simp only [List.map_cons, List.cons.injEq] at h
      obtain ⟨hp, ht⟩ := h
      obtain ⟨_, hn, hnat⟩ := (mockEntry_ok_iff ii i p).mp hp
      simp only [lastWith, lastNamed, ih ps ht]
      cases hl : lastNamed t n with
      | some j =>
        simp only [Option.bind_some]
        -- `j` is one of `t`, whose closure succeeded: `nativeI` is `some`
        have hj : ∃ e, nativeI ii j = some e := by
          have hmem : j ∈ t := by
            clear ih ht hp hn hnat
            induction t with
            | nil => simp [lastNamed] at hl
            | cons a u ihu =>
              simp only [lastNamed] at hl
              cases hu : lastNamed u n with
              | some k => rw [hu] at hl; cases hl; exact List.mem_cons_of_mem _ (ihu hu)
              | none =>
                rw [hu] at hl
                by_cases e : a.nameExchange = n
                · simp [e] at hl; subst hl; simp
                · simp [e] at hl
          have : mockEntry ii j ∈ t.map (mockEntry ii) := List.mem_map_of_mem hmem
          rw [ht] at this
          obtain ⟨q, _, hq⟩ := List.mem_map.mp this
          exact ⟨q.2, ((mockEntry_ok_iff ii j q).mp hq.symm).2.2⟩
        obtain ⟨e, he⟩ := hj
        simp [he]
      | none =>
        simp only [Option.bind_none]
        by_cases e : i.nameExchange = n
        · simp [hn, e, hnat]
        · simp [hn, e]

/-- Lookup in the generated table = the specification lookup (last instrument of that name). -/
theorem lookup_genMock (ii : Indexed) (ex : Nat) (t : Table) (h : genMockInstruments ii ex = .ok t)
    (n : Nat) : findInstrumentData t n = specLookup ii ex n := by
  obtain ⟨pairs, hp, rfl⟩ := (genMock_ok_iff ii ex t).mp h
  unfold findInstrumentData specLookup
  rw [lookup_collectG, lastWith_pairs ii _ pairs hp]

theorem lastNamed_mem (l : List IInstrument) (n : Nat) (j : IInstrument) (h : lastNamed l n = some j) :
    j ∈ l ∧ j.nameExchange = n := by
  induction l with
  | nil => simp [lastNamed] at h
  | cons a u ih =>
    simp only [lastNamed] at h
    cases hu : lastNamed u n with
    | some k => rw [hu] at h; cases h; exact ⟨List.mem_cons_of_mem _ (ih hu).1, (ih hu).2⟩
    | none =>
      rw [hu] at h
      by_cases e : a.nameExchange = n
      · simp [e] at h; subst h; exact ⟨by simp, e⟩
      · simp [e] at h

theorem lastNamed_eq_none_iff (l : List IInstrument) (n : Nat) :
    lastNamed l n = none ↔ ∀ j ∈ l, j.nameExchange ≠ n := by
  induction l with
  | nil => simp [lastNamed]
  | cons a u ih =>
    simp only [lastNamed, List.mem_cons, forall_eq_or_imp]
    cases hu : lastNamed u n with
    | some k =>
      have := lastNamed_mem u n k hu
      simp only [reduceCtorEq, false_iff, not_and]
      intro _ h; exact h k this.1 this.2
    | none =>
      have := ih.mp hu
      by_cases e : a.nameExchange = n
      · simp [e]
      · simp only [e, if_false, true_iff]
        exact ⟨e, this⟩

/-- If no two instruments of the list share a name, the one named `n` is found. -/
theorem lastNamed_of_unique (l : List IInstrument)
    (hu : ∀ a ∈ l, ∀ b ∈ l, a.nameExchange = b.nameExchange → a = b)
    (i : IInstrument) (hi : i ∈ l) : lastNamed l i.nameExchange = some i := by
  cases h : lastNamed l i.nameExchange with
  | none => exact absurd rfl ((lastNamed_eq_none_iff l _).mp h i hi)
  | some j =>
    obtain ⟨hj, hn⟩ := lastNamed_mem l _ j h
    rw [hu j hj i hi hn]

/-! ### builder output (C11) as a C04 collection -/

theorem map_key_enumerate {α : Type} (l : List α) :
    (enumerate l).map (·.key) = List.range l.length := by
  apply List.ext_getElem?; intro k
  rw [List.getElem?_map, getElem?_enumerate]
  by_cases hk : k < l.length
  · simp [List.getElem?_range hk, List.getElem?_eq_getElem hk]
  · have h1 : l[k]? = none := by rw [List.getElem?_eq_none_iff]; omega
    have h2 : (List.range l.length)[k]? = none := by rw [List.getElem?_eq_none_iff]; simpa using hk
    simp [h1, h2]

theorem indexed_toColl {defs : List Def} {ii : Indexed} (h : build defs = some ii) :
    ExecMap.Indexed (toColl ii) := by
  obtain ⟨h1, h2, _, _⟩ := build_some defs ii h
  have h3 := instruments_keys defs ii h
  refine ⟨?_, ?_, ?_⟩
  · simp only [toColl, List.map_map, List.length_map]
    rw [h1]; simpa [Function.comp_def, length_enumerate] using map_key_enumerate (sortedExchanges defs)
  · simp only [toColl, List.map_map, List.length_map]
    rw [h2]; simpa [Function.comp_def, length_enumerate] using map_key_enumerate (sortedAssets defs)
  · simp only [toColl, List.map_map, List.length_map]
    have : ii.instruments.map (·.key) = List.range ii.instruments.length := by
      conv => lhs; rw [h3]
      rw [map_key_enumerate]; simp
    simpa [Function.comp_def] using this

/-- position `k` of the asset table is entry `k` of the sorted distinct assets -/
theorem asset_at {defs : List Def} {ii : Indexed} (h : build defs = some ii) (k : Nat)
    (x : Keyed Nat ExchangeAsset) (hx : ii.assets[k]? = some x) :
    (sortedAssets defs)[k]? = some x.value := by
  obtain ⟨_, h2, _, _⟩ := build_some defs ii h
  rw [h2, getElem?_enumerate] at hx
  cases hs : (sortedAssets defs)[k]? with
  | none => simp [hs] at hx
  | some a => simp [hs] at hx; subst hx; rfl

/-- What the routing theorems of C04 need holds for every collection the builder produces. -/
theorem wfx_toColl {defs : List Def} {ii : Indexed} (h : build defs = some ii) :
    ExecMap.WFX (toColl ii) := by
  refine ⟨indexed_toColl h, ?_⟩
  obtain ⟨h1, _⟩ := build_some defs ii h
  simp only [toColl, List.map_map]
  have : ii.exchanges.map (·.value) = sortedExchanges defs := by rw [h1, map_value_enumerate]
  have e : (ii.exchanges.map ((fun (x : ExecMap.KExchange) => x.id) ∘ fun x => ⟨x.key, x.value⟩)) =
      ii.exchanges.map (·.value) := by simp [Function.comp_def]
  rw [e, this]
  exact nodup_sortedExchanges defs

/-- With unambiguous exchange names on `ex` the collection satisfies C04's `WF` for `ex`. -/
theorem wf_toColl {defs : List Def} {ii : Indexed} (h : build defs = some ii) (ex : Nat)
    (hu : UniqueNames defs ex) (ha : UniqueAssetNames defs ex) : ExecMap.WF (toColl ii) ex := by
  obtain ⟨hI, hN⟩ := wfx_toColl h
  refine ⟨hI, hN, ?_, ?_⟩
  · -- assets
    simp only [toColl]
    rw [List.pairwise_map, List.pairwise_iff_getElem]
    intro i j hi hj hij
    simp only
    rintro ⟨e1, e2, e3⟩
    have s1 := asset_at h i _ (List.getElem?_eq_getElem hi)
    have s2 := asset_at h j _ (List.getElem?_eq_getElem hj)
    have m1 := (mem_sortedAssets _ _).mp (List.mem_of_getElem? s1)
    have m2 := (mem_sortedAssets _ _).mp (List.mem_of_getElem? s2)
    have e := ha _ m1 _ m2 e1 e2 e3
    have hlt : i < (sortedAssets defs).length := (List.getElem?_eq_some_iff.mp s1).1
    have : i = j := (List.getElem?_inj hlt (nodup_sortedAssets defs)).mp (by rw [s1, s2, e])
    omega
  · -- instruments
    simp only [toColl]
    rw [List.pairwise_map, List.pairwise_iff_getElem]
    intro i j hi hj hij
    simp only
    rintro ⟨e1, e2, e3⟩
    obtain ⟨d1, s1, _, x1, _, _, n1, _⟩ :=
      build_instrument_at defs ii h i _ (List.getElem?_eq_getElem hi)
    obtain ⟨d2, s2, _, x2, _, _, n2, _⟩ :=
      build_instrument_at defs ii h j _ (List.getElem?_eq_getElem hj)
    have m1 : d1 ∈ specManaged defs ex := by
      simp only [specManaged, List.mem_filter, beq_iff_eq]
      exact ⟨(mem_sortedDefs _ _).mp (List.mem_of_getElem? s1), by rw [← x1, e1]⟩
    have m2 : d2 ∈ specManaged defs ex := by
      simp only [specManaged, List.mem_filter, beq_iff_eq]
      exact ⟨(mem_sortedDefs _ _).mp (List.mem_of_getElem? s2), by rw [← x2, e2]⟩
    have := hu d1 m1 d2 m2 (by rw [← n1, ← n2, e3])
    subst this
    have hlt : i < (sortedDefs defs).length := (List.getElem?_eq_some_iff.mp s1).1
    have : i = j := (List.getElem?_inj hlt (nodup_sortedDefs defs)).mp (by rw [s1, s2])
    omega

/-! ### fusing two asset-key traversals -/
section fuse
variable {E A B C : Type}

theorem kind_fuse (f : A → Option B) (g : A → Option C) (h : B → C) (k : Kind A) (k' : Kind B)
    (hf : k.mapOpt f = some k') (hfg : ∀ a b, f a = some b → g a = some (h b)) :
    k.mapOpt g = some (Kind.mapA h k') := by
  cases k with
  | spot => simp [Kind.mapOpt] at hf; subst hf; rfl
  | perpetual s a =>
    simp only [Kind.mapOpt, Option.map_eq_some_iff] at hf
    obtain ⟨b, hb, rfl⟩ := hf
    simp [Kind.mapOpt, hfg a b hb, Kind.mapA]
  | future s a e =>
    simp only [Kind.mapOpt, Option.map_eq_some_iff] at hf
    obtain ⟨b, hb, rfl⟩ := hf
    simp [Kind.mapOpt, hfg a b hb, Kind.mapA]
  | option s a p x e k =>
    simp only [Kind.mapOpt, Option.map_eq_some_iff] at hf
    obtain ⟨b, hb, rfl⟩ := hf
    simp [Kind.mapOpt, hfg a b hb, Kind.mapA]

theorem spec_fuse (f : A → Option B) (g : A → Option C) (h : B → C) (s : Option (Spec A))
    (s' : Option (Spec B)) (hf : specMapOpt f s = some s')
    (hfg : ∀ a b, f a = some b → g a = some (h b)) :
    specMapOpt g s = some (s'.map (Spec.mapA h)) := by
  cases s with
  | none => simp [specMapOpt] at hf; subst hf; rfl
  | some s =>
    obtain ⟨pm, tk, u, qm, qi, nm⟩ := s
    simp only [specMapOpt, Option.map_eq_some_iff] at hf
    obtain ⟨u', hu, rfl⟩ := hf
    cases u with
    | asset a =>
      simp only [Units.mapOpt, Option.map_eq_some_iff] at hu
      obtain ⟨b, hb, rfl⟩ := hu
      simp [specMapOpt, Units.mapOpt, hfg a b hb, Spec.mapA, Units.mapA]
    | contract => simp [Units.mapOpt] at hu; subst hu; simp [specMapOpt, Units.mapOpt, Spec.mapA, Units.mapA]
    | quote => simp [Units.mapOpt] at hu; subst hu; simp [specMapOpt, Units.mapOpt, Spec.mapA, Units.mapA]

/-- If `g` agrees with `h ∘ f` wherever `f` is defined, traversing with `g` gives the `f`-result
with `h` applied to every asset key. -/
theorem mapAsset_fuse (f : A → Option B) (g : A → Option C) (h : B → C) (i : Instrument E A)
    (i' : Instrument E B) (hf : i.mapAssetKeyWithLookup f = some i')
    (hfg : ∀ a b, f a = some b → g a = some (h b)) :
    i.mapAssetKeyWithLookup g = some (Instrument.mapA h i') := by
  obtain ⟨h1, h2, h3, h4, h5, h6, h7, h8⟩ := mapAsset_some f i i' hf
  have e1 := hfg _ _ h5
  have e2 := hfg _ _ h6
  have e3 := kind_fuse f g h _ _ h7 hfg
  have e4 := spec_fuse f g h _ _ h8 hfg
  simp [Instrument.mapAssetKeyWithLookup, e1, e2, e3, e4, Instrument.mapA, h1, h2, h3, h4]

/-- every asset key of the result is the image of an asset key of the argument -/
theorem mapAsset_refs (f : A → Option B) (i : Instrument E A) (i' : Instrument E B)
    (hf : i.mapAssetKeyWithLookup f = some i') :
    ∀ b ∈ i'.assetRefs, ∃ a ∈ i.assetRefs, f a = some b := by
  obtain ⟨_, _, _, _, h5, h6, h7, h8⟩ := mapAsset_some f i i' hf
  intro b hb
  rw [mem_assetRefs] at hb
  rcases hb with rfl | rfl | hb | hb
  · exact ⟨i.base, by simp [mem_assetRefs], h5⟩
  · exact ⟨i.quote, by simp [mem_assetRefs], h6⟩
  · cases hk : i.kind with
    | spot => rw [hk] at h7; simp [Kind.mapOpt] at h7; rw [← h7] at hb; simp [Kind.settlementAsset] at hb
    | perpetual s a =>
      rw [hk] at h7; simp only [Kind.mapOpt, Option.map_eq_some_iff] at h7
      obtain ⟨x, hx, hx'⟩ := h7
      rw [← hx'] at hb; simp only [Kind.settlementAsset, Option.some.injEq] at hb; subst hb
      exact ⟨a, by simp [mem_assetRefs, hk, Kind.settlementAsset], hx⟩
    | future s a e =>
      rw [hk] at h7; simp only [Kind.mapOpt, Option.map_eq_some_iff] at h7
      obtain ⟨x, hx, hx'⟩ := h7
      rw [← hx'] at hb; simp only [Kind.settlementAsset, Option.some.injEq] at hb; subst hb
      exact ⟨a, by simp [mem_assetRefs, hk, Kind.settlementAsset], hx⟩
    | option s a p y e k =>
      rw [hk] at h7; simp only [Kind.mapOpt, Option.map_eq_some_iff] at h7
      obtain ⟨x, hx, hx'⟩ := h7
      rw [← hx'] at hb; simp only [Kind.settlementAsset, Option.some.injEq] at hb; subst hb
      exact ⟨a, by simp [mem_assetRefs, hk, Kind.settlementAsset], hx⟩
  · cases hs : i.spec with
    | none => rw [hs] at h8; simp [specMapOpt] at h8; rw [← h8] at hb; simp [specUnitAsset] at hb
    | some sp =>
      obtain ⟨pm, tk, u, qm, qi, nm⟩ := sp
      rw [hs] at h8
      simp only [specMapOpt, Option.map_eq_some_iff] at h8
      obtain ⟨u', hu, hu'⟩ := h8
      cases u with
      | asset a =>
        simp only [Units.mapOpt, Option.map_eq_some_iff] at hu
        obtain ⟨x, hx, rfl⟩ := hu
        rw [← hu'] at hb; simp only [specUnitAsset, Option.some.injEq] at hb; subst hb
        exact ⟨a, by simp [mem_assetRefs, hs, specUnitAsset], hx⟩
      | contract => simp [Units.mapOpt] at hu; subst hu; rw [← hu'] at hb; simp [specUnitAsset] at hb
      | quote => simp [Units.mapOpt] at hu; subst hu; rw [← hu'] at hb; simp [specUnitAsset] at hb

end fuse

/-! ### builder output in the exchange's vocabulary -/

/-- Builder output never dangles: every asset index of every indexed instrument has an entry, so the
instrument can be read in the exchange's vocabulary. No hypothesis on the definitions. -/
theorem nativeI_total_of_build {defs : List Def} {ii : Indexed} (h : build defs = some ii)
    (k : Nat) (x : Keyed Nat IInstrument) (hx : ii.instruments[k]? = some x) :
    ∃ e, nativeI ii x.value = some e := by
  obtain ⟨ins, hb, hlen, hget⟩ := build_spec defs
  have hii : ii = tables defs ins := by rw [hb] at h; cases h; rfl
  have hk : k < (sortedDefs defs).length := by
    rw [← hlen]; rw [hii] at hx; exact (List.getElem?_eq_some_iff.mp hx).1
  have hd := hget k _ (List.getElem?_eq_getElem hk)
  rw [hii] at hx
  simp only [tables] at hx
  rw [hx] at hd
  -- unfold the closure
  simp only [indexInstrument] at hd
  split at hd
  · cases hd
  · rename_i ek hek
    split at hd
    · cases hd
    · rename_i i0 hi0
      simp only [Option.some.injEq] at hd
      have hv : x.value = i0 := by rw [hd]
      unfold nativeI
      rw [mapAsset_mapExchangeKey]
      suffices hs : ∃ e, x.value.mapAssetKeyWithLookup
          (fun k => (ii.findAsset k).map (·.asset.nameExchange)) = some e by
        obtain ⟨e, he⟩ := hs; exact ⟨_, by rw [he]; rfl⟩
      apply mapAsset_total
      intro b hb
      rw [hv] at hb
      obtain ⟨a, _, hfa⟩ := mapAsset_refs _ _ _ hi0 b hb
      obtain ⟨y, hy, _, _⟩ := findAsset_some _ _ _ _ hfa
      refine ⟨y.asset.nameExchange, ?_⟩
      rw [findAsset_eq defs ii h b, hy]; rfl

/-- Under C11's `WFAssets` the reading of the indexed instrument at position `k` is the native form
of the definition it was made from. -/
theorem nativeI_of_build_wf {defs : List Def} {ii : Indexed} (h : build defs = some ii)
    (hwf : WFAssets defs) (k : Nat) (x : Keyed Nat IInstrument) (hx : ii.instruments[k]? = some x) :
    ∃ d, (sortedDefs defs)[k]? = some d ∧ x.value.exchange.value = d.exchange ∧
      x.value.nameExchange = d.nameExchange ∧ nativeI ii x.value = some (native d) := by
  obtain ⟨d, hd, _, hev, _, _, hne, hres⟩ := build_instrument_at defs ii h k x hx
  refine ⟨d, hd, hev, hne, ?_⟩
  have hr := hres hwf
  simp only [resolve] at hr
  split at hr
  · cases hr
  · rename_i ex hex
    split at hr
    · cases hr
    · rename_i hv
      have hv' : ex.value = x.value.exchange.value := by simpa using hv
      rw [hv'] at hr
      unfold nativeI native
      refine mapAsset_fuse _ _ (·.nameExchange) _ _ hr ?_
      intro a b hab
      simp only [resolveAsset] at hab
      split at hab
      · rename_i y hy
        split at hab
        · simp only [Option.some.injEq] at hab
          have := asset_at h a y hy
          rw [findAsset_eq defs ii h a, this, ← hab]; rfl
        · cases hab
      · cases hab

/-- ... and then every asset index of the instrument points at an asset of the instrument's own
exchange (C11 `references_resolve`, used positionally). -/
theorem refs_own_exchange {defs : List Def} {ii : Indexed} (h : build defs = some ii)
    (hwf : WFAssets defs) (k : Nat) (x : Keyed Nat IInstrument) (hx : ii.instruments[k]? = some x)
    (b : Nat) (hb : b ∈ x.value.assetRefs) :
    ∃ y, ii.assets[b]? = some y ∧ y.value.exchange = x.value.exchange.value := by
  obtain ⟨d, _, _, _, _, _, _, hres⟩ := build_instrument_at defs ii h k x hx
  have hr := hres hwf
  simp only [resolve] at hr
  split at hr
  · cases hr
  · rename_i ex hex
    split at hr
    · cases hr
    · rename_i hv
      have hv' : ex.value = x.value.exchange.value := by simpa using hv
      -- every asset key of `x.value` is an argument on which `resolveAsset` is defined
      have htot : ∀ a ∈ (x.value.mapExchangeKey ex.value).assetRefs,
          ∃ c, resolveAsset ii.assets ex.value a = some c := by
        intro a ha
        obtain ⟨_, _, _, _, h5, h6, h7, h8⟩ := mapAsset_some _ _ _ hr
        rw [mem_assetRefs] at ha
        rcases ha with rfl | rfl | ha | ha
        · exact ⟨_, h5⟩
        · exact ⟨_, h6⟩
        · simp only [Instrument.mapExchangeKey] at ha h7
          cases hk : x.value.kind with
          | spot => rw [hk] at ha; simp [Kind.settlementAsset] at ha
          | perpetual s a' =>
            rw [hk] at ha h7; simp only [Kind.settlementAsset, Option.some.injEq] at ha; subst ha
            simp only [Kind.mapOpt, Option.map_eq_some_iff] at h7
            obtain ⟨c, hc, _⟩ := h7; exact ⟨c, hc⟩
          | future s a' e =>
            rw [hk] at ha h7; simp only [Kind.settlementAsset, Option.some.injEq] at ha; subst ha
            simp only [Kind.mapOpt, Option.map_eq_some_iff] at h7
            obtain ⟨c, hc, _⟩ := h7; exact ⟨c, hc⟩
          | option s a' p y e q =>
            rw [hk] at ha h7; simp only [Kind.settlementAsset, Option.some.injEq] at ha; subst ha
            simp only [Kind.mapOpt, Option.map_eq_some_iff] at h7
            obtain ⟨c, hc, _⟩ := h7; exact ⟨c, hc⟩
        · simp only [Instrument.mapExchangeKey] at ha h8
          cases hs : x.value.spec with
          | none => rw [hs] at ha; simp [specUnitAsset] at ha
          | some sp =>
            obtain ⟨pm, tk, u, qm, qi, nm⟩ := sp
            rw [hs] at ha h8
            cases u with
            | asset a' =>
              simp only [specUnitAsset, Option.some.injEq] at ha; subst ha
              simp only [specMapOpt, Units.mapOpt, Option.map_eq_some_iff] at h8
              obtain ⟨_, ⟨c, hc, _⟩, _⟩ := h8; exact ⟨c, hc⟩
            | contract => simp [specUnitAsset] at ha
            | quote => simp [specUnitAsset] at ha
      obtain ⟨c, hc⟩ := htot b (by simpa [assetRefs_mapExchangeKey] using hb)
      simp only [resolveAsset] at hc
      split at hc
      · rename_i y hy
        split at hc
        · rename_i he
          exact ⟨y, hy, by rw [he, hv']⟩
        · cases hc
      · cases hc

/-- Builder output, NO hypothesis on the definitions: every asset index of an indexed instrument
points at an asset entry of the instrument's own exchange (the closure of
`IndexedInstrumentsBuilder::build` looks assets up by (exchange id, internal name),
`find_asset_by_exchange_and_name_internal`). `refs_own_exchange` had C11's `WFAssets`. -/
theorem refs_own_exchange_w {defs : List Def} {ii : Indexed} (h : build defs = some ii)
    (k : Nat) (x : Keyed Nat IInstrument) (hx : ii.instruments[k]? = some x)
    (b : Nat) (hb : b ∈ x.value.assetRefs) :
    ∃ y, ii.assets[b]? = some y ∧ y.value.exchange = x.value.exchange.value := by
  obtain ⟨ins, hbd, hlen, hget⟩ := build_spec defs
  have hii : ii = tables defs ins := by rw [hbd] at h; cases h; rfl
  have hk : k < (sortedDefs defs).length := by
    rw [← hlen]; rw [hii] at hx; exact (List.getElem?_eq_some_iff.mp hx).1
  have hd := hget k _ (List.getElem?_eq_getElem hk)
  rw [hii] at hx
  simp only [tables] at hx
  rw [hx] at hd
  simp only [indexInstrument] at hd
  split at hd
  · cases hd
  · rename_i ek hek
    split at hd
    · cases hd
    · rename_i i0 hi0
      simp only [Option.some.injEq] at hd
      have hv : x.value = i0 := by rw [hd]
      rw [hv] at hb
      obtain ⟨a, _, hfa⟩ := mapAsset_refs _ _ _ hi0 b hb
      obtain ⟨y, hy, hye, _⟩ := findAsset_some _ _ _ _ hfa
      obtain ⟨h1, _⟩ := mapAsset_some _ _ _ hi0
      refine ⟨⟨b, y⟩, ?_, ?_⟩
      · rw [hii]; simp only [tables]; rw [getElem?_enumerate, hy]; rfl
      · rw [hv, h1]; simpa [Instrument.mapExchangeKey] using hye

/-! ### table: keys, entries, size -/

theorem pairs_keys (ii : Indexed) (l : List IInstrument) (pairs : List (Nat × MInstrument))
    (h : l.map (mockEntry ii) = pairs.map .ok) : pairs.map (·.1) = l.map (·.nameExchange) := by
  induction l generalizing pairs with
  | nil => cases pairs <;> simp_all
  | cons i t ih =>
    cases pairs with
    | nil => simp at h
    | cons p ps =>
      simp only [List.map_cons, List.cons.injEq] at h
      obtain ⟨hp, ht⟩ := h
      obtain ⟨_, hn, _⟩ := (mockEntry_ok_iff ii i p).mp hp
      simp [hn, ih ps ht]

theorem mem_pairs (ii : Indexed) (l : List IInstrument) (pairs : List (Nat × MInstrument))
    (h : l.map (mockEntry ii) = pairs.map .ok) (p : Nat × MInstrument) (hp : p ∈ pairs) :
    ∃ i ∈ l, mockEntry ii i = .ok p := by
  have : (Except.ok p : Except Panic _) ∈ pairs.map .ok := List.mem_map_of_mem hp
  rw [← h] at this
  obtain ⟨i, hi, he⟩ := List.mem_map.mp this
  exact ⟨i, hi, he⟩

theorem genMock_keys (ii : Indexed) (ex : Nat) (t : Table) (h : genMockInstruments ii ex = .ok t)
    (n : Nat) : n ∈ t.map (·.1) ↔ ∃ i ∈ ofExchange ii ex, i.nameExchange = n := by
  obtain ⟨pairs, hp, rfl⟩ := (genMock_ok_iff ii ex t).mp h
  rw [mem_collectG_keys, pairs_keys ii _ pairs hp]
  simp [List.mem_map]

theorem genMock_mem (ii : Indexed) (ex : Nat) (t : Table) (h : genMockInstruments ii ex = .ok t)
    (p : Nat × MInstrument) (hp : p ∈ t) :
    ∃ i ∈ ofExchange ii ex, i.kind = .spot ∧ p.1 = i.nameExchange ∧ nativeI ii i = some p.2 := by
  obtain ⟨pairs, hpairs, rfl⟩ := (genMock_ok_iff ii ex t).mp h
  have hl : (ExecMap.collectG pairs).lookup p.1 = some p.2 :=
    (lookup_eq_some_iff_memG _ (collectG_keys_nodup pairs) p.1 p.2).mpr hp
  rw [lookup_collectG] at hl
  have hm := lastWith_mem pairs p.1 p.2 hl
  obtain ⟨i, hi, he⟩ := mem_pairs ii _ pairs hpairs _ hm
  exact ⟨i, hi, (mockEntry_ok_iff ii i _).mp he⟩

theorem genMock_ok_iff_all (ii : Indexed) (ex : Nat) :
    (∃ t, genMockInstruments ii ex = .ok t) ↔
      ∀ i ∈ ofExchange ii ex, i.kind = .spot ∧ ∃ e, nativeI ii i = some e := by
  constructor
  · rintro ⟨t, h⟩ i hi
    obtain ⟨pairs, hp, _⟩ := (genMock_ok_iff ii ex t).mp h
    have : mockEntry ii i ∈ (ofExchange ii ex).map (mockEntry ii) := List.mem_map_of_mem hi
    rw [hp] at this
    obtain ⟨q, _, hq⟩ := List.mem_map.mp this
    obtain ⟨hk, _, hn⟩ := (mockEntry_ok_iff ii i q).mp hq.symm
    exact ⟨hk, _, hn⟩
  · intro hall
    cases h : genMockInstruments ii ex with
    | ok t => exact ⟨t, rfl⟩
    | error e =>
      obtain ⟨pre, x, post, hl, _, hx⟩ := (genMock_error_iff ii ex e).mp h
      obtain ⟨hk, e', he'⟩ := hall x (by rw [hl]; simp)
      rcases (mockEntry_error_iff ii x e).mp hx with ⟨hne, _⟩ | ⟨_, hnone, _⟩
      · exact absurd hk hne
      · rw [he'] at hnone; cases hnone

theorem collectG_length_le {β : Type} (l : List (Nat × β)) : (ExecMap.collectG l).length ≤ l.length := by
  have key : ∀ (l m : List (Nat × β)),
      (l.foldl (fun m kv => ExecMap.upsertG m kv.1 kv.2) m).length ≤ m.length + l.length := by
    intro l
    induction l with
    | nil => intro m; simp
    | cons p t ih =>
      intro m
      have h1 := ih (ExecMap.upsertG m p.1 p.2)
      have h2 : (ExecMap.upsertG m p.1 p.2).length ≤ m.length + 1 := by
        have := congrArg List.length (keys_upsertG m p.1 p.2)
        simp only [List.length_map] at this
        rw [this]; split <;> simp
      simp only [List.foldl_cons, List.length_cons]
      omega
  simpa [ExecMap.collectG] using key l []

theorem genMock_length_unique (ii : Indexed) (ex : Nat) (t : Table)
    (h : genMockInstruments ii ex = .ok t)
    (hu : ((ofExchange ii ex).map (·.nameExchange)).Nodup) :
    t.length = (ofExchange ii ex).length := by
  obtain ⟨pairs, hp, rfl⟩ := (genMock_ok_iff ii ex t).mp h
  have hk := pairs_keys ii _ pairs hp
  rw [ExecMap.collectG_of_nodup pairs (by rw [hk]; exact hu)]
  have := congrArg List.length hk
  simpa using this

theorem genMock_length_le (ii : Indexed) (ex : Nat) (t : Table)
    (h : genMockInstruments ii ex = .ok t) : t.length ≤ (ofExchange ii ex).length := by
  obtain ⟨pairs, hp, rfl⟩ := (genMock_ok_iff ii ex t).mp h
  have hk := congrArg List.length (pairs_keys ii _ pairs hp)
  have := collectG_length_le pairs
  simp only [List.length_map] at hk
  omega

theorem lastNamed_append (l1 l2 : List IInstrument) (n : Nat) :
    lastNamed (l1 ++ l2) n =
      match lastNamed l2 n with
      | some j => some j
      | none => lastNamed l1 n := by
  induction l1 with
  | nil => cases h : lastNamed l2 n <;> simp [lastNamed, h]
  | cons a t ih =>
    simp only [List.cons_append, lastNamed, ih]
    cases lastNamed l2 n <;> simp

/-! ### instruments of the exchange ↔ definitions of the exchange -/

theorem kind_mapOpt_spot {A B : Type} (f : A → Option B) (k : Kind A) (k' : Kind B)
    (h : k.mapOpt f = some k') : k' = .spot ↔ k = .spot := by
  cases k with
  | spot => simp [Kind.mapOpt] at h; subst h; simp
  | perpetual s a =>
    simp only [Kind.mapOpt, Option.map_eq_some_iff] at h; obtain ⟨_, _, rfl⟩ := h; simp
  | future s a e =>
    simp only [Kind.mapOpt, Option.map_eq_some_iff] at h; obtain ⟨_, _, rfl⟩ := h; simp
  | option s a p x e q =>
    simp only [Kind.mapOpt, Option.map_eq_some_iff] at h; obtain ⟨_, _, rfl⟩ := h; simp

/-- the kind of an indexed instrument is spot iff the definition's is (no hypothesis) -/
theorem build_kind {defs : List Def} {ii : Indexed} (h : build defs = some ii)
    (k : Nat) (x : Keyed Nat IInstrument) (hx : ii.instruments[k]? = some x) (d : Def)
    (hd : (sortedDefs defs)[k]? = some d) : x.value.kind = .spot ↔ d.kind = .spot := by
  obtain ⟨ins, hb, hlen, hget⟩ := build_spec defs
  have hii : ii = tables defs ins := by rw [hb] at h; cases h; rfl
  have hq := hget k d hd
  rw [hii] at hx
  simp only [tables] at hx
  rw [hx] at hq
  simp only [indexInstrument] at hq
  split at hq
  · cases hq
  · rename_i ek hek
    split at hq
    · cases hq
    · rename_i i0 hi0
      simp only [Option.some.injEq] at hq
      have hv : x.value = i0 := by rw [hq]
      obtain ⟨_, _, _, _, _, _, h7, _⟩ := mapAsset_some _ _ _ hi0
      rw [hv]
      exact kind_mapOpt_spot _ _ _ h7

theorem def_of_ofExchange {defs : List Def} {ii : Indexed} (h : build defs = some ii) (ex : Nat)
    (i : IInstrument) (hi : i ∈ ofExchange ii ex) :
    ∃ d ∈ specManaged defs ex, i.nameExchange = d.nameExchange ∧ (i.kind = .spot ↔ d.kind = .spot) ∧
      (WFAssets defs → nativeI ii i = some (native d)) := by
  obtain ⟨x, hx, hex, rfl⟩ := (mem_ofExchange ii ex i).mp hi
  obtain ⟨k, hk⟩ := List.mem_iff_getElem?.mp hx
  obtain ⟨d, hd, _, hev, _, _, hne, _⟩ := build_instrument_at defs ii h k x hk
  have hm : d ∈ specManaged defs ex := by
    simp only [specManaged, List.mem_filter, beq_iff_eq]
    exact ⟨(mem_sortedDefs _ _).mp (List.mem_of_getElem? hd), by rw [← hev, hex]⟩
  refine ⟨d, hm, hne, build_kind h k x hk d hd, ?_⟩
  intro hwf
  obtain ⟨d', hd', _, _, hn⟩ := nativeI_of_build_wf h hwf k x hk
  rw [hd] at hd'; cases hd'; exact hn

theorem ofExchange_of_def {defs : List Def} {ii : Indexed} (h : build defs = some ii) (ex : Nat)
    (d : Def) (hd : d ∈ specManaged defs ex) :
    ∃ i ∈ ofExchange ii ex, i.nameExchange = d.nameExchange ∧ (i.kind = .spot ↔ d.kind = .spot) ∧
      (WFAssets defs → nativeI ii i = some (native d)) := by
  simp only [specManaged, List.mem_filter, beq_iff_eq] at hd
  obtain ⟨hdm, hde⟩ := hd
  obtain ⟨k, hk⟩ := List.mem_iff_getElem?.mp ((mem_sortedDefs defs d).mpr hdm)
  obtain ⟨_, _, _, hget⟩ := build_some defs ii h
  obtain ⟨i, hi, hev, _, _, hne, _⟩ := hget k d hk
  have hmem : i ∈ ofExchange ii ex :=
    (mem_ofExchange ii ex i).mpr ⟨⟨k, i⟩, List.mem_of_getElem? hi, by simp [hev, hde], rfl⟩
  refine ⟨i, hmem, hne, build_kind h k ⟨k, i⟩ hi d hk, ?_⟩
  intro hwf
  obtain ⟨d', hd', _, _, hn⟩ := nativeI_of_build_wf h hwf k ⟨k, i⟩ hi
  rw [hk] at hd'; cases hd'; exact hn

/-- For builder output the mock exchange of `ex` can be set up exactly when every definition of `ex`
is spot; it never fails on a dangling asset index. -/
theorem genMock_build_ok_iff {defs : List Def} {ii : Indexed} (h : build defs = some ii) (ex : Nat) :
    (∃ t, genMockInstruments ii ex = .ok t) ↔ specSupported defs ex := by
  rw [genMock_ok_iff_all]
  constructor
  · intro hall d hd
    obtain ⟨i, hi, _, hk, _⟩ := ofExchange_of_def h ex d hd
    exact hk.mp (hall i hi).1
  · intro hs i hi
    obtain ⟨d, hd, _, hk, _⟩ := def_of_ofExchange h ex i hi
    obtain ⟨x, hx, _, rfl⟩ := (mem_ofExchange ii ex i).mp hi
    obtain ⟨k, hk'⟩ := List.mem_iff_getElem?.mp hx
    exact ⟨hk.mpr (hs d hd), nativeI_total_of_build h k x hk'⟩

theorem genMock_build_error {defs : List Def} {ii : Indexed} (h : build defs = some ii) (ex : Nat)
    (e : Panic) (he : genMockInstruments ii ex = .error e) : e = .unsupportedKind := by
  obtain ⟨pre, x, post, hl, _, hx⟩ := (genMock_error_iff ii ex e).mp he
  rcases (mockEntry_error_iff ii x e).mp hx with ⟨_, rfl⟩ | ⟨_, hnone, _⟩
  · rfl
  · have hmem : x ∈ ofExchange ii ex := by rw [hl]; simp
    obtain ⟨y, hy, _, rfl⟩ := (mem_ofExchange ii ex x).mp hmem
    obtain ⟨k, hk⟩ := List.mem_iff_getElem?.mp hy
    obtain ⟨e', he'⟩ := nativeI_total_of_build h k y hk
    rw [he'] at hnone; cases hnone

/-- Refinement to the definition-level specification: with well-formed assets (C11) and
unambiguous instrument names on `ex`, the lookup in the generated table is `specFind`. -/
theorem lookup_build {defs : List Def} {ii : Indexed} (h : build defs = some ii) (ex : Nat)
    (hwf : WFAssets defs) (hu : UniqueNames defs ex) (t : Table)
    (ht : genMockInstruments ii ex = .ok t) (n : Nat) :
    findInstrumentData t n = specFind defs ex n := by
  rw [lookup_genMock ii ex t ht, specLookup, specFind]
  cases hl : lastNamed (ofExchange ii ex) n with
  | some j =>
    obtain ⟨hj, hn⟩ := lastNamed_mem _ _ _ hl
    obtain ⟨d, hd, hne, _, hnat⟩ := def_of_ofExchange h ex j hj
    simp only [Option.bind_some, hnat hwf]
    cases hf : (specManaged defs ex).find? (fun d => d.nameExchange == n) with
    | none =>
      have := List.find?_eq_none.mp hf d hd
      simp only [beq_iff_eq] at this
      exact absurd (by rw [← hne, hn]) this
    | some d' =>
      have hm' := List.mem_of_find?_eq_some hf
      have hn' := List.find?_some hf
      simp only [beq_iff_eq] at hn'
      have : d = d' := hu d hd d' hm' (by rw [← hne, hn, hn'])
      rw [this]; rfl
  | none =>
    simp only [Option.bind_none]
    cases hf : (specManaged defs ex).find? (fun d => d.nameExchange == n) with
    | none => rfl
    | some d' =>
      have hm' := List.mem_of_find?_eq_some hf
      have hn' := List.find?_some hf
      simp only [beq_iff_eq] at hn'
      obtain ⟨i, hi, hne, _, _⟩ := ofExchange_of_def h ex d' hm'
      exact absurd (by rw [hne, hn']) ((lastNamed_eq_none_iff _ n).mp hl i hi)

/-! ### composition with the execution instrument map (C04) -/

theorem toColl_instrument (ii : Indexed) (i : Nat) :
    (toColl ii).instruments[i]? =
      (ii.instruments[i]?).map fun x => ⟨x.key, x.value.exchange.value, x.value.nameExchange⟩ := by
  simp [toColl]

theorem toColl_asset (ii : Indexed) (a : Nat) :
    (toColl ii).assets[a]? =
      (ii.assets[a]?).map fun x => ⟨x.key, x.value.exchange, x.value.asset.nameExchange⟩ := by
  simp [toColl]

/-- Every name the manager of `ex` can put into a request is a key of the mock table of `ex`:
`find_instrument_data` never fails for a request that came through the manager. -/
theorem manager_name_known {ii : Indexed} {ex : Nat} {m : ExecMap.EMap} {t : Table}
    (hI : ExecMap.Indexed (toColl ii)) (hm : ExecMap.genMap (toColl ii) ex = .ok m)
    (ht : genMockInstruments ii ex = .ok t) {i n : Nat} (h : m.findInstrumentName i = .ok n) :
    ∃ e, findInstrumentData t n = some e := by
  have A := ExecMap.agrees_of_indexed hI hm
  rw [ExecMap.findInstrumentName_eq A] at h
  have hs : ExecMap.specInstrumentName (toColl ii) ex i = some n := by
    cases hs : ExecMap.specInstrumentName (toColl ii) ex i with
    | none => rw [hs] at h; cases h
    | some n' => rw [hs] at h; injection h with h; rw [h]
  obtain ⟨k, hk, hex, hn⟩ := (ExecMap.specInstrumentName_some _ ex i n).mp hs
  rw [toColl_instrument] at hk
  cases hx : ii.instruments[i]? with
  | none => simp [hx] at hk
  | some x =>
    simp only [hx, Option.map_some, Option.some.injEq] at hk
    subst hk
    have hmem : x.value ∈ ofExchange ii ex :=
      (mem_ofExchange ii ex _).mpr ⟨x, List.mem_of_getElem? hx, hex, rfl⟩
    have hkey : n ∈ t.map (·.1) := (genMock_keys ii ex t ht n).mpr ⟨_, hmem, hn⟩
    have := (lookup_isSome_iff_mem_keys t n).mpr hkey
    unfold findInstrumentData
    cases hl : t.lookup n with
    | none => simp [hl] at this
    | some e => exact ⟨e, rfl⟩

theorem ofExchange_names_unique {defs : List Def} {ii : Indexed} (h : build defs = some ii)
    (ex : Nat) (hu : UniqueNames defs ex) :
    ∀ a ∈ ofExchange ii ex, ∀ b ∈ ofExchange ii ex, a.nameExchange = b.nameExchange → a = b := by
  intro a hma b hmb hn
  obtain ⟨x, hx, hxe, rfl⟩ := (mem_ofExchange ii ex a).mp hma
  obtain ⟨y, hy, hye, rfl⟩ := (mem_ofExchange ii ex b).mp hmb
  obtain ⟨i, hi⟩ := List.mem_iff_getElem?.mp hx
  obtain ⟨j, hj⟩ := List.mem_iff_getElem?.mp hy
  obtain ⟨d1, s1, _, x1, _, _, n1, _⟩ := build_instrument_at defs ii h i x hi
  obtain ⟨d2, s2, _, x2, _, _, n2, _⟩ := build_instrument_at defs ii h j y hj
  have m1 : d1 ∈ specManaged defs ex := by
    simp only [specManaged, List.mem_filter, beq_iff_eq]
    exact ⟨(mem_sortedDefs _ _).mp (List.mem_of_getElem? s1), by rw [← x1, hxe]⟩
  have m2 : d2 ∈ specManaged defs ex := by
    simp only [specManaged, List.mem_filter, beq_iff_eq]
    exact ⟨(mem_sortedDefs _ _).mp (List.mem_of_getElem? s2), by rw [← x2, hye]⟩
  have e := hu d1 m1 d2 m2 (by rw [← n1, ← n2, hn])
  subst e
  have hlt : i < (sortedDefs defs).length := (List.getElem?_eq_some_iff.mp s1).1
  have : i = j := (List.getElem?_inj hlt (nodup_sortedDefs defs)).mp (by rw [s1, s2])
  subst this
  rw [hi] at hj; cases hj; rfl

/-- The engine's view and the mock exchange's view of instrument index `i` of exchange `ex` agree:
the manager addresses it by its exchange name, the mock table holds under that name the native form
of exactly this instrument, the base / quote names of that entry translate back (on the same link)
to the instrument's own base / quote asset *indices*, and the name translates back to `i`. -/
theorem own_view_w {defs : List Def} {ii : Indexed} (h : build defs = some ii) (ex : Nat) (hu : UniqueNames defs ex) (ha : UniqueAssetNames defs ex)
    {m : ExecMap.EMap} {t : Table} (hm : ExecMap.genMap (toColl ii) ex = .ok m)
    (ht : genMockInstruments ii ex = .ok t) {i : Nat} {x : Keyed Nat IInstrument}
    (hx : ii.instruments[i]? = some x) (hex : x.value.exchange.value = ex) :
    m.findInstrumentName i = .ok x.value.nameExchange ∧
    m.findInstrumentIndex x.value.nameExchange = .ok i ∧
    ∃ e, findInstrumentData t x.value.nameExchange = some e ∧ nativeI ii x.value = some e ∧
      m.findAssetIndex e.base = .ok x.value.base ∧ m.findAssetIndex e.quote = .ok x.value.quote := by
  have hW := wf_toColl h ex hu ha
  have hA := ExecMap.agreesRev_of_wf hW hm
  -- instrument: index → name → index
  have hk : (toColl ii).instruments[i]? = some ⟨x.key, x.value.exchange.value, x.value.nameExchange⟩ := by
    rw [toColl_instrument, hx]; rfl
  have h1 : m.findInstrumentName i = .ok x.value.nameExchange := by
    rw [ExecMap.findInstrumentName_eq hA.toAgrees,
      (ExecMap.specInstrumentName_some _ ex i _).mpr ⟨_, hk, hex, rfl⟩]
  have h2 : m.findInstrumentIndex x.value.nameExchange = .ok i := by
    rw [ExecMap.findInstrumentIndex_eq hA, (ExecMap.specInstrumentIndex_some hW _ i).mpr ⟨_, hk, hex, rfl⟩]
  refine ⟨h1, h2, ?_⟩
  -- the table entry
  have hmem : x.value ∈ ofExchange ii ex :=
    (mem_ofExchange ii ex _).mpr ⟨x, List.mem_of_getElem? hx, hex, rfl⟩
  obtain ⟨e, he⟩ := nativeI_total_of_build h i x hx
  have hl : findInstrumentData t x.value.nameExchange = some e := by
    rw [lookup_genMock ii ex t ht, specLookup,
      lastNamed_of_unique _ (ofExchange_names_unique h ex hu) _ hmem]
    simpa using he
  refine ⟨e, hl, he, ?_⟩
  -- assets: the names in the entry are the names of the assets at the instrument's own indices
  unfold nativeI at he
  obtain ⟨_, _, _, _, h5, h6, _, _⟩ := mapAsset_some _ _ _ he
  simp only [Instrument.mapExchangeKey] at h5 h6
  have asset : ∀ (b n : Nat), b ∈ x.value.assetRefs →
      (ii.findAsset b).map (·.asset.nameExchange) = some n → m.findAssetIndex n = .ok b := by
    intro b n hb hn
    obtain ⟨y, hy, hye⟩ := refs_own_exchange_w h i x hx b hb
    have hfa : ii.findAsset b = some y.value := by
      rw [findAsset_eq defs ii h b]; exact asset_at h b y hy
    rw [hfa] at hn
    simp only [Option.map_some, Option.some.injEq] at hn
    have hka : (toColl ii).assets[b]? = some ⟨y.key, y.value.exchange, y.value.asset.nameExchange⟩ := by
      rw [toColl_asset, hy]; rfl
    rw [ExecMap.findAssetIndex_eq hA, ← hn,
      (ExecMap.specAssetIndex_some hW _ b).mpr ⟨_, hka, by rw [hye, hex], rfl⟩]
  exact ⟨asset _ _ (by simp [mem_assetRefs]) h5, asset _ _ (by simp [mem_assetRefs]) h6⟩

/-- (the version with C11's `WFAssets` among the hypotheses, kept under its old name; `own_view_w` does without) -/
theorem own_view {defs : List Def} {ii : Indexed} (h : build defs = some ii) (ex : Nat)
    (_hwf : WFAssets defs) (hu : UniqueNames defs ex) (ha : UniqueAssetNames defs ex)
    {m : ExecMap.EMap} {t : Table} (hm : ExecMap.genMap (toColl ii) ex = .ok m)
    (ht : genMockInstruments ii ex = .ok t) {i : Nat} {x : Keyed Nat IInstrument}
    (hx : ii.instruments[i]? = some x) (hex : x.value.exchange.value = ex) :
    m.findInstrumentName i = .ok x.value.nameExchange ∧
    m.findInstrumentIndex x.value.nameExchange = .ok i ∧
    ∃ e, findInstrumentData t x.value.nameExchange = some e ∧ nativeI ii x.value = some e ∧
      m.findAssetIndex e.base = .ok x.value.base ∧ m.findAssetIndex e.quote = .ok x.value.quote :=
  own_view_w h ex hu ha hm ht hx hex

/-! ### the builder -/

/-- `add_execution` in terms of C04's link: succeeds iff the exchange is indexed and not yet added;
the transmitter entry and the init future carry exactly that exchange's link. -/
theorem addExecution_ok_iff (ii : Indexed) (b b' : Builder) (ex : Nat) (client : Client) :
    addExecution ii b ex client = .ok b' ↔
      ∃ l, ExecMap.mkLink (toColl ii) ex = some l ∧ b.added.lookup ex = none ∧
        b' = { b with added := b.added ++ [(ex, l)],
                      initFutures := b.initFutures ++ [{ exchange := ex, index := l.index, map := l.map, client := client }] } := by
  unfold addExecution
  cases h : ExecMap.addExecution (toColl ii) b.added ex with
  | error e =>
    simp only [reduceCtorEq, false_iff, not_exists, not_and]
    intro l hl hnone
    unfold ExecMap.addExecution at h
    unfold ExecMap.mkLink at hl
    cases hg : ExecMap.genMap (toColl ii) ex with
    | error _ => rw [hg] at hl; cases hl
    | ok m => rw [hg] at h; simp only [hnone] at h; cases h
  | ok added =>
    obtain ⟨l, hl, hnone, rfl⟩ := ExecMap.addExecution_ok h
    have hlook : (b.added ++ [(ex, l)]).lookup ex = some l := by
      rw [List.lookup_append, hnone]; simp [List.lookup]
    simp only [hlook]
    constructor
    · intro hb; injection hb with hb; exact ⟨l, hl, hnone, hb.symm⟩
    · rintro ⟨l', hl', _, rfl⟩
      rw [hl] at hl'; cases hl'; rfl

theorem addExecution_error (ii : Indexed) (b : Builder) (ex : Nat) (client : Client) (e : AddError)
    (h : addExecution ii b ex client = .error e) :
    (e = .build .index ∧ ExecMap.mkLink (toColl ii) ex = none) ∨
    (e = .build .duplicate ∧ (b.added.lookup ex).isSome) := by
  unfold addExecution at h
  cases h1 : ExecMap.addExecution (toColl ii) b.added ex with
  | error e1 =>
    rw [h1] at h; simp only at h; injection h with h; subst h
    unfold ExecMap.addExecution at h1
    unfold ExecMap.mkLink
    cases hg : ExecMap.genMap (toColl ii) ex with
    | error _ => rw [hg] at h1; simp only at h1; injection h1 with h1; subst h1; left; simp
    | ok m =>
      rw [hg] at h1; simp only at h1
      cases hl : b.added.lookup ex with
      | none => rw [hl] at h1; cases h1
      | some l => rw [hl] at h1; simp only at h1; injection h1 with h1; subst h1; right; simp
  | ok added =>
    obtain ⟨l, hl, hnone, rfl⟩ := ExecMap.addExecution_ok h1
    have hlook : (b.added ++ [(ex, l)]).lookup ex = some l := by
      rw [List.lookup_append, hnone]; simp [List.lookup]
    rw [h1] at h; simp only [hlook] at h; cases h

/-- What holds of a builder after any sequence of successful `add_mock` / `add_live` calls
(all but the last clause also hold between the two halves of `add_mock`). -/
structure BInv' (ii : Indexed) (b : Builder) : Prop where
  added_link : ∀ ex l, b.added.lookup ex = some l → ExecMap.mkLink (toColl ii) ex = some l
  init_link : ∀ f ∈ b.initFutures,
    b.added.lookup f.exchange = some { client := f.exchange, index := f.index, map := f.map }
  init_keys : b.initFutures.map (·.exchange) = b.added.map (·.1)
  added_nodup : (b.added.map (·.1)).Nodup
  chan_lt : ∀ mf ∈ b.mockFutures, mf.chan < b.chans
  chan_nodup : (b.mockFutures.map (·.chan)).Nodup
  mock_table : ∀ mf ∈ b.mockFutures, genMockInstruments ii mf.config.exchange = .ok mf.table
  client_mock : ∀ f ∈ b.initFutures, ∀ chan, f.client = .mock chan →
    ∃ mf ∈ b.mockFutures, mf.chan = chan ∧ mf.config.exchange = f.exchange

structure BInv (ii : Indexed) (b : Builder) : Prop extends BInv' ii b where
  mock_client : ∀ mf ∈ b.mockFutures,
    ∃ f ∈ b.initFutures, f.client = .mock mf.chan ∧ f.exchange = mf.config.exchange

theorem binv_empty (ii : Indexed) : BInv ii {} where
  added_link := by intro ex l h; cases h
  init_link := by intro f hf; cases hf
  init_keys := rfl
  added_nodup := List.nodup_nil
  chan_lt := by intro mf hmf; cases hmf
  chan_nodup := List.nodup_nil
  mock_table := by intro mf hmf; cases hmf
  client_mock := by intro f hf; cases hf
  mock_client := by intro mf hmf; cases hmf

theorem mkLink_fields {c : ExecMap.Coll} {ex : Nat} {l : ExecMap.Link} (h : ExecMap.mkLink c ex = some l) :
    l.client = ex ∧ ExecMap.genMap c ex = .ok l.map ∧ l.index = l.map.exchange.key := by
  unfold ExecMap.mkLink at h
  cases hg : ExecMap.genMap c ex with
  | error _ => rw [hg] at h; cases h
  | ok m => rw [hg] at h; simp only [Option.some.injEq] at h; subst h; exact ⟨rfl, rfl, rfl⟩

theorem lookup_none_iff_not_mem_keys {β : Type} (m : List (Nat × β)) (k : Nat) :
    m.lookup k = none ↔ k ∉ m.map (·.1) := by
  rw [← lookup_isSome_iff_mem_keys]
  cases m.lookup k <;> simp

theorem binv_addExecution {ii : Indexed} {b b' : Builder} {ex : Nat} {client : Client}
    (hb : BInv' ii b) (h : addExecution ii b ex client = .ok b')
    (hc : ∀ chan, client = .mock chan → ∃ mf ∈ b.mockFutures, mf.chan = chan ∧ mf.config.exchange = ex)
    (hm : ∀ mf ∈ b.mockFutures,
      (∃ f ∈ b.initFutures, f.client = .mock mf.chan ∧ f.exchange = mf.config.exchange) ∨
      (client = .mock mf.chan ∧ ex = mf.config.exchange)) :
    BInv ii b' := by
  obtain ⟨l, hl, hnone, rfl⟩ := (addExecution_ok_iff ii b b' ex client).mp h
  obtain ⟨hlc, hlm, hli⟩ := mkLink_fields hl
  have hnk : ex ∉ b.added.map (·.1) := (lookup_none_iff_not_mem_keys _ _).mp hnone
  refine ⟨⟨?_, ?_, ?_, ?_, hb.chan_lt, hb.chan_nodup, hb.mock_table, ?_⟩, ?_⟩
  · intro e l' h'
    simp only [List.lookup_append] at h'
    cases h0 : b.added.lookup e with
    | some l0 => rw [h0] at h'; simp at h'; subst h'; exact hb.added_link e l0 h0
    | none =>
      rw [h0] at h'; simp only [Option.none_or, List.lookup] at h'
      split at h'
      · rename_i he; simp only [beq_iff_eq] at he; subst he; cases h'; exact hl
      · cases h'
  · intro f hf
    simp only [List.mem_append, List.mem_cons, List.not_mem_nil, or_false] at hf
    rcases hf with hf | rfl
    · have h1 := hb.init_link f hf
      simp [List.lookup_append, h1]
    · simp only [List.lookup_append, hnone, Option.none_or, List.lookup, beq_self_eq_true]
      cases l; simp_all
  · simp [hb.init_keys]
  · simp only [List.map_append, List.map_cons, List.map_nil]
    rw [List.nodup_append]
    refine ⟨hb.added_nodup, by simp, ?_⟩
    intro a ha c hc'
    simp only [List.mem_cons, List.not_mem_nil, or_false] at hc'
    subst hc'; intro e; subst e; exact hnk ha
  · intro f hf chan hfc
    simp only [List.mem_append, List.mem_cons, List.not_mem_nil, or_false] at hf
    rcases hf with hf | rfl
    · exact hb.client_mock f hf chan hfc
    · exact hc chan hfc
  · intro mf hmf
    rcases hm mf hmf with ⟨f, hf, h1, h2⟩ | ⟨h1, h2⟩
    · exact ⟨f, by simp [hf], h1, h2⟩
    · exact ⟨⟨ex, l.index, l.map, client⟩, by simp, h1, h2.symm ▸ rfl⟩

/-- the builder between the two halves of `add_mock` -/
def pushMock (b : Builder) (c : MockConfig) (table : Table) : Builder :=
  { b with chans := b.chans + 1,
           mockFutures := b.mockFutures ++ [{ chan := b.chans, config := c, table := table }] }

theorem addMock_ok_iff (ii : Indexed) (b b' : Builder) (c : MockConfig) :
    addMock ii b c = .ok b' ↔
      ∃ table, genMockInstruments ii c.exchange = .ok table ∧
        addExecution ii (pushMock b c table) c.exchange (.mock b.chans) = .ok b' := by
  unfold addMock pushMock
  cases h : genMockInstruments ii c.exchange with
  | error p => simp
  | ok table => simp

/-- The panic of the table generation comes first: `add_mock` panics exactly when
`generate_mock_exchange_instruments` does, whatever `add_execution` would have said. -/
theorem addMock_panic_iff (ii : Indexed) (b : Builder) (c : MockConfig) (p : Panic) :
    addMock ii b c = .error (.panic p) ↔ genMockInstruments ii c.exchange = .error p := by
  unfold addMock
  cases h : genMockInstruments ii c.exchange with
  | error q => simp
  | ok table =>
    simp only [reduceCtorEq, iff_false]
    intro he
    rcases addExecution_error ii _ _ _ _ he with ⟨h1, _⟩ | ⟨h1, _⟩ <;> cases h1

theorem binv_add {ii : Indexed} {b b' : Builder} {a : Add} (hb : BInv ii b)
    (h : add ii b a = .ok b') : BInv ii b' := by
  cases a with
  | live e =>
    refine binv_addExecution hb.toBInv' h (by intro chan hc; cases hc) ?_
    intro mf hmf; left; exact hb.mock_client mf hmf
  | mock c =>
    obtain ⟨table, ht, hadd⟩ := (addMock_ok_iff ii b b' c).mp h
    have hb1 : BInv' ii (pushMock b c table) := by
      unfold pushMock
      refine ⟨hb.added_link, hb.init_link, hb.init_keys, hb.added_nodup, ?_, ?_, ?_, ?_⟩
      · intro mf hmf
        simp only [List.mem_append, List.mem_cons, List.not_mem_nil, or_false] at hmf
        rcases hmf with hmf | rfl
        · have := hb.chan_lt mf hmf; simp only; omega
        · simp
      · simp only [List.map_append, List.map_cons, List.map_nil]
        rw [List.nodup_append]
        refine ⟨hb.chan_nodup, by simp, ?_⟩
        intro x hx y hy
        simp only [List.mem_cons, List.not_mem_nil, or_false] at hy
        subst hy
        obtain ⟨mf, hmf, rfl⟩ := List.mem_map.mp hx
        have := hb.chan_lt mf hmf; omega
      · intro mf hmf
        simp only [List.mem_append, List.mem_cons, List.not_mem_nil, or_false] at hmf
        rcases hmf with hmf | rfl
        · exact hb.mock_table mf hmf
        · exact ht
      · intro f hf chan hfc
        obtain ⟨mf, hmf, h1, h2⟩ := hb.client_mock f hf chan hfc
        exact ⟨mf, by simp [hmf], h1, h2⟩
    refine binv_addExecution hb1 hadd ?_ ?_
    · intro chan hc
      cases hc
      exact ⟨⟨b.chans, c, table⟩, by simp [pushMock], rfl, rfl⟩
    · intro mf hmf
      simp only [pushMock, List.mem_append, List.mem_cons, List.not_mem_nil, or_false] at hmf
      rcases hmf with hmf | rfl
      · left; exact hb.mock_client mf hmf
      · right; exact ⟨rfl, rfl⟩

theorem binv_addAll {ii : Indexed} {b b' : Builder} {adds : List Add} {k : Nat} (hb : BInv ii b)
    (h : addAll ii b adds k = .ok b') : BInv ii b' := by
  induction adds generalizing b k with
  | nil => simp only [addAll] at h; cases h; exact hb
  | cons a rest ih =>
    simp only [addAll] at h
    cases ha : add ii b a with
    | error e => rw [ha] at h; cases h
    | ok b1 => rw [ha] at h; exact ih (binv_add hb ha) h

/-- The transmitter table of the builder is C04's: mock or live makes no difference to it. -/
theorem addAll_added {ii : Indexed} {b b' : Builder} {adds : List Add} {k : Nat}
    (h : addAll ii b adds k = .ok b') :
    ExecMap.addExecutions (toColl ii) b.added (adds.map Add.exchange) = .ok b'.added := by
  induction adds generalizing b k with
  | nil => simp only [addAll] at h; cases h; rfl
  | cons a rest ih =>
    simp only [addAll] at h
    cases ha : add ii b a with
    | error e => rw [ha] at h; cases h
    | ok b1 =>
      rw [ha] at h
      have step : ExecMap.addExecution (toColl ii) b.added a.exchange = .ok b1.added := by
        cases a with
        | live e =>
          obtain ⟨l, hl, hnone, rfl⟩ := (addExecution_ok_iff ii b b1 e .live).mp ha
          unfold ExecMap.mkLink at hl
          unfold ExecMap.addExecution
          cases hg : ExecMap.genMap (toColl ii) e with
          | error _ => rw [hg] at hl; cases hl
          | ok m => rw [hg] at hl; simp only [Option.some.injEq] at hl; subst hl; simp [hnone, Add.exchange, hg]
        | mock c =>
          obtain ⟨table, _, hadd⟩ := (addMock_ok_iff ii b b1 c).mp ha
          obtain ⟨l, hl, hnone, rfl⟩ := (addExecution_ok_iff ii _ b1 c.exchange _).mp hadd
          unfold ExecMap.mkLink at hl
          unfold ExecMap.addExecution
          cases hg : ExecMap.genMap (toColl ii) c.exchange with
          | error _ => rw [hg] at hl; cases hl
          | ok m =>
            rw [hg] at hl; simp only [Option.some.injEq] at hl; subst hl
            have hnone' : b.added.lookup c.exchange = none := hnone
            simp [hnone', Add.exchange, hg, pushMock]
      simp only [List.map_cons, ExecMap.addExecutions, step]
      exact ih h

theorem addAll_counts {ii : Indexed} {b b' : Builder} {adds : List Add} {k : Nat}
    (h : addAll ii b adds k = .ok b') :
    b'.initFutures.length = b.initFutures.length + adds.length ∧
    b'.mockFutures.length = b.mockFutures.length +
      (adds.filter Add.isMock).length := by
  induction adds generalizing b k with
  | nil => simp only [addAll] at h; cases h; simp
  | cons a rest ih =>
    simp only [addAll] at h
    cases ha : add ii b a with
    | error e => rw [ha] at h; cases h
    | ok b1 =>
      rw [ha] at h
      obtain ⟨h1, h2⟩ := ih h
      cases a with
      | live e =>
        obtain ⟨l, _, _, rfl⟩ := (addExecution_ok_iff ii b b1 e .live).mp ha
        simp only [List.length_append, List.length_cons, List.length_nil] at h1 h2
        simp only [List.length_cons, List.filter_cons, Add.isMock, Bool.false_eq_true, if_false]
        constructor <;> omega
      | mock c =>
        obtain ⟨table, _, hadd⟩ := (addMock_ok_iff ii b b1 c).mp ha
        obtain ⟨l, _, _, rfl⟩ := (addExecution_ok_iff ii _ b1 c.exchange _).mp hadd
        simp only [pushMock, List.length_append, List.length_cons, List.length_nil] at h1 h2
        simp only [List.length_cons, List.filter_cons, Add.isMock, if_true]
        constructor <;> omega

/-! ### the running system -/

theorem openOrder_shape (s : MockExchange.State) (r : MockExchange.Req) :
    (MockExchange.openOrder s r).1.instruments = s.instruments ∧
    (MockExchange.openOrder s r).1.balances.length = s.balances.length := by
  rcases MockExchange.openOrder_cases s r with ⟨_, h⟩ | ⟨_, _, h⟩ | ⟨u, _, _, _, h⟩ | ⟨u, c, _, _, _, _, h⟩ |
    ⟨u, c, _, _, _, _, _, h⟩ | ⟨u, c, _, _, _, _, _, h⟩ <;> rw [h] <;> simp

theorem step_shape (s : MockExchange.State) (t : Int) (rq : MockExchange.Request) :
    (MockExchange.step s t rq).1.instruments = s.instruments ∧
    (MockExchange.step s t rq).1.balances.length = s.balances.length := by
  cases rq with
  | openOrder r =>
    by_cases h : ∃ f, (MockExchange.openOrder (MockExchange.updateTime s t) r).2 = .accepted f
    · obtain ⟨f, hf⟩ := h
      rw [MockExchange.step_open_accepted hf]
      have := openOrder_shape (MockExchange.updateTime s t) r
      simp only [MockExchange.ackTrade, this.1, this.2]
      simp [MockExchange.updateTime]
    · rw [MockExchange.step_open_not_accepted (fun f hf => h ⟨f, hf⟩)]
      have := openOrder_shape (MockExchange.updateTime s t) r
      simp only [this.1, this.2]
      simp [MockExchange.updateTime]
  | _ => simp [MockExchange.step, MockExchange.updateTime]

/-- What holds of a spawned mock exchange task at all times. -/
structure MockInv (ii : Indexed) (mt : MockTask) : Prop where
  table : genMockInstruments ii mt.exchange = .ok mt.table
  instr : mt.st.instruments = mt.table.map fun e =>
    ({ base := mt.names.idxOf e.2.base, quote := mt.names.idxOf e.2.quote } : MockExchange.Instr)
  len : mt.st.balances.length = mt.names.length

theorem mockInv_spawn (ii : Indexed) (f : MockFuture)
    (h : genMockInstruments ii f.config.exchange = .ok f.table) : MockInv ii (spawnMock f) where
  table := h
  instr := by simp [spawnMock, MockExchange.init, toCfg]
  len := by simp [spawnMock, MockExchange.init, toCfg]

/-- `mockOpen` changes nothing of a task but its ledger state and the `dead` flag. -/
theorem mockOpen_fst (map : ExecMap.EMap) (m : MockTask) (name : Nat) (o : Open) :
    (mockOpen map m name o).1 = m ∨
    ∃ st' d, ((mockOpen map m name o).1 = { m with st := st', dead := d }) ∧
      st'.instruments = m.st.instruments ∧ st'.balances.length = m.st.balances.length := by
  unfold mockOpen
  simp only
  split
  · left; rfl
  · right
    have hs := step_shape m.st 0 (.openOrder (mockReq m.table name o))
    split <;> exact ⟨_, _, rfl, hs⟩

theorem mockInv_mockOpen {ii : Indexed} {m : MockTask} (h : MockInv ii m) (map : ExecMap.EMap)
    (name : Nat) (o : Open) :
    MockInv ii (mockOpen map m name o).1 ∧ (mockOpen map m name o).1.chan = m.chan ∧
      (mockOpen map m name o).1.exchange = m.exchange := by
  rcases mockOpen_fst map m name o with h1 | ⟨st', d, h1, h2, h3⟩
  · rw [h1]; exact ⟨h, rfl, rfl⟩
  · rw [h1]
    exact ⟨⟨h.table, by simpa [h2] using h.instr, by simpa [h3] using h.len⟩, rfl, rfl⟩

/-- `lookup` finds the pair at the position `idxOf` reports for the key. -/
theorem lookup_getElem_idxOf {β : Type} (t : List (Nat × β)) (k : Nat) (v : β) (h : t.lookup k = some v) :
    t[(t.map (·.1)).idxOf k]? = some (k, v) := by
  induction t with
  | nil => simp [List.lookup] at h
  | cons p ps ih =>
    obtain ⟨a, b⟩ := p
    simp only [List.lookup] at h
    rw [List.map_cons, List.idxOf_cons]
    split at h
    · rename_i e; simp only [beq_iff_eq] at e; subst e
      cases h
      simp
    · rename_i e
      have hne : (a == k) = false := by
        cases hak : a == k with
        | false => rfl
        | true => simp only [beq_iff_eq] at hak; subst hak; simp at e
      rw [hne]
      simpa using ih h

theorem getElem?_idxOf_of_lt (l : List Nat) (k : Nat) (h : l.idxOf k < l.length) :
    l[l.idxOf k]? = some k := by
  rw [List.getElem?_eq_getElem h, List.getElem_idxOf h]

/-- The events of one open request at the mock exchange, seen through the manager's map, under the
facts `own_view` provides: the instrument index is `i`, the spent asset's index is the instrument's
own quote (buy) / base (sell) index. -/
theorem mockOpen_events {ii : Indexed} {m : MockTask} (hinv : MockInv ii m) (map : ExecMap.EMap)
    (name : Nat) (o : Open) (e : MInstrument) (i bi qi : Nat)
    (he : findInstrumentData m.table name = some e)
    (hi : map.findInstrumentIndex name = .ok i)
    (hb : map.findAssetIndex e.base = .ok bi) (hq : map.findAssetIndex e.quote = .ok qi) :
    let ev := (mockOpen map m name o).2
    let spent := match o.side with | .buy => qi | .sell => bi
    (∀ x j oc, ev.order = some (x, j, oc) → x = map.exchange.key ∧ j = i ∧
        ∀ a, oc = .insufficient a → a = spent) ∧
    (∀ a tot fr, ev.balance = some (a, tot, fr) → a = spent) ∧
    (∀ j sd p q f, ev.trade = some (j, sd, p, q, f) → j = i ∧ sd = o.side ∧ p = o.price ∧ q = o.qty) := by
  intro ev spent
  -- the instrument the exchange finds
  have hpos : m.st.instruments[tablePos m.table name]? =
      some { base := m.names.idxOf e.base, quote := m.names.idxOf e.quote } := by
    rw [hinv.instr, List.getElem?_map]
    unfold tablePos
    rw [lookup_getElem_idxOf m.table name e he]; rfl
  have hnames : ∀ a cur, (MockExchange.updateTime m.st 0).balances[a]? = some cur → a < m.names.length := by
    intro a cur h
    have := (List.getElem?_eq_some_iff.mp h).1
    simpa [MockExchange.updateTime, hinv.len] using this
  have hspent : ∀ a cur,
      a = MockExchange.spentAsset { base := m.names.idxOf e.base, quote := m.names.idxOf e.quote } o.side →
      (MockExchange.updateTime m.st 0).balances[a]? = some cur →
      ∃ an, m.names[a]? = some an ∧ map.findAssetIndex an = .ok spent := by
    intro a cur ha hcur
    have hlt := hnames a cur hcur
    cases hs : o.side with
    | buy =>
      simp only [hs, MockExchange.spentAsset] at ha
      subst ha
      exact ⟨e.quote, getElem?_idxOf_of_lt _ _ hlt, by simp only [spent, hs]; exact hq⟩
    | sell =>
      simp only [hs, MockExchange.spentAsset] at ha
      subst ha
      exact ⟨e.base, getElem?_idxOf_of_lt _ _ hlt, by simp only [spent, hs]; exact hb⟩
  obtain ⟨req, hreq⟩ : ∃ req : MockExchange.Req, req = mockReq m.table name o := ⟨_, rfl⟩
  have hri : req.instr = tablePos m.table name := by rw [hreq]; rfl
  have hrs : req.side = o.side := by rw [hreq]; rfl
  have hrp : req.price = o.price := by rw [hreq]; rfl
  have hrq : req.qty = o.qty := by rw [hreq]; rfl
  have hinstr : (MockExchange.updateTime m.st 0).instruments[req.instr]? =
      some { base := m.names.idxOf e.base, quote := m.names.idxOf e.quote } := by
    rw [hri]; simpa [MockExchange.updateTime] using hpos
  show (∀ x j oc, (mockOpen map m name o).2.order = some (x, j, oc) → _) ∧
    (∀ a tot fr, (mockOpen map m name o).2.balance = some (a, tot, fr) → _) ∧
    (∀ j sd p q f, (mockOpen map m name o).2.trade = some (j, sd, p, q, f) → _)
  unfold mockOpen
  simp only [hi, ← hreq]
  split
  · -- dead
    refine ⟨?_, (by intro a t f h; cases h), (by intro j sd p q f h; cases h)⟩
    intro x j oc h
    simp only [Option.map_some, Option.some.injEq, Prod.mk.injEq] at h
    obtain ⟨rfl, rfl, rfl⟩ := h
    exact ⟨rfl, rfl, by intro a ha; cases ha⟩
  · rw [MockExchange.step_open_resp]
    rcases MockExchange.openOrder_cases (MockExchange.updateTime m.st 0) req with
      ⟨_, h⟩ | ⟨_, hnone, h⟩ | ⟨u, _, hu, _, h⟩ | ⟨u, c, _, hu, _, _, h⟩ |
      ⟨u, c, _, hu, hc, _, _, h⟩ | ⟨u, c, _, hu, hc, _, _, h⟩
    · rw [h]
      refine ⟨?_, (by intro a t f h; cases h), (by intro j sd p q f h; cases h)⟩
      intro x j oc h'
      simp only [Option.map_some, Option.some.injEq, Prod.mk.injEq] at h'
      obtain ⟨rfl, rfl, rfl⟩ := h'
      exact ⟨rfl, rfl, by intro a ha; cases ha⟩
    · rw [hinstr] at hnone; cases hnone
    · rw [h]
      refine ⟨?_, (by intro a t f h; cases h), (by intro j sd p q f h; cases h)⟩
      intro x j oc h'
      simp only [Option.map_some, Option.some.injEq, Prod.mk.injEq] at h'
      obtain ⟨rfl, rfl, rfl⟩ := h'
      exact ⟨rfl, rfl, by intro a ha; cases ha⟩
    · rw [h]
      refine ⟨?_, (by intro a t f h; cases h), (by intro j sd p q f h; cases h)⟩
      intro x j oc h'
      simp only [Option.map_some, Option.some.injEq, Prod.mk.injEq] at h'
      obtain ⟨rfl, rfl, rfl⟩ := h'
      exact ⟨rfl, rfl, by intro a ha; cases ha⟩
    · -- insufficient
      rw [h]
      rw [hinstr] at hu; cases hu
      obtain ⟨an, han, hfa⟩ := hspent _ c (by rw [hrs]) hc
      refine ⟨?_, (by intro a t f h; cases h), (by intro j sd p q f h; cases h)⟩
      intro x j oc h'
      simp only [han, hfa, Option.some.injEq, Prod.mk.injEq] at h'
      obtain ⟨rfl, rfl, rfl⟩ := h'
      exact ⟨rfl, rfl, by intro a ha; cases ha; rfl⟩
    · -- accepted
      rw [h]
      rw [hinstr] at hu; cases hu
      obtain ⟨an, han, hfa⟩ := hspent _ c (by rw [hrs]) hc
      refine ⟨?_, ?_, ?_⟩
      · intro x j oc h'
        simp only [Option.map_some, Option.some.injEq, Prod.mk.injEq] at h'
        obtain ⟨rfl, rfl, rfl⟩ := h'
        refine ⟨rfl, rfl, ?_⟩
        intro a ha; split at ha <;> cases ha
      · intro a t f h'
        simp only [han, hfa, Option.some.injEq, Prod.mk.injEq] at h'
        exact h'.1.symm
      · intro j sd p q f h'
        simp only [Option.map_some, Option.some.injEq, Prod.mk.injEq] at h'
        obtain ⟨rfl, rfl, rfl, rfl, _⟩ := h'
        exact ⟨rfl, hrs, hrp, hrq⟩

/-! ### the built system: invariant, established by `build` + `init`, kept by every request -/

structure ExecInv (ii : Indexed) (e : Exec) : Prop where
  link_mgr : ∀ x l, e.txmap.find x = .ok l →
    ExecMap.genMap (toColl ii) l.client = .ok l.map ∧
      ∃ mg ∈ e.managers, mg.exchange = l.client ∧ mg.map = l.map
  mgr_nodup : (e.managers.map (·.exchange)).Nodup
  mgr_mock : ∀ mg ∈ e.managers, ∀ chan, mg.client = .mock chan →
    ∃ mt ∈ e.mocks, mt.chan = chan ∧ mt.exchange = mg.exchange
  chan_nodup : (e.mocks.map (·.chan)).Nodup
  mocks : ∀ mt ∈ e.mocks, MockInv ii mt

theorem find?_of_nodup_key {α : Type} (key : α → Nat) (l : List α) (hn : (l.map key).Nodup)
    (a : α) (ha : a ∈ l) : l.find? (fun x => key x == key a) = some a := by
  induction l with
  | nil => cases ha
  | cons b t ih =>
    simp only [List.map_cons, List.nodup_cons] at hn
    simp only [List.find?_cons]
    rcases List.mem_cons.mp ha with rfl | ht
    · simp
    · have : (key b == key a) = false := by
        simp only [beq_eq_false_iff_ne, ne_eq]
        intro e; exact hn.1 (e ▸ List.mem_map_of_mem ht)
      rw [this]; exact ih hn.2 ht

theorem buildInit_ok {ii : Indexed} {b : Builder} {e : Exec} {snaps : List (Nat × List (Nat × Rat))}
    (h : buildInit ii b = .ok e snaps) :
    ExecMap.buildTxMap (toColl ii) b.added = some e.txmap ∧
    e.managers = b.initFutures.map (fun f =>
      { exchange := f.exchange, index := f.index, map := f.map, client := f.client, alive := true }) ∧
    e.mocks = b.mockFutures.map spawnMock := by
  unfold buildInit at h
  split at h
  · cases h
  · rename_i txmap htx
    split at h
    · cases h
    · injection h with h1 h2
      subst h1
      exact ⟨htx, rfl, rfl⟩

theorem execInv_buildInit {defs : List Def} {ii : Indexed} (h : build defs = some ii)
    {adds : List Add} {b : Builder} (hadd : addAll ii {} adds 0 = .ok b)
    {e : Exec} {snaps : List (Nat × List (Nat × Rat))} (hinit : buildInit ii b = .ok e snaps) :
    ExecInv ii e := by
  have hb := binv_addAll (binv_empty ii) hadd
  have hA := addAll_added hadd
  have hW := wfx_toColl h
  obtain ⟨htx, hmg, hmk⟩ := buildInit_ok hinit
  have htx' := ExecMap.buildTxMap_eq hW hA
  rw [htx] at htx'
  simp only [Option.some.injEq] at htx'
  refine ⟨?_, ?_, ?_, ?_, ?_⟩
  · intro x l hf
    rw [htx', ExecMap.find_built] at hf
    split at hf
    · cases hf
    · rename_i k hk
      split at hf
      · rename_i hmem
        split at hf
        · rename_i l' hl'
          injection hf with hf; subst hf
          obtain ⟨hc, hg, _⟩ := mkLink_fields hl'
          refine ⟨by rw [hc]; exact hg, ?_⟩
          have hlook : b.added.lookup k.id = some l' := by
            rw [ExecMap.addExecutions_lookup hA k.id]
            simp [List.lookup, hmem, hl']
          have hkey : k.id ∈ b.added.map (·.1) :=
            (lookup_isSome_iff_mem_keys _ _).mp (by rw [hlook]; rfl)
          rw [← hb.init_keys] at hkey
          obtain ⟨f, hf, hfe⟩ := List.mem_map.mp hkey
          have := hb.init_link f hf
          rw [hfe, hlook] at this
          injection this with this
          refine ⟨_, by rw [hmg]; exact List.mem_map_of_mem hf, ?_, ?_⟩
          · simp [hfe, hc]
          · simp [this]
        · cases hf
      · cases hf
  · rw [hmg, List.map_map]
    have : (b.initFutures.map ((fun (m : ManagerTask) => m.exchange) ∘ fun f =>
        { exchange := f.exchange, index := f.index, map := f.map, client := f.client, alive := true })) =
        b.initFutures.map (·.exchange) := by simp [Function.comp_def]
    rw [this, hb.init_keys]; exact hb.added_nodup
  · intro mg hmgm chan hc
    rw [hmg] at hmgm
    obtain ⟨f, hf, rfl⟩ := List.mem_map.mp hmgm
    obtain ⟨mf, hmf, h1, h2⟩ := hb.client_mock f hf chan hc
    exact ⟨spawnMock mf, by rw [hmk]; exact List.mem_map_of_mem hmf, h1, h2⟩
  · rw [hmk, List.map_map]
    have : (b.mockFutures.map ((fun (m : MockTask) => m.chan) ∘ spawnMock)) = b.mockFutures.map (·.chan) := by
      simp [Function.comp_def, spawnMock]
    rw [this]; exact hb.chan_nodup
  · intro mt hmt
    rw [hmk] at hmt
    obtain ⟨mf, hmf, rfl⟩ := List.mem_map.mp hmt
    exact mockInv_spawn ii mf (hb.mock_table mf hmf)


theorem mem_setManager (ms : List ManagerTask) (ex : Nat) (f : ManagerTask → ManagerTask)
    (mg : ManagerTask) (h : mg ∈ setManager ms ex f) : ∃ m0 ∈ ms, mg = m0 ∨ mg = f m0 := by
  unfold setManager at h
  obtain ⟨m0, hm0, rfl⟩ := List.mem_map.mp h
  refine ⟨m0, hm0, ?_⟩
  split
  · right; rfl
  · left; rfl

theorem mem_setMock (ms : List MockTask) (chan : Nat) (f : MockTask → MockTask)
    (mt : MockTask) (h : mt ∈ setMock ms chan f) :
    ∃ m0 ∈ ms, mt = m0 ∨ (m0.chan = chan ∧ mt = f m0) := by
  unfold setMock at h
  obtain ⟨m0, hm0, rfl⟩ := List.mem_map.mp h
  refine ⟨m0, hm0, ?_⟩
  split
  · rename_i hc; right; exact ⟨hc, rfl⟩
  · left; rfl

/-- The decomposition of `sendOpen`: which branch was taken and with which manager / mock task. -/
theorem sendOpen_mock {e e' : Exec} {o : Open} {client name : Nat} {ev : Events}
    (h : sendOpen e o = (e', .mock client name ev)) :
    ∃ l mg chan mt r,
      e.txmap.find o.exchange = .ok l ∧
      e.managers.find? (fun m => m.exchange == l.client) = some mg ∧ mg.alive = true ∧
      ExecMap.managerClientRequest mg.map
        { key := { exchange := o.exchange, instrument := o.instrument, cid := o.cid }, state := 0 } = some r ∧
      mg.client = .mock chan ∧ e.mocks.find? (fun m => m.chan == chan) = some mt ∧
      client = r.key.exchange ∧ name = r.key.instrument ∧
      ev = (mockOpen mg.map mt r.key.instrument o).2 ∧
      e' = { e with mocks := setMock e.mocks chan fun _ => (mockOpen mg.map mt r.key.instrument o).1 } := by
  unfold sendOpen at h
  split at h
  · cases h
  · rename_i l hl
    split at h
    · cases h
    · rename_i mg hmg
      split at h
      · cases h
      · rename_i halive
        split at h
        · cases h
        · rename_i r hr
          split at h
          · cases h
          · rename_i chan hchan
            split at h
            · cases h
            · rename_i mt hmt
              simp only [Prod.mk.injEq, SendResult.mock.injEq] at h
              obtain ⟨h1, h2, h3, h4⟩ := h
              refine ⟨l, mg, chan, mt, r, hl, hmg, by simpa using halive, hr, hchan, hmt, h2.symm, h3.symm,
                h4.symm, h1.symm⟩

theorem execInv_sendOpen {ii : Indexed} {e : Exec} (hinv : ExecInv ii e) (o : Open) :
    ExecInv ii (sendOpen e o).1 := by
  unfold sendOpen
  split
  · exact hinv
  · split
    · exact hinv
    · rename_i mg hmg
      split
      · exact hinv
      · split
        · -- manager panic: only `alive` changes
          refine ⟨?_, ?_, ?_, hinv.chan_nodup, hinv.mocks⟩
          · intro x l hf
            obtain ⟨hg, m0, hm0, h1, h2⟩ := hinv.link_mgr x l hf
            refine ⟨hg, ?_⟩
            by_cases hc : m0.exchange = mg.exchange
            · exact ⟨{ m0 with alive := false }, by
                simp only [setManager, List.mem_map]; exact ⟨m0, hm0, by simp [hc]⟩, h1, h2⟩
            · exact ⟨m0, by
                simp only [setManager, List.mem_map]; exact ⟨m0, hm0, by simp [hc]⟩, h1, h2⟩
          · have : (setManager e.managers mg.exchange fun m => { m with alive := false }).map (·.exchange) =
                e.managers.map (·.exchange) := by
              simp only [setManager, List.map_map]
              apply List.map_congr_left
              intro a _; simp only [Function.comp]; split <;> rfl
            rw [this]; exact hinv.mgr_nodup
          · intro m1 hm1 chan hc
            obtain ⟨m0, hm0, rfl | rfl⟩ := mem_setManager _ _ _ _ hm1
            · exact hinv.mgr_mock _ hm0 chan hc
            · exact hinv.mgr_mock _ hm0 chan hc
        · rename_i r hr
          split
          · exact hinv
          · rename_i chan hchan
            split
            · exact hinv
            · rename_i mt hmt
              have hmtm := List.mem_of_find?_eq_some hmt
              have hmtc : mt.chan = chan := by simpa using List.find?_some hmt
              obtain ⟨hi', hc', he'⟩ := mockInv_mockOpen (hinv.mocks mt hmtm) mg.map r.key.instrument o
              simp only
              refine ⟨hinv.link_mgr, hinv.mgr_nodup, ?_, ?_, ?_⟩
              · intro m1 hm1 ch hc
                obtain ⟨m0, hm0, h1, h2⟩ := hinv.mgr_mock m1 hm1 ch hc
                by_cases hcc : m0.chan = chan
                · refine ⟨(mockOpen mg.map mt r.key.instrument o).1, ?_, ?_, ?_⟩
                  · simp only [setMock, List.mem_map]; exact ⟨m0, hm0, by simp only [hcc, if_true]⟩
                  · rw [hc', hmtc, ← hcc, h1]
                  · have : m0 = mt := by
                      have := find?_of_nodup_key (·.chan) e.mocks hinv.chan_nodup m0 hm0
                      simp only [hcc] at this
                      rw [hmt] at this; injection this with this; exact this.symm
                    rw [he', ← this, h2]
                · exact ⟨m0, by
                    simp only [setMock, List.mem_map]; exact ⟨m0, hm0, by simp [hcc]⟩, h1, h2⟩
              · have : (setMock e.mocks chan fun _ => (mockOpen mg.map mt r.key.instrument o).1).map (·.chan) =
                    e.mocks.map (·.chan) := by
                  simp only [setMock, List.map_map]
                  apply List.map_congr_left
                  intro a _; simp only [Function.comp]
                  split
                  · rename_i hac; rw [hc', hmtc, hac]
                  · rfl
                rw [this]; exact hinv.chan_nodup
              · intro m1 hm1
                obtain ⟨m0, hm0, rfl | ⟨_, rfl⟩⟩ := mem_setMock _ _ _ _ hm1
                · exact hinv.mocks _ hm0
                · exact hi'


theorem managerClientRequest_some {m : ExecMap.EMap} {o r : ExecMap.OEvent Nat Nat}
    (h : ExecMap.managerClientRequest m o = some r) :
    m.exchange.key = o.key.exchange ∧ r.key.exchange = m.exchange.id ∧
    m.findInstrumentName o.key.instrument = .ok r.key.instrument := by
  unfold ExecMap.managerClientRequest ExecMap.orderRequest ExecMap.EMap.findExchangeId at h
  split at h
  · rename_i r' hr'
    injection h with h; subst h
    split at hr'
    · cases hr'
    · rename_i id hid
      split at hid
      · rename_i hk
        injection hid with hid; subst hid
        split at hr'
        · cases hr'
        · rename_i n hn
          injection hr' with hr'; subst hr'
          exact ⟨hk, rfl, hn⟩
      · cases hid
  · cases h

/-- **The engine's view and the mock exchange's view talk about the same things.** In a system
built from builder output, a request the engine opens for (exchange index, instrument index) that
reaches a mock exchange: the instrument belongs to that exchange; whatever comes back on the account
channel is keyed by the same exchange index and the same instrument index; and the balance that
moves (or is reported insufficient) is the balance of the instrument's own quote asset index for a
buy, base asset index for a sell. -/
theorem sendOpen_view_w {defs : List Def} {ii : Indexed} (h : build defs = some ii) {e e' : Exec} (hinv : ExecInv ii e) {o : Open} {client name : Nat}
    {ev : Events} (hs : sendOpen e o = (e', .mock client name ev))
    (hu : UniqueNames defs client) (ha : UniqueAssetNames defs client) :
    ∃ x, ii.instruments[o.instrument]? = some x ∧ x.value.exchange.value = client ∧
      name = x.value.nameExchange ∧
      (∀ xx j oc, ev.order = some (xx, j, oc) → xx = o.exchange ∧ j = o.instrument ∧
        ∀ a, oc = .insufficient a →
          a = (match o.side with | .buy => x.value.quote | .sell => x.value.base)) ∧
      (∀ a tot fr, ev.balance = some (a, tot, fr) →
          a = (match o.side with | .buy => x.value.quote | .sell => x.value.base)) ∧
      (∀ j sd p q f, ev.trade = some (j, sd, p, q, f) →
          j = o.instrument ∧ sd = o.side ∧ p = o.price ∧ q = o.qty) := by
  obtain ⟨l, mg, chan, mt, r, hl, hmg, _, hr, hchan, hmt, hclient, hname, hev, _⟩ := sendOpen_mock hs
  have hmgm := List.mem_of_find?_eq_some hmg
  have hmge : mg.exchange = l.client := by simpa using List.find?_some hmg
  obtain ⟨hg, mg', hmg', h1, h2⟩ := hinv.link_mgr _ _ hl
  have hsame : mg' = mg := by
    have := find?_of_nodup_key (·.exchange) e.managers hinv.mgr_nodup mg' hmg'
    simp only [h1] at this
    rw [hmg] at this; injection this with this; exact this.symm
  subst hsame
  have hm : ExecMap.genMap (toColl ii) mg'.exchange = .ok mg'.map := by rw [h1, h2]; exact hg
  obtain ⟨hk, hid, hn⟩ := managerClientRequest_some hr
  simp only at hk hn
  obtain ⟨ke, _, hke⟩ := ExecMap.genMap_ok hm
  have hcl : client = mg'.exchange := by rw [hclient, hid, hke]; rfl
  have hI := (wfx_toColl h).1
  -- the instrument the request names
  have A := ExecMap.agrees_of_indexed hI hm
  rw [ExecMap.findInstrumentName_eq A] at hn
  have hsn : ExecMap.specInstrumentName (toColl ii) mg'.exchange o.instrument = some r.key.instrument := by
    cases hs' : ExecMap.specInstrumentName (toColl ii) mg'.exchange o.instrument with
    | none => rw [hs'] at hn; cases hn
    | some n' => rw [hs'] at hn; injection hn with hn; rw [hn]
  obtain ⟨k, hk', hkex, hkn⟩ := (ExecMap.specInstrumentName_some _ _ _ _).mp hsn
  rw [toColl_instrument] at hk'
  cases hx : ii.instruments[o.instrument]? with
  | none => simp [hx] at hk'
  | some x =>
    simp only [hx, Option.map_some, Option.some.injEq] at hk'
    subst hk'
    simp only at hkex hkn
    -- the mock task
    have hmtm := List.mem_of_find?_eq_some hmt
    have hmtc : mt.chan = chan := by simpa using List.find?_some hmt
    obtain ⟨mt', hmt', hc1, hc2⟩ := hinv.mgr_mock mg' hmgm chan hchan
    have hsame : mt' = mt := by
      have := find?_of_nodup_key (·.chan) e.mocks hinv.chan_nodup mt' hmt'
      simp only [hc1] at this
      rw [hmt] at this; injection this with this; exact this.symm
    subst hsame
    have hminv := hinv.mocks mt' hmtm
    have htab : genMockInstruments ii mg'.exchange = .ok mt'.table := by rw [← hc2]; exact hminv.table
    rw [hcl] at hu ha
    obtain ⟨_, h2', en, hen, _, hb, hq⟩ := own_view_w h mg'.exchange hu ha hm htab hx hkex
    refine ⟨x, rfl, by rw [hcl]; exact hkex, by rw [hname, hkn], ?_⟩
    have hevs := mockOpen_events hminv mg'.map r.key.instrument o en o.instrument x.value.base x.value.quote
      (by rw [← hkn]; exact hen) (by rw [← hkn]; exact h2') hb hq
    simp only at hevs
    rw [← hev] at hevs
    obtain ⟨e1, e2, e3⟩ := hevs
    refine ⟨?_, e2, e3⟩
    intro xx j oc hoc
    obtain ⟨a1, a2, a3⟩ := e1 xx j oc hoc
    exact ⟨by rw [a1, hk], a2, a3⟩

/-- (the version with C11's `WFAssets` among the hypotheses, kept under its old name; `sendOpen_view_w` does without) -/
theorem sendOpen_view {defs : List Def} {ii : Indexed} (h : build defs = some ii)
    (_hwf : WFAssets defs) {e e' : Exec} (hinv : ExecInv ii e) {o : Open} {client name : Nat}
    {ev : Events} (hs : sendOpen e o = (e', .mock client name ev))
    (hu : UniqueNames defs client) (ha : UniqueAssetNames defs client) :
    ∃ x, ii.instruments[o.instrument]? = some x ∧ x.value.exchange.value = client ∧
      name = x.value.nameExchange ∧
      (∀ xx j oc, ev.order = some (xx, j, oc) → xx = o.exchange ∧ j = o.instrument ∧
        ∀ a, oc = .insufficient a →
          a = (match o.side with | .buy => x.value.quote | .sell => x.value.base)) ∧
      (∀ a tot fr, ev.balance = some (a, tot, fr) →
          a = (match o.side with | .buy => x.value.quote | .sell => x.value.base)) ∧
      (∀ j sd p q f, ev.trade = some (j, sd, p, q, f) →
          j = o.instrument ∧ sd = o.side ∧ p = o.price ∧ q = o.qty) :=
  sendOpen_view_w h hinv hs hu ha

/-! ### composition with the ledger (C08) -/

/-- The ledger state of a mock task is the C08 exchange run from the configuration the builder
handed over, on the open requests it has seen so far. -/
structure MockHist (mt : MockTask) (c : MockConfig) (ops : List (Int × MockExchange.Request)) : Prop where
  names : mt.names = c.balances.map (·.1)
  st : mt.st = MockExchange.run (MockExchange.init (toCfg c mt.table)) ops

theorem mockHist_spawn (f : MockFuture) : MockHist (spawnMock f) f.config [] :=
  ⟨rfl, rfl⟩

theorem mockOpen_dead (map : ExecMap.EMap) (m : MockTask) (name : Nat) (o : Open) (hd : m.dead = true) :
    (mockOpen map m name o).1 = m := by
  unfold mockOpen; simp [hd]

theorem mockOpen_alive (map : ExecMap.EMap) (m : MockTask) (name : Nat) (o : Open) (hd : m.dead = false) :
    (mockOpen map m name o).1.st = (MockExchange.step m.st 0 (.openOrder (mockReq m.table name o))).1 ∧
    (mockOpen map m name o).1.table = m.table ∧ (mockOpen map m name o).1.names = m.names ∧
    ((mockOpen map m name o).1.dead = true ↔
      (MockExchange.step m.st 0 (.openOrder (mockReq m.table name o))).2.1 = .order .panic) := by
  unfold mockOpen
  simp only [hd, Bool.false_eq_true, if_false]
  split <;> simp_all

theorem mockHist_mockOpen {mt : MockTask} {c : MockConfig} {ops : List (Int × MockExchange.Request)}
    (h : MockHist mt c ops) (hd : mt.dead = false) (map : ExecMap.EMap) (name : Nat) (o : Open) :
    MockHist (mockOpen map mt name o).1 c (ops ++ [(0, .openOrder (mockReq mt.table name o))]) := by
  obtain ⟨h1, h2, h3, _⟩ := mockOpen_alive map mt name o hd
  refine ⟨by rw [h3]; exact h.names, ?_⟩
  rw [h1, h2, MockExchange.run_append, ← h.st]

/-- The C08 configuration is well formed exactly when every base / quote name of the table has a
configured balance (`total = free` holds by construction of `MockConfig`). -/
theorem toCfg_wf_iff (c : MockConfig) (t : Table) :
    (toCfg c t).wf = true ↔
      ∀ p ∈ t, p.2.base ∈ c.balances.map (·.1) ∧ p.2.quote ∈ c.balances.map (·.1) := by
  have l1 : (c.balances.map (·.1)).length = c.balances.length := by simp
  have hinit : ((toCfg c t).init.all fun p => decide (p.1 = p.2)) = true := by
    simp [toCfg]
  have hlen : (toCfg c t).init.length = c.balances.length := by simp [toCfg]
  unfold MockExchange.Cfg.wf
  rw [hinit, Bool.true_and, List.all_eq_true]
  constructor
  · intro h p hp
    have hmem : (⟨(c.balances.map (·.1)).idxOf p.2.base, (c.balances.map (·.1)).idxOf p.2.quote⟩ :
        MockExchange.Instr) ∈ (toCfg c t).instruments := by
      simp only [toCfg, List.mem_map]; exact ⟨p, hp, rfl⟩
    have := h _ hmem
    simp only [Bool.and_eq_true, decide_eq_true_eq, hlen] at this
    exact ⟨List.idxOf_lt_length_iff.mp (by rw [l1]; exact this.1),
           List.idxOf_lt_length_iff.mp (by rw [l1]; exact this.2)⟩
  · intro h u hu
    simp only [toCfg, List.mem_map] at hu
    obtain ⟨p, hp, rfl⟩ := hu
    obtain ⟨hb, hq⟩ := h p hp
    simp only [Bool.and_eq_true, decide_eq_true_eq, hlen]
    exact ⟨by rw [← l1]; exact List.idxOf_lt_length_iff.mpr hb,
           by rw [← l1]; exact List.idxOf_lt_length_iff.mpr hq⟩

/-- Balances for every asset of the exchange make the C08 configuration well formed (builder
output, `WFAssets`): every base / quote name of the table is the name of an asset of `ex`. -/
theorem covers_wf_w {defs : List Def} {ii : Indexed} (h : build defs = some ii)
    (c : MockConfig) {t : Table} (ht : genMockInstruments ii c.exchange = .ok t)
    (hcov : ∀ a ∈ ii.assets, a.value.exchange = c.exchange →
      a.value.asset.nameExchange ∈ c.balances.map (·.1)) :
    (toCfg c t).wf = true := by
  rw [toCfg_wf_iff]
  intro p hp
  obtain ⟨i, hi, _, _, hnat⟩ := genMock_mem ii c.exchange t ht p hp
  obtain ⟨x, hx, hex, rfl⟩ := (mem_ofExchange ii c.exchange i).mp hi
  obtain ⟨k, hk⟩ := List.mem_iff_getElem?.mp hx
  unfold nativeI at hnat
  obtain ⟨_, _, _, _, h5, h6, _, _⟩ := mapAsset_some _ _ _ hnat
  simp only [Instrument.mapExchangeKey] at h5 h6
  have asset : ∀ (b n : Nat), b ∈ x.value.assetRefs →
      (ii.findAsset b).map (·.asset.nameExchange) = some n → n ∈ c.balances.map (·.1) := by
    intro b n hb hn
    obtain ⟨y, hy, hye⟩ := refs_own_exchange_w h k x hk b hb
    have hfa : ii.findAsset b = some y.value := by
      rw [findAsset_eq defs ii h b]; exact asset_at h b y hy
    rw [hfa] at hn
    simp only [Option.map_some, Option.some.injEq] at hn
    rw [← hn]
    exact hcov y (List.mem_of_getElem? hy) (by rw [hye, hex])
  exact ⟨asset _ _ (by simp [mem_assetRefs]) h5, asset _ _ (by simp [mem_assetRefs]) h6⟩

/-- (the version with C11's `WFAssets` among the hypotheses, kept under its old name; `covers_wf_w` does without) -/
theorem covers_wf {defs : List Def} {ii : Indexed} (h : build defs = some ii) (_hwf : WFAssets defs)
    (c : MockConfig) {t : Table} (ht : genMockInstruments ii c.exchange = .ok t)
    (hcov : ∀ a ∈ ii.assets, a.value.exchange = c.exchange →
      a.value.asset.nameExchange ∈ c.balances.map (·.1)) :
    (toCfg c t).wf = true :=
  covers_wf_w h c ht hcov

open BarterModel.MockExchange (Cfg Instr Req Trade)
open BarterModel.MockExchange.Spec

/-! ### the C08 specification under a renaming of instruments and assets -/
section rename

/-- an event with its instrument renamed -/
def renEv (τ : Nat → Nat) (e : Ev) : Ev := ⟨e.time, { e.req with instr := τ e.req.instr }⟩

/-- `cI` is `cN` with instrument `p` renamed to `τ p` and asset `a` renamed to `σ a`. -/
structure Renames (cN cI : Cfg) (τ σ : Nat → Nat) : Prop where
  fee : cN.fee = cI.fee
  ins : ∀ p u, cN.instruments[p]? = some u → cI.instruments[τ p]? = some ⟨σ u.base, σ u.quote⟩
  init : ∀ a p, cN.init[a]? = some p → cI.init[σ a]? = some p
  inj : ∀ a b, a < cN.init.length → b < cN.init.length → σ a = σ b → a = b
  wf : ∀ u ∈ cN.instruments, u.base < cN.init.length ∧ u.quote < cN.init.length

variable {cN cI : Cfg} {τ σ : Nat → Nat}

def Known (c : Cfg) (e : Ev) : Prop := ∃ u, c.instruments[e.req.instr]? = some u

theorem spends_ren (h : Renames cN cI τ σ) (e : Ev) (hk : Known cN e) :
    ∃ a, spends cN.instruments e.req = some a ∧ a < cN.init.length ∧
      spends cI.instruments (renEv τ e).req = some (σ a) := by
  obtain ⟨u, hu⟩ := hk
  have hw := h.wf u (List.mem_of_getElem? hu)
  have hi := h.ins _ _ hu
  cases hs : e.req.side with
  | buy => exact ⟨u.quote, by simp [spends, hu, hs], hw.2, by simp [spends, renEv, hi, hs]⟩
  | sell => exact ⟨u.base, by simp [spends, hu, hs], hw.1, by simp [spends, renEv, hi, hs]⟩

theorem required_ren (h : Renames cN cI τ σ) (e : Ev) :
    required cI.fee (renEv τ e).req = required cN.fee e.req := by
  simp [required, renEv, h.fee]

theorem debited_ren (h : Renames cN cI τ σ) (acc : List Ev) (hk : ∀ e ∈ acc, Known cN e)
    (a : Nat) (ha : a < cN.init.length) :
    debited cI.fee cI.instruments (acc.map (renEv τ)) (σ a) = debited cN.fee cN.instruments acc a := by
  induction acc with
  | nil => rfl
  | cons e es ih =>
    obtain ⟨a', h1, h2, h3⟩ := spends_ren h e (hk e (by simp))
    simp only [List.map_cons, debited, h1, h3, required_ren h e,
      ih (fun e' he' => hk e' (List.mem_cons_of_mem _ he'))]
    by_cases e1 : a' = a
    · subst e1; simp
    · have : ¬ σ a' = σ a := fun e2 => e1 (h.inj a' a h2 ha e2)
      simp [e1, this]

theorem balance_ren (h : Renames cN cI τ σ) (acc : List Ev) (hk : ∀ e ∈ acc, Known cN e)
    (a : Nat) (ha : a < cN.init.length) :
    balance cI (acc.map (renEv τ)) (σ a) = balance cN acc a := by
  have hp : cN.init[a]? = some cN.init[a] := List.getElem?_eq_getElem ha
  simp only [balance, hp, h.init a _ hp, Option.map_some, debited_ren h acc hk a ha]

theorem fundsOk_ren (h : Renames cN cI τ σ) (acc : List Ev) (hk : ∀ e ∈ acc, Known cN e)
    (e : Ev) (he : Known cN e) :
    fundsOk cI (acc.map (renEv τ)) (renEv τ e).req = fundsOk cN acc e.req := by
  obtain ⟨a, h1, h2, h3⟩ := spends_ren h e he
  simp only [fundsOk, h1, h3, balance_ren h acc hk a h2, required_ren h e]
  rfl

theorem respond_ren (h : Renames cN cI τ σ) (acc : List Ev) (hk : ∀ e ∈ acc, Known cN e)
    (e : Ev) (he : Known cN e) :
    respond cI (acc.map (renEv τ)) (renEv τ e) =
      (respond cN acc e).map fun r => (σ r.1, r.2.1, { r.2.2 with instr := τ r.2.2.instr }) := by
  obtain ⟨a, h1, h2, h3⟩ := spends_ren h e he
  simp only [respond, fundsOk_ren h acc hk e he, h1, h3, balance_ren h acc hk a h2, required_ren h e]
  split
  · cases hb : balance cN acc a with
    | none => rfl
    | some b =>
      simp only [Option.map_some, fillOf, List.length_map, fees, h.fee]
      rfl
  · rfl

theorem fundsOk_known (c : Cfg) (acc : List Ev) (e : Ev) (h : fundsOk c acc e.req = true) : Known c e := by
  unfold fundsOk spends at h
  unfold Known
  cases hi : c.instruments[e.req.instr]? with
  | none => simp [hi] at h
  | some u => exact ⟨u, rfl⟩

theorem accepted_known (c : Cfg) (evs : List Ev) : ∀ e ∈ accepted c evs, Known c e := by
  induction evs with
  | nil => intro e he; cases he
  | cons x xs ih =>
    intro e he
    simp only [accepted] at he
    split at he
    · rename_i hf
      rcases List.mem_cons.mp he with rfl | he'
      · exact fundsOk_known c _ _ hf
      · exact ih e he'
    · exact ih e he

theorem respond_isSome_iff (c : Cfg) (acc : List Ev) (e : Ev) :
    (respond c acc e).isSome ↔ fundsOk c acc e.req = true := by
  unfold respond
  by_cases hf : fundsOk c acc e.req = true
  · simp only [hf, if_true, iff_true]
    unfold fundsOk at hf
    cases hs : spends c.instruments e.req with
    | none => simp [hs] at hf
    | some a =>
      cases hb : balance c acc a with
      | none => simp [hs, hb] at hf
      | some b => simp [hb]
  · simp [hf]

end rename

/-! ### the mock exchange as the engine sees it -/

/-- table position ↦ engine instrument index (through the manager's map) -/
def tauOf (m : ExecMap.EMap) (t : Table) (p : Nat) : Nat :=
  match t[p]? with
  | some e => (match m.findInstrumentIndex e.1 with | .ok i => i | .error _ => 0)
  | none => 0

/-- balance position ↦ engine asset index (through the manager's map) -/
def sigmaOf (m : ExecMap.EMap) (names : List Nat) (a : Nat) : Nat :=
  match names[a]? with
  | some n => (match m.findAssetIndex n with | .ok k => k | .error _ => 0)
  | none => 0

/-- Everything the engine-view specification presupposes of one mock exchange — WITHOUT C11's
`WFAssets` (theorem review A, C04M-3): an asset index of a builder-made instrument always points at an
asset entry of the instrument's own exchange (`refs_own_exchange_w`), which is all the index-level
statements need; `WFAssets` matters only where entries are compared with DEFINITIONS (`round_trip`,
`refines_definition_spec`). -/
structure ViewHypW (defs : List Def) (ii : Indexed) (c : MockConfig) (m : ExecMap.EMap) (t : Table) : Prop where
  build : Index.build defs = some ii
  un : UniqueNames defs c.exchange
  ua : UniqueAssetNames defs c.exchange
  map : ExecMap.genMap (toColl ii) c.exchange = .ok m
  table : genMockInstruments ii c.exchange = .ok t
  nodup : (c.balances.map (·.1)).Nodup
  covers : ∀ a ∈ ii.assets, a.value.exchange = c.exchange →
    a.value.asset.nameExchange ∈ c.balances.map (·.1)
  nostray : ∀ n ∈ c.balances.map (·.1), ∃ a ∈ ii.assets, a.value.exchange = c.exchange ∧
    a.value.asset.nameExchange = n

/-- Everything the engine-view specification presupposes of one mock exchange. -/
structure ViewHyp (defs : List Def) (ii : Indexed) (c : MockConfig) (m : ExecMap.EMap) (t : Table) : Prop where
  build : Index.build defs = some ii
  wfa : WFAssets defs
  un : UniqueNames defs c.exchange
  ua : UniqueAssetNames defs c.exchange
  map : ExecMap.genMap (toColl ii) c.exchange = .ok m
  table : genMockInstruments ii c.exchange = .ok t
  nodup : (c.balances.map (·.1)).Nodup
  covers : ∀ a ∈ ii.assets, a.value.exchange = c.exchange →
    a.value.asset.nameExchange ∈ c.balances.map (·.1)
  nostray : ∀ n ∈ c.balances.map (·.1), ∃ a ∈ ii.assets, a.value.exchange = c.exchange ∧
    a.value.asset.nameExchange = n

theorem ViewHyp.toW {defs : List Def} {ii : Indexed} {c : MockConfig} {m : ExecMap.EMap} {t : Table}
    (H : ViewHyp defs ii c m t) : ViewHypW defs ii c m t :=
  ⟨H.build, H.un, H.ua, H.map, H.table, H.nodup, H.covers, H.nostray⟩

theorem find?_of_nodup_fst (l : List (Nat × Rat)) (hn : (l.map (·.1)).Nodup) (p : Nat × Rat) (hp : p ∈ l) :
    l.find? (fun b => b.1 == p.1) = some p := by
  induction l with
  | nil => cases hp
  | cons q t ih =>
    simp only [List.map_cons, List.nodup_cons] at hn
    simp only [List.find?_cons]
    rcases List.mem_cons.mp hp with rfl | ht
    · simp
    · have : (q.1 == p.1) = false := by
        simp only [beq_eq_false_iff_ne, ne_eq]
        intro e; exact hn.1 (e ▸ List.mem_map_of_mem ht)
      rw [this]; exact ih hn.2 ht

theorem renames_of_view_w {defs : List Def} {ii : Indexed} {c : MockConfig} {m : ExecMap.EMap} {t : Table}
    (H : ViewHypW defs ii c m t) :
    Renames (toCfg c t) (specCfg ii c) (tauOf m t) (sigmaOf m (c.balances.map (·.1))) := by
  have hW := wf_toColl H.build c.exchange H.un H.ua
  have hA := ExecMap.agreesRev_of_wf hW H.map
  have hwf : (toCfg c t).wf = true := covers_wf_w H.build c H.table H.covers
  have hkeys : (t.map (·.1)).Nodup := by
    obtain ⟨pairs, _, rfl⟩ := (genMock_ok_iff ii c.exchange t).mp H.table
    exact collectG_keys_nodup pairs
  have hnames : ∀ n, n ∈ c.balances.map (·.1) →
      (c.balances.map (·.1))[(c.balances.map (·.1)).idxOf n]? = some n :=
    fun n hn => getElem?_idxOf_of_lt _ _ (List.idxOf_lt_length_iff.mpr hn)
  refine ⟨rfl, ?_, ?_, ?_, MockExchange.wf_instr hwf⟩
  · -- instruments
    intro p u hu
    simp only [toCfg, List.getElem?_map] at hu
    cases hp : t[p]? with
    | none => simp [hp] at hu
    | some ne =>
      obtain ⟨n, e⟩ := ne
      simp only [hp, Option.map_some, Option.some.injEq] at hu
      subst hu
      have hmem : (n, e) ∈ t := List.mem_of_getElem? hp
      obtain ⟨i, hi, _, hn, hnat⟩ := genMock_mem ii c.exchange t H.table (n, e) hmem
      obtain ⟨x, hx, hex, rfl⟩ := (mem_ofExchange ii c.exchange i).mp hi
      obtain ⟨k, hk⟩ := List.mem_iff_getElem?.mp hx
      obtain ⟨_, h2, e', he', hn', hb, hq⟩ := own_view_w H.build c.exchange H.un H.ua H.map H.table hk hex
      simp only at hn hnat
      have hee : e' = e := by rw [hnat] at hn'; injection hn' with hn'; exact hn'.symm
      subst hee
      have hwfp := (toCfg_wf_iff c t).mp hwf (n, e') hmem
      have hs1 : sigmaOf m (c.balances.map (·.1)) ((c.balances.map (·.1)).idxOf e'.base) = x.value.base := by
        simp only [sigmaOf, hnames _ hwfp.1, hb]
      have hs2 : sigmaOf m (c.balances.map (·.1)) ((c.balances.map (·.1)).idxOf e'.quote) = x.value.quote := by
        simp only [sigmaOf, hnames _ hwfp.2, hq]
      have ht : tauOf m t p = k := by simp only [tauOf, hp, hn, h2]
      simp only [ht, hs1, hs2, specCfg, List.getElem?_map, hk, Option.map_some]
  · -- initial balances
    intro a p hp
    simp only [toCfg, List.getElem?_map] at hp
    cases hb : c.balances[a]? with
    | none => simp [hb] at hp
    | some na =>
      obtain ⟨n, amt⟩ := na
      simp only [hb, Option.map_some, Option.some.injEq] at hp
      subst hp
      have hmem : (n, amt) ∈ c.balances := List.mem_of_getElem? hb
      obtain ⟨y, hy, hye, hyn⟩ := H.nostray n (List.mem_map_of_mem (f := (·.1)) hmem)
      obtain ⟨k, hk⟩ := List.mem_iff_getElem?.mp hy
      have hka : (toColl ii).assets[k]? = some ⟨y.key, y.value.exchange, y.value.asset.nameExchange⟩ := by
        rw [toColl_asset, hk]; rfl
      have hfi : m.findAssetIndex n = .ok k := by
        rw [ExecMap.findAssetIndex_eq hA, ← hyn, (ExecMap.specAssetIndex_some hW _ k).mpr ⟨_, hka, hye, rfl⟩]
      have hs : sigmaOf m (c.balances.map (·.1)) a = k := by
        simp only [sigmaOf, List.getElem?_map, hb, Option.map_some, hfi]
      have hfind := find?_of_nodup_fst c.balances H.nodup (n, amt) hmem
      simp only [hs, specCfg, List.getElem?_map, hk, Option.map_some, specInitial, hye, if_true, hyn, hfind]
  · -- injectivity
    intro a b ha hb hab
    simp only [toCfg, List.length_map] at ha hb
    have la : a < (c.balances.map (·.1)).length := by simpa using ha
    have lb : b < (c.balances.map (·.1)).length := by simpa using hb
    have ga := List.getElem?_eq_getElem la
    have gb := List.getElem?_eq_getElem lb
    obtain ⟨y1, hy1, hye1, hyn1⟩ := H.nostray _ (List.mem_of_getElem? ga)
    obtain ⟨y2, hy2, hye2, hyn2⟩ := H.nostray _ (List.mem_of_getElem? gb)
    obtain ⟨k1, hk1⟩ := List.mem_iff_getElem?.mp hy1
    obtain ⟨k2, hk2⟩ := List.mem_iff_getElem?.mp hy2
    have f1 : m.findAssetIndex (c.balances.map (·.1))[a] = .ok k1 := by
      have hka : (toColl ii).assets[k1]? = some ⟨y1.key, y1.value.exchange, y1.value.asset.nameExchange⟩ := by
        rw [toColl_asset, hk1]; rfl
      rw [ExecMap.findAssetIndex_eq hA, ← hyn1, (ExecMap.specAssetIndex_some hW _ k1).mpr ⟨_, hka, hye1, rfl⟩]
    have f2 : m.findAssetIndex (c.balances.map (·.1))[b] = .ok k2 := by
      have hka : (toColl ii).assets[k2]? = some ⟨y2.key, y2.value.exchange, y2.value.asset.nameExchange⟩ := by
        rw [toColl_asset, hk2]; rfl
      rw [ExecMap.findAssetIndex_eq hA, ← hyn2, (ExecMap.specAssetIndex_some hW _ k2).mpr ⟨_, hka, hye2, rfl⟩]
    simp only [sigmaOf, ga, gb, f1, f2] at hab
    subst hab
    rw [hk1] at hk2; injection hk2 with hk2; subst hk2
    have : (c.balances.map (·.1))[a]? = (c.balances.map (·.1))[b]? := by rw [ga, gb, ← hyn1, ← hyn2]
    exact (List.getElem?_inj la H.nodup).mp this

/-- (the version with C11's `WFAssets` among the hypotheses, kept under its old name; `renames_of_view_w` does without) -/
theorem renames_of_view {defs : List Def} {ii : Indexed} {c : MockConfig} {m : ExecMap.EMap} {t : Table}
    (H : ViewHyp defs ii c m t) :
    Renames (toCfg c t) (specCfg ii c) (tauOf m t) (sigmaOf m (c.balances.map (·.1))) :=
  renames_of_view_w H.toW

theorem exchangeTime_eq (ii : Indexed) (c : MockConfig) (t : Table) (x : Int) :
    MockExchange.exchangeTime (specCfg ii c) x = MockExchange.exchangeTime (toCfg c t) x := rfl

/-- **Refinement of one mock exchange to the engine-view specification.** Under `ViewHyp`, for a
live mock task whose ledger is the C08 run on `ops`, and an open request for instrument index `i` of
the mocked exchange: what arrives on the account channel is exactly what the index-level C08
specification `specObserve` prescribes given the accepted orders so far (renamed to indices) — the
same asset INDEX, the same amount, the fill on the same instrument INDEX — or nothing when it
prescribes nothing; and the accepted-order history advances in step. -/
theorem mockOpen_refines_view_w {defs : List Def} {ii : Indexed} {c : MockConfig} {m : ExecMap.EMap}
    {t : Table} (H : ViewHypW defs ii c m t) {mt : MockTask} {ops : List (Int × MockExchange.Request)}
    (hh : MockHist mt c ops) (htab : mt.table = t) (hd : mt.dead = false)
    {i : Nat} {x : Keyed Nat IInstrument} (hx : ii.instruments[i]? = some x)
    (hex : x.value.exchange.value = c.exchange) (o : Open) (ho : o.instrument = i) :
    let accN := accepted (toCfg c t) (MockExchange.opens (toCfg c t) ops)
    let accI := accN.map (renEv (tauOf m t))
    (match specObserve ii c accI o with
      | some (a, b, tr) =>
        (mockOpen m mt x.value.nameExchange o).2.balance = some (a, b, b) ∧
        (mockOpen m mt x.value.nameExchange o).2.trade = some (tr.instr, tr.side, tr.price, tr.qty, tr.fees) ∧
        tr.instr = i ∧
        (mockOpen m mt x.value.nameExchange o).2.order =
          some (m.exchange.key, i, if o.qty - tr.qty = 0 then .filled else .active)
      | none => (mockOpen m mt x.value.nameExchange o).2.balance = none ∧
          (mockOpen m mt x.value.nameExchange o).2.trade = none) ∧
    (accepted (toCfg c t) (MockExchange.opens (toCfg c t)
        (ops ++ [(0, .openOrder (mockReq t x.value.nameExchange o))]))).map (renEv (tauOf m t)) =
      (if (specObserve ii c accI o).isSome then
        ⟨MockExchange.exchangeTime (specCfg ii c) 0, specReq o⟩ :: accI else accI) := by
  intro accN accI
  have hR := renames_of_view_w H
  have hwf : (toCfg c t).wf = true := covers_wf_w H.build c H.table H.covers
  obtain ⟨_, h2, e, he, _, hb, hq⟩ := own_view_w H.build c.exchange H.un H.ua H.map H.table hx hex
  -- the request as the mock exchange sees it, and its renaming
  obtain ⟨n, hn⟩ : ∃ n, n = x.value.nameExchange := ⟨_, rfl⟩
  rw [← hn] at he h2 ⊢
  let req := mockReq t n o
  let evN : Ev := ⟨MockExchange.exchangeTime (toCfg c t) 0, req⟩
  have hpos : t[tablePos t n]? = some (n, e) := lookup_getElem_idxOf t n e he
  have htau : tauOf m t (tablePos t n) = i := by
    simp only [tauOf, hpos, h2]
  have hren : renEv (tauOf m t) evN = ⟨MockExchange.exchangeTime (specCfg ii c) 0, specReq o⟩ := by
    simp only [renEv, evN, req, mockReq, specReq, htau, ho]; rfl
  have hknownN : ∀ e' ∈ accN, Known (toCfg c t) e' := accepted_known _ _
  have hknown : Known (toCfg c t) evN := by
    refine ⟨⟨(c.balances.map (·.1)).idxOf e.base, (c.balances.map (·.1)).idxOf e.quote⟩, ?_⟩
    simp only [evN, req, mockReq, toCfg, List.getElem?_map, hpos, Option.map_some]
  have hspec : specObserve ii c accI o =
      (respond (toCfg c t) accN evN).map fun r => (sigmaOf m (c.balances.map (·.1)) r.1, r.2.1,
        { r.2.2 with instr := tauOf m t r.2.2.instr }) := by
    unfold specObserve
    rw [← hren]
    exact respond_ren hR accN hknownN evN hknown
  -- the concrete response (C08)
  have hresp := MockExchange.refines_open_response (MockExchange.refines_run hwf ops) hwf 0 req
  have hkey : m.findInstrumentIndex n = .ok i := h2
  have hst : mt.st = MockExchange.run (MockExchange.init (toCfg c t)) ops := by rw [hh.st, htab]
  have hnames : mt.names = c.balances.map (·.1) := hh.names
  constructor
  · -- observations
    rw [hspec]
    cases hr : respond (toCfg c t) accN evN with
    | none =>
      simp only [Option.map_none]
      rw [show respond (toCfg c t) (accepted (toCfg c t) (MockExchange.opens (toCfg c t) ops))
        ⟨MockExchange.exchangeTime (toCfg c t) 0, req⟩ = none from hr] at hresp
      obtain ⟨err, herr⟩ := hresp
      have h21 : (MockExchange.step mt.st 0 (.openOrder (mockReq mt.table n o))).2.1 = .order (.rejected err) := by
        rw [hst, htab, herr]
      unfold mockOpen
      simp only [hd, Bool.false_eq_true, if_false, h21]
      cases err <;> simp
    | some r =>
      obtain ⟨a, b, tr⟩ := r
      simp only [Option.map_some]
      rw [show respond (toCfg c t) (accepted (toCfg c t) (MockExchange.opens (toCfg c t) ops))
        ⟨MockExchange.exchangeTime (toCfg c t) 0, req⟩ = some (a, b, tr) from hr] at hresp
      simp only at hresp
      have h21 : (MockExchange.step mt.st 0 (.openOrder (mockReq mt.table n o))).2.1 =
          .order (.accepted ⟨accN.length, MockExchange.exchangeTime (toCfg c t) 0, req.qty, a,
            ⟨b, b, MockExchange.exchangeTime (toCfg c t) 0⟩, tr⟩) := by
        rw [hst, htab, hresp]
      -- what `a` and `tr` are
      have hr' := hr
      unfold respond at hr'
      split at hr'
      · have hsp : spends (toCfg c t).instruments evN.req =
            some (match o.side with
              | .buy => (c.balances.map (·.1)).idxOf e.quote
              | .sell => (c.balances.map (·.1)).idxOf e.base) := by
          simp only [spends, evN, req, mockReq, toCfg, List.getElem?_map, hpos, Option.map_some]
          cases o.side <;> rfl
        rw [hsp] at hr'
        simp only at hr'
        split at hr'
        · cases hr'
        · rename_i bal hbal
          simp only [Option.some.injEq, Prod.mk.injEq] at hr'
          obtain ⟨ha, _, htr⟩ := hr'
          have hwfp := (toCfg_wf_iff c t).mp hwf (n, e) (List.mem_of_getElem? hpos)
          have hname : mt.names[a]? = some (match o.side with | .buy => e.quote | .sell => e.base) := by
            rw [hnames, ← ha]
            cases o.side
            · exact getElem?_idxOf_of_lt _ _ (List.idxOf_lt_length_iff.mpr hwfp.2)
            · exact getElem?_idxOf_of_lt _ _ (List.idxOf_lt_length_iff.mpr hwfp.1)
          have hidx : m.findAssetIndex (match o.side with | .buy => e.quote | .sell => e.base) =
              .ok (match o.side with | .buy => x.value.quote | .sell => x.value.base) := by
            cases o.side
            · exact hq
            · exact hb
          have hsig : sigmaOf m (c.balances.map (·.1)) a =
              (match o.side with | .buy => x.value.quote | .sell => x.value.base) := by
            simp only [sigmaOf, ← hnames, hname, hidx]
          have htri : tauOf m t tr.instr = i := by
            rw [← htr]; simp only [fillOf, evN, req, mockReq]; exact htau
          unfold mockOpen
          simp only [hd, Bool.false_eq_true, if_false, h21, hkey, hname, hidx, hsig, htri, Option.map_some]
          rw [← htr]
          simp [fillOf, evN, req, mockReq]
      · cases hr'
  · -- history
    rw [MockExchange.opens_append]
    simp only [MockExchange.evOf, MockExchange.extend]
    have hiff := respond_isSome_iff (toCfg c t) accN evN
    rw [hspec, Option.isSome_map]
    by_cases hf : fundsOk (toCfg c t) accN evN.req = true
    · have h1 : (respond (toCfg c t) accN evN).isSome = true := hiff.mpr hf
      have hf' : fundsOk (toCfg c t) (accepted (toCfg c t) (MockExchange.opens (toCfg c t) ops))
          (mockReq t n o) = true := hf
      simp only [hf', if_true, List.map_cons, h1]
      rw [← hren]
    · have h1 : (respond (toCfg c t) accN evN).isSome = false := by
        cases hs : (respond (toCfg c t) accN evN).isSome with
        | false => rfl
        | true => exact absurd (hiff.mp hs) hf
      have hf' : ¬ fundsOk (toCfg c t) (accepted (toCfg c t) (MockExchange.opens (toCfg c t) ops))
          (mockReq t n o) = true := hf
      simp only [hf', if_false, h1, Bool.false_eq_true]
      rfl

/-- (the version with C11's `WFAssets` among the hypotheses, kept under its old name; `mockOpen_refines_view_w` does without) -/
theorem mockOpen_refines_view {defs : List Def} {ii : Indexed} {c : MockConfig} {m : ExecMap.EMap}
    {t : Table} (H : ViewHyp defs ii c m t) {mt : MockTask} {ops : List (Int × MockExchange.Request)}
    (hh : MockHist mt c ops) (htab : mt.table = t) (hd : mt.dead = false)
    {i : Nat} {x : Keyed Nat IInstrument} (hx : ii.instruments[i]? = some x)
    (hex : x.value.exchange.value = c.exchange) (o : Open) (ho : o.instrument = i) :
    let accN := accepted (toCfg c t) (MockExchange.opens (toCfg c t) ops)
    let accI := accN.map (renEv (tauOf m t))
    (match specObserve ii c accI o with
      | some (a, b, tr) =>
        (mockOpen m mt x.value.nameExchange o).2.balance = some (a, b, b) ∧
        (mockOpen m mt x.value.nameExchange o).2.trade = some (tr.instr, tr.side, tr.price, tr.qty, tr.fees) ∧
        tr.instr = i ∧
        (mockOpen m mt x.value.nameExchange o).2.order =
          some (m.exchange.key, i, if o.qty - tr.qty = 0 then .filled else .active)
      | none => (mockOpen m mt x.value.nameExchange o).2.balance = none ∧
          (mockOpen m mt x.value.nameExchange o).2.trade = none) ∧
    (accepted (toCfg c t) (MockExchange.opens (toCfg c t)
        (ops ++ [(0, .openOrder (mockReq t x.value.nameExchange o))]))).map (renEv (tauOf m t)) =
      (if (specObserve ii c accI o).isSome then
        ⟨MockExchange.exchangeTime (specCfg ii c) 0, specReq o⟩ :: accI else accI) :=
  mockOpen_refines_view_w H.toW hh htab hd hx hex o ho

/-- A live mock task of configuration `c` / table `t` represents the index-level history `acc`. -/
def ViewInv (c : MockConfig) (m : ExecMap.EMap) (t : Table) (mt : MockTask) (acc : List Ev) : Prop :=
  ∃ ops, MockHist mt c ops ∧ mt.table = t ∧ mt.dead = false ∧
    (accepted (toCfg c t) (MockExchange.opens (toCfg c t) ops)).map (renEv (tauOf m t)) = acc

theorem viewInv_spawn (c : MockConfig) (m : ExecMap.EMap) (t : Table) (chan : Nat) :
    ViewInv c m t (spawnMock ⟨chan, c, t⟩) [] :=
  ⟨[], mockHist_spawn _, rfl, rfl, rfl⟩

/-- An order belongs to the mocked exchange. -/
def Own (ii : Indexed) (c : MockConfig) (o : Open) : Prop :=
  ∃ x, ii.instruments[o.instrument]? = some x ∧ x.value.exchange.value = c.exchange

theorem viewInv_step_w {defs : List Def} {ii : Indexed} {c : MockConfig} {m : ExecMap.EMap}
    {t : Table} (H : ViewHypW defs ii c m t) {mt : MockTask} {acc : List Ev}
    (hv : ViewInv c m t mt acc) (o : Open) (ho : Own ii c o) :
    ViewInv c m t (mockOpen m mt (nameOf ii o) o).1 (specNext ii c acc o) ∧
    (match specObserve ii c acc o with
      | some (a, b, tr) =>
        (mockOpen m mt (nameOf ii o) o).2.balance = some (a, b, b) ∧
        (mockOpen m mt (nameOf ii o) o).2.trade = some (tr.instr, tr.side, tr.price, tr.qty, tr.fees) ∧
        tr.instr = o.instrument ∧
        (mockOpen m mt (nameOf ii o) o).2.order =
          some (m.exchange.key, o.instrument, if o.qty - tr.qty = 0 then .filled else .active)
      | none => (mockOpen m mt (nameOf ii o) o).2.balance = none ∧
          (mockOpen m mt (nameOf ii o) o).2.trade = none) := by
  obtain ⟨ops, hh, htab, hd, hacc⟩ := hv
  obtain ⟨x, hx, hex⟩ := ho
  have hname : nameOf ii o = x.value.nameExchange := by simp [nameOf, hx]
  have hwf : (toCfg c t).wf = true := covers_wf_w H.build c H.table H.covers
  obtain ⟨hobs, hhist⟩ := mockOpen_refines_view_w H hh htab hd hx hex o rfl
  rw [hacc] at hobs hhist
  rw [hname]
  refine ⟨⟨ops ++ [(0, .openOrder (mockReq mt.table x.value.nameExchange o))], ?_, ?_, ?_, ?_⟩, hobs⟩
  · exact mockHist_mockOpen hh hd m _ o
  · rw [(mockOpen_alive m mt _ o hd).2.1, htab]
  · obtain ⟨_, _, _, h4⟩ := mockOpen_alive m mt x.value.nameExchange o hd
    cases hdd : (mockOpen m mt x.value.nameExchange o).1.dead with
    | false => rfl
    | true =>
      have := h4.mp hdd
      rw [hh.st, htab] at this
      have hWF := MockExchange.refines_wf (MockExchange.refines_run hwf ops) hwf
      rw [MockExchange.step_open_resp] at this
      injection this with this
      exact absurd this (MockExchange.openOrder_no_panic (MockExchange.updateTime_wf 0 hWF) _)
  · rw [htab, hhist]; rfl

/-- (the version with C11's `WFAssets` among the hypotheses, kept under its old name; `viewInv_step_w` does without) -/
theorem viewInv_step {defs : List Def} {ii : Indexed} {c : MockConfig} {m : ExecMap.EMap}
    {t : Table} (H : ViewHyp defs ii c m t) {mt : MockTask} {acc : List Ev}
    (hv : ViewInv c m t mt acc) (o : Open) (ho : Own ii c o) :
    ViewInv c m t (mockOpen m mt (nameOf ii o) o).1 (specNext ii c acc o) ∧
    (match specObserve ii c acc o with
      | some (a, b, tr) =>
        (mockOpen m mt (nameOf ii o) o).2.balance = some (a, b, b) ∧
        (mockOpen m mt (nameOf ii o) o).2.trade = some (tr.instr, tr.side, tr.price, tr.qty, tr.fees) ∧
        tr.instr = o.instrument ∧
        (mockOpen m mt (nameOf ii o) o).2.order =
          some (m.exchange.key, o.instrument, if o.qty - tr.qty = 0 then .filled else .active)
      | none => (mockOpen m mt (nameOf ii o) o).2.balance = none ∧
          (mockOpen m mt (nameOf ii o) o).2.trade = none) :=
  viewInv_step_w H.toW hv o ho

/-- Whole histories: after any list of own orders the task still represents the specification's
history, and the next observation is the specification's. -/
theorem viewInv_run_w {defs : List Def} {ii : Indexed} {c : MockConfig} {m : ExecMap.EMap}
    {t : Table} (H : ViewHypW defs ii c m t) (os : List Open) (hos : ∀ o ∈ os, Own ii c o)
    {mt : MockTask} {acc : List Ev} (hv : ViewInv c m t mt acc) :
    ViewInv c m t (mockRun ii m mt os) (os.foldl (specNext ii c) acc) := by
  induction os generalizing mt acc with
  | nil => exact hv
  | cons o rest ih =>
    simp only [mockRun, List.foldl_cons]
    exact ih (fun o' ho' => hos o' (List.mem_cons_of_mem _ ho')) (viewInv_step_w H hv o (hos o (by simp))).1

/-- (the version with C11's `WFAssets` among the hypotheses, kept under its old name; `viewInv_run_w` does without) -/
theorem viewInv_run {defs : List Def} {ii : Indexed} {c : MockConfig} {m : ExecMap.EMap}
    {t : Table} (H : ViewHyp defs ii c m t) (os : List Open) (hos : ∀ o ∈ os, Own ii c o)
    {mt : MockTask} {acc : List Ev} (hv : ViewInv c m t mt acc) :
    ViewInv c m t (mockRun ii m mt os) (os.foldl (specNext ii c) acc) :=
  viewInv_run_w H.toW os hos hv

end BarterModel.MockInstruments

/-! ## Oracle review C04-M2: what the spec driver now states where it was silent
(rejection reasons, the initial account snapshot) -/

namespace BarterModel.MockExchange

/-- Which rejection an open request gets when the history-only specification prescribes no fill, for
an instrument the exchange lists: a non-market order is `kindUnsupported`; a market order is
`balanceInsufficient` on the asset it would have spent (never a panic, never `instrumentInvalid`). -/
theorem open_rejected_reason {c : Cfg} {s : State} {acc : List Spec.Ev} (h : Refines c s acc)
    (hc : c.wf = true) (t : Int) (r : Req) (u : Instr) (hu : c.instruments[r.instr]? = some u)
    (hnone : Spec.respond c acc ⟨exchangeTime c t, r⟩ = none) :
    (r.kind ≠ .market → (step s t (.openOrder r)).2.1 = .order (.rejected .kindUnsupported)) ∧
    (r.kind = .market → ∃ av rq,
      (step s t (.openOrder r)).2.1 = .order (.rejected (.balanceInsufficient (spentAsset u r.side) av rq))) := by
  rw [step_open_resp]
  have hins : (updateTime s t).instruments[r.instr]? = some u := by
    have : (updateTime s t).instruments = s.instruments := by simp [updateTime]
    rw [this, h.instruments]; exact hu
  rcases refines_open h hc t r with ⟨hf, a, v, hsp, hv, _, _⟩ | ⟨_, err, hres⟩
  · exfalso
    simp [Spec.respond, hf, hsp, hv] at hnone
  · rcases openOrder_cases (updateTime s t) r with ⟨hk, e⟩ | ⟨hk, hi, e⟩ | ⟨u', hk, hi, hb, e⟩ |
      ⟨u', cur, hk, hi, hb, ht, e⟩ | ⟨u', cur, hk, hi, hb, ht, hn, e⟩ | ⟨u', cur, hk, hi, hb, ht, hn, e⟩
    · exact ⟨fun _ => by rw [e], fun hm => absurd hm hk⟩
    · rw [hins] at hi; cases hi
    · rw [e] at hres; cases hres
    · rw [e] at hres; cases hres
    · rw [hins] at hi; cases hi
      exact ⟨fun hm => absurd hk hm, fun _ => ⟨_, _, by rw [e]⟩⟩
    · rw [e] at hres; simp at hres

end BarterModel.MockExchange

namespace BarterModel.MockInstruments
open BarterModel.Index
open BarterModel.MockExchange (Cfg Instr Req Trade)
open BarterModel.MockExchange.Spec

/-- (order snapshot of a request that is NOT filled) Same setting as `mockOpen_refines_view`: when
the index-level specification prescribes no fill, the order snapshot that comes back carries the
request's own (exchange index, instrument index) and the reason `specOutcome` names — `rejected`
for a non-market order, otherwise `insufficient` with the asset INDEX the order would have spent. -/
theorem mockOpen_reject_outcome_w {defs : List Def} {ii : Indexed} {c : MockConfig} {m : ExecMap.EMap}
    {t : Table} (H : ViewHypW defs ii c m t) {mt : MockTask} {ops : List (Int × MockExchange.Request)}
    (hh : MockHist mt c ops) (htab : mt.table = t) (hd : mt.dead = false)
    {i : Nat} {x : Keyed Nat IInstrument} (hx : ii.instruments[i]? = some x)
    (hex : x.value.exchange.value = c.exchange) (o : Open) (ho : o.instrument = i) :
    let accN := accepted (toCfg c t) (MockExchange.opens (toCfg c t) ops)
    let accI := accN.map (renEv (tauOf m t))
    specObserve ii c accI o = none →
      (mockOpen m mt x.value.nameExchange o).2.order = some (m.exchange.key, i, specOutcome ii c accI o) := by
  intro accN accI hnone
  have hR := renames_of_view_w H
  have hwf : (toCfg c t).wf = true := covers_wf_w H.build c H.table H.covers
  obtain ⟨_, h2, e, he, _, hb, hq⟩ := own_view_w H.build c.exchange H.un H.ua H.map H.table hx hex
  obtain ⟨n, hn⟩ : ∃ n, n = x.value.nameExchange := ⟨_, rfl⟩
  rw [← hn] at he h2 ⊢
  let req := mockReq t n o
  let evN : Ev := ⟨MockExchange.exchangeTime (toCfg c t) 0, req⟩
  have hpos : t[tablePos t n]? = some (n, e) := lookup_getElem_idxOf t n e he
  have htau : tauOf m t (tablePos t n) = i := by
    simp only [tauOf, hpos, h2]
  have hren : renEv (tauOf m t) evN = ⟨MockExchange.exchangeTime (specCfg ii c) 0, specReq o⟩ := by
    simp only [renEv, evN, req, mockReq, specReq, htau, ho]; rfl
  have hknownN : ∀ e' ∈ accN, Known (toCfg c t) e' := accepted_known _ _
  have hu : (toCfg c t).instruments[req.instr]? =
      some ⟨(c.balances.map (·.1)).idxOf e.base, (c.balances.map (·.1)).idxOf e.quote⟩ := by
    simp only [req, mockReq, toCfg, List.getElem?_map, hpos, Option.map_some]
  have hknown : Known (toCfg c t) evN := ⟨_, hu⟩
  have hspec : specObserve ii c accI o =
      (respond (toCfg c t) accN evN).map fun r => (sigmaOf m (c.balances.map (·.1)) r.1, r.2.1,
        { r.2.2 with instr := tauOf m t r.2.2.instr }) := by
    unfold specObserve
    rw [← hren]
    exact respond_ren hR accN hknownN evN hknown
  have hrN : respond (toCfg c t) accN evN = none := by
    rw [hspec] at hnone
    cases hr : respond (toCfg c t) accN evN with
    | none => rfl
    | some r => rw [hr] at hnone; cases hnone
  have hkey : m.findInstrumentIndex n = .ok i := h2
  have hst : mt.st = MockExchange.run (MockExchange.init (toCfg c t)) ops := by rw [hh.st, htab]
  have hnames : mt.names = c.balances.map (·.1) := hh.names
  obtain ⟨hnm, hm⟩ := MockExchange.open_rejected_reason (MockExchange.refines_run hwf ops) hwf 0 req _ hu hrN
  have hwfp := (toCfg_wf_iff c t).mp hwf (n, e) (List.mem_of_getElem? hpos)
  -- the specification side
  have hins : (specCfg ii c).instruments[(specReq o).instr]? = some ⟨x.value.base, x.value.quote⟩ := by
    simp only [specCfg, specReq, ho, List.getElem?_map, hx, Option.map_some]
  by_cases hk : o.kind = .market
  · obtain ⟨av, rq, h21'⟩ := hm hk
    have h21 : (MockExchange.step mt.st 0 (.openOrder (mockReq mt.table n o))).2.1 =
        .order (.rejected (.balanceInsufficient
          (match o.side with
            | .buy => (c.balances.map (·.1)).idxOf e.quote
            | .sell => (c.balances.map (·.1)).idxOf e.base) av rq)) := by
      rw [hst, htab, h21']
      simp only [req, mockReq, MockExchange.spentAsset]
      cases o.side <;> rfl
    have hname : mt.names[(match o.side with
          | .buy => (c.balances.map (fun (p : Nat × Rat) => p.1)).idxOf e.quote
          | .sell => (c.balances.map (fun (p : Nat × Rat) => p.1)).idxOf e.base)]? =
        some (match o.side with | .buy => e.quote | .sell => e.base) := by
      rw [hnames]
      cases o.side
      · exact getElem?_idxOf_of_lt _ _ (List.idxOf_lt_length_iff.mpr hwfp.2)
      · exact getElem?_idxOf_of_lt _ _ (List.idxOf_lt_length_iff.mpr hwfp.1)
    have hidx : m.findAssetIndex (match o.side with | .buy => e.quote | .sell => e.base) =
        .ok (match o.side with | .buy => x.value.quote | .sell => x.value.base) := by
      cases o.side
      · exact hq
      · exact hb
    have hout : specOutcome ii c accI o =
        .insufficient (match o.side with | .buy => x.value.quote | .sell => x.value.base) := by
      unfold specOutcome
      rw [hnone]
      simp only [hk, ne_eq, not_true_eq_false, if_false, MockExchange.Spec.spends, hins]
      cases hs : o.side <;> simp [specReq, hs]
    unfold mockOpen
    simp only [hd, Bool.false_eq_true, if_false, h21, hkey, hname, hidx, hout]
  · have h21 : (MockExchange.step mt.st 0 (.openOrder (mockReq mt.table n o))).2.1 =
        .order (.rejected .kindUnsupported) := by
      rw [hst, htab]; exact hnm hk
    have hout : specOutcome ii c accI o = .rejected := by
      unfold specOutcome
      rw [hnone]
      simp [hk]
    unfold mockOpen
    simp only [hd, Bool.false_eq_true, if_false, h21, hkey, hout, Option.map_some]

/-- (the version with C11's `WFAssets` among the hypotheses, kept under its old name; `mockOpen_reject_outcome_w` does without) -/
theorem mockOpen_reject_outcome {defs : List Def} {ii : Indexed} {c : MockConfig} {m : ExecMap.EMap}
    {t : Table} (H : ViewHyp defs ii c m t) {mt : MockTask} {ops : List (Int × MockExchange.Request)}
    (hh : MockHist mt c ops) (htab : mt.table = t) (hd : mt.dead = false)
    {i : Nat} {x : Keyed Nat IInstrument} (hx : ii.instruments[i]? = some x)
    (hex : x.value.exchange.value = c.exchange) (o : Open) (ho : o.instrument = i) :
    let accN := accepted (toCfg c t) (MockExchange.opens (toCfg c t) ops)
    let accI := accN.map (renEv (tauOf m t))
    specObserve ii c accI o = none →
      (mockOpen m mt x.value.nameExchange o).2.order = some (m.exchange.key, i, specOutcome ii c accI o) :=
  mockOpen_reject_outcome_w H.toW hh htab hd hx hex o ho

theorem nodup_of_nodup_map {α β : Type} (f : α → β) (l : List α) (h : (l.map f).Nodup) : l.Nodup := by
  induction l with
  | nil => simp
  | cons a t ih =>
    simp only [List.map_cons, List.nodup_cons] at h ⊢
    exact ⟨fun hm => h.1 (List.mem_map_of_mem hm), ih h.2⟩

theorem mapO_cons_some {α β : Type} (f : α → Option β) (a : α) (t : List α) (r : List β)
    (h : ExecMap.mapO f (a :: t) = some r) :
    ∃ ya rt, f a = some ya ∧ ExecMap.mapO f t = some rt ∧ r = ya :: rt := by
  simp only [ExecMap.mapO] at h
  cases hfa : f a with
  | none => simp [hfa] at h
  | some ya =>
    cases hrt : ExecMap.mapO f t with
    | none => simp [hfa, hrt] at h
    | some rt =>
      simp only [hfa, hrt, Option.some.injEq] at h
      exact ⟨ya, rt, rfl, rfl, h.symm⟩

theorem mapO_mem {α β : Type} (f : α → Option β) (l : List α) (r : List β)
    (h : ExecMap.mapO f l = some r) (y : β) : y ∈ r ↔ ∃ x ∈ l, f x = some y := by
  induction l generalizing r with
  | nil => simp [ExecMap.mapO] at h; subst h; simp
  | cons a t ih =>
    obtain ⟨ya, rt, hfa, hrt, rfl⟩ := mapO_cons_some f a t r h
    simp only [List.mem_cons, ih rt hrt]
    constructor
    · rintro (rfl | ⟨x, hx, hfx⟩)
      · exact ⟨a, .inl rfl, hfa⟩
      · exact ⟨x, .inr hx, hfx⟩
    · rintro ⟨x, rfl | hx, hfx⟩
      · left; rw [hfa] at hfx; injection hfx with hfx; exact hfx.symm
      · exact .inr ⟨x, hx, hfx⟩

theorem mapO_total {α β : Type} (f : α → Option β) (l : List α) (h : ∀ x ∈ l, ∃ y, f x = some y) :
    ∃ r, ExecMap.mapO f l = some r := by
  induction l with
  | nil => exact ⟨[], rfl⟩
  | cons a t ih =>
    obtain ⟨ya, hya⟩ := h a (by simp)
    obtain ⟨r, hr⟩ := ih (fun x hx => h x (by simp [hx]))
    exact ⟨ya :: r, by simp [ExecMap.mapO, hya, hr]⟩

theorem mapO_nodup {α β : Type} (f : α → Option β) (l : List α) (r : List β)
    (hr : ExecMap.mapO f l = some r) (hn : l.Nodup)
    (hinj : ∀ x ∈ l, ∀ x' ∈ l, ∀ y, f x = some y → f x' = some y → x = x') : r.Nodup := by
  induction l generalizing r with
  | nil => simp [ExecMap.mapO] at hr; subst hr; simp
  | cons a t ih =>
    obtain ⟨ya, rt, hfa, hrt, rfl⟩ := mapO_cons_some f a t r hr
    have hnt := List.nodup_cons.mp hn
    refine List.nodup_cons.mpr ⟨?_, ih rt hrt hnt.2 (fun x hx x' hx' y h1 h2 =>
      hinj x (by simp [hx]) x' (by simp [hx']) y h1 h2)⟩
    intro hmem
    obtain ⟨x, hx, hfx⟩ := (mapO_mem f t rt hrt ya).mp hmem
    have := hinj a (by simp) x (by simp [hx]) ya hfa hfx
    subst this
    exact hnt.1 hx

/-- Under `ViewHyp` the manager's map sends the exchange name of every asset of the mocked exchange
to that asset's own index (= its position in the asset table). -/
theorem view_asset_index_w {defs : List Def} {ii : Indexed} {c : MockConfig} {m : ExecMap.EMap}
    {t : Table} (H : ViewHypW defs ii c m t) (k : Nat) (y : Keyed Nat ExchangeAsset)
    (hk : ii.assets[k]? = some y) (hye : y.value.exchange = c.exchange) :
    m.findAssetIndex y.value.asset.nameExchange = .ok k ∧ y.key = k := by
  have hW := wf_toColl H.build c.exchange H.un H.ua
  have hA := ExecMap.agreesRev_of_wf hW H.map
  have hka : (toColl ii).assets[k]? = some ⟨y.key, y.value.exchange, y.value.asset.nameExchange⟩ := by
    rw [toColl_asset, hk]; rfl
  refine ⟨?_, ?_⟩
  · rw [ExecMap.findAssetIndex_eq hA, (ExecMap.specAssetIndex_some hW _ k).mpr ⟨_, hka, hye, rfl⟩]
  · obtain ⟨_, h2, _, _⟩ := build_some defs ii H.build
    rw [h2, getElem?_enumerate] at hk
    cases hs : (sortedAssets defs)[k]? with
    | none => simp [hs] at hk
    | some a => simp [hs] at hk; rw [← hk]

/-- (the version with C11's `WFAssets` among the hypotheses, kept under its old name; `view_asset_index_w` does without) -/
theorem view_asset_index {defs : List Def} {ii : Indexed} {c : MockConfig} {m : ExecMap.EMap}
    {t : Table} (H : ViewHyp defs ii c m t) (k : Nat) (y : Keyed Nat ExchangeAsset)
    (hk : ii.assets[k]? = some y) (hye : y.value.exchange = c.exchange) :
    m.findAssetIndex y.value.asset.nameExchange = .ok k ∧ y.key = k :=
  view_asset_index_w H.toW k y hk hye

/-- **The initial account snapshot, engine view** (spec key `snap<x>`, oracle review C04-M2 / T1).
Under `ViewHyp`, the snapshot the manager of the mocked exchange hands the engine at start-up (the
configured balances, each exchange NAME translated to an asset index through the manager's map) is,
up to order, `specSnapshot`: for every asset INDEX of that exchange the amount configured for it —
no asset of the exchange missing, none of another exchange, none twice. -/
theorem initSnapshot_refines_view_w {defs : List Def} {ii : Indexed} {c : MockConfig} {m : ExecMap.EMap}
    {t : Table} (H : ViewHypW defs ii c m t) (mocks : List MockFuture) (f : InitFuture) (chan : Nat)
    (hf : f.client = .mock chan) (hm : f.map = m)
    (hfind : mocks.find? (fun mf => mf.chan == chan) = some ⟨chan, c, t⟩) :
    ∃ l, initSnapshot mocks f = some l ∧ l.Perm (specSnapshot ii c) := by
  let g : Nat × Rat → Option (Nat × Rat) := fun b =>
    match m.findAssetIndex b.1 with
    | .ok a => some (a, b.2)
    | .error _ => none
  have hinit : initSnapshot mocks f = ExecMap.mapO g c.balances := by
    unfold initSnapshot
    simp only [hf, hfind, hm]
    rfl
  -- every configured name translates
  have hname : ∀ b ∈ c.balances, ∃ k y, ii.assets[k]? = some y ∧ y.value.exchange = c.exchange ∧
      y.value.asset.nameExchange = b.1 ∧ g b = some (k, b.2) := by
    intro b hb
    obtain ⟨y, hy, hye, hyn⟩ := H.nostray b.1 (List.mem_map_of_mem (f := (·.1)) hb)
    obtain ⟨k, hk⟩ := List.mem_iff_getElem?.mp hy
    have := (view_asset_index_w H k y hk hye).1
    refine ⟨k, y, hk, hye, hyn, ?_⟩
    simp only [g, ← hyn, this]
  obtain ⟨l, hl⟩ := mapO_total g c.balances (fun b hb => by
    obtain ⟨k, _, _, _, _, hg⟩ := hname b hb; exact ⟨_, hg⟩)
  refine ⟨l, by rw [hinit, hl], ?_⟩
  have hbn : c.balances.Nodup := by
    exact nodup_of_nodup_map (·.1) _ H.nodup
  have hln : l.Nodup := by
    refine mapO_nodup g c.balances l hl hbn ?_
    intro b hb b' hb' y h1 h2
    obtain ⟨k, yk, hk, _, hyn, hg⟩ := hname b hb
    obtain ⟨k', yk', hk', _, hyn', hg'⟩ := hname b' hb'
    rw [hg] at h1; rw [hg'] at h2
    injection h1 with h1; injection h2 with h2
    have hkk : k = k' := by
      have := congrArg Prod.fst (h1.trans h2.symm); exact this
    subst hkk
    rw [hk] at hk'; injection hk' with hk'; subst hk'
    have h12 : b.2 = b'.2 := by
      have := congrArg Prod.snd (h1.trans h2.symm); exact this
    exact Prod.ext (hyn.symm.trans hyn') h12
  have hsn : (specSnapshot ii c).Nodup := by
    unfold specSnapshot
    obtain ⟨_, h2, _, _⟩ := build_some defs ii H.build
    have hkeys : (ii.assets.map (·.key)).Nodup := by
      rw [h2]
      have : (enumerate (sortedAssets defs)).map (·.key) = List.range (sortedAssets defs).length := by
        simp [enumerate, List.mapIdx_eq_zipIdx_map, List.range_eq_range']
        apply List.ext_getElem <;> simp
      rw [this]; exact List.nodup_range
    have hfilt : ((ii.assets.filter fun a => a.value.exchange == c.exchange).map (·.key)).Nodup :=
      (List.Sublist.map _ List.filter_sublist).nodup hkeys
    exact nodup_of_nodup_map (fun p => p.1) _ (by simpa [List.map_map, Function.comp_def] using hfilt)
  rw [List.perm_ext_iff_of_nodup hln hsn]
  intro p
  rw [mapO_mem g c.balances l hl p]
  unfold specSnapshot
  simp only [List.mem_map, List.mem_filter, beq_iff_eq]
  constructor
  · rintro ⟨b, hb, hgb⟩
    obtain ⟨k, y, hk, hye, hyn, hg⟩ := hname b hb
    rw [hg] at hgb; injection hgb with hgb
    refine ⟨y, ⟨List.mem_of_getElem? hk, hye⟩, ?_⟩
    rw [← hgb, (view_asset_index_w H k y hk hye).2]
    have hfind' := find?_of_nodup_fst c.balances H.nodup b hb
    simp only [specInitial, hye, if_true, hyn, hfind']
  · rintro ⟨y, ⟨hy, hye⟩, rfl⟩
    obtain ⟨k, hk⟩ := List.mem_iff_getElem?.mp hy
    have hcov := H.covers y hy hye
    obtain ⟨b, hb, hb1⟩ := List.mem_map.mp hcov
    obtain ⟨n, amt⟩ := b
    simp only at hb1
    subst hb1
    refine ⟨(_, amt), hb, ?_⟩
    have hv := view_asset_index_w H k y hk hye
    have hfind' := find?_of_nodup_fst c.balances H.nodup _ hb
    simp only [g, hv.1, hv.2, specInitial, hye, if_true, hfind']

/-- (the version with C11's `WFAssets` among the hypotheses, kept under its old name; `initSnapshot_refines_view_w` does without) -/
theorem initSnapshot_refines_view {defs : List Def} {ii : Indexed} {c : MockConfig} {m : ExecMap.EMap}
    {t : Table} (H : ViewHyp defs ii c m t) (mocks : List MockFuture) (f : InitFuture) (chan : Nat)
    (hf : f.client = .mock chan) (hm : f.map = m)
    (hfind : mocks.find? (fun mf => mf.chan == chan) = some ⟨chan, c, t⟩) :
    ∃ l, initSnapshot mocks f = some l ∧ l.Perm (specSnapshot ii c) :=
  initSnapshot_refines_view_w H.toW mocks f chan hf hm hfind

/-! ## Composition (theorem review A, C04M-1): in the BUILT system, the mock exchange task behind a
link is the isolated `mockRun` of that exchange on the requests routed to it. -/


/-- What `sendOpen` never changes of a manager task. -/
def skelM (m : ManagerTask) : Nat × ExecMap.EMap × Client := (m.exchange, m.map, m.client)

/-- Is the manager of exchange id `ex` still running? -/
def mgrAlive (e : Exec) (ex : Nat) : Bool :=
  match e.managers.find? (fun m => m.exchange == ex) with
  | some mg => mg.alive
  | none => false

/-- The mock exchange task holding the exchange ends of channel pair `chan`. -/
def mockOf (e : Exec) (chan : Nat) : Option MockTask := e.mocks.find? (fun t => t.chan == chan)

theorem openOrder_latency (s : MockExchange.State) (r : MockExchange.Req) :
    (MockExchange.openOrder s r).1.latency = s.latency := by
  rcases MockExchange.openOrder_cases s r with ⟨_, h⟩ | ⟨_, _, h⟩ | ⟨u, _, _, _, h⟩ | ⟨u, c, _, _, _, _, h⟩ |
    ⟨u, c, _, _, _, _, _, h⟩ | ⟨u, c, _, _, _, _, _, h⟩ <;> rw [h]

theorem step_latency (s : MockExchange.State) (t : Int) (rq : MockExchange.Request) :
    (MockExchange.step s t rq).1.latency = s.latency := by
  cases rq with
  | openOrder r =>
    by_cases h : ∃ f, (MockExchange.openOrder (MockExchange.updateTime s t) r).2 = .accepted f
    · obtain ⟨f, hf⟩ := h
      rw [MockExchange.step_open_accepted hf]
      simp only [MockExchange.ackTrade, openOrder_latency]
      simp [MockExchange.updateTime]
    · rw [MockExchange.step_open_not_accepted (fun f hf => h ⟨f, hf⟩)]
      simp only [openOrder_latency]
      simp [MockExchange.updateTime]
  | _ => simp [MockExchange.step, MockExchange.updateTime]

theorem run_latency (s : MockExchange.State) (ops : List (Int × MockExchange.Request)) :
    (MockExchange.run s ops).latency = s.latency :=
  MockExchange.run_inv (P := fun s' => s'.latency = s.latency)
    (fun s' t rq h => by rw [step_latency]; exact h) rfl ops

/-- The latency a mock task answers with is the configured one, whatever it has seen. -/
theorem mockHist_latency {mt : MockTask} {c : MockConfig} {ops : List (Int × MockExchange.Request)}
    (h : MockHist mt c ops) : mt.st.latency = c.latency := by
  rw [h.st, run_latency]; rfl

theorem mockOpen_chan (map : ExecMap.EMap) (m : MockTask) (name : Nat) (o : Open) :
    (mockOpen map m name o).1.chan = m.chan := by
  rcases mockOpen_fst map m name o with h | ⟨st', d, h, _, _⟩ <;> rw [h]

/-! ### what `sendOpen` never changes -/

theorem sendOpen_txmap (e : Exec) (o : Open) : (sendOpen e o).1.txmap = e.txmap := by
  unfold sendOpen
  repeat' split
  all_goals rfl

theorem setManager_skel (ms : List ManagerTask) (ex : Nat) :
    (setManager ms ex fun m => { m with alive := false }).map skelM = ms.map skelM := by
  simp only [setManager, List.map_map]
  apply List.map_congr_left
  intro a _
  simp only [Function.comp]
  split <;> rfl

theorem sendOpen_managers_skel (e : Exec) (o : Open) :
    (sendOpen e o).1.managers.map skelM = e.managers.map skelM := by
  unfold sendOpen
  repeat' split
  all_goals first | rfl | exact setManager_skel _ _

theorem setMock_chan (ms : List MockTask) (chan : Nat) (mt' : MockTask) (h : mt'.chan = chan) :
    (setMock ms chan fun _ => mt').map (·.chan) = ms.map (·.chan) := by
  simp only [setMock, List.map_map]
  apply List.map_congr_left
  intro a _
  simp only [Function.comp]
  split
  · rename_i hac; rw [h, hac]
  · rfl

theorem sendOpen_mocks_chan (e : Exec) (o : Open) :
    (sendOpen e o).1.mocks.map (·.chan) = e.mocks.map (·.chan) := by
  unfold sendOpen
  split
  · rfl
  · split
    · rfl
    · rename_i mg hmg
      split
      · rfl
      · split
        · rfl
        · rename_i r hr
          split
          · rfl
          · rename_i chan hchan
            split
            · rfl
            · rename_i mt hmt
              have hmtc : mt.chan = chan := by simpa using List.find?_some hmt
              exact setMock_chan _ _ _ (by rw [mockOpen_chan, hmtc])

/-! ### one link of the running system -/

/-- What the composition needs to know of the link of exchange id `ex` (exchange index `xi`, map `m`,
mock client on channel pair `chan`); every clause is about parts of the state no request changes. -/
structure LinkInv (xi ex chan : Nat) (m : ExecMap.EMap) (e : Exec) : Prop where
  find_own : ∃ l, e.txmap.find xi = .ok l ∧ l.client = ex
  find_other : ∀ x l, e.txmap.find x = .ok l → l.client = ex → x = xi
  mgr : (e.managers.map skelM).find? (fun s => s.1 == ex) = some (ex, m, .mock chan)
  chan_only : ∀ s ∈ e.managers.map skelM, s.2.2 = .mock chan → s.1 = ex

theorem linkInv_sendOpen {xi ex chan : Nat} {m : ExecMap.EMap} {e : Exec}
    (h : LinkInv xi ex chan m e) (o : Open) : LinkInv xi ex chan m (sendOpen e o).1 := by
  refine ⟨?_, ?_, ?_, ?_⟩
  · rw [sendOpen_txmap]; exact h.find_own
  · rw [sendOpen_txmap]; exact h.find_other
  · rw [sendOpen_managers_skel]; exact h.mgr
  · rw [sendOpen_managers_skel]; exact h.chan_only

theorem find?_skel (ms : List ManagerTask) (ex : Nat) :
    (ms.map skelM).find? (fun s => s.1 == ex) = (ms.find? (fun m => m.exchange == ex)).map skelM := by
  rw [List.find?_map]; rfl

/-- The manager the link's transmitter leads to. -/
theorem linkInv_manager {xi ex chan : Nat} {m : ExecMap.EMap} {e : Exec} (h : LinkInv xi ex chan m e) :
    ∃ mg, e.managers.find? (fun m => m.exchange == ex) = some mg ∧ mg.exchange = ex ∧ mg.map = m ∧
      mg.client = .mock chan ∧ mgrAlive e ex = mg.alive := by
  have := h.mgr
  rw [find?_skel] at this
  cases hf : e.managers.find? (fun m => m.exchange == ex) with
  | none => rw [hf] at this; cases this
  | some mg =>
    rw [hf] at this
    simp only [Option.map_some, Option.some.injEq, skelM, Prod.mk.injEq] at this
    exact ⟨mg, rfl, this.1, this.2.1, this.2.2, by simp [mgrAlive, hf]⟩

theorem find?_map_frame {α : Type} (l : List α) (g : α → α) (p : α → Bool) (hp : ∀ a, p (g a) = p a) :
    (l.map g).find? p = (l.find? p).map g := by
  rw [List.find?_map]
  have : p ∘ g = p := funext hp
  rw [this]

theorem find?_map_fix {α : Type} (l : List α) (g : α → α) (p : α → Bool) (hp : ∀ a, p (g a) = p a)
    (hfix : ∀ a, p a = true → g a = a) : (l.map g).find? p = l.find? p := by
  rw [find?_map_frame l g p hp]
  cases h : l.find? p with
  | none => rfl
  | some a => simp [hfix a (List.find?_some h)]

theorem find?_setManager_other (ms : List ManagerTask) (ex ex' : Nat) (f : ManagerTask → ManagerTask)
    (hf : ∀ m, (f m).exchange = m.exchange) (hne : ex' ≠ ex) :
    (setManager ms ex' f).find? (fun m => m.exchange == ex) = ms.find? (fun m => m.exchange == ex) := by
  unfold setManager
  apply find?_map_fix
  · intro a
    by_cases hc : a.exchange = ex' <;> simp [hc, hf]
  · intro a ha
    have : a.exchange = ex := by simpa using ha
    have hn : ¬ a.exchange = ex' := by rw [this]; exact fun e => hne e.symm
    simp only [hn, if_false]

theorem find?_setManager_own (ms : List ManagerTask) (ex : Nat) (f : ManagerTask → ManagerTask)
    (hf : ∀ m, (f m).exchange = m.exchange) :
    (setManager ms ex f).find? (fun m => m.exchange == ex) = (ms.find? (fun m => m.exchange == ex)).map f := by
  unfold setManager
  rw [find?_map_frame]
  · cases h : ms.find? (fun m => m.exchange == ex) with
    | none => rfl
    | some a =>
      have : a.exchange = ex := by simpa using List.find?_some h
      simp [this]
  · intro a
    by_cases hc : a.exchange = ex <;> simp [hc, hf]

theorem find?_setMock_other (ms : List MockTask) (chan chan' : Nat) (mt' : MockTask) (h : mt'.chan = chan')
    (hne : chan' ≠ chan) :
    (setMock ms chan' fun _ => mt').find? (fun t => t.chan == chan) = ms.find? (fun t => t.chan == chan) := by
  unfold setMock
  apply find?_map_fix
  · intro a
    by_cases hc : a.chan = chan' <;> simp [hc, h]
  · intro a ha
    have : a.chan = chan := by simpa using ha
    have hn : ¬ a.chan = chan' := by rw [this]; exact fun e => hne e.symm
    simp only [hn, if_false]

theorem find?_setMock_own (ms : List MockTask) (chan : Nat) (mt mt' : MockTask) (h : mt'.chan = chan)
    (hfind : ms.find? (fun t => t.chan == chan) = some mt) :
    (setMock ms chan fun _ => mt').find? (fun t => t.chan == chan) = some mt' := by
  unfold setMock
  rw [find?_map_frame]
  · have : mt.chan = chan := by simpa using List.find?_some hfind
    simp [hfind, this]
  · intro a
    by_cases hc : a.chan = chan <;> simp [hc, h]

/-- (frame) a request addressed to ANOTHER exchange index changes neither the manager nor the mock
exchange task of this link. -/
theorem sendOpen_other_link {xi ex chan : Nat} {m : ExecMap.EMap} {e : Exec}
    (h : LinkInv xi ex chan m e) (o : Open) (hne : o.exchange ≠ xi) :
    mgrAlive (sendOpen e o).1 ex = mgrAlive e ex ∧ mockOf (sendOpen e o).1 chan = mockOf e chan := by
  unfold sendOpen
  split
  · exact ⟨rfl, rfl⟩
  · rename_i l hl
    have hlc : l.client ≠ ex := fun hc => hne (h.find_other _ _ hl hc)
    split
    · exact ⟨rfl, rfl⟩
    · rename_i mg hmg
      have hmge : mg.exchange = l.client := by simpa using List.find?_some hmg
      have hmgm := List.mem_of_find?_eq_some hmg
      split
      · exact ⟨rfl, rfl⟩
      · split
        · refine ⟨?_, rfl⟩
          simp only [mgrAlive]
          rw [find?_setManager_other e.managers ex mg.exchange (fun m => { m with alive := false }) (fun _ => rfl)
            (by rw [hmge]; exact hlc)]
        · split
          · exact ⟨rfl, rfl⟩
          · rename_i chan' hchan'
            split
            · exact ⟨rfl, rfl⟩
            · rename_i mt hmt
              refine ⟨rfl, ?_⟩
              have hmtc : mt.chan = chan' := by simpa using List.find?_some hmt
              have hcc : chan' ≠ chan := by
                intro hc
                have := h.chan_only (skelM mg) (List.mem_map_of_mem hmgm) (by simp [skelM, hchan', hc])
                simp only [skelM] at this
                exact hlc (by rw [← hmge, this])
              simp only [mockOf]
              exact find?_setMock_other _ _ _ _ (by rw [mockOpen_chan, hmtc]) hcc

/-- (own link) a request addressed to THIS exchange index: refused when the manager is gone; the
manager dies on a key it cannot translate; otherwise the request reaches this link's mock exchange
task — and only it — addressed as the manager addresses it. -/
theorem sendOpen_own_link {xi ex chan : Nat} {m : ExecMap.EMap} {e : Exec}
    (h : LinkInv xi ex chan m e) (o : Open) (hx : o.exchange = xi) {mt : MockTask}
    (hmt : mockOf e chan = some mt) :
    (mgrAlive e ex = false → sendOpen e o = (e, .closed)) ∧
    (mgrAlive e ex = true →
      match ExecMap.managerClientRequest m
          { key := { exchange := o.exchange, instrument := o.instrument, cid := o.cid }, state := 0 } with
      | none => (sendOpen e o).2 = .managerPanic ∧ mgrAlive (sendOpen e o).1 ex = false ∧
          mockOf (sendOpen e o).1 chan = some mt
      | some r => (sendOpen e o).2 = .mock r.key.exchange r.key.instrument (mockOpen m mt r.key.instrument o).2 ∧
          mgrAlive (sendOpen e o).1 ex = true ∧
          mockOf (sendOpen e o).1 chan = some (mockOpen m mt r.key.instrument o).1) := by
  obtain ⟨l, hl, hlc⟩ := h.find_own
  obtain ⟨mg, hmg, hmge, hmgmap, hmgc, hal⟩ := linkInv_manager h
  rw [← hx] at hl
  rw [← hlc] at hmg
  simp only [mockOf] at hmt
  constructor
  · intro hd
    rw [hal] at hd
    unfold sendOpen
    simp only [hl, hmg, hd, Bool.not_false, if_true]
  · intro ha
    rw [hal] at ha
    cases hr : ExecMap.managerClientRequest m
        { key := { exchange := o.exchange, instrument := o.instrument, cid := o.cid }, state := 0 } with
    | none =>
      simp only
      have hs : sendOpen e o =
          ({ e with managers := setManager e.managers mg.exchange fun m => { m with alive := false } },
           .managerPanic) := by
        unfold sendOpen
        simp only [hl, hmg, ha, Bool.not_true, Bool.false_eq_true, if_false, hmgmap, hr]
      rw [hs]
      refine ⟨rfl, ?_, ?_⟩
      · simp only [mgrAlive]
        rw [hmge, find?_setManager_own e.managers ex (fun m => { m with alive := false }) (fun _ => rfl), ← hlc, hmg]
        rfl
      · simp only [mockOf]; exact hmt
    | some r =>
      simp only
      have hs : sendOpen e o =
          ({ e with mocks := setMock e.mocks chan fun _ => (mockOpen m mt r.key.instrument o).1 },
           .mock r.key.exchange r.key.instrument (mockOpen m mt r.key.instrument o).2) := by
        unfold sendOpen
        simp only [hl, hmg, ha, Bool.not_true, Bool.false_eq_true, if_false, hmgmap, hr, hmgc, hmt]
      rw [hs]
      refine ⟨rfl, ?_, ?_⟩
      · simp only [mgrAlive]; rw [← hlc, hmg]; exact ha
      · simp only [mockOf]
        have hmtc : mt.chan = chan := by simpa using List.find?_some hmt
        exact find?_setMock_own _ _ mt _ (by rw [mockOpen_chan, hmtc]) hmt

/-! ### the manager's translation, by `ownB` -/

theorem ownB_iff (ii : Indexed) (ex : Nat) (o : Open) :
    ownB ii ex o = true ↔ ∃ x, ii.instruments[o.instrument]? = some x ∧ x.value.exchange.value = ex := by
  unfold ownB
  cases ii.instruments[o.instrument]? with
  | none => simp
  | some x => simp

/-- For builder output: the manager of exchange `ex` (at exchange index `xi`) hands its client a
request for (xi, i) exactly when instrument `i` is an instrument of `ex`, addressed with the exchange
id and the instrument's exchange name; otherwise it refuses (and dies). -/
theorem managerClientRequest_own {defs : List Def} {ii : Indexed} (h : build defs = some ii)
    {ex : Nat} {m : ExecMap.EMap} (hm : ExecMap.genMap (toColl ii) ex = .ok m)
    {xi : Nat} {kx : Keyed Nat Nat} (hxi : ii.exchanges[xi]? = some kx) (hkx : kx.value = ex)
    (o : Open) (ho : o.exchange = xi) :
    ExecMap.managerClientRequest m
        { key := { exchange := o.exchange, instrument := o.instrument, cid := o.cid }, state := 0 } =
      if ownB ii ex o then some { key := { exchange := ex, instrument := nameOf ii o, cid := o.cid }, state := 0 }
      else none := by
  have hW := wfx_toColl h
  have hid : ExecMap.specExchangeId (toColl ii) ex o.exchange = some ex := by
    rw [ExecMap.specExchangeId_some]
    refine ⟨rfl, ⟨kx.key, kx.value⟩, ?_, hkx⟩
    simp [toColl, ho, hxi]
  rw [ExecMap.managerClientRequest_eq hW hm]
  by_cases hb : ownB ii ex o = true
  · obtain ⟨x, hx, hex⟩ := (ownB_iff ii ex o).mp hb
    have hk : (toColl ii).instruments[o.instrument]? = some ⟨x.key, x.value.exchange.value, x.value.nameExchange⟩ := by
      rw [toColl_instrument, hx]; rfl
    have hn : ExecMap.specInstrumentName (toColl ii) ex o.instrument = some x.value.nameExchange :=
      (ExecMap.specInstrumentName_some _ ex _ _).mpr ⟨_, hk, hex, rfl⟩
    have hname : nameOf ii o = x.value.nameExchange := by simp [nameOf, hx]
    simp only [ExecMap.specOrderRequest, hid, hn, hb, if_true, hname]
  · have hn : ExecMap.specInstrumentName (toColl ii) ex o.instrument = none := by
      cases hs : ExecMap.specInstrumentName (toColl ii) ex o.instrument with
      | none => rfl
      | some n =>
        exfalso
        obtain ⟨k, hk, hke, _⟩ := (ExecMap.specInstrumentName_some _ ex _ n).mp hs
        rw [toColl_instrument] at hk
        cases hx : ii.instruments[o.instrument]? with
        | none => simp [hx] at hk
        | some x =>
          simp only [hx, Option.map_some, Option.some.injEq] at hk
          subst hk
          exact hb ((ownB_iff ii ex o).mpr ⟨x, hx, hke⟩)
    simp only [ExecMap.specOrderRequest, hid, hn, hb]
    rfl

/-! ### whole histories -/

theorem routedTo_cons (ii : Indexed) (ex xi : Nat) (o : Open) (os : List Open) :
    routedTo ii ex xi (o :: os) =
      if o.exchange = xi then (if ownB ii ex o then o :: routedTo ii ex xi os else []) else routedTo ii ex xi os := by
  unfold routedTo
  by_cases h : o.exchange = xi
  · simp only [List.filter_cons, h, beq_self_eq_true, if_true, List.takeWhile_cons]
  · have : (o.exchange == xi) = false := by simpa using h
    simp only [List.filter_cons, this, h, if_false, Bool.false_eq_true]

theorem managerAlive_cons (ii : Indexed) (ex xi : Nat) (o : Open) (os : List Open) :
    managerAlive ii ex xi (o :: os) =
      if o.exchange = xi then (ownB ii ex o && managerAlive ii ex xi os) else managerAlive ii ex xi os := by
  unfold managerAlive
  by_cases h : o.exchange = xi
  · simp only [List.filter_cons, h, beq_self_eq_true, if_true, List.all_cons]
  · have : (o.exchange == xi) = false := by simpa using h
    simp only [List.filter_cons, this, h, if_false, Bool.false_eq_true]

theorem mem_takeWhile_imp {α : Type} (p : α → Bool) (l : List α) (a : α) (h : a ∈ l.takeWhile p) :
    p a = true := by
  induction l with
  | nil => cases h
  | cons b t ih =>
    simp only [List.takeWhile_cons] at h
    split at h
    · rename_i hb
      rcases List.mem_cons.mp h with rfl | h'
      · exact hb
      · exact ih h'
    · cases h

/-- every request of `routedTo` is an own request -/
theorem routedTo_own (ii : Indexed) (c : MockConfig) (xi : Nat) (os : List Open) :
    ∀ o ∈ routedTo ii c.exchange xi os, Own ii c o := by
  intro o ho
  unfold routedTo at ho
  have := mem_takeWhile_imp _ _ _ ho
  exact (ownB_iff ii c.exchange o).mp this

/-- **Composition, whole histories.** From any state in which the link of exchange `ex` (exchange
index `xi`) is set up (`LinkInv`), its mock exchange task is `mt` and its manager runs (or not: `al`):
after ANY history `os` of open requests — for any exchange index, any instrument index — the mock
exchange task of this link is the ISOLATED run `mockRun` of `mt` on exactly the requests routed to it
(`routedTo`: those addressed to `xi`, up to the first foreign instrument), and its manager runs iff it
ran and no request addressed to `xi` named a foreign instrument. -/
theorem runAll_link {defs : List Def} {ii : Indexed} (h : build defs = some ii)
    {ex : Nat} {m : ExecMap.EMap} (hm : ExecMap.genMap (toColl ii) ex = .ok m)
    {xi : Nat} {kx : Keyed Nat Nat} (hxi : ii.exchanges[xi]? = some kx) (hkx : kx.value = ex) {chan : Nat}
    (os : List Open) {e : Exec} (hl : LinkInv xi ex chan m e) {mt : MockTask} (hmt : mockOf e chan = some mt) :
    LinkInv xi ex chan m (runAll e os) ∧
    mgrAlive (runAll e os) ex = (mgrAlive e ex && managerAlive ii ex xi os) ∧
    mockOf (runAll e os) chan =
      some (mockRun ii m mt (if mgrAlive e ex then routedTo ii ex xi os else [])) := by
  induction os generalizing e mt with
  | nil =>
    refine ⟨hl, by simp [runAll, managerAlive], ?_⟩
    simp only [runAll, List.foldl_nil, routedTo, List.filter_nil, List.takeWhile_nil, ite_self, mockRun]
    exact hmt
  | cons o rest ih =>
    have hl' := linkInv_sendOpen hl o
    show LinkInv xi ex chan m (runAll (sendOpen e o).1 rest) ∧
      mgrAlive (runAll (sendOpen e o).1 rest) ex = _ ∧ mockOf (runAll (sendOpen e o).1 rest) chan = _
    rw [routedTo_cons, managerAlive_cons]
    by_cases hx : o.exchange = xi
    · simp only [hx, if_true]
      obtain ⟨hdead, halive⟩ := sendOpen_own_link hl o hx hmt
      cases hal : mgrAlive e ex with
      | false =>
        have hs := hdead hal
        rw [hs]
        obtain ⟨i1, i2, i3⟩ := ih hl hmt
        rw [hal] at i2 i3
        exact ⟨i1, by simpa using i2, by simpa using i3⟩
      | true =>
        have hstep := halive hal
        rw [managerClientRequest_own h hm hxi hkx o hx] at hstep
        cases hb : ownB ii ex o with
        | false =>
          simp only [hb, Bool.false_eq_true, if_false] at hstep
          obtain ⟨_, s2, s3⟩ := hstep
          obtain ⟨i1, i2, i3⟩ := ih hl' s3
          rw [s2] at i2 i3
          refine ⟨i1, by simpa using i2, ?_⟩
          simpa [mockRun] using i3
        | true =>
          simp only [hb, if_true] at hstep
          obtain ⟨_, s2, s3⟩ := hstep
          obtain ⟨i1, i2, i3⟩ := ih hl' s3
          rw [s2] at i2 i3
          refine ⟨i1, by simpa using i2, ?_⟩
          simp only [if_true] at i3 ⊢
          rw [i3]
          simp [mockRun]
    · simp only [hx, if_false]
      obtain ⟨s1, s2⟩ := sendOpen_other_link hl o hx
      obtain ⟨i1, i2, i3⟩ := ih hl' (s2 ▸ hmt)
      rw [s1] at i2 i3
      exact ⟨i1, i2, i3⟩

/-! ### `build()` + `init()` set every mock link up -/

theorem lookup_mem_keys {β : Type} (l : List (Nat × β)) (k : Nat) (v : β) (h : l.lookup k = some v) :
    k ∈ l.map (·.1) :=
  (lookup_isSome_iff_mem_keys l k).mp (by rw [h]; rfl)

/-- Builder output: after `build()` + `init()` the link of every mock exchange is set up
(`LinkInv`), its mock exchange task is the freshly spawned one and its manager runs. -/
theorem linkInv_buildInit {defs : List Def} {ii : Indexed} (h : build defs = some ii)
    {adds : List Add} {b : Builder} (hadd : addAll ii {} adds 0 = .ok b)
    {e : Exec} {snaps : List (Nat × List (Nat × Rat))} (hinit : buildInit ii b = .ok e snaps)
    {mf : MockFuture} (hmf : mf ∈ b.mockFutures)
    {m : ExecMap.EMap} (hm : ExecMap.genMap (toColl ii) mf.config.exchange = .ok m)
    {xi : Nat} {kx : Keyed Nat Nat} (hxi : ii.exchanges[xi]? = some kx) (hkx : kx.value = mf.config.exchange) :
    LinkInv xi mf.config.exchange mf.chan m e ∧ mockOf e mf.chan = some (spawnMock mf) ∧
      mgrAlive e mf.config.exchange = true := by
  have hb := binv_addAll (binv_empty ii) hadd
  have hA := addAll_added hadd
  have hW := wfx_toColl h
  obtain ⟨htx, hmg, hmk⟩ := buildInit_ok hinit
  have htx' := ExecMap.buildTxMap_eq hW hA
  rw [htx] at htx'
  simp only [Option.some.injEq] at htx'
  -- the init future and the link of this mock
  obtain ⟨f, hf, hfc, hfe⟩ := hb.mock_client mf hmf
  have hlook := hb.init_link f hf
  have hlink := hb.added_link _ _ hlook
  obtain ⟨_, hgen, _⟩ := mkLink_fields hlink
  have hfm : f.map = m := by
    rw [hfe, hm] at hgen; injection hgen with hgen; exact hgen.symm
  have hin : mf.config.exchange ∈ adds.map Add.exchange := by
    have := ExecMap.addExecutions_lookup hA mf.config.exchange
    rw [← hfe, hlook] at this
    simp only [List.lookup] at this
    split at this
    · rw [← hfe]; assumption
    · cases this
  have hkxc : (toColl ii).exchanges[xi]? = some ⟨kx.key, kx.value⟩ := by simp [toColl, hxi]
  have hids : ((toColl ii).exchanges.map (·.id)).Nodup := hW.2
  have hskel : e.managers.map skelM = b.initFutures.map fun f => (f.exchange, f.map, f.client) := by
    rw [hmg, List.map_map]; rfl
  refine ⟨⟨?_, ?_, ?_, ?_⟩, ?_, ?_⟩
  · -- find_own
    rw [htx', ExecMap.find_built, hkxc]
    simp only [hkx, hin, if_true]
    rw [← hfe, hlink]
    exact ⟨_, rfl, rfl⟩
  · -- find_other
    intro x l hfx hlc
    rw [htx', ExecMap.find_built] at hfx
    split at hfx
    · cases hfx
    · rename_i k hk
      split at hfx
      · split at hfx
        · rename_i l' hl'
          injection hfx with hfx; subst hfx
          obtain ⟨hc, _, _⟩ := mkLink_fields hl'
          have hkid : k.id = mf.config.exchange := by rw [← hc, hlc]
          have hx1 : ((toColl ii).exchanges.map (·.id))[x]? = some mf.config.exchange := by
            rw [List.getElem?_map, hk]; simp [hkid]
          have hx2 : ((toColl ii).exchanges.map (·.id))[xi]? = some mf.config.exchange := by
            rw [List.getElem?_map, hkxc]; simp [hkx]
          have hlt : x < ((toColl ii).exchanges.map (·.id)).length := (List.getElem?_eq_some_iff.mp hx1).1
          exact (List.getElem?_inj hlt hids).mp (by rw [hx1, hx2])
        · cases hfx
      · cases hfx
  · -- mgr
    rw [hskel]
    have hn : ((b.initFutures.map fun f => (f.exchange, f.map, f.client)).map (·.1)).Nodup := by
      rw [List.map_map]
      have : ((fun (s : Nat × ExecMap.EMap × Client) => s.1) ∘ fun (f : InitFuture) => (f.exchange, f.map, f.client)) =
          (·.exchange) := rfl
      rw [this, hb.init_keys]; exact hb.added_nodup
    have := find?_of_nodup_key (·.1) _ hn (f.exchange, f.map, f.client) (List.mem_map.mpr ⟨f, hf, rfl⟩)
    simp only [hfe] at this
    rw [this, hfm, hfc]
  · -- chan_only
    intro s hs hsc
    rw [hskel] at hs
    obtain ⟨f', hf', rfl⟩ := List.mem_map.mp hs
    simp only at hsc ⊢
    obtain ⟨mf', hmf', h1, h2⟩ := hb.client_mock f' hf' mf.chan hsc
    have : mf' = mf := ExecMap.eq_of_mem_nodup_map MockFuture.chan hb.chan_nodup hmf' hmf h1
    rw [← h2, this]
  · -- mockOf
    simp only [mockOf, hmk]
    have hn : ((b.mockFutures.map spawnMock).map (·.chan)).Nodup := by
      rw [List.map_map]
      have : ((fun (t : MockTask) => t.chan) ∘ spawnMock) = (·.chan) := rfl
      rw [this]; exact hb.chan_nodup
    exact find?_of_nodup_key (·.chan) _ hn (spawnMock mf) (List.mem_map_of_mem hmf)
  · -- the manager runs
    simp only [mgrAlive]
    cases hfind : e.managers.find? (fun m => m.exchange == mf.config.exchange) with
    | none =>
      exfalso
      have hsk := find?_skel e.managers mf.config.exchange
      rw [hfind, hskel] at hsk
      have hn : ((b.initFutures.map fun f => (f.exchange, f.map, f.client)).map (·.1)).Nodup := by
        rw [List.map_map]
        have : ((fun (s : Nat × ExecMap.EMap × Client) => s.1) ∘ fun (f : InitFuture) => (f.exchange, f.map, f.client)) =
            (·.exchange) := rfl
        rw [this, hb.init_keys]; exact hb.added_nodup
      have := find?_of_nodup_key (·.1) _ hn (f.exchange, f.map, f.client) (List.mem_map.mpr ⟨f, hf, rfl⟩)
      simp only [hfe] at this
      rw [this] at hsk
      cases hsk
    | some mg =>
      have hmem := List.mem_of_find?_eq_some hfind
      rw [hmg] at hmem
      obtain ⟨f', _, rfl⟩ := List.mem_map.mp hmem
      rfl

/-- Every mock exchange of a built system has its exchange index and its manager's map. -/
theorem mock_link_exists {ii : Indexed}
    {adds : List Add} {b : Builder} (hadd : addAll ii {} adds 0 = .ok b)
    {mf : MockFuture} (hmf : mf ∈ b.mockFutures) :
    ∃ (m : ExecMap.EMap) (xi : Nat) (kx : Keyed Nat Nat), ExecMap.genMap (toColl ii) mf.config.exchange = .ok m ∧ ii.exchanges[xi]? = some kx ∧
      kx.value = mf.config.exchange ∧ genMockInstruments ii mf.config.exchange = .ok mf.table := by
  have hb := binv_addAll (binv_empty ii) hadd
  obtain ⟨f, hf, _, hfe⟩ := hb.mock_client mf hmf
  have hlink := hb.added_link _ _ (hb.init_link f hf)
  obtain ⟨_, hgen, _⟩ := mkLink_fields hlink
  rw [hfe] at hgen
  obtain ⟨ke, hke, _⟩ := ExecMap.genMap_ok hgen
  have hmem := List.mem_of_find?_eq_some hke
  have hid : ke.id = mf.config.exchange := by simpa using List.find?_some hke
  simp only [toColl, List.mem_map] at hmem
  obtain ⟨x, hx, rfl⟩ := hmem
  obtain ⟨xi, hxi⟩ := List.mem_iff_getElem?.mp hx
  exact ⟨f.map, xi, x, hgen, hxi, hid, hb.mock_table mf hmf⟩

/-! ### the composed statements -/

/-- **The built system runs its mock exchanges in isolation** (theorem review A, C04M-1). Builder
output, any successful adds, `build()` + `init()`; `mf` one of the mock exchanges (exchange id `ex`,
exchange index `xi`, manager's map `m`). After ANY history `os` of open requests sent through the
system — to any exchange index, for any instrument index, including ones that kill managers or mock
exchanges: the state of THIS mock exchange task is the isolated run `mockRun` of the spawned task on
the requests routed to it (`routedTo`); its manager runs iff no request addressed to `xi` named a
foreign instrument. -/
theorem built_mock_is_isolated_run {defs : List Def} {ii : Indexed} (h : build defs = some ii)
    {adds : List Add} {b : Builder} (hadd : addAll ii {} adds 0 = .ok b)
    {e : Exec} {snaps : List (Nat × List (Nat × Rat))} (hinit : buildInit ii b = .ok e snaps)
    {mf : MockFuture} (hmf : mf ∈ b.mockFutures)
    {m : ExecMap.EMap} (hm : ExecMap.genMap (toColl ii) mf.config.exchange = .ok m)
    {xi : Nat} {kx : Keyed Nat Nat} (hxi : ii.exchanges[xi]? = some kx) (hkx : kx.value = mf.config.exchange)
    (os : List Open) :
    LinkInv xi mf.config.exchange mf.chan m (runAll e os) ∧
    mgrAlive (runAll e os) mf.config.exchange = managerAlive ii mf.config.exchange xi os ∧
    mockOf (runAll e os) mf.chan =
      some (mockRun ii m (spawnMock mf) (routedTo ii mf.config.exchange xi os)) := by
  obtain ⟨hl, hmt, hal⟩ := linkInv_buildInit h hadd hinit hmf hm hxi hkx
  obtain ⟨r1, r2, r3⟩ := runAll_link h hm hxi hkx os hl hmt
  rw [hal] at r2 r3
  exact ⟨r1, by simpa using r2, by simpa using r3⟩

/-- **One more request in the built system is one isolated step.** Same setting; the next request
addressed to exchange index `xi`: refused (`closed`) when the manager is gone; kills the manager when
it names a foreign instrument; otherwise it reaches the mock exchange under the instrument's exchange
name and what comes back is `mockOpen` of the ISOLATED run — the object `engine_view_refinement`,
`reject_outcome_refines_view`, `ledger_is_C08`, `configured_balances_keep_it_alive` speak about. -/
theorem built_order_is_isolated_step {defs : List Def} {ii : Indexed} (h : build defs = some ii)
    {adds : List Add} {b : Builder} (hadd : addAll ii {} adds 0 = .ok b)
    {e : Exec} {snaps : List (Nat × List (Nat × Rat))} (hinit : buildInit ii b = .ok e snaps)
    {mf : MockFuture} (hmf : mf ∈ b.mockFutures)
    {m : ExecMap.EMap} (hm : ExecMap.genMap (toColl ii) mf.config.exchange = .ok m)
    {xi : Nat} {kx : Keyed Nat Nat} (hxi : ii.exchanges[xi]? = some kx) (hkx : kx.value = mf.config.exchange)
    (os : List Open) (o : Open) (ho : o.exchange = xi) :
    let mt := mockRun ii m (spawnMock mf) (routedTo ii mf.config.exchange xi os)
    (managerAlive ii mf.config.exchange xi os = false → sendOpen (runAll e os) o = (runAll e os, .closed)) ∧
    (managerAlive ii mf.config.exchange xi os = true → ownB ii mf.config.exchange o = false →
      (sendOpen (runAll e os) o).2 = .managerPanic) ∧
    (managerAlive ii mf.config.exchange xi os = true → ownB ii mf.config.exchange o = true →
      (sendOpen (runAll e os) o).2 =
        .mock mf.config.exchange (nameOf ii o) (mockOpen m mt (nameOf ii o) o).2 ∧
      mockOf (sendOpen (runAll e os) o).1 mf.chan = some (mockOpen m mt (nameOf ii o) o).1 ∧
      m.exchange.key = xi) := by
  intro mt
  obtain ⟨hl, hal, hmt⟩ := built_mock_is_isolated_run h hadd hinit hmf hm hxi hkx os
  obtain ⟨hdead, halive⟩ := sendOpen_own_link hl o ho hmt
  refine ⟨fun hd => hdead (by rw [hal]; exact hd), ?_, ?_⟩
  · intro ha hb
    have := halive (by rw [hal]; exact ha)
    rw [managerClientRequest_own h hm hxi hkx o ho] at this
    simp only [hb, Bool.false_eq_true, if_false] at this
    exact this.1
  · intro ha hb
    have := halive (by rw [hal]; exact ha)
    have hreq := managerClientRequest_own h hm hxi hkx o ho
    rw [hreq] at this
    simp only [hb, if_true] at this hreq
    obtain ⟨hk, _, _⟩ := managerClientRequest_some hreq
    exact ⟨this.1, this.2.2, by rw [hk]; exact ho⟩

/-! ### the manager's timeout in the built system -/

theorem linkMock_eq {xi ex chan : Nat} {m : ExecMap.EMap} {e : Exec} (h : LinkInv xi ex chan m e) :
    linkMock e xi = mockOf e chan := by
  obtain ⟨l, hl, hlc⟩ := h.find_own
  obtain ⟨mg, hmg, _, _, hmgc, _⟩ := linkInv_manager h
  rw [← hlc] at hmg
  simp only [linkMock, hl, hmg, hmgc, mockOf]

/-- The timeout layer never touches the system state: whatever the engine is told, the exchange has
done what `sendOpen` says. -/
theorem sendOpenSeen_state (e : Exec) (o : Open) : (sendOpenSeen e o).1 = (sendOpen e o).1 := by
  unfold sendOpenSeen
  simp only
  split <;> rfl


theorem runAllSeen_eq (e : Exec) (os : List Open) : runAllSeen e os = runAll e os := by
  unfold runAllSeen runAll
  congr 1
  funext e o
  exact sendOpenSeen_state e o

/-- What the ENGINE is handed for a request that reaches a mock exchange of a built system: the
events of the isolated step, with the order snapshot replaced by the manager's own `Timeout` under the
request's key exactly when the task is alive after the request and its latency is at least the
manager's request timeout. -/
theorem built_order_seen {defs : List Def} {ii : Indexed} (h : build defs = some ii)
    {adds : List Add} {b : Builder} (hadd : addAll ii {} adds 0 = .ok b)
    {e : Exec} {snaps : List (Nat × List (Nat × Rat))} (hinit : buildInit ii b = .ok e snaps)
    {mf : MockFuture} (hmf : mf ∈ b.mockFutures)
    {m : ExecMap.EMap} (hm : ExecMap.genMap (toColl ii) mf.config.exchange = .ok m)
    {xi : Nat} {kx : Keyed Nat Nat} (hxi : ii.exchanges[xi]? = some kx) (hkx : kx.value = mf.config.exchange)
    (os : List Open) (o : Open) (ho : o.exchange = xi)
    (ha : managerAlive ii mf.config.exchange xi os = true) (hb : ownB ii mf.config.exchange o = true) :
    let mt := mockRun ii m (spawnMock mf) (routedTo ii mf.config.exchange xi os)
    let r := mockOpen m mt (nameOf ii o) o
    (sendOpenSeen (runAll e os) o).2 =
      .mock mf.config.exchange (nameOf ii o)
        (if answersLate r.1 then r.2.timedOut xi o.instrument else r.2.seen) := by
  intro mt r
  obtain ⟨_, _, hstep⟩ := built_order_is_isolated_step h hadd hinit hmf hm hxi hkx os o ho
  obtain ⟨hres, hmock, _⟩ := hstep ha hb
  obtain ⟨hl, _, _⟩ := built_mock_is_isolated_run h hadd hinit hmf hm hxi hkx os
  have hl' := linkInv_sendOpen hl o
  have hlm : linkMock (sendOpen (runAll e os) o).1 o.exchange = some r.1 := by
    rw [ho, linkMock_eq hl', hmock]
  rw [ho] at hlm
  unfold sendOpenSeen
  simp only [hres, ho, hlm]
  rfl

/-- **The composed refinement** (what the `spec` driver prints for a request on a mock link it speaks
about). Builder output, any adds, `build()` + `init()`; `mf` a mock exchange satisfying `ViewHypW`
(unambiguous names on it, balances exactly for its assets; no `WFAssets`). After ANY history `os` sent
through the built system in which no request addressed to `xi` named a foreign instrument, a request
for an own instrument of `xi` is answered `mock` under the instrument's exchange name, and the engine
is handed exactly what the index-level C08 specification prescribes over the requests ROUTED to this
exchange (`specHistory` of `routedTo`): balance and fill when it prescribes a fill — also when the
manager has timed out —, nothing otherwise; and the order snapshot under (`xi`, instrument index)
with `specSeen` of the outcome: `timeout` when the configured latency reaches the manager's request
timeout, else filled / active / the reason `specOutcome` names. -/
theorem built_refines_view {defs : List Def} {ii : Indexed} (h : build defs = some ii)
    {adds : List Add} {b : Builder} (hadd : addAll ii {} adds 0 = .ok b)
    {e : Exec} {snaps : List (Nat × List (Nat × Rat))} (hinit : buildInit ii b = .ok e snaps)
    {mf : MockFuture} (hmf : mf ∈ b.mockFutures) {m : ExecMap.EMap}
    (H : ViewHypW defs ii mf.config m mf.table)
    {xi : Nat} {kx : Keyed Nat Nat} (hxi : ii.exchanges[xi]? = some kx) (hkx : kx.value = mf.config.exchange)
    (os : List Open) (o : Open) (ho : o.exchange = xi)
    (ha : managerAlive ii mf.config.exchange xi os = true) (hb : ownB ii mf.config.exchange o = true) :
    ∃ ev, (sendOpenSeen (runAll e os) o).2 = .mock mf.config.exchange (nameOf ii o) ev ∧
      (match specObserve ii mf.config (specHistory ii mf.config (routedTo ii mf.config.exchange xi os)) o with
        | some (a, bal, tr) =>
          ev.balance = some (a, bal, bal) ∧
          ev.trade = some (tr.instr, tr.side, tr.price, tr.qty, tr.fees) ∧ tr.instr = o.instrument ∧
          ev.order = some (xi, o.instrument,
            specSeen mf.config (if o.qty - tr.qty = 0 then .filled else .active))
        | none =>
          ev.balance = none ∧ ev.trade = none ∧
          ev.order = some (xi, o.instrument, specSeen mf.config
            (specOutcome ii mf.config (specHistory ii mf.config (routedTo ii mf.config.exchange xi os)) o))) := by
  have hm := H.map
  have hseen := built_order_seen h hadd hinit hmf hm hxi hkx os o ho ha hb
  obtain ⟨_, _, hstep⟩ := built_order_is_isolated_step h hadd hinit hmf hm hxi hkx os o ho
  obtain ⟨_, _, hkey⟩ := hstep ha hb
  have hown : Own ii mf.config o := (ownB_iff ii mf.config.exchange o).mp hb
  have hos := routedTo_own ii mf.config xi os
  have hv : ViewInv mf.config m mf.table
      (mockRun ii m (spawnMock mf) (routedTo ii mf.config.exchange xi os))
      (specHistory ii mf.config (routedTo ii mf.config.exchange xi os)) :=
    viewInv_run_w H _ hos (viewInv_spawn mf.config m mf.table mf.chan)
  obtain ⟨hv', hobs⟩ := viewInv_step_w H hv o hown
  obtain ⟨ops', hh', _, hd', _⟩ := hv'
  have hlat := mockHist_latency hh'
  have hlate : answersLate (mockOpen m (mockRun ii m (spawnMock mf) (routedTo ii mf.config.exchange xi os))
      (nameOf ii o) o).1 = decide (mockRequestTimeoutMs ≤ mf.config.latency) := by
    simp only [answersLate, hd', hlat, Bool.not_false, Bool.true_and]
  refine ⟨_, hseen, ?_⟩
  simp only [hlate]
  -- the outcome of a request that is not filled
  have hrej : specObserve ii mf.config (specHistory ii mf.config (routedTo ii mf.config.exchange xi os)) o = none →
      (mockOpen m (mockRun ii m (spawnMock mf) (routedTo ii mf.config.exchange xi os)) (nameOf ii o) o).2.order =
        some (m.exchange.key, o.instrument,
          specOutcome ii mf.config (specHistory ii mf.config (routedTo ii mf.config.exchange xi os)) o) := by
    intro hnone
    obtain ⟨ops, hh, htab, hd, hacc⟩ := hv
    obtain ⟨x, hx, hex⟩ := hown
    have hname : nameOf ii o = x.value.nameExchange := by simp [nameOf, hx]
    have := mockOpen_reject_outcome_w H hh htab hd hx hex o rfl
    simp only [hacc] at this
    rw [hname]
    exact this hnone
  cases hso : specObserve ii mf.config (specHistory ii mf.config (routedTo ii mf.config.exchange xi os)) o with
  | none =>
    rw [hso] at hobs
    simp only at hobs ⊢
    obtain ⟨h1, h2⟩ := hobs
    have h3 := hrej hso
    by_cases hl : mockRequestTimeoutMs ≤ mf.config.latency
    · simp [hl, Events.timedOut, h1, h2, specSeen]
    · simp [hl, Events.seen, h1, h2, h3, specSeen, hkey]
  | some r =>
    obtain ⟨a, bal, tr⟩ := r
    rw [hso] at hobs
    simp only at hobs ⊢
    obtain ⟨h1, h2, h3, h4⟩ := hobs
    by_cases hl : mockRequestTimeoutMs ≤ mf.config.latency
    · simp [hl, Events.timedOut, h1, h2, h3, specSeen]
    · simp [hl, Events.seen, h1, h2, h3, h4, specSeen, hkey]

/-! ### the isolated run: ledger, latency, survival (for the composed statements of `Props/C04M`) -/

theorem mockOpen_latency (map : ExecMap.EMap) (m : MockTask) (name : Nat) (o : Open) :
    (mockOpen map m name o).1.st.latency = m.st.latency := by
  cases hd : m.dead with
  | true => rw [mockOpen_dead map m name o hd]
  | false => rw [(mockOpen_alive map m name o hd).1, step_latency]

theorem mockRun_latency (ii : Indexed) (m : ExecMap.EMap) (mt : MockTask) (os : List Open) :
    (mockRun ii m mt os).st.latency = mt.st.latency := by
  induction os generalizing mt with
  | nil => rfl
  | cons o rest ih =>
    simp only [mockRun, List.foldl_cons]
    exact (ih _).trans (mockOpen_latency m mt _ o)

theorem mockRun_dead (ii : Indexed) (m : ExecMap.EMap) (mt : MockTask) (os : List Open) (hd : mt.dead = true) :
    mockRun ii m mt os = mt := by
  induction os with
  | nil => rfl
  | cons o rest ih =>
    simp only [mockRun, List.foldl_cons] at ih ⊢
    rw [mockOpen_dead m mt _ o hd]; exact ih

/-- The isolated run of a mock exchange task is a C08 run: its ledger is `MockExchange.run` from
`toCfg` on the requests it executed — all of them while it lives. -/
theorem mockRun_hist (ii : Indexed) (m : ExecMap.EMap) {mt : MockTask} {c : MockConfig}
    {ops0 : List (Int × MockExchange.Request)} (h0 : MockHist mt c ops0) (os : List Open) :
    ∃ ops, MockHist (mockRun ii m mt os) c ops ∧ (mockRun ii m mt os).table = mt.table ∧
      ((mockRun ii m mt os).dead = false →
        ops = ops0 ++ os.map fun o => (0, .openOrder (mockReq mt.table (nameOf ii o) o))) := by
  induction os generalizing mt ops0 with
  | nil => exact ⟨ops0, h0, rfl, fun _ => by simp⟩
  | cons o rest ih =>
    cases hd : mt.dead with
    | true =>
      rw [mockRun_dead ii m mt _ hd]
      exact ⟨ops0, h0, rfl, fun h => by rw [hd] at h; cases h⟩
    | false =>
      have h1 := mockHist_mockOpen h0 hd m (nameOf ii o) o
      have ht := (mockOpen_alive m mt (nameOf ii o) o hd).2.1
      obtain ⟨ops, hh, htab, hops⟩ := ih h1
      refine ⟨ops, hh, by rw [← ht]; exact htab, ?_⟩
      intro hdd
      have := hops hdd
      rw [this, ht]
      simp

/-- With a well-formed C08 configuration (a balance for every base / quote name of the table) the
isolated run never dies, whatever it is sent. -/
theorem mockRun_alive_of_wf (ii : Indexed) (m : ExecMap.EMap) {mt : MockTask} {c : MockConfig}
    {ops0 : List (Int × MockExchange.Request)} (h0 : MockHist mt c ops0) (hd : mt.dead = false)
    (hw : (toCfg c mt.table).wf = true) (os : List Open) : (mockRun ii m mt os).dead = false := by
  induction os generalizing mt ops0 with
  | nil => exact hd
  | cons o rest ih =>
    simp only [mockRun, List.foldl_cons]
    have h1 := mockHist_mockOpen h0 hd m (nameOf ii o) o
    obtain ⟨_, ht, _, h4⟩ := mockOpen_alive m mt (nameOf ii o) o hd
    refine ih h1 ?_ (by rw [ht]; exact hw)
    cases hdd : (mockOpen m mt (nameOf ii o) o).1.dead with
    | false => rfl
    | true =>
      have := h4.mp hdd
      rw [h0.st] at this
      have hWF := MockExchange.refines_wf (MockExchange.refines_run hw ops0) hw
      rw [MockExchange.step_open_resp] at this
      injection this with this
      exact absurd this (MockExchange.openOrder_no_panic (MockExchange.updateTime_wf 0 hWF) _)

/-- Whether the engine is told `timeout` for a request that reaches a mock exchange of the built
system: exactly when the task survives the request and the CONFIGURED latency reaches the manager's
request timeout. -/
theorem answersLate_isolated (ii : Indexed) (m : ExecMap.EMap) (mf : MockFuture) (os : List Open)
    (name : Nat) (o : Open) :
    answersLate (mockOpen m (mockRun ii m (spawnMock mf) os) name o).1 =
      (!(mockOpen m (mockRun ii m (spawnMock mf) os) name o).1.dead &&
        decide (mockRequestTimeoutMs ≤ mf.config.latency)) := by
  simp only [answersLate, mockOpen_latency, mockRun_latency]
  rfl

/-! ### the initial snapshot of the built system -/

/-- **The initial account snapshot of the BUILT system** (spec key `snap<x>`): `init_snapshot_refines_view`
composed with `buildInit` — for a mock exchange satisfying `ViewHypW` the list of initial snapshots
holds, under the exchange's own index `xi`, a snapshot that is `specSnapshot` up to order. -/
theorem built_init_snapshot {defs : List Def} {ii : Indexed}
    {adds : List Add} {b : Builder} (hadd : addAll ii {} adds 0 = .ok b)
    {e : Exec} {snaps : List (Nat × List (Nat × Rat))} (hinit : buildInit ii b = .ok e snaps)
    {mf : MockFuture} (hmf : mf ∈ b.mockFutures) {m : ExecMap.EMap}
    (H : ViewHypW defs ii mf.config m mf.table) :
    ∃ l, (m.exchange.key, l) ∈ snaps ∧ l.Perm (specSnapshot ii mf.config) := by
  have hb := binv_addAll (binv_empty ii) hadd
  obtain ⟨f, hf, hfc, hfe⟩ := hb.mock_client mf hmf
  have hlink := hb.added_link _ _ (hb.init_link f hf)
  obtain ⟨_, hgen, hidx⟩ := mkLink_fields hlink
  simp only at hgen hidx
  have hfm : f.map = m := by
    rw [hfe, H.map] at hgen; injection hgen with hgen; exact hgen.symm
  have hfind : b.mockFutures.find? (fun x => x.chan == mf.chan) = some ⟨mf.chan, mf.config, mf.table⟩ :=
    find?_of_nodup_key (·.chan) _ hb.chan_nodup mf hmf
  obtain ⟨l, hl, hperm⟩ := initSnapshot_refines_view_w H b.mockFutures f mf.chan hfc hfm hfind
  refine ⟨l, ?_, hperm⟩
  -- the snapshot list of `buildInit`
  unfold buildInit at hinit
  split at hinit
  · cases hinit
  · split at hinit
    · cases hinit
    · rename_i snaps' hs
      injection hinit with _ h2
      subst h2
      rw [mapO_mem _ _ _ hs]
      exact ⟨f, hf, by simp [hl, hidx, hfm]⟩

/-- An exchange added a second time (its table can be generated, it is indexed): `add_mock` returns
`Err` (duplicate) — no panic, nothing spawned. -/
theorem addMock_duplicate (ii : Indexed) (b : Builder) (c : MockConfig) {t : Table} {m : ExecMap.EMap}
    {l : ExecMap.Link} (ht : genMockInstruments ii c.exchange = .ok t)
    (hm : ExecMap.genMap (toColl ii) c.exchange = .ok m) (hl : b.added.lookup c.exchange = some l) :
    addMock ii b c = .error (.build .duplicate) := by
  simp [addMock, ht, addExecution, ExecMap.addExecution, hm, hl]

theorem addLive_duplicate (ii : Indexed) (b : Builder) (ex : Nat) {m : ExecMap.EMap}
    {l : ExecMap.Link} (hm : ExecMap.genMap (toColl ii) ex = .ok m) (hl : b.added.lookup ex = some l) :
    addLive ii b ex = .error (.build .duplicate) := by
  simp [addLive, addExecution, ExecMap.addExecution, hm, hl]

end BarterModel.MockInstruments
