import BarterModel.Model.Connectors
/-! Helper lemmas for C13 (core Lean only). -/
namespace BarterModel.Connectors

/-! ### characters and case mapping -/

theorem toNat_ofNat_small (k : Nat) (h : k < 55296) : (Char.ofNat k).toNat = k := by
  have hv : k.isValidChar := Or.inl h
  rw [Char.ofNat, dif_pos hv]
  rfl

theorem upc_lowc (c : Char) : upc (lowc c) = upc c := by
  unfold lowc
  split
  · rename_i h
    have h1 := toNat_ofNat_small (c.toNat + 32) (by omega)
    unfold upc
    rw [if_pos (by omega), if_neg (by omega), h1]
    simp
  · rfl

theorem upc_of_isDigit {c : Char} (h : c.isDigit) : upc c = c := by
  have := Char.isDigit_iff_toNat.mp h
  have h0 : '0'.toNat = 48 := rfl
  have h9 : '9'.toNat = 57 := rfl
  unfold upc
  rw [if_neg (by omega)]

theorem upper_lower (s : Str) : upper (lower s) = up s := by
  simp [upper, lower, up, List.map_map, Function.comp_def, upc_lowc]

theorem upper_append (a b : Str) : upper (a ++ b) = upper a ++ upper b := by
  simp [upper]

theorem upper_cons (c : Char) (s : Str) : upper (c :: s) = upc c :: upper s := rfl

theorem upper_nil : upper [] = [] := rfl

theorem upper_of_digits {s : Str} (h : ∀ c ∈ s, c.isDigit) : upper s = s := by
  unfold upper
  conv => rhs; rw [← List.map_id s]
  apply List.map_congr_left
  intro c hc
  exact upc_of_isDigit (h c hc)

theorem upper_toDigits (n : Nat) : upper (Nat.toDigits 10 n) = Nat.toDigits 10 n :=
  upper_of_digits fun _ hc => Nat.isDigit_of_mem_toDigits (by decide) (by decide) hc

theorem upper_pad (w n : Nat) : upper (pad w n) = pad w n := by
  apply upper_of_digits
  intro c hc
  simp only [pad, List.mem_append, List.mem_replicate] at hc
  rcases hc with ⟨_, rfl⟩ | hc
  · decide
  · exact Nat.isDigit_of_mem_toDigits (by decide) (by decide) hc

theorem bar_not_mem_toDigits (n : Nat) : '|' ∉ Nat.toDigits 10 n := by
  intro h
  have := Nat.isDigit_of_mem_toDigits (b := 10) (by decide) (by decide) h
  exact absurd this (by decide)

theorem toDigits_injective {a b : Nat} (h : Nat.toDigits 10 a = Nat.toDigits 10 b) : a = b := by
  have ha := Nat.ofDigitChars_ten_toDigits (n := a)
  have hb := Nat.ofDigitChars_ten_toDigits (n := b)
  rw [h] at ha
  omega

/-! ### subscription ids -/

theorem subId_injective (c m₁ m₂ : Str) (h : subId c m₁ = subId c m₂) : m₁ = m₂ := by
  simpa [subId] using h

/-- splitting at the first `|`: channels without `|` make `channel|market` uniquely decodable -/
theorem subId_inj_of_no_bar : ∀ (c₁ c₂ m₁ m₂ : Str), '|' ∉ c₁ → '|' ∉ c₂ →
    subId c₁ m₁ = subId c₂ m₂ → c₁ = c₂ ∧ m₁ = m₂
  | [], [], m₁, m₂, _, _, h => by simpa [subId] using h
  | [], x :: c₂, m₁, m₂, _, h₂, h => by
    simp [subId] at h; exact absurd h.1.symm (fun e => h₂ (by simp [e]))
  | x :: c₁, [], m₁, m₂, h₁, _, h => by
    simp [subId] at h; exact absurd h.1 (fun e => h₁ (by simp [e]))
  | x :: c₁, y :: c₂, m₁, m₂, h₁, h₂, h => by
    simp only [subId, List.cons_append, List.cons.injEq] at h
    have := subId_inj_of_no_bar c₁ c₂ m₁ m₂ (fun e => h₁ (by simp [e])) (fun e => h₂ (by simp [e]))
      (by simpa [subId] using h.2)
    exact ⟨by rw [h.1, this.1], this.2⟩

theorem bar_mem_subId (c m : Str) : '|' ∈ subId c m := by simp [subId]

theorem channel_no_bar (p : Pair) (ik : IKind) : '|' ∉ channel p ik := by
  obtain ⟨e, k⟩ := p
  cases e <;> cases k <;> cases ik <;> simp [channel, Exch.isGateio]

theorem venueChannel_no_bar (p : Pair) : '|' ∉ venueChannel p := by
  obtain ⟨e, k⟩ := p
  cases e <;> cases k <;> decide

/-! ### instrument map -/

theorem find_insert_self (m : IMap) (id : Str) (k : Nat) : (m.insert id k).find id = some k := by
  induction m with
  | nil => simp [IMap.insert, IMap.find]
  | cons e rest ih =>
    obtain ⟨i, k'⟩ := e
    by_cases h : i = id <;> simp [IMap.insert, IMap.find, h, ih]

theorem find_insert_ne (m : IMap) (id id' : Str) (k : Nat) (h : id' ≠ id) :
    (m.insert id k).find id' = m.find id' := by
  induction m with
  | nil => simp [IMap.insert, IMap.find, Ne.symm h]
  | cons e rest ih =>
    obtain ⟨i, k'⟩ := e
    by_cases h1 : i = id
    · subst h1; simp [IMap.insert, IMap.find, Ne.symm h]
    · by_cases h2 : i = id'
      · subst h2; simp [IMap.insert, IMap.find, h1]
      · simp [IMap.insert, IMap.find, h1, h2, ih]

theorem find_remove_self (m : IMap) (id : Str) : (m.remove id).find id = none := by
  induction m with
  | nil => simp [IMap.remove, IMap.find]
  | cons e rest ih =>
    obtain ⟨i, k'⟩ := e
    by_cases h : i = id
    · simpa [IMap.remove, List.filter, h] using ih
    · simpa [IMap.remove, List.filter, h, IMap.find] using ih

theorem find_remove_ne (m : IMap) (id id' : Str) (h : id' ≠ id) :
    (m.remove id).find id' = m.find id' := by
  induction m with
  | nil => simp [IMap.remove, IMap.find]
  | cons e rest ih =>
    obtain ⟨i, k'⟩ := e
    by_cases h1 : i = id
    · subst h1
      have : ¬ i = id' := fun e => h e.symm
      simpa [IMap.remove, List.filter, IMap.find, this] using ih
    · by_cases h2 : i = id'
      · subst h2; simp [IMap.remove, List.filter, h1, IMap.find]
      · simpa [IMap.remove, List.filter, h1, IMap.find, h2] using ih

theorem find_mapFrom_not_mem (p : Pair) (subs : List Inst) (s : Nat) (m : IMap) (id : Str)
    (h : id ∉ subs.map (subscriptionId p)) : (mapFrom p s m subs).find id = m.find id := by
  induction subs generalizing s m with
  | nil => rfl
  | cons i rest ih =>
    simp only [List.map_cons, List.mem_cons, not_or] at h
    simp only [mapFrom]
    rw [ih _ _ h.2, find_insert_ne _ _ _ _ h.1]

theorem find_mapFrom_nodup (p : Pair) (subs : List Inst) (s : Nat) (m : IMap)
    (hd : (subs.map (subscriptionId p)).Nodup) (k : Nat) (i : Inst) (hk : subs[k]? = some i) :
    (mapFrom p s m subs).find (subscriptionId p i) = some (s + k) := by
  induction subs generalizing s m k with
  | nil => simp at hk
  | cons i0 rest ih =>
    simp only [List.map_cons, List.nodup_cons] at hd
    cases k with
    | zero =>
      simp only [List.getElem?_cons_zero, Option.some.injEq] at hk
      subst hk
      simp only [mapFrom]
      rw [find_mapFrom_not_mem _ _ _ _ _ hd.1, find_insert_self]; simp
    | succ k =>
      simp only [List.getElem?_cons_succ] at hk
      simp only [mapFrom]
      rw [ih _ _ hd.2 k hk]; congr 1; omega

theorem find_mapOf (p : Pair) (subs : List Inst) (hd : (subs.map (subscriptionId p)).Nodup)
    (k : Nat) (i : Inst) (hk : subs[k]? = some i) :
    (mapOf p subs).find (subscriptionId p i) = some k := by
  have := find_mapFrom_nodup p subs 0 [] hd k i hk
  simpa [mapOf] using this

theorem find_mapOf_none (p : Pair) (subs : List Inst) (id : Str)
    (h : id ∉ subs.map (subscriptionId p)) : (mapOf p subs).find id = none := by
  simpa [mapOf, IMap.find] using find_mapFrom_not_mem p subs 0 [] id h

/-! ### payload-side id derivation vs subscribe side -/

theorem payloadId_some (p : Pair) (msg : Msg) (hp : p ∈ supported) (hb : p.exch ≠ .bitfinex)
    (hne : p.exch.needsItem = true → msg.items ≠ []) :
    payloadId p msg = some (subId (payloadChan p msg) msg.market) := by
  obtain ⟨e, k⟩ := p
  rcases hitems : msg.items with _ | ⟨it, rest⟩ <;>
  cases e <;> cases k <;> simp [supported] at hp <;>
  simp_all [payloadId, payloadChan, Exch.readsChan, channel, Exch.isGateio, Exch.needsItem]

theorem payloadId_none_of_empty (p : Pair) (msg : Msg) (hp : p ∈ supported)
    (hn : p.exch.needsItem = true) (he : msg.items = []) : payloadId p msg = none := by
  obtain ⟨e, k⟩ := p
  cases e <;> cases k <;> simp [supported] at hp <;>
  simp_all [payloadId, Exch.isGateio, Exch.needsItem]

theorem channel_const (p : Pair) (ik : IKind) (hp : p ∈ supported) (hr : p.exch.readsChan = false) :
    channel p ik = channel p .spot := by
  obtain ⟨e, k⟩ := p
  cases e <;> cases k <;> simp [supported] at hp <;>
  simp_all [channel, Exch.readsChan]

theorem channel_of_supports (p : Pair) (ik : IKind) (hp : p ∈ supported) (hs : supports p ik = true) :
    channel p ik = venueChannel p := by
  obtain ⟨e, k⟩ := p
  cases e <;> cases k <;> simp [supported] at hp <;> cases ik <;>
  simp_all [channel, venueChannel, supports, Exch.isGateio]


/-! ### subscribe-side market = venue symbol -/

theorem upper_fmtYmd2 (d : Date) : upper (fmtYmd2 d) = fmtYmd2 d := by
  simp [fmtYmd2, upper_append, upper_pad]

theorem upper_fmtYmd4 (d : Date) : upper (fmtYmd4 d) = fmtYmd4 d := by
  simp [fmtYmd4, upper_append, upper_pad]

theorem upper_cp (c : Bool) : upper (cp c) = cp c := by cases c <;> rfl

theorem market_eq_venueSymbol (e : Exch) (i : Inst) : market e i = venueSymbol e i := by
  have h1 : upc '-' = '-' := by decide
  have h2 : upc '_' = '_' := by decide
  have h3 : upc '/' = '/' := by decide
  have hcp : ∀ c : Bool, upper (if c = true then ['C'] else ['P']) = if c = true then ['C'] else ['P'] := by
    intro c; cases c <;> rfl
  obtain ⟨b, q, ik⟩ := i
  cases e <;> cases ik <;>
  simp +decide [market, venueSymbol, concatMarket, coinbaseMarket, krakenMarket, bitfinexMarket, okxMarket,
    gateioMarket, Inst.b, Inst.q, upper_append, upper_lower, upper_cons, upper_nil,
    upper_pad, hcp, upper_toDigits, h1, h2, h3, yymmdd, yyyymmdd, fmtYmd2, fmtYmd4, cp]


/-! ### specification side -/

theorem holdersFrom_none (e : Exch) (s : Nat) (subs : List Inst) (m : Str)
    (h : m ∉ subs.map (venueSymbol e)) : holdersFrom e s subs m = [] := by
  induction subs generalizing s with
  | nil => rfl
  | cons i rest ih =>
    simp only [List.map_cons, List.mem_cons, not_or] at h
    simp [holdersFrom, Ne.symm h.1, ih _ h.2]

theorem holdersFrom_unique (e : Exch) (s : Nat) (subs : List Inst) (m : Str)
    (hd : (subs.map (venueSymbol e)).Nodup) (k : Nat) (i : Inst) (hk : subs[k]? = some i)
    (hm : venueSymbol e i = m) : holdersFrom e s subs m = [s + k] := by
  induction subs generalizing s k with
  | nil => simp at hk
  | cons i0 rest ih =>
    simp only [List.map_cons, List.nodup_cons] at hd
    cases k with
    | zero =>
      simp only [List.getElem?_cons_zero, Option.some.injEq] at hk
      subst hk
      simp [holdersFrom, hm, holdersFrom_none e (s + 1) rest m (hm ▸ hd.1)]
    | succ k =>
      simp only [List.getElem?_cons_succ] at hk
      have hne : venueSymbol e i0 ≠ m := by
        intro h0; apply hd.1; rw [h0, ← hm]
        exact List.mem_map.mpr ⟨i, List.mem_of_getElem? hk, rfl⟩
      simp only [holdersFrom, hne, ↓reduceIte]
      rw [ih (s + 1) hd.2 k hk]; congr 1; omega

/-- ids are pairwise distinct when the venue symbols are and every instrument kind is one the
builder accepts for the pair (so the channel is the pair's venue channel). -/
theorem ids_nodup_of_symbols (p : Pair) (subs : List Inst) (hp : p ∈ supported)
    (hs : ∀ i ∈ subs, supports p i.kind = true)
    (hd : (subs.map (venueSymbol p.exch)).Nodup) : (subs.map (subscriptionId p)).Nodup := by
  have : subs.map (subscriptionId p) = (subs.map (venueSymbol p.exch)).map (subId (venueChannel p)) := by
    rw [List.map_map]
    apply List.map_congr_left
    intro i hi
    simp [subscriptionId, channel_of_supports p i.kind hp (hs i hi), market_eq_venueSymbol]
  rw [this]
  exact List.Pairwise.map _ (fun a b hab h => hab (subId_injective _ _ _ h)) hd


/-! ### either instrument representation (`InstRep`: formatted-from-underlying | verbatim `name_exchange`) -/

theorem marketR_eq_venueSymbolR (e : Exch) (r : InstRep) : marketR e r = venueSymbolR e r := by
  cases r with
  | formatted i => exact market_eq_venueSymbol e i
  | verbatim n k => rfl

theorem subscriptionIdR_formatted (p : Pair) (i : Inst) :
    subscriptionIdR p (.formatted i) = subscriptionId p i := rfl

theorem mapFromR_formatted (p : Pair) (subs : List Inst) (s : Nat) (m : IMap) :
    mapFromR p s m (subs.map .formatted) = mapFrom p s m subs := by
  induction subs generalizing s m with
  | nil => rfl
  | cons i rest ih => simp only [List.map_cons, mapFromR, mapFrom, subscriptionIdR_formatted, ih]

theorem mapOfR_formatted (p : Pair) (subs : List Inst) :
    mapOfR p (subs.map .formatted) = mapOf p subs := mapFromR_formatted p subs 0 []

theorem find_mapFromR_not_mem (p : Pair) (subs : List InstRep) (s : Nat) (m : IMap) (id : Str)
    (h : id ∉ subs.map (subscriptionIdR p)) : (mapFromR p s m subs).find id = m.find id := by
  induction subs generalizing s m with
  | nil => rfl
  | cons i rest ih =>
    simp only [List.map_cons, List.mem_cons, not_or] at h
    simp only [mapFromR]
    rw [ih _ _ h.2, find_insert_ne _ _ _ _ h.1]

theorem find_mapFromR_nodup (p : Pair) (subs : List InstRep) (s : Nat) (m : IMap)
    (hd : (subs.map (subscriptionIdR p)).Nodup) (k : Nat) (r : InstRep) (hk : subs[k]? = some r) :
    (mapFromR p s m subs).find (subscriptionIdR p r) = some (s + k) := by
  induction subs generalizing s m k with
  | nil => simp at hk
  | cons i0 rest ih =>
    simp only [List.map_cons, List.nodup_cons] at hd
    cases k with
    | zero =>
      simp only [List.getElem?_cons_zero, Option.some.injEq] at hk
      subst hk
      simp only [mapFromR]
      rw [find_mapFromR_not_mem _ _ _ _ _ hd.1, find_insert_self]; simp
    | succ k =>
      simp only [List.getElem?_cons_succ] at hk
      simp only [mapFromR]
      rw [ih _ _ hd.2 k hk]; congr 1; omega

theorem find_mapOfR (p : Pair) (subs : List InstRep) (hd : (subs.map (subscriptionIdR p)).Nodup)
    (k : Nat) (r : InstRep) (hk : subs[k]? = some r) :
    (mapOfR p subs).find (subscriptionIdR p r) = some k := by
  have := find_mapFromR_nodup p subs 0 [] hd k r hk
  simpa [mapOfR] using this

theorem find_mapOfR_none (p : Pair) (subs : List InstRep) (id : Str)
    (h : id ∉ subs.map (subscriptionIdR p)) : (mapOfR p subs).find id = none := by
  simpa [mapOfR, IMap.find] using find_mapFromR_not_mem p subs 0 [] id h

theorem holdersFromR_none (e : Exch) (s : Nat) (subs : List InstRep) (m : Str)
    (h : m ∉ subs.map (venueSymbolR e)) : holdersFromR e s subs m = [] := by
  induction subs generalizing s with
  | nil => rfl
  | cons i rest ih =>
    simp only [List.map_cons, List.mem_cons, not_or] at h
    simp [holdersFromR, Ne.symm h.1, ih _ h.2]

theorem holdersFromR_unique (e : Exch) (s : Nat) (subs : List InstRep) (m : Str)
    (hd : (subs.map (venueSymbolR e)).Nodup) (k : Nat) (r : InstRep) (hk : subs[k]? = some r)
    (hm : venueSymbolR e r = m) : holdersFromR e s subs m = [s + k] := by
  induction subs generalizing s k with
  | nil => simp at hk
  | cons i0 rest ih =>
    simp only [List.map_cons, List.nodup_cons] at hd
    cases k with
    | zero =>
      simp only [List.getElem?_cons_zero, Option.some.injEq] at hk
      subst hk
      simp [holdersFromR, hm, holdersFromR_none e (s + 1) rest m (hm ▸ hd.1)]
    | succ k =>
      simp only [List.getElem?_cons_succ] at hk
      have hne : venueSymbolR e i0 ≠ m := by
        intro h0; apply hd.1; rw [h0, ← hm]
        exact List.mem_map.mpr ⟨r, List.mem_of_getElem? hk, rfl⟩
      simp only [holdersFromR, hne, ↓reduceIte]
      rw [ih (s + 1) hd.2 k hk]; congr 1; omega

theorem holdersFromR_formatted (e : Exch) (s : Nat) (subs : List Inst) (m : Str) :
    holdersFromR e s (subs.map .formatted) m = holdersFrom e s subs m := by
  induction subs generalizing s with
  | nil => rfl
  | cons i rest ih => simp only [List.map_cons, holdersFromR, holdersFrom, venueSymbolR, ih]

theorem specVerdictR_formatted (e : Exch) (subs : List Inst) (m : Str) :
    specVerdictR e (subs.map .formatted) m = specVerdict e subs m := by
  simp only [specVerdictR, specVerdict, holdersR, holders, holdersFromR_formatted]

/-- ids are pairwise distinct when the venue symbols are and every instrument kind is one the
builder accepts for the pair — for either representation. -/
theorem idsR_nodup_of_symbols (p : Pair) (subs : List InstRep) (hp : p ∈ supported)
    (hs : ∀ r ∈ subs, supports p r.kind = true)
    (hd : (subs.map (venueSymbolR p.exch)).Nodup) : (subs.map (subscriptionIdR p)).Nodup := by
  have : subs.map (subscriptionIdR p) = (subs.map (venueSymbolR p.exch)).map (subId (venueChannel p)) := by
    rw [List.map_map]
    apply List.map_congr_left
    intro r hr
    simp [subscriptionIdR, channel_of_supports p r.kind hp (hs r hr), marketR_eq_venueSymbolR]
  rw [this]
  exact List.Pairwise.map _ (fun a b hab h => hab (subId_injective _ _ _ h)) hd

/-! ### sign of `PublicTrade.amount` -/

theorem absR_nonneg (a : Rat) : 0 ≤ absR a := by
  unfold absR; split <;> grind

/-! ### Bitfinex: channel-id re-keying -/

theorem digits_ne_subId (c : Nat) (ch m : Str) : Nat.toDigits 10 c ≠ subId ch m := by
  intro h
  exact bar_not_mem_toDigits c (h ▸ bar_mem_subId ch m)

/-- one confirmation for another channel id leaves the entry under `digits c` alone -/
theorem find_digits_subscribed (m : IMap) (ch s : Str) (c' c : Nat) (h : c' ≠ c) :
    (bitfinexSubscribed m ch s c').find (Nat.toDigits 10 c) = m.find (Nat.toDigits 10 c) := by
  unfold bitfinexSubscribed
  split
  · rw [find_insert_ne _ _ _ _ (fun e => h (toDigits_injective e).symm),
      find_remove_ne _ _ _ (digits_ne_subId c ch s)]
  · rfl

theorem find_digits_confirm (m : IMap) (confs : List (Str × Nat)) (c : Nat)
    (h : c ∉ confs.map (·.2)) :
    (bitfinexConfirm m confs).find (Nat.toDigits 10 c) = m.find (Nat.toDigits 10 c) := by
  induction confs generalizing m with
  | nil => rfl
  | cons x rest ih =>
    simp only [List.map_cons, List.mem_cons, not_or] at h
    simp only [bitfinexConfirm, List.foldl_cons]
    have := ih (bitfinexSubscribed m "trades".toList x.1 x.2) h.2
    simp only [bitfinexConfirm] at this
    rw [this, find_digits_subscribed _ _ _ _ _ (Ne.symm h.1)]

/-- one confirmation for another symbol leaves the entry under `trades|sym` alone -/
theorem find_subId_subscribed (m : IMap) (s sym : Str) (c' : Nat) (h : s ≠ sym) :
    (bitfinexSubscribed m "trades".toList s c').find (subId "trades".toList sym)
      = m.find (subId "trades".toList sym) := by
  unfold bitfinexSubscribed
  split
  · rw [find_insert_ne _ _ _ _ (fun e => digits_ne_subId c' _ _ e.symm),
      find_remove_ne _ _ _ (fun e => h (subId_injective _ _ _ e).symm)]
  · rfl

theorem find_confirm_attributed (m : IMap) (confs : List (Str × Nat))
    (hs : (confs.map (·.1)).Nodup) (hc : (confs.map (·.2)).Nodup)
    (sym : Str) (c key : Nat) (hmem : (sym, c) ∈ confs)
    (hfind : m.find (subId "trades".toList sym) = some key) :
    (bitfinexConfirm m confs).find (Nat.toDigits 10 c) = some key := by
  induction confs generalizing m with
  | nil => simp at hmem
  | cons x rest ih =>
    simp only [List.map_cons, List.nodup_cons] at hs hc
    simp only [bitfinexConfirm, List.foldl_cons]
    rcases List.mem_cons.mp hmem with rfl | hrest
    · have := find_digits_confirm (bitfinexSubscribed m "trades".toList sym c) rest c hc.1
      simp only [bitfinexConfirm] at this
      rw [this]
      unfold bitfinexSubscribed
      rw [hfind]
      exact find_insert_self _ _ _
    · have hne : x.1 ≠ sym := by
        intro e; apply hs.1; rw [e]
        exact List.mem_map.mpr ⟨(sym, c), hrest, rfl⟩
      have := ih (bitfinexSubscribed m "trades".toList x.1 x.2) hs.2 hc.2 hrest
        (by rw [find_subId_subscribed _ _ _ _ hne]; exact hfind)
      simpa [bitfinexConfirm] using this

/-- a symbol without an entry keeps having none, and its confirmation creates no numeric entry -/
theorem find_none_subscribed (m : IMap) (s sym : Str) (c' : Nat)
    (h : m.find (subId "trades".toList sym) = none) :
    (bitfinexSubscribed m "trades".toList s c').find (subId "trades".toList sym) = none := by
  by_cases hs : s = sym
  · subst hs; unfold bitfinexSubscribed; rw [h]; exact h
  · rw [find_subId_subscribed _ _ _ _ hs]; exact h

theorem find_confirm_rejected (m : IMap) (confs : List (Str × Nat))
    (hc : (confs.map (·.2)).Nodup)
    (sym : Str) (c : Nat) (hmem : (sym, c) ∈ confs)
    (hfind : m.find (subId "trades".toList sym) = none)
    (hdig : m.find (Nat.toDigits 10 c) = none) :
    (bitfinexConfirm m confs).find (Nat.toDigits 10 c) = none := by
  induction confs generalizing m with
  | nil => simp at hmem
  | cons x rest ih =>
    simp only [List.map_cons, List.nodup_cons] at hc
    simp only [bitfinexConfirm, List.foldl_cons]
    rcases List.mem_cons.mp hmem with rfl | hrest
    · have := find_digits_confirm (bitfinexSubscribed m "trades".toList sym c) rest c hc.1
      simp only [bitfinexConfirm] at this
      rw [this]
      unfold bitfinexSubscribed
      rw [hfind]
      exact hdig
    · have hne : x.2 ≠ c := by
        intro e; apply hc.1; rw [e]
        exact List.mem_map.mpr ⟨(sym, c), hrest, rfl⟩
      have := ih (bitfinexSubscribed m "trades".toList x.1 x.2) hc.2 hrest
        (find_none_subscribed _ _ _ _ hfind)
        (by rw [find_digits_subscribed _ _ _ _ _ hne]; exact hdig)
      simpa [bitfinexConfirm] using this

end BarterModel.Connectors
