import BarterModel.Model.BinanceL2
import BarterModel.Lemmas.Book
/-! Lemmas about the Binance L2 sequencing model (`Model/BinanceL2.lean`); used by `Props/C06.lean`. -/
namespace BarterModel.BinanceL2
open BarterModel.Book

/-! ## the sequencer step, characterised by the venue rule -/

/-- the sequencer state after admitting `m`. -/
def Sequencer.advance (r : Rules) (sq : Sequencer) (m : Update) : Sequencer :=
  { updatesProcessed := sq.updatesProcessed + 1
    prevLastUpdateId := match r with
      | .spot => sq.lastUpdateId
      | .futures => sq.prevLastUpdateId
    lastUpdateId := m.lastUpdateId }

theorem isOutdated_iff (r : Rules) (sq : Sequencer) (m : Update) :
    sq.isOutdated r m = true ↔ Stale r sq.lastUpdateId m := by
  cases r <;> simp [Sequencer.isOutdated, Stale]

theorem validate_stale {r : Rules} {sq : Sequencer} {m : Update} (h : Stale r sq.lastUpdateId m) :
    sq.validateSequence r m = (sq, .dropped) := by
  simp [Sequencer.validateSequence, (isOutdated_iff r sq m).mpr h]

theorem validate_extends {r : Rules} {sq : Sequencer} {m : Update} (hs : ¬ Stale r sq.lastUpdateId m)
    (he : Extends r (sq.updatesProcessed == 0) sq.lastUpdateId m) :
    sq.validateSequence r m = (sq.advance r m, .valid m) := by
  have ho : sq.isOutdated r m = false := by
    cases h : sq.isOutdated r m
    · rfl
    · exact absurd ((isOutdated_iff r sq m).mp h) hs
  unfold Extends at he
  cases r <;>
    by_cases hf : sq.updatesProcessed = 0 <;>
    simp_all [Sequencer.validateSequence, Sequencer.isFirstUpdate, Sequencer.validateFirstUpdate,
      Sequencer.validateNextUpdate, FirstRule, NextRule, Sequencer.advance]

theorem validate_breaks {r : Rules} {sq : Sequencer} {m : Update} (hs : ¬ Stale r sq.lastUpdateId m)
    (he : ¬ Extends r (sq.updatesProcessed == 0) sq.lastUpdateId m) :
    sq.validateSequence r m = (sq, .error (.invalidSequence sq.lastUpdateId m.firstUpdateId)) := by
  have ho : sq.isOutdated r m = false := by
    cases h : sq.isOutdated r m
    · rfl
    · exact absurd ((isOutdated_iff r sq m).mp h) hs
  unfold Extends at he
  cases r <;>
    by_cases hf : sq.updatesProcessed = 0 <;>
    simp_all [Sequencer.validateSequence, Sequencer.isFirstUpdate, Sequencer.validateFirstUpdate,
      Sequencer.validateNextUpdate, FirstRule, NextRule]
  all_goals (rw [if_neg (by omega)])

/-- the three cases are exhaustive and exclusive: the complete behaviour of `validate_sequence`. -/
theorem validate_cases (r : Rules) (sq : Sequencer) (m : Update) :
    (Stale r sq.lastUpdateId m ∧ sq.validateSequence r m = (sq, .dropped)) ∨
    (¬ Stale r sq.lastUpdateId m ∧ Extends r (sq.updatesProcessed == 0) sq.lastUpdateId m ∧
      sq.validateSequence r m = (sq.advance r m, .valid m)) ∨
    (¬ Stale r sq.lastUpdateId m ∧ ¬ Extends r (sq.updatesProcessed == 0) sq.lastUpdateId m ∧
      sq.validateSequence r m = (sq, .error (.invalidSequence sq.lastUpdateId m.firstUpdateId))) := by
  by_cases hs : Stale r sq.lastUpdateId m
  · exact .inl ⟨hs, validate_stale hs⟩
  · by_cases he : Extends r (sq.updatesProcessed == 0) sq.lastUpdateId m
    · exact .inr (.inl ⟨hs, he, validate_extends hs he⟩)
    · exact .inr (.inr ⟨hs, he, validate_breaks hs he⟩)


/-! ## the admitted updates form an unbroken chain -/

theorem run_nil (r : Rules) (sq : Sequencer) : Sequencer.run r sq [] = (sq, []) := rfl

theorem run_cons (r : Rules) (sq : Sequencer) (m : Update) (ms : List Update) :
    Sequencer.run r sq (m :: ms) =
      ((Sequencer.run r (sq.validateSequence r m).1 ms).1,
        (sq.validateSequence r m).2 :: (Sequencer.run r (sq.validateSequence r m).1 ms).2) := rfl

/-- after at least one processed update the admitted updates are linked to the current last id -/
theorem linked_of_run (r : Rules) (sq : Sequencer) (ms : List Update) (h : sq.updatesProcessed ≠ 0) :
    Linked r sq.lastUpdateId (admitted (Sequencer.run r sq ms).2) := by
  induction ms generalizing sq with
  | nil => simp [run_nil, admitted, Linked]
  | cons m ms ih =>
    rw [run_cons]
    rcases validate_cases r sq m with ⟨_, hv⟩ | ⟨_, he, hv⟩ | ⟨_, _, hv⟩
    · rw [hv]; simpa [admitted] using ih sq h
    · rw [hv]
      have hf : (sq.updatesProcessed == 0) = false := by simpa using h
      rw [hf] at he
      simp only [admitted, Linked]
      exact ⟨he, ih (sq.advance r m) (by simp [Sequencer.advance])⟩
    · rw [hv]; simpa [admitted] using ih sq h

/-- before the first processed update the admitted updates form a chain from the current last id -/
theorem chain_of_run (r : Rules) (sq : Sequencer) (ms : List Update) (h : sq.updatesProcessed = 0) :
    Chain r sq.lastUpdateId (admitted (Sequencer.run r sq ms).2) := by
  induction ms with
  | nil => simp [run_nil, admitted, Chain]
  | cons m ms ih =>
    rw [run_cons]
    rcases validate_cases r sq m with ⟨_, hv⟩ | ⟨_, he, hv⟩ | ⟨_, _, hv⟩
    · rw [hv]; simpa [admitted] using ih
    · rw [hv]
      have hf : (sq.updatesProcessed == 0) = true := by simpa using h
      rw [hf] at he
      simp only [admitted, Chain]
      exact ⟨he, linked_of_run r (sq.advance r m) ms (by simp [Sequencer.advance])⟩
    · rw [hv]; simpa [admitted] using ih

/-- bookkeeping: the counter counts the admitted updates, the last id is that of the last admitted -/
theorem run_state (r : Rules) (sq : Sequencer) (ms : List Update) :
    (Sequencer.run r sq ms).1.updatesProcessed = sq.updatesProcessed + (admitted (Sequencer.run r sq ms).2).length ∧
    (Sequencer.run r sq ms).1.lastUpdateId =
      (((admitted (Sequencer.run r sq ms).2).getLast?.map (·.lastUpdateId)).getD sq.lastUpdateId) := by
  induction ms generalizing sq with
  | nil => simp [run_nil, admitted]
  | cons m ms ih =>
    rw [run_cons]
    rcases validate_cases r sq m with ⟨_, hv⟩ | ⟨_, _, hv⟩ | ⟨_, _, hv⟩
    · rw [hv]; simpa [admitted] using ih sq
    · rw [hv]
      have := ih (sq.advance r m)
      simp only [admitted, List.length_cons]
      refine ⟨by rw [this.1]; simp [Sequencer.advance]; omega, ?_⟩
      rw [this.2, List.getLast?_cons]
      cases (admitted (Sequencer.run r (sq.advance r m) ms).2).getLast? <;> simp [Sequencer.advance]
    · rw [hv]; simpa [admitted] using ih sq

/-- admitted ids never go back: each admitted update is non-stale for the last id before it -/
theorem admitted_mem_not_stale (r : Rules) (sq : Sequencer) (ms : List Update) :
    ∀ m ∈ admitted (Sequencer.run r sq ms).2, ¬ Stale r sq.lastUpdateId m := by
  induction ms generalizing sq with
  | nil => simp [run_nil, admitted]
  | cons m ms ih =>
    rw [run_cons]
    rcases validate_cases r sq m with ⟨_, hv⟩ | ⟨hs, _, hv⟩ | ⟨_, _, hv⟩
    · rw [hv]; simpa [admitted] using ih sq
    · rw [hv]
      intro x hx
      simp only [admitted, List.mem_cons] at hx
      rcases hx with hx | hx
      · subst hx; exact hs
      · have := ih (sq.advance r m) x hx
        cases r <;> simp_all [Stale, Sequencer.advance] <;> omega
    · rw [hv]; simpa [admitted] using ih sq

/-! ## ground truth: key lemma -/

/-- A list of point updates that all state the value of `f` and cover every point where `g`
differs from `f` turns `g` into `f` (whatever their order, with repetitions). -/
theorem applyLevels_cover (f : Rat → Rat) (ls : List Level) (g : Rat → Rat)
    (hamt : ∀ l ∈ ls, l.amount = f l.price)
    (hcov : ∀ p, g p ≠ f p → ∃ l ∈ ls, l.price = p) : applyLevels g ls = f := by
  induction ls generalizing g with
  | nil =>
    funext p
    by_cases h : g p = f p
    · simpa [applyLevels] using h
    · obtain ⟨l, hl, _⟩ := hcov p h; simp at hl
  | cons l ls ih =>
    simp only [applyLevels, List.foldl_cons]
    apply ih
    · intro x hx; exact hamt x (by simp [hx])
    · intro p hp
      simp only [setLevel] at hp
      by_cases hpl : p = l.price
      · rw [if_pos hpl, hamt l (by simp), hpl] at hp; exact absurd rfl hp
      · rw [if_neg hpl] at hp
        obtain ⟨x, hx, hxp⟩ := hcov p hp
        simp only [List.mem_cons] at hx
        rcases hx with hx | hx
        · subst hx; exact absurd hxp.symm hpl
        · exact ⟨x, hx, hxp⟩

/-- a price not touched between `x` and `hi` has the same amount in the book at `x` and at `hi` -/
theorem bookAt_untouched (v : Venue) (x hi : Nat) (side : Side) (p : Rat) (hx : x ≤ hi)
    (hn : ¬ Touched v x hi side p) : bookAt v hi side p = bookAt v x side p := by
  unfold bookAt changesUpTo
  suffices h : ∀ (g1 g2 : Rat → Rat), g1 p = g2 p →
      applyLevels g1 ((v.filter fun c => decide (c.id ≤ hi) && decide (c.side = side)).map fun c => ⟨c.price, c.amount⟩) p =
      applyLevels g2 ((v.filter fun c => decide (c.id ≤ x) && decide (c.side = side)).map fun c => ⟨c.price, c.amount⟩) p from
    h _ _ rfl
  induction v with
  | nil => intro g1 g2 h; simpa [applyLevels] using h
  | cons c cs ih =>
    have hn' : ¬ Touched cs x hi side p := by
      rintro ⟨d, hd, h⟩; exact hn ⟨d, by simp [hd], h⟩
    have ih := ih hn'
    intro g1 g2 hg
    by_cases hs : c.side = side
    · by_cases h1 : c.id ≤ x
      · have h2 : c.id ≤ hi := by omega
        simp only [List.filter_cons, h1, h2, hs, decide_true, Bool.and_self, ↓reduceIte, List.map_cons,
          applyLevels, List.foldl_cons]
        apply ih
        simp only [setLevel]; split <;> simp_all
      · by_cases h2 : c.id ≤ hi
        · have hcp : c.price ≠ p := by
            intro hcp; exact hn ⟨c, by simp, by omega, h2, hs, hcp⟩
          simp only [List.filter_cons, h1, h2, hs, decide_true, decide_false, Bool.and_self, Bool.false_and,
            ↓reduceIte, List.map_cons, applyLevels, List.foldl_cons, Bool.false_eq_true]
          apply ih
          simp only [setLevel]
          rw [if_neg (fun h => hcp h.symm)]; exact hg
        · have h1' : ¬ c.id ≤ x := h1
          simp only [List.filter_cons, h1, h2, decide_false, Bool.false_and, Bool.false_eq_true, ↓reduceIte]
          exact ih g1 g2 hg
    · simp only [List.filter_cons, hs, decide_false, Bool.and_false, Bool.false_eq_true, ↓reduceIte]
      exact ih g1 g2 hg

/-- **key lemma**: applying the levels of a genuine message for `(lo, hi]` to the exchange's book
as of any `x` with `lo ≤ x ≤ hi` yields the exchange's book as of `hi`. -/
theorem key_side (v : Venue) (lo x hi : Nat) (side : Side) (ls : List Level)
    (h1 : lo ≤ x) (h2 : x ≤ hi) (hg : GenuineSide v lo hi side ls) :
    applyLevels (bookAt v x side) ls = bookAt v hi side := by
  apply applyLevels_cover _ _ _ hg.1
  intro p hp
  have : Touched v x hi side p := by
    apply Classical.byContradiction
    intro hn
    exact hp (bookAt_untouched v x hi side p h2 hn).symm
  obtain ⟨c, hc, hlo, hhi, hs, hcp⟩ := this
  obtain ⟨l, hl, hlp⟩ := hg.2 c hc (by omega) hhi hs
  exact ⟨l, hl, hlp.trans hcp⟩

theorem genuineSide_perm {v : Venue} {lo hi : Nat} {side : Side} {a b : List Level} (hp : a.Perm b)
    (hg : GenuineSide v lo hi side a) : GenuineSide v lo hi side b := by
  refine ⟨fun l hl => hg.1 l (hp.mem_iff.mpr hl), fun c hc h1 h2 h3 => ?_⟩
  obtain ⟨l, hl, hlp⟩ := hg.2 c hc h1 h2 h3
  exact ⟨l, hp.mem_iff.mp hl, hlp⟩


/-- in a well-formed venue (ids strictly increasing) the changes with id ≤ `c.id` are exactly the
history up to and including `c` -/
theorem changesUpTo_prefix (pre post : Venue) (c : Change) (side : Side)
    (h : Venue.WF (pre ++ c :: post)) :
    changesUpTo (pre ++ c :: post) c.id side =
      ((pre ++ [c]).filter fun d => decide (d.side = side)).map fun d => ⟨d.price, d.amount⟩ := by
  unfold Venue.WF at h
  rw [List.pairwise_append] at h
  obtain ⟨_, hcp, hpre⟩ := h
  rw [List.pairwise_cons] at hcp
  have h1 : ∀ d ∈ pre, d.id ≤ c.id := fun d hd => Nat.le_of_lt (hpre d hd c (by simp))
  have h2 : ∀ d ∈ post, ¬ d.id ≤ c.id := fun d hd => Nat.not_le_of_gt (hcp.1 d hd)
  unfold changesUpTo
  congr 1
  simp only [List.filter_append, List.filter_cons, Nat.le_refl, decide_true, Bool.true_and, List.filter_nil]
  have e1 : pre.filter (fun d => decide (d.id ≤ c.id) && decide (d.side = side)) = pre.filter (fun d => decide (d.side = side)) :=
    List.filter_congr (fun d hd => by simp [h1 d hd])
  have e2 : post.filter (fun d => decide (d.id ≤ c.id) && decide (d.side = side)) = [] := by
    rw [List.filter_eq_nil_iff]; intro d hd; simp [h2 d hd]
  rw [e1, e2]

/-! ## the local book follows the exchange's book -/

/-- `m` is a genuine message of the venue for *some* id range. -/
def IsGenuine (r : Rules) (v : Venue) (m : Update) : Prop := ∃ lo hi, Genuine r v lo hi m

/-- Coupling invariant of one instrument: the local book is in strict book order, reports the
sequencer's last id, and denotes the exchange's book as of that id. -/
structure Synced (v : Venue) (l : Local) : Prop where
  sorted : SortedBook l.book
  seq : l.book.sequence = l.sequencer.lastUpdateId
  bids : abs l.book.bids = bookAt v l.book.sequence .bids
  asks : abs l.book.asks = bookAt v l.book.sequence .asks

/-- a non-stale genuine message that extends the chain has its range around the current last id -/
theorem genuine_range {r : Rules} {v : Venue} {lo hi : Nat} {m : Update} {first : Bool} {last : Nat}
    (hg : GenuineIds r v lo hi m) (hs : ¬ Stale r last m) (he : Extends r first last m) :
    lo ≤ last ∧ last ≤ hi := by
  obtain ⟨hlt, hu, hspot, hfut⟩ := hg
  unfold Extends at he
  cases r <;> cases first <;> simp_all [Stale, FirstRule, NextRule] <;> omega

theorem synced_admit {r : Rules} {v : Venue} {l : Local} {m : Update} (hl : Synced v l)
    (hg : IsGenuine r v m) (hs : ¬ Stale r l.sequencer.lastUpdateId m)
    (he : Extends r (l.sequencer.updatesProcessed == 0) l.sequencer.lastUpdateId m) :
    Synced v ⟨l.sequencer.advance r m, l.book.update m.toEvent⟩ := by
  obtain ⟨lo, hi, hids, hb, ha⟩ := hg
  obtain ⟨h1, h2⟩ := genuine_range hids hs he
  have hu : m.lastUpdateId = hi := hids.2.1
  rw [← hl.seq] at h1 h2
  refine ⟨⟨sorted_upsert hl.sorted.bids, sorted_upsert hl.sorted.asks⟩, ?_, ?_, ?_⟩
  · simp [Update.toEvent, OrderBook.update, OrderBook.new, Sequencer.advance]
  · simp only [Update.toEvent, OrderBook.update, OrderBook.new]
    rw [abs_upsert hl.sorted.bids, hl.bids, hu]
    exact key_side v lo _ hi .bids _ h1 h2 (genuineSide_perm (sortLevels_perm .bids m.bids).symm hb)
  · simp only [Update.toEvent, OrderBook.update, OrderBook.new]
    rw [abs_upsert hl.sorted.asks, hl.asks, hu]
    exact key_side v lo _ hi .asks _ h1 h2 (genuineSide_perm (sortLevels_perm .asks m.asks).symm ha)

/-- what `Local.step` does, by the venue rule -/
theorem local_step_cases (r : Rules) (l : Local) (m : Update) :
    (Stale r l.sequencer.lastUpdateId m ∧ l.step r m = (l, .dropped)) ∨
    (¬ Stale r l.sequencer.lastUpdateId m ∧
      Extends r (l.sequencer.updatesProcessed == 0) l.sequencer.lastUpdateId m ∧
      l.step r m = (⟨l.sequencer.advance r m, l.book.update m.toEvent⟩, .valid m)) ∨
    (¬ Stale r l.sequencer.lastUpdateId m ∧
      ¬ Extends r (l.sequencer.updatesProcessed == 0) l.sequencer.lastUpdateId m ∧
      l.step r m = (l, .error (.invalidSequence l.sequencer.lastUpdateId m.firstUpdateId))) := by
  rcases validate_cases r l.sequencer m with ⟨h, hv⟩ | ⟨h, he, hv⟩ | ⟨h, he, hv⟩
  · exact .inl ⟨h, by simp [Local.step, hv]⟩
  · exact .inr (.inl ⟨h, he, by simp [Local.step, hv]⟩)
  · exact .inr (.inr ⟨h, he, by simp [Local.step, hv]⟩)

theorem synced_step {r : Rules} {v : Venue} {l : Local} {m : Update} (hl : Synced v l)
    (hg : IsGenuine r v m) : Synced v (l.step r m).1 := by
  rcases local_step_cases r l m with ⟨_, hv⟩ | ⟨hs, he, hv⟩ | ⟨_, _, hv⟩
  · rw [hv]; exact hl
  · rw [hv]; exact synced_admit hl hg hs he
  · rw [hv]; exact hl

theorem local_run_nil (r : Rules) (l : Local) : Local.run r l [] = (l, none) := rfl

theorem local_run_cons (r : Rules) (l : Local) (m : Update) (ms : List Update) :
    Local.run r l (m :: ms) =
      match l.step r m with
      | (l', .error e) => (l', some e)
      | (l', _) => Local.run r l' ms := rfl

theorem synced_run {r : Rules} {v : Venue} {l : Local} {ms : List Update} (hl : Synced v l)
    (hg : ∀ m ∈ ms, IsGenuine r v m) : Synced v (Local.run r l ms).1 := by
  induction ms generalizing l with
  | nil => exact hl
  | cons m ms ih =>
    have hm := synced_step (r := r) hl (hg m (by simp))
    have ih' := fun l' (h : Synced v l') => ih h (fun x hx => hg x (by simp [hx]))
    rw [local_run_cons]
    rcases local_step_cases r l m with ⟨_, hv⟩ | ⟨_, _, hv⟩ | ⟨_, _, hv⟩
    · rw [hv]; exact ih' _ hl
    · rw [hv] at hm ⊢; exact ih' _ hm
    · rw [hv]; exact hl

/-- `Local.run` reports an error exactly when some message neither was stale nor extended the
chain; the error is the terminal `InvalidSequence` -/
theorem local_run_told {r : Rules} {l : Local} {ms : List Update} {e : DataError}
    (h : (Local.run r l ms).2 = some e) : e.isTerminal = true := by
  induction ms generalizing l with
  | nil => simp [local_run_nil] at h
  | cons m ms ih =>
    rw [local_run_cons] at h
    rcases local_step_cases r l m with ⟨_, hv⟩ | ⟨_, _, hv⟩ | ⟨_, _, hv⟩
    · rw [hv] at h; exact ih h
    · rw [hv] at h; exact ih h
    · rw [hv] at h; simp at h; subst h; rfl

/-! ### the executable ground truth (`specBook`) -/

theorem wf_nil : PMap.WF ([] : PMap) := ⟨List.Pairwise.nil, fun _ h => by simp at h⟩

theorem abs_specSide (v : Venue) (x : Nat) (side : Side) : abs (specSide v x side) = bookAt v x side := by
  unfold specSide bookAt
  rw [PMap.abs_apply]
  rfl

theorem wf_specSide (v : Venue) (x : Nat) (side : Side) : (specSide v x side).WF :=
  PMap.wf_apply wf_nil _

theorem wfBook_specBook (v : Venue) (x : Nat) : WFBook (specBook v x) :=
  { bids := PMap.sorted_levels (wf_specSide v x .bids) .bids
    asks := PMap.sorted_levels (wf_specSide v x .asks) .asks
    bidsNonZero := PMap.nonZero_levels (wf_specSide v x .bids) .bids
    asksNonZero := PMap.nonZero_levels (wf_specSide v x .asks) .asks }

theorem abs_specBook (v : Venue) (x : Nat) :
    abs (specBook v x).bids = bookAt v x .bids ∧ abs (specBook v x).asks = bookAt v x .asks := by
  constructor
  · simp only [specBook]; rw [PMap.abs_levels (wf_specSide v x .bids), abs_specSide]
  · simp only [specBook]; rw [PMap.abs_levels (wf_specSide v x .asks), abs_specSide]

/-- a synced book without zero amounts *is* the book the spec driver computes from the venue -/
theorem synced_eq_specBook {v : Venue} {l : Local} (hl : Synced v l) (hz1 : NonZero l.book.bids)
    (hz2 : NonZero l.book.asks) : l.book = specBook v l.book.sequence := by
  have hw := wfBook_specBook v l.book.sequence
  have ha := abs_specBook v l.book.sequence
  have hb : l.book.bids = (specBook v l.book.sequence).bids :=
    canonical hl.sorted.bids hw.bids hz1 hw.bidsNonZero (by rw [hl.bids, ha.1])
  have hk : l.book.asks = (specBook v l.book.sequence).asks :=
    canonical hl.sorted.asks hw.asks hz2 hw.asksNonZero (by rw [hl.asks, ha.2])
  cases hbk : l.book with
  | mk sq bs as =>
    rw [hbk] at hb hk
    simp only [specBook] at hb hk ⊢
    rw [← hb, ← hk]

theorem nonZero_step {r : Rules} {l : Local} {m : Update} (hz1 : NonZero l.book.bids)
    (hz2 : NonZero l.book.asks) :
    NonZero (l.step r m).1.book.bids ∧ NonZero (l.step r m).1.book.asks := by
  rcases local_step_cases r l m with ⟨_, hv⟩ | ⟨_, _, hv⟩ | ⟨_, _, hv⟩
  · rw [hv]; exact ⟨hz1, hz2⟩
  · rw [hv]
    simp only [Update.toEvent, OrderBook.update]
    exact ⟨nonZero_upsert hz1, nonZero_upsert hz2⟩
  · rw [hv]; exact ⟨hz1, hz2⟩

theorem nonZero_run {r : Rules} {l : Local} {ms : List Update} (hz1 : NonZero l.book.bids)
    (hz2 : NonZero l.book.asks) :
    NonZero (Local.run r l ms).1.book.bids ∧ NonZero (Local.run r l ms).1.book.asks := by
  induction ms generalizing l with
  | nil => exact ⟨hz1, hz2⟩
  | cons m ms ih =>
    have hm := nonZero_step (r := r) (m := m) hz1 hz2
    rw [local_run_cons]
    rcases local_step_cases r l m with ⟨_, hv⟩ | ⟨_, _, hv⟩ | ⟨_, _, hv⟩
    · rw [hv]; exact ih hz1 hz2
    · rw [hv] at hm ⊢; exact ih hm.1 hm.2
    · rw [hv]; exact ⟨hz1, hz2⟩


/-! ## no false alarm -/

theorem run_stale_prefix {r : Rules} {l : Local} (old rest : List Update)
    (h : ∀ m ∈ old, Stale r l.sequencer.lastUpdateId m) :
    Local.run r l (old ++ rest) = Local.run r l rest := by
  induction old with
  | nil => rfl
  | cons m old ih =>
    rw [List.cons_append, local_run_cons]
    rcases local_step_cases r l m with ⟨_, hv⟩ | ⟨hs, _, _⟩ | ⟨hs, _, _⟩
    · rw [hv]; exact ih (fun x hx => h x (by simp [hx]))
    · exact absurd (h m (by simp)) hs
    · exact absurd (h m (by simp)) hs

theorem admitAll_cons (r : Rules) (l : Local) (m : Update) (ms : List Update) :
    Local.admitAll r l (m :: ms) =
      Local.admitAll r ⟨l.sequencer.advance r m, l.book.update m.toEvent⟩ ms := rfl

/-- consecutive genuine messages following the current last id are all admitted -/
theorem run_linked {r : Rules} {v : Venue} {l : Local} {ms : List Update}
    (hup : l.sequencer.updatesProcessed ≠ 0) (hg : GenuineRun r v l.sequencer.lastUpdateId ms) :
    Local.run r l ms = (Local.admitAll r l ms, none) := by
  induction ms generalizing l with
  | nil => rfl
  | cons m ms ih =>
    obtain ⟨⟨⟨hlt, hu, hspot, hfut⟩, _, _⟩, hrest⟩ := hg
    have hf : (l.sequencer.updatesProcessed == 0) = false := by simpa using hup
    have hs : ¬ Stale r l.sequencer.lastUpdateId m := by
      cases r <;> simp [Stale] <;> omega
    have he : Extends r (l.sequencer.updatesProcessed == 0) l.sequencer.lastUpdateId m := by
      rw [hf]; unfold Extends
      cases r <;> simp_all [NextRule]
    rw [local_run_cons]
    rcases local_step_cases r l m with ⟨h, _⟩ | ⟨_, _, hv⟩ | ⟨_, h, _⟩
    · exact absurd h hs
    · rw [hv, admitAll_cons]
      exact ih (l := ⟨l.sequencer.advance r m, l.book.update m.toEvent⟩)
        (by simp [Sequencer.advance]) (by simpa [Sequencer.advance] using hrest)
    · exact absurd he h

/-- … and so is a run whose first message covers the snapshot point, from a fresh sequencer -/
theorem run_covering {r : Rules} {v : Venue} {l : Local} {c0 : Nat} {ms : List Update}
    (hup : l.sequencer.updatesProcessed = 0) (hc : Covers r v l.sequencer.lastUpdateId c0 ms)
    (hg : GenuineRun r v c0 ms) :
    Local.run r l ms = (Local.admitAll r l ms, none) := by
  cases ms with
  | nil => rfl
  | cons m ms =>
    obtain ⟨⟨⟨hlt, hu, hspot, hfut⟩, _, _⟩, hrest⟩ := hg
    have hf : (l.sequencer.updatesProcessed == 0) = true := by simpa using hup
    have hs : ¬ Stale r l.sequencer.lastUpdateId m := by
      cases r <;> simp_all [Stale, Covers] <;> omega
    have he : Extends r (l.sequencer.updatesProcessed == 0) l.sequencer.lastUpdateId m := by
      rw [hf]; unfold Extends
      cases r
      · simp_all [FirstRule, Covers]; omega
      · simp only [Covers] at hc
        obtain ⟨h1, h2, c, hcv, hcid⟩ := hc
        have := (hfut rfl).2.2 c hcv (by omega) (by omega)
        simp [FirstRule]; omega
    rw [local_run_cons]
    rcases local_step_cases r l m with ⟨h, _⟩ | ⟨_, _, hv⟩ | ⟨_, h, _⟩
    · exact absurd h hs
    · rw [hv, admitAll_cons]
      exact run_linked (l := ⟨l.sequencer.advance r m, l.book.update m.toEvent⟩)
        (by simp [Sequencer.advance]) (by simpa [Sequencer.advance] using hrest)
    · exact absurd he h

theorem admitAll_state (r : Rules) (l : Local) (ms : List Update) :
    (Local.admitAll r l ms).sequencer.updatesProcessed = l.sequencer.updatesProcessed + ms.length ∧
    (Local.admitAll r l ms).sequencer.lastUpdateId =
      ((ms.getLast?.map (·.lastUpdateId)).getD l.sequencer.lastUpdateId) := by
  induction ms generalizing l with
  | nil => simp [Local.admitAll]
  | cons m ms ih =>
    rw [admitAll_cons]
    have := ih ⟨l.sequencer.advance r m, l.book.update m.toEvent⟩
    refine ⟨by rw [this.1]; simp [Sequencer.advance]; omega, ?_⟩
    rw [this.2, List.getLast?_cons]
    cases ms.getLast? <;> simp [Sequencer.advance]

theorem genuineRun_mem {r : Rules} {v : Venue} {c0 : Nat} {run : List Update} (h : GenuineRun r v c0 run) :
    ∀ m ∈ run, IsGenuine r v m := by
  induction run generalizing c0 with
  | nil => simp
  | cons x xs ih =>
    intro m hm
    simp only [List.mem_cons] at hm
    rcases hm with hm | hm
    · subst hm; exact ⟨_, _, h.1⟩
    · exact ih h.2 m hm

/-! ## routing: instruments on one connection are independent -/

theorem lookup_setSequencer (m : List (Nat × Meta)) (sub : Nat) (sq : Sequencer) (a : Nat) :
    (setSequencer m sub sq).lookup a =
      if a = sub then (m.lookup a).map (fun im => { im with sequencer := sq }) else m.lookup a := by
  induction m with
  | nil => simp [setSequencer]
  | cons x xs ih =>
    obtain ⟨s, im⟩ := x
    simp only [setSequencer, List.map_cons] at ih ⊢
    by_cases hs : s = sub
    · by_cases ha : a = s
      · subst ha; subst hs; simp [List.lookup]
      · have ha' : (a == s) = false := by simpa using ha
        simp only [hs, ↓reduceIte, List.lookup] at ih ⊢
        rw [← hs, ha']
        simpa [hs] using ih
    · by_cases ha : a = s
      · subst ha; simp [hs, List.lookup]
      · have ha' : (a == s) = false := by simpa using ha
        simp only [hs, ↓reduceIte, List.lookup, ha']
        exact ih

theorem lookup_managerStep (books : Books) (k : Nat) (ev : Event) (k' : Nat) :
    (managerStep books (.item k ev)).lookup k' =
      if k' = k then (books.lookup k').map (·.update ev) else books.lookup k' := by
  induction books with
  | nil => simp [managerStep]
  | cons x xs ih =>
    obtain ⟨kx, b⟩ := x
    simp only [managerStep, List.map_cons] at ih ⊢
    by_cases hx : kx = k
    · by_cases hk : k' = kx
      · subst hk; subst hx; simp [List.lookup]
      · have hk' : (k' == kx) = false := by simpa using hk
        simp only [hx, ↓reduceIte, List.lookup] at ih ⊢
        rw [← hx, hk']
        simpa [hx] using ih
    · by_cases hk : k' = kx
      · subst hk; simp [hx, List.lookup]
      · have hk' : (k' == kx) = false := by simpa using hk
        simp only [hx, ↓reduceIte, List.lookup, hk']
        exact ih

theorem transform_unknown {r : Rules} {t : Transformer} {m : Update}
    (h : t.instrumentMap.lookup m.sub = none) :
    t.transform r m = (t, [.error (.unidentifiable m.sub)]) := by
  simp [Transformer.transform, h]

/-- `transform` for a subscribed instrument, by the venue rule -/
theorem transform_known {r : Rules} {t : Transformer} {m : Update} {im : Meta}
    (h : t.instrumentMap.lookup m.sub = some im) :
    (Stale r im.sequencer.lastUpdateId m ∧
      t.transform r m = (⟨setSequencer t.instrumentMap m.sub im.sequencer⟩, [])) ∨
    (¬ Stale r im.sequencer.lastUpdateId m ∧
      Extends r (im.sequencer.updatesProcessed == 0) im.sequencer.lastUpdateId m ∧
      t.transform r m = (⟨setSequencer t.instrumentMap m.sub (im.sequencer.advance r m)⟩,
        [.event im.key m.toEvent])) ∨
    (¬ Stale r im.sequencer.lastUpdateId m ∧
      ¬ Extends r (im.sequencer.updatesProcessed == 0) im.sequencer.lastUpdateId m ∧
      t.transform r m = (⟨setSequencer t.instrumentMap m.sub im.sequencer⟩,
        [.error (.invalidSequence im.sequencer.lastUpdateId m.firstUpdateId)])) := by
  rcases validate_cases r im.sequencer m with ⟨hs, hv⟩ | ⟨hs, he, hv⟩ | ⟨hs, he, hv⟩
  · exact .inl ⟨hs, by simp [Transformer.transform, h, hv]⟩
  · exact .inr (.inl ⟨hs, he, by simp [Transformer.transform, h, hv]⟩)
  · exact .inr (.inr ⟨hs, he, by simp [Transformer.transform, h, hv]⟩)

/-- a message never changes the entry of another subscription -/
theorem transform_other (r : Rules) (t : Transformer) (m : Update) (b : Nat) (hb : b ≠ m.sub) :
    (t.transform r m).1.instrumentMap.lookup b = t.instrumentMap.lookup b := by
  cases h : t.instrumentMap.lookup m.sub with
  | none => rw [transform_unknown h]
  | some im =>
    rcases transform_known (r := r) h with ⟨_, hv⟩ | ⟨_, _, hv⟩ | ⟨_, _, hv⟩ <;>
      rw [hv] <;> simp [lookup_setSequencer, hb]


/-! ## the whole connection -/

/-- Coupling invariant of a connection carrying several instruments: distinct subscriptions feed
distinct books, and every subscribed instrument's (sequencer, book) pair is `Synced` with the
venue of that instrument. -/
structure ConnSynced (venues : Nat → Venue) (c : Conn) : Prop where
  keysInj : ∀ a a' im im', c.transformer.instrumentMap.lookup a = some im →
    c.transformer.instrumentMap.lookup a' = some im' → im.key = im'.key → a = a'
  synced : ∀ a im, c.transformer.instrumentMap.lookup a = some im →
    ∃ b, c.books.lookup im.key = some b ∧ Synced (venues a) ⟨im.sequencer, b⟩

theorem conn_step_dead {r : Rules} {c : Conn} (m : Update) (h : c.alive = false) : c.step r m = c := by
  simp [Conn.step, h]

/-- what one message does to a live connection -/
theorem conn_step_cases (r : Rules) (c : Conn) (m : Update) (h : c.alive = true) :
    (c.transformer.instrumentMap.lookup m.sub = none ∧ c.step r m = c) ∨
    (∃ im, c.transformer.instrumentMap.lookup m.sub = some im ∧
      ((Stale r im.sequencer.lastUpdateId m ∧
          c.step r m = ⟨⟨setSequencer c.transformer.instrumentMap m.sub im.sequencer⟩, c.books, true⟩) ∨
       (¬ Stale r im.sequencer.lastUpdateId m ∧
          Extends r (im.sequencer.updatesProcessed == 0) im.sequencer.lastUpdateId m ∧
          c.step r m = ⟨⟨setSequencer c.transformer.instrumentMap m.sub (im.sequencer.advance r m)⟩,
            managerStep c.books (.item im.key m.toEvent), true⟩) ∨
       (¬ Stale r im.sequencer.lastUpdateId m ∧
          ¬ Extends r (im.sequencer.updatesProcessed == 0) im.sequencer.lastUpdateId m ∧
          c.step r m = ⟨⟨setSequencer c.transformer.instrumentMap m.sub im.sequencer⟩, c.books, false⟩))) := by
  cases hl : c.transformer.instrumentMap.lookup m.sub with
  | none =>
    left
    refine ⟨rfl, ?_⟩
    simp [Conn.step, h, transform_unknown hl, terminate, terminated, consume, consumeOut, DataError.isTerminal]
    cases c; simp_all
  | some im =>
    right
    refine ⟨im, rfl, ?_⟩
    rcases transform_known (r := r) hl with ⟨hs, hv⟩ | ⟨hs, he, hv⟩ | ⟨hs, he, hv⟩
    · exact .inl ⟨hs, by simp [Conn.step, h, hv, terminate, terminated, consume]⟩
    · exact .inr (.inl ⟨hs, he, by simp [Conn.step, h, hv, terminate, terminated, consume, consumeOut]⟩)
    · exact .inr (.inr ⟨hs, he, by
        simp [Conn.step, h, hv, terminate, terminated, consume, DataError.isTerminal]⟩)

theorem meta_eta (im : Meta) : ({ im with sequencer := im.sequencer } : Meta) = im := rfl

theorem connSynced_step {r : Rules} {venues : Nat → Venue} {c : Conn} {m : Update}
    (hc : ConnSynced venues c)
    (hg : ∀ im, c.transformer.instrumentMap.lookup m.sub = some im → IsGenuine r (venues m.sub) m) :
    ConnSynced venues (c.step r m) := by
  cases halive : c.alive with
  | false => rw [conn_step_dead m halive]; exact hc
  | true =>
    rcases conn_step_cases r c m halive with ⟨_, hv⟩ | ⟨im, hl, hcase⟩
    · rw [hv]; exact hc
    · -- lookups after writing a sequencer back
      have hlook : ∀ sq a, (setSequencer c.transformer.instrumentMap m.sub sq).lookup a =
          if a = m.sub then some { im with sequencer := sq } else c.transformer.instrumentMap.lookup a := by
        intro sq a
        rw [lookup_setSequencer]
        by_cases ha : a = m.sub
        · simp [ha, hl]
        · simp [ha]
      -- key injectivity is preserved whatever sequencer is written
      have hinj : ∀ sq, ∀ a a' x x', (setSequencer c.transformer.instrumentMap m.sub sq).lookup a = some x →
          (setSequencer c.transformer.instrumentMap m.sub sq).lookup a' = some x' → x.key = x'.key → a = a' := by
        intro sq a a' x x' h1 h2 hk
        rw [hlook] at h1 h2
        by_cases ha : a = m.sub <;> by_cases ha' : a' = m.sub
        · rw [ha, ha']
        · simp only [ha, ↓reduceIte, Option.some.injEq, ha'] at h1 h2
          subst h1; subst ha
          exact hc.keysInj _ _ _ _ hl h2 hk
        · simp only [ha, ↓reduceIte, Option.some.injEq, ha'] at h1 h2
          subst h2; subst ha'
          exact hc.keysInj _ _ _ _ h1 hl hk
        · simp only [ha, ↓reduceIte, ha'] at h1 h2
          exact hc.keysInj _ _ _ _ h1 h2 hk
      rcases hcase with ⟨_, hv⟩ | ⟨hs, he, hv⟩ | ⟨_, _, hv⟩
      · rw [hv]
        refine ⟨hinj _, ?_⟩
        intro a x hx
        simp only at hx
        rw [hlook] at hx
        by_cases ha : a = m.sub
        · simp only [ha, ↓reduceIte, Option.some.injEq] at hx
          subst hx; rw [ha]; exact hc.synced _ _ hl
        · simp only [ha, ↓reduceIte] at hx; exact hc.synced _ _ hx
      · rw [hv]
        refine ⟨hinj _, ?_⟩
        intro a x hx
        simp only at hx ⊢
        rw [hlook] at hx
        by_cases ha : a = m.sub
        · simp only [ha, ↓reduceIte, Option.some.injEq] at hx
          subst hx
          obtain ⟨b, hb, hsync⟩ := hc.synced _ _ hl
          refine ⟨b.update m.toEvent, ?_, ?_⟩
          · rw [lookup_managerStep]; simp [hb]
          · rw [ha]; exact synced_admit (l := ⟨im.sequencer, b⟩) hsync (hg im hl) hs he
        · simp only [ha, ↓reduceIte] at hx
          obtain ⟨b, hb, hsync⟩ := hc.synced _ _ hx
          have hk : x.key ≠ im.key := fun hk => ha (hc.keysInj _ _ _ _ hx hl hk)
          exact ⟨b, by rw [lookup_managerStep]; simp [hk, hb], hsync⟩
      · rw [hv]
        refine ⟨hinj _, ?_⟩
        intro a x hx
        simp only at hx
        rw [hlook] at hx
        by_cases ha : a = m.sub
        · simp only [ha, ↓reduceIte, Option.some.injEq] at hx
          subst hx; rw [ha]; exact hc.synced _ _ hl
        · simp only [ha, ↓reduceIte] at hx; exact hc.synced _ _ hx

theorem connSynced_run {r : Rules} {venues : Nat → Venue} {c : Conn} {ms : List Update}
    (hc : ConnSynced venues c)
    (hg : ∀ m ∈ ms, IsGenuine r (venues m.sub) m) : ConnSynced venues (c.run r ms) := by
  induction ms generalizing c with
  | nil => exact hc
  | cons m ms ih =>
    simp only [Conn.run, List.foldl_cons]
    exact ih (connSynced_step hc (fun _ _ => hg m (by simp))) (fun x hx => hg x (by simp [hx]))


/-! ### a freshly initialised connection satisfies the invariant -/

/-- a connection right after `init`: per instrument `(subscription id, key, snapshot)` a fresh
sequencer at the snapshot's sequence, the snapshot as the consumer's book. -/
def Conn.start (insts : List (Nat × Nat × OrderBook)) : Conn :=
  ⟨⟨insts.map fun x => (x.1, ⟨x.2.1, Sequencer.new x.2.2.sequence⟩)⟩, insts.map fun x => (x.2.1, x.2.2), true⟩

theorem lookup_map_some {α β : Type} (l : List α) (f : α → Nat) (g : α → β) (a : Nat) (y : β)
    (h : (l.map fun x => (f x, g x)).lookup a = some y) : ∃ x ∈ l, f x = a ∧ g x = y := by
  induction l with
  | nil => simp at h
  | cons x xs ih =>
    simp only [List.map_cons, List.lookup] at h
    by_cases ha : a = f x
    · simp only [ha, beq_self_eq_true, Option.some.injEq] at h
      exact ⟨x, by simp, ha.symm, h⟩
    · have : (a == f x) = false := by simpa using ha
      rw [this] at h
      obtain ⟨z, hz, h1, h2⟩ := ih h
      exact ⟨z, by simp [hz], h1, h2⟩

theorem lookup_map_mem {α β : Type} (l : List α) (f : α → Nat) (g : α → β) (x : α) (hx : x ∈ l)
    (hn : (l.map f).Nodup) : (l.map fun x => (f x, g x)).lookup (f x) = some (g x) := by
  induction l with
  | nil => simp at hx
  | cons z zs ih =>
    simp only [List.map_cons, List.nodup_cons, List.mem_map, not_exists, not_and] at hn
    simp only [List.mem_cons] at hx
    simp only [List.map_cons, List.lookup]
    rcases hx with hx | hx
    · subst hx; simp
    · have hne : f x ≠ f z := fun h => hn.1 x hx h
      have : (f x == f z) = false := by simpa using hne
      rw [this]; exact ih hx hn.2

theorem eq_of_nodup_map {α : Type} (l : List α) (f : α → Nat) (hn : (l.map f).Nodup) (x y : α)
    (hx : x ∈ l) (hy : y ∈ l) (h : f x = f y) : x = y := by
  induction l with
  | nil => simp at hx
  | cons z zs ih =>
    simp only [List.map_cons, List.nodup_cons, List.mem_map, not_exists, not_and] at hn
    simp only [List.mem_cons] at hx hy
    rcases hx with hx | hx <;> rcases hy with hy | hy
    · rw [hx, hy]
    · subst hx; exact absurd h.symm (hn.1 y hy)
    · subst hy; exact absurd h (hn.1 x hx)
    · exact ih hn.2 hx hy

theorem connSynced_start (venues : Nat → Venue) (insts : List (Nat × Nat × OrderBook))
    (hkey : (insts.map (·.2.1)).Nodup)
    (h : ∀ x ∈ insts, SortedBook x.2.2 ∧ GenuineSnapshot (venues x.1) x.2.2.sequence x.2.2) :
    ConnSynced venues (Conn.start insts) := by
  constructor
  · intro a a' im im' h1 h2 hk
    obtain ⟨x, hx, hxa, hxm⟩ := lookup_map_some insts (·.1) _ a im h1
    obtain ⟨y, hy, hya, hym⟩ := lookup_map_some insts (·.1) _ a' im' h2
    have : x = y := eq_of_nodup_map insts (·.2.1) hkey x y hx hy (by rw [← hxm, ← hym] at hk; exact hk)
    rw [← hxa, ← hya, this]
  · intro a im h1
    obtain ⟨x, hx, hxa, hxm⟩ := lookup_map_some insts (·.1) _ a im h1
    refine ⟨x.2.2, ?_, ?_⟩
    · rw [← hxm]; exact lookup_map_mem insts (·.2.1) (·.2.2) x hx hkey
    · obtain ⟨hs, hg⟩ := h x hx
      rw [← hxm, ← hxa]
      exact ⟨hs, rfl, hg.2.1, hg.2.2⟩

/-! ## per-message view = whole stream through `with_termination_on_error` -/

theorem terminate_append (a b : List Out) :
    terminate (a ++ b) = terminate a ++ (bif terminated a then [] else terminate b) := by
  induction a with
  | nil => simp [terminate, terminated]
  | cons x xs ih =>
    cases x with
    | event k ev => simp [terminate, terminated, ih]
    | error e =>
      by_cases he : e.isTerminal = true
      · simp [terminate, terminated, he]
      · simp [terminate, terminated, he, ih]

theorem terminated_append (a b : List Out) : terminated (a ++ b) = (terminated a || terminated b) := by
  induction a with
  | nil => simp [terminated]
  | cons x xs ih =>
    cases x with
    | event k ev => simpa [terminated] using ih
    | error e => simp [terminated, ih, Bool.or_assoc]

theorem consume_append (books : Books) (a b : List Out) :
    consume books (a ++ b) = consume (consume books a) b := by
  simp [consume, List.foldl_append]

theorem conn_run_dead (r : Rules) (c : Conn) (ms : List Update) (h : c.alive = false) : c.run r ms = c := by
  induction ms with
  | nil => rfl
  | cons m ms ih => simp only [Conn.run, List.foldl_cons, conn_step_dead m h]; exact ih

theorem transformer_run_cons (r : Rules) (t : Transformer) (m : Update) (ms : List Update) :
    Transformer.run r t (m :: ms) =
      ((Transformer.run r (t.transform r m).1 ms).1, (t.transform r m).2 ++ (Transformer.run r (t.transform r m).1 ms).2) := rfl

theorem conn_run_eq_terminate (r : Rules) (c : Conn) (ms : List Update) (h : c.alive = true) :
    (c.run r ms).books = consume c.books (terminate (Transformer.run r c.transformer ms).2) ∧
    (c.run r ms).alive = !terminated (Transformer.run r c.transformer ms).2 := by
  induction ms generalizing c with
  | nil => simp [Conn.run, Transformer.run, terminate, terminated, consume, h]
  | cons m ms ih =>
    rw [transformer_run_cons]
    have hstep : c.step r m = ⟨(c.transformer.transform r m).1,
        consume c.books (terminate (c.transformer.transform r m).2), !terminated (c.transformer.transform r m).2⟩ := by
      simp [Conn.step, h]
    simp only [Conn.run, List.foldl_cons]
    cases ht : terminated (c.transformer.transform r m).2 with
    | true =>
      have hdead : (c.step r m).alive = false := by rw [hstep]; simp [ht]
      have := conn_run_dead r (c.step r m) ms hdead
      simp only [Conn.run] at this
      rw [this, terminate_append, terminated_append, ht, hstep]
      simp [ht]
    | false =>
      have halive : (c.step r m).alive = true := by rw [hstep]; simp [ht]
      have := ih (c.step r m) halive
      simp only [Conn.run] at this
      rw [this.1, this.2, terminate_append, terminated_append, ht, hstep]
      simp [consume_append]

end BarterModel.BinanceL2
