import BarterModel.Model.Risk
/-! Helper lemmas for the sub-check C03R (risk-check utilities and default risk manager). -/
namespace BarterModel.Risk

/-! ### Rational arithmetic facts (core `Rat` has no `abs_mul` / `div_le_iff`) -/

theorem abs_cases (x : Rat) : (0 ≤ x ∧ x.abs = x) ∨ (x < 0 ∧ x.abs = -x) := by
  by_cases h : 0 ≤ x
  · exact .inl ⟨h, Rat.abs_of_nonneg h⟩
  · have h' : x < 0 := Rat.not_le.mp h
    exact .inr ⟨h', Rat.abs_of_nonpos (Rat.le_of_lt h')⟩

theorem abs_mul (a b : Rat) : (a * b).abs = a.abs * b.abs := by
  rcases abs_cases a with ⟨ha, ea⟩ | ⟨ha, ea⟩ <;> rcases abs_cases b with ⟨hb, eb⟩ | ⟨hb, eb⟩ <;>
    rw [ea, eb]
  · exact Rat.abs_of_nonneg (Rat.mul_nonneg ha hb)
  · have : a * b ≤ 0 := by
      have := Rat.mul_nonneg ha (show (0 : Rat) ≤ -b by grind)
      grind
    rw [Rat.abs_of_nonpos this]; grind
  · have : a * b ≤ 0 := by
      have := Rat.mul_nonneg (show (0 : Rat) ≤ -a by grind) hb
      grind
    rw [Rat.abs_of_nonpos this]; grind
  · have : 0 ≤ a * b := by
      have := Rat.mul_nonneg (show (0 : Rat) ≤ -a by grind) (show (0 : Rat) ≤ -b by grind)
      grind
    rw [Rat.abs_of_nonneg this]; grind

theorem div_le_iff_of_pos {a b c : Rat} (hb : 0 < b) : a / b ≤ c ↔ a ≤ c * b := by
  constructor
  · intro h
    apply Rat.not_lt.mp
    intro hlt
    have := (Rat.lt_div_iff hb).mpr hlt
    exact absurd h (Rat.not_le.mpr this)
  · intro h
    apply Rat.not_lt.mp
    intro hlt
    have := (Rat.lt_div_iff hb).mp hlt
    exact absurd h (Rat.not_le.mpr this)

theorem div_nonneg_of_pos {a b : Rat} (ha : 0 ≤ a) (hb : 0 < b) : 0 ≤ a / b := by
  apply Rat.not_lt.mp
  intro h
  have := (Rat.div_lt_iff hb).mp h
  grind

theorem div_neg_den (a b : Rat) (_hb : b ≠ 0) : a / (-b) = -(a / b) := by
  grind

/-! ### lists -/

theorem filter_const_true {α : Type} (l : List α) : l.filter (fun _ => true) = l := by
  induction l <;> simp_all [List.filter]

theorem filter_const_false {α : Type} (l : List α) : l.filter (fun _ => false) = [] := by
  induction l <;> simp_all [List.filter]

theorem count_filter_partition {α : Type} [DecidableEq α] (p : α → Bool) (l : List α) (x : α) :
    (l.filter (fun r => !p r)).count x + (l.filter p).count x = l.count x := by
  induction l with
  | nil => simp
  | cons a l ih =>
    cases hp : p a <;> simp [List.filter, hp, List.count_cons] <;> omega

/-! ### `decFits` -/

theorem decFits_neg (r : Rat) : decFits (-r) = decFits r := by
  simp [decFits, Rat.abs_neg]

theorem decFits_of_abs_le {a b : Rat} (h : a.abs ≤ b.abs) (hb : decFits b = true) :
    decFits a = true := by
  simp only [decFits, decide_eq_true_eq] at *
  exact Rat.le_trans h hb

/-- Multiplying a representable value by a factor of magnitude at most one cannot overflow. -/
theorem decFits_mul_of_abs_le_one {a c : Rat} (ha : decFits a = true) (hc : c.abs ≤ 1) :
    decFits (a * c) = true := by
  apply decFits_of_abs_le _ ha
  rw [abs_mul]
  have := Rat.mul_le_mul_of_nonneg_left hc (Rat.abs_nonneg (x := a))
  grind

/-! ### checked operations -/

theorem checkedMul_eq_some {fits : Rat → Bool} {a b v : Rat} :
    checkedMul fits a b = some v ↔ fits (a * b) = true ∧ v = a * b := by
  unfold checkedMul
  cases h : fits (a * b) <;> simp
  exact ⟨fun h => h.symm, fun h => h.symm⟩

theorem checkedMul_eq_none {fits : Rat → Bool} {a b : Rat} :
    checkedMul fits a b = none ↔ fits (a * b) = false := by
  unfold checkedMul; split <;> simp_all

theorem checkedSub_eq_some {fits : Rat → Bool} {a b v : Rat} :
    checkedSub fits a b = some v ↔ fits (a - b) = true ∧ v = a - b := by
  unfold checkedSub
  cases h : fits (a - b) <;> simp
  exact ⟨fun h => h.symm, fun h => h.symm⟩

theorem checkedDiv_eq_some {fits : Rat → Bool} {a b v : Rat} :
    checkedDiv fits a b = some v ↔ b ≠ 0 ∧ fits (a / b) = true ∧ v = a / b := by
  unfold checkedDiv
  by_cases hb : b = 0
  · simp [hb]
  · cases h : fits (a / b) <;> simp [hb]
    exact ⟨fun h => h.symm, fun h => h.symm⟩

/-! ### `calculate_quote_notional` -/

theorem notional_eq_some {fits : Rat → Bool} {q p c v : Rat} :
    calculateQuoteNotional fits q p c = some v ↔
      fits (q * p) = true ∧ fits (q * p * c) = true ∧ v = q * p * c := by
  unfold calculateQuoteNotional
  cases h : checkedMul fits q p with
  | none =>
    have := checkedMul_eq_none.mp h
    simp [this]
  | some x =>
    obtain ⟨h1, rfl⟩ := checkedMul_eq_some.mp h
    simp [checkedMul_eq_some, h1]

theorem notional_eq_none {fits : Rat → Bool} {q p c : Rat} :
    calculateQuoteNotional fits q p c = none ↔ fits (q * p) = false ∨ fits (q * p * c) = false := by
  cases h : calculateQuoteNotional fits q p c with
  | some v =>
    have := notional_eq_some.mp h
    simp [this.1, this.2.1]
  | none =>
    simp only [true_iff]
    cases h1 : fits (q * p) with
    | false => exact .inl rfl
    | true =>
      cases h2 : fits (q * p * c) with
      | false => exact .inr rfl
      | true =>
        have : calculateQuoteNotional fits q p c = some (q * p * c) :=
          notional_eq_some.mpr ⟨h1, h2, rfl⟩
        rw [h] at this; cases this

/-! ### `calculate_abs_percent_difference` -/

theorem apd_eq_some {fits : Rat → Bool} {c o v : Rat} :
    calculateAbsPercentDifference fits c o = some v ↔
      o ≠ 0 ∧ fits (c - o) = true ∧ fits ((c - o).abs / o) = true ∧ v = (c - o).abs / o := by
  unfold calculateAbsPercentDifference
  cases h : checkedSub fits c o with
  | none =>
    have : fits (c - o) = false := by
      unfold checkedSub at h; split at h <;> simp_all
    simp [this]
  | some d =>
    obtain ⟨h1, rfl⟩ := checkedSub_eq_some.mp h
    simp [checkedDiv_eq_some, h1]

theorem apd_zero_reference (fits : Rat → Bool) (c : Rat) :
    calculateAbsPercentDifference fits c 0 = none := by
  cases h : calculateAbsPercentDifference fits c 0 with
  | none => rfl
  | some v => exact absurd rfl (apd_eq_some.mp h).1

/-- For a positive reference the code's quotient is the documented one. -/
theorem code_quotient_pos {c o : Rat} (ho : 0 < o) :
    (c - o).abs / o = specAbsPercentDifference c o := by
  unfold specAbsPercentDifference
  rw [Rat.abs_of_nonneg (Rat.le_of_lt ho)]

/-- For a negative reference it is the negated documented one. -/
theorem code_quotient_neg {c o : Rat} (ho : o < 0) :
    (c - o).abs / o = -specAbsPercentDifference c o := by
  unfold specAbsPercentDifference
  rw [Rat.abs_of_nonpos (Rat.le_of_lt ho)]
  have : o ≠ 0 := by grind
  rw [div_neg_den _ _ this]; grind

theorem specApd_nonneg (c o : Rat) : 0 ≤ specAbsPercentDifference c o := by
  unfold specAbsPercentDifference
  by_cases h : o = 0
  · subst h; simp [Rat.abs_zero, Rat.div_def]
  · have : 0 < o.abs := Rat.abs_pos_iff.mpr h
    exact div_nonneg_of_pos Rat.abs_nonneg this

theorem specApd_eq_zero_iff {c o : Rat} (ho : o ≠ 0) : specAbsPercentDifference c o = 0 ↔ c = o := by
  unfold specAbsPercentDifference
  have hpos : o.abs ≠ 0 := by
    have : 0 < o.abs := Rat.abs_pos_iff.mpr ho
    grind
  constructor
  · intro h
    have h2 : (c - o).abs = 0 := by
      have := Rat.div_mul_cancel (a := (c - o).abs) hpos
      rw [h] at this; grind
    have := Rat.abs_eq_zero_iff.mp h2
    grind
  · intro h; subst h
    have : c - c = 0 := by grind
    rw [this, Rat.abs_zero]; grind

/-! ### `calculate_delta` -/

theorem delta_eq_some {fits : Rat → Bool} {d cs q v : Rat} {side : Side} :
    calculateDelta fits d cs side q = some v ↔
      fits (q * cs) = true ∧ fits (d * (q * cs)) = true ∧ v = specDelta d cs side q := by
  unfold calculateDelta specDelta
  cases h : checkedMul fits q cs with
  | none =>
    have := checkedMul_eq_none.mp h
    simp [this]
  | some x =>
    obtain ⟨h1, rfl⟩ := checkedMul_eq_some.mp h
    simp only [Option.bind_some, h1, true_and]
    cases h2 : checkedMul fits d (q * cs) with
    | none =>
      have := checkedMul_eq_none.mp h2
      simp [this]
    | some y =>
      obtain ⟨h3, rfl⟩ := checkedMul_eq_some.mp h2
      simp only [Option.map_some, Option.some.injEq, h3, true_and]
      cases side <;> simp only <;> constructor <;> intro h <;> grind

theorem delta_eq_none {fits : Rat → Bool} {d cs q : Rat} {side : Side} :
    calculateDelta fits d cs side q = none ↔
      fits (q * cs) = false ∨ fits (d * (q * cs)) = false := by
  cases h : calculateDelta fits d cs side q with
  | some v =>
    have := delta_eq_some.mp h
    simp [this.1, this.2.1]
  | none =>
    simp only [true_iff]
    cases h1 : fits (q * cs) with
    | false => exact .inl rfl
    | true =>
      cases h2 : fits (d * (q * cs)) with
      | false => exact .inr rfl
      | true =>
        have : calculateDelta fits d cs side q = some (specDelta d cs side q) :=
          delta_eq_some.mpr ⟨h1, h2, rfl⟩
        rw [h] at this; cases this

end BarterModel.Risk
