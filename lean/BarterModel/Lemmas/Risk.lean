import BarterModel.Model.Risk
/-! Helper lemmas for the sub-check C03R (risk-check utilities and default risk manager). -/
namespace BarterModel.Risk

/-! ### Rational arithmetic facts (core `Rat` has no `abs_mul` / `div_le_iff`) -/

theorem abs_cases (x : Rat) : (0 ≤ x ∧ x.abs = x) ∨ (x < 0 ∧ x.abs = -x) := by
  by_cases h : 0 ≤ x
  · exact .inl ⟨h, Rat.abs_of_nonneg h⟩
  · have h' : x < 0 := Rat.not_le.mp h
    exact .inr ⟨h', Rat.abs_of_nonpos (Rat.le_of_lt h')⟩

theorem abs_mul (a b : Rat) : (a * b).abs = a.abs * b.abs := by
  rcases abs_cases a with ⟨ha, ea⟩ | ⟨ha, ea⟩ <;> rcases abs_cases b with ⟨hb, eb⟩ | ⟨hb, eb⟩ <;>
    rw [ea, eb]
  · exact Rat.abs_of_nonneg (Rat.mul_nonneg ha hb)
  · have : a * b ≤ 0 := by
      have := Rat.mul_nonneg ha (show (0 : Rat) ≤ -b by grind)
      grind
    rw [Rat.abs_of_nonpos this]; grind
  · have : a * b ≤ 0 := by
      have := Rat.mul_nonneg (show (0 : Rat) ≤ -a by grind) hb
      grind
    rw [Rat.abs_of_nonpos this]; grind
  · have : 0 ≤ a * b := by
      have := Rat.mul_nonneg (show (0 : Rat) ≤ -a by grind) (show (0 : Rat) ≤ -b by grind)
      grind
    rw [Rat.abs_of_nonneg this]; grind

theorem div_le_iff_of_pos {a b c : Rat} (hb : 0 < b) : a / b ≤ c ↔ a ≤ c * b := by
  constructor
  · intro h
    apply Rat.not_lt.mp
    intro hlt
    have := (Rat.lt_div_iff hb).mpr hlt
    exact absurd h (Rat.not_le.mpr this)
  · intro h
    apply Rat.not_lt.mp
    intro hlt
    have := (Rat.lt_div_iff hb).mp hlt
    exact absurd h (Rat.not_le.mpr this)

theorem div_nonneg_of_pos {a b : Rat} (ha : 0 ≤ a) (hb : 0 < b) : 0 ≤ a / b := by
  apply Rat.not_lt.mp
  intro h
  have := (Rat.div_lt_iff hb).mp h
  grind

theorem div_neg_den (a b : Rat) (_hb : b ≠ 0) : a / (-b) = -(a / b) := by
  grind

/-! ### lists -/

theorem filter_const_true {α : Type} (l : List α) : l.filter (fun _ => true) = l := by
  induction l <;> simp_all [List.filter]

theorem filter_const_false {α : Type} (l : List α) : l.filter (fun _ => false) = [] := by
  induction l <;> simp_all [List.filter]

theorem count_filter_partition {α : Type} [DecidableEq α] (p : α → Bool) (l : List α) (x : α) :
    (l.filter (fun r => !p r)).count x + (l.filter p).count x = l.count x := by
  induction l with
  | nil => simp
  | cons a l ih =>
    cases hp : p a <;> simp [List.filter, hp, List.count_cons] <;> omega

/-! ### `decFits` -/

theorem decFits_neg (r : Rat) : decFits (-r) = decFits r := by
  simp [decFits, Rat.abs_neg]

theorem decFits_of_abs_le {a b : Rat} (h : a.abs ≤ b.abs) (hb : decFits b = true) :
    decFits a = true := by
  simp only [decFits, decide_eq_true_eq] at *
  exact Rat.le_trans h hb

/-- Multiplying a representable value by a factor of magnitude at most one cannot overflow. -/
theorem decFits_mul_of_abs_le_one {a c : Rat} (ha : decFits a = true) (hc : c.abs ≤ 1) :
    decFits (a * c) = true := by
  apply decFits_of_abs_le _ ha
  rw [abs_mul]
  have := Rat.mul_le_mul_of_nonneg_left hc (Rat.abs_nonneg (x := a))
  grind

/-! ### checked operations -/

theorem checkedMul_eq_some {fits : Rat → Bool} {a b v : Rat} :
    checkedMul fits a b = some v ↔ fits (a * b) = true ∧ v = a * b := by
  unfold checkedMul
  cases h : fits (a * b) <;> simp
  exact ⟨fun h => h.symm, fun h => h.symm⟩

theorem checkedMul_eq_none {fits : Rat → Bool} {a b : Rat} :
    checkedMul fits a b = none ↔ fits (a * b) = false := by
  unfold checkedMul; split <;> simp_all

theorem checkedSub_eq_some {fits : Rat → Bool} {a b v : Rat} :
    checkedSub fits a b = some v ↔ fits (a - b) = true ∧ v = a - b := by
  unfold checkedSub
  cases h : fits (a - b) <;> simp
  exact ⟨fun h => h.symm, fun h => h.symm⟩

theorem checkedDiv_eq_some {fits : Rat → Bool} {a b v : Rat} :
    checkedDiv fits a b = some v ↔ b ≠ 0 ∧ fits (a / b) = true ∧ v = a / b := by
  unfold checkedDiv
  by_cases hb : b = 0
  · simp [hb]
  · cases h : fits (a / b) <;> simp [hb]
    exact ⟨fun h => h.symm, fun h => h.symm⟩

/-! ### `calculate_quote_notional` -/

theorem notional_eq_some {fits : Rat → Bool} {q p c v : Rat} :
    calculateQuoteNotional fits q p c = some v ↔
      fits (q * p) = true ∧ fits (q * p * c) = true ∧ v = q * p * c := by
  unfold calculateQuoteNotional
  cases h : checkedMul fits q p with
  | none =>
    have := checkedMul_eq_none.mp h
    simp [this]
  | some x =>
    obtain ⟨h1, rfl⟩ := checkedMul_eq_some.mp h
    simp [checkedMul_eq_some, h1]

theorem notional_eq_none {fits : Rat → Bool} {q p c : Rat} :
    calculateQuoteNotional fits q p c = none ↔ fits (q * p) = false ∨ fits (q * p * c) = false := by
  cases h : calculateQuoteNotional fits q p c with
  | some v =>
    have := notional_eq_some.mp h
    simp [this.1, this.2.1]
  | none =>
    simp only [true_iff]
    cases h1 : fits (q * p) with
    | false => exact .inl rfl
    | true =>
      cases h2 : fits (q * p * c) with
      | false => exact .inr rfl
      | true =>
        have : calculateQuoteNotional fits q p c = some (q * p * c) :=
          notional_eq_some.mpr ⟨h1, h2, rfl⟩
        rw [h] at this; cases this

/-! ### `calculate_abs_percent_difference` -/

theorem apd_eq_some {fits : Rat → Bool} {c o v : Rat} :
    calculateAbsPercentDifference fits c o = some v ↔
      o ≠ 0 ∧ fits (c - o) = true ∧ fits ((c - o).abs / o) = true ∧ v = (c - o).abs / o := by
  unfold calculateAbsPercentDifference
  cases h : checkedSub fits c o with
  | none =>
    have : fits (c - o) = false := by
      unfold checkedSub at h; split at h <;> simp_all
    simp [this]
  | some d =>
    obtain ⟨h1, rfl⟩ := checkedSub_eq_some.mp h
    simp [checkedDiv_eq_some, h1]

theorem apd_zero_reference (fits : Rat → Bool) (c : Rat) :
    calculateAbsPercentDifference fits c 0 = none := by
  cases h : calculateAbsPercentDifference fits c 0 with
  | none => rfl
  | some v => exact absurd rfl (apd_eq_some.mp h).1

/-- For a positive reference the code's quotient is the documented one. -/
theorem code_quotient_pos {c o : Rat} (ho : 0 < o) :
    (c - o).abs / o = specAbsPercentDifference c o := by
  unfold specAbsPercentDifference
  rw [Rat.abs_of_nonneg (Rat.le_of_lt ho)]

/-- For a negative reference it is the negated documented one. -/
theorem code_quotient_neg {c o : Rat} (ho : o < 0) :
    (c - o).abs / o = -specAbsPercentDifference c o := by
  unfold specAbsPercentDifference
  rw [Rat.abs_of_nonpos (Rat.le_of_lt ho)]
  have : o ≠ 0 := by grind
  rw [div_neg_den _ _ this]; grind

theorem specApd_nonneg (c o : Rat) : 0 ≤ specAbsPercentDifference c o := by
  unfold specAbsPercentDifference
  by_cases h : o = 0
  · subst h; simp [Rat.abs_zero, Rat.div_def]
  · have : 0 < o.abs := Rat.abs_pos_iff.mpr h
    exact div_nonneg_of_pos Rat.abs_nonneg this

theorem specApd_eq_zero_iff {c o : Rat} (ho : o ≠ 0) : specAbsPercentDifference c o = 0 ↔ c = o := by
  unfold specAbsPercentDifference
  have hpos : o.abs ≠ 0 := by
    have : 0 < o.abs := Rat.abs_pos_iff.mpr ho
    grind
  constructor
  · intro h
    have h2 : (c - o).abs = 0 := by
      have := Rat.div_mul_cancel (a := (c - o).abs) hpos
      rw [h] at this; grind
    have := Rat.abs_eq_zero_iff.mp h2
    grind
  · intro h; subst h
    have : c - c = 0 := by grind
    rw [this, Rat.abs_zero]; grind

/-! ### `calculate_delta` -/

theorem delta_eq_some {fits : Rat → Bool} {d cs q v : Rat} {side : Side} :
    calculateDelta fits d cs side q = some v ↔
      fits (q * cs) = true ∧ fits (d * (q * cs)) = true ∧ v = specDelta d cs side q := by
  unfold calculateDelta specDelta
  cases h : checkedMul fits q cs with
  | none =>
    have := checkedMul_eq_none.mp h
    simp [this]
  | some x =>
    obtain ⟨h1, rfl⟩ := checkedMul_eq_some.mp h
    simp only [Option.bind_some, h1, true_and]
    cases h2 : checkedMul fits d (q * cs) with
    | none =>
      have := checkedMul_eq_none.mp h2
      simp [this]
    | some y =>
      obtain ⟨h3, rfl⟩ := checkedMul_eq_some.mp h2
      simp only [Option.map_some, Option.some.injEq, h3, true_and]
      cases side <;> simp only <;> constructor <;> intro h <;> grind

theorem delta_eq_none {fits : Rat → Bool} {d cs q : Rat} {side : Side} :
    calculateDelta fits d cs side q = none ↔
      fits (q * cs) = false ∨ fits (d * (q * cs)) = false := by
  cases h : calculateDelta fits d cs side q with
  | some v =>
    have := delta_eq_some.mp h
    simp [this.1, this.2.1]
  | none =>
    simp only [true_iff]
    cases h1 : fits (q * cs) with
    | false => exact .inl rfl
    | true =>
      cases h2 : fits (d * (q * cs)) with
      | false => exact .inr rfl
      | true =>
        have : calculateDelta fits d cs side q = some (specDelta d cs side q) :=
          delta_eq_some.mpr ⟨h1, h2, rfl⟩
        rw [h] at this; cases this

/-! ### `rust_decimal`'s multiplication with rounding (`decMul`, `decExact`) -/

theorem rneDiv_of_dvd {n d : Nat} (hd : 0 < d) (h : n % d = 0) : rneDiv n d = n / d := by
  unfold rneDiv; simp [h, hd]

theorem rat_eq_num_div_den (x : Rat) : x = (x.num : Rat) / ((x.den : Int) : Rat) := by
  rw [← Rat.divInt_eq_div, Rat.num_divInt_den]

/-- `|x| · 10^e` is an integer. -/
def intAt (x : Rat) (e : Nat) : Prop := (x.num.natAbs * 10 ^ e) % x.den = 0

theorem intAt_mono {x : Rat} {e₀ e : Nat} (h : intAt x e₀) (he : e₀ ≤ e) : intAt x e := by
  unfold intAt at *
  obtain ⟨k, rfl⟩ := Nat.exists_eq_add_of_le he
  have hd := Nat.dvd_of_mod_eq_zero h
  rw [Nat.pow_add, ← Nat.mul_assoc]
  exact Nat.mod_eq_zero_of_dvd (Nat.dvd_trans hd (Nat.dvd_mul_right _ _))

theorem exactAt_iff {x : Rat} {e : Nat} :
    exactAt x e = true ↔ intAt x e ∧ x.num.natAbs * 10 ^ e / x.den ≤ decMantMax := by
  simp [exactAt, intAt]

theorem mantAt_of_intAt {x : Rat} {e : Nat} (h : intAt x e) :
    mantAt x e = x.num.natAbs * 10 ^ e / x.den := rneDiv_of_dvd x.den_pos h

theorem decValue_of_intAt {x : Rat} {e : Nat} (h1 : intAt x e) : decValue x (mantAt x e) e = x := by
  have hd : 0 < x.den := x.den_pos
  have hm := mantAt_of_intAt h1
  have hmul : mantAt x e * x.den = x.num.natAbs * 10 ^ e := by
    rw [hm]; exact Nat.div_mul_cancel (Nat.dvd_of_mod_eq_zero h1)
  have hI : x.num.sign * (mantAt x e : Int) * (x.den : Int) = x.num * (10 : Int) ^ e := by
    have : ((mantAt x e * x.den : Nat) : Int) = ((x.num.natAbs * 10 ^ e : Nat) : Int) := by rw [hmul]
    rw [Int.natCast_mul, Int.natCast_mul, Int.natCast_pow] at this
    rw [Int.mul_assoc, this, ← Int.mul_assoc, Int.sign_mul_natAbs]; rfl
  have hR : ((x.num.sign * (mantAt x e : Int) : Int) : Rat) * ((x.den : Int) : Rat)
      = (x.num : Rat) * (((10 : Int) ^ e : Int) : Rat) := by
    rw [← Rat.intCast_mul, ← Rat.intCast_mul, hI]
  have hden : ((x.den : Int) : Rat) ≠ 0 := by
    rw [Ne, Rat.intCast_eq_zero_iff]; have := x.den_nz; omega
  have h10 : (((10 : Int) ^ e : Int) : Rat) ≠ 0 := by
    rw [Ne, Rat.intCast_eq_zero_iff]; exact Int.pow_ne_zero (by decide)
  unfold decValue
  conv => rhs; rw [rat_eq_num_div_den x]
  grind

theorem decRoundFrom_exact {x : Rat} {e₀ : Nat} (h : exactAt x e₀ = true) :
    ∀ e, e₀ ≤ e → decRoundFrom x e = some x := by
  obtain ⟨hi, hm⟩ := exactAt_iff.mp h
  intro e
  induction e with
  | zero =>
    intro he
    have : e₀ = 0 := by omega
    subst this
    have hm' : mantAt x 0 ≤ decMantMax := by rw [mantAt_of_intAt hi]; exact hm
    unfold decRoundFrom
    rw [if_pos hm', decValue_of_intAt hi]
  | succ e ih =>
    intro he
    have hi' := intAt_mono hi he
    unfold decRoundFrom
    split
    · rw [decValue_of_intAt hi']
    · next hnf =>
      have : e₀ ≠ e + 1 := by
        intro heq; subst heq; rw [mantAt_of_intAt hi] at hnf; exact hnf hm
      exact ih (by omega)

theorem decExact_iff_exists {x : Rat} : decExact x = true ↔ ∃ e, e ≤ 28 ∧ exactAt x e = true := by
  simp only [decExact, List.any_eq_true, List.mem_range]
  constructor
  · rintro ⟨e, he, h⟩; exact ⟨e, by omega, h⟩
  · rintro ⟨e, he, h⟩; exact ⟨e, by omega, h⟩

/-- No rounding, no overflow on exactly representable results. -/
theorem decRound_exact {x : Rat} (h : decExact x = true) : decRound x = some x := by
  obtain ⟨e, he, h⟩ := decExact_iff_exists.mp h
  exact decRoundFrom_exact h 28 he


theorem cross_of_eq_div {x : Rat} {m : Int} {e : Nat} (hx : x = (m : Rat) / (10 : Rat) ^ e) :
    x.num.natAbs * 10 ^ e = m.natAbs * x.den := by
  have hden : ((x.den : Int) : Rat) ≠ 0 := by
    rw [Ne, Rat.intCast_eq_zero_iff]; have := x.den_nz; omega
  have h10 : (10 : Rat) ^ e ≠ 0 := Rat.ne_of_gt (Rat.pow_pos (by decide))
  have h := rat_eq_num_div_den x
  have hR : (x.num : Rat) * (10 : Rat) ^ e = (m : Rat) * ((x.den : Int) : Rat) := by
    have h2 : (x.num : Rat) / ((x.den : Int) : Rat) = (m : Rat) / (10 : Rat) ^ e := by rw [← h, ← hx]
    grind
  have hI : x.num * (10 : Int) ^ e = m * (x.den : Int) := by
    have h10' : (10 : Rat) ^ e = (((10 : Int) ^ e : Int) : Rat) := by rw [Rat.intCast_pow]; rfl
    rw [h10', ← Rat.intCast_mul, ← Rat.intCast_mul, Rat.intCast_inj] at hR
    exact hR
  have := congrArg Int.natAbs hI
  rw [Int.natAbs_mul, Int.natAbs_mul, Int.natAbs_pow] at this
  simpa using this

/-- Every `mantissa / 10^scale` with a 96-bit mantissa and scale ≤ 28 is exactly representable. -/
theorem decExact_of_mantissa (m : Int) (e : Nat) (he : e ≤ 28) (hm : m.natAbs ≤ decMantMax) :
    decExact ((m : Rat) / (10 : Rat) ^ e) = true := by
  refine decExact_iff_exists.mpr ⟨e, he, exactAt_iff.mpr ?_⟩
  have hc := cross_of_eq_div (x := (m : Rat) / (10 : Rat) ^ e) rfl
  have hd := ((m : Rat) / (10 : Rat) ^ e).den_pos
  unfold intAt
  rw [hc]
  exact ⟨Nat.mul_mod_left _ _, by rw [Nat.mul_div_cancel _ hd]; exact hm⟩

theorem decValue_eq (x : Rat) (m e : Nat) :
    decValue x m e = ((x.num.sign * (m : Int) : Int) : Rat) / (10 : Rat) ^ e := by
  unfold decValue; rw [Rat.intCast_pow]; rfl

theorem natAbs_sign_mul_le (a : Int) (m : Nat) : (a.sign * (m : Int)).natAbs ≤ m := by
  rw [Int.natAbs_mul, Int.natAbs_natCast]
  rcases Int.lt_trichotomy a 0 with h | h | h
  · rw [Int.sign_eq_neg_one_of_neg h]; simp
  · subst h; simp
  · rw [Int.sign_eq_one_of_pos h]; simp

/-- … and nothing else is: `decExact` is "is a `Decimal`". -/
theorem decExact_iff {x : Rat} :
    decExact x = true ↔
      ∃ (m : Int) (e : Nat), e ≤ 28 ∧ m.natAbs ≤ decMantMax ∧ x = (m : Rat) / (10 : Rat) ^ e := by
  constructor
  · intro h
    obtain ⟨e, he, h⟩ := decExact_iff_exists.mp h
    obtain ⟨hi, hm⟩ := exactAt_iff.mp h
    refine ⟨x.num.sign * (mantAt x e : Int), e, he, ?_, ?_⟩
    · exact Nat.le_trans (natAbs_sign_mul_le _ _) (by rw [mantAt_of_intAt hi]; exact hm)
    · rw [← decValue_eq, decValue_of_intAt hi]
  · rintro ⟨m, e, he, hm, rfl⟩
    exact decExact_of_mantissa m e he hm

/-- Whatever the multiplication stores is a `Decimal`. -/
theorem decRoundFrom_shape {x v : Rat} : ∀ e, decRoundFrom x e = some v →
    ∃ e', e' ≤ e ∧ mantAt x e' ≤ decMantMax ∧ v = decValue x (mantAt x e') e' := by
  intro e
  induction e with
  | zero =>
    intro h
    unfold decRoundFrom at h
    split at h
    · next hf => exact ⟨0, Nat.le_refl _, hf, by cases h; rfl⟩
    · cases h
  | succ e ih =>
    intro h
    unfold decRoundFrom at h
    split at h
    · next hf => exact ⟨e + 1, Nat.le_refl _, hf, by cases h; rfl⟩
    · obtain ⟨e', he', r⟩ := ih h
      exact ⟨e', by omega, r⟩

theorem decRound_shape {x v : Rat} (h : decRound x = some v) :
    ∃ e, e ≤ 28 ∧ mantAt x e ≤ decMantMax ∧ v = decValue x (mantAt x e) e :=
  decRoundFrom_shape 28 h

theorem decRound_is_decimal {x v : Rat} (h : decRound x = some v) : decExact v = true := by
  obtain ⟨e, he, hm, rfl⟩ := decRound_shape h
  rw [decValue_eq]
  exact decExact_of_mantissa _ e he (Nat.le_trans (natAbs_sign_mul_le _ _) hm)

theorem decRoundFrom_none_iff {x : Rat} : ∀ e, decRoundFrom x e = none ↔
    ∀ e', e' ≤ e → decMantMax < mantAt x e' := by
  intro e
  induction e with
  | zero =>
    unfold decRoundFrom
    split
    · next hf =>
      constructor
      · intro h; cases h
      · intro h; have := h 0 (Nat.le_refl _); omega
    · next hf =>
      constructor
      · intro _ e' he'
        have : e' = 0 := by omega
        subst this; omega
      · intro _; rfl
  | succ e ih =>
    unfold decRoundFrom
    split
    · next hf =>
      constructor
      · intro h; cases h
      · intro h; have := h (e + 1) (Nat.le_refl _); omega
    · next hf =>
      rw [ih]
      constructor
      · intro h e' he'
        by_cases h1 : e' = e + 1
        · subst h1; omega
        · exact h e' (by omega)
      · intro h e' he'; exact h e' (by omega)


theorem rneDiv_ge (n d : Nat) : n / d ≤ rneDiv n d := by
  unfold rneDiv; split <;> (try split) <;> (try split) <;> omega

theorem rneDiv_le (n d : Nat) : rneDiv n d ≤ n / d + 1 := by
  unfold rneDiv; split <;> (try split) <;> (try split) <;> omega

/-- The stored mantissa is within half a unit of the exact one (`rneDiv n d · d` vs `n`). -/
theorem rneDiv_error (n d : Nat) (hd : 0 < d) :
    2 * (rneDiv n d * d - n) ≤ d ∧ 2 * (n - rneDiv n d * d) ≤ d := by
  have h := Nat.div_add_mod n d
  have hlt := Nat.mod_lt n hd
  have hc : d * (n / d) = n / d * d := Nat.mul_comm _ _
  unfold rneDiv
  split
  · omega
  · split
    · rw [Nat.add_mul]; omega
    · split
      · omega
      · rw [Nat.add_mul]; omega

theorem rneDiv_le_of_le {n d M : Nat} (hd : 0 < d) (h : n ≤ M * d) : rneDiv n d ≤ M := by
  have hq : n / d ≤ M := by
    apply Nat.div_le_of_le_mul; rw [Nat.mul_comm]; exact h
  by_cases hr : n % d = 0
  · rw [rneDiv_of_dvd hd hr]; exact hq
  · have h1 := rneDiv_le n d
    have hlt : n / d < M := by
      apply Nat.lt_of_mul_lt_mul_right (a := d)
      have := Nat.div_add_mod n d
      have hc : d * (n / d) = n / d * d := Nat.mul_comm _ _
      omega
    omega

theorem abs_le_natCast_iff {x : Rat} {M : Nat} : x.abs ≤ (M : Rat) ↔ x.num.natAbs ≤ M * x.den := by
  rcases abs_cases x with ⟨h, e⟩ | ⟨h, e⟩ <;> rw [e, Rat.le_iff]
  · have := Rat.num_nonneg.mpr h
    simp only [Rat.num_natCast, Rat.den_natCast]
    omega
  · have : x.num < 0 := by
      apply Int.not_le.mp
      intro h'
      exact absurd (Rat.num_nonneg.mp h') (Rat.not_le.mpr h)
    simp only [Rat.num_natCast, Rat.den_natCast, Rat.neg_num, Rat.neg_den]
    omega

theorem decMax_eq : decMax = (decMantMax : Rat) := by
  simp [decMax, decMantMax]

theorem decFits_iff {x : Rat} : decFits x = true ↔ x.num.natAbs ≤ decMantMax * x.den := by
  rw [decFits, decide_eq_true_eq, decMax_eq, abs_le_natCast_iff]

/-- A result whose exact value does not overflow is never `None` (it may be rounded). -/
theorem decRound_some_of_fits {x : Rat} (h : decFits x = true) : ∃ v, decRound x = some v := by
  cases hr : decRound x with
  | some v => exact ⟨v, rfl⟩
  | none =>
    have := (decRoundFrom_none_iff 28).mp hr 0 (by omega)
    have h2 : mantAt x 0 ≤ decMantMax := by
      unfold mantAt
      apply rneDiv_le_of_le x.den_pos
      simpa using decFits_iff.mp h
    omega

/-- An exactly representable value is in range. -/
theorem decFits_of_decExact {x : Rat} (h : decExact x = true) : decFits x = true := by
  obtain ⟨e, _, h⟩ := decExact_iff_exists.mp h
  obtain ⟨hi, hm⟩ := exactAt_iff.mp h
  rw [decFits_iff]
  have hd := x.den_pos
  have h1 : x.num.natAbs * 10 ^ e = x.num.natAbs * 10 ^ e / x.den * x.den :=
    (Nat.div_mul_cancel (Nat.dvd_of_mod_eq_zero hi)).symm
  have h2 : x.num.natAbs ≤ x.num.natAbs * 10 ^ e :=
    Nat.le_mul_of_pos_right _ (Nat.pow_pos (by decide))
  have h3 := Nat.mul_le_mul_right x.den hm
  omega

/-- A magnitude of 2^96 or more always overflows. -/
theorem decRound_none_of_ge {x : Rat} (h : ((decMantMax + 1 : Nat) : Rat) ≤ x.abs) : decRound x = none := by
  rw [decRound, decRoundFrom_none_iff]
  intro e _
  have hn : (decMantMax + 1) * x.den ≤ x.num.natAbs := by
    rcases abs_cases x with ⟨h0, e'⟩ | ⟨h0, e'⟩ <;> rw [e', Rat.le_iff] at h
    · have := Rat.num_nonneg.mpr h0
      simp only [Rat.num_natCast, Rat.den_natCast] at h
      omega
    · simp only [Rat.num_natCast, Rat.den_natCast, Rat.neg_num, Rat.neg_den] at h
      omega
  have h1 : decMantMax + 1 ≤ x.num.natAbs * 10 ^ e / x.den := by
    rw [Nat.le_div_iff_mul_le x.den_pos]
    exact Nat.le_trans hn (Nat.le_mul_of_pos_right _ (Nat.pow_pos (by decide)))
  have := rneDiv_ge (x.num.natAbs * 10 ^ e) x.den
  unfold mantAt; omega


theorem div_pow_mul_div_pow (m₁ m₂ : Int) (s₁ s₂ : Nat) :
    ((m₁ : Rat) / (10 : Rat) ^ s₁) * ((m₂ : Rat) / (10 : Rat) ^ s₂)
      = ((m₁ * m₂ : Int) : Rat) / (10 : Rat) ^ (s₁ + s₂) := by
  have h1 : (10 : Rat) ^ s₁ ≠ 0 := Rat.ne_of_gt (Rat.pow_pos (by decide))
  have h2 : (10 : Rat) ^ s₂ ≠ 0 := Rat.ne_of_gt (Rat.pow_pos (by decide))
  rw [Lean.Grind.Semiring.pow_add, Rat.intCast_mul]
  grind

/-- Digit form of the no-rounding domain of one multiplication: the scales add up to at most 28 and
the product of the mantissas fits 96 bits. -/
theorem decExact_mul_of_digits (m₁ m₂ : Int) (s₁ s₂ : Nat) (hs : s₁ + s₂ ≤ 28)
    (hm : (m₁ * m₂).natAbs ≤ decMantMax) :
    decExact (((m₁ : Rat) / (10 : Rat) ^ s₁) * ((m₂ : Rat) / (10 : Rat) ^ s₂)) = true := by
  rw [div_pow_mul_div_pow]
  exact decExact_of_mantissa _ _ hs hm

theorem decMul_exact {a b : Rat} (h : decExact (a * b) = true) : decMul a b = some (a * b) := by
  unfold decMul; exact decRound_exact h

theorem checkedMul_decFits_of_exact {a b : Rat} (h : decExact (a * b) = true) :
    checkedMul decFits a b = some (a * b) := by
  unfold checkedMul; rw [if_pos (decFits_of_decExact h)]

theorem notionalDec_exact {q p c : Rat} (h1 : decExact (q * p) = true)
    (h2 : decExact (q * p * c) = true) : notionalDec q p c = some (q * p * c) := by
  unfold notionalDec
  rw [decMul_exact h1, Option.bind_some, decMul_exact h2]

theorem deltaDec_exact {d cs q : Rat} {side : Side} (h1 : decExact (q * cs) = true)
    (h2 : decExact (d * (q * cs)) = true) : deltaDec d cs side q = some (specDelta d cs side q) := by
  unfold deltaDec
  rw [decMul_exact h1, Option.bind_some, decMul_exact h2, Option.map_some]
  cases side <;> simp only [specDelta, Option.some.injEq] <;> grind

/-- `None` only when the exact product overflows. -/
theorem decMul_none_overflow {a b : Rat} (h : decMul a b = none) : decFits (a * b) = false := by
  cases hf : decFits (a * b) with
  | false => rfl
  | true =>
    obtain ⟨v, hv⟩ := decRound_some_of_fits hf
    unfold decMul at h; rw [h] at hv; cases hv

theorem decMul_comm (a b : Rat) : decMul a b = decMul b a := by
  unfold decMul; rw [Rat.mul_comm]

theorem decExact_zero : decExact 0 = true := by decide +kernel

theorem decMul_zero_left (b : Rat) : decMul 0 b = some 0 := by
  have h : (0 : Rat) * b = 0 := Rat.zero_mul b
  unfold decMul; rw [h]; exact decRound_exact decExact_zero

end BarterModel.Risk
