import BarterModel.Model.MockExchange
/-!
Helper lemmas for C08 (simulated exchange): the six paths through `open_order`, the state
invariants (well-formedness, non-negativity), and the refinement invariant `Refines` tying the
state of the concrete model to the history-only specification `Spec.*`.
-/
namespace BarterModel.MockExchange

theorem required_eq (fee : Rat) (r : Req) :
    orderValue r + orderValue r * fee = Spec.required fee r := by
  unfold orderValue Spec.required
  cases r.side <;> simp <;> grind

theorem feesQuote_eq (fee : Rat) (r : Req) : feesQuote fee r = Spec.fees fee r := by
  unfold feesQuote orderValue Spec.fees
  cases r.side <;> simp <;> grind

theorem spends_eq (is : List Instr) (r : Req) :
    Spec.spends is r = (is[r.instr]?).map (fun u => spentAsset u r.side) := by
  unfold Spec.spends spentAsset
  cases is[r.instr]? <;> cases r.side <;> simp

/-- The six ways through `open_order`. -/
theorem openOrder_cases (s : State) (r : Req) :
    (r.kind ≠ .market ∧ openOrder s r = (s, .rejected .kindUnsupported)) ∨
    (r.kind = .market ∧ s.instruments[r.instr]? = none ∧
      openOrder s r = (s, .rejected (.instrumentInvalid r.instr))) ∨
    (∃ u, r.kind = .market ∧ s.instruments[r.instr]? = some u ∧
      s.balances[spentAsset u r.side]? = none ∧ openOrder s r = (s, .panic)) ∨
    (∃ u cur, r.kind = .market ∧ s.instruments[r.instr]? = some u ∧
      s.balances[spentAsset u r.side]? = some cur ∧ cur.total ≠ cur.free ∧ openOrder s r = (s, .panic)) ∨
    (∃ u cur, r.kind = .market ∧ s.instruments[r.instr]? = some u ∧
      s.balances[spentAsset u r.side]? = some cur ∧ cur.total = cur.free ∧
      ¬ (0 ≤ cur.free - Spec.required s.fee r) ∧
      openOrder s r = (s, .rejected (.balanceInsufficient (spentAsset u r.side) cur.free (Spec.required s.fee r)))) ∨
    (∃ u cur, r.kind = .market ∧ s.instruments[r.instr]? = some u ∧
      s.balances[spentAsset u r.side]? = some cur ∧ cur.total = cur.free ∧
      0 ≤ cur.free - Spec.required s.fee r ∧
      openOrder s r =
        (let new := cur.free - Spec.required s.fee r
         let b : Bal := ⟨new, new, s.time⟩
         let tr : Trade := ⟨s.seq, s.seq, r.instr, r.strategy, s.time, r.side, r.price, r.qty, Spec.fees s.fee r⟩
         ({ s with balances := s.balances.set (spentAsset u r.side) b, seq := s.seq + 1 },
          .accepted ⟨s.seq, s.time, r.qty, spentAsset u r.side, b, tr⟩))) := by
  by_cases hk : r.kind = .market
  · cases hi : s.instruments[r.instr]? with
    | none => right; left; simp [openOrder, hk, hi]
    | some u =>
      cases hb : s.balances[spentAsset u r.side]? with
      | none => right; right; left; exact ⟨u, hk, rfl, hb, by simp [openOrder, hk, hi, hb]⟩
      | some cur =>
        by_cases ht : cur.total = cur.free
        · by_cases hn : 0 ≤ cur.free - Spec.required s.fee r
          · right; right; right; right; right
            refine ⟨u, cur, hk, rfl, hb, ht, hn, ?_⟩
            simp only [openOrder, hk, hi, hb, ht, required_eq, feesQuote_eq, hn]
            simp
          · right; right; right; right; left
            refine ⟨u, cur, hk, rfl, hb, ht, hn, ?_⟩
            simp only [openOrder, hk, hi, hb, ht, required_eq, hn]
            simp
        · right; right; right; left
          exact ⟨u, cur, hk, rfl, hb, ht, by simp [openOrder, hk, hi, hb, ht]⟩
  · left; exact ⟨hk, by simp [openOrder, hk]⟩

/-! ### State invariants -/

/-- The exchange's own internal assumptions (`assert_eq!(total, free)`, `expect(balance)`): never
violated from a well-formed configuration. -/
def WF (s : State) : Prop :=
  (∀ b ∈ s.balances, b.total = b.free) ∧
  (∀ u ∈ s.instruments, u.base < s.balances.length ∧ u.quote < s.balances.length)

def NonNeg (s : State) : Prop := ∀ b ∈ s.balances, 0 ≤ b.free

/-- Trade ids recorded so far are exactly `0 … seq-1`, in order. -/
def IdsOk (s : State) : Prop := s.trades.map (·.id) = List.range s.seq

theorem mem_set_cases {α : Type} {l : List α} {i : Nat} {a x : α} (h : x ∈ l.set i a) : x = a ∨ x ∈ l := by
  rcases List.mem_or_eq_of_mem_set h with h | h
  · exact Or.inr h
  · exact Or.inl h

theorem updateTime_ledger (s : State) (t : Int) : ledger (updateTime s t) = ledger s := by
  simp [ledger, updateTime, List.map_map, Function.comp_def]

theorem updateTime_wf {s : State} (t : Int) (h : WF s) : WF (updateTime s t) := by
  obtain ⟨h1, h2⟩ := h
  refine ⟨?_, ?_⟩
  · intro b hb
    simp only [updateTime, List.mem_map] at hb
    obtain ⟨b0, hb0, rfl⟩ := hb
    exact h1 b0 hb0
  · intro u hu
    simpa [updateTime] using h2 u hu

theorem updateTime_nonneg {s : State} (t : Int) (h : NonNeg s) : NonNeg (updateTime s t) := by
  intro b hb
  simp only [updateTime, List.mem_map] at hb
  obtain ⟨b0, hb0, rfl⟩ := hb
  exact h b0 hb0

theorem spentAsset_lt {s : State} (h : WF s) {r : Req} {u : Instr}
    (hu : s.instruments[r.instr]? = some u) : spentAsset u r.side < s.balances.length := by
  have := h.2 u (List.mem_of_getElem? hu)
  unfold spentAsset; cases r.side <;> simp [this.1, this.2]

/-- From a well-formed state `open_order` cannot panic. -/
theorem openOrder_no_panic {s : State} (h : WF s) (r : Req) : (openOrder s r).2 ≠ .panic := by
  rcases openOrder_cases s r with ⟨_, e⟩ | ⟨_, _, e⟩ | ⟨u, _, hu, hb, _⟩ | ⟨u, cur, _, hu, hb, ht, _⟩ |
    ⟨u, cur, _, _, _, _, _, e⟩ | ⟨u, cur, _, _, _, _, _, e⟩
  · simp [e]
  · simp [e]
  · have := spentAsset_lt h hu
    rw [List.getElem?_eq_none_iff] at hb; omega
  · exact absurd (h.1 cur (List.mem_of_getElem? hb)) ht
  · simp [e]
  · simp [e]

theorem openOrder_wf {s : State} (h : WF s) (r : Req) : WF (openOrder s r).1 := by
  rcases openOrder_cases s r with ⟨_, e⟩ | ⟨_, _, e⟩ | ⟨u, _, _, _, e⟩ | ⟨u, cur, _, _, _, _, e⟩ |
    ⟨u, cur, _, _, _, _, _, e⟩ | ⟨u, cur, _, _, _, _, _, e⟩ <;> rw [e] <;> try exact h
  refine ⟨?_, ?_⟩
  · intro b hb
    rcases mem_set_cases hb with rfl | hb
    · rfl
    · exact h.1 b hb
  · intro u' hu'
    simpa using h.2 u' hu'

theorem openOrder_nonneg {s : State} (h : NonNeg s) (r : Req) : NonNeg (openOrder s r).1 := by
  rcases openOrder_cases s r with ⟨_, e⟩ | ⟨_, _, e⟩ | ⟨u, _, _, _, e⟩ | ⟨u, cur, _, _, _, _, e⟩ |
    ⟨u, cur, _, _, _, _, _, e⟩ | ⟨u, cur, _, _, _, _, hn, e⟩ <;> rw [e] <;> try exact h
  intro b hb
  rcases mem_set_cases hb with rfl | hb
  · exact hn
  · exact h b hb

/-- `step` on an open-order request, in terms of `openOrder` on the time-updated state. -/
theorem step_open (s : State) (t : Int) (r : Req) :
    step s t (.openOrder r) =
      match openOrder (updateTime s t) r with
      | (s', .accepted f) => (ackTrade s' f.trade, .order (.accepted f), [.balance f.asset f.balance, .trade f.trade])
      | (s', res) => (s', .order res, []) := by
  simp only [step]
  split <;> simp_all

theorem step_wf {s : State} (h : WF s) (t : Int) (rq : Request) : WF (step s t rq).1 := by
  cases rq with
  | openOrder r =>
    rw [step_open]
    have := openOrder_wf (updateTime_wf t h) r
    split
    · rename_i s' f heq; rw [heq] at this; exact this
    · rename_i s' res _ heq; rw [heq] at this; exact this
  | _ => exact updateTime_wf t h

theorem step_nonneg {s : State} (h : NonNeg s) (t : Int) (rq : Request) : NonNeg (step s t rq).1 := by
  cases rq with
  | openOrder r =>
    rw [step_open]
    have := openOrder_nonneg (updateTime_nonneg t h) r
    split
    · rename_i s' f heq; rw [heq] at this; exact this
    · rename_i s' res _ heq; rw [heq] at this; exact this
  | _ => exact updateTime_nonneg t h

theorem run_append (s : State) (ops : List (Int × Request)) (op : Int × Request) :
    run s (ops ++ [op]) = (step (run s ops) op.1 op.2).1 := by
  simp [run, List.foldl_append]

theorem run_inv {P : State → Prop} (hstep : ∀ s t rq, P s → P (step s t rq).1) {s : State} (h : P s)
    (ops : List (Int × Request)) : P (run s ops) := by
  induction ops generalizing s with
  | nil => exact h
  | cons op ops ih => exact ih (hstep s op.1 op.2 h)

/-! ### Refinement to the history-only specification -/

/-- State `s` represents the accepted-order list `acc` (newest first) of configuration `c`. -/
structure Refines (c : Cfg) (s : State) (acc : List Spec.Ev) : Prop where
  latency : s.latency = c.latency
  fee : s.fee = c.fee
  instruments : s.instruments = c.instruments
  len : s.balances.length = c.init.length
  bal : ∀ a, (s.balances[a]?).map (fun b => (b.total, b.free)) = (Spec.balance c acc a).map (fun v => (v, v))
  trades : s.trades = Spec.fills c acc
  seq : s.seq = acc.length

theorem wf_init {c : Cfg} (h : c.wf = true) : ∀ p ∈ c.init, p.1 = p.2 := by
  intro p hp
  simp only [Cfg.wf, Bool.and_eq_true, List.all_eq_true, decide_eq_true_eq] at h
  exact h.1 p hp

theorem wf_instr {c : Cfg} (h : c.wf = true) :
    ∀ u ∈ c.instruments, u.base < c.init.length ∧ u.quote < c.init.length := by
  intro u hu
  simp only [Cfg.wf, Bool.and_eq_true, List.all_eq_true, decide_eq_true_eq] at h
  exact h.2 u hu

theorem refines_init {c : Cfg} (h : c.wf = true) : Refines c (init c) [] where
  latency := rfl
  fee := rfl
  instruments := rfl
  len := by simp [init]
  bal := by
    intro a
    simp only [init, List.getElem?_map, Spec.balance, Spec.debited, Option.map_map]
    cases hp : c.init[a]? with
    | none => simp
    | some p =>
      have := wf_init h p (List.mem_of_getElem? hp)
      simp [this]; grind
  trades := rfl
  seq := rfl

theorem refines_wf {c : Cfg} {s : State} {acc : List Spec.Ev} (h : Refines c s acc) (hc : c.wf = true) :
    WF s := by
  refine ⟨?_, ?_⟩
  · intro b hb
    obtain ⟨a, ha, rfl⟩ := List.mem_iff_getElem.mp hb
    have := h.bal a
    rw [List.getElem?_eq_getElem ha] at this
    cases hv : Spec.balance c acc a with
    | none => simp [hv] at this
    | some v => simp [hv] at this; rw [this.1, this.2]
  · intro u hu
    rw [h.instruments] at hu
    rw [h.len]
    exact wf_instr hc u hu

theorem refines_updateTime {c : Cfg} {s : State} {acc : List Spec.Ev} (h : Refines c s acc) (t : Int) :
    Refines c (updateTime s t) acc where
  latency := h.latency
  fee := h.fee
  instruments := h.instruments
  len := by simp [updateTime, h.len]
  bal := by
    intro a
    have := h.bal a
    simp only [updateTime, List.getElem?_map, Option.map_map] at *
    rw [← this]; rfl
  trades := h.trades
  seq := h.seq

theorem updateTime_time {c : Cfg} {s : State} {acc : List Spec.Ev} (h : Refines c s acc) (t : Int) :
    (updateTime s t).time = exchangeTime c t := by
  simp [updateTime, exchangeTime, h.latency]

theorem balance_cons (c : Cfg) (e : Spec.Ev) (acc : List Spec.Ev) (a : Nat) :
    Spec.balance c (e :: acc) a =
      (Spec.balance c acc a).map fun v =>
        v - (if Spec.spends c.instruments e.req = some a then Spec.required c.fee e.req else 0) := by
  simp only [Spec.balance, Spec.debited, Option.map_map]
  cases c.init[a]? with
  | none => rfl
  | some p => simp only [Option.map_some, Function.comp]; congr 1; grind

/-- The heart of the refinement: what `open_order` does in a state representing `acc`, expressed
with the specification's own vocabulary (the exchange clock reads `s.time`). -/
theorem refines_open_core {c : Cfg} {s : State} {acc : List Spec.Ev} (h : Refines c s acc)
    (hc : c.wf = true) (r : Req) :
    (Spec.fundsOk c acc r = true ∧ ∃ a v,
        Spec.spends c.instruments r = some a ∧ Spec.balance c acc a = some v ∧
        (openOrder s r).2 =
          .accepted
            { id := acc.length, time := s.time, filled := r.qty, asset := a,
              balance := ⟨v - Spec.required c.fee r, v - Spec.required c.fee r, s.time⟩,
              trade := Spec.fillOf c acc.length ⟨s.time, r⟩ } ∧
        Refines c (ackTrade (openOrder s r).1 (Spec.fillOf c acc.length ⟨s.time, r⟩)) (⟨s.time, r⟩ :: acc)) ∨
    (Spec.fundsOk c acc r = false ∧
      ∃ err, openOrder s r = (s, .rejected err)) := by
  have h1 := h
  have hwf := refines_wf h1 hc
  have hnp := openOrder_no_panic hwf r
  rcases openOrder_cases s r with ⟨hk, e⟩ | ⟨hk, hi, e⟩ | ⟨u, _, _, _, e⟩ | ⟨u, cur, _, _, _, _, e⟩ |
    ⟨u, cur, hk, hi, hb, ht, hn, e⟩ | ⟨u, cur, hk, hi, hb, ht, hn, e⟩
  · right
    refine ⟨?_, _, e⟩
    cases hkk : r.kind <;> simp_all [Spec.fundsOk]
  · right
    refine ⟨?_, _, e⟩
    rw [h1.instruments] at hi
    simp [Spec.fundsOk, spends_eq, hi]
  · rw [e] at hnp; exact absurd rfl hnp
  · rw [e] at hnp; exact absurd rfl hnp
  · right
    refine ⟨?_, _, e⟩
    have hsp : Spec.spends c.instruments r = some (spentAsset u r.side) := by
      rw [spends_eq, ← h1.instruments, hi]; rfl
    have hbal := h1.bal (spentAsset u r.side)
    rw [hb] at hbal
    cases hv : Spec.balance c acc (spentAsset u r.side) with
    | none => simp [hv] at hbal
    | some v =>
      simp only [hv, Option.map_some, Option.some.injEq, Prod.mk.injEq] at hbal
      rw [h1.fee] at hn
      simp only [Spec.fundsOk, hsp, hv, Bool.and_eq_false_iff, decide_eq_false_iff_not]
      right; intro hle; apply hn; rw [hbal.2]; grind
  · left
    have hsp : Spec.spends c.instruments r = some (spentAsset u r.side) := by
      rw [spends_eq, ← h1.instruments, hi]; rfl
    have hbal := h1.bal (spentAsset u r.side)
    rw [hb] at hbal
    cases hv : Spec.balance c acc (spentAsset u r.side) with
    | none => simp [hv] at hbal
    | some v =>
      simp only [hv, Option.map_some, Option.some.injEq, Prod.mk.injEq] at hbal
      have hlt : spentAsset u r.side < s.balances.length := spentAsset_lt hwf hi
      refine ⟨?_, spentAsset u r.side, v, hsp, hv, ?_, ?_⟩
      · rw [h1.fee, hbal.2] at hn
        simp only [Spec.fundsOk, hk, hsp, hv, beq_self_eq_true, Bool.true_and, decide_eq_true_eq]
        grind
      · rw [e]
        simp only [h1.fee, h1.seq, hbal.2, Spec.fillOf]
      · rw [e]
        simp only [h1.fee, h1.seq, hbal.2]
        exact {
          latency := h1.latency
          fee := rfl
          instruments := h1.instruments
          len := by simp [ackTrade, h1.len]
          bal := by
            intro a'
            rw [balance_cons]
            simp only [ackTrade, List.getElem?_set]
            by_cases ha : spentAsset u r.side = a'
            · subst ha
              simp [hlt, hsp, hv]
            · have hne : ¬ (some (spentAsset u r.side) = some a') := by simpa using ha
              simp only [ha, if_false, hsp, hne]
              rw [h1.bal a']
              cases Spec.balance c acc a' <;> simp
              grind
          trades := by
            simp only [ackTrade, h1.trades, Spec.fills]
          seq := by simp [ackTrade]
        }

/-- `refines_open_core` after the request loop's clock update. -/
theorem refines_open {c : Cfg} {s : State} {acc : List Spec.Ev} (h : Refines c s acc)
    (hc : c.wf = true) (t : Int) (r : Req) :
    (Spec.fundsOk c acc r = true ∧ ∃ a v,
        Spec.spends c.instruments r = some a ∧ Spec.balance c acc a = some v ∧
        (openOrder (updateTime s t) r).2 =
          .accepted
            { id := acc.length, time := exchangeTime c t, filled := r.qty, asset := a,
              balance := ⟨v - Spec.required c.fee r, v - Spec.required c.fee r, exchangeTime c t⟩,
              trade := Spec.fillOf c acc.length ⟨exchangeTime c t, r⟩ } ∧
        Refines c (ackTrade (openOrder (updateTime s t) r).1 (Spec.fillOf c acc.length ⟨exchangeTime c t, r⟩)) (⟨exchangeTime c t, r⟩ :: acc)) ∨
    (Spec.fundsOk c acc r = false ∧
      ∃ err, openOrder (updateTime s t) r = (updateTime s t, .rejected err)) := by
  have := refines_open_core (refines_updateTime h t) hc r
  rw [updateTime_time h t] at this
  exact this

/-- `open_order` never reads the recorded trades. -/
theorem openOrder_setTrades (s : State) (r : Req) (x : List Trade) :
    openOrder { s with trades := x } r =
      ({ (openOrder s r).1 with trades := x }, (openOrder s r).2) := by
  rcases openOrder_cases s r with ⟨hk, e⟩ | ⟨hk, hi, e⟩ | ⟨u, hk, hi, hb, e⟩ | ⟨u, cur, hk, hi, hb, ht, e⟩ |
    ⟨u, cur, hk, hi, hb, ht, hn, e⟩ | ⟨u, cur, hk, hi, hb, ht, hn, e⟩ <;> rw [e]
  · simp [openOrder, hk]
  · simp [openOrder, hk, hi]
  · simp [openOrder, hk, hi, hb]
  · simp [openOrder, hk, hi, hb, ht]
  · simp [openOrder, hk, hi, hb, ht, required_eq, hn]
  · simp [openOrder, hk, hi, hb, ht, required_eq, feesQuote_eq, hn]

/-- Accepted list after one more operation. -/
def extend (c : Cfg) (acc : List Spec.Ev) : Option Spec.Ev → List Spec.Ev
  | some e => if Spec.fundsOk c acc e.req then e :: acc else acc
  | none => acc

theorem refines_step {c : Cfg} {s : State} {acc : List Spec.Ev} (h : Refines c s acc)
    (hc : c.wf = true) (t : Int) (rq : Request) :
    Refines c (step s t rq).1 (extend c acc (evOf c (t, rq))) := by
  cases rq with
  | openOrder r =>
    rw [step_open]
    simp only [evOf, extend]
    rcases refines_open h hc t r with ⟨hf, a, v, _, _, hres, href⟩ | ⟨hf, err, hres⟩
    · rw [hf]
      split
      · rename_i s' f heq
        rw [heq] at hres href
        simp only at hres href
        injection hres with hres
        subst hres
        simpa using href
      · rename_i s' res hne heq
        rw [heq] at hres
        exact absurd hres (hne _)
    · rw [hf, hres]
      simpa using refines_updateTime h t
  | _ => simpa [step, evOf, extend] using refines_updateTime h t

theorem opens_append (c : Cfg) (ops : List (Int × Request)) (op : Int × Request) :
    Spec.accepted c (opens c (ops ++ [op])) = extend c (Spec.accepted c (opens c ops)) (evOf c op) := by
  simp only [opens, List.filterMap_append, List.reverse_append, List.filterMap_cons, List.filterMap_nil]
  cases evOf c op with
  | none => simp [extend]
  | some e => simp [extend, Spec.accepted]

/-- Induction principle: histories grow at the end. -/
theorem snoc_induction {α : Type} {P : List α → Prop} (nil : P [])
    (snoc : ∀ l a, P l → P (l ++ [a])) (l : List α) : P l := by
  have : ∀ r : List α, P r.reverse := by
    intro r
    induction r with
    | nil => exact nil
    | cons a r ih => simpa using snoc _ a ih
  simpa using this l.reverse

/-- Main invariant: after any operation history from a well-formed configuration the state
represents the accepted orders of that history. -/
theorem refines_run {c : Cfg} (hc : c.wf = true) (ops : List (Int × Request)) :
    Refines c (run (init c) ops) (Spec.accepted c (opens c ops)) := by
  induction ops using snoc_induction with
  | nil => simpa [run, opens, Spec.accepted] using refines_init hc
  | snoc ops op ih =>
    rw [run_append, opens_append]
    exact refines_step ih hc op.1 op.2

theorem refines_ledger {c : Cfg} {s : State} {acc : List Spec.Ev} (h : Refines c s acc) :
    ledger s = Spec.ledger c acc := by
  apply List.ext_getElem?
  intro a
  simp only [ledger, Spec.ledger, List.getElem?_map]
  rw [h.bal a]
  by_cases ha : a < c.init.length
  · rw [List.getElem?_range ha]
    have : ∃ p, c.init[a]? = some p := ⟨c.init[a], List.getElem?_eq_getElem ha⟩
    obtain ⟨p, hp⟩ := this
    simp [Spec.balance, hp]
  · have h1 : c.init[a]? = none := by rw [List.getElem?_eq_none_iff]; omega
    have h2 : (List.range c.init.length)[a]? = none := by
      rw [List.getElem?_eq_none_iff]; simp; omega
    simp [Spec.balance, h1, h2]

/-- The oneshot answer and the broadcast events of an open-order request are the specification's. -/
theorem refines_open_response {c : Cfg} {s : State} {acc : List Spec.Ev} (h : Refines c s acc)
    (hc : c.wf = true) (t : Int) (r : Req) :
    match Spec.respond c acc ⟨exchangeTime c t, r⟩ with
    | some (a, b, tr) =>
      (step s t (.openOrder r)).2 =
        (.order (.accepted ⟨acc.length, exchangeTime c t, r.qty, a, ⟨b, b, exchangeTime c t⟩, tr⟩),
         [.balance a ⟨b, b, exchangeTime c t⟩, .trade tr])
    | none => ∃ err, (step s t (.openOrder r)).2 = (.order (.rejected err), []) := by
  rw [step_open]
  rcases refines_open h hc t r with ⟨hf, a, v, hsp, hv, hres, _⟩ | ⟨hf, err, hres⟩
  · simp only [Spec.respond, hf, if_true, hsp, hv]
    split
    · rename_i s' f heq
      rw [heq] at hres
      simp only at hres
      injection hres with hres
      subst hres
      rfl
    · rename_i s' res hne heq
      rw [heq] at hres
      exact absurd hres (hne _)
  · simp only [Spec.respond, hf]
    rw [hres]
    exact ⟨err, rfl⟩

/-! ### `step` on an open-order request, by outcome -/

theorem step_open_accepted {s : State} {t : Int} {r : Req} {f : Fill}
    (h : (openOrder (updateTime s t) r).2 = .accepted f) :
    step s t (.openOrder r) =
      (ackTrade (openOrder (updateTime s t) r).1 f.trade, .order (.accepted f),
       [.balance f.asset f.balance, .trade f.trade]) := by
  rw [step_open]
  split
  · rename_i s' f' heq
    rw [heq] at h; simp only at h; injection h with h; subst h
    simp [heq]
  · rename_i s' res hne heq
    rw [heq] at h; exact absurd h (hne _)

theorem step_open_not_accepted {s : State} {t : Int} {r : Req}
    (h : ∀ f, (openOrder (updateTime s t) r).2 ≠ .accepted f) :
    step s t (.openOrder r) =
      ((openOrder (updateTime s t) r).1, .order (openOrder (updateTime s t) r).2, []) := by
  rw [step_open]
  split
  · rename_i s' f' heq
    exact absurd (by rw [heq]) (h f')
  · rename_i s' res hne heq
    simp [heq]

theorem step_open_resp (s : State) (t : Int) (r : Req) :
    (step s t (.openOrder r)).2.1 = .order (openOrder (updateTime s t) r).2 := by
  by_cases h : ∃ f, (openOrder (updateTime s t) r).2 = .accepted f
  · obtain ⟨f, hf⟩ := h
    rw [step_open_accepted hf, hf]
  · rw [step_open_not_accepted (fun f hf => h ⟨f, hf⟩)]

theorem updateTime_getElem? (s : State) (t : Int) (a : Nat) :
    (updateTime s t).balances[a]? = (s.balances[a]?).map fun b => { b with time := (updateTime s t).time } := by
  simp [updateTime]

/-! ### The direct path: `open_order` called on the struct, no request loop

Nobody calls `ack_trade` and the exchange clock never moves, so the recorded trades stay as they
were; balances, the id counter and the answers still follow the specification. -/

/-- A sequence of direct `open_order` calls, state only. -/
def runDirect (s : State) (rs : List Req) : State := rs.foldl (fun s r => (openOrder s r).1) s

/-- `s` represents `acc` except that its fills were never acknowledged. -/
def RefinesD (c : Cfg) (s : State) (acc : List Spec.Ev) : Prop :=
  Refines c { s with trades := Spec.fills c acc } acc

theorem refinesD_open {c : Cfg} {s : State} {acc : List Spec.Ev} (h : RefinesD c s acc)
    (hc : c.wf = true) (r : Req) :
    (Spec.fundsOk c acc r = true ∧ ∃ a v,
        Spec.spends c.instruments r = some a ∧ Spec.balance c acc a = some v ∧
        (openOrder s r).2 =
          .accepted
            { id := acc.length, time := s.time, filled := r.qty, asset := a,
              balance := ⟨v - Spec.required c.fee r, v - Spec.required c.fee r, s.time⟩,
              trade := Spec.fillOf c acc.length ⟨s.time, r⟩ } ∧
        RefinesD c (openOrder s r).1 (⟨s.time, r⟩ :: acc)) ∨
    (Spec.fundsOk c acc r = false ∧ ∃ err, openOrder s r = (s, .rejected err)) := by
  rcases refines_open_core h hc r with ⟨hf, a, v, hsp, hv, hres, href⟩ | ⟨hf, err, hres⟩
  · left
    rw [openOrder_setTrades] at hres href
    refine ⟨hf, a, v, hsp, hv, hres, ?_⟩
    simpa [RefinesD, ackTrade, Spec.fills] using href
  · right
    rw [openOrder_setTrades] at hres
    refine ⟨hf, err, ?_⟩
    have h2 : (openOrder s r).2 = .rejected err := (Prod.mk.inj hres).2
    rcases openOrder_cases s r with ⟨_, e⟩ | ⟨_, _, e⟩ | ⟨u, _, _, _, e⟩ | ⟨u, cur, _, _, _, _, e⟩ |
      ⟨u, cur, _, _, _, _, _, e⟩ | ⟨u, cur, _, _, _, _, _, e⟩ <;> rw [e] at h2 ⊢ <;> cases h2 <;> rfl

theorem openOrder_time_trades (s : State) (r : Req) :
    (openOrder s r).1.time = s.time ∧ (openOrder s r).1.trades = s.trades := by
  rcases openOrder_cases s r with ⟨_, e⟩ | ⟨_, _, e⟩ | ⟨u, _, _, _, e⟩ | ⟨u, cur, _, _, _, _, e⟩ |
    ⟨u, cur, _, _, _, _, _, e⟩ | ⟨u, cur, _, _, _, _, _, e⟩ <;> rw [e] <;> exact ⟨rfl, rfl⟩

theorem runDirect_append (s : State) (rs : List Req) (r : Req) :
    runDirect s (rs ++ [r]) = (openOrder (runDirect s rs) r).1 := by
  simp [runDirect, List.foldl_append]

/-- The events of a direct call sequence: the exchange clock stays at 0. Newest first. -/
def opensDirect (rs : List Req) : List Spec.Ev := (rs.map fun r => (⟨0, r⟩ : Spec.Ev)).reverse

theorem refinesD_run {c : Cfg} (hc : c.wf = true) (rs : List Req) :
    RefinesD c (runDirect (init c) rs) (Spec.accepted c (opensDirect rs)) ∧
    (runDirect (init c) rs).time = 0 ∧ (runDirect (init c) rs).trades = [] := by
  induction rs using snoc_induction with
  | nil => exact ⟨by simpa [RefinesD, runDirect, opensDirect, Spec.accepted, Spec.fills, init] using refines_init hc, rfl, rfl⟩
  | snoc rs r ih =>
    obtain ⟨ih1, ih2, ih3⟩ := ih
    rw [runDirect_append]
    have hacc : Spec.accepted c (opensDirect (rs ++ [r])) =
        extend c (Spec.accepted c (opensDirect rs)) (some ⟨0, r⟩) := by
      simp only [opensDirect, List.map_append, List.reverse_append, List.map_cons, List.map_nil,
        List.reverse_cons, List.reverse_nil, List.nil_append, List.cons_append]
      rfl
    rw [hacc]
    simp only [extend]
    have htt := openOrder_time_trades (runDirect (init c) rs) r
    refine ⟨?_, by rw [htt.1]; exact ih2, by rw [htt.2]; exact ih3⟩
    rcases refinesD_open ih1 hc r with ⟨hf, a, v, _, _, hres, href⟩ | ⟨hf, err, hres⟩
    · rw [hf, ih2] at *
      simpa using href
    · rw [hf, hres]
      simpa using ih1

end BarterModel.MockExchange
