import BarterModel.Lemmas.TradingLoop
/-! Lemmas for the review-B integration of the sub-check C20E: the input-level guard `PosOps`
(positive prices / quantities) and what it implies for every schedule (every request the engine sends
is positive — `hpos` discharged —, no tick panics), and the refinement of the ops-level specification
`TradingLoop.OpsSpec` by the composed model. -/
namespace BarterModel.TradingLoop
open BarterModel.SysHandle
open BarterModel.Engine (Req OpenReq CancelReq Command Key)

/-! ## P. Position records under positive fills -/

/-- a position record on which no division of the position code can fail -/
def RecOk (p : Position.Position) : Prop :=
  0 < p.quantityAbs ∧ p.quantityAbs ≤ p.quantityAbsMax ∧ 0 < p.priceEntryAverage

def PmOk (pm : Position.PositionManager) : Prop := ∀ p, pm.current = some p → RecOk p

theorem rat_div_pos {a b : Rat} (ha : 0 < a) (hb : 0 < b) : 0 < a / b := by
  rw [Rat.div_def]; exact Rat.mul_pos ha (Rat.inv_pos.mpr hb)

theorem abs_of_pos (q : Rat) (h : 0 < q) : Position.abs q = q := by
  unfold Position.abs; split
  · rfl
  · exact absurd (Rat.le_of_lt h) ‹_›

theorem recOk_ofTrade (t : Position.Trade) (hq : 0 < t.quantity) (hp : 0 < t.price) :
    RecOk (Position.Position.ofTrade t) := by
  simp only [RecOk, Position.Position.ofTrade, abs_of_pos _ hq]
  exact ⟨hq, Rat.le_refl, hp⟩

theorem recOk_increase (p : Position.Position) (t : Position.Trade) (h : RecOk p)
    (hq : 0 < t.quantity) (hp : 0 < t.price) : RecOk (p.increase t) := by
  obtain ⟨h1, h2, h3⟩ := h
  have ha := abs_of_pos _ hq
  have hne : ¬ (p.quantityAbs = 0 ∧ t.quantity = 0) := fun hh => by rw [hh.2] at hq; exact absurd hq (by decide)
  have hsum : 0 < p.quantityAbs + t.quantity := by grind
  have havg : 0 < (p.priceEntryAverage * p.quantityAbs + t.price * t.quantity) / (p.quantityAbs + t.quantity) := by
    apply rat_div_pos _ hsum
    have := Rat.mul_pos h3 h1
    have := Rat.mul_pos hp hq
    grind
  simp only [RecOk, Position.Position.increase, Position.Position.updatePnlUnrealised, ha,
    Position.calculatePriceEntryAverage, hne, ↓reduceIte]
  by_cases hgt : p.quantityAbs + t.quantity > p.quantityAbsMax
  · simp only [hgt, ↓reduceIte]; exact ⟨hsum, Rat.le_refl, havg⟩
  · simp only [hgt, ↓reduceIte]; exact ⟨hsum, Rat.not_lt.mp hgt, havg⟩

theorem recOk_reduce (p : Position.Position) (t : Position.Trade) (h : RecOk p)
    (hq : 0 < t.quantity) (hgt : p.quantityAbs > Position.abs t.quantity) : RecOk (p.reduce t) := by
  obtain ⟨h1, h2, h3⟩ := h
  have ha := abs_of_pos _ hq
  rw [ha] at hgt
  simp only [RecOk, Position.Position.reduce, Position.Position.updatePnlUnrealised,
    Position.Position.updatePnlRealised, ha]
  exact ⟨by grind, by grind, h3⟩

theorem pmOk_update (pm : Position.PositionManager) (t : Position.Trade) (h : PmOk pm)
    (hq : 0 < t.quantity) (hp : 0 < t.price) : PmOk (pm.update t).1 := by
  intro p' hp'
  unfold Position.PositionManager.update at hp'
  cases hc : pm.current with
  | none =>
    simp only [hc] at hp'
    injection hp' with hp'
    rw [← hp']; exact recOk_ofTrade t hq hp
  | some p =>
    have hr := h p hc
    simp only [hc] at hp'
    unfold Position.Position.updateFromTrade at hp'
    have ha := abs_of_pos _ hq
    by_cases hi : p.instrument ≠ t.instrument
    · rw [if_pos hi] at hp'; simp only [Option.some.injEq] at hp'; rw [← hp']; exact hr
    · rw [if_neg hi] at hp'
      have hpush : RecOk (p.pushTrade t.id) := hr
      generalize p.pushTrade t.id = q at hp' hpush
      by_cases hs : q.side = t.side
      · rw [if_pos hs] at hp'; simp only [Option.some.injEq] at hp'
        rw [← hp']; exact recOk_increase q t hpush hq hp
      · rw [if_neg hs] at hp'
        by_cases hgt : q.quantityAbs > Position.abs t.quantity
        · rw [if_pos hgt] at hp'; simp only [Option.some.injEq] at hp'
          rw [← hp']; exact recOk_reduce q t hpush hq hgt
        · rw [if_neg hgt] at hp'
          by_cases heq : q.quantityAbs = Position.abs t.quantity
          · rw [if_pos heq] at hp'; cases hp'
          · rw [if_neg heq] at hp'; simp only [Option.some.injEq] at hp'
            rw [← hp']
            simp only [Position.Position.flip]
            apply recOk_ofTrade
            · rw [ha] at hgt heq ⊢
              show 0 < t.quantity - q.quantityAbs
              grind
            · exact hp

theorem tradePanics_false (pm : Position.PositionManager) (t : Position.Trade) (h : PmOk pm) :
    tradePanics pm t = false := by
  unfold tradePanics
  cases hc : pm.current with
  | none => rfl
  | some p =>
    obtain ⟨h1, h2, h3⟩ := h p hc
    have hmax : 0 < p.quantityAbsMax := by grind
    simp only
    split
    · rfl
    · split
      · split
        · rename_i hgt
          simp only [decide_eq_false_iff_not]
          intro h0; rw [h0] at hgt; exact absurd hgt (by grind)
        · simp only [decide_eq_false_iff_not]; grind
      · split
        · simp only [decide_eq_false_iff_not]; grind
        · simp only [decide_eq_false_iff_not]; grind

/-! ## Q. The input-level guard and what it maintains -/

section Guard
open BarterModel.Engine

/-- an engine request with positive price and quantity (implies `PosReq`) -/
def LReqOk : Req → Prop
  | .opn o => 0 < o.quantity ∧ 0 < o.price
  | .cnl _ => True

theorem LReqOk.posReq {r : Req} (h : LReqOk r) : PosReq r := by
  cases r with
  | opn o => exact h.1
  | cnl c => trivial

/-- an account event whose fill (if it is one) has positive price and quantity -/
def LAccOk : AccEv → Prop
  | .trade t => 0 < t.quantity ∧ 0 < t.price
  | _ => True

def LEvOk : LEv → Prop
  | .account a => LAccOk a
  | _ => True

/-- the guard as it shows on a feed event -/
def LEvGuard : LEv → Prop
  | .command (.sendOpenRequests rs) => ∀ r ∈ rs, 0 < r.quantity ∧ 0 < r.price
  | .market m => MktOk m
  | _ => True

/-- every recorded trade has a positive price, and asks (if at all) for a positive quantity -/
def LTradesOk (l : List MktEv) : Prop := ∀ t ∈ l, 0 < t.price ∧ ∀ sq, t.react = some sq → 0 < sq.2

/-- an engine state in which no division of the position code can fail and from which only positive
requests are generated -/
structure LStateOk (e : LEng) : Prop where
  sync : PosSync e
  pm : ∀ (j : Nat) (r : Position.Run), e.pos[j]? = some r → PmOk r.pm
  prices : ∀ st ∈ e.core.instruments, ∀ p, st.price = some p → 0 < p
  trades : LTradesOk e.trades

theorem lTradesOk_after (trades : List MktEv) (ev : LEv) (ht : LTradesOk trades) (hg : LEvGuard ev) :
    LTradesOk (tradesAfter trades ev) := by
  cases ev with
  | market m =>
    simp only [tradesAfter]
    split
    · exact ht
    · rename_i hm
      intro t htm
      rcases List.mem_append.mp htm with h | h
      · exact ht t h
      · simp only [List.mem_singleton] at h
        subst h
        rcases hg with h' | h'
        · exact absurd h' hm
        · exact h'
  | _ => exact ht

theorem pm_step (p : Position.Instruments) (t : Position.Trade)
    (h : ∀ (j : Nat) (r : Position.Run), p[j]? = some r → PmOk r.pm) (hq : 0 < t.quantity) (hp : 0 < t.price) :
    ∀ (j : Nat) (r : Position.Run), (p.step t)[j]? = some r → PmOk r.pm := by
  intro j r hr
  unfold Position.Instruments.step at hr
  cases hc : p[t.instrument]? with
  | none => simp only [hc] at hr; exact h j r hr
  | some r0 =>
    simp only [hc] at hr
    by_cases hj : j = t.instrument
    · subst hj
      have hlt : t.instrument < p.length := (List.getElem?_eq_some_iff.mp hc).1
      rw [List.getElem?_set_self hlt] at hr
      injection hr with hr
      rw [← hr]
      exact pmOk_update r0.pm t (h _ r0 hc) hq hp
    · rw [List.getElem?_set_ne (Ne.symm hj)] at hr
      exact h j r hr

theorem mem_instruments_of_getElem? {l : List Instr} {j : Nat} {st : Instr} (h : l[j]? = some st) : st ∈ l :=
  List.mem_of_getElem? h

/-- prices of the instruments of `process`'s result are those of the state its generation stage
started from -/
theorem process_prices (e : Eng) (ev : Engine.Event) (os : List OpenReq) (rf : Key → Bool)
    (h : ∀ st ∈ (preState e ev).instruments, ∀ p, st.price = some p → 0 < p) :
    ∀ st ∈ (Engine.process e ev [] os rf).1.instruments, ∀ p, st.price = some p → 0 < p := by
  intro st hst p hp
  obtain ⟨j, hj, rfl⟩ := List.mem_iff_getElem.mp hst
  have hs := process_static e ev os rf j
  rw [List.getElem?_eq_getElem hj] at hs
  cases hpre : (preState e ev).instruments[j]? with
  | none => rw [hpre] at hs; cases hs
  | some st0 =>
    rw [hpre] at hs
    simp only [Option.map_some, Option.some.injEq] at hs
    have : st0.price = some p := by
      have := congrArg (fun t : Nat × Nat × Nat × Option (Side × Rat) × Option Rat => t.2.2.2.2) hs
      simp only [Instr.static] at this
      rw [← this]; exact hp
    exact h st0 (List.mem_of_getElem? hpre) p this

theorem applyUpdate_prices (e : Eng) (u : Update)
    (h : ∀ st ∈ e.instruments, ∀ p, st.price = some p → 0 < p)
    (hu : ∀ i p, u = .price i p → 0 < p) :
    ∀ st ∈ (applyUpdate e u).instruments, ∀ p, st.price = some p → 0 < p := by
  have key : ∀ (i : Nat) (f : Instr → Instr), (∀ s, (∀ p, s.price = some p → 0 < p) → ∀ p, (f s).price = some p → 0 < p) →
      ∀ st ∈ modifyInstr e.instruments i f, ∀ p, st.price = some p → 0 < p := by
    intro i f hf st hst p hp
    unfold modifyInstr at hst
    cases hc : e.instruments[i]? with
    | none => simp only [hc] at hst; exact h st hst p hp
    | some s0 =>
      simp only [hc] at hst
      rcases List.mem_or_eq_of_mem_set hst with hm | he
      · exact h st hm p hp
      · subst he
        exact hf s0 (h s0 (List.mem_of_getElem? hc)) p hp
  cases u with
  | order i op => exact key i _ (fun s hs p hp => hs p hp)
  | position i side q => exact key i _ (fun s hs p hp => hs p hp)
  | flat i => exact key i _ (fun s hs p hp => hs p hp)
  | price i p0 =>
    exact key i _ (fun s _ p hp => by
      simp only [Option.some.injEq] at hp
      rw [← hp]; exact hu i p0 rfl)
  | other => exact h

theorem lStateOk_lStep (s : LEng) (ev : LEv) (h : LStateOk s) (hev : LEvOk ev) (hg : LEvGuard ev) :
    LStateOk (lStep s ev).1 := by
  refine ⟨posSync_lStep s ev h.sync, ?_, ?_, lTradesOk_after s.trades ev h.trades hg⟩
  · -- position managers
    show ∀ (j : Nat) (r : Position.Run), (posAfter s.pos ev)[j]? = some r → PmOk r.pm
    cases ev with
    | account a =>
      cases a with
      | trade t => exact pm_step s.pos t h.pm hev.1 hev.2
      | _ => exact h.pm
    | _ => exact h.pm
  · -- prices
    show ∀ st ∈ (Engine.process s.core (toEngineEvent (posAfter s.pos ev) ev) [] (lOpens s ev)
      (fun _ => false)).1.instruments, ∀ p, st.price = some p → 0 < p
    apply process_prices
    cases ev with
    | shutdown => exact h.prices
    | command c => exact h.prices
    | trading on => exact h.prices
    | market m =>
      simp only [toEngineEvent]
      split
      · exact h.prices
      · rename_i hm
        simp only [preState]
        apply applyUpdate_prices _ _ h.prices
        intro i p hu
        injection hu with _ hp
        rw [← hp]
        rcases hg with h' | h'
        · exact absurd h' hm
        · exact h'.1
    | account a =>
      cases a with
      | trade t =>
        simp only [toEngineEvent, preState]
        apply applyUpdate_prices _ _ h.prices
        intro i p hu
        unfold posSummary at hu
        split at hu <;> cases hu
      | snapshot items => exact h.prices
      | balance a m => exact h.prices
      | order i sn =>
        simp only [toEngineEvent, preState]
        exact applyUpdate_prices _ _ h.prices (fun i p hu => by cases hu)
      | cancelled i cid ok =>
        simp only [toEngineEvent, preState]
        exact applyUpdate_prices _ _ h.prices (fun i p hu => by cases hu)

theorem lStateOk_engFold (s : LEng) (hist : List LEv) (h : LStateOk s)
    (hev : ∀ ev ∈ hist, LEvOk ev ∧ LEvGuard ev) : LStateOk (engFold lEngine s hist) := by
  induction hist generalizing s with
  | nil => exact h
  | cons ev hist ih =>
    have e1 : engFold lEngine s (ev :: hist) = engFold lEngine (lStep s ev).1 hist := rfl
    rw [e1]
    exact ih _ (lStateOk_lStep s ev h (hev ev (by simp)).1 (hev ev (by simp)).2)
      (fun x hx => hev x (by simp [hx]))

/-- (no tick panics in an ok state) -/
theorem tickPanics_false (s : LEng) (ev : LEv) (h : LStateOk s) : tickPanics s ev = false := by
  cases ev with
  | account a =>
    cases a with
    | trade t =>
      simp only [tickPanics]
      cases hc : s.pos[t.instrument]? with
      | none => rfl
      | some r => exact tradePanics_false r.pm t (h.pm _ r hc)
    | _ => rfl
  | market m =>
    simp only [tickPanics]
    split
    · rfl
    · cases hc : s.pos[m.inst]? with
      | none => rfl
      | some r =>
        simp only [Option.bind_some]
        cases hp : r.pm.current with
        | none => rfl
        | some p =>
          simp only [decide_eq_false_iff_not]
          have := h.pm _ r hc p hp
          obtain ⟨h1, h2, _⟩ := this
          grind
  | _ => rfl

theorem closeRequests_ok (e : LEng) (f : Filter) (h : LStateOk e) :
    ∀ o ∈ closeRequests e.core f, 0 < o.quantity ∧ 0 < o.price := by
  intro o ho
  simp only [closeRequests, List.mem_filterMap, List.mem_filter] at ho
  obtain ⟨si, ⟨hsi, _⟩, hm⟩ := ho
  have hz := List.mem_zipIdx hsi
  have hget : e.core.instruments[si.2]? = some si.1 := by
    simp only [Nat.zero_add, Nat.sub_zero] at hz
    rw [List.getElem?_eq_getElem hz.2.1]
    exact congrArg some hz.2.2.symm
  cases hpos : si.1.position with
  | none => simp [hpos] at hm
  | some sq =>
    obtain ⟨sd, q⟩ := sq
    cases hpr : si.1.price with
    | none => simp [hpos, hpr] at hm
    | some p =>
      simp only [hpos, hpr, Option.some.injEq] at hm
      subst hm
      refine ⟨?_, h.prices si.1 (List.mem_of_getElem? hget) p hpr⟩
      -- the summary the command reads is the position manager's position
      have hs := h.sync si.2 si.1 hget
      rw [hpos] at hs
      unfold posSum at hs
      cases hr : e.pos[si.2]? with
      | none => simp [hr] at hs
      | some r =>
        simp only [hr, Option.bind_some] at hs
        cases hcur : r.pm.current with
        | none => simp [hcur] at hs
        | some pp =>
          simp only [hcur, Option.map_some, Option.some.injEq, Prod.mk.injEq] at hs
          show 0 < q
          rw [hs.2]
          exact (h.pm _ r hr pp hcur).1

theorem sendRequests_sent_sub' {β : Type} (e : Eng) (toReq : β → Req) (rs : List β) (x : β)
    (h : x ∈ (sendRequests e toReq rs).2.sent) : x ∈ rs := by
  have := (Props.C03.send_requests_partition e toReq rs).2.1
  rw [this] at h
  exact (List.mem_filter.mp h).1

theorem lOpens_ok (s : LEng) (ev : LEv) (ht : LTradesOk (tradesAfter s.trades ev)) :
    ∀ o ∈ lOpens s ev, 0 < o.quantity ∧ 0 < o.price := by
  intro o ho
  simp only [lOpens, stratOpens, List.mem_filterMap] at ho
  obtain ⟨t, htm, hr⟩ := ho
  have htm' := List.mem_of_mem_drop htm
  cases hre : t.react with
  | none => simp [hre] at hr
  | some sq =>
    simp only [hre, Option.map_some, Option.some.injEq] at hr
    subst hr
    exact ⟨(ht t htm').2 sq hre, (ht t htm').1⟩

/-- (one tick) In an ok state a guarded event makes the engine send positive requests only — the
command's own, the closing orders derived from the engine's positions, the strategy's reactions. -/
theorem lProcess_requests_ok (s : LEng) (ev : LEv) (h : LStateOk s) (hg : LEvGuard ev) :
    ∀ r ∈ (lProcess s ev).2, LReqOk r := by
  intro r hr
  rw [lProcess_requests] at hr
  cases r with
  | cnl q => trivial
  | opn o =>
    show 0 < o.quantity ∧ 0 < o.price
    have ho : o ∈ Props.C03.Audit.sentOpens (lStep s ev).2 := by
      unfold Props.C03.Audit.sentReqs at hr
      unfold Props.C03.Audit.sentOpens
      cases hc : (lStep s ev).2.commanded <;> cases hgn : (lStep s ev).2.generated <;>
        simp [hc, hgn] at hr ⊢ <;> exact hr
    obtain ⟨hc, hgen⟩ := BarterModel.Engine.process_shape s.core (toEngineEvent (posAfter s.pos ev) ev) []
      (lOpens s ev) (fun _ => false)
    rcases (Props.C03.mem_sentOpens _ o).mp ho with ⟨a, ha, hoa⟩ | ⟨g, hg', hog⟩
    · have ha : (Engine.process s.core (toEngineEvent (posAfter s.pos ev) ev) []
          (lOpens s ev) (fun _ => false)).2.commanded = some a := ha
      rw [hc] at ha
      cases ev with
      | command c =>
        simp only [toEngineEvent, BarterModel.Engine.commandedOf, Option.some.injEq] at ha
        subst ha
        cases c with
        | sendCancelRequests rs => simp [action, SendOut.empty] at hoa
        | cancelOrders f => simp [action, SendOut.empty] at hoa
        | sendOpenRequests rs =>
          simp only [action] at hoa
          exact hg o (sendRequests_sent_sub' _ _ _ _ hoa)
        | closePositions f =>
          simp only [action] at hoa
          exact closeRequests_ok s f h o (sendRequests_sent_sub' _ _ _ _ hoa)
      | shutdown => cases ha
      | trading on => cases ha
      | market m => simp only [toEngineEvent] at ha; split at ha <;> cases ha
      | account a' => cases a' <;> cases ha
    · have hg' : (Engine.process s.core (toEngineEvent (posAfter s.pos ev) ev) []
          (lOpens s ev) (fun _ => false)).2.generated = some g := hg'
      rcases hgen with ⟨hn, _⟩ | ⟨hsome, _⟩
      · rw [hn] at hg'; cases hg'
      · rw [hsome] at hg'
        injection hg' with hg'
        subst hg'
        have hsub : o ∈ lOpens s ev := by
          simp only [generateAlgoOrders] at hog
          have := sendRequests_sent_sub' _ _ _ _ hog
          exact (List.mem_filter.mp this).1
        exact lOpens_ok s ev (lTradesOk_after s.trades ev h.trades hg) o hsub

/-- (execution side) Positive requests produce positive fills. -/
theorem respond_accOk (clk : Nat → Int) (x : LExch) (r : Req) (hr : LReqOk r) :
    ∀ a ∈ (respond clk x r).2, LAccOk a := by
  intro a ha
  cases r with
  | cnl q =>
    simp only [respond, List.mem_singleton] at ha
    subst ha; trivial
  | opn q =>
    simp only [respond, List.mem_cons] at ha
    rcases ha with ha | ha
    · subst ha; trivial
    · rcases step_open_facts x.x (clk x.n) (toXReq q) with ⟨f, _, hev, _, _, _, _, _, _, _, hq, hp⟩ | ⟨_, _, hev, _⟩
      · rw [hev] at ha
        simp only [List.map_cons, List.map_nil, List.mem_cons, List.not_mem_nil, or_false] at ha
        rcases ha with ha | ha
        · subst ha; trivial
        · subst ha
          show 0 < (toPosTrade f.trade).quantity ∧ 0 < (toPosTrade f.trade).price
          simp only [toPosTrade, hq, hp]
          exact hr
      · rw [hev] at ha; simp at ha

theorem respondAll_accOk (clk : Nat → Int) (rs : List Req) (x : LExch) (hr : ∀ r ∈ rs, LReqOk r) :
    ∀ a ∈ (respondAll (lExchange clk) x rs).2, LAccOk a := by
  induction rs generalizing x with
  | nil => intro a ha; simp [respondAll] at ha
  | cons r rs ih =>
    have e : respondAll (lExchange clk) x (r :: rs) =
        ((respondAll (lExchange clk) (respond clk x r).1 rs).1,
          (respond clk x r).2 ++ (respondAll (lExchange clk) (respond clk x r).1 rs).2) := rfl
    rw [e]
    intro a ha
    rcases List.mem_append.mp ha with h | h
    · exact respond_accOk clk x r (hr r (by simp)) a h
    · exact ih _ (fun q hq => hr q (by simp [hq])) a h

/-- What the guard maintains along every schedule of the composed system. -/
structure LPosInv (s : LSys) : Prop where
  reqs : ∀ r ∈ s.requests, LReqOk r
  pend : ∀ a ∈ s.pending, LAccOk a
  feed : ∀ ev ∈ s.feed, LEvOk ev ∧ LEvGuard ev
  mkt : ∀ m ∈ s.market, MktOk m
  proc : ∀ ev ∈ s.processed, LEvOk ev ∧ LEvGuard ev
  st : LStateOk s.eng.state

theorem lPosInv_step (clk : Nat → Int) (s : LSys) (a : Act MktEv Command) (h : LPosInv s) (ha : ActOk a) :
    LPosInv (SysHandle.step lEngine (lExchange clk) s a) := by
  cases a with
  | push m =>
    refine { h with mkt := ?_ }
    intro x hx
    simp only [SysHandle.step, stepPush, List.mem_append, List.mem_singleton] at hx
    rcases hx with hx | hx
    · exact h.mkt x hx
    · subst hx; exact ha
  | fwdMarket =>
    simp only [SysHandle.step, stepFwdMarket]
    cases hm : s.market with
    | nil => exact h
    | cons m ms =>
      simp only
      split
      · exact { h with mkt := by intro x hx; simp at hx }
      · refine { h with feed := ?_, mkt := ?_ }
        · intro x hx
          simp only [List.mem_append, List.mem_singleton] at hx
          rcases hx with hx | hx
          · exact h.feed x hx
          · subst hx; exact ⟨trivial, h.mkt m (by rw [hm]; simp)⟩
        · intro x hx; exact h.mkt x (by rw [hm]; simp [hx])
  | fwdAccount k =>
    simp only [SysHandle.step, stepFwdAccount]
    cases hp : s.pending[k]? with
    | none => exact h
    | some a =>
      have hmem : a ∈ s.pending := List.mem_of_getElem? hp
      have hsub : ∀ x ∈ s.pending.eraseIdx k, LAccOk x := fun x hx => h.pend x (List.mem_of_mem_eraseIdx hx)
      simp only
      split
      · exact { h with pend := hsub }
      · refine { h with pend := hsub, feed := ?_ }
        intro x hx
        simp only [List.mem_append, List.mem_singleton] at hx
        rcases hx with hx | hx
        · exact h.feed x hx
        · subst hx; exact ⟨h.pend a hmem, trivial⟩
  | call c =>
    simp only [SysHandle.step, stepCall, send]
    split
    · exact h
    · split
      · exact { h with }
      · refine { h with feed := ?_ }
        intro x hx
        simp only [List.mem_append, List.mem_singleton] at hx
        rcases hx with hx | hx
        · exact h.feed x hx
        · subst hx
          cases c with
          | tradingState on => exact ⟨trivial, trivial⟩
          | command c =>
            cases c with
            | sendOpenRequests rs => exact ⟨trivial, ha⟩
            | sendCancelRequests rs => exact ⟨trivial, trivial⟩
            | closePositions f => exact ⟨trivial, trivial⟩
            | cancelOrders f => exact ⟨trivial, trivial⟩
  | close how =>
    simp only [SysHandle.step, stepClose, send]
    split
    · exact h
    · split
      · exact { h with }
      · refine { h with feed := ?_ }
        intro x hx
        simp only [List.mem_append, List.mem_singleton] at hx
        rcases hx with hx | hx
        · exact h.feed x hx
        · subst hx; exact ⟨trivial, trivial⟩
  | takeAudit =>
    simp only [SysHandle.step, stepTakeAudit]
    split
    · exact h
    · exact { h with }
  | engine =>
    simp only [SysHandle.step, stepEngine]
    split
    · exact h
    · cases hf : s.feed with
      | nil => exact h
      | cons e rest =>
        have he := h.feed e (by rw [hf]; simp)
        have hreq : ∀ r ∈ (lProcess s.eng.state e).2, LReqOk r :=
          lProcess_requests_ok s.eng.state e h.st he.2
        have hacc := respondAll_accOk clk (lProcess s.eng.state e).2 s.exch hreq
        exact
          { reqs := by
              intro r hr
              rcases List.mem_append.mp hr with hr | hr
              · exact h.reqs r hr
              · exact hreq r hr
            pend := by
              intro a ha'
              rcases List.mem_append.mp ha' with ha' | ha'
              · exact h.pend a ha'
              · exact hacc a ha'
            feed := fun x hx => h.feed x (by rw [hf]; simp [hx])
            mkt := h.mkt
            proc := by
              intro x hx
              simp only [List.mem_append, List.mem_singleton] at hx
              rcases hx with hx | hx
              · exact h.proc x hx
              · subst hx; exact he
            st := lStateOk_lStep s.eng.state e h.st he.1 he.2 }

theorem lPosInv_run (clk : Nat → Int) (acts : List (Act MktEv Command)) (s : LSys) (h : LPosInv s)
    (ha : PosOps acts) : LPosInv (run lEngine (lExchange clk) s acts) := by
  induction acts generalizing s with
  | nil => exact h
  | cons a acts ih =>
    exact ih _ (lPosInv_step clk s a h (ha a (by simp))) (fun x hx => ha x (by simp [hx]))

end Guard

/-! ## R. The composed model refines the ops-level specification (`OpsSpec`) -/

section OpsRefine
open BarterModel.Engine

theorem sendRequests_all_ok {β : Type} (e : Eng) (toReq : β → Req) (rs : List β)
    (h : ∀ r ∈ rs, linkResult e.links (toReq r).key.exchange = none) :
    (sendRequests e toReq rs).2.sent = rs ∧ (sendRequests e toReq rs).2.errors = [] := by
  simp only [sendRequests]
  refine ⟨List.filter_eq_self.mpr (fun r hr => by simp [h r hr]), ?_⟩
  rw [List.filterMap_eq_nil_iff]
  intro r hr
  simp [h r hr]

theorem linkResult_healthy0 (links : List Link) (h : links = [.healthy]) : linkResult links 0 = none := by
  subst h; rfl

/-- what a tick's audit reports as sent by the command -/
def cmdSent : Option ActionOut → List Req
  | some c => c.cancels.sent.map Req.cnl ++ c.opens.sent.map Req.opn
  | none => []

/-- generation stage with healthy link and a strategy that only addresses exchange 0 -/
theorem generateStage_sent (e : Eng) (cmd : Option ActionOut) (os : List OpenReq)
    (hl : e.links = [.healthy]) (hos : ∀ o ∈ os, o.key.exchange = 0) :
    Props.C03.Audit.sentReqs (generateStage e cmd [] os (fun _ => false)).2 =
      cmdSent cmd ++ (if e.enabled then os.map Req.opn else []) ∧
    (generateStage e cmd [] os (fun _ => false)).2.generated.isSome = e.enabled := by
  unfold generateStage
  cases he : e.enabled with
  | false =>
    simp only [Bool.false_eq_true, ↓reduceIte]
    refine ⟨?_, rfl⟩
    unfold Props.C03.Audit.sentReqs cmdSent
    cases cmd <;> simp
  | true =>
    simp only [↓reduceIte]
    refine ⟨?_, rfl⟩
    have hok : ∀ r ∈ os.filter (fun r => !(fun _ : Key => false) r.key),
        linkResult (sendRequests e Req.cnl ([] : List CancelReq)).1.links (Req.opn r).key.exchange = none := by
      intro r hr
      have hr' := (List.mem_filter.mp hr).1
      show linkResult e.links r.key.exchange = none
      rw [hos r hr']; exact linkResult_healthy0 _ hl
    have hfil : os.filter (fun r => !(fun _ : Key => false) r.key) = os :=
      List.filter_eq_self.mpr (fun _ _ => rfl)
    have hsent := (sendRequests_all_ok (sendRequests e Req.cnl ([] : List CancelReq)).1 Req.opn _ hok).1
    unfold Props.C03.Audit.sentReqs cmdSent
    simp only [generateAlgoOrders, List.filter_nil]
    rw [hsent, hfil]
    cases cmd <;> simp [sendRequests]

/-- link between an engine state of the composed model and a state of the ops-level specification -/
structure SLink (e : LEng) (st : OpsSpec.St) : Prop where
  trading : e.core.enabled = st.trading
  links : e.core.links = [.healthy]
  le : e.answered ≤ e.trades.length
  un : e.trades.drop e.answered = st.unanswered
  settled : st.trading = true → st.unanswered = []
  exch : ∀ (j : Nat) (st' : Instr), e.core.instruments[j]? = some st' → st'.exchange = 0

theorem filterMap_congr' {α β : Type} (l : List α) (f g : α → Option β) (h : ∀ x ∈ l, f x = g x) :
    l.filterMap f = l.filterMap g := by
  induction l with
  | nil => rfl
  | cons x xs ih =>
    simp only [List.filterMap_cons, h x (by simp)]
    rw [ih (fun y hy => h y (by simp [hy]))]

theorem lOpens_eq (e : LEng) (ev : LEv) (hx : ∀ (j : Nat) (st' : Instr), e.core.instruments[j]? = some st' → st'.exchange = 0) :
    (lOpens e ev).map Req.opn = ((tradesAfter e.trades ev).drop e.answered).filterMap OpsSpec.reaction := by
  simp only [lOpens, stratOpens, List.map_filterMap]
  apply filterMap_congr'
  intro t _
  cases hr : t.react with
  | none => simp [OpsSpec.reaction, hr]
  | some sq =>
    have : (e.core.instruments[t.inst]?.map (·.exchange)).getD 0 = 0 := by
      cases hi : e.core.instruments[t.inst]? with
      | none => rfl
      | some st' => simp [hx _ st' hi]
    simp [OpsSpec.reaction, hr, this]

theorem lOpens_exch (e : LEng) (ev : LEv) (hx : ∀ (j : Nat) (st' : Instr), e.core.instruments[j]? = some st' → st'.exchange = 0) :
    ∀ o ∈ lOpens e ev, o.key.exchange = 0 := by
  intro o ho
  simp only [lOpens, stratOpens, List.mem_filterMap] at ho
  obtain ⟨t, _, hr⟩ := ho
  cases hre : t.react with
  | none => simp [hre] at hr
  | some sq =>
    simp only [hre, Option.map_some, Option.some.injEq] at hr
    subst hr
    cases hi : e.core.instruments[t.inst]? with
    | none => rfl
    | some st' => simp [hx _ st' hi]

theorem generateStage_exch (e : Eng) (cmd : Option ActionOut) (os : List OpenReq) (rf : Key → Bool)
    (h : ∀ (j : Nat) (i : Instr), e.instruments[j]? = some i → i.exchange = 0) :
    ∀ (j : Nat) (i : Instr), (generateStage e cmd [] os rf).1.instruments[j]? = some i → i.exchange = 0 := by
  intro j i hi
  have hs := generateStage_static e cmd os rf j
  rw [hi] at hs
  cases hc : e.instruments[j]? with
  | none => rw [hc] at hs; cases hs
  | some i0 =>
    rw [hc] at hs
    simp only [Option.map_some, Option.some.injEq] at hs
    have := congrArg (fun t : Nat × Nat × Nat × Option (Side × Rat) × Option Rat => t.1) hs
    simp only [Instr.static] at this
    rw [this]; exact h j i0 hc

theorem action_exch (e : Eng) (c : Command)
    (h : ∀ (j : Nat) (i : Instr), e.instruments[j]? = some i → i.exchange = 0) :
    ∀ (j : Nat) (i : Instr), (action e c).1.instruments[j]? = some i → i.exchange = 0 := by
  intro j i hi
  have hs := action_static e c j
  rw [hi] at hs
  cases hc : e.instruments[j]? with
  | none => rw [hc] at hs; cases hs
  | some i0 =>
    rw [hc] at hs
    simp only [Option.map_some, Option.some.injEq] at hs
    have := congrArg (fun t : Nat × Nat × Nat × Option (Side × Rat) × Option Rat => t.1) hs
    simp only [Instr.static] at this
    rw [this]; exact h j i0 hc

theorem applyUpdate_exch (e : Eng) (u : Update)
    (h : ∀ (j : Nat) (i : Instr), e.instruments[j]? = some i → i.exchange = 0) :
    ∀ (j : Nat) (i : Instr), (applyUpdate e u).instruments[j]? = some i → i.exchange = 0 := by
  have key : ∀ (k : Nat) (f : Instr → Instr), (∀ s, (f s).exchange = s.exchange) →
      ∀ (j : Nat) (i : Instr), (modifyInstr e.instruments k f)[j]? = some i → i.exchange = 0 := by
    intro k f hf j i hi
    unfold modifyInstr at hi
    cases hc : e.instruments[k]? with
    | none => simp only [hc] at hi; exact h j i hi
    | some s0 =>
      simp only [hc] at hi
      by_cases hjk : j = k
      · subst hjk
        have hlt : j < e.instruments.length := (List.getElem?_eq_some_iff.mp hc).1
        rw [List.getElem?_set_self hlt] at hi
        injection hi with hi
        rw [← hi, hf]; exact h j s0 hc
      · rw [List.getElem?_set_ne (Ne.symm hjk)] at hi
        exact h j i hi
  cases u with
  | order k op => exact key k _ (fun _ => rfl)
  | position k side q => exact key k _ (fun _ => rfl)
  | flat k => exact key k _ (fun _ => rfl)
  | price k p => exact key k _ (fun _ => rfl)
  | other => exact h

/-- the common tail of a tick: the generation stage from a state `pre` that agrees with the
specification's book -/
theorem slink_generate (s : LEng) (ev : LEv) (pre : Eng) (cmd : Option ActionOut) (st' : OpsSpec.St)
    (hproc : Engine.process s.core (toEngineEvent (posAfter s.pos ev) ev) [] (lOpens s ev) (fun _ => false) =
      generateStage pre cmd [] (lOpens s ev) (fun _ => false))
    (hlinks : pre.links = [.healthy]) (hen : pre.enabled = st'.trading)
    (hexch : ∀ (j : Nat) (i : Instr), pre.instruments[j]? = some i → i.exchange = 0)
    (hx : ∀ (j : Nat) (i : Instr), s.core.instruments[j]? = some i → i.exchange = 0)
    (hun : (tradesAfter s.trades ev).drop s.answered = st'.unanswered)
    (hle : s.answered ≤ (tradesAfter s.trades ev).length) :
    (lProcess s ev).2 = (OpsSpec.consult st' (cmdSent cmd)).2 ∧
    SLink (lProcess s ev).1 (OpsSpec.consult st' (cmdSent cmd)).1 := by
  have hsent := generateStage_sent pre cmd (lOpens s ev) hlinks (lOpens_exch s ev hx)
  have hfr := frame_generateStage pre cmd [] (lOpens s ev) (fun _ => false)
  have hreq : (lProcess s ev).2 = Props.C03.Audit.sentReqs
      (generateStage pre cmd [] (lOpens s ev) (fun _ => false)).2 := by
    rw [lProcess_requests]; show Props.C03.Audit.sentReqs (Engine.process _ _ _ _ _).2 = _; rw [hproc]
  have hcore : (lProcess s ev).1.core = (generateStage pre cmd [] (lOpens s ev) (fun _ => false)).1 := by
    show (Engine.process _ _ _ _ _).1 = _; rw [hproc]
  have hans : (lProcess s ev).1.answered =
      if pre.enabled then (tradesAfter s.trades ev).length else s.answered := by
    show (if (Engine.process _ _ _ _ _).2.generated.isSome then _ else _) = _
    rw [hproc, hsent.2]
  have htr : (lProcess s ev).1.trades = tradesAfter s.trades ev := rfl
  rw [hreq, hsent.1, lOpens_eq s ev hx, hun]
  unfold OpsSpec.consult
  rw [hen] at hans ⊢
  cases ht : st'.trading with
  | true =>
    simp only [↓reduceIte]
    refine ⟨trivial, ?_⟩
    exact
      { trading := by rw [hcore, hfr.1, hen, ht]
        links := by rw [hcore, hfr.2.2, hlinks]
        le := by rw [hans, htr, ht]; simp
        un := by rw [hans, htr, ht]; simp
        settled := fun _ => rfl
        exch := by rw [hcore]; exact generateStage_exch pre cmd _ _ hexch }
  | false =>
    simp only [Bool.false_eq_true, ↓reduceIte, List.append_nil]
    refine ⟨trivial, ?_⟩
    exact
      { trading := by rw [hcore, hfr.1, hen, ht]
        links := by rw [hcore, hfr.2.2, hlinks]
        le := by rw [hans, htr, ht]; simpa using hle
        un := by rw [hans, htr, ht]; simpa using hun
        settled := fun h => by rw [ht] at h; cases h
        exch := by rw [hcore]; exact generateStage_exch pre cmd _ _ hexch }

theorem drop_snoc_le {α : Type} (l : List α) (x : α) (n : Nat) (h : n ≤ l.length) :
    (l ++ [x]).drop n = l.drop n ++ [x] := by
  rw [List.drop_append]
  have : n - l.length = 0 := by omega
  rw [this]; rfl

/-- (script events) One tick on a handle or market event of the class `DetEv`: the engine sends
exactly what the ops-level specification says, and stays linked to the specification's book. -/
theorem slink_script (k : Nat) (s : LEng) (st : OpsSpec.St) (ev : LEv) (h : SLink s st)
    (hd : OpsSpec.DetEv k ev = true) (hna : ∀ a, ev ≠ .account a) :
    (lProcess s ev).2 = (OpsSpec.step st ev).2 ∧ SLink (lProcess s ev).1 (OpsSpec.step st ev).1 := by
  cases ev with
  | account a => exact absurd rfl (hna a)
  | shutdown =>
    refine ⟨?_, ?_⟩
    · rw [lProcess_requests]; rfl
    · exact { trading := h.trading, links := h.links, le := h.le, un := h.un, settled := h.settled, exch := h.exch }
  | trading on =>
    have hpre : (updateTradingState s.core on).enabled = on ∧ (updateTradingState s.core on).links = s.core.links ∧
        (updateTradingState s.core on).instruments = s.core.instruments := by
      unfold updateTradingState
      split
      · rename_i hc
        simp only [Bool.and_eq_true, Bool.not_eq_true'] at hc
        exact ⟨hc.2.symm, rfl, rfl⟩
      · exact ⟨rfl, rfl, rfl⟩
    exact slink_generate s (.trading on) (updateTradingState s.core on) none { st with trading := on } rfl
      (by rw [hpre.2.1]; exact h.links) hpre.1 (by rw [hpre.2.2]; exact h.exch) h.exch h.un h.le
  | market m =>
    have hpre := frame_applyUpdate s.core
    by_cases hm : m.marker = true
    · have hev : toEngineEvent (posAfter s.pos (.market m)) (.market m) = .update .other := by
        simp [toEngineEvent, hm]
      have := slink_generate s (.market m) (applyUpdate s.core .other) none
        { st with unanswered := if m.marker then st.unanswered else st.unanswered ++ [m] }
        (by rw [hev]; rfl) h.links h.trading h.exch h.exch
        (by simp only [tradesAfter, hm, ↓reduceIte]; exact h.un)
        (by simp only [tradesAfter, hm, ↓reduceIte]; exact h.le)
      exact this
    · have hev : toEngineEvent (posAfter s.pos (.market m)) (.market m) = .update (.price m.inst m.price) := by
        simp [toEngineEvent, hm]
      have := slink_generate s (.market m) (applyUpdate s.core (.price m.inst m.price)) none
        { st with unanswered := if m.marker then st.unanswered else st.unanswered ++ [m] }
        (by rw [hev]; rfl) (by rw [(hpre _).2.2]; exact h.links) (by rw [(hpre _).1]; exact h.trading)
        (applyUpdate_exch _ _ h.exch) h.exch
        (by simp only [tradesAfter, hm, Bool.false_eq_true, ↓reduceIte]
            rw [drop_snoc_le _ _ _ h.le, h.un])
        (by simp only [tradesAfter, hm, Bool.false_eq_true, ↓reduceIte, List.length_append]; have := h.le; omega)
      exact this
  | command c =>
    cases c with
    | closePositions f => simp [OpsSpec.DetEv] at hd
    | cancelOrders f => simp [OpsSpec.DetEv] at hd
    | sendOpenRequests rs =>
      simp only [OpsSpec.DetEv, List.all_eq_true, Bool.and_eq_true, beq_iff_eq, decide_eq_true_eq] at hd
      have hok : ∀ r ∈ rs, linkResult s.core.links (Req.opn r).key.exchange = none := by
        intro r hr
        show linkResult s.core.links r.key.exchange = none
        rw [(hd r hr).1]; exact linkResult_healthy0 _ h.links
      have hs := sendRequests_all_ok s.core Req.opn rs hok
      have hact : (action s.core (.sendOpenRequests rs)).2 = ⟨SendOut.empty, (sendRequests s.core Req.opn rs).2⟩ := rfl
      have hnf : (action s.core (.sendOpenRequests rs)).2.fatal = false := by
        rw [hact]; simp [ActionOut.fatal, SendOut.fatal, SendOut.empty, hs.2]
      have hfr := frame_action s.core (.sendOpenRequests rs)
      have hcmd : cmdSent (some (action s.core (.sendOpenRequests rs)).2) = rs.map Req.opn := by
        rw [hact]; simp [cmdSent, SendOut.empty, hs.1]
      have := slink_generate s (.command (.sendOpenRequests rs)) (action s.core (.sendOpenRequests rs)).1
        (some (action s.core (.sendOpenRequests rs)).2) st
        (by simp only [toEngineEvent, Engine.process, hnf]; rfl)
        (by rw [hfr.2.2]; exact h.links) (by rw [hfr.1]; exact h.trading)
        (action_exch _ _ h.exch) h.exch h.un h.le
      rw [hcmd] at this
      exact this
    | sendCancelRequests rs =>
      simp only [OpsSpec.DetEv, List.all_eq_true, Bool.and_eq_true, beq_iff_eq, decide_eq_true_eq] at hd
      have hok : ∀ r ∈ rs, linkResult s.core.links (Req.cnl r).key.exchange = none := by
        intro r hr
        show linkResult s.core.links r.key.exchange = none
        rw [(hd r hr).1]; exact linkResult_healthy0 _ h.links
      have hs := sendRequests_all_ok s.core Req.cnl rs hok
      have hact : (action s.core (.sendCancelRequests rs)).2 = ⟨(sendRequests s.core Req.cnl rs).2, SendOut.empty⟩ := rfl
      have hnf : (action s.core (.sendCancelRequests rs)).2.fatal = false := by
        rw [hact]; simp [ActionOut.fatal, SendOut.fatal, SendOut.empty, hs.2]
      have hfr := frame_action s.core (.sendCancelRequests rs)
      have hcmd : cmdSent (some (action s.core (.sendCancelRequests rs)).2) = rs.map Req.cnl := by
        rw [hact]; simp [cmdSent, SendOut.empty, hs.1]
      have := slink_generate s (.command (.sendCancelRequests rs)) (action s.core (.sendCancelRequests rs)).1
        (some (action s.core (.sendCancelRequests rs)).2) st
        (by simp only [toEngineEvent, Engine.process, hnf]; rfl)
        (by rw [hfr.2.2]; exact h.links) (by rw [hfr.1]; exact h.trading)
        (action_exch _ _ h.exch) h.exch h.un h.le
      rw [hcmd] at this
      exact this

/-- (account events) The exchange's answers make the engine send nothing: the strategy has nothing
left to answer whenever it is consulted. -/
theorem slink_account (s : LEng) (st : OpsSpec.St) (a : AccEv) (h : SLink s st) :
    (lProcess s (.account a)).2 = [] ∧ SLink (lProcess s (.account a)).1 st := by
  have hpre := frame_applyUpdate s.core
  obtain ⟨u, hu⟩ : ∃ u, toEngineEvent (posAfter s.pos (.account a)) (.account a) = .update u := by
    cases a <;> exact ⟨_, rfl⟩
  have := slink_generate s (.account a) (applyUpdate s.core u) none st
    (by rw [hu]; rfl) (by rw [(hpre u).2.2]; exact h.links) (by rw [(hpre u).1]; exact h.trading)
    (applyUpdate_exch _ _ h.exch) h.exch h.un h.le
  obtain ⟨tr, un⟩ := st
  unfold OpsSpec.consult cmdSent at this
  cases tr with
  | false =>
    simp only [Bool.false_eq_true, ↓reduceIte] at this
    exact this
  | true =>
    have hun : un = [] := h.settled rfl
    subst hun
    simp only [↓reduceIte, List.filterMap_nil, List.append_nil] at this
    exact this

/-- (a whole history) Along any processed history whose script events are all in the class `DetEv`,
the requests the engine sends are exactly those the ops-level specification derives from the script. -/
theorem requestsOf_refines (k : Nat) (hist : List LEv) (e : Eng LEng) (st : OpsSpec.St)
    (h : SLink e.state st) (hd : OpsSpec.Det k (OpsSpec.scriptOf hist)) :
    requestsOf lEngine e hist = (OpsSpec.run st (OpsSpec.scriptOf hist)).2 := by
  induction hist generalizing e st with
  | nil => rfl
  | cons ev hist ih =>
    simp only [requestsOf, processWithAudit]
    by_cases hacc : ∃ a, ev = .account a
    · obtain ⟨a, rfl⟩ := hacc
      have hs : OpsSpec.scriptOf (.account a :: hist) = OpsSpec.scriptOf hist := by
        simp [OpsSpec.scriptOf]
      obtain ⟨h1, h2⟩ := slink_account e.state st a h
      rw [hs] at hd ⊢
      have := ih ⟨(lProcess e.state (.account a)).1, e.seq + 1⟩ st h2 hd
      show (lProcess e.state (.account a)).2 ++ _ = _
      rw [h1, List.nil_append]; exact this
    · have hna : ∀ a, ev ≠ .account a := fun a he => hacc ⟨a, he⟩
      have hs : OpsSpec.scriptOf (ev :: hist) = ev :: OpsSpec.scriptOf hist := by
        cases ev with
        | account a => exact absurd rfl (hna a)
        | _ => simp [OpsSpec.scriptOf]
      rw [hs] at hd ⊢
      obtain ⟨h1, h2⟩ := slink_script k e.state st ev h (hd ev (by simp)) hna
      have := ih ⟨(lProcess e.state ev).1, e.seq + 1⟩ (OpsSpec.step st ev).1 h2
        (fun x hx => hd x (by simp [hx]))
      show (lProcess e.state ev).2 ++ requestsOf lEngine ⟨(lProcess e.state ev).1, e.seq + 1⟩ hist = _
      rw [h1, this]; rfl

end OpsRefine

/-! ## T. The trade-log half of the exchange invariant needs no clock hypothesis -/

/-- (clock-free part of the exchange invariant) the fills notified so far are the exchange's trade log -/
theorem respond_trades_inv (clk : Nat → Int) (x : LExch) (r : Req) (P : List AccEv)
    (h : tradesOf P = x.x.trades.map toPosTrade) :
    tradesOf (P ++ (respond clk x r).2) = (respond clk x r).1.x.trades.map toPosTrade := by
  rw [tradesOf_append, h]
  cases r with
  | cnl q =>
    show _ ++ tradesOf [AccEv.cancelled _ _ _] = (MockExchange.step x.x (clk x.n) .cancelOrder).1.trades.map toPosTrade
    simp [tradesOf, MockExchange.step, MockExchange.updateTime]
  | opn q =>
    show _ ++ tradesOf (orderResponse q _ :: (MockExchange.step x.x (clk x.n) (.openOrder (toXReq q))).2.2.map notif) =
      (MockExchange.step x.x (clk x.n) (.openOrder (toXReq q))).1.trades.map toPosTrade
    rcases step_open_facts x.x (clk x.n) (toXReq q) with ⟨f, _, hev, htr, _⟩ | ⟨_, _, hev, htr, _⟩
    · rw [hev, htr]; simp [tradesOf, orderResponse, notif]
    · rw [hev, htr]; simp [tradesOf, orderResponse]

theorem respondAll_trades_inv (clk : Nat → Int) (rs : List Req) (x : LExch) (P : List AccEv)
    (h : tradesOf P = x.x.trades.map toPosTrade) :
    tradesOf (P ++ (respondAll (lExchange clk) x rs).2) =
      (respondAll (lExchange clk) x rs).1.x.trades.map toPosTrade := by
  induction rs generalizing x P with
  | nil => simpa [respondAll] using h
  | cons r rs ih =>
    have e : respondAll (lExchange clk) x (r :: rs) =
        ((respondAll (lExchange clk) (respond clk x r).1 rs).1,
          (respond clk x r).2 ++ (respondAll (lExchange clk) (respond clk x r).1 rs).2) := rfl
    rw [e]
    simp only
    rw [← List.append_assoc]
    exact ih _ _ (respond_trades_inv clk x r P h)

end BarterModel.TradingLoop
