import BarterModel.Model.BookManager
import BarterModel.Lemmas.Book
/-! Lemmas about `Model/BookManager.lean`; used by `Props/C05M.lean`. -/
namespace BarterModel.BookManager
open BarterModel.Book

/-- `g` is partitioned on `[0, n)`: `Less* Equal* Greater*`. -/
def Partitioned (g : Nat → Ordering) (n : Nat) : Prop :=
  ∀ i j, i ≤ j → j < n → (g i = .gt → g j = .gt) ∧ (g j = .lt → g i = .lt)

theorem bsLoop_spec (g : Nat → Ordering) (n : Nat) (hp : Partitioned g n) (base size : Nat)
    (hs : 1 ≤ size) (hbn : base + size ≤ n)
    (hA : ∀ j, base + size ≤ j → j < n → g j = .gt)
    (hB : base = 0 ∨ g base ≠ .gt) :
    let r := bsLoop g base size
    r < n ∧ (∀ j, r < j → j < n → g j = .gt) ∧ (r = 0 ∨ g r ≠ .gt) := by
  fun_induction bsLoop g base size with
  | case1 base size h ih =>
    apply ih
    · omega
    · split <;> omega
    · intro j hj hjn
      split at hj
      · rename_i hgt
        exact (hp (base + size / 2) j (by omega) hjn).1 hgt
      · exact hA j (by omega) hjn
    · split
      · exact hB
      · rename_i hgt; right; exact hgt
  | case2 base size h =>
    have : size = 1 := by omega
    subst this
    exact ⟨by omega, fun j hj hjn => hA j (by omega) hjn, hB⟩


theorem searchIdx_ok {g : Nat → Ordering} {n i : Nat} (hp : Partitioned g n) (h : searchIdx g n = .ok i) :
    i < n ∧ g i = .eq ∧ ∀ j, i < j → j < n → g j = .gt := by
  unfold searchIdx at h
  split at h
  · cases h
  · rename_i hn
    have hs := bsLoop_spec g n hp 0 n (by omega) (by omega) (fun j h1 h2 => by omega) (Or.inl rfl)
    simp only at h hs
    split at h
    · rename_i heq
      cases h
      exact ⟨hs.1, heq, hs.2.1⟩
    · cases h
    · cases h

theorem searchIdx_err {g : Nat → Ordering} {n i : Nat} (hp : Partitioned g n) (h : searchIdx g n = .err i) :
    i ≤ n ∧ (∀ j, j < i → g j = .lt) ∧ (∀ j, i ≤ j → j < n → g j = .gt) := by
  unfold searchIdx at h
  split at h
  · cases h
    rename_i hn
    exact ⟨by omega, fun j hj => by omega, fun j _ hj => by omega⟩
  · rename_i hn
    have hs := bsLoop_spec g n hp 0 n (by omega) (by omega) (fun j h1 h2 => by omega) (Or.inl rfl)
    simp only at h hs
    split at h
    · cases h
    · rename_i hlt
      cases h
      refine ⟨by omega, fun j hj => ?_, fun j hj hjn => hs.2.1 j (by omega) hjn⟩
      exact (hp j _ (by omega) hs.1).2 hlt
    · rename_i hgt
      cases h
      rcases hs.2.2 with h0 | h0
      · refine ⟨by omega, fun j hj => by omega, fun j _ hjn => ?_⟩
        rw [h0] at hgt
        exact (hp 0 j (by omega) hjn).1 hgt
      · exact absurd hgt h0


theorem Side.before_of_before_of_not_before {s : Side} {a b c : Rat}
    (h1 : s.before a b = true) (h2 : s.before c b = false) : s.before a c = true := by
  cases s <;> simp [Side.before] at * <;> grind

theorem Side.before_of_not_before_of_before {s : Side} {a b c : Rat}
    (h1 : s.before b a = false) (h2 : s.before b c = true) : s.before a c = true := by
  cases s <;> simp [Side.before] at * <;> grind

theorem wsorted_getElem {s : Side} {ls : List Level} (h : WSorted s ls) {i j : Nat} (hij : i ≤ j)
    (hj : j < ls.length) : s.before ls[j].price (ls[i]'(by omega)).price = false := by
  rcases Nat.lt_or_eq_of_le hij with hlt | heq
  · have := (List.pairwise_iff_getElem.mp h) i j (by omega) hj hlt
    simpa [Side.le] using this
  · subst heq; exact Side.before_irrefl s _

theorem getD_eq_getElem' (ls : List Level) {i : Nat} (h : i < ls.length) : ls.getD i default = ls[i] := by
  simp [List.getD_eq_getElem?_getD, List.getElem?_eq_getElem h]

theorem partitioned_of_wsorted {s : Side} {ls : List Level} (h : WSorted s ls) (p : Rat) :
    Partitioned (fun i => s.cmp (ls.getD i default).price p) ls.length := by
  intro i j hij hj
  have hi : i < ls.length := by omega
  simp only [getD_eq_getElem' ls hi, getD_eq_getElem' ls hj, Side.cmp_gt_iff, Side.cmp_lt_iff]
  have hw := wsorted_getElem h hij hj
  exact ⟨fun hg => Side.before_of_before_of_not_before hg hw,
         fun hl => Side.before_of_not_before_of_before hw hl⟩

/-- `Ok(index)` on a side in weak book order: the level at `index` has the searched price and every
later level is strictly behind it (the *last* level with that price is found). -/
theorem binarySearch_ok {s : Side} {ls : List Level} (h : WSorted s ls) {p : Rat} {i : Nat}
    (hr : binarySearchBy (fun e => s.cmp e.price p) ls = .ok i) :
    ∃ hi : i < ls.length, ls[i].price = p ∧ ∀ x ∈ ls.drop (i + 1), s.before p x.price = true := by
  obtain ⟨hi, heq, hgt⟩ := searchIdx_ok (partitioned_of_wsorted h p) hr
  refine ⟨hi, ?_, ?_⟩
  · have heq' : s.cmp (ls.getD i default).price p = .eq := heq
    rwa [getD_eq_getElem' ls hi, Side.cmp_eq_iff] at heq'
  · intro x hx
    obtain ⟨j, hj, rfl⟩ := List.mem_iff_getElem.mp hx
    simp only [List.length_drop] at hj
    simp only [List.getElem_drop]
    have := hgt (i + 1 + j) (by omega) (by omega)
    have h' : s.cmp (ls.getD (i + 1 + j) default).price p = .gt := this
    rwa [getD_eq_getElem' ls (show i + 1 + j < ls.length by omega), Side.cmp_gt_iff] at h'

/-- `Err(index)` on a side in weak book order: no level has the searched price; the levels before
`index` are strictly ahead of it, the others strictly behind. -/
theorem binarySearch_err {s : Side} {ls : List Level} (h : WSorted s ls) {p : Rat} {i : Nat}
    (hr : binarySearchBy (fun e => s.cmp e.price p) ls = .err i) :
    i ≤ ls.length ∧ (∀ x ∈ ls.take i, s.before x.price p = true) ∧
      (∀ x ∈ ls.drop i, s.before p x.price = true) := by
  obtain ⟨hi, hlt, hgt⟩ := searchIdx_err (partitioned_of_wsorted h p) hr
  refine ⟨hi, ?_, ?_⟩
  · intro x hx
    obtain ⟨j, hj, rfl⟩ := List.mem_iff_getElem.mp hx
    simp only [List.length_take] at hj
    simp only [List.getElem_take]
    have := hlt j (by omega)
    have h' : s.cmp (ls.getD j default).price p = .lt := this
    rwa [getD_eq_getElem' ls (show j < ls.length by omega), Side.cmp_lt_iff] at h'
  · intro x hx
    obtain ⟨j, hj, rfl⟩ := List.mem_iff_getElem.mp hx
    simp only [List.length_drop] at hj
    simp only [List.getElem_drop]
    have := hgt (i + j) (by omega) (by omega)
    have h' : s.cmp (ls.getD (i + j) default).price p = .gt := this
    rwa [getD_eq_getElem' ls (show i + j < ls.length by omega), Side.cmp_gt_iff] at h'


theorem insertIdx_eq_take_drop {α : Type} (l : List α) (i : Nat) (a : α) (h : i ≤ l.length) :
    l.insertIdx i a = l.take i ++ a :: l.drop i := by
  induction l generalizing i with
  | nil =>
    have : i = 0 := by simpa using h
    subst this; simp
  | cons x xs ih =>
    cases i with
    | zero => simp
    | succ i =>
      simp only [List.insertIdx_succ_cons, List.take_succ_cons, List.drop_succ_cons, List.cons_append]
      rw [ih i (by simpa using h)]

/-- The two outcomes of `upsert_single` on a side in weak book order, as list surgery. -/
theorem upsertSingleBS_cases {s : Side} {ls : List Level} (new : Level) (h : WSorted s ls) :
    (∃ i, ∃ hi : i < ls.length, ls[i].price = new.price ∧
        (∀ x ∈ ls.drop (i + 1), s.before new.price x.price = true) ∧
        upsertSingleBS s new ls =
          if new.amount = 0 then ls.take i ++ ls.drop (i + 1)
          else ls.take i ++ { ls[i] with amount := new.amount } :: ls.drop (i + 1))
    ∨ (∃ i, i ≤ ls.length ∧ (∀ x ∈ ls.take i, s.before x.price new.price = true) ∧
        (∀ x ∈ ls.drop i, s.before new.price x.price = true) ∧
        upsertSingleBS s new ls = if new.amount = 0 then ls else ls.take i ++ new :: ls.drop i) := by
  unfold upsertSingleBS
  split
  · rename_i i hr
    obtain ⟨hi, hp, hgt⟩ := binarySearch_ok h hr
    left
    refine ⟨i, hi, hp, hgt, ?_⟩
    split
    · exact List.eraseIdx_eq_take_drop_succ ls i
    · exact List.modify_eq_take_cons_drop hi
  · rename_i i hr
    obtain ⟨hi, hlt, hgt⟩ := binarySearch_err h hr
    right
    refine ⟨i, hi, hlt, hgt, ?_⟩
    split
    · rfl
    · exact insertIdx_eq_take_drop ls i new hi


theorem wsorted_of_sorted {s : Side} {ls : List Level} (h : Sorted s ls) : WSorted s ls :=
  h.imp (fun hb => by simp [Side.le, Side.before_asymm hb])

theorem upsertSingle_append_before {s : Side} (new : Level) (l r : List Level)
    (h : ∀ x ∈ l, s.before x.price new.price = true) :
    upsertSingle s new (l ++ r) = l ++ upsertSingle s new r := by
  induction l with
  | nil => rfl
  | cons x xs ih =>
    have hx : s.cmp x.price new.price = .lt := Side.cmp_lt_iff.mpr (h x (by simp))
    simp only [List.cons_append, upsertSingle, hx]
    rw [ih (fun y hy => h y (by simp [hy]))]

theorem upsertSingle_behind {s : Side} (new : Level) (r : List Level)
    (h : ∀ x ∈ r, s.before new.price x.price = true) :
    upsertSingle s new r = if new.amount = 0 then r else new :: r := by
  cases r with
  | nil => simp only [upsertSingle]
  | cons x xs =>
    have hx : s.cmp x.price new.price = .gt := Side.cmp_gt_iff.mpr (h x (by simp))
    simp only [upsertSingle, hx]

theorem split_at {ls : List Level} {i : Nat} (hi : i < ls.length) :
    ls = ls.take i ++ ls[i] :: ls.drop (i + 1) := by
  rw [List.getElem_cons_drop hi, List.take_append_drop]

/-- On a strictly ordered side the binary search and the front-to-back scan of the C05 model do the
same thing. -/
theorem upsertSingleBS_eq_scan {s : Side} {ls : List Level} (new : Level) (h : Sorted s ls) :
    upsertSingleBS s new ls = upsertSingle s new ls := by
  rcases upsertSingleBS_cases new (wsorted_of_sorted h) with ⟨i, hi, hp, _, he⟩ | ⟨i, _, hlt, hgt, he⟩
  · rw [he]
    have hbefore : ∀ x ∈ ls.take i, s.before x.price new.price = true := by
      intro x hx
      obtain ⟨j, hj, rfl⟩ := List.mem_iff_getElem.mp hx
      simp only [List.length_take] at hj
      simp only [List.getElem_take]
      rw [← hp]
      exact (List.pairwise_iff_getElem.mp h) j i (by omega) hi (by omega)
    conv => rhs; rw [split_at hi]
    rw [upsertSingle_append_before new _ _ hbefore]
    have hx : s.cmp ls[i].price new.price = .eq := Side.cmp_eq_iff.mpr hp
    simp only [upsertSingle, hx]
    split <;> rfl
  · rw [he]
    conv => rhs; rw [← List.take_append_drop i ls]
    rw [upsertSingle_append_before new _ _ hlt, upsertSingle_behind new _ hgt]
    split
    · exact (List.take_append_drop i ls).symm
    · rfl

theorem sorted_upsertSingleBS {s : Side} {ls : List Level} (new : Level) (h : Sorted s ls) :
    Sorted s (upsertSingleBS s new ls) := by
  rw [upsertSingleBS_eq_scan new h]; exact sorted_upsertSingle h

theorem upsertBS_eq_scan {s : Side} {ls : List Level} (us : List Level) (h : Sorted s ls) :
    upsertBS s ls us = upsert s ls us := by
  induction us generalizing ls with
  | nil => rfl
  | cons u us ih =>
    simp only [upsertBS, upsert, List.foldl_cons]
    have := ih (sorted_upsertSingleBS u h)
    simp only [upsertBS, upsert] at this
    rw [this, upsertSingleBS_eq_scan u h]


theorem wsorted_iff_prices {s : Side} {ls : List Level} :
    WSorted s ls ↔ (ls.map Level.price).Pairwise (fun a b => s.before b a = false) := by
  rw [List.pairwise_map]
  simp [WSorted, Side.le]

theorem prices_modify_amount {ls : List Level} {i : Nat} (hi : i < ls.length) (a : Rat) :
    (ls.take i ++ { ls[i] with amount := a } :: ls.drop (i + 1)).map Level.price = ls.map Level.price := by
  have h1 : (ls.take i ++ { ls[i] with amount := a } :: ls.drop (i + 1)).map Level.price
      = (ls.take i ++ ls[i] :: ls.drop (i + 1)).map Level.price := by
    simp only [List.map_append, List.map_cons]
  rw [h1, ← split_at hi]

/-- Weak book order is kept by `upsert_single` — for every side the constructors can produce. -/
theorem wsorted_upsertSingleBS {s : Side} {ls : List Level} (new : Level) (h : WSorted s ls) :
    WSorted s (upsertSingleBS s new ls) := by
  rcases upsertSingleBS_cases new h with ⟨i, hi, hp, _, he⟩ | ⟨i, _, hlt, hgt, he⟩
  · rw [he]
    split
    · refine List.Pairwise.sublist ?_ h
      rw [← List.eraseIdx_eq_take_drop_succ]
      exact List.eraseIdx_sublist ..
    · rw [wsorted_iff_prices, prices_modify_amount hi]
      exact wsorted_iff_prices.mp h
  · rw [he]
    split
    · exact h
    · have hsplit := h
      rw [← List.take_append_drop i ls] at hsplit
      obtain ⟨h1, h2, h3⟩ := List.pairwise_append.mp hsplit
      refine List.pairwise_append.mpr ⟨h1, List.pairwise_cons.mpr ⟨?_, h2⟩, ?_⟩
      · intro x hx
        simp [Side.le, Side.before_asymm (hgt x hx)]
      · intro a ha b hb
        simp only [List.mem_cons] at hb
        rcases hb with hb | hb
        · subst hb; simp [Side.le, Side.before_asymm (hlt a ha)]
        · exact h3 a ha b hb

theorem wsorted_upsertBS {s : Side} {ls : List Level} (us : List Level) (h : WSorted s ls) :
    WSorted s (upsertBS s ls us) := by
  induction us generalizing ls with
  | nil => exact h
  | cons u us ih => exact ih (wsorted_upsertSingleBS u h)

/-- The prices of a side after one `upsert_single` are, as a bag, the documented change: zero
removes one occurrence of the price if there is one, non-zero adds the price unless present. -/
theorem prices_upsertSingleBS {s : Side} {ls : List Level} (new : Level) (h : WSorted s ls) :
    ((upsertSingleBS s new ls).map Level.price).Perm (Bag.set (ls.map Level.price) new.price new.amount) := by
  rcases upsertSingleBS_cases new h with ⟨i, hi, hp, _, he⟩ | ⟨i, _, hlt, hgt, he⟩
  · rw [he]
    have hmem : new.price ∈ ls.map Level.price := by
      rw [← hp]; exact List.mem_map.mpr ⟨ls[i], List.getElem_mem hi, rfl⟩
    unfold Bag.set
    split
    · have h1 : (ls.map Level.price).Perm (new.price :: (ls.map Level.price).erase new.price) :=
        List.perm_cons_erase hmem
      have h2 : (ls.map Level.price).Perm (new.price :: (ls.take i ++ ls.drop (i + 1)).map Level.price) := by
        conv => lhs; rw [split_at hi]
        simp only [List.map_append, List.map_cons, hp]
        exact List.perm_middle
      exact (List.Perm.cons_inv (h2.symm.trans h1))
    · rw [prices_modify_amount hi]
      simp [hmem]
  · rw [he]
    have hnot : new.price ∉ ls.map Level.price := by
      intro hm
      obtain ⟨x, hx, hxp⟩ := List.mem_map.mp hm
      rw [← List.take_append_drop i ls, List.mem_append] at hx
      rcases hx with hx | hx
      · have := hlt x hx; rw [hxp, Side.before_irrefl] at this; cases this
      · have := hgt x hx; rw [hxp, Side.before_irrefl] at this; cases this
    unfold Bag.set
    split
    · rw [List.erase_of_not_mem hnot]
    · simp only [List.contains_eq_mem, hnot, decide_false, Bool.false_eq_true, ↓reduceIte]
      conv => rhs; rw [← List.take_append_drop i ls]
      simp only [List.map_append, List.map_cons]
      exact List.perm_middle


theorem countAt_eq_count (ls : List Level) (q : Rat) : countAt ls q = (ls.map Level.price).count q := by
  simp only [countAt, List.count_eq_countP, List.countP_map]
  congr 1

theorem count_bagSet (bag : Bag) (p a q : Rat) :
    (Bag.set bag p a).count q =
      if q = p then (if a = 0 then bag.count q - 1 else max (bag.count q) 1) else bag.count q := by
  unfold Bag.set
  split
  · rw [List.count_erase]
    by_cases hq : q = p
    · subst hq; simp
    · have : (p == q) = false := by simpa using fun h => hq h.symm
      simp [hq, this]
  · split
    · rename_i hc
      by_cases hq : q = p
      · subst hq
        have : 0 < bag.count q := List.count_pos_iff.mpr (by simpa using hc)
        simp only [↓reduceIte]; omega
      · simp [hq]
    · rename_i hc
      by_cases hq : q = p
      · subst hq
        have : bag.count q = 0 := List.count_eq_zero.mpr (by simpa using hc)
        simp [this]
      · have : (p == q) = false := by simpa using fun h => hq h.symm
        simp [List.count_cons, hq, this]

/-- Number of levels stored at each price after one `upsert_single`: at the upserted price a zero
amount removes one level (if any), any other amount leaves the count alone or makes it 1; every
other price is untouched. In particular an upsert never creates a second level for a price. -/
theorem countAt_upsertSingleBS {s : Side} {ls : List Level} (new : Level) (h : WSorted s ls) (q : Rat) :
    countAt (upsertSingleBS s new ls) q =
      if q = new.price then (if new.amount = 0 then countAt ls q - 1 else max (countAt ls q) 1)
      else countAt ls q := by
  rw [countAt_eq_count, (prices_upsertSingleBS new h).count_eq, count_bagSet, countAt_eq_count]


/-! ## constructors -/

theorem wsorted_sortLevels (s : Side) (ls : List Level) : WSorted s (sortLevels s ls) :=
  List.pairwise_mergeSort (Side.le_trans' s) (Side.le_total' s) ls

theorem sortLevels_of_wsorted {s : Side} {ls : List Level} (h : WSorted s ls) : sortLevels s ls = ls :=
  List.mergeSort_of_pairwise h

theorem sorted_sortLevels_iff (s : Side) (ls : List Level) :
    Sorted s (sortLevels s ls) ↔ (ls.map Level.price).Nodup := by
  constructor
  · intro h
    exact ((sortLevels_perm s ls).map Level.price).nodup_iff.mp (sorted_prices_nodup h)
  · exact sorted_sortLevels

theorem sorted_iff_wsorted_nodup {s : Side} {ls : List Level} :
    Sorted s ls ↔ WSorted s ls ∧ (ls.map Level.price).Nodup :=
  ⟨fun h => ⟨wsorted_of_sorted h, sorted_prices_nodup h⟩, fun ⟨h1, h2⟩ => sorted_of_le_nodup h1 h2⟩

theorem nonZero_sortLevels_iff (s : Side) (ls : List Level) : NonZero (sortLevels s ls) ↔ NonZero ls :=
  ⟨fun h l hl => h l ((sortLevels_perm s ls).mem_iff.mpr hl), nonZero_sortLevels⟩

theorem wsortedBook_new (seq : Nat) (te : Option Int) (bids asks : List Level) :
    WSortedBook (TBook.new seq te bids asks) :=
  ⟨wsorted_sortLevels _ _, wsorted_sortLevels _ _⟩

theorem wsortedBook_default : WSortedBook TBook.default := ⟨List.Pairwise.nil, List.Pairwise.nil⟩

theorem wsorted_take {s : Side} {ls : List Level} (h : WSorted s ls) (d : Nat) : WSorted s (ls.take d) :=
  List.Pairwise.sublist (List.take_sublist d ls) h

theorem snapshot_eq_take {b : TBook} (h : WSortedBook b) (d : Nat) :
    b.snapshot d = ⟨b.sequence, b.timeEngine, b.bids.take d, b.asks.take d⟩ := by
  simp only [TBook.snapshot, sortLevels_of_wsorted (wsorted_take h.bids d),
    sortLevels_of_wsorted (wsorted_take h.asks d)]

theorem wsortedBook_snapshot {b : TBook} (h : WSortedBook b) (d : Nat) : WSortedBook (b.snapshot d) := by
  rw [snapshot_eq_take h]; exact ⟨wsorted_take h.bids d, wsorted_take h.asks d⟩

/-! ## update -/

theorem wsortedBook_update {b : TBook} {ev : TEvent} (h : WSortedBook b)
    (hs : ∀ sn, ev = .snapshot sn → WSortedBook sn) : WSortedBook (b.update ev) := by
  cases ev with
  | snapshot sn => exact hs sn rfl
  | update u => exact ⟨wsorted_upsertBS _ h.bids, wsorted_upsertBS _ h.asks⟩

theorem wsortedBook_run {b : TBook} {evs : List TEvent} (h : WSortedBook b)
    (hs : ∀ sn, TEvent.snapshot sn ∈ evs → WSortedBook sn) : WSortedBook (b.run evs) := by
  induction evs generalizing b with
  | nil => exact h
  | cons ev evs ih =>
    simp only [TBook.run, List.foldl_cons]
    exact ih (wsortedBook_update h (fun sn he => hs sn (by simp [he]))) (fun sn he => hs sn (by simp [he]))

theorem toCore_update {b : TBook} (ev : TEvent) (h : SortedBook b.toCore) :
    (b.update ev).toCore = b.toCore.update ev.toCore := by
  cases ev with
  | snapshot sn => rfl
  | update u =>
    simp only [TBook.update, TBook.toCore, TEvent.toCore, OrderBook.update]
    have hb : Sorted .bids b.bids := h.bids
    have ha : Sorted .asks b.asks := h.asks
    rw [upsertBS_eq_scan _ hb, upsertBS_eq_scan _ ha]

theorem toCore_run {b : TBook} {evs : List TEvent} (h : SortedBook b.toCore)
    (hs : ∀ sn, TEvent.snapshot sn ∈ evs → SortedBook sn.toCore) :
    (b.run evs).toCore = b.toCore.run (evs.map TEvent.toCore) := by
  induction evs generalizing b with
  | nil => rfl
  | cons ev evs ih =>
    simp only [TBook.run, OrderBook.run, List.foldl_cons, List.map_cons]
    have h1 : SortedBook (b.update ev).toCore := by
      rw [toCore_update ev h]
      apply sortedBook_update h
      intro sn he
      cases ev with
      | snapshot s0 =>
        simp only [TEvent.toCore, Event.snapshot.injEq] at he
        subst he; exact hs s0 (by simp)
      | update u => simp [TEvent.toCore] at he
    have := ih h1 (fun sn he => hs sn (by simp [he]))
    simp only [TBook.run, OrderBook.run] at this
    rw [this, toCore_update ev h]

theorem update_fields (b : TBook) (ev : TEvent) :
    (b.update ev).sequence = ev.book.sequence ∧ (b.update ev).timeEngine = ev.book.timeEngine := by
  cases ev <;> exact ⟨rfl, rfl⟩

theorem run_fields (b : TBook) (evs : List TEvent) :
    (b.run evs).sequence = (evs.getLast?.map (·.book.sequence)).getD b.sequence ∧
    (b.run evs).timeEngine = (evs.getLast?.map (·.book.timeEngine)).getD b.timeEngine := by
  induction evs generalizing b with
  | nil => exact ⟨rfl, rfl⟩
  | cons ev evs ih =>
    simp only [TBook.run, List.foldl_cons]
    have := ih (b.update ev)
    simp only [TBook.run] at this
    rw [this.1, this.2, List.getLast?_cons]
    cases evs.getLast? with
    | none => simp [update_fields]
    | some e => simp

theorem run_append (b : TBook) (e1 e2 : List TEvent) : b.run (e1 ++ e2) = (b.run e1).run e2 := by
  simp [TBook.run, List.foldl_append]

theorem run_snapshot_resets (b s : TBook) (pre post : List TEvent) :
    b.run (pre ++ .snapshot s :: post) = s.run post := by
  rw [run_append]
  simp [TBook.run, TBook.update]

/-! ## reachable books -/

theorem reachable_wsorted {P : List Level → Prop} {b : TBook} (h : Reachable P b) : WSortedBook b := by
  induction h with
  | default => exact wsortedBook_default
  | new seq te bids asks _ _ => exact wsortedBook_new ..
  | snapshotEvent seq te bids asks _ _ _ _ => exact wsortedBook_new ..
  | updateEvent seq te bids asks _ ih => exact wsortedBook_update ih (fun _ he => by cases he)
  | depthSnapshot d _ ih => exact wsortedBook_snapshot ih d

theorem wfBook_new_clean {seq : Nat} {te : Option Int} {bids asks : List Level}
    (hb : CleanInput bids) (ha : CleanInput asks) : WFBook (TBook.new seq te bids asks).toCore :=
  wfBook_new hb.1 ha.1 hb.2 ha.2

theorem reachable_clean_wf {b : TBook} (h : Reachable CleanInput b) : WFBook b.toCore := by
  induction h with
  | default => exact wfBook_default
  | new seq te bids asks hb ha => exact wfBook_new_clean hb ha
  | snapshotEvent seq te bids asks _ hb ha _ => exact wfBook_new_clean hb ha
  | updateEvent seq te bids asks _ ih =>
    rw [toCore_update _ ih.toSortedBook]
    exact wfBook_update ih (fun _ he => by cases he)
  | depthSnapshot d hr ih =>
    rename_i b0
    have hw : WSortedBook b0 := ⟨wsorted_of_sorted ih.bids, wsorted_of_sorted ih.asks⟩
    rw [snapshot_eq_take hw]
    exact { bids := sorted_take ih.bids d, asks := sorted_take ih.asks d,
            bidsNonZero := fun l hl => ih.bidsNonZero l (List.mem_of_mem_take hl),
            asksNonZero := fun l hl => ih.asksNonZero l (List.mem_of_mem_take hl) }


/-! ## `OrderBookMap` -/

theorem lookup_filter_ne (books : List (Nat × Nat)) (k k' : Nat) :
    (books.filter (fun e => e.1 != k)).lookup k' = if k' = k then none else books.lookup k' := by
  induction books with
  | nil => simp
  | cons e es ih =>
    obtain ⟨ek, ec⟩ := e
    simp only [List.filter_cons]
    by_cases hek : ek = k
    · subst hek
      simp only [bne_self_eq_false, Bool.false_eq_true, ↓reduceIte, ih, List.lookup_cons]
      by_cases hk : k' = ek
      · simp [hk]
      · have : (k' == ek) = false := by simpa using hk
        simp [hk, this]
    · have : (ek != k) = true := by simpa using hek
      simp only [this, ↓reduceIte, List.lookup_cons, ih]
      by_cases hk : k' = ek
      · subst hk; simp [hek]
      · have : (k' == ek) = false := by simpa using hk
        simp [this]

theorem lookup_hashInsert (books : List (Nat × Nat)) (k c k' : Nat) :
    (hashInsert books k c).lookup k' = if k' = k then some c else books.lookup k' := by
  simp only [hashInsert, List.lookup_cons, lookup_filter_ne]
  by_cases hk : k' = k
  · simp [hk]
  · have : (k' == k) = false := by simpa using hk
    simp [hk, this]

theorem keys_hashInsert_nodup {books : List (Nat × Nat)} (h : (books.map (·.1)).Nodup) (k c : Nat) :
    ((hashInsert books k c).map (·.1)).Nodup := by
  simp only [hashInsert, List.map_cons, List.nodup_cons]
  refine ⟨?_, List.Nodup.sublist ((List.filter_sublist).map _) h⟩
  simp only [List.mem_map, List.mem_filter]
  rintro ⟨e, ⟨_, he⟩, hk⟩
  simp [hk] at he

theorem mem_keys_hashInsert (books : List (Nat × Nat)) (k c k' : Nat) :
    k' ∈ (hashInsert books k c).map (·.1) ↔ k' = k ∨ k' ∈ books.map (·.1) := by
  simp only [hashInsert, List.map_cons, List.mem_cons, List.mem_map, List.mem_filter]
  constructor
  · rintro (h | ⟨e, ⟨he, _⟩, rfl⟩)
    · exact Or.inl h
    · exact Or.inr ⟨e, he, rfl⟩
  · rintro (h | ⟨e, he, rfl⟩)
    · exact Or.inl h
    · by_cases hk : e.1 = k
      · exact Or.inl hk
      · exact Or.inr ⟨e, ⟨he, by simpa using hk⟩, rfl⟩

theorem lookup_isSome_iff_mem_keys (books : List (Nat × Nat)) (k : Nat) :
    (books.lookup k).isSome ↔ k ∈ books.map (·.1) := by
  induction books with
  | nil => simp
  | cons e es ih =>
    obtain ⟨ek, ec⟩ := e
    simp only [List.lookup_cons, List.map_cons, List.mem_cons]
    by_cases hk : k = ek
    · simp [hk]
    · have : (k == ek) = false := by simpa using hk
      simp [this, ih, hk]

/-- the pairs collected into the hash map: the last pair of a key wins -/
theorem foldl_hashInsert_lookup (acc pairs : List (Nat × Nat)) (k : Nat) :
    (pairs.foldl (fun acc kc => hashInsert acc kc.1 kc.2) acc).lookup k =
      (pairs.reverse.lookup k <|> acc.lookup k) := by
  induction pairs generalizing acc with
  | nil => simp
  | cons p ps ih =>
    simp only [List.foldl_cons, ih, lookup_hashInsert, List.reverse_cons]
    rw [List.lookup_append]
    obtain ⟨pk, pc⟩ := p
    by_cases hk : k = pk
    · subst hk
      cases ps.reverse.lookup k <;> simp
    · have : (k == pk) = false := by simpa using hk
      cases ps.reverse.lookup k <;> simp [hk, this]

theorem foldl_hashInsert_nodup (acc pairs : List (Nat × Nat)) (h : (acc.map (·.1)).Nodup) :
    ((pairs.foldl (fun acc kc => hashInsert acc kc.1 kc.2) acc).map (·.1)).Nodup := by
  induction pairs generalizing acc with
  | nil => exact h
  | cons p ps ih => exact ih _ (keys_hashInsert_nodup h _ _)


/-! ## manager -/

theorem managerStep_length (m : BookMap) (heap : Heap) (ev : TStreamEvent) :
    (managerStep m heap ev).length = heap.length := by
  cases ev with
  | reconnecting => rfl
  | item k e =>
    simp only [managerStep]
    split <;> simp

theorem managerRun_length (m : BookMap) (heap : Heap) (stream : List TStreamEvent) :
    (managerRun m heap stream).length = heap.length := by
  induction stream generalizing heap with
  | nil => rfl
  | cons ev stream ih =>
    simp only [managerRun, List.foldl_cons]
    have := ih (managerStep m heap ev)
    simp only [managerRun] at this
    rw [this, managerStep_length]

theorem managerStep_cell (m : BookMap) (heap : Heap) (ev : TStreamEvent) (c : Nat) :
    (managerStep m heap ev)[c]? = heap[c]?.map (fun b => b.run (eventsForCell m c [ev])) := by
  cases ev with
  | reconnecting => simp [managerStep, eventsForCell, TBook.run]
  | item k e =>
    simp only [managerStep, eventsForCell, List.filterMap_cons, List.filterMap_nil]
    cases hf : m.find k with
    | none => simp [TBook.run]
    | some c' =>
      simp only [List.getElem?_modify]
      by_cases hc : c' = c
      · subst hc; simp [TBook.run]
      · have : ¬ (some c' = some c) := by simpa using hc
        simp [hc, this, TBook.run]

theorem eventsForCell_cons (m : BookMap) (c : Nat) (ev : TStreamEvent) (stream : List TStreamEvent) :
    eventsForCell m c (ev :: stream) = eventsForCell m c [ev] ++ eventsForCell m c stream := by
  simp only [eventsForCell, List.filterMap_cons, List.filterMap_nil]
  split <;> simp

theorem managerRun_cell (m : BookMap) (heap : Heap) (stream : List TStreamEvent) (c : Nat) :
    (managerRun m heap stream)[c]? = heap[c]?.map (fun b => b.run (eventsForCell m c stream)) := by
  induction stream generalizing heap with
  | nil => simp [managerRun, eventsForCell, TBook.run]
  | cons ev stream ih =>
    simp only [managerRun, List.foldl_cons]
    have := ih (managerStep m heap ev)
    simp only [managerRun] at this
    rw [eventsForCell_cons m c ev stream, this, managerStep_cell]
    cases heap[c]? with
    | none => rfl
    | some b => simp [run_append]

theorem managerRun_append (m : BookMap) (heap : Heap) (s1 s2 : List TStreamEvent) :
    managerRun m heap (s1 ++ s2) = managerRun m (managerRun m heap s1) s2 := by
  simp [managerRun, List.foldl_append]

/-- an item the map resolves, i.e. one that is not skipped -/
def relevant (m : BookMap) : TStreamEvent → Bool
  | .reconnecting => false
  | .item k _ => (m.find k).isSome

theorem managerStep_irrelevant {m : BookMap} {ev : TStreamEvent} (h : relevant m ev = false) (heap : Heap) :
    managerStep m heap ev = heap := by
  cases ev with
  | reconnecting => rfl
  | item k e =>
    simp only [relevant, Option.isSome_eq_false_iff, Option.isNone_iff_eq_none] at h
    simp [managerStep, h]

theorem managerRun_filter (m : BookMap) (heap : Heap) (stream : List TStreamEvent) :
    managerRun m heap (stream.filter (relevant m)) = managerRun m heap stream := by
  induction stream generalizing heap with
  | nil => rfl
  | cons ev stream ih =>
    simp only [List.filter_cons]
    cases hr : relevant m ev with
    | true =>
      simp only [↓reduceIte, managerRun, List.foldl_cons]
      exact ih _
    | false =>
      simp only [Bool.false_eq_true, ↓reduceIte, managerRun, List.foldl_cons, managerStep_irrelevant hr]
      exact ih _

/-- when `k` is the only key of the stream that resolves to cell `c`, the cell's events are the
events addressed to `k` -/
theorem eventsForCell_eq_eventsForKey {m : BookMap} {c k : Nat} (hk : m.find k = some c)
    (stream : List TStreamEvent)
    (hinj : ∀ k' ev, TStreamEvent.item k' ev ∈ stream → m.find k' = some c → k' = k) :
    eventsForCell m c stream = eventsForKey k stream := by
  induction stream with
  | nil => rfl
  | cons ev stream ih =>
    have ih := ih (fun k' e he => hinj k' e (by simp [he]))
    simp only [eventsForCell, eventsForKey, List.filterMap_cons] at ih ⊢
    cases ev with
    | reconnecting => simpa using ih
    | item k' e =>
      by_cases hkk : k' = k
      · subst hkk; simp [hk, ih]
      · have : m.find k' ≠ some c := fun h => hkk (hinj k' e (by simp) h)
        simp [this, hkk, ih]


/-! ## the price-bag specification -/

theorem Bag.set_perm {b1 b2 : Bag} (h : b1.Perm b2) (p a : Rat) : (Bag.set b1 p a).Perm (Bag.set b2 p a) := by
  unfold Bag.set
  split
  · exact h.erase p
  · have hc : b1.contains p = b2.contains p := by
      simp only [List.contains_eq_mem, h.mem_iff]
    rw [hc]
    split
    · exact h
    · exact h.cons p

theorem Bag.apply_perm {b1 b2 : Bag} (h : b1.Perm b2) (cs : List Level) : (Bag.apply b1 cs).Perm (Bag.apply b2 cs) := by
  induction cs generalizing b1 b2 with
  | nil => exact h
  | cons c cs ih => exact ih (Bag.set_perm h c.price c.amount)

theorem prices_upsertBS {s : Side} {ls : List Level} {bag : Bag} (us : List Level) (h : WSorted s ls)
    (hp : (ls.map Level.price).Perm bag) :
    ((upsertBS s ls us).map Level.price).Perm (Bag.apply bag us) := by
  induction us generalizing ls bag with
  | nil => exact hp
  | cons u us ih =>
    simp only [upsertBS, Bag.apply, List.foldl_cons]
    exact ih (wsorted_upsertSingleBS u h) ((prices_upsertSingleBS u h).trans (Bag.set_perm hp _ _))

def bagLe (s : Side) (a b : Rat) : Bool := !s.before b a

theorem bagLe_trans (s : Side) (a b c : Rat) (h1 : bagLe s a b = true) (h2 : bagLe s b c = true) :
    bagLe s a c = true := by
  cases s <;> simp [bagLe, Side.before] at * <;> grind

theorem bagLe_total (s : Side) (a b : Rat) : (bagLe s a b || bagLe s b a) = true := by
  cases s <;> simp [bagLe, Side.before] <;> grind

theorem bagLe_antisymm (s : Side) (a b : Rat) (h1 : bagLe s a b = true) (h2 : bagLe s b a = true) : a = b := by
  cases s <;> simp [bagLe, Side.before] at * <;> grind

theorem Bag.inOrder_pairwise (s : Side) (bag : Bag) :
    (Bag.inOrder s bag).Pairwise (fun a b => bagLe s a b = true) :=
  List.pairwise_mergeSort (bagLe_trans s) (bagLe_total s) bag

theorem Bag.inOrder_perm (s : Side) (bag : Bag) : (Bag.inOrder s bag).Perm bag :=
  List.mergeSort_perm bag _

/-- the price sequence of a side in weak book order is determined by its bag of prices -/
theorem prices_eq_inOrder {s : Side} {ls : List Level} {bag : Bag} (h : WSorted s ls)
    (hp : (ls.map Level.price).Perm bag) : ls.map Level.price = Bag.inOrder s bag := by
  have h1 : (ls.map Level.price).Pairwise (fun a b => bagLe s a b = true) := by
    have := wsorted_iff_prices.mp h
    exact this.imp (fun hb => by simp [bagLe, hb])
  exact List.Perm.eq_of_pairwise (fun a b _ _ => bagLe_antisymm s a b) h1 (Bag.inOrder_pairwise s bag)
    (hp.trans (Bag.inOrder_perm s bag).symm)

/-- the declaratively defined best price is the first price in book order -/
theorem Bag.best_eq_head (s : Side) (bag : Bag) : Bag.best s bag = (Bag.inOrder s bag).head? := by
  have hperm := Bag.inOrder_perm s bag
  have hsorted := Bag.inOrder_pairwise s bag
  cases hl : Bag.inOrder s bag with
  | nil =>
    have : bag = [] := by rw [hl] at hperm; exact List.Perm.eq_nil hperm.symm
    subst this; simp [Bag.best]
  | cons x xs =>
    rw [hl] at hperm hsorted
    have hx := List.pairwise_cons.mp hsorted
    have hxm : x ∈ bag := hperm.mem_iff.mp (by simp)
    have hpx : (bag.all fun q => !s.before q x) = true := by
      rw [List.all_eq_true]
      intro q hq
      have : q ∈ x :: xs := hperm.mem_iff.mpr hq
      simp only [List.mem_cons] at this
      rcases this with h1 | h1
      · subst h1; simp [Side.before_irrefl]
      · have := hx.1 q h1; simpa [bagLe] using this
    cases hb : Bag.best s bag with
    | none =>
      simp only [Bag.best] at hb
      rw [List.find?_eq_none] at hb
      exact absurd hpx (hb x hxm)
    | some p =>
      simp only [Bag.best] at hb
      have hpm := List.mem_of_find?_eq_some hb
      have hpp := List.find?_some hb
      rw [List.all_eq_true] at hpp hpx
      have h1 := hpp x hxm
      have h2 := hpx p hpm
      have : p = x := bagLe_antisymm s p x (by simpa [bagLe] using h1) (by simpa [bagLe] using h2)
      simp [this]


/-! ## refinement of the cell specification -/

/-- coupling invariant between a concrete book and the abstract state of its cell -/
structure RefinesCell (b : TBook) (c : SCell) : Prop where
  seq : b.sequence = c.sequence
  time : b.timeEngine = c.timeEngine
  wsorted : WSortedBook b
  bidPrices : (b.bids.map Level.price).Perm c.bidPrices
  askPrices : (b.asks.map Level.price).Perm c.askPrices
  maps : ∀ mb ma, c.maps = some (mb, ma) → Refines b.toCore ⟨c.sequence, mb, ma⟩

theorem cleanSide_iff (ls : List Level) : cleanSide ls = true ↔ CleanInput ls := by
  simp [cleanSide, CleanInput, NonZero]

theorem refines_of_clean {b : TBook} (h : WSortedBook b) (hb : cleanSide b.bids = true)
    (ha : cleanSide b.asks = true) : Refines b.toCore ⟨b.sequence, PMap.ofLevels b.bids, PMap.ofLevels b.asks⟩ := by
  have cb := (cleanSide_iff _).mp hb
  have ca := (cleanSide_iff _).mp ha
  have hw : WFBook b.toCore :=
    { bids := sorted_of_le_nodup h.bids cb.1, asks := sorted_of_le_nodup h.asks ca.1,
      bidsNonZero := cb.2, asksNonZero := ca.2 }
  exact { wf := hw, wfBids := PMap.wf_of_sorted hw.bids hw.bidsNonZero,
          wfAsks := PMap.wf_of_sorted hw.asks hw.asksNonZero, bids := rfl, asks := rfl, seq := rfl }

theorem refinesCell_ofBook {b : TBook} (h : WSortedBook b) : RefinesCell b (SCell.ofBook b) := by
  refine { seq := rfl, time := rfl, wsorted := h, bidPrices := List.Perm.refl _, askPrices := List.Perm.refl _,
           maps := ?_ }
  intro mb ma hm
  simp only [SCell.ofBook] at hm
  split at hm
  · rename_i hc
    simp only [Bool.and_eq_true] at hc
    simp only [Option.some.injEq, Prod.mk.injEq] at hm
    obtain ⟨rfl, rfl⟩ := hm
    exact refines_of_clean h hc.1 hc.2
  · cases hm

theorem refinesCell_step {b : TBook} {c : SCell} {ev : TEvent} (h : RefinesCell b c)
    (hs : ∀ sn, ev = .snapshot sn → WSortedBook sn) : RefinesCell (b.update ev) (c.step ev) := by
  cases ev with
  | snapshot sn => exact refinesCell_ofBook (hs sn rfl)
  | update u =>
    refine { seq := rfl, time := rfl, wsorted := wsortedBook_update h.wsorted (fun _ he => by cases he),
             bidPrices := prices_upsertBS _ h.wsorted.bids h.bidPrices,
             askPrices := prices_upsertBS _ h.wsorted.asks h.askPrices, maps := ?_ }
    intro mb ma hm
    simp only [SCell.step] at hm
    cases hcm : c.maps with
    | none => simp [hcm] at hm
    | some pr =>
      obtain ⟨mb0, ma0⟩ := pr
      simp only [hcm, Option.map_some, Option.some.injEq, Prod.mk.injEq] at hm
      obtain ⟨rfl, rfl⟩ := hm
      have hr := h.maps mb0 ma0 hcm
      have := refines_step (ev := (TEvent.update u).toCore) hr (fun _ he => by simp [TEvent.toCore] at he)
      rw [← toCore_update _ hr.wf.toSortedBook] at this
      exact this

theorem refinesCell_run {b : TBook} {c : SCell} {evs : List TEvent} (h : RefinesCell b c)
    (hs : ∀ sn, TEvent.snapshot sn ∈ evs → WSortedBook sn) : RefinesCell (b.run evs) (c.run evs) := by
  induction evs generalizing b c with
  | nil => exact h
  | cons ev evs ih =>
    simp only [TBook.run, SCell.run, List.foldl_cons]
    exact ih (refinesCell_step h (fun sn he => hs sn (by simp [he]))) (fun sn he => hs sn (by simp [he]))

theorem RefinesCell.bidPrices_eq {b : TBook} {c : SCell} (h : RefinesCell b c) :
    b.bids.map Level.price = Bag.inOrder .bids c.bidPrices := prices_eq_inOrder h.wsorted.bids h.bidPrices

theorem RefinesCell.askPrices_eq {b : TBook} {c : SCell} (h : RefinesCell b c) :
    b.asks.map Level.price = Bag.inOrder .asks c.askPrices := prices_eq_inOrder h.wsorted.asks h.askPrices

theorem RefinesCell.midPrice_eq {b : TBook} {c : SCell} (h : RefinesCell b c) : b.midPrice = c.midPrice := by
  have hb : (b.bids.head?).map Level.price = Bag.best .bids c.bidPrices := by
    rw [Bag.best_eq_head, ← h.bidPrices_eq]; cases b.bids <;> rfl
  have ha : (b.asks.head?).map Level.price = Bag.best .asks c.askPrices := by
    rw [Bag.best_eq_head, ← h.askPrices_eq]; cases b.asks <;> rfl
  simp only [TBook.midPrice, OrderBook.midPrice, SCell.midPrice, TBook.toCore, ← hb, ← ha, Book.midPrice]
  cases b.bids.head? <;> cases b.asks.head? <;> rfl

/-- heap-level coupling: same number of cells, cell by cell -/
def HeapRefines (heap : Heap) (cells : List SCell) : Prop :=
  heap.length = cells.length ∧ ∀ (i : Nat) b c, heap[i]? = some b → cells[i]? = some c → RefinesCell b c

theorem specRun_cell (m : BookMap) (cells : List SCell) (stream : List TStreamEvent) (i : Nat) :
    (specRun m cells stream)[i]? = cells[i]?.map (fun c => c.run (eventsForCell m i stream)) := by
  simp [specRun, List.getElem?_mapIdx]

theorem mem_eventsForCell {m : BookMap} {c : Nat} {stream : List TStreamEvent} {e : TEvent}
    (h : e ∈ eventsForCell m c stream) : ∃ k, TStreamEvent.item k e ∈ stream := by
  simp only [eventsForCell, List.mem_filterMap] at h
  obtain ⟨se, hse, hf⟩ := h
  cases se with
  | reconnecting => cases hf
  | item k e' =>
    by_cases hk : m.find k = some c
    · simp only [hk, ↓reduceIte, Option.some.injEq] at hf
      subst hf; exact ⟨k, hse⟩
    · simp [hk] at hf

theorem heapRefines_run {m : BookMap} {heap : Heap} {cells : List SCell} {stream : List TStreamEvent}
    (h : HeapRefines heap cells)
    (hs : ∀ k sn, TStreamEvent.item k (.snapshot sn) ∈ stream → WSortedBook sn) :
    HeapRefines (managerRun m heap stream) (specRun m cells stream) := by
  refine ⟨by simp [managerRun_length, specRun, h.1], ?_⟩
  intro i b c hb hc
  rw [managerRun_cell] at hb
  rw [specRun_cell] at hc
  cases hb0 : heap[i]? with
  | none => simp [hb0] at hb
  | some b0 =>
    cases hc0 : cells[i]? with
    | none => simp [hc0] at hc
    | some c0 =>
      simp only [hb0, hc0, Option.map_some, Option.some.injEq] at hb hc
      subst hb; subst hc
      apply refinesCell_run (h.2 i b0 c0 hb0 hc0)
      intro sn he
      obtain ⟨k, hk⟩ := mem_eventsForCell he
      exact hs k sn hk


/-! ## derived order of `Level` -/

theorem cmpRat_eq_iff (a b : Rat) : cmpRat a b = .eq ↔ a = b := by
  unfold cmpRat; grind

theorem cmpRat_lt_iff (a b : Rat) : cmpRat a b = .lt ↔ a < b := by
  unfold cmpRat; grind

theorem cmpRat_gt_iff (a b : Rat) : cmpRat a b = .gt ↔ b < a := by
  unfold cmpRat; grind

theorem cmpRat_swap (a b : Rat) : (cmpRat a b).swap = cmpRat b a := by
  rcases h : cmpRat a b with _ | _ | _
  · rw [cmpRat_lt_iff] at h; exact ((cmpRat_gt_iff b a).mpr h).symm
  · rw [cmpRat_eq_iff] at h; exact ((cmpRat_eq_iff b a).mpr h.symm).symm
  · rw [cmpRat_gt_iff] at h; exact ((cmpRat_lt_iff b a).mpr h).symm

theorem levelCmp_lt_iff (a b : Level) :
    levelCmp a b = .lt ↔ a.price < b.price ∨ (a.price = b.price ∧ a.amount < b.amount) := by
  simp only [levelCmp]
  rcases h : cmpRat a.price b.price with _ | _ | _
  · rw [cmpRat_lt_iff] at h; simp [h]
  · rw [cmpRat_eq_iff] at h; simp [h, cmpRat_lt_iff, Rat.lt_irrefl]
  · rw [cmpRat_gt_iff] at h; simp; grind

theorem levelCmp_eq_iff (a b : Level) : levelCmp a b = .eq ↔ a = b := by
  simp only [levelCmp]
  rcases h : cmpRat a.price b.price with _ | _ | _
  · rw [cmpRat_lt_iff] at h; simp; intro hab; subst hab; exact Rat.lt_irrefl h
  · rw [cmpRat_eq_iff] at h
    simp only [cmpRat_eq_iff]
    constructor
    · intro ha; cases a; cases b; simp_all
    · intro hab; rw [hab]
  · rw [cmpRat_gt_iff] at h; simp; intro hab; subst hab; exact Rat.lt_irrefl h

theorem levelCmp_swap (a b : Level) : (levelCmp a b).swap = levelCmp b a := by
  simp only [levelCmp]
  rw [← cmpRat_swap a.price b.price, ← cmpRat_swap a.amount b.amount]
  rcases cmpRat a.price b.price with _ | _ | _ <;> rfl

theorem levelCmp_gt_iff (a b : Level) :
    levelCmp a b = .gt ↔ b.price < a.price ∨ (b.price = a.price ∧ b.amount < a.amount) := by
  rw [← levelCmp_lt_iff, ← levelCmp_swap b a]
  cases levelCmp b a <;> simp [Ordering.swap]

theorem levelEq_iff (a b : Level) : levelEq a b = true ↔ a = b := by
  cases a; cases b; simp [levelEq]

theorem levelLtSpec_iff (a b : Level) : levelLtSpec a b = true ↔ levelCmp a b = .lt := by
  rw [levelCmp_lt_iff]; simp [levelLtSpec]

theorem levelCmp_eq_spec (a b : Level) : levelCmp a b = levelCmpSpec a b := by
  unfold levelCmpSpec
  rcases h : levelCmp a b with _ | _ | _
  · simp [(levelLtSpec_iff a b).mpr h]
  · have h1 : levelLtSpec a b = false := by
      rw [← Bool.not_eq_true, levelLtSpec_iff, h]; simp
    have h2 : levelLtSpec b a = false := by
      rw [← Bool.not_eq_true, levelLtSpec_iff, ← levelCmp_swap, h]; simp [Ordering.swap]
    simp [h1, h2]
  · have h1 : levelLtSpec a b = false := by
      rw [← Bool.not_eq_true, levelLtSpec_iff, h]; simp
    have h2 : levelLtSpec b a = true := by
      rw [levelLtSpec_iff, ← levelCmp_swap, h]; rfl
    simp [h1, h2]

theorem levelLe_total (a b : Level) : (levelLe a b || levelLe b a) = true := by
  simp only [levelLe, ← levelCmp_swap a b]
  cases levelCmp a b <;> rfl

theorem levelLe_trans (a b c : Level) (h1 : levelLe a b = true) (h2 : levelLe b c = true) :
    levelLe a c = true := by
  simp only [levelLe, bne_iff_ne, ne_eq, levelCmp_gt_iff] at *
  grind

theorem levelLe_antisymm (a b : Level) (h1 : levelLe a b = true) (h2 : levelLe b a = true) : a = b := by
  rw [← levelCmp_eq_iff]
  simp only [levelLe, bne_iff_ne, ne_eq] at h1 h2
  rw [← levelCmp_swap a b] at h2
  cases h : levelCmp a b <;> simp_all [Ordering.swap]

/-- the derived order refines the ask order: what `Level`'s `Ord` puts first is never behind in an ask side -/
theorem asksLe_of_levelLe {a b : Level} (h : levelLe a b = true) : Side.asks.le a b = true := by
  simp only [levelLe, bne_iff_ne, ne_eq, levelCmp_gt_iff] at h
  simp only [Side.le, Side.before, Bool.not_eq_eq_eq_not, Bool.not_true, decide_eq_false_iff_not]
  grind

theorem levelMax_spec (a b : Level) :
    (levelMax a b = a ∨ levelMax a b = b) ∧ levelLe a (levelMax a b) = true ∧ levelLe b (levelMax a b) = true := by
  unfold levelMax
  split
  · rename_i h
    refine ⟨Or.inl rfl, ?_, ?_⟩
    · simp [levelLe, (levelCmp_eq_iff a a).mpr rfl]
    · simp [levelLe, h]
  · rename_i h
    refine ⟨Or.inr rfl, ?_, ?_⟩
    · simp only [levelLe, bne_iff_ne, ne_eq]
      rw [← levelCmp_swap b a]
      cases h' : levelCmp b a <;> simp_all [Ordering.swap]
    · simp [levelLe, (levelCmp_eq_iff b b).mpr rfl]

theorem levelMin_spec (a b : Level) :
    (levelMin a b = a ∨ levelMin a b = b) ∧ levelLe (levelMin a b) a = true ∧ levelLe (levelMin a b) b = true := by
  unfold levelMin
  split
  · rename_i h
    refine ⟨Or.inr rfl, ?_, ?_⟩
    · simp [levelLe, h]
    · simp [levelLe, (levelCmp_eq_iff b b).mpr rfl]
  · rename_i h
    refine ⟨Or.inl rfl, ?_, ?_⟩
    · simp [levelLe, (levelCmp_eq_iff a a).mpr rfl]
    · simp only [levelLe, bne_iff_ne, ne_eq]
      rw [← levelCmp_swap b a]
      cases h' : levelCmp b a <;> simp_all [Ordering.swap]


/-! ## the sorts are determined by their specification -/

/-- `Vec<Level>::sort()`: every ordered permutation is the model's (the derived order is total and
antisymmetric, so stable and unstable sorts agree). -/
theorem levelSort_unique {ls l' : List Level} (hp : l'.Perm ls)
    (hs : l'.Pairwise (fun a b => levelLe a b = true)) : l' = ls.mergeSort levelLe :=
  List.Perm.eq_of_pairwise (fun a b _ _ => levelLe_antisymm a b) hs
    (List.pairwise_mergeSort levelLe_trans levelLe_total ls) (hp.trans (List.mergeSort_perm ls _).symm)

theorem eq_of_price_eq_of_nodup {ls : List Level} (hn : (ls.map Level.price).Nodup) {a b : Level}
    (ha : a ∈ ls) (hb : b ∈ ls) (hp : a.price = b.price) : a = b := by
  induction ls with
  | nil => simp at ha
  | cons z zs ih =>
    simp only [List.map_cons, List.nodup_cons, List.mem_map, not_exists, not_and] at hn
    simp only [List.mem_cons] at ha hb
    rcases ha with ha | ha <;> rcases hb with hb | hb
    · rw [ha, hb]
    · exact absurd (by rw [← ha, hp]) (hn.1 b hb)
    · exact absurd (by rw [← hb, ← hp]) (hn.1 a ha)
    · exact ih hn.2 ha hb

theorem sideLe_antisymm_price {s : Side} {a b : Level} (h1 : s.le a b = true) (h2 : s.le b a = true) :
    a.price = b.price := by
  cases s <;> simp [Side.le, Side.before] at * <;> grind

/-- sorting by price on input with pairwise distinct prices: every permutation in weak book order
is the model's sort (no choice is left to the algorithm; for inputs with repeated prices see
`sortLevels_stable`). -/
theorem sortLevels_unique_of_nodup {s : Side} {ls l' : List Level} (hn : (ls.map Level.price).Nodup)
    (hp : l'.Perm ls) (hs : WSorted s l') : l' = sortLevels s ls := by
  refine List.Perm.eq_of_pairwise ?_ hs (wsorted_sortLevels s ls) (hp.trans (sortLevels_perm s ls).symm)
  intro a b ha hb h1 h2
  exact eq_of_price_eq_of_nodup hn (hp.mem_iff.mp ha) ((sortLevels_perm s ls).mem_iff.mp hb)
    (sideLe_antisymm_price h1 h2)

/-- in general (duplicate prices allowed) the constructed side is determined up to the order of
equal-priced levels: its price sequence is fixed -/
theorem sortLevels_prices_unique {s : Side} {ls l' : List Level} (hp : l'.Perm ls) (hs : WSorted s l') :
    l'.map Level.price = (sortLevels s ls).map Level.price := by
  rw [prices_eq_inOrder hs (List.Perm.refl _),
    prices_eq_inOrder (wsorted_sortLevels s ls) (((sortLevels_perm s ls).trans hp.symm).map Level.price)]

/-! ## heap-wide invariants -/

theorem mem_managerRun {m : BookMap} {heap : Heap} {stream : List TStreamEvent} {b : TBook}
    (h : b ∈ managerRun m heap stream) :
    ∃ (c : Nat) (b0 : TBook), heap[c]? = some b0 ∧ b = b0.run (eventsForCell m c stream) := by
  obtain ⟨c, hc, rfl⟩ := List.mem_iff_getElem.mp h
  have := managerRun_cell m heap stream c
  rw [List.getElem?_eq_getElem hc] at this
  cases h0 : heap[c]? with
  | none => simp [h0] at this
  | some b0 =>
    simp only [h0, Option.map_some, Option.some.injEq] at this
    exact ⟨c, b0, h0, this⟩

theorem managerRun_wsorted {m : BookMap} {heap : Heap} {stream : List TStreamEvent}
    (h : ∀ b ∈ heap, WSortedBook b)
    (hs : ∀ k sn, TStreamEvent.item k (.snapshot sn) ∈ stream → WSortedBook sn) :
    ∀ b ∈ managerRun m heap stream, WSortedBook b := by
  intro b hb
  obtain ⟨c, b0, h0, rfl⟩ := mem_managerRun hb
  apply wsortedBook_run (h b0 (List.mem_of_getElem? h0))
  intro sn he
  obtain ⟨k, hk⟩ := mem_eventsForCell he
  exact hs k sn hk

theorem managerRun_core {m : BookMap} {heap : Heap} {stream : List TStreamEvent} {c : Nat} {b0 : TBook}
    (h0 : heap[c]? = some b0) (hb : SortedBook b0.toCore)
    (hs : ∀ k sn, TStreamEvent.item k (.snapshot sn) ∈ stream → SortedBook sn.toCore) :
    ∃ b, (managerRun m heap stream)[c]? = some b ∧
      b.toCore = b0.toCore.run ((eventsForCell m c stream).map TEvent.toCore) := by
  refine ⟨b0.run (eventsForCell m c stream), by simp [managerRun_cell, h0], ?_⟩
  apply toCore_run hb
  intro sn he
  obtain ⟨k, hk⟩ := mem_eventsForCell he
  exact hs k sn hk

theorem managerRun_wf {m : BookMap} {heap : Heap} {stream : List TStreamEvent}
    (h : ∀ b ∈ heap, WFBook b.toCore)
    (hs : ∀ k sn, TStreamEvent.item k (.snapshot sn) ∈ stream → WFBook sn.toCore) :
    ∀ b ∈ managerRun m heap stream, WFBook b.toCore := by
  intro b hb
  obtain ⟨c, b0, h0, rfl⟩ := mem_managerRun hb
  have hw := h b0 (List.mem_of_getElem? h0)
  have hsn : ∀ sn, TEvent.snapshot sn ∈ eventsForCell m c stream → WFBook sn.toCore := by
    intro sn he
    obtain ⟨k, hk⟩ := mem_eventsForCell he
    exact hs k sn hk
  rw [toCore_run hw.toSortedBook (fun sn he => (hsn sn he).toSortedBook)]
  apply wfBook_run hw
  intro sn he
  obtain ⟨e, he1, he2⟩ := List.mem_map.mp he
  cases e with
  | snapshot s0 =>
    simp only [TEvent.toCore, Event.snapshot.injEq] at he2
    subst he2; exact hsn s0 he1
  | update u => simp [TEvent.toCore] at he2


/-! ## evaluating the constructor on concrete inputs (the merge sort does not reduce in the kernel) -/

/-- any ordered permutation of an input with distinct prices is the constructed side -/
theorem sortLevels_eval {s : Side} {ls l' : List Level} (hn : (ls.map Level.price).Nodup)
    (hp : l'.Perm ls) (hs : WSorted s l') : sortLevels s ls = l' :=
  (sortLevels_unique_of_nodup hn hp hs).symm

theorem new_eval {seq : Nat} {te : Option Int} {bids asks bids' asks' : List Level}
    (hb : sortLevels .bids bids = bids') (ha : sortLevels .asks asks = asks') :
    TBook.new seq te bids asks = ⟨seq, te, bids', asks'⟩ := by
  simp only [TBook.new, hb, ha]


/-! # Additions after the review of the sub-check theorems (`audit/sub/report_A.md`, C05M) -/

/-! ## the division by zero of the volume-weighted mid-price -/

theorem vwMidPanics_iff (b : TBook) :
    b.vwMidPanics = true ↔
      ∃ bb ba, b.bids.head? = some bb ∧ b.asks.head? = some ba ∧ bb.amount + ba.amount = 0 := by
  unfold TBook.vwMidPanics
  cases hb : b.bids.head? <;> cases ha : b.asks.head? <;> simp

theorem vwMidPanics_false_of_pos {b : TBook} (hb : ∀ l ∈ b.bids, 0 < l.amount)
    (ha : ∀ l ∈ b.asks, 0 < l.amount) : b.vwMidPanics = false := by
  cases h : b.vwMidPanics with
  | false => rfl
  | true =>
    obtain ⟨bb, ba, h1, h2, h3⟩ := (vwMidPanics_iff b).mp h
    have := hb bb (List.mem_of_mem_head? h1)
    have := ha ba (List.mem_of_mem_head? h2)
    grind

/-- where the call does not panic and both sides are non-empty, the result is the quotient with a
non-zero divisor: stated division-free -/
theorem vwMid_value {b : TBook} {bb ba : Level} (hb : b.bids.head? = some bb) (ha : b.asks.head? = some ba)
    (hn : b.vwMidPanics = false) :
    bb.amount + ba.amount ≠ 0 ∧
    ∃ v, b.volumeWeightedMidPrice = some v ∧
      v * (bb.amount + ba.amount) = bb.price * ba.amount + ba.price * bb.amount := by
  have hne : bb.amount + ba.amount ≠ 0 := by
    intro h0
    have : b.vwMidPanics = true := (vwMidPanics_iff b).mpr ⟨bb, ba, hb, ha, h0⟩
    rw [hn] at this; cases this
  refine ⟨hne, _, ?_, Rat.div_mul_cancel hne⟩
  simp [TBook.volumeWeightedMidPrice, OrderBook.volumeWeightedMidPrice, TBook.toCore, hb, ha,
    Book.volumeWeightedMidPrice]

/-- model-side and spec-side guard agree on a clean cell -/
theorem Refines.vwMidPanics_eq {b : TBook} {sp : Spec} (h : Refines b.toCore sp) :
    b.vwMidPanics = vwMidUndefined sp := by
  have hb : b.bids = sp.bids.levels .bids := h.bids_eq
  have ha : b.asks = sp.asks.levels .asks := h.asks_eq
  simp only [TBook.vwMidPanics, vwMidUndefined, PMap.best_eq_head h.wfBids, PMap.best_eq_head h.wfAsks,
    ← hb, ← ha]

theorem Refines.vwMidChecked_eq {b : TBook} {sp : Spec} (h : Refines b.toCore sp) :
    b.vwMidChecked = vwMidCheckedSpec sp := by
  simp only [TBook.vwMidChecked, vwMidCheckedSpec, Refines.vwMidPanics_eq h, TBook.volumeWeightedMidPrice,
    h.vwMidPrice_eq]

/-! ## the constructors' sort is stable -/

theorem sortLevels_stable (s : Side) (ls : List Level) (p : Rat) :
    (sortLevels s ls).filter (fun l => l.price == p) = ls.filter (fun l => l.price == p) := by
  have hpw : (ls.filter (fun l => l.price == p)).Pairwise (fun a b => s.le a b = true) := by
    apply List.pairwise_of_forall_mem_list
    intro a ha b hb
    have h1 := (List.mem_filter.mp ha).2
    have h2 := (List.mem_filter.mp hb).2
    simp only [beq_iff_eq] at h1 h2
    simp [Side.le, h1, h2, Side.before_irrefl]
  have hsub := List.sublist_mergeSort (le := s.le) (xs := ls) (Side.le_trans' s) (Side.le_total' s) hpw
    List.filter_sublist
  have h2 := hsub.filter (fun l => l.price == p)
  rw [List.filter_filter] at h2
  simp only [Bool.and_self] at h2
  refine (h2.eq_of_length ?_).symm
  rw [← List.countP_eq_length_filter, ← List.countP_eq_length_filter]
  exact ((sortLevels_perm s ls).countP_eq _).symm

/-! ## the association log (map specification) -/

theorem AssocLog.find_eq_lookup_reverse (log : AssocLog) (k : Nat) :
    AssocLog.find log k = log.reverse.lookup k := by
  induction log with
  | nil => rfl
  | cons x rest ih =>
    obtain ⟨k0, c⟩ := x
    simp only [AssocLog.find, List.reverse_cons, List.lookup_append, ih]
    congr 1
    by_cases hk : k0 = k
    · subst hk; simp [List.lookup]
    · have : (k == k0) = false := by simpa using fun e => hk e.symm
      simp [List.lookup, hk, this]

theorem AssocLog.find_append_single (log : AssocLog) (k c k' : Nat) :
    AssocLog.find (log ++ [(k, c)]) k' = if k' = k then some c else AssocLog.find log k' := by
  rw [AssocLog.find_eq_lookup_reverse, AssocLog.find_eq_lookup_reverse]
  simp only [List.reverse_append, List.reverse_cons, List.reverse_nil, List.nil_append, List.singleton_append,
    List.lookup_cons]
  by_cases hk : k' = k
  · simp [hk]
  · have : (k' == k) = false := by simpa using hk
    simp [hk, this]

theorem AssocLog.mem_keys (log : AssocLog) : ∀ k, k ∈ AssocLog.keys log ↔ k ∈ log.map (·.1) := by
  induction log with
  | nil => simp [AssocLog.keys]
  | cons x rest ih =>
    obtain ⟨k0, c⟩ := x
    intro k
    simp only [AssocLog.keys, List.map_cons, List.mem_cons]
    split
    · rename_i hc
      have hm : k0 ∈ rest.map (·.1) := (ih k0).mp (by simpa using hc)
      rw [ih k]
      constructor
      · exact Or.inr
      · rintro (rfl | h)
        · exact hm
        · exact h
    · simp [ih k]

theorem AssocLog.keys_nodup (log : AssocLog) : (AssocLog.keys log).Nodup := by
  induction log with
  | nil => simp [AssocLog.keys]
  | cons x rest ih =>
    obtain ⟨k0, c⟩ := x
    simp only [AssocLog.keys]
    split
    · exact ih
    · rename_i hc
      exact List.nodup_cons.mpr ⟨by simpa using hc, ih⟩

theorem AssocLog.find_isSome_iff (log : AssocLog) (k : Nat) :
    (AssocLog.find log k).isSome ↔ k ∈ log.map (·.1) := by
  induction log with
  | nil => simp [AssocLog.find]
  | cons x rest ih =>
    obtain ⟨k0, c⟩ := x
    simp only [AssocLog.find, List.map_cons, List.mem_cons, Option.isSome_or, Bool.or_eq_true, ih]
    by_cases hk : k0 = k
    · simp [hk]
    · have : ¬ k = k0 := fun e => hk e.symm
      simp [hk, this]

theorem AssocLog.mem_keys_iff_find (log : AssocLog) (k : Nat) :
    k ∈ AssocLog.keys log ↔ (AssocLog.find log k).isSome := by
  rw [AssocLog.mem_keys, AssocLog.find_isSome_iff]

theorem BookMap.mem_keys_iff_find (m : BookMap) (k : Nat) : k ∈ m.keys ↔ (m.find k).isSome := by
  cases m with
  | single k0 c =>
    simp only [BookMap.keys, BookMap.find, List.mem_singleton]
    by_cases h : k0 = k
    · simp [h]
    · have h' : ¬ k = k0 := fun e => h e.symm
      simp [h, h']
  | multi books => exact (lookup_isSome_iff_mem_keys books k).symm

theorem mapRefines_single (k c : Nat) : MapRefines (.single k c) [(k, c)] := by
  intro k'
  simp [BookMap.find, AssocLog.find]

theorem mapRefines_multiOf (pairs : List (Nat × Nat)) : MapRefines (multiOf pairs) pairs := by
  intro k
  rw [AssocLog.find_eq_lookup_reverse]
  simp only [multiOf, BookMap.find, foldl_hashInsert_lookup]
  cases pairs.reverse.lookup k <;> rfl

theorem mapRefines_insert {books : List (Nat × Nat)} {log : AssocLog} (h : MapRefines (.multi books) log)
    (k c : Nat) : MapRefines ((BookMap.multi books).insert k c) (log ++ [(k, c)]) := by
  intro k'
  rw [AssocLog.find_append_single, ← h k']
  exact lookup_hashInsert books k c k'

theorem MapRefines.keys_perm {m : BookMap} {log : AssocLog} (h : MapRefines m log) (hn : m.keys.Nodup) :
    m.keys.Perm (AssocLog.keys log) := by
  rw [List.perm_ext_iff_of_nodup hn (AssocLog.keys_nodup log)]
  intro k
  rw [BookMap.mem_keys_iff_find, AssocLog.mem_keys_iff_find, h k]

theorem eventsForCell_eq_by (m : BookMap) (c : Nat) (stream : List TStreamEvent) :
    eventsForCell m c stream = eventsForCellBy m.find c stream := rfl

theorem specRun_eq_specRunBy (m : BookMap) (cells : List SCell) (stream : List TStreamEvent) :
    specRun m cells stream = specRunBy m.find cells stream := rfl

theorem MapRefines.specRun_eq {m : BookMap} {log : AssocLog} (h : MapRefines m log) (cells : List SCell)
    (stream : List TStreamEvent) : specRun m cells stream = specRunBy (AssocLog.find log) cells stream := by
  have : m.find = AssocLog.find log := funext h
  rw [specRun_eq_specRunBy, this]

end BarterModel.BookManager
