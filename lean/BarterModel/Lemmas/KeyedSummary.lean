import BarterModel.Model.KeyedSummary
import BarterModel.Lemmas.Metrics
import BarterModel.Lemmas.Stale
/-! Helper lemmas for the sub-check C16K (`Props/C16K.lean`). -/
namespace BarterModel.KeyedSummary
open BarterModel

/-! ### per-key histories -/

theorem exitsOf_cons_position (i j : Nat) (p : Exit) (evs : List Ev) :
    exitsOf i (.position j p :: evs) = if j = i then p :: exitsOf i evs else exitsOf i evs := by
  unfold exitsOf
  by_cases h : j = i <;> simp [h]

theorem exitsOf_cons_balance (i a : Nat) (s : BalSnap) (evs : List Ev) :
    exitsOf i (.balance a s :: evs) = exitsOf i evs := by
  simp [exitsOf]

theorem snapsOf_cons_balance (a b : Nat) (s : BalSnap) (evs : List Ev) :
    snapsOf a (.balance b s :: evs) = if b = a then s :: snapsOf a evs else snapsOf a evs := by
  unfold snapsOf
  by_cases h : b = a <;> simp [h]

theorem snapsOf_cons_position (a j : Nat) (p : Exit) (evs : List Ev) :
    snapsOf a (.position j p :: evs) = snapsOf a evs := by
  simp [snapsOf]

theorem exitsOf_append (i : Nat) (xs ys : List Ev) :
    exitsOf i (xs ++ ys) = exitsOf i xs ++ exitsOf i ys := by
  simp [exitsOf, List.filterMap_append]

theorem snapsOf_append (a : Nat) (xs ys : List Ev) :
    snapsOf a (xs ++ ys) = snapsOf a xs ++ snapsOf a ys := by
  simp [snapsOf, List.filterMap_append]

/-! ### runs of the single generators -/

def AssetGen.run (g : AssetGen) (snaps : List BalSnap) : AssetGen :=
  snaps.foldl AssetGen.updateFromBalance g

def AssetState.run (a : AssetState) (snaps : List BalSnap) : AssetState :=
  snaps.foldl AssetState.updateFromBalance a

/-- The asset generator after any snapshot list, from any start: the last balance, and C18's sheet run
over the curve of totals. -/
theorem AssetGen.run_eq (snaps : List BalSnap) : ∀ g : AssetGen,
    g.run snaps =
      ⟨(snaps.getLast?.map (·.balance)).or g.balanceNow, (Drawdown.Sheet.run g.sheet (curveOf snaps)).1⟩ := by
  induction snaps with
  | nil => intro g; simp [AssetGen.run, curveOf, Drawdown.Sheet.run]
  | cons s ss ih =>
    intro g
    have h := ih (g.updateFromBalance s)
    simp only [AssetGen.run, List.foldl_cons] at h ⊢
    rw [h]
    simp only [AssetGen.updateFromBalance, curveOf, List.map_cons, Drawdown.Sheet.run]
    congr 1
    cases ss with
    | nil => simp
    | cons t ts =>
      cases hl : (t :: ts).getLast? with
      | none => simp at hl
      | some x => simp [List.getLast?_cons_cons, hl]

/-- The register of the engine-held asset state is C09's. -/
theorem AssetState.update_balance (a : AssetState) (s : BalSnap) :
    (a.updateFromBalance s).balance = Stale.upd false a.balance (msgOf s) := by
  obtain ⟨st, b⟩ := a
  cases b with
  | none => rfl
  | some c =>
    simp only [AssetState.updateFromBalance, Stale.upd]
    by_cases h : Stale.passes false c.1 s.time = true
    · simp [h, msgOf]
    · simp [h, msgOf]

/-- The statistics generator is updated exactly when the register applies the snapshot. -/
theorem AssetState.update_statistics (a : AssetState) (s : BalSnap) :
    (a.updateFromBalance s).statistics =
      if applies a.balance s then a.statistics.updateFromBalance s else a.statistics := by
  obtain ⟨st, b⟩ := a
  cases b with
  | none => rfl
  | some c =>
    simp only [AssetState.updateFromBalance, applies]
    by_cases h : Stale.passes false c.1 s.time = true
    · simp [h]
    · simp [h]

/-- Engine-held asset state after any snapshot list, from any start: the register is C09's `deliver`,
the statistics generator saw exactly the non-stale subsequence. -/
theorem AssetState.run_eq (snaps : List BalSnap) : ∀ a : AssetState,
    a.run snaps =
      ⟨a.statistics.run (nonStale a.balance snaps), Stale.deliver false a.balance (snaps.map msgOf)⟩ := by
  induction snaps with
  | nil => intro a; simp [AssetState.run, AssetGen.run, nonStale, Stale.deliver]
  | cons s ss ih =>
    intro a
    have h := ih (a.updateFromBalance s)
    simp only [AssetState.run, List.foldl_cons] at h ⊢
    rw [h, AssetState.update_balance, AssetState.update_statistics]
    simp only [nonStale, List.map_cons, Stale.deliver, List.foldl_cons]
    congr 1
    by_cases hp : applies a.balance s = true
    · simp [hp, AssetGen.run]
    · simp [hp, AssetGen.run]

/-! ### the non-stale subsequence without a register -/

theorem deliver_snoc (h : Option (Stale.Msg Stale.Bal)) (pre : List BalSnap) (s : BalSnap) :
    Stale.deliver false h ((pre ++ [s]).map msgOf) =
      Stale.upd false (Stale.deliver false h (pre.map msgOf)) (msgOf s) := by
  simp [Stale.deliver, List.foldl_append]

theorem applies_deliver (pre : List BalSnap) (s : BalSnap) :
    applies (Stale.deliver false none (pre.map msgOf)) s = pre.all (fun x => decide (x.time ≤ s.time)) := by
  cases hd : Stale.deliver false none (pre.map msgOf) with
  | none =>
    have hpre : pre = [] := by
      cases pre with
      | nil => rfl
      | cons x xs =>
        have := Stale.deliver_isSome false none ((x :: xs).map msgOf) (Or.inr (by simp))
        rw [hd] at this; simp at this
    subst hpre; rfl
  | some r =>
    have hge := (Stale.deliver_ge false none _ r hd).2
    have hmem : r ∈ pre.map msgOf := by
      rcases Stale.deliver_mem false none _ r hd with h | h
      · exact h
      · cases h
    obtain ⟨x, hx, hxr⟩ := List.mem_map.mp hmem
    simp only [applies, Stale.passes, Bool.false_eq_true, ↓reduceIte]
    by_cases hle : r.1 ≤ s.time
    · have : pre.all (fun x => decide (x.time ≤ s.time)) = true := by
        rw [List.all_eq_true]
        intro y hy
        have := hge (msgOf y) (List.mem_map.mpr ⟨y, hy, rfl⟩)
        simp only [msgOf] at this
        simp; omega
      simp [hle, this]
    · have : pre.all (fun x => decide (x.time ≤ s.time)) = false := by
        rw [Bool.eq_false_iff]
        intro hall
        have := List.all_eq_true.mp hall x hx
        have e : r.1 = x.time := by rw [← hxr]; rfl
        simp at this; omega
      simp [hle, this]

/-- The register-defined non-stale subsequence is the "not older than anything before it" one. -/
theorem nonStale_deliver (ss : List BalSnap) : ∀ pre : List BalSnap,
    nonStale (Stale.deliver false none (pre.map msgOf)) ss = runningMax pre ss := by
  induction ss with
  | nil => intro pre; rfl
  | cons s ss ih =>
    intro pre
    simp only [nonStale, runningMax]
    rw [applies_deliver, ← deliver_snoc, ih]

theorem nonStale_eq_runningMax (snaps : List BalSnap) : nonStale none snaps = runningMax [] snaps :=
  nonStale_deliver snaps []

theorem runningMax_snoc (xs : List BalSnap) (s : BalSnap) : ∀ acc : List BalSnap,
    runningMax acc (xs ++ [s]) =
      runningMax acc xs ++
        (if (acc ++ xs).all (fun x => decide (x.time ≤ s.time)) then [s] else []) := by
  induction xs with
  | nil => intro acc; simp [runningMax]
  | cons x xs ih =>
    intro acc
    simp [runningMax, ih]

/-- When nothing in `acc` is newer than anything in `ss` and `ss` itself is in time order, every
snapshot is kept. -/
theorem runningMax_of_sorted (ss : List BalSnap) : ∀ acc : List BalSnap,
    (∀ x ∈ acc, ∀ y ∈ ss, x.time ≤ y.time) → ss.Pairwise (fun x y => x.time ≤ y.time) →
    runningMax acc ss = ss := by
  induction ss with
  | nil => intro acc _ _; rfl
  | cons s ss ih =>
    intro acc hacc hs
    have h1 : acc.all (fun x => decide (x.time ≤ s.time)) = true := by
      rw [List.all_eq_true]; intro x hx; simpa using hacc x hx s (by simp)
    obtain ⟨hs1, hs2⟩ := List.pairwise_cons.mp hs
    simp only [runningMax, h1, ↓reduceIte, List.singleton_append]
    rw [ih (acc ++ [s]) ?_ hs2]
    intro x hx y hy
    rcases List.mem_append.mp hx with hx | hx
    · exact hacc x hx y (by simp [hy])
    · simp only [List.mem_singleton] at hx; subst hx; exact hs1 y hy

/-! ### keyed maps: engine path -/

theorem EngState.run_instrument (f : Rat → Rat) (evs : List Ev) (i : Nat) :
    ∀ (s : EngState) (g : Metrics.Gen), s.instruments[i]? = some g →
    (s.run f evs).instruments[i]? = some (Metrics.Gen.run f g (exitsOf i evs)) := by
  induction evs with
  | nil => intro s g h; simpa [EngState.run, exitsOf, Metrics.Gen.run] using h
  | cons ev evs ih =>
    intro s g h
    simp only [EngState.run, List.foldl_cons] at ih ⊢
    cases ev with
    | position j p =>
      rw [exitsOf_cons_position]
      by_cases hj : j = i
      · subst hj
        have : (s.step f (.position j p)).instruments[j]? = some (g.updateFromPosition f p) := by
          simp [EngState.step, TearSheet.modifyAt_getElem?, h]
        rw [ih _ _ this]; simp [Metrics.Gen.run]
      · have : (s.step f (.position j p)).instruments[i]? = some g := by
          simp [EngState.step, TearSheet.modifyAt_getElem?, h, show ¬ i = j from fun e => hj e.symm]
        rw [ih _ _ this]; simp [hj]
    | balance a b =>
      rw [exitsOf_cons_balance]
      exact ih _ _ (by simpa [EngState.step] using h)

theorem EngState.run_asset (f : Rat → Rat) (evs : List Ev) (a : Nat) :
    ∀ (s : EngState) (st : AssetState), s.assets[a]? = some st →
    (s.run f evs).assets[a]? = some (st.run (snapsOf a evs)) := by
  induction evs with
  | nil => intro s st h; simpa [EngState.run, snapsOf, AssetState.run] using h
  | cons ev evs ih =>
    intro s st h
    simp only [EngState.run, List.foldl_cons] at ih ⊢
    cases ev with
    | position j p =>
      rw [snapsOf_cons_position]
      exact ih _ _ (by simpa [EngState.step] using h)
    | balance b sn =>
      rw [snapsOf_cons_balance]
      by_cases hb : b = a
      · subst hb
        have : (s.step f (.balance b sn)).assets[b]? = some (st.updateFromBalance sn) := by
          simp [EngState.step, TearSheet.modifyAt_getElem?, h]
        rw [ih _ _ this]; simp [AssetState.run]
      · have : (s.step f (.balance b sn)).assets[a]? = some st := by
          simp [EngState.step, TearSheet.modifyAt_getElem?, h, show ¬ a = b from fun e => hb e.symm]
        rw [ih _ _ this]; simp [hb]

theorem EngState.run_lengths (f : Rat → Rat) (evs : List Ev) : ∀ s : EngState,
    (s.run f evs).instruments.length = s.instruments.length ∧
    (s.run f evs).assets.length = s.assets.length := by
  induction evs with
  | nil => intro s; simp [EngState.run]
  | cons ev evs ih =>
    intro s
    simp only [EngState.run, List.foldl_cons] at ih ⊢
    have := ih (s.step f ev)
    cases ev <;> simp_all [EngState.step, TearSheet.modifyAt_length]

/-! ### keyed maps: direct path -/

theorem SummaryGen.run_instrument (f : Rat → Rat) (evs : List Ev) (i : Nat) :
    ∀ (s : SummaryGen) (g : Metrics.Gen), s.instruments[i]? = some g →
    (s.run f evs).instruments[i]? = some (Metrics.Gen.run f g (exitsOf i evs)) := by
  induction evs with
  | nil => intro s g h; simpa [SummaryGen.run, exitsOf, Metrics.Gen.run] using h
  | cons ev evs ih =>
    intro s g h
    simp only [SummaryGen.run, List.foldl_cons] at ih ⊢
    cases ev with
    | position j p =>
      rw [exitsOf_cons_position]
      by_cases hj : j = i
      · subst hj
        have : (s.step f (.position j p)).instruments[j]? = some (g.updateFromPosition f p) := by
          simp [SummaryGen.step, SummaryGen.updateFromPosition, TearSheet.modifyAt_getElem?, h]
        rw [ih _ _ this]; simp [Metrics.Gen.run]
      · have : (s.step f (.position j p)).instruments[i]? = some g := by
          simp [SummaryGen.step, SummaryGen.updateFromPosition, TearSheet.modifyAt_getElem?, h,
            show ¬ i = j from fun e => hj e.symm]
        rw [ih _ _ this]; simp [hj]
    | balance a b =>
      rw [exitsOf_cons_balance]
      exact ih _ _ (by simpa [SummaryGen.step, SummaryGen.updateFromBalance] using h)

theorem SummaryGen.run_asset (f : Rat → Rat) (evs : List Ev) (a : Nat) :
    ∀ (s : SummaryGen) (g : AssetGen), s.assets[a]? = some g →
    (s.run f evs).assets[a]? = some (g.run (snapsOf a evs)) := by
  induction evs with
  | nil => intro s g h; simpa [SummaryGen.run, snapsOf, AssetGen.run] using h
  | cons ev evs ih =>
    intro s g h
    simp only [SummaryGen.run, List.foldl_cons] at ih ⊢
    cases ev with
    | position j p =>
      rw [snapsOf_cons_position]
      exact ih _ _ (by simpa [SummaryGen.step, SummaryGen.updateFromPosition] using h)
    | balance b sn =>
      rw [snapsOf_cons_balance]
      by_cases hb : b = a
      · subst hb
        have : (s.step f (.balance b sn)).assets[b]? = some (g.updateFromBalance sn) := by
          simp [SummaryGen.step, SummaryGen.updateFromBalance, TearSheet.modifyAt_getElem?, h]
        rw [ih _ _ this]; simp [AssetGen.run]
      · have : (s.step f (.balance b sn)).assets[a]? = some g := by
          simp [SummaryGen.step, SummaryGen.updateFromBalance, TearSheet.modifyAt_getElem?, h,
            show ¬ a = b from fun e => hb e.symm]
        rw [ih _ _ this]; simp [hb]

/-- the exchange time an event carries -/
def Ev.time : Ev → Int
  | .position _ p => p.timeExit
  | .balance _ s => s.time

/-- `if self.time_engine_now < t { self.time_engine_now = t }` -/
def clockStep (now : Int) (ev : Ev) : Int := if now < ev.time then ev.time else now

theorem SummaryGen.step_fixed (f : Rat → Rat) (s : SummaryGen) (ev : Ev) :
    (s.step f ev).instruments.length = s.instruments.length ∧
    (s.step f ev).assets.length = s.assets.length ∧
    (s.step f ev).riskFreeReturn = s.riskFreeReturn ∧
    (s.step f ev).timeEngineStart = s.timeEngineStart ∧
    (s.step f ev).timeEngineNow = clockStep s.timeEngineNow ev := by
  cases ev <;> refine ⟨?_, ?_, rfl, rfl, rfl⟩ <;>
    simp [SummaryGen.step, SummaryGen.updateFromPosition, SummaryGen.updateFromBalance,
      TearSheet.modifyAt_length]

theorem SummaryGen.run_fixed (f : Rat → Rat) (evs : List Ev) : ∀ s : SummaryGen,
    (s.run f evs).instruments.length = s.instruments.length ∧
    (s.run f evs).assets.length = s.assets.length ∧
    (s.run f evs).riskFreeReturn = s.riskFreeReturn ∧
    (s.run f evs).timeEngineStart = s.timeEngineStart ∧
    (s.run f evs).timeEngineNow =
      evs.foldl clockStep s.timeEngineNow := by
  induction evs with
  | nil => intro s; simp [SummaryGen.run]
  | cons ev evs ih =>
    intro s
    simp only [SummaryGen.run, List.foldl_cons] at ih ⊢
    obtain ⟨h1, h2, h3, h4, h5⟩ := ih (s.step f ev)
    obtain ⟨k1, k2, k3, k4, k5⟩ := SummaryGen.step_fixed f s ev
    exact ⟨h1.trans k1, h2.trans k2, h3.trans k3, h4.trans k4, by rw [h5, k5]⟩

/-- the running maximum of the clock is at least the start and at least every event time, and is one
of them -/
theorem clock_fold (evs : List Ev) : ∀ now : Int,
    now ≤ evs.foldl clockStep now ∧ (∀ ev ∈ evs, ev.time ≤ evs.foldl clockStep now) ∧
    (evs.foldl clockStep now = now ∨ ∃ ev ∈ evs, evs.foldl clockStep now = ev.time) := by
  induction evs with
  | nil => intro now; simp
  | cons ev evs ih =>
    intro now
    simp only [List.foldl_cons]
    obtain ⟨h1, h2, h3⟩ := ih (clockStep now ev)
    have hc : now ≤ clockStep now ev ∧ ev.time ≤ clockStep now ev ∧
        (clockStep now ev = now ∨ clockStep now ev = ev.time) := by
      unfold clockStep; split <;> omega
    refine ⟨by omega, ?_, ?_⟩
    · intro e he
      rcases List.mem_cons.mp he with rfl | he
      · omega
      · exact h2 e he
    · rcases h3 with h3 | ⟨e, he, h3⟩
      · rcases hc.2.2 with hc | hc
        · left; rw [h3, hc]
        · right; exact ⟨ev, by simp, by rw [h3, hc]⟩
      · right; exact ⟨e, by simp [he], h3⟩

/-! ### `generate` of the summary, entry by entry -/

theorem SummaryGen.generate_instrument (f : Rat → Rat) (g : SummaryGen) (iv : Interval) (i : Nat) :
    (g.generate f iv).2.instruments[i]? =
      g.instruments[i]?.map (fun t => (t.generate f g.riskFreeReturn iv).2) ∧
    (g.generate f iv).1.instruments[i]? =
      g.instruments[i]?.map (fun t => (t.generate f g.riskFreeReturn iv).1) := by
  simp [SummaryGen.generate, List.getElem?_map, Function.comp_def]

theorem SummaryGen.generate_asset (f : Rat → Rat) (g : SummaryGen) (iv : Interval) (a : Nat) :
    (g.generate f iv).2.assets[a]? = g.assets[a]?.map (fun t => t.generate.2) ∧
    (g.generate f iv).1.assets[a]? = g.assets[a]?.map (fun t => t.generate.1) := by
  simp [SummaryGen.generate, List.getElem?_map, Function.comp_def]

theorem SummaryGen.generate_fixed (f : Rat → Rat) (g : SummaryGen) (iv : Interval) :
    (g.generate f iv).1.riskFreeReturn = g.riskFreeReturn ∧
    (g.generate f iv).1.timeEngineStart = g.timeEngineStart ∧
    (g.generate f iv).1.timeEngineNow = g.timeEngineNow ∧
    (g.generate f iv).1.instruments.length = g.instruments.length ∧
    (g.generate f iv).1.assets.length = g.assets.length ∧
    (g.generate f iv).2.instruments.length = g.instruments.length ∧
    (g.generate f iv).2.assets.length = g.assets.length ∧
    (g.generate f iv).2.timeEngineStart = g.timeEngineStart ∧
    (g.generate f iv).2.timeEngineEnd = g.timeEngineNow := by
  simp [SummaryGen.generate]

/-- The first `generate` of an asset generator fed a snapshot list from `default` is the C16 / C18
sheet of that list. -/
theorem AssetGen.generate_run_default (snaps : List BalSnap) :
    (AssetGen.default.run snaps).generate.2 = assetSheetOf snaps := by
  rw [AssetGen.run_eq]
  simp only [AssetGen.generate, AssetGen.default, assetSheetOf, Option.or_none]
  congr 1
  exact Props.C18.first_generate_report (curveOf snaps)


/-! ### one sheet with interleaved `generate` calls: exactly what the mean / max generators are fed -/

theorem sheet_update_gen (s : Drawdown.Sheet) (p : Drawdown.Pt) :
    (s.update p).1.gen = (s.gen.update p).1 ∧ (s.update p).2 = (s.gen.update p).2 ∧
    (s.update p).1.mean = (s.gen.update p).2.toList.foldl Drawdown.MeanGen.update s.mean ∧
    (s.update p).1.max = (s.gen.update p).2.toList.foldl Drawdown.MaxGen.update s.max := by
  unfold Drawdown.Sheet.update
  cases h : (s.gen.update p).2 with
  | none => simp [h]
  | some d => simp [h]

theorem sheet_generate_parts (s : Drawdown.Sheet) :
    s.generate.1.gen = s.gen ∧
    s.generate.1.mean = s.gen.generate.toList.foldl Drawdown.MeanGen.update s.mean ∧
    s.generate.1.max = s.gen.generate.toList.foldl Drawdown.MaxGen.update s.max ∧
    s.generate.2 = ⟨s.gen.generate, s.generate.1.mean.generate, s.generate.1.max.generate⟩ := by
  unfold Drawdown.Sheet.generate
  cases h : s.gen.generate with
  | none => simp
  | some d => simp

/-- the drawdown generator proper after the curve `pts` -/
def genAfter (pts : List Drawdown.Pt) : Drawdown.Gen :=
  (Drawdown.Sheet.run Drawdown.Sheet.default pts).1.gen

theorem genAfter_snoc (pts : List Drawdown.Pt) (q : Drawdown.Pt) :
    genAfter (pts ++ [q]) = ((genAfter pts).update q).1 ∧
    ((genAfter pts).update q).2.toList =
      (Drawdown.decompose (pts ++ [q])).1.drop (Drawdown.decompose pts).1.length := by
  constructor
  · unfold genAfter
    rw [Drawdown.sheet_run_append]
    simp only [Drawdown.Sheet.run]
    exact (sheet_update_gen _ q).1
  · have h := Props.C18.update_returns_newly_completed pts q
    rw [h, List.drop_left, (sheet_update_gen _ q).2.1]
    rfl

theorem genAfter_generate (pts : List Drawdown.Pt) :
    (genAfter pts).generate = (Drawdown.decompose pts).2 :=
  Props.C18.current_drawdown pts

/-- **Exactly what interleaved `generate` calls do to one tear sheet's drawdown generators.** Start
from a sheet whose `DrawdownGenerator` is the one reached after the curve `pts` (mean / max generators
arbitrary). After any sequence of points and `generate` calls: the `DrawdownGenerator` is the one
reached after all the points — `generate` never touches it —, and the mean and the max generator have
been fed, in order, the list `emitted pts ops`: for every point the drawdown it completes, for every
`generate` the drawdown that was in progress at that moment. -/
theorem sheetExec_exact (ops : List SOp) : ∀ (pts : List Drawdown.Pt) (s : Drawdown.Sheet),
    s.gen = genAfter pts →
    (sheetExec s ops).gen = genAfter (pts ++ ptsOf ops) ∧
    (sheetExec s ops).mean = (emitted pts ops).foldl Drawdown.MeanGen.update s.mean ∧
    (sheetExec s ops).max = (emitted pts ops).foldl Drawdown.MaxGen.update s.max := by
  induction ops with
  | nil => intro pts s h; simp [sheetExec, ptsOf, emitted, h]
  | cons op ops ih =>
    intro pts s h
    cases op with
    | pt q =>
      obtain ⟨u1, _, u3, u4⟩ := sheet_update_gen s q
      obtain ⟨g1, g2⟩ := genAfter_snoc pts q
      have hgen : (s.update q).1.gen = genAfter (pts ++ [q]) := by rw [u1, h, g1]
      obtain ⟨i1, i2, i3⟩ := ih (pts ++ [q]) (s.update q).1 hgen
      simp only [sheetExec, List.foldl_cons, sheetStep] at i1 i2 i3 ⊢
      refine ⟨?_, ?_, ?_⟩
      · rw [i1]; simp [ptsOf]
      · rw [i2, u3, h, g2]; simp [emitted, List.foldl_append]
      · rw [i3, u4, h, g2]; simp [emitted, List.foldl_append]
    | gen =>
      obtain ⟨p1, p2, p3, _⟩ := sheet_generate_parts s
      have hgen : s.generate.1.gen = genAfter pts := by rw [p1, h]
      obtain ⟨i1, i2, i3⟩ := ih pts s.generate.1 hgen
      simp only [sheetExec, List.foldl_cons, sheetStep] at i1 i2 i3 ⊢
      refine ⟨?_, ?_, ?_⟩
      · rw [i1]; simp [ptsOf]
      · rw [i2, p2, h, genAfter_generate]; simp [emitted, List.foldl_append]
      · rw [i3, p3, h, genAfter_generate]; simp [emitted, List.foldl_append]

theorem emitted_append (a : List SOp) : ∀ (pts : List Drawdown.Pt) (b : List SOp),
    emitted pts (a ++ b) = emitted pts a ++ emitted (pts ++ ptsOf a) b := by
  induction a with
  | nil => intro pts b; simp [emitted, ptsOf]
  | cons op a ih =>
    intro pts b
    cases op with
    | pt q => simp [emitted, ih, ptsOf, List.append_assoc]
    | gen => simp [emitted, ih, ptsOf, List.append_assoc]

/-- completed drawdowns only ever grow at the end (C18 (3), iterated) -/
theorem completed_prefix (b : List Drawdown.Pt) : ∀ a : List Drawdown.Pt,
    ∃ r, (Drawdown.decompose (a ++ b)).1 = (Drawdown.decompose a).1 ++ r := by
  induction b with
  | nil => intro a; exact ⟨[], by simp⟩
  | cons x b ih =>
    intro a
    obtain ⟨r, hr⟩ := ih (a ++ [x])
    have h1 := Props.C18.update_returns_newly_completed a x
    have e : a ++ x :: b = a ++ [x] ++ b := by simp
    rw [e, hr, h1]
    exact ⟨((Drawdown.Sheet.run Drawdown.Sheet.default a).1.update x).2.toList ++ r, by simp⟩

/-- Without interleaved `generate` calls the emitted list is the list of completed drawdowns (C18). -/
theorem emitted_points (qs : List Drawdown.Pt) : ∀ pts : List Drawdown.Pt,
    emitted pts (qs.map SOp.pt) =
      (Drawdown.decompose (pts ++ qs)).1.drop (Drawdown.decompose pts).1.length := by
  induction qs with
  | nil => intro pts; simp [emitted]
  | cons q qs ih =>
    intro pts
    simp only [List.map_cons, emitted, ih]
    obtain ⟨r1, hr1⟩ := completed_prefix [q] pts
    obtain ⟨r2, hr2⟩ := completed_prefix qs (pts ++ [q])
    have e : pts ++ q :: qs = pts ++ [q] ++ qs := by simp
    rw [e, hr2, hr1]
    simp [List.drop_append]

theorem ptsOf_map_pt (qs : List Drawdown.Pt) : ptsOf (qs.map SOp.pt) = qs := by
  induction qs with
  | nil => rfl
  | cons q qs ih => simp [ptsOf] at ih ⊢; exact ih

/-- … so that with a single final `generate` the emitted list is C18's `reported`. -/
theorem emitted_points_gen (qs : List Drawdown.Pt) :
    emitted [] (qs.map SOp.pt ++ [SOp.gen]) = Drawdown.reported qs := by
  rw [emitted_append, emitted_points, ptsOf_map_pt]
  simp [emitted, Drawdown.reported, Drawdown.decompose]

/-- A `generate` while no drawdown is in progress feeds nothing. -/
theorem emitted_gen_flat (pts : List Drawdown.Pt) (ops : List SOp)
    (h : (Drawdown.decompose pts).2 = none) : emitted pts (.gen :: ops) = emitted pts ops := by
  simp [emitted, h]

/-- The report of a `generate` after any interleaving, from the emitted list. -/
theorem sheetExec_report (ops : List SOp) :
    (sheetExec Drawdown.Sheet.default ops).generate.2 =
      ⟨(Drawdown.decompose (ptsOf ops)).2,
       Drawdown.specMean (emitted [] (ops ++ [.gen])),
       Drawdown.specMax (emitted [] (ops ++ [.gen]))⟩ := by
  have h0 : Drawdown.Sheet.default.gen = genAfter [] := rfl
  obtain ⟨e1, e2, e3⟩ := sheetExec_exact (ops ++ [.gen]) [] Drawdown.Sheet.default h0
  have hs : sheetExec Drawdown.Sheet.default (ops ++ [.gen]) =
      (sheetExec Drawdown.Sheet.default ops).generate.1 := by
    simp [sheetExec, List.foldl_append, sheetStep]
  obtain ⟨p1, _, _, p4⟩ := sheet_generate_parts (sheetExec Drawdown.Sheet.default ops)
  obtain ⟨d1, _, _⟩ := sheetExec_exact ops [] Drawdown.Sheet.default h0
  rw [p4, ← hs, e2, e3, d1, List.nil_append, genAfter_generate]
  rw [show Drawdown.Sheet.default.mean = Drawdown.MeanGen.default from rfl,
    show Drawdown.Sheet.default.max = Drawdown.MaxGen.default from rfl,
    Drawdown.meanFold_eq_specMean, Drawdown.maxFold_eq_specMax]
  rfl

/-! ### the asset generator and the instrument generator with interleaved `generate` calls -/

def sopsOfA : List AOp → List SOp
  | [] => []
  | .snap s :: r => .pt (pointOf s) :: sopsOfA r
  | .gen :: r => .gen :: sopsOfA r

def snapsOfA (ops : List AOp) : List BalSnap := ops.filterMap fun | .snap s => some s | .gen => none

theorem ptsOf_sopsOfA (ops : List AOp) : ptsOf (sopsOfA ops) = curveOf (snapsOfA ops) := by
  induction ops with
  | nil => rfl
  | cons op ops ih =>
    cases op with
    | snap s => simp [sopsOfA, ptsOf, snapsOfA, curveOf] at ih ⊢; exact ih
    | gen => simp [sopsOfA, ptsOf, snapsOfA, curveOf] at ih ⊢; exact ih

theorem AssetGen.exec_eq (ops : List AOp) : ∀ g : AssetGen,
    g.exec ops =
      ⟨((snapsOfA ops).getLast?.map (·.balance)).or g.balanceNow, sheetExec g.sheet (sopsOfA ops)⟩ := by
  induction ops with
  | nil => intro g; simp [AssetGen.exec, snapsOfA, sopsOfA, sheetExec]
  | cons op ops ih =>
    intro g
    have h := ih (g.step op)
    simp only [AssetGen.exec, List.foldl_cons] at h ⊢
    rw [h]
    cases op with
    | gen =>
      simp [AssetGen.step, AssetGen.generate, snapsOfA, sopsOfA, sheetExec, sheetStep]
    | snap s =>
      simp only [AssetGen.step, AssetGen.updateFromBalance, snapsOfA, sopsOfA, sheetExec, sheetStep,
        List.filterMap_cons, List.foldl_cons]
      congr 1
      cases hl : (List.filterMap (fun x => match x with | AOp.snap s => some s | AOp.gen => none) ops) with
      | nil => simp
      | cons t ts =>
        cases hl2 : (t :: ts).getLast? with
        | none => simp at hl2
        | some x => simp [List.getLast?_cons_cons, hl2]

/-- The cumulative-PnL points and the `generate` calls an instrument generator's sheet sees. -/
def sopsFrom (pnl : Rat) : List Metrics.Step → List SOp
  | [] => []
  | .pos p :: r =>
    .pt ⟨p.timeExit, pnl + p.closed.pnlRealised⟩ :: sopsFrom (pnl + p.closed.pnlRealised) r
  | .gen _ _ :: r => .gen :: sopsFrom pnl r

theorem genExec_sheet (f : Rat → Rat) (steps : List Metrics.Step) : ∀ g : Metrics.Gen,
    (Metrics.Gen.exec f g steps).sheet = sheetExec g.sheet (sopsFrom g.pnlRaw steps) := by
  induction steps with
  | nil => intro g; rfl
  | cons st steps ih =>
    intro g
    have h := ih (Metrics.Gen.step f g st)
    simp only [Metrics.Gen.exec, List.foldl_cons] at h ⊢
    rw [h]
    cases st with
    | pos p => simp [Metrics.Gen.step, Metrics.Gen.updateFromPosition, sopsFrom, sheetExec, sheetStep]
    | gen rf iv => simp [Metrics.Gen.step, Metrics.Gen.generate, sopsFrom, sheetExec, sheetStep]

theorem ptsOf_sopsFrom (steps : List Metrics.Step) : ∀ pnl : Rat,
    ptsOf (sopsFrom pnl steps) =
      Drawdown.pnlCurve pnl ((Metrics.positionsOf steps).map fun p => (p.timeExit, p.closed.pnlRealised)) := by
  induction steps with
  | nil => intro pnl; rfl
  | cons st steps ih =>
    intro pnl
    cases st with
    | pos p =>
      have := ih (pnl + p.closed.pnlRealised)
      simp [sopsFrom, ptsOf, Metrics.positionsOf, Drawdown.pnlCurve] at this ⊢
      exact this
    | gen rf iv =>
      have := ih pnl
      simp [sopsFrom, ptsOf, Metrics.positionsOf] at this ⊢
      exact this

/-! ### the two systems with interleaved `generate` calls -/

def stepsOf (rf : Rat) (i : Nat) (ops : List Op) : List Metrics.Step :=
  ops.filterMap fun
    | .ev (.position j p) => if j = i then some (.pos p) else none
    | .ev (.balance _ _) => none
    | .gen iv => some (.gen rf iv)

theorem SummaryGen.exec_append (f : Rat → Rat) (a : List Op) : ∀ (g : SummaryGen) (b : List Op),
    SummaryGen.exec f g (a ++ b) =
      ((SummaryGen.exec f (SummaryGen.exec f g a).1 b).1,
       (SummaryGen.exec f g a).2 ++ (SummaryGen.exec f (SummaryGen.exec f g a).1 b).2) := by
  induction a with
  | nil => intro g b; simp [SummaryGen.exec]
  | cons op a ih =>
    intro g b
    cases op with
    | ev e => simp [SummaryGen.exec, ih]
    | gen iv => simp [SummaryGen.exec, ih]

theorem EngState.exec_append (f : Rat → Rat) (rf : Rat) (start now : Int) (a : List Op) :
    ∀ (s : EngState) (b : List Op),
    EngState.exec f rf start now s (a ++ b) =
      ((EngState.exec f rf start now (EngState.exec f rf start now s a).1 b).1,
       (EngState.exec f rf start now s a).2 ++
         (EngState.exec f rf start now (EngState.exec f rf start now s a).1 b).2) := by
  induction a with
  | nil => intro s b; simp [EngState.exec]
  | cons op a ih =>
    intro s b
    cases op with
    | ev e => simp [EngState.exec, ih]
    | gen iv => simp [EngState.exec, ih]

/-- Engine path: summary requests are invisible to the engine state. -/
theorem EngState.exec_state (f : Rat → Rat) (rf : Rat) (start now : Int) (ops : List Op) :
    ∀ s : EngState, (EngState.exec f rf start now s ops).1 = s.run f (eventsOf ops) := by
  induction ops with
  | nil => intro s; rfl
  | cons op ops ih =>
    intro s
    cases op with
    | ev e => simp [EngState.exec, eventsOf, EngState.run, ih]
    | gen iv => simp [EngState.exec, eventsOf, ih]

theorem SummaryGen.exec_fixed (f : Rat → Rat) (ops : List Op) : ∀ g : SummaryGen,
    (SummaryGen.exec f g ops).1.riskFreeReturn = g.riskFreeReturn ∧
    (SummaryGen.exec f g ops).1.instruments.length = g.instruments.length ∧
    (SummaryGen.exec f g ops).1.assets.length = g.assets.length := by
  induction ops with
  | nil => intro g; simp [SummaryGen.exec]
  | cons op ops ih =>
    intro g
    cases op with
    | ev e =>
      obtain ⟨h1, h2, h3⟩ := ih (g.step f e)
      obtain ⟨k1, k2, k3, _, _⟩ := SummaryGen.step_fixed f g e
      simp only [SummaryGen.exec]
      exact ⟨h1.trans k3, h2.trans k1, h3.trans k2⟩
    | gen iv =>
      obtain ⟨h1, h2, h3⟩ := ih (g.generate f iv).1
      obtain ⟨k1, _, _, k4, k5, _⟩ := SummaryGen.generate_fixed f g iv
      simp only [SummaryGen.exec]
      exact ⟨h1.trans k1, h2.trans k4, h3.trans k5⟩

/-- Direct path, instruments: entry `i` of the long-lived generator has seen exactly `i`'s exited
positions and EVERY `generate` call, in order. -/
theorem SummaryGen.exec_instrument (f : Rat → Rat) (i : Nat) (ops : List Op) :
    ∀ (g : SummaryGen) (t : Metrics.Gen), g.instruments[i]? = some t →
    (SummaryGen.exec f g ops).1.instruments[i]? =
      some (Metrics.Gen.exec f t (stepsOf g.riskFreeReturn i ops)) := by
  induction ops with
  | nil => intro g t h; simpa [SummaryGen.exec, stepsOf, Metrics.Gen.exec] using h
  | cons op ops ih =>
    intro g t h
    cases op with
    | gen iv =>
      have h' : (g.generate f iv).1.instruments[i]? = some (t.generate f g.riskFreeReturn iv).1 := by
        rw [(SummaryGen.generate_instrument f g iv i).2, h]; rfl
      have := ih _ _ h'
      rw [(SummaryGen.generate_fixed f g iv).1] at this
      simp only [SummaryGen.exec]
      rw [this]
      simp [stepsOf, Metrics.Gen.exec, Metrics.Gen.step]
    | ev e =>
      simp only [SummaryGen.exec]
      cases e with
      | balance a b =>
        have h' : (g.step f (.balance a b)).instruments[i]? = some t := by
          simpa [SummaryGen.step, SummaryGen.updateFromBalance] using h
        have := ih _ _ h'
        rw [(SummaryGen.step_fixed f g _).2.2.1] at this
        rw [this]; simp [stepsOf]
      | position j p =>
        by_cases hj : j = i
        · subst hj
          have h' : (g.step f (.position j p)).instruments[j]? = some (t.updateFromPosition f p) := by
            simp [SummaryGen.step, SummaryGen.updateFromPosition, TearSheet.modifyAt_getElem?, h]
          have := ih _ _ h'
          rw [(SummaryGen.step_fixed f g _).2.2.1] at this
          rw [this]; simp [stepsOf, Metrics.Gen.exec, Metrics.Gen.step]
        · have h' : (g.step f (.position j p)).instruments[i]? = some t := by
            simp [SummaryGen.step, SummaryGen.updateFromPosition, TearSheet.modifyAt_getElem?, h,
              show ¬ i = j from fun e => hj e.symm]
          have := ih _ _ h'
          rw [(SummaryGen.step_fixed f g _).2.2.1] at this
          rw [this]; simp [stepsOf, hj]

/-- Direct path, assets: entry `a` has seen exactly `a`'s snapshots and EVERY `generate` call. -/
theorem SummaryGen.exec_asset (f : Rat → Rat) (a : Nat) (ops : List Op) :
    ∀ (g : SummaryGen) (t : AssetGen), g.assets[a]? = some t →
    (SummaryGen.exec f g ops).1.assets[a]? = some (t.exec (aopsOf a ops)) := by
  induction ops with
  | nil => intro g t h; simpa [SummaryGen.exec, aopsOf, AssetGen.exec] using h
  | cons op ops ih =>
    intro g t h
    cases op with
    | gen iv =>
      have h' : (g.generate f iv).1.assets[a]? = some t.generate.1 := by
        rw [(SummaryGen.generate_asset f g iv a).2, h]; rfl
      simp only [SummaryGen.exec]
      rw [ih _ _ h']
      simp [aopsOf, AssetGen.exec, AssetGen.step]
    | ev e =>
      simp only [SummaryGen.exec]
      cases e with
      | position j p =>
        have h' : (g.step f (.position j p)).assets[a]? = some t := by
          simpa [SummaryGen.step, SummaryGen.updateFromPosition] using h
        rw [ih _ _ h']; simp [aopsOf]
      | balance b sn =>
        by_cases hb : b = a
        · subst hb
          have h' : (g.step f (.balance b sn)).assets[b]? = some (t.updateFromBalance sn) := by
            simp [SummaryGen.step, SummaryGen.updateFromBalance, TearSheet.modifyAt_getElem?, h]
          rw [ih _ _ h']; simp [aopsOf, AssetGen.exec, AssetGen.step]
        · have h' : (g.step f (.balance b sn)).assets[a]? = some t := by
            simp [SummaryGen.step, SummaryGen.updateFromBalance, TearSheet.modifyAt_getElem?, h,
              show ¬ a = b from fun e => hb e.symm]
          rw [ih _ _ h']; simp [aopsOf, hb]

theorem positionsOf_stepsOf (rf : Rat) (i : Nat) (ops : List Op) :
    Metrics.positionsOf (stepsOf rf i ops) = exitsOf i (eventsOf ops) := by
  induction ops with
  | nil => rfl
  | cons op ops ih =>
    cases op with
    | gen iv => simpa [stepsOf, Metrics.positionsOf, eventsOf, exitsOf] using ih
    | ev e =>
      cases e with
      | balance a b => simpa [stepsOf, Metrics.positionsOf, eventsOf, exitsOf] using ih
      | position j p =>
        by_cases hj : j = i
        · simp [stepsOf, Metrics.positionsOf, eventsOf, exitsOf, hj] at ih ⊢; exact ih
        · simp [stepsOf, Metrics.positionsOf, eventsOf, exitsOf, hj] at ih ⊢; exact ih

theorem snapsOfA_aopsOf (a : Nat) (ops : List Op) :
    snapsOfA (aopsOf a ops) = snapsOf a (eventsOf ops) := by
  induction ops with
  | nil => rfl
  | cons op ops ih =>
    cases op with
    | gen iv => simpa [aopsOf, snapsOfA, eventsOf, snapsOf] using ih
    | ev e =>
      cases e with
      | position j p => simpa [aopsOf, snapsOfA, eventsOf, snapsOf] using ih
      | balance b s =>
        by_cases hb : b = a
        · simp [aopsOf, snapsOfA, eventsOf, snapsOf, hb] at ih ⊢; exact ih
        · simp [aopsOf, snapsOfA, eventsOf, snapsOf, hb] at ih ⊢; exact ih

/-! ### projection of the engine-held asset state onto the C16 model -/

def toSnap (m : Stale.Msg Stale.Bal) : BalSnap := ⟨m.1, ⟨m.2.1, m.2.2⟩⟩

def projState (a : AssetState) : TearSheet.AssetState :=
  ⟨⟨a.statistics.balanceNow⟩, a.balance.map toSnap⟩

theorem projState_update (a : AssetState) (s : BalSnap) :
    projState (a.updateFromBalance s) = (projState a).updateFromBalance s := by
  obtain ⟨st, b⟩ := a
  cases b with
  | none =>
    simp [projState, AssetState.updateFromBalance, TearSheet.AssetState.updateFromBalance,
      AssetGen.updateFromBalance, TearSheet.TearSheetAssetGenerator.updateFromBalance, toSnap, msgOf]
  | some c =>
    by_cases h : c.1 ≤ s.time
    · simp [projState, AssetState.updateFromBalance, TearSheet.AssetState.updateFromBalance,
        AssetGen.updateFromBalance, TearSheet.TearSheetAssetGenerator.updateFromBalance, toSnap, msgOf,
        Stale.passes, h]
    · simp [projState, AssetState.updateFromBalance, TearSheet.AssetState.updateFromBalance, toSnap,
        Stale.passes, h]

theorem projState_run (snaps : List BalSnap) : ∀ a : AssetState,
    projState (a.run snaps) = (projState a).run snaps := by
  induction snaps with
  | nil => intro a; rfl
  | cons s ss ih =>
    intro a
    simp only [AssetState.run, TearSheet.AssetState.run, List.foldl_cons] at ih ⊢
    rw [ih, projState_update]

/-- The balance the engine-held generator ends with: the last non-stale snapshot's, which is C16's
"most recent by exchange time". -/
theorem nonStale_last_is_latest (snaps : List BalSnap) :
    (nonStale none snaps).getLast?.map (·.balance) = (TearSheet.latest snaps).map (·.balance) := by
  have h1 := (TearSheet.AssetState.run_default snaps).2
  have h2 := projState_run snaps AssetState.default
  have h3 := AssetState.run_eq snaps AssetState.default
  have : (projState (AssetState.default.run snaps)).statistics.balanceNow =
      (nonStale none snaps).getLast?.map (·.balance) := by
    rw [h3]
    simp only [projState, AssetState.default, AssetGen.run_eq, AssetGen.default, Option.or_none]
  rw [← this, h2, ← h1]
  rfl


/-! ### `generate` calls at moments without a drawdown in progress are harmless -/

/-- every `generate` in `ops` happens while no drawdown is in progress (`pts` = the points before `ops`) -/
def FlatAtGens : List Drawdown.Pt → List SOp → Prop
  | _, [] => True
  | pts, .pt q :: ops => FlatAtGens (pts ++ [q]) ops
  | pts, .gen :: ops => (Drawdown.decompose pts).2 = none ∧ FlatAtGens pts ops

theorem emitted_flat (ops : List SOp) : ∀ pts : List Drawdown.Pt, FlatAtGens pts ops →
    emitted pts ops = emitted pts ((ptsOf ops).map SOp.pt) := by
  induction ops with
  | nil => intro pts _; rfl
  | cons op ops ih =>
    intro pts h
    cases op with
    | pt q =>
      have := ih (pts ++ [q]) h
      simp only [emitted, this, ptsOf, List.filterMap_cons, List.map_cons]
    | gen =>
      obtain ⟨h1, h2⟩ := h
      have := ih pts h2
      simp only [emitted, h1, Option.toList_none, List.nil_append, this, ptsOf, List.filterMap_cons]

theorem sheetExec_report_flat (ops : List SOp) (h : FlatAtGens [] ops) :
    (sheetExec Drawdown.Sheet.default ops).generate.2 =
      ⟨(Drawdown.decompose (ptsOf ops)).2, Drawdown.specMean (Drawdown.reported (ptsOf ops)),
       Drawdown.specMax (Drawdown.reported (ptsOf ops))⟩ := by
  have h2 := emitted_points_gen (ptsOf ops)
  rw [emitted_append, ptsOf_map_pt] at h2
  rw [sheetExec_report, emitted_append, emitted_flat ops [] h, h2]

/-! ### small list facts and the projected histories -/

theorem singleton_of {α : Type} {l : List α} {x : α} (h1 : l.length = 1) (h2 : l[0]? = some x) :
    l = [x] := by
  match l, h1 with
  | [y], _ => simp at h2; rw [h2]


theorem historyOf_projEv (i : Nat) (evs : List Ev) :
    TearSheet.historyOf i (evs.map projEv) = (exitsOf i evs).map (·.closed) := by
  induction evs with
  | nil => rfl
  | cons ev evs ih =>
    cases ev with
    | position j p =>
      simp only [List.map_cons, projEv, TearSheet.historyOf_cons_position, exitsOf_cons_position, ih]
      by_cases h : j = i <;> simp [h]
    | balance a s =>
      simp only [List.map_cons, projEv, TearSheet.historyOf_cons_balance, exitsOf_cons_balance, ih]

theorem balancesOf_projEv (a : Nat) (evs : List Ev) :
    TearSheet.balancesOf a (evs.map projEv) = snapsOf a evs := by
  induction evs with
  | nil => rfl
  | cons ev evs ih =>
    cases ev with
    | position j p =>
      simp only [List.map_cons, projEv, TearSheet.balancesOf_cons_position, snapsOf_cons_position, ih]
    | balance b s =>
      simp only [List.map_cons, projEv, TearSheet.balancesOf_cons_balance, snapsOf_cons_balance, ih]

/-! ### the checked runs -/

theorem EngState.step_lengths (f : Rat → Rat) (s : EngState) (ev : Ev) :
    (s.step f ev).instruments.length = s.instruments.length ∧
    (s.step f ev).assets.length = s.assets.length := by
  cases ev <;> simp [EngState.step, TearSheet.modifyAt_length]

theorem EngState.runChecked_eq (f : Rat → Rat) (evs : List Ev) : ∀ s : EngState,
    s.runChecked f evs =
      if evs.any (Ev.panics s.instruments.length s.assets.length) then none
      else some (s.run f evs) := by
  induction evs with
  | nil => intro s; rfl
  | cons ev evs ih =>
    intro s
    obtain ⟨l1, l2⟩ := EngState.step_lengths f s ev
    by_cases hp : ev.panics s.instruments.length s.assets.length = true
    · simp [EngState.runChecked, EngState.stepChecked, EngState.panicsOn, hp]
    · simp only [EngState.runChecked, EngState.stepChecked, EngState.panicsOn, hp, if_false,
        Bool.false_eq_true, List.any_cons, Bool.false_or, ih, l1, l2]
      rfl

theorem SummaryGen.runChecked_eq (f : Rat → Rat) (evs : List Ev) : ∀ g : SummaryGen,
    g.runChecked f evs =
      if evs.any (Ev.panics g.instruments.length g.assets.length) then none
      else some (g.run f evs) := by
  induction evs with
  | nil => intro g; rfl
  | cons ev evs ih =>
    intro g
    obtain ⟨l1, l2, _⟩ := SummaryGen.step_fixed f g ev
    by_cases hp : ev.panics g.instruments.length g.assets.length = true
    · simp [SummaryGen.runChecked, SummaryGen.stepChecked, SummaryGen.panicsOn, hp]
    · simp only [SummaryGen.runChecked, SummaryGen.stepChecked, SummaryGen.panicsOn, hp, if_false,
        Bool.false_eq_true, List.any_cons, Bool.false_or, ih, l1, l2]
      rfl

theorem SummaryGen.execChecked_eq (f : Rat → Rat) (ops : List Op) : ∀ g : SummaryGen,
    SummaryGen.execChecked f g ops =
      if (eventsOf ops).any (Ev.panics g.instruments.length g.assets.length) then none
      else some (SummaryGen.exec f g ops) := by
  induction ops with
  | nil => intro g; rfl
  | cons op ops ih =>
    intro g
    cases op with
    | ev e =>
      obtain ⟨l1, l2, _⟩ := SummaryGen.step_fixed f g e
      by_cases hp : e.panics g.instruments.length g.assets.length = true
      · simp [SummaryGen.execChecked, SummaryGen.stepChecked, SummaryGen.panicsOn, hp, eventsOf]
      · simp only [SummaryGen.execChecked, SummaryGen.stepChecked, SummaryGen.panicsOn, hp, if_false,
          Bool.false_eq_true, ih, l1, l2, eventsOf, List.filterMap_cons, List.any_cons, Bool.false_or]
        rfl
    | gen iv =>
      obtain ⟨_, _, _, k4, k5, _⟩ := SummaryGen.generate_fixed f g iv
      simp only [SummaryGen.execChecked, ih, k4, k5, eventsOf, List.filterMap_cons]
      split <;> rename_i h <;> simp [h, SummaryGen.exec]

theorem EngState.execChecked_eq (f : Rat → Rat) (rf : Rat) (start now : Int) (ops : List Op) :
    ∀ s : EngState,
    EngState.execChecked f rf start now s ops =
      if (eventsOf ops).any (Ev.panics s.instruments.length s.assets.length) then none
      else some (EngState.exec f rf start now s ops) := by
  induction ops with
  | nil => intro s; rfl
  | cons op ops ih =>
    intro s
    cases op with
    | ev e =>
      obtain ⟨l1, l2⟩ := EngState.step_lengths f s e
      by_cases hp : e.panics s.instruments.length s.assets.length = true
      · simp [EngState.execChecked, EngState.stepChecked, EngState.panicsOn, hp, eventsOf]
      · simp only [EngState.execChecked, EngState.stepChecked, EngState.panicsOn, hp, if_false,
          Bool.false_eq_true, ih, l1, l2, eventsOf, List.filterMap_cons, List.any_cons, Bool.false_or]
        rfl
    | gen iv =>
      have e : eventsOf (Op.gen iv :: ops) = eventsOf ops := rfl
      rw [e]
      by_cases h : (eventsOf ops).any (Ev.panics s.instruments.length s.assets.length) = true
      · simp only [EngState.execChecked, ih, if_pos h]; rfl
      · simp only [EngState.execChecked, ih, if_neg h]; rfl

theorem Ev.panics_iff (n m : Nat) (ev : Ev) :
    ev.panics n m = true ↔
      match ev with
      | .position i p => n ≤ i ∨ p.closed.priceEntryAverage * p.closed.quantityAbsMax = 0
      | .balance a _ => m ≤ a := by
  cases ev with
  | position i p => simp [Ev.panics, Metrics.Exit.panics_iff]
  | balance a s => simp [Ev.panics]

theorem mem_exitsOf (i : Nat) (p : Exit) (evs : List Ev) (h : Ev.position i p ∈ evs) :
    p ∈ exitsOf i evs := by
  unfold exitsOf
  exact List.mem_filterMap.mpr ⟨_, h, by simp⟩

theorem mem_snapsOf (a : Nat) (s : BalSnap) (evs : List Ev) (h : Ev.balance a s ∈ evs) :
    s ∈ snapsOf a evs := by
  unfold snapsOf
  exact List.mem_filterMap.mpr ⟨_, h, by simp⟩

theorem exitsOf_mem (i : Nat) (p : Exit) (evs : List Ev) (h : p ∈ exitsOf i evs) :
    Ev.position i p ∈ evs := by
  unfold exitsOf at h
  obtain ⟨ev, hev, e⟩ := List.mem_filterMap.mp h
  cases ev with
  | position j q =>
    by_cases hj : j = i
    · simp [hj] at e; subst e; subst hj; exact hev
    · simp [hj] at e
  | balance a s => simp at e

/-- A running maximum that is not positive reports nothing: C18's decomposition (and the generators it
mirrors) continues from the next higher point as if the curve started there. -/
theorem decompose_skip_nonpos_peak (p : Drawdown.Pt) (rest : List Drawdown.Pt) (hp : p.v ≤ 0) :
    Drawdown.decompose (p :: rest) =
      Drawdown.decompose (rest.dropWhile (fun q => decide (q.v ≤ p.v))) := by
  have hseg : ∀ q ∈ rest.takeWhile (fun q => decide (q.v ≤ p.v)), q.v ≤ p.v := by
    intro q hq
    simpa using (Metrics.mem_takeWhile_imp' _ _ q hq)
  have hd : ∀ t, Drawdown.ddOf p (rest.takeWhile (fun q => decide (q.v ≤ p.v))) t = none := by
    intro t
    simp [Drawdown.ddOf, Metrics.depthOf_nonpos_peak p _ hp hseg]
  rw [Drawdown.decompose_cons]
  cases hh : (rest.dropWhile (fun q => decide (q.v ≤ p.v))).head? with
  | none =>
    have : rest.dropWhile (fun q => decide (q.v ≤ p.v)) = [] := List.head?_eq_none_iff.mp hh
    simp [hd, this, Drawdown.decompose]
  | some q => simp [hd]

end BarterModel.KeyedSummary
