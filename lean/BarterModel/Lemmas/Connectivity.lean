import BarterModel.Model.Connectivity
/-! Helper lemmas for C14. -/
namespace BarterModel.Conn

/-- Global health recomputed from the links. -/
def canon (exs : List CState) : States :=
  { global := if exs.all CState.allHealthy then .healthy else .reconnecting, exchanges := exs }

def Canon (s : States) : Prop := s = canon s.exchanges

def setMarket (h : Health) (c : CState) : CState := { c with marketData := h }
def setAccount (h : Health) (c : CState) : CState := { c with account := h }

theorem canon_init (n : Nat) (hn : 0 < n) : Canon (States.init n) := by
  cases n with
  | zero => omega
  | succ k => simp [Canon, canon, States.init, List.replicate_succ, CState.allHealthy]

theorem modify_length (l : List CState) (e : Nat) (f : CState → CState) :
    (modify l e f).length = l.length := by
  unfold modify; split <;> simp

theorem modify_getElem? (l : List CState) (e e' : Nat) (f : CState → CState) :
    (modify l e f)[e']? = if e' = e then l[e]?.map f else l[e']? := by
  unfold modify
  split
  · rename_i c hc
    by_cases h : e' = e
    · subst h; simp [hc]
      have : e' < l.length := by
        rcases List.getElem?_eq_some_iff.mp hc with ⟨h, _⟩; exact h
      simp [this]
    · simp [h, List.getElem?_set, Ne.symm h]
  · rename_i hc
    by_cases h : e' = e
    · subst h; simp [hc]
    · simp [h]

theorem all_set_not (l : List CState) (e : Nat) (c : CState) (he : e < l.length)
    (hc : c.allHealthy = false) : (l.set e c).all CState.allHealthy = false := by
  rw [List.all_eq_false]
  refine ⟨c, ?_, by simp [hc]⟩
  exact List.mem_iff_getElem.mpr ⟨e, by simpa using he, by simp⟩

theorem marketReconnecting_eq (s : States) (e : Nat) (he : e < s.exchanges.length) :
    s.marketReconnecting e = canon (modify s.exchanges e (setMarket .reconnecting)) := by
  unfold States.marketReconnecting canon
  have hc : s.exchanges[e]? = some s.exchanges[e] := by simp [he]
  have : (modify s.exchanges e (setMarket .reconnecting)).all CState.allHealthy = false := by
    unfold modify; rw [hc]; simp only
    exact all_set_not _ _ _ he (by simp [setMarket, CState.allHealthy])
  simp [this]; rfl

theorem accountReconnecting_eq (s : States) (e : Nat) (he : e < s.exchanges.length) :
    s.accountReconnecting e = canon (modify s.exchanges e (setAccount .reconnecting)) := by
  unfold States.accountReconnecting canon
  have hc : s.exchanges[e]? = some s.exchanges[e] := by simp [he]
  have : (modify s.exchanges e (setAccount .reconnecting)).all CState.allHealthy = false := by
    unfold modify; rw [hc]; simp only
    exact all_set_not _ _ _ he (by simp [setAccount, CState.allHealthy])
  simp [this]; rfl

theorem set_self_of_eq (l : List CState) (e : Nat) (c : CState) (h : l[e]? = some c) :
    l.set e c = l := by
  apply List.ext_getElem?
  intro i
  by_cases hi : e = i
  · subst hi
    rcases List.getElem?_eq_some_iff.mp h with ⟨hl, hc⟩
    simp [List.getElem?_set, hl, hc]
  · simp [List.getElem?_set, hi]

theorem marketEvent_eq (s : States) (e : Nat) (hs : Canon s) (he : e < s.exchanges.length) :
    s.marketEvent e = canon (modify s.exchanges e (setMarket .healthy)) := by
  have hc : s.exchanges[e]? = some s.exchanges[e] := by simp [he]
  unfold States.marketEvent
  by_cases hg : s.global = .healthy
  · -- everything already healthy: nothing changes
    have hall : s.exchanges.all CState.allHealthy = true := by
      rw [hs] at hg; unfold canon at hg
      by_cases h : s.exchanges.all CState.allHealthy = true
      · exact h
      · simp [h] at hg
    have hm : s.exchanges[e].marketData = .healthy := by
      have := (List.all_eq_true.mp hall) s.exchanges[e] (List.getElem_mem he)
      simp [CState.allHealthy] at this; exact this.1
    have hset : modify s.exchanges e (setMarket .healthy) = s.exchanges := by
      unfold modify; rw [hc]; simp only
      apply set_self_of_eq; rw [hc]; congr 1
      cases hx : s.exchanges[e]; simp_all [setMarket]
    simp [hg, hset]; exact hs
  · simp only [beq_iff_eq, hg, ↓reduceIte, hc]
    by_cases hm : s.exchanges[e].marketData = .healthy
    · have hset : modify s.exchanges e (setMarket .healthy) = s.exchanges := by
        unfold modify; rw [hc]; simp only
        apply set_self_of_eq; rw [hc]; congr 1
        cases hx : s.exchanges[e]; simp_all [setMarket]
      simp [hm, hset]; exact hs
    · simp only [hm, ↓reduceIte]
      unfold canon modify; rw [hc]; simp only [setMarket]
      split
      · rename_i h; simp [h]
      · rename_i h; simp [h]
        cases hg' : s.global
        · exact absurd hg' hg
        · rfl

theorem accountEvent_eq (s : States) (e : Nat) (hs : Canon s) (he : e < s.exchanges.length) :
    s.accountEvent e = canon (modify s.exchanges e (setAccount .healthy)) := by
  have hc : s.exchanges[e]? = some s.exchanges[e] := by simp [he]
  unfold States.accountEvent
  by_cases hg : s.global = .healthy
  · have hall : s.exchanges.all CState.allHealthy = true := by
      rw [hs] at hg; unfold canon at hg
      by_cases h : s.exchanges.all CState.allHealthy = true
      · exact h
      · simp [h] at hg
    have hm : s.exchanges[e].account = .healthy := by
      have := (List.all_eq_true.mp hall) s.exchanges[e] (List.getElem_mem he)
      simp [CState.allHealthy] at this; exact this.2
    have hset : modify s.exchanges e (setAccount .healthy) = s.exchanges := by
      unfold modify; rw [hc]; simp only
      apply set_self_of_eq; rw [hc]; congr 1
      cases hx : s.exchanges[e]; simp_all [setAccount]
    simp [hg, hset]; exact hs
  · simp only [beq_iff_eq, hg, ↓reduceIte, hc]
    by_cases hm : s.exchanges[e].account = .healthy
    · have hset : modify s.exchanges e (setAccount .healthy) = s.exchanges := by
        unfold modify; rw [hc]; simp only
        apply set_self_of_eq; rw [hc]; congr 1
        cases hx : s.exchanges[e]; simp_all [setAccount]
      simp [hm, hset]; exact hs
    · simp only [hm, ↓reduceIte]
      unfold canon modify; rw [hc]; simp only [setAccount]
      split
      · rename_i h; simp [h]
      · rename_i h; simp [h]
        cases hg' : s.global
        · exact absurd hg' hg
        · rfl

/-- The pure per-link effect of one event. -/
def linkStep (exs : List CState) : Ev → List CState
  | .marketItem e => modify exs e (setMarket .healthy)
  | .accountItem e => modify exs e (setAccount .healthy)
  | .marketReconnecting e => modify exs e (setMarket .reconnecting)
  | .accountReconnecting e => modify exs e (setAccount .reconnecting)

theorem canon_canon (exs : List CState) : Canon (canon exs) := rfl

theorem step_conn_eq (s : Eng) (ev : Ev) (hs : Canon s.conn) (he : ev.exchange < s.conn.exchanges.length) :
    (s.step ev).conn = canon (linkStep s.conn.exchanges ev) := by
  cases ev <;> simp only [Eng.step, linkStep, Ev.exchange] at *
  · exact marketEvent_eq _ _ hs he
  · exact accountEvent_eq _ _ hs he
  · exact marketReconnecting_eq _ _ he
  · exact accountReconnecting_eq _ _ he

theorem linkStep_length (exs : List CState) (ev : Ev) : (linkStep exs ev).length = exs.length := by
  cases ev <;> simp [linkStep, modify_length]

end BarterModel.Conn
