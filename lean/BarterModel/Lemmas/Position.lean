import BarterModel.Model.Position
/-! Helper lemmas for C02 (and later C15/C16): field projections of the four arms of
`update_from_trade`, the arm case split, and the single-step laws (signed size, conservation, fees,
well-formedness, exit-iff-cross). -/
namespace BarterModel.Position

macro "inc_field" : tactic =>
  `(tactic| (simp only [Position.increase, Position.updatePnlUnrealised]; try (split <;> rfl)))
section fields
variable (p : Position) (t : Trade) (id : Nat)

@[simp] theorem pushTrade_side : (p.pushTrade id).side = p.side := rfl
@[simp] theorem pushTrade_instrument : (p.pushTrade id).instrument = p.instrument := rfl
@[simp] theorem pushTrade_pea : (p.pushTrade id).priceEntryAverage = p.priceEntryAverage := rfl
@[simp] theorem pushTrade_qabs : (p.pushTrade id).quantityAbs = p.quantityAbs := rfl
@[simp] theorem pushTrade_qmax : (p.pushTrade id).quantityAbsMax = p.quantityAbsMax := rfl
@[simp] theorem pushTrade_pnl : (p.pushTrade id).pnlRealised = p.pnlRealised := rfl
@[simp] theorem pushTrade_fe : (p.pushTrade id).feesEnter = p.feesEnter := rfl
@[simp] theorem pushTrade_fx : (p.pushTrade id).feesExit = p.feesExit := rfl
@[simp] theorem pushTrade_te : (p.pushTrade id).timeEnter = p.timeEnter := rfl
@[simp] theorem pushTrade_trades : (p.pushTrade id).trades = p.trades ++ [id] := rfl

@[simp] theorem increase_side : (p.increase t).side = p.side := by
  inc_field
@[simp] theorem increase_instrument : (p.increase t).instrument = p.instrument := by
  inc_field
@[simp] theorem increase_pea : (p.increase t).priceEntryAverage =
    calculatePriceEntryAverage p.priceEntryAverage p.quantityAbs t.price (abs t.quantity) := by
  inc_field
@[simp] theorem increase_qabs : (p.increase t).quantityAbs = p.quantityAbs + abs t.quantity := by
  inc_field
@[simp] theorem increase_qmax : (p.increase t).quantityAbsMax =
    if p.quantityAbs + abs t.quantity > p.quantityAbsMax then p.quantityAbs + abs t.quantity
    else p.quantityAbsMax := by
  inc_field
@[simp] theorem increase_pnl : (p.increase t).pnlRealised = p.pnlRealised - t.fees := by
  inc_field
@[simp] theorem increase_fe : (p.increase t).feesEnter = p.feesEnter + t.fees := by
  inc_field
@[simp] theorem increase_fx : (p.increase t).feesExit = p.feesExit := by
  inc_field
@[simp] theorem increase_te : (p.increase t).timeEnter = p.timeEnter := by
  inc_field
@[simp] theorem increase_tu : (p.increase t).timeExchangeUpdate = t.time := by
  inc_field
@[simp] theorem increase_trades : (p.increase t).trades = p.trades := by
  inc_field

@[simp] theorem reduce_side : (p.reduce t).side = p.side := rfl
@[simp] theorem reduce_instrument : (p.reduce t).instrument = p.instrument := rfl
@[simp] theorem reduce_pea : (p.reduce t).priceEntryAverage = p.priceEntryAverage := rfl
@[simp] theorem reduce_qabs : (p.reduce t).quantityAbs = p.quantityAbs - abs t.quantity := rfl
@[simp] theorem reduce_qmax : (p.reduce t).quantityAbsMax = p.quantityAbsMax := rfl
@[simp] theorem reduce_pnl : (p.reduce t).pnlRealised = p.pnlRealised +
    calculatePnlRealised p.side p.priceEntryAverage t.quantity t.price t.fees := rfl
@[simp] theorem reduce_fe : (p.reduce t).feesEnter = p.feesEnter := rfl
@[simp] theorem reduce_fx : (p.reduce t).feesExit = p.feesExit + t.fees := rfl
@[simp] theorem reduce_te : (p.reduce t).timeEnter = p.timeEnter := rfl
@[simp] theorem reduce_tu : (p.reduce t).timeExchangeUpdate = t.time := rfl
@[simp] theorem reduce_trades : (p.reduce t).trades = p.trades := rfl

@[simp] theorem closeExact_side : (p.closeExact t).side = p.side := rfl
@[simp] theorem closeExact_instrument : (p.closeExact t).instrument = p.instrument := rfl
@[simp] theorem closeExact_pea : (p.closeExact t).priceEntryAverage = p.priceEntryAverage := rfl
@[simp] theorem closeExact_qmax : (p.closeExact t).quantityAbsMax = p.quantityAbsMax := rfl
@[simp] theorem closeExact_pnl : (p.closeExact t).pnlRealised = p.pnlRealised +
    calculatePnlRealised p.side p.priceEntryAverage t.quantity t.price t.fees := rfl
@[simp] theorem closeExact_fe : (p.closeExact t).feesEnter = p.feesEnter := rfl
@[simp] theorem closeExact_fx : (p.closeExact t).feesExit = p.feesExit + t.fees := rfl
@[simp] theorem closeExact_te : (p.closeExact t).timeEnter = p.timeEnter := rfl
@[simp] theorem closeExact_tx : (p.closeExact t).timeExit = t.time := rfl
@[simp] theorem closeExact_trades : (p.closeExact t).trades = p.trades := rfl

@[simp] theorem flip_exit_side : (p.flip t).2.side = p.side := rfl
@[simp] theorem flip_exit_instrument : (p.flip t).2.instrument = p.instrument := rfl
@[simp] theorem flip_exit_pea : (p.flip t).2.priceEntryAverage = p.priceEntryAverage := rfl
@[simp] theorem flip_exit_qmax : (p.flip t).2.quantityAbsMax = p.quantityAbsMax := rfl
@[simp] theorem flip_exit_pnl : (p.flip t).2.pnlRealised = p.pnlRealised +
    calculatePnlRealised p.side p.priceEntryAverage p.quantityAbs t.price
      (t.fees * (p.quantityAbs / abs t.quantity)) := rfl
@[simp] theorem flip_exit_fe : (p.flip t).2.feesEnter = p.feesEnter := rfl
@[simp] theorem flip_exit_fx : (p.flip t).2.feesExit =
    p.feesExit + t.fees * (p.quantityAbs / abs t.quantity) := rfl
@[simp] theorem flip_exit_te : (p.flip t).2.timeEnter = p.timeEnter := rfl
@[simp] theorem flip_exit_tx : (p.flip t).2.timeExit = t.time := rfl
@[simp] theorem flip_exit_trades : (p.flip t).2.trades = p.trades := rfl
theorem flip_next : (p.flip t).1 = Position.ofTrade
    { t with quantity := abs t.quantity - p.quantityAbs,
             fees := t.fees * ((abs t.quantity - p.quantityAbs) / abs t.quantity) } := rfl
end fields



theorem sum_append_rat (l₁ l₂ : List Rat) : (l₁ ++ l₂).sum = l₁.sum + l₂.sum := by
  induction l₁ with
  | nil => simp [Rat.zero_add]
  | cons a l ih => simp [ih, Rat.add_assoc]

theorem abs_pos {q : Rat} (h : 0 < q) : abs q = q := by
  unfold abs; grind

/-- The four arms of `update_from_trade` as a case split (same instrument). -/
theorem updateFromTrade_cases (p : Position) (t : Trade) (hi : p.instrument = t.instrument) :
    (p.side = t.side ∧ p.updateFromTrade t = (some ((p.pushTrade t.id).increase t), none)) ∨
    (p.side ≠ t.side ∧ abs t.quantity < p.quantityAbs ∧
      p.updateFromTrade t = (some ((p.pushTrade t.id).reduce t), none)) ∨
    (p.side ≠ t.side ∧ p.quantityAbs = abs t.quantity ∧
      p.updateFromTrade t = (none, some ((p.pushTrade t.id).closeExact t))) ∨
    (p.side ≠ t.side ∧ p.quantityAbs < abs t.quantity ∧
      p.updateFromTrade t =
        (some ((p.pushTrade t.id).flip t).1, some ((p.pushTrade t.id).flip t).2)) := by
  unfold Position.updateFromTrade
  simp only [hi, ne_eq, not_true_eq_false, ↓reduceIte, pushTrade_side, pushTrade_qabs]
  by_cases hs : p.side = t.side
  · simp [hs]
  · by_cases h1 : p.quantityAbs > abs t.quantity
    · simp [hs, h1]
    · by_cases h2 : p.quantityAbs = abs t.quantity
      · simp [hs, h2]
      · simp [hs, h1, h2]; grind



/-- A position's contribution to the conservation law: realised PnL minus the open quantity valued
at the average entry price. -/
def Position.cons (p : Position) : Rat := p.pnlRealised - p.signedQty * p.priceEntryAverage

structure WF (i : Nat) (p : Position) : Prop where
  instr : p.instrument = i
  pos : 0 < p.quantityAbs
  le : p.quantityAbs ≤ p.quantityAbsMax

def optSigned : Option Position → Rat
  | some p => p.signedQty
  | none => 0
def optCons : Option Position → Rat
  | some p => p.cons
  | none => 0
def optFees : Option Position → Rat
  | some p => p.feesEnter + p.feesExit
  | none => 0
def exPnl : Option PositionExited → Rat
  | some e => e.pnlRealised
  | none => 0
def exFees : Option PositionExited → Rat
  | some e => e.feesEnter + e.feesExit
  | none => 0

theorem update_signed {i : Nat} {p : Position} (hp : WF i p) {t : Trade} (hi : t.instrument = i)
    (hq : 0 < t.quantity) :
    optSigned (p.updateFromTrade t).1 = p.signedQty + signedQty t := by
  have hi' : p.instrument = t.instrument := by rw [hp.instr, hi]
  have hpos := hp.pos
  have habs := abs_pos hq
  rcases updateFromTrade_cases p t hi' with ⟨hs, h⟩ | ⟨hs, hlt, h⟩ | ⟨hs, heq, h⟩ | ⟨hs, hlt, h⟩ <;>
    rw [h] <;> simp only [optSigned, Position.signedQty, signedQty, increase_side, increase_qabs,
      reduce_side, reduce_qabs, pushTrade_side, pushTrade_qabs, flip_next, Position.ofTrade, habs] at * <;>
    cases hps : p.side <;> cases hts : t.side <;> simp_all <;> grind [abs]



theorem update_fees {i : Nat} {p : Position} (hp : WF i p) {t : Trade} (hi : t.instrument = i)
    (hq : 0 < t.quantity) :
    exFees (p.updateFromTrade t).2 + optFees (p.updateFromTrade t).1 =
      p.feesEnter + p.feesExit + t.fees := by
  have hi' : p.instrument = t.instrument := by rw [hp.instr, hi]
  have habs := abs_pos hq
  have hne : t.quantity ≠ 0 := by grind
  rcases updateFromTrade_cases p t hi' with ⟨hs, h⟩ | ⟨hs, hlt, h⟩ | ⟨hs, heq, h⟩ | ⟨hs, hlt, h⟩ <;>
    rw [h] <;> simp only [optFees, exFees, increase_fe, increase_fx, reduce_fe, reduce_fx,
      closeExact_fe, closeExact_fx, flip_exit_fe, flip_exit_fx, pushTrade_fe, pushTrade_fx,
      pushTrade_qabs, flip_next, Position.ofTrade, habs] <;> grind

theorem update_wf {i : Nat} {p : Position} (hp : WF i p) {t : Trade} (hi : t.instrument = i)
    (hq : 0 < t.quantity) (p' : Position) (h' : (p.updateFromTrade t).1 = some p') : WF i p' := by
  have hi' : p.instrument = t.instrument := by rw [hp.instr, hi]
  have habs := abs_pos hq
  have ⟨h1, h2, h3⟩ := hp
  rcases updateFromTrade_cases p t hi' with ⟨hs, h⟩ | ⟨hs, hlt, h⟩ | ⟨hs, heq, h⟩ | ⟨hs, hlt, h⟩ <;>
    rw [h] at h' <;> simp only [Option.some.injEq, reduceCtorEq] at h' <;> subst h'
  · constructor <;> simp only [increase_instrument, increase_qabs, increase_qmax, pushTrade_instrument,
      pushTrade_qabs, pushTrade_qmax, habs] <;> grind
  · constructor <;> simp only [reduce_instrument, reduce_qabs, reduce_qmax, pushTrade_instrument,
      pushTrade_qabs, pushTrade_qmax, habs] <;> grind
  · rw [habs] at hlt
    constructor <;> simp only [flip_next, Position.ofTrade, pushTrade_qabs, habs] <;> grind [abs]

theorem update_exit_iff {i : Nat} {p : Position} (hp : WF i p) {t : Trade} (hi : t.instrument = i)
    (hq : 0 < t.quantity) :
    (p.updateFromTrade t).2.isSome ↔
      ReachesOrCrossesZero p.signedQty (p.signedQty + signedQty t) := by
  have hi' : p.instrument = t.instrument := by rw [hp.instr, hi]
  have habs := abs_pos hq
  have ⟨h1, h2, h3⟩ := hp
  unfold ReachesOrCrossesZero
  rcases updateFromTrade_cases p t hi' with ⟨hs, h⟩ | ⟨hs, hlt, h⟩ | ⟨hs, heq, h⟩ | ⟨hs, hlt, h⟩ <;>
    rw [h] <;> simp only [Position.signedQty, signedQty, habs] at * <;>
    cases hps : p.side <;> cases hts : t.side <;> simp_all <;> grind

theorem update_cons {i : Nat} {p : Position} (hp : WF i p) {t : Trade} (hi : t.instrument = i)
    (hq : 0 < t.quantity) :
    exPnl (p.updateFromTrade t).2 + optCons (p.updateFromTrade t).1 = p.cons + cashOf t := by
  have hi' : p.instrument = t.instrument := by rw [hp.instr, hi]
  have habs := abs_pos hq
  have hne : t.quantity ≠ 0 := by grind
  have ⟨h1, h2, h3⟩ := hp
  have hne2 : p.quantityAbs + t.quantity ≠ 0 := by grind
  have habs2 := abs_pos h2
  rcases updateFromTrade_cases p t hi' with ⟨hs, h⟩ | ⟨hs, hlt, h⟩ | ⟨hs, heq, h⟩ | ⟨hs, hlt, h⟩ <;>
    rw [h] <;> simp only [optCons, exPnl, Position.cons, Position.signedQty, cashOf,
      increase_side, increase_qabs, increase_pnl, increase_pea, reduce_side, reduce_qabs, reduce_pnl,
      reduce_pea, closeExact_pnl, flip_exit_pnl, pushTrade_side, pushTrade_qabs, pushTrade_pnl,
      pushTrade_pea, flip_next, Position.ofTrade, calculatePnlRealised, calculatePriceEntryAverage,
      habs, habs2] at * <;>
    cases hps : p.side <;> cases hts : t.side <;> simp_all <;> grind [abs]



/-- Every open position of the manager is well-formed for instrument `i`. -/
def PMWF (i : Nat) (pm : PositionManager) : Prop := ∀ p, pm.current = some p → WF i p

theorem ofTrade_wf {t : Trade} {i : Nat} (hi : t.instrument = i) (hq : 0 < t.quantity) :
    WF i (Position.ofTrade t) := by
  have habs := abs_pos hq
  constructor <;> simp only [Position.ofTrade, habs] <;> grind

section pm
variable {i : Nat} {pm : PositionManager} (hp : PMWF i pm) {t : Trade} (hi : t.instrument = i)
  (hq : 0 < t.quantity)
include hp hi hq

theorem pm_update_wf : PMWF i (pm.update t).1 := by
  unfold PositionManager.update
  cases hc : pm.current with
  | none => intro p h; simp at h; subst h; exact ofTrade_wf hi hq
  | some p => intro p' h; exact update_wf (hp p hc) hi hq p' (by simpa using h)

theorem pm_update_signed : optSigned (pm.update t).1.current = optSigned pm.current + signedQty t := by
  unfold PositionManager.update
  cases hc : pm.current with
  | none =>
    have habs := abs_pos hq
    cases hts : t.side <;> simp [optSigned, Position.ofTrade, Position.signedQty, signedQty, hts, habs, Rat.zero_add]
  | some p => simpa [optSigned] using update_signed (hp p hc) hi hq

theorem pm_update_cons :
    exPnl (pm.update t).2 + optCons (pm.update t).1.current = optCons pm.current + cashOf t := by
  unfold PositionManager.update
  cases hc : pm.current with
  | none =>
    have habs := abs_pos hq
    cases hts : t.side <;>
      simp [optCons, exPnl, Position.cons, Position.ofTrade, Position.signedQty, cashOf, hts, habs] <;> grind
  | some p => simpa [optCons] using update_cons (hp p hc) hi hq

theorem pm_update_fees :
    exFees (pm.update t).2 + optFees (pm.update t).1.current = optFees pm.current + t.fees := by
  unfold PositionManager.update
  cases hc : pm.current with
  | none => simp [optFees, exFees, Position.ofTrade]; grind
  | some p => simpa [optFees] using update_fees (hp p hc) hi hq

theorem pm_update_exit_iff :
    (pm.update t).2.isSome ↔
      ReachesOrCrossesZero (optSigned pm.current) (optSigned pm.current + signedQty t) := by
  unfold PositionManager.update
  cases hc : pm.current with
  | none => simp [optSigned, ReachesOrCrossesZero]
  | some p => simpa [optSigned] using update_exit_iff (hp p hc) hi hq
end pm

/-! ### Histories -/

def Run.closedPnl (r : Run) : Rat := (r.exits.map (·.pnlRealised)).sum
def Run.closedFees (r : Run) : Rat := (r.exits.map (fun e => e.feesEnter + e.feesExit)).sum

theorem Run.pnl_eq (r : Run) : r.pnlRealised - r.pm.openValue = r.closedPnl + optCons r.pm.current := by
  unfold Run.pnlRealised PositionManager.openValue Run.closedPnl
  cases r.pm.current <;> simp [optCons, Position.cons] <;> grind

theorem Run.fees_eq (r : Run) : r.fees = r.closedFees + optFees r.pm.current := by
  unfold Run.fees Run.closedFees
  cases r.pm.current <;> simp [optFees]

theorem pm_signed_eq (pm : PositionManager) : pm.signedQty = optSigned pm.current := by
  unfold PositionManager.signedQty; cases pm.current <;> rfl

theorem step_closedPnl (r : Run) (t : Trade) :
    (r.step t).closedPnl = r.closedPnl + exPnl (r.pm.update t).2 := by
  simp only [Run.step, Run.closedPnl, List.map_append, sum_append_rat]
  cases (r.pm.update t).2 <;> simp [exPnl, Rat.add_zero]

theorem step_closedFees (r : Run) (t : Trade) :
    (r.step t).closedFees = r.closedFees + exFees (r.pm.update t).2 := by
  simp only [Run.step, Run.closedFees, List.map_append, sum_append_rat]
  cases (r.pm.update t).2 <;> simp [exFees, Rat.add_zero]

/-- The invariant tying a run to the abstract quantities of the history that produced it. -/
structure Inv (i : Nat) (r : Run) (n c F : Rat) : Prop where
  wf : PMWF i r.pm
  signed : r.pm.signedQty = n
  cons : r.pnlRealised - r.pm.openValue = c
  fees : r.fees = F

theorem inv_init (i : Nat) : Inv i Run.init 0 0 0 := by
  constructor
  · intro p h; simp [Run.init, PositionManager.init] at h
  · rfl
  · simp [Run.pnlRealised, Run.init, PositionManager.init, PositionManager.openValue]; grind
  · simp [Run.fees, Run.init, PositionManager.init]; grind

theorem inv_step {i : Nat} {r : Run} {n c F : Rat} (h : Inv i r n c F) {t : Trade}
    (hi : t.instrument = i) (hq : 0 < t.quantity) :
    Inv i (r.step t) (n + signedQty t) (c + cashOf t) (F + t.fees) := by
  obtain ⟨hwf, hs, hc, hf⟩ := h
  have h1 := pm_update_signed hwf hi hq
  have h2 := pm_update_cons hwf hi hq
  have h3 := pm_update_fees hwf hi hq
  rw [Run.pnl_eq] at hc; rw [Run.fees_eq] at hf; rw [pm_signed_eq] at hs
  constructor
  · exact pm_update_wf hwf hi hq
  · rw [pm_signed_eq]; show optSigned (r.pm.update t).1.current = _; rw [h1, hs]
  · rw [Run.pnl_eq, step_closedPnl]; show _ + optCons (r.pm.update t).1.current = _; grind
  · rw [Run.fees_eq, step_closedFees]; show _ + optFees (r.pm.update t).1.current = _; grind


theorem inv_run {i : Nat} (fs : List Trade) (h1 : OneInstrument i fs) (h2 : PosQty fs)
    {r : Run} {n c F : Rat} (h : Inv i r n c F) :
    Inv i (r.run fs) (n + net fs) (c + cash fs) (F + feeSum fs) := by
  induction fs generalizing r n c F with
  | nil => simpa [Run.run, net, cash, feeSum, Rat.add_zero] using h
  | cons f fs ih =>
    have := ih (fun x hx => h1 x (by simp [hx])) (fun x hx => h2 x (by simp [hx]))
      (inv_step h (h1 f (by simp)) (h2 f (by simp)))
    simpa [Run.run, net, cash, feeSum, Rat.add_assoc] using this

theorem inv_runFills {i : Nat} (fs : List Trade) (h1 : OneInstrument i fs) (h2 : PosQty fs) :
    Inv i (runFills fs) (net fs) (cash fs) (feeSum fs) := by
  simpa [runFills, Rat.zero_add] using inv_run fs h1 h2 (inv_init i)



/-- The open position `p` is the one whose life the history describes. -/
structure LifeRel (p : Position) (l : Life) : Prop where
  net : p.signedQty = l.net
  ids : p.trades = l.ids
  mx : p.quantityAbsMax = l.maxAbs
  te : p.timeEnter = l.timeEnter

theorem signed_ne_zero {i : Nat} {p : Position} (hp : WF i p) : p.signedQty ≠ 0 := by
  have := hp.pos
  unfold Position.signedQty; cases p.side <;> grind

theorem signed_abs {i : Nat} {p : Position} (hp : WF i p) : abs p.signedQty = p.quantityAbs := by
  have := hp.pos
  unfold Position.signedQty abs; cases p.side <;> grind

theorem ofTrade_life {t : Trade} (hq : 0 < t.quantity) :
    LifeRel (Position.ofTrade t) (Life.init.step t) := by
  have habs := abs_pos hq
  have h0 : (0 : Rat) + signedQty t = signedQty t := Rat.zero_add _
  constructor <;> simp [Life.step, Life.init, Position.ofTrade, Position.signedQty, habs, h0] <;>
    cases hts : t.side <;> simp [signedQty, hts, abs] <;> grind

theorem update_life {i : Nat} {p : Position} (hp : WF i p) {l : Life} (hl : LifeRel p l) {t : Trade}
    (hi : t.instrument = i) (hq : 0 < t.quantity) :
    (∀ p', (p.updateFromTrade t).1 = some p' → LifeRel p' (l.step t)) ∧
    ((p.updateFromTrade t).1 = none → l.step t = Life.init) ∧
    (∀ e, (p.updateFromTrade t).2 = some e →
      e.trades = l.ids ++ [t.id] ∧ e.quantityAbsMax = l.maxAbs ∧ e.timeEnter = l.timeEnter ∧
      e.timeExit = t.time ∧ e.side = p.side ∧ e.instrument = p.instrument ∧
      e.priceEntryAverage = p.priceEntryAverage) := by
  have hi' : p.instrument = t.instrument := by rw [hp.instr, hi]
  have habs := abs_pos hq
  have ⟨h1, h2, h3⟩ := hp
  obtain ⟨l1, l2, l3, l4⟩ := hl
  have hsabs := signed_abs hp
  have hne := signed_ne_zero hp
  have hps' : p.side = .buy ∨ p.side = .sell := by cases p.side <;> simp
  have hts' : t.side = .buy ∨ t.side = .sell := by cases t.side <;> simp
  obtain ⟨ln, lids, lmx, lte⟩ := l
  simp only at l1 l2 l3 l4
  subst l1 l2 l3 l4
  rcases updateFromTrade_cases p t hi' with ⟨hs, h⟩ | ⟨hs, hlt, h⟩ | ⟨hs, heq, h⟩ | ⟨hs, hlt, h⟩ <;>
    rw [h] <;> simp only [Option.some.injEq, reduceCtorEq, forall_eq', false_implies, implies_true,
      true_and, and_true, forall_const]
  · constructor <;>
      simp only [increase_side, increase_qabs, increase_qmax, increase_te, increase_trades,
        pushTrade_side, pushTrade_qabs, pushTrade_qmax, pushTrade_te, pushTrade_trades,
        Life.step, Life.init, Crosses, Position.signedQty, signedQty, habs] <;>
      rcases hps' with hps | hps <;> rcases hts' with hts | hts <;> simp_all <;> grind [abs]
  · constructor <;>
      simp only [reduce_side, reduce_qabs, reduce_qmax, reduce_te, reduce_trades,
        pushTrade_side, pushTrade_qabs, pushTrade_qmax, pushTrade_te, pushTrade_trades,
        Life.step, Life.init, Crosses, Position.signedQty, signedQty, habs] <;>
      rcases hps' with hps | hps <;> rcases hts' with hts | hts <;> simp_all <;> grind [abs]
  · refine ⟨?_, ?_⟩
    · simp only [Life.step, Life.init, Crosses, Position.signedQty, signedQty]
      rcases hps' with hps | hps <;> rcases hts' with hts | hts <;> simp_all <;> grind [abs]
    · simp
  · refine ⟨?_, ?_⟩
    · rw [flip_next]
      constructor <;>
        simp only [Position.ofTrade, pushTrade_qabs, Life.step, Life.init, Crosses,
          Position.signedQty, signedQty, habs] <;>
        rcases hps' with hps | hps <;> rcases hts' with hts | hts <;> simp_all <;> grind [abs]
    · simp



/-- The manager's open position (if any) is the one whose life the history describes. -/
def PMLife (pm : PositionManager) (l : Life) : Prop :=
  match pm.current with
  | none => l = Life.init
  | some p => LifeRel p l

theorem Life.step_net (l : Life) (f : Trade) : (l.step f).net = l.net + signedQty f := by
  unfold Life.step; simp only
  split
  · rfl
  · split
    · simp_all [Life.init]
    · rfl

theorem life_net_from (l : Life) (fs : List Trade) : (fs.foldl Life.step l).net = l.net + net fs := by
  induction fs generalizing l with
  | nil => simp [net, Rat.add_zero]
  | cons f fs ih => simp [ih, Life.step_net, net, Rat.add_assoc]

theorem life_net (fs : List Trade) : (life fs).net = net fs := by
  simpa [life, Life.init, Rat.zero_add] using life_net_from Life.init fs

theorem pm_update_life {i : Nat} {pm : PositionManager} (hp : PMWF i pm) {l : Life}
    (hl : PMLife pm l) {t : Trade} (hi : t.instrument = i) (hq : 0 < t.quantity) :
    PMLife (pm.update t).1 (l.step t) ∧
    (∀ e, (pm.update t).2 = some e → ∃ p, pm.current = some p ∧
      e.trades = l.ids ++ [t.id] ∧ e.quantityAbsMax = l.maxAbs ∧ e.timeEnter = l.timeEnter ∧
      e.timeExit = t.time ∧ e.side = p.side ∧ e.instrument = p.instrument ∧
      e.priceEntryAverage = p.priceEntryAverage) := by
  unfold PMLife PositionManager.update at *
  cases hc : pm.current with
  | none =>
    simp only [hc] at hl
    subst hl
    exact ⟨ofTrade_life hq, by simp⟩
  | some p =>
    simp only [hc] at hl
    have ⟨a, b, c⟩ := update_life (hp p hc) hl hi hq
    refine ⟨?_, ?_⟩
    · simp only
      cases hu : (p.updateFromTrade t).1 with
      | none => exact b hu
      | some p' => exact a p' hu
    · intro e he
      exact ⟨p, rfl, c e he⟩

theorem life_run {i : Nat} (fs : List Trade) (h1 : OneInstrument i fs) (h2 : PosQty fs)
    {r : Run} {n c F : Rat} (h : Inv i r n c F) {l : Life} (hl : PMLife r.pm l) :
    PMLife (r.run fs).pm (fs.foldl Life.step l) := by
  induction fs generalizing r n c F l with
  | nil => simpa [Run.run] using hl
  | cons f fs ih =>
    have hi := h1 f (by simp)
    have hq := h2 f (by simp)
    have := ih (fun x hx => h1 x (by simp [hx])) (fun x hx => h2 x (by simp [hx]))
      (inv_step h hi hq) (l := l.step f) (pm_update_life h.wf hl hi hq).1
    simpa [Run.run] using this

theorem life_runFills {i : Nat} (fs : List Trade) (h1 : OneInstrument i fs) (h2 : PosQty fs) :
    PMLife (runFills fs).pm (life fs) :=
  life_run fs h1 h2 (inv_init i) (l := Life.init) (by simp [PMLife, Run.init, PositionManager.init])

/-! ### Engine routing -/

theorem instruments_run_get (fs : List Trade) (s : Instruments) (i : Nat) (r : Run)
    (h : s[i]? = some r) :
    (Instruments.run s fs)[i]? = some (r.run (fs.filter (fun f => f.instrument = i))) := by
  induction fs generalizing s r with
  | nil => simpa [Instruments.run, Run.run] using h
  | cons f fs ih =>
    simp only [Instruments.run, List.foldl_cons] at *
    by_cases hf : f.instrument = i
    · have : (Instruments.step s f)[i]? = some (r.step f) := by
        have hlt : i < s.length := by
          rcases Nat.lt_or_ge i s.length with hl | hl
          · exact hl
          · simp [List.getElem?_eq_none hl] at h
        have hr : s[i] = r := by
          have := List.getElem?_eq_getElem hlt
          rw [h] at this; exact (Option.some.inj this).symm
        simp [Instruments.step, hf, hlt, hr]
      rw [ih _ _ this]; simp [hf, Run.run]
    · have : (Instruments.step s f)[i]? = some r := by
        unfold Instruments.step
        cases hg : s[f.instrument]? with
        | none => simpa using h
        | some r' => simp [hf, h]
      rw [ih _ _ this]; simp [hf]



/-- A crossing fill closes the position with the pro-rata exit fee and opens the opposite one with
the remainder and the pro-rata entry fee. -/
theorem update_cross {i : Nat} {p : Position} (hp : WF i p) {t : Trade} (hi : t.instrument = i)
    (hq : 0 < t.quantity) (hx : Crosses p.signedQty (p.signedQty + signedQty t)) :
    ∃ p' e, p.updateFromTrade t = (some p', some e) ∧
      p'.side = t.side ∧ p'.instrument = i ∧
      p'.quantityAbs = abs (p.signedQty + signedQty t) ∧
      p'.quantityAbsMax = abs (p.signedQty + signedQty t) ∧
      p'.priceEntryAverage = t.price ∧
      p'.feesEnter = t.fees * (abs (p.signedQty + signedQty t) / t.quantity) ∧
      p'.feesExit = 0 ∧
      p'.pnlRealised = -(t.fees * (abs (p.signedQty + signedQty t) / t.quantity)) ∧
      p'.trades = [t.id] ∧ p'.timeEnter = t.time ∧
      e.feesEnter = p.feesEnter ∧
      e.feesExit = p.feesExit + t.fees * (abs p.signedQty / t.quantity) := by
  have hi' : p.instrument = t.instrument := by rw [hp.instr, hi]
  have habs := abs_pos hq
  have ⟨h1, h2, h3⟩ := hp
  have hsabs := signed_abs hp
  have hps' : p.side = .buy ∨ p.side = .sell := by cases p.side <;> simp
  have hts' : t.side = .buy ∨ t.side = .sell := by cases t.side <;> simp
  unfold Crosses at hx
  rcases updateFromTrade_cases p t hi' with ⟨hs, h⟩ | ⟨hs, hlt, h⟩ | ⟨hs, heq, h⟩ | ⟨hs, hlt, h⟩
  · exfalso; simp only [Position.signedQty, signedQty] at hx
    rcases hps' with hps | hps <;> rcases hts' with hts | hts <;> simp_all <;> grind
  · exfalso; simp only [Position.signedQty, signedQty, habs] at hx hlt
    rcases hps' with hps | hps <;> rcases hts' with hts | hts <;> simp_all <;> grind
  · exfalso; simp only [Position.signedQty, signedQty, habs] at hx heq
    rcases hps' with hps | hps <;> rcases hts' with hts | hts <;> simp_all <;> grind
  · refine ⟨_, _, h, ?_⟩
    rw [flip_next, hsabs]
    simp only [Position.ofTrade, pushTrade_qabs, pushTrade_fe, pushTrade_fx, flip_exit_fe,
      flip_exit_fx, habs, Position.signedQty, signedQty] at *
    rcases hps' with hps | hps <;> rcases hts' with hts | hts <;> simp_all <;> grind [abs]

/-- An exactly closing fill leaves no position and charges its whole fee as exit fee. -/
theorem update_close {i : Nat} {p : Position} (hp : WF i p) {t : Trade} (hi : t.instrument = i)
    (hq : 0 < t.quantity) (hx : p.signedQty + signedQty t = 0) :
    ∃ e, p.updateFromTrade t = (none, some e) ∧
      e.feesEnter = p.feesEnter ∧ e.feesExit = p.feesExit + t.fees := by
  have hi' : p.instrument = t.instrument := by rw [hp.instr, hi]
  have habs := abs_pos hq
  have ⟨h1, h2, h3⟩ := hp
  have hps' : p.side = .buy ∨ p.side = .sell := by cases p.side <;> simp
  have hts' : t.side = .buy ∨ t.side = .sell := by cases t.side <;> simp
  rcases updateFromTrade_cases p t hi' with ⟨hs, h⟩ | ⟨hs, hlt, h⟩ | ⟨hs, heq, h⟩ | ⟨hs, hlt, h⟩
  · exfalso; simp only [Position.signedQty, signedQty] at hx
    rcases hps' with hps | hps <;> rcases hts' with hts | hts <;> simp_all <;> grind
  · exfalso; simp only [Position.signedQty, signedQty, habs] at hx hlt
    rcases hps' with hps | hps <;> rcases hts' with hts | hts <;> simp_all <;> grind
  · exact ⟨_, h, by simp⟩
  · exfalso; simp only [Position.signedQty, signedQty, habs] at hx hlt
    rcases hps' with hps | hps <;> rcases hts' with hts | hts <;> simp_all <;> grind

/-- In a well-formed manager the side is the sign of the signed quantity. -/
theorem pm_side_of_signed {i : Nat} {pm : PositionManager} (hp : PMWF i pm) :
    pm.side = sideOfNet pm.signedQty := by
  unfold PositionManager.side PositionManager.signedQty sideOfNet
  cases hc : pm.current with
  | none => simp
  | some p =>
    have := (hp p hc).pos
    have hps' : p.side = .buy ∨ p.side = .sell := by cases p.side <;> simp
    simp only [Option.map_some, Position.signedQty]
    rcases hps' with hps | hps <;> simp [hps] <;> grind

/-- Instrument mismatch arm: the fill is ignored. -/
theorem update_mismatch (p : Position) (t : Trade) (h : p.instrument ≠ t.instrument) :
    p.updateFromTrade t = (some p, none) := by
  unfold Position.updateFromTrade; simp [h]


theorem step_exits_length {i : Nat} {r : Run} {n c F : Rat} (h : Inv i r n c F) {t : Trade}
    (hi : t.instrument = i) (hq : 0 < t.quantity) :
    (r.step t).exits.length =
      r.exits.length + (if ReachesOrCrossesZero n (n + signedQty t) then 1 else 0) := by
  have := pm_update_exit_iff h.wf hi hq
  rw [← pm_signed_eq, h.signed] at this
  simp only [Run.step, List.length_append]
  by_cases hx : ReachesOrCrossesZero n (n + signedQty t)
  · have h1 := this.mpr hx
    obtain ⟨e, he⟩ := Option.isSome_iff_exists.mp h1
    simp [hx, he]
  · have h1 : (r.pm.update t).2 = none := by
      cases hu : (r.pm.update t).2 with
      | none => rfl
      | some e => exact absurd (this.mp (by simp [hu])) hx
    simp [hx, h1]

theorem run_exits_length {i : Nat} (fs : List Trade) (h1 : OneInstrument i fs) (h2 : PosQty fs)
    {r : Run} {n c F : Rat} (h : Inv i r n c F) :
    (r.run fs).exits.length = r.exits.length + zeroTouches n fs := by
  induction fs generalizing r n c F with
  | nil => simp [Run.run, zeroTouches]
  | cons f fs ih =>
    have hi := h1 f (by simp)
    have hq := h2 f (by simp)
    have := ih (fun x hx => h1 x (by simp [hx])) (fun x hx => h2 x (by simp [hx]))
      (inv_step h hi hq)
    simp only [Run.run, List.foldl_cons] at this ⊢
    rw [this, step_exits_length h hi hq]
    simp [zeroTouches, Nat.add_assoc]

end BarterModel.Position
