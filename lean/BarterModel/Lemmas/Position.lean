import BarterModel.Model.Position
namespace BarterModel.Position
end BarterModel.Position
