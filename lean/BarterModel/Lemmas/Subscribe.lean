import BarterModel.Model.Subscribe
import BarterModel.Lemmas.Index
import BarterModel.Lemmas.Names
import BarterModel.Lemmas.Connectors
/-! Helper lemmas for the sub-check C13V (core Lean only). -/
namespace BarterModel.Subscribe
open BarterModel.Names (ExchangeId Str)
open BarterModel.Connectors (Exch)
open BarterModel.Index (sortDedup leKey Strict dedup)

deriving instance DecidableEq for Except

/-! ### A. `collectM` -/
section collect
variable {α β ε : Type}

theorem collectM_cons_ok (f : α → Except ε β) (a : α) (t : List α) (b : β) (h : f a = .ok b) :
    collectM f (a :: t) = (match collectM f t with | .error e => .error e | .ok bs => .ok (b :: bs)) := by
  simp only [collectM, h]
  cases collectM f t <;> rfl

theorem collectM_cons_error (f : α → Except ε β) (a : α) (t : List α) (e : ε) (h : f a = .error e) :
    collectM f (a :: t) = .error e := by
  simp [collectM, h]

theorem collectM_ok_iff (f : α → Except ε β) (l : List α) (r : List β) :
    collectM f l = .ok r ↔ l.map f = r.map Except.ok := by
  induction l generalizing r with
  | nil => cases r <;> simp [collectM]
  | cons a t ih =>
    cases hfa : f a with
    | error e => rw [collectM_cons_error f a t e hfa]; cases r <;> simp [hfa]
    | ok b =>
      rw [collectM_cons_ok f a t b hfa]
      cases r with
      | nil => cases hc : collectM f t <;> simp
      | cons b' r' =>
        cases hc : collectM f t with
        | error e =>
          simp only [List.map_cons, List.cons.injEq, hfa, reduceCtorEq, false_iff, not_and]
          intro _ h
          have := (ih r').mpr h
          rw [hc] at this; cases this
        | ok bs =>
          have hbs := (ih bs).mp hc
          simp only [Except.ok.injEq, List.cons.injEq, List.map_cons, hfa]
          constructor
          · rintro ⟨rfl, rfl⟩; exact ⟨rfl, hbs⟩
          · rintro ⟨hb, h⟩
            have := (ih r').mpr h
            rw [hc] at this
            injection this with this
            exact ⟨hb, this⟩

theorem collectM_error_iff (f : α → Except ε β) (l : List α) (e : ε) :
    collectM f l = .error e ↔
      ∃ (pre : List α) (a : α) (post : List α) (bs : List β),
        l = pre ++ a :: post ∧ pre.map f = bs.map Except.ok ∧ f a = .error e := by
  induction l with
  | nil => simp [collectM]
  | cons a t ih =>
    cases hfa : f a with
    | error e' =>
      rw [collectM_cons_error f a t e' hfa]
      constructor
      · intro h; injection h with h; subst h
        exact ⟨[], a, t, [], rfl, rfl, hfa⟩
      · rintro ⟨pre, a', post, bs, hl, hpre, ha'⟩
        cases pre with
        | nil =>
          simp only [List.nil_append, List.cons.injEq] at hl
          obtain ⟨rfl, _⟩ := hl
          rw [hfa] at ha'; injection ha' with ha'; rw [ha']
        | cons p pre' =>
          simp only [List.cons_append, List.cons.injEq] at hl
          obtain ⟨rfl, _⟩ := hl
          cases bs <;> simp [hfa] at hpre
    | ok b =>
      rw [collectM_cons_ok f a t b hfa]
      have key : (∃ (pre : List α) (a' : α) (post : List α) (bs : List β),
          a :: t = pre ++ a' :: post ∧ pre.map f = bs.map Except.ok ∧ f a' = .error e) ↔
          collectM f t = .error e := by
        rw [ih]
        constructor
        · rintro ⟨pre, a', post, bs, hl, hpre, ha'⟩
          cases pre with
          | nil =>
            simp only [List.nil_append, List.cons.injEq] at hl
            obtain ⟨rfl, _⟩ := hl
            rw [hfa] at ha'; cases ha'
          | cons p pre' =>
            simp only [List.cons_append, List.cons.injEq] at hl
            obtain ⟨rfl, rfl⟩ := hl
            cases bs with
            | nil => simp at hpre
            | cons b' bs' =>
              simp only [List.map_cons, List.cons.injEq] at hpre
              exact ⟨pre', a', post, bs', rfl, hpre.2, ha'⟩
        · rintro ⟨pre, a', post, bs, hl, hpre, ha'⟩
          exact ⟨a :: pre, a', post, b :: bs, by simp [hl], by simp [hfa, hpre], ha'⟩
      rw [key]
      cases hc : collectM f t <;> simp
theorem collectM_ok_length (f : α → Except ε β) (l : List α) (r : List β) (h : collectM f l = .ok r) :
    r.length = l.length := by
  have := congrArg List.length ((collectM_ok_iff f l r).mp h)
  simpa using this.symm

/-- a filter: every element is returned unchanged or is the error -/
theorem collectM_guard_ok_iff (p : α → Bool) (l r : List α) :
    collectM (fun a => if p a then Except.ok a else Except.error a) l = .ok r ↔
      r = l ∧ ∀ a ∈ l, p a = true := by
  rw [collectM_ok_iff]
  induction l generalizing r with
  | nil => cases r <;> simp
  | cons a t ih =>
    cases r with
    | nil => simp
    | cons b r' =>
      simp only [List.map_cons, List.cons.injEq, List.mem_cons, forall_eq_or_imp, ih]
      by_cases hp : p a = true
      · simp only [hp, if_true, Except.ok.injEq]
        constructor
        · rintro ⟨rfl, rfl, h⟩; exact ⟨⟨rfl, rfl⟩, trivial, h⟩
        · rintro ⟨⟨rfl, rfl⟩, _, h⟩; exact ⟨rfl, rfl, h⟩
      · simp [hp]

theorem collectM_guard_error_iff (p : α → Bool) (l : List α) (x : α) :
    collectM (fun a => if p a then Except.ok a else Except.error a) l = .error x ↔
      ∃ pre post, l = pre ++ x :: post ∧ (∀ a ∈ pre, p a = true) ∧ p x = false := by
  rw [collectM_error_iff]
  constructor
  · rintro ⟨pre, a, post, bs, hl, hpre, ha⟩
    by_cases hp : p a = true
    · simp [hp] at ha
    · simp only [hp] at ha
      injection ha with ha; subst ha
      refine ⟨pre, post, hl, ?_, by simpa using hp⟩
      have := (collectM_guard_ok_iff p pre bs).mp ((collectM_ok_iff _ _ _).mpr hpre)
      exact this.2
  · rintro ⟨pre, post, hl, hpre, hx⟩
    refine ⟨pre, x, post, pre, hl, ?_, by simp [hx]⟩
    exact (collectM_ok_iff _ _ _).mp ((collectM_guard_ok_iff p pre pre).mpr ⟨rfl, hpre⟩)

theorem collectM_total (f : α → Except ε β) (l : List α) :
    (∃ r, collectM f l = .ok r) ∨ (∃ e, collectM f l = .error e) := by
  cases h : collectM f l with
  | ok r => exact .inl ⟨r, rfl⟩
  | error e => exact .inr ⟨e, rfl⟩

end collect

/-! ### B. `chunkBy` -/
section chunk
variable {α κ : Type} [DecidableEq κ] (key : α → κ)

theorem chunkBy_flatten (l : List α) : (chunkBy key l).flatMap (·.2) = l := by
  induction l with
  | nil => simp [chunkBy]
  | cons a t ih =>
    simp only [chunkBy]
    cases hc : chunkBy key t with
    | nil => rw [hc] at ih; simp at ih; simp [ih.symm]
    | cons kg rest =>
      obtain ⟨k, g⟩ := kg
      rw [hc] at ih
      by_cases hk : key a = k
      · simp only [hk, if_true]; simp only [List.flatMap_cons] at ih ⊢; simp [ih]
      · simp only [hk, if_false]; simp only [List.flatMap_cons] at ih ⊢; simp [ih]

/-- every chunk is non-empty and carries the key of its elements -/
theorem chunkBy_wf (l : List α) :
    ∀ kg ∈ chunkBy key l, kg.2 ≠ [] ∧ ∀ a ∈ kg.2, key a = kg.1 := by
  induction l with
  | nil => simp [chunkBy]
  | cons a t ih =>
    simp only [chunkBy]
    cases hc : chunkBy key t with
    | nil => simp
    | cons kg rest =>
      obtain ⟨k, g⟩ := kg
      rw [hc] at ih
      by_cases hk : key a = k
      · simp only [hk, if_true]
        intro kg' hkg'
        rcases List.mem_cons.mp hkg' with rfl | h
        · refine ⟨by simp, ?_⟩
          intro x hx
          rcases List.mem_cons.mp hx with rfl | hx
          · exact hk
          · exact (ih (k, g) (by simp)).2 x hx
        · exact ih kg' (by simp [h])
      · simp only [hk, if_false]
        intro kg' hkg'
        rcases List.mem_cons.mp hkg' with rfl | h
        · simp
        · exact ih kg' h

/-- the key of the first chunk is the key of the first element -/
theorem chunkBy_head (a : α) (t : List α) :
    ∃ g rest, chunkBy key (a :: t) = (key a, g) :: rest := by
  simp only [chunkBy]
  cases hc : chunkBy key t with
  | nil => exact ⟨_, _, rfl⟩
  | cons kg rest =>
    obtain ⟨k, g⟩ := kg
    by_cases hk : key a = k
    · simp only [hk, if_true]; exact ⟨_, _, rfl⟩
    · simp only [hk, if_false]; exact ⟨_, _, rfl⟩

/-- On an input whose keys are ordered (`le` antisymmetric; non-decreasing along the list) the chunk keys
are strictly increasing: no key occurs in two chunks. -/
theorem chunkBy_keys_strict (le : κ → κ → Prop) (hanti : ∀ a b, le a b → le b a → a = b)
    (l : List α) (hs : l.Pairwise (fun a b => le (key a) (key b))) :
    ((chunkBy key l).map (·.1)).Pairwise (fun a b => le a b ∧ a ≠ b) := by
  induction l with
  | nil => simp [chunkBy]
  | cons a t ih =>
    have ⟨ha, ht⟩ := List.pairwise_cons.mp hs
    have ih := ih ht
    have hwf := chunkBy_wf key t
    have hfl := chunkBy_flatten key t
    simp only [chunkBy]
    cases hc : chunkBy key t with
    | nil => simp
    | cons kg rest =>
      obtain ⟨k, g⟩ := kg
      rw [hc] at ih hwf hfl
      -- every chunk key of `t` is the key of an element of `t`
      have hmem : ∀ kg' ∈ (k, g) :: rest, ∃ x ∈ t, key x = kg'.1 := by
        intro kg' hkg'
        have ⟨hne, hk⟩ := hwf kg' hkg'
        obtain ⟨x, hx⟩ := List.exists_mem_of_ne_nil _ hne
        refine ⟨x, ?_, hk x hx⟩
        rw [← hfl]; exact List.mem_flatMap.mpr ⟨kg', hkg', hx⟩
      by_cases hk : key a = k
      · simp only [hk, if_true]; simpa using ih
      · simp only [hk, if_false, List.map_cons]
        refine List.pairwise_cons.mpr ⟨?_, by simpa using ih⟩
        intro k' hk'
        obtain ⟨kg', hkg', rfl⟩ := List.mem_map.mp (show k' ∈ ((k, g) :: rest).map (·.1) from hk')
        obtain ⟨x, hx, hkx⟩ := hmem kg' hkg'
        refine ⟨hkx ▸ ha x hx, ?_⟩
        intro heq
        rcases List.mem_cons.mp hkg' with rfl | hrest
        · exact hk heq
        · have ih' : (k :: rest.map (·.1)).Pairwise (fun a b => le a b ∧ a ≠ b) := ih
          have hkk' := (List.pairwise_cons.mp ih').1 kg'.1 (List.mem_map.mpr ⟨kg', hrest, rfl⟩)
          obtain ⟨y, hy, hky⟩ := hmem (k, g) (by simp)
          have hky : key y = k := hky
          have h1 : le (key a) k := hky ▸ ha y hy
          rw [heq] at h1
          exact hkk'.2 (hanti _ _ hkk'.1 h1)

end chunk

/-! ### C. keys -/

theorem SubKind.toNat_inj {a b : SubKind} (h : a.toNat = b.toNat) : a = b := by
  cases a <;> cases b <;> first | rfl | (simp [SubKind.toNat] at h)

theorem SubKind.ofNat?_toNat (k : SubKind) : SubKind.ofNat? k.toNat = some k := by cases k <;> rfl

theorem SubKind.mem_all (k : SubKind) : k ∈ SubKind.all := by cases k <;> decide

theorem IKC.mem_all (k : IKC) : k ∈ IKC.all := by cases k <;> decide

theorem Chan.mem_all (f : Chan) : f ∈ Chan.all := by cases f <;> decide

theorem connAll_complete (c : Exch) : c ∈ connAll := by cases c <;> decide

theorem gkeyNat_inj : Function.Injective gkeyNat := by
  rintro ⟨e1, k1⟩ ⟨e2, k2⟩ h
  simp only [gkeyNat, List.cons.injEq, and_true] at h
  rw [BarterModel.Names.toNat_inj h.1, SubKind.toNat_inj h.2]

theorem sortKey_inj {ι : Type} (ops : InstOps ι) (hl : ops.Lawful) :
    Function.Injective (Subscr.sortKey ops) := by
  rintro ⟨e1, i1, k1⟩ ⟨e2, i2, k2⟩ h
  simp only [Subscr.sortKey, List.cons.injEq] at h
  obtain ⟨he, h⟩ := h
  have := List.append_inj' h rfl
  simp only [List.cons.injEq, and_true] at this
  rw [BarterModel.Names.toNat_inj he, hl.inj this.1, SubKind.toNat_inj this.2]

/-- keys of one fixed length line up -/
theorem InstOps.Lawful.of_len {ι : Type} (ops : InstOps ι) (inj : Function.Injective ops.sortKey)
    (len : ∀ i j, (ops.sortKey i).length = (ops.sortKey j).length) : ops.Lawful :=
  ⟨inj, fun i j h => h.eq_of_length (len i j)⟩

theorem IK.sortKey_inj : Function.Injective IK.sortKey := by
  intro a b h
  cases a <;> cases b <;> simp [IK.sortKey] at h <;> simp [h]

theorem IK.sortKey_length (k : IK) : k.sortKey.length = 5 := by cases k <;> rfl

/-! #### names as strings -/

theorem ofDigitChars_pad (w n : Nat) : Nat.ofDigitChars 10 (BarterModel.Names.pad w n) 0 = n := by
  simp only [BarterModel.Names.pad, Nat.ofDigitChars_append, Nat.ofDigitChars_replicate_zero, Nat.mul_zero,
    Nat.ofDigitChars_ten_toDigits]

theorem pad_inj (w : Nat) : Function.Injective (BarterModel.Names.pad w) := by
  intro a b h
  rw [← ofDigitChars_pad w a, ← ofDigitChars_pad w b, h]

theorem assetName_inj : Function.Injective assetName := by
  intro a b h
  simp only [assetName, List.cons.injEq, true_and] at h
  exact pad_inj 3 h

theorem instrumentName_inj : Function.Injective instrumentName := by
  intro a b h
  simp only [instrumentName, List.cons.injEq, true_and] at h
  exact pad_inj 3 h

/-- `strKey` is self-delimiting: a key followed by anything determines the name and the rest. -/
theorem strKey_append_inj (a b : Str) (x y : List Nat) (h : strKey a ++ x = strKey b ++ y) : a = b ∧ x = y := by
  induction a generalizing b with
  | nil =>
    cases b with
    | nil => simpa [strKey] using h
    | cons d b => simp [strKey] at h
  | cons c a ih =>
    cases b with
    | nil => simp [strKey] at h
    | cons d b =>
      simp only [strKey, List.map_cons, List.cons_append, List.cons.injEq, Nat.add_right_cancel_iff] at h
      have hcd : c = d := Char.toNat_inj.mp h.1
      obtain ⟨hab, hxy⟩ := ih b (by simpa [strKey] using h.2)
      exact ⟨by rw [hcd, hab], hxy⟩

theorem strKey_append_prefix (a b : Str) (x y : List Nat) (h : strKey a ++ x <+: strKey b ++ y) :
    a = b ∧ x <+: y := by
  obtain ⟨t, ht⟩ := h
  rw [List.append_assoc] at ht
  obtain ⟨hab, hxy⟩ := strKey_append_inj a b _ _ ht
  exact ⟨hab, ⟨t, hxy⟩⟩

/-- lexicographic order of concatenations when the heads line up (neither is a proper prefix of the other) -/
theorem append_le_append_iff_of_sep (a b x y : List Nat) (h1 : a <+: b → a = b) (h2 : b <+: a → b = a) :
    a ++ x ≤ b ++ y ↔ a < b ∨ (a = b ∧ x ≤ y) := by
  induction a generalizing b with
  | nil =>
    have : b = [] := (h1 (List.nil_prefix)).symm
    subst this
    simp
  | cons c a ih =>
    cases b with
    | nil => exact absurd (h2 List.nil_prefix) (by simp)
    | cons d b =>
      simp only [List.cons_append, List.cons_le_cons_iff, List.cons_lt_cons_iff, List.cons.injEq]
      by_cases hcd : c = d
      · subst hcd
        have h1' : a <+: b → a = b := fun h => by simpa using h1 (List.cons_prefix_cons.mpr ⟨rfl, h⟩)
        have h2' : b <+: a → b = a := fun h => by simpa using h2 (List.cons_prefix_cons.mpr ⟨rfl, h⟩)
        rw [ih b h1' h2']
        simp
      · simp [hcd]

/-- `format!("a{n:03}")` below 1000: exactly three digits -/
theorem pad3_digits : ∀ n ∈ List.range 1000, BarterModel.Names.pad 3 n =
    [Nat.digitChar (n / 100), Nat.digitChar (n / 10 % 10), Nat.digitChar (n % 10)] := by decide +kernel

theorem digitChar_toNat : ∀ d ∈ List.range 10, (Nat.digitChar d).toNat = 48 + d := by decide

theorem strKey_assetName_small (n : Nat) (h : n < 1000) :
    strKey (assetName n) = [98, 49 + n / 100, 49 + n / 10 % 10, 49 + n % 10, 0] := by
  have h3 := pad3_digits n (List.mem_range.mpr h)
  have d1 := digitChar_toNat (n / 100) (List.mem_range.mpr (by omega))
  have d2 := digitChar_toNat (n / 10 % 10) (List.mem_range.mpr (by omega))
  have d3 := digitChar_toNat (n % 10) (List.mem_range.mpr (by omega))
  simp only [strKey, assetName, h3, List.map_cons, List.map_nil, d1, d2, d3, List.cons_append, List.nil_append]
  simp only [List.cons.injEq, and_true]
  refine ⟨by decide, by omega, by omega, by omega⟩

theorem instOps_lawful : instOps.Lawful := by
  refine ⟨?_, ?_⟩
  · rintro ⟨b1, q1, k1⟩ ⟨b2, q2, k2⟩ h
    simp only [instOps, Inst.sortKey] at h
    obtain ⟨hb, h⟩ := strKey_append_inj _ _ _ _ h
    obtain ⟨hq, h⟩ := strKey_append_inj _ _ _ _ h
    rw [assetName_inj hb, assetName_inj hq, IK.sortKey_inj h]
  · rintro ⟨b1, q1, k1⟩ ⟨b2, q2, k2⟩ h
    simp only [instOps, Inst.sortKey] at h ⊢
    obtain ⟨hb, h⟩ := strKey_append_prefix _ _ _ _ h
    obtain ⟨hq, h⟩ := strKey_append_prefix _ _ _ _ h
    rw [hb, hq, h.eq_of_length (by simp [IK.sortKey_length])]

theorem kinstOps_lawful : kinstOps.Lawful := by
  refine ⟨?_, ?_⟩
  · rintro ⟨n1, ⟨b1, q1, k1⟩⟩ ⟨n2, ⟨b2, q2, k2⟩⟩ h
    simp only [kinstOps, KInst.sortKey, Inst.sortKey, List.cons.injEq] at h
    obtain ⟨hn, h⟩ := h
    obtain ⟨hb, h⟩ := strKey_append_inj _ _ _ _ h
    obtain ⟨hq, h⟩ := strKey_append_inj _ _ _ _ h
    rw [hn, assetName_inj hb, assetName_inj hq, IK.sortKey_inj h]
  · rintro ⟨n1, ⟨b1, q1, k1⟩⟩ ⟨n2, ⟨b2, q2, k2⟩⟩ h
    simp only [kinstOps, KInst.sortKey, Inst.sortKey] at h ⊢
    obtain ⟨hn, h⟩ := List.cons_prefix_cons.mp h
    obtain ⟨hb, h⟩ := strKey_append_prefix _ _ _ _ h
    obtain ⟨hq, h⟩ := strKey_append_prefix _ _ _ _ h
    rw [hn, hb, hq, h.eq_of_length (by simp [IK.sortKey_length])]

theorem minstOps_lawful : minstOps.Lawful := by
  refine ⟨?_, ?_⟩
  · rintro ⟨n1, b1, k1⟩ ⟨n2, b2, k2⟩ h
    simp only [minstOps, MInst.sortKey, List.cons.injEq] at h
    obtain ⟨hn, h⟩ := h
    obtain ⟨hb, h⟩ := strKey_append_inj _ _ _ _ h
    rw [hn, instrumentName_inj hb, IK.sortKey_inj h]
  · rintro ⟨n1, b1, k1⟩ ⟨n2, b2, k2⟩ h
    simp only [minstOps, MInst.sortKey] at h ⊢
    obtain ⟨hn, h⟩ := List.cons_prefix_cons.mp h
    obtain ⟨hb, h⟩ := strKey_append_prefix _ _ _ _ h
    rw [hn, hb, h.eq_of_length (by simp [IK.sortKey_length])]

/-! ### D. validation -/
section validation
variable {ι : Type} [DecidableEq ι] (ops : InstOps ι)

omit [DecidableEq ι] in
theorem validate_eq_guard :
    Subscr.validate ops = fun s => if s.valid ops then Except.ok s else Except.error s := by
  funext s; simp [Subscr.validate]

theorem validateSubscriptions_ok_iff (b r : List (Subscr ι)) :
    validateSubscriptions ops b = .ok r ↔ (∀ s ∈ b, s.valid ops = true) ∧ r = specSet ops b := by
  unfold validateSubscriptions
  rw [validate_eq_guard]
  cases hc : collectM (fun s => if s.valid ops then Except.ok s else Except.error s) b with
  | error x =>
    simp only [reduceCtorEq, false_iff, not_and]
    intro hall
    have := (collectM_guard_ok_iff (Subscr.valid ops) b b).mpr ⟨rfl, hall⟩
    rw [hc] at this; cases this
  | ok l =>
    have ⟨hl, hall⟩ := (collectM_guard_ok_iff (Subscr.valid ops) b l).mp hc
    subst hl
    simp only [Except.ok.injEq, specSet]
    constructor
    · intro h; exact ⟨hall, h.symm⟩
    · intro h; exact h.2.symm

theorem validateSubscriptions_error_iff (b : List (Subscr ι)) (x : Subscr ι) :
    validateSubscriptions ops b = .error x ↔
      ∃ pre post, b = pre ++ x :: post ∧ (∀ a ∈ pre, a.valid ops = true) ∧ x.valid ops = false := by
  unfold validateSubscriptions
  rw [validate_eq_guard]
  cases hc : collectM (fun s => if s.valid ops then Except.ok s else Except.error s) b with
  | error y =>
    rw [← collectM_guard_error_iff (Subscr.valid ops) b x, hc]
  | ok l =>
    simp only [reduceCtorEq, false_iff]
    intro h
    have := (collectM_guard_error_iff (Subscr.valid ops) b x).mpr h
    rw [hc] at this; cases this

theorem validateBatches_ok_iff (batches vs : List (List (Subscr ι))) :
    validateBatches ops batches = .ok vs ↔
      (∀ b ∈ batches, ∀ s ∈ b, s.valid ops = true) ∧ vs = batches.map (specSet ops) := by
  unfold validateBatches
  rw [collectM_ok_iff]
  induction batches generalizing vs with
  | nil => cases vs <;> simp
  | cons b t ih =>
    cases vs with
    | nil => simp
    | cons v vs' =>
      simp only [List.map_cons, List.cons.injEq, ih, List.mem_cons, forall_eq_or_imp,
        validateSubscriptions_ok_iff]
      constructor
      · rintro ⟨⟨h1, h2⟩, h3, h4⟩; exact ⟨⟨h1, h3⟩, h2, h4⟩
      · rintro ⟨⟨h1, h3⟩, h2, h4⟩; exact ⟨⟨h1, h2⟩, h3, h4⟩

theorem validateBatches_error_iff (batches : List (List (Subscr ι))) (x : Subscr ι) :
    validateBatches ops batches = .error x ↔
      ∃ pre b post, batches = pre ++ b :: post ∧ (∀ b' ∈ pre, ∀ s ∈ b', s.valid ops = true) ∧
        validateSubscriptions ops b = .error x := by
  unfold validateBatches
  rw [collectM_error_iff]
  constructor
  · rintro ⟨pre, b, post, bs, hl, hpre, hb⟩
    refine ⟨pre, b, post, hl, ?_, hb⟩
    have := (validateBatches_ok_iff ops pre bs).mp ((collectM_ok_iff _ _ _).mpr hpre)
    exact this.1
  · rintro ⟨pre, b, post, hl, hpre, hb⟩
    refine ⟨pre, b, post, pre.map (specSet ops), hl, ?_, hb⟩
    exact (collectM_ok_iff _ _ _).mp ((validateBatches_ok_iff ops pre _).mpr ⟨hpre, rfl⟩)

end validation

/-! ### E. grouping -/
section grouping
variable {α κ : Type} [DecidableEq κ] (key : α → κ)

/-- A chunk list whose chunks carry their key and whose keys are pairwise different: the chunk of `k`
is the filter of the whole. -/
theorem filter_flatMap_chunks (cs : List (κ × List α))
    (hwf : ∀ kg ∈ cs, ∀ a ∈ kg.2, key a = kg.1)
    (hnd : (cs.map (·.1)).Pairwise (· ≠ ·)) :
    ∀ kg ∈ cs, (cs.flatMap (·.2)).filter (fun a => key a = kg.1) = kg.2 := by
  induction cs with
  | nil => simp
  | cons c rest ih =>
    have ⟨hc, hrest⟩ := List.pairwise_cons.mp hnd
    have ihr := ih (fun kg h => hwf kg (by simp [h])) hrest
    -- the elements of `rest` do not have the key of `c`, those of `c` not the keys of `rest`
    have hrest_no : (rest.flatMap (·.2)).filter (fun a => key a = c.1) = [] := by
      rw [List.filter_eq_nil_iff]
      intro a ha
      obtain ⟨kg, hkg, hakg⟩ := List.mem_flatMap.mp ha
      have := hwf kg (by simp [hkg]) a hakg
      simp only [decide_eq_true_eq]
      rw [this]
      exact fun h => hc kg.1 (List.mem_map.mpr ⟨kg, hkg, rfl⟩) h.symm
    intro kg hkg
    rcases List.mem_cons.mp hkg with rfl | hkg
    · simp only [List.flatMap_cons, List.filter_append, hrest_no, List.append_nil]
      rw [List.filter_eq_self]
      intro a ha; simpa using hwf _ (by simp) a ha
    · have hc_no : c.2.filter (fun a => key a = kg.1) = [] := by
        rw [List.filter_eq_nil_iff]
        intro a ha
        have := hwf c (by simp) a ha
        simp only [decide_eq_true_eq]
        rw [this]
        exact hc kg.1 (List.mem_map.mpr ⟨kg, hkg, rfl⟩)
      simp only [List.flatMap_cons, List.filter_append, hc_no, List.nil_append]
      exact ihr kg hkg

/-- On an ordered input, the chunk of key `k` is the filter of the input. -/
theorem chunkBy_eq_filter (le : κ → κ → Prop) (hanti : ∀ a b, le a b → le b a → a = b)
    (l : List α) (hs : l.Pairwise (fun a b => le (key a) (key b))) :
    ∀ kg ∈ chunkBy key l, kg.2 = l.filter (fun a => key a = kg.1) := by
  intro kg hkg
  have h1 := filter_flatMap_chunks key (chunkBy key l) (fun kg h => (chunkBy_wf key l kg h).2)
    ((chunkBy_keys_strict key le hanti l hs).imp (fun h => h.2)) kg hkg
  rw [chunkBy_flatten] at h1
  exact h1.symm

omit [DecidableEq κ] in
/-- A list of pairs is determined by its keys when the second component is a function of the key. -/
theorem eq_map_of_snd_eq {β : Type} (cs : List (κ × β)) (f : κ → β) (h : ∀ kg ∈ cs, kg.2 = f kg.1) :
    cs = (cs.map (·.1)).map (fun k => (k, f k)) := by
  induction cs with
  | nil => rfl
  | cons c rest ih =>
    simp only [List.map_cons, List.cons.injEq]
    refine ⟨?_, ih (fun kg hkg => h kg (by simp [hkg]))⟩
    have := h c (by simp)
    exact Prod.ext rfl this

/-- the keys of the chunks are exactly the keys of the elements -/
theorem mem_chunkBy_keys (l : List α) (k : κ) :
    k ∈ (chunkBy key l).map (·.1) ↔ ∃ a ∈ l, key a = k := by
  constructor
  · intro h
    obtain ⟨kg, hkg, rfl⟩ := List.mem_map.mp h
    have ⟨hne, hk⟩ := chunkBy_wf key l kg hkg
    obtain ⟨x, hx⟩ := List.exists_mem_of_ne_nil _ hne
    refine ⟨x, ?_, hk x hx⟩
    rw [← chunkBy_flatten key l]; exact List.mem_flatMap.mpr ⟨kg, hkg, hx⟩
  · rintro ⟨a, ha, rfl⟩
    rw [← chunkBy_flatten key l] at ha
    obtain ⟨kg, hkg, hakg⟩ := List.mem_flatMap.mp ha
    have := (chunkBy_wf key l kg hkg).2 a hakg
    exact List.mem_map.mpr ⟨kg, hkg, this.symm⟩

/-- stability of the merge sort, as a statement about filters by key -/
theorem mergeSort_filter_key (code : κ → List Nat) (l : List α) (k : κ) :
    (l.mergeSort (leKey (fun a => code (key a)))).filter (fun a => key a = k) =
      l.filter (fun a => key a = k) := by
  have hsub : List.Sublist (l.filter (fun a => key a = k)) (l.mergeSort (leKey (fun a => code (key a)))) := by
    apply List.sublist_mergeSort (BarterModel.Index.leKey_trans _) (BarterModel.Index.leKey_total _)
    · rw [List.pairwise_filter]
      apply List.pairwise_of_forall_mem_list
      intro x _ y _ hx hy
      simp only [decide_eq_true_eq] at hx hy
      simp [leKey, hx, hy]
    · exact List.filter_sublist
  have h2 := hsub.filter (fun a => decide (key a = k))
  rw [List.filter_filter] at h2
  simp only [Bool.and_self] at h2
  refine (h2.eq_of_length ?_).symm
  exact ((List.mergeSort_perm l _).filter _).length_eq.symm

end grouping

/-! ### F. groups of subscriptions -/
section groups
variable {ι : Type}

theorem gkey_le_anti (a b : ExchangeId × SubKind) (h1 : gkeyNat a ≤ gkeyNat b) (h2 : gkeyNat b ≤ gkeyNat a) :
    a = b := gkeyNat_inj (List.le_antisymm h1 h2)

theorem stableSort_unstable : UnstableSort (stableSort (ι := ι)) :=
  ⟨fun l => List.mergeSort_perm l _, fun l => by
    have := List.pairwise_mergeSort (BarterModel.Index.leKey_trans (fun s : Subscr ι => gkeyNat s.gkey))
      (BarterModel.Index.leKey_total _) l
    exact this.imp (fun h => by simpa [leKey] using h)⟩

variable {usort : List (Subscr ι) → List (Subscr ι)} (hu : UnstableSort usort)
include hu

theorem groups_wf (b : List (Subscr ι)) :
    ∀ kg ∈ groups usort b, kg.2 ≠ [] ∧ ∀ s ∈ kg.2, s.gkey = kg.1 ∧ s ∈ b := by
  intro kg hkg
  have ⟨h1, h2⟩ := chunkBy_wf Subscr.gkey (usort b) kg hkg
  refine ⟨h1, fun s hs => ⟨h2 s hs, ?_⟩⟩
  have : s ∈ usort b := by
    rw [← chunkBy_flatten Subscr.gkey (usort b)]; exact List.mem_flatMap.mpr ⟨kg, hkg, hs⟩
  exact (hu.perm b).mem_iff.mp this

theorem groups_flatten_perm (b : List (Subscr ι)) : ((groups usort b).flatMap (·.2)).Perm b := by
  unfold groups; rw [chunkBy_flatten]; exact hu.perm b

theorem groups_keys_strict (b : List (Subscr ι)) :
    Strict (leKey gkeyNat) ((groups usort b).map (·.1)) := by
  have := chunkBy_keys_strict Subscr.gkey (fun a b => gkeyNat a ≤ gkeyNat b) gkey_le_anti (usort b) (hu.sorted b)
  exact this.imp (fun h => ⟨by simpa [leKey] using h.1, h.2⟩)

theorem mem_groups_keys (b : List (Subscr ι)) (k : ExchangeId × SubKind) :
    k ∈ (groups usort b).map (·.1) ↔ ∃ s ∈ b, s.gkey = k := by
  unfold groups
  rw [mem_chunkBy_keys]
  constructor
  · rintro ⟨a, ha, h⟩; exact ⟨a, (hu.perm b).mem_iff.mp ha, h⟩
  · rintro ⟨a, ha, h⟩; exact ⟨a, (hu.perm b).mem_iff.mpr ha, h⟩

/-- the keys of the groups: the distinct `(exchange, kind)` of the batch, ascending -/
theorem groups_keys (b : List (Subscr ι)) :
    (groups usort b).map (·.1) = sortDedup gkeyNat (b.map Subscr.gkey) := by
  apply BarterModel.Index.strict_ext (leKey gkeyNat) (BarterModel.Index.leKey_antisymm gkeyNat gkeyNat_inj)
  · exact groups_keys_strict hu b
  · exact BarterModel.Index.strict_sortDedup gkeyNat gkeyNat_inj _
  · intro k
    rw [mem_groups_keys hu, BarterModel.Index.mem_sortDedup, List.mem_map]

/-- the group of a key: the elements of the sorted batch with that key, in the order the sort left them -/
theorem groups_filter (b : List (Subscr ι)) :
    ∀ kg ∈ groups usort b, kg.2 = (usort b).filter (fun s => s.gkey = kg.1) :=
  chunkBy_eq_filter Subscr.gkey (fun a b => gkeyNat a ≤ gkeyNat b) gkey_le_anti (usort b) (hu.sorted b)

theorem groups_perm_filter (b : List (Subscr ι)) :
    ∀ kg ∈ groups usort b, kg.2.Perm (b.filter (fun s => s.gkey = kg.1)) := by
  intro kg hkg
  rw [groups_filter hu b kg hkg]
  exact (hu.perm b).filter _

theorem groups_eq (b : List (Subscr ι)) :
    groups usort b =
      (sortDedup gkeyNat (b.map Subscr.gkey)).map (fun k => (k, (usort b).filter (fun s => s.gkey = k))) := by
  rw [← groups_keys hu b]
  exact eq_map_of_snd_eq _ _ (groups_filter hu b)

omit hu in
theorem groups_stable (b : List (Subscr ι)) :
    groups stableSort b =
      (sortDedup gkeyNat (b.map Subscr.gkey)).map (fun k => (k, b.filter (fun s => s.gkey = k))) := by
  rw [groups_eq stableSort_unstable b]
  apply List.map_congr_left
  intro k _
  have := mergeSort_filter_key (α := Subscr ι) Subscr.gkey gkeyNat b k
  simp only [stableSort]
  rw [this]

end groups

/-! ### G. channels -/
section chans
variable {ι : Type}

theorem Chans.get_set (c : Chans) (f f' : Chan) (l : List ExchangeId) :
    (c.set f l).get f' = if f' = f then l else c.get f' := by
  cases f <;> cases f' <;> simp [Chans.set, Chans.get]

theorem mem_insertNew (l : List ExchangeId) (e x : ExchangeId) : x ∈ insertNew l e ↔ x ∈ l ∨ x = e := by
  unfold insertNew
  split
  · constructor
    · exact Or.inl
    · rintro (h | rfl) <;> assumption
  · simp

theorem nodup_insertNew (l : List ExchangeId) (e : ExchangeId) (h : l.Nodup) : (insertNew l e).Nodup := by
  unfold insertNew
  split
  · exact h
  · rename_i hn
    rw [List.nodup_append]
    refine ⟨h, by simp, ?_⟩
    intro a ha b hb
    simp only [List.mem_singleton] at hb
    subst hb
    exact fun h => hn (h ▸ ha)

def Chans.Nodup (c : Chans) : Prop := ∀ f, (c.get f).Nodup

theorem Chans.empty_nodup : ({} : Chans).Nodup := by intro f; cases f <;> simp [Chans.get]

theorem addAll_ok (subs : List (Subscr ι)) (c : Chans) (h : ∀ s ∈ subs, (route s.kind).isSome) :
    ∃ c', c.addAll subs = .ok c' ∧
      (∀ f e, e ∈ c'.get f ↔ e ∈ c.get f ∨ ∃ s ∈ subs, s.exchange = e ∧ route s.kind = some f) ∧
      (c.Nodup → c'.Nodup) := by
  induction subs generalizing c with
  | nil => exact ⟨c, rfl, by simp, id⟩
  | cons s t ih =>
    have hs := h s (by simp)
    obtain ⟨f0, hf0⟩ := Option.isSome_iff_exists.mp hs
    have hadd : c.add s = .ok (c.set f0 (insertNew (c.get f0) s.exchange)) := by simp [Chans.add, hf0]
    obtain ⟨c', hc', hmem, hnd⟩ := ih (c.set f0 (insertNew (c.get f0) s.exchange))
      (fun x hx => h x (by simp [hx]))
    refine ⟨c', by simp [Chans.addAll, hadd, hc'], ?_, ?_⟩
    · intro f e
      rw [hmem f e, Chans.get_set]
      by_cases hf : f = f0
      · subst hf
        simp only [if_true, mem_insertNew, List.mem_cons, exists_eq_or_imp, hf0]
        constructor
        · rintro ((h1 | h1) | h1)
          · exact .inl h1
          · exact .inr (.inl ⟨h1.symm, trivial⟩)
          · exact .inr (.inr h1)
        · rintro (h1 | ⟨h1, _⟩ | h1)
          · exact .inl (.inl h1)
          · exact .inl (.inr h1.symm)
          · exact .inr h1
      · simp only [hf, if_false, List.mem_cons, exists_eq_or_imp, hf0]
        constructor
        · rintro (h1 | h1)
          · exact .inl h1
          · exact .inr (.inr h1)
        · rintro (h1 | ⟨_, h1⟩ | h1)
          · exact .inl h1
          · exact absurd (Option.some.inj h1).symm hf
          · exact .inr h1
    · intro hc
      apply hnd
      intro f
      rw [Chans.get_set]
      split
      · exact nodup_insertNew _ _ (hc f0)
      · exact hc f

theorem addAll_error (subs : List (Subscr ι)) (c : Chans) (k : SubKind) (h : c.addAll subs = .error k) :
    ∃ s ∈ subs, s.kind = k ∧ route k = none := by
  induction subs generalizing c with
  | nil => simp [Chans.addAll] at h
  | cons s t ih =>
    simp only [Chans.addAll] at h
    cases hr : route s.kind with
    | none =>
      simp only [Chans.add, hr] at h
      injection h with h
      exact ⟨s, by simp, h, h ▸ hr⟩
    | some f =>
      simp only [Chans.add, hr] at h
      obtain ⟨x, hx, h1, h2⟩ := ih _ h
      exact ⟨x, by simp [hx], h1, h2⟩

end chans

/-! ### H. `init` -/
section init
variable {ι : Type} [DecidableEq ι] (ops : InstOps ι)

theorem collectM_eq_ok_map {α β ε : Type} (f : α → Except ε β) (g : α → β) (l : List α)
    (h : ∀ a ∈ l, f a = .ok (g a)) : collectM f l = .ok (l.map g) := by
  rw [collectM_ok_iff, List.map_map]
  exact List.map_congr_left (fun a ha => by simp [h a ha])

theorem supported_arm_route_table : ∀ e ∈ ExchangeId.all, ∀ ik ∈ IKC.all, ∀ k ∈ SubKind.all,
    supportsIKSK e ik k = true → hasArm e k = true ∧ (route k).isSome = true := by decide +kernel

theorem supported_arm_route (e : ExchangeId) (ik : IKC) (k : SubKind) (h : supportsIKSK e ik k = true) :
    hasArm e k = true ∧ (route k).isSome = true :=
  supported_arm_route_table e (BarterModel.Names.mem_all e) ik (IKC.mem_all ik) k (SubKind.mem_all k) h

omit [DecidableEq ι] in
theorem valid_arm_route (s : Subscr ι) (h : s.valid ops = true) :
    hasArm s.exchange s.kind = true ∧ (route s.kind).isSome = true :=
  supported_arm_route _ _ _ h

theorem mem_specSet (b : List (Subscr ι)) (s : Subscr ι) : s ∈ specSet ops b ↔ s ∈ b :=
  BarterModel.Index.mem_sortDedup _ _ _

variable {usort : List (Subscr ι) → List (Subscr ι)} (hu : UnstableSort usort)
include hu

theorem init_ok (batches : List (List (Subscr ι))) (hv : ∀ b ∈ batches, ∀ s ∈ b, s.valid ops = true) :
    ∃ chans, channels (batches.map (specSet ops)) = .ok chans ∧
      (∀ f e, e ∈ chans.get f ↔ ∃ b ∈ batches, ∃ s ∈ b, s.exchange = e ∧ route s.kind = some f) ∧
      chans.Nodup ∧
      init ops usort batches =
        .ok ⟨(batches.map (specSet ops)).map (fun b => (groups usort b).map connOf), chans⟩ := by
  have hvs := (validateBatches_ok_iff ops batches _).mpr ⟨hv, rfl⟩
  have hvalid : ∀ s ∈ (batches.map (specSet ops)).flatten, s.valid ops = true := by
    intro s hs
    obtain ⟨b', hb', hs'⟩ := List.mem_flatten.mp hs
    obtain ⟨b, hb, rfl⟩ := List.mem_map.mp hb'
    exact hv b hb s ((mem_specSet ops b s).mp hs')
  obtain ⟨chans, hch, hmem, hnd⟩ := addAll_ok (batches.map (specSet ops)).flatten {}
    (fun s hs => (valid_arm_route ops s (hvalid s hs)).2)
  have hmem' : ∀ f e, e ∈ chans.get f ↔ ∃ b ∈ batches, ∃ s ∈ b, s.exchange = e ∧ route s.kind = some f := by
    intro f e
    rw [hmem f e]
    have : e ∉ ({} : Chans).get f := by cases f <;> simp [Chans.get]
    simp only [this, false_or]
    constructor
    · rintro ⟨s, hs, h1, h2⟩
      obtain ⟨b', hb', hs'⟩ := List.mem_flatten.mp hs
      obtain ⟨b, hb, rfl⟩ := List.mem_map.mp hb'
      exact ⟨b, hb, s, (mem_specSet ops b s).mp hs', h1, h2⟩
    · rintro ⟨b, hb, s, hs, h1, h2⟩
      exact ⟨s, List.mem_flatten.mpr ⟨specSet ops b, List.mem_map.mpr ⟨b, hb, rfl⟩,
        (mem_specSet ops b s).mpr hs⟩, h1, h2⟩
  refine ⟨chans, hch, hmem', hnd Chans.empty_nodup, ?_⟩
  unfold init
  rw [hvs]
  simp only
  rw [show channels (batches.map (specSet ops)) = .ok chans from hch]
  simp only
  have hdisp : ∀ b ∈ batches.map (specSet ops), ∀ g ∈ groups usort b, dispatch chans g = .ok (connOf g) := by
    intro b' hb' g hg
    obtain ⟨b, hb, rfl⟩ := List.mem_map.mp hb'
    have ⟨hne, hg2⟩ := groups_wf hu (specSet ops b) g hg
    obtain ⟨s, hs⟩ := List.exists_mem_of_ne_nil _ hne
    have ⟨hk, hsb⟩ := hg2 s hs
    have hsb0 : s ∈ b := (mem_specSet ops b s).mp hsb
    have hval := hv b hb s hsb0
    have ⟨harm, hroute⟩ := valid_arm_route ops s hval
    have he : s.exchange = g.1.1 := by rw [← hk]; rfl
    have hkk : s.kind = g.1.2 := by rw [← hk]; rfl
    rw [he, hkk] at harm
    rw [hkk] at hroute
    obtain ⟨f, hf⟩ := Option.isSome_iff_exists.mp hroute
    have hin : g.1.1 ∈ chans.get f := (hmem' f g.1.1).mpr ⟨b, hb, s, hsb0, he, hkk ▸ hf⟩
    have hnotempty : g.2.isEmpty = false := by
      cases hg2' : g.2 with
      | nil => exact absurd hg2' hne
      | cons _ _ => rfl
    simp [dispatch, harm, hf, hin, hnotempty, connOf]
  rw [collectM_eq_ok_map _ (fun b => (groups usort b).map connOf) _
    (fun b hb => collectM_eq_ok_map _ connOf _ (hdisp b hb))]

theorem init_error (batches : List (List (Subscr ι))) (e : InitErr ι) (h : init ops usort batches = .error e) :
    ∃ s, e = .validation s ∧ validateBatches ops batches = .error s := by
  cases hv : validateBatches ops batches with
  | error s =>
    unfold init at h
    rw [hv] at h
    simp only at h
    injection h with h
    exact ⟨s, h.symm, rfl⟩
  | ok vs =>
    have := (validateBatches_ok_iff ops batches vs).mp hv
    obtain ⟨chans, _, _, _, hok⟩ := init_ok ops hu batches this.1
    rw [hok] at h; cases h

end init

/-! ### I. `select_*` -/
section select

theorem Chans.ext_get (a b : Chans) (h : ∀ f, a.get f = b.get f) : a = b := by
  obtain ⟨a1, a2, a3, a4⟩ := a
  obtain ⟨b1, b2, b3, b4⟩ := b
  have h1 := h .trades; have h2 := h .l1s; have h3 := h .l2s; have h4 := h .liquidations
  simp only [Chans.get] at h1 h2 h3 h4
  subst h1 h2 h3 h4; rfl

theorem filter_const_true {α : Type} (l : List α) : l.filter (fun _ => true) = l :=
  List.filter_eq_self.mpr (by simp)

/-- what one call leaves of family `f` -/
def keeps (f : Chan) (e : ExchangeId) : SelOp → Bool
  | .everything => false
  | .selectAll f' => f' != f
  | .select f' e' => !(f' == f && e' == e)

theorem step_get (c : Chans) (hc : c.Nodup) (op : SelOp) (f : Chan) :
    (c.step op).get f = (c.get f).filter (fun e => keeps f e op) ∧ (c.step op).Nodup := by
  cases op with
  | everything =>
    refine ⟨?_, Chans.empty_nodup⟩
    cases f <;> simp [Chans.step, Chans.get, keeps]
  | selectAll f' =>
    constructor
    · simp only [Chans.step, Chans.selectAll, Chans.get_set, keeps]
      by_cases h : f = f'
      · subst h; simp
      · have : (f' != f) = true := by simpa using fun h' => h h'.symm
        simp [h, this, filter_const_true]
    · intro g
      simp only [Chans.step, Chans.selectAll, Chans.get_set]
      split
      · simp
      · exact hc g
  | select f' e' =>
    by_cases hmem : e' ∈ c.get f'
    · constructor
      · simp only [Chans.step, Chans.select, hmem, if_true, Chans.get_set, keeps]
        by_cases h : f = f'
        · subst h
          rw [if_pos rfl, (hc f).erase_eq_filter]
          apply List.filter_congr
          intro x _
          simp only [bne, beq_self_eq_true, Bool.true_and]
          rw [BEq.comm]
        · have : (f' == f) = false := by simpa using fun h' => h h'.symm
          simp [h, this, filter_const_true]
      · intro g
        simp only [Chans.step, Chans.select, hmem, if_true, Chans.get_set]
        split
        · exact (hc f').erase _
        · exact hc g
    · constructor
      · simp only [Chans.step, Chans.select, hmem, if_false, keeps]
        symm
        rw [List.filter_eq_self]
        intro x hx
        by_cases h : f' = f
        · subst h
          have : x ≠ e' := fun h => hmem (h ▸ hx)
          simp [Ne.symm this]
        · simp [h]
      · simpa [Chans.step, Chans.select, hmem] using hc

theorem run_get (c : Chans) (hc : c.Nodup) (ops : List SelOp) (f : Chan) :
    (c.run ops).get f = (c.get f).filter (fun e => ops.all (keeps f e)) ∧ (c.run ops).Nodup := by
  induction ops generalizing c with
  | nil => simp [Chans.run, hc, filter_const_true]
  | cons op t ih =>
    have ⟨h1, h2⟩ := step_get c hc op f
    have ⟨h3, h4⟩ := ih (c.step op) h2
    refine ⟨?_, by simpa [Chans.run] using h4⟩
    simp only [Chans.run, List.foldl_cons] at h3 ⊢
    rw [h3, h1, List.filter_filter]
    apply List.filter_congr
    intro x _
    simp [Bool.and_comm]

theorem specPresent_eq (c : Chans) (ops : List SelOp) (f : Chan) (e : ExchangeId) :
    specPresent c ops f e = (decide (e ∈ c.get f) && ops.all (keeps f e)) := by
  unfold specPresent
  congr 1

end select

/-! ### J. builders -/
section builders
variable {ι : Type}

theorem foldl_subscribe (calls : List (Exch × List ι)) (b0 : Builder ι) :
    let b := calls.foldl (fun b c => b.subscribe c.1 c.2) b0
    b.futures = b0.futures ++ calls ∧ b.kind = b0.kind ∧
      (∀ x, x ∈ b.channels ↔ x ∈ b0.channels ∨ ∃ call ∈ calls, connId call.1 = x) ∧
      (b0.channels.Nodup → b.channels.Nodup) := by
  induction calls generalizing b0 with
  | nil => simp
  | cons call t ih =>
    obtain ⟨h1, h2, h3, h4⟩ := ih (b0.subscribe call.1 call.2)
    simp only [List.foldl_cons]
    refine ⟨by rw [h1]; simp [Builder.subscribe], by rw [h2]; rfl, ?_, ?_⟩
    · intro x
      rw [h3 x]
      simp only [Builder.subscribe, mem_insertNew, List.mem_cons, exists_eq_or_imp]
      constructor
      · rintro ((h | h) | h)
        · exact .inl h
        · exact .inr (.inl h.symm)
        · exact .inr (.inr h)
      · rintro (h | h | h)
        · exact .inl (.inl h)
        · exact .inl (.inr h.symm)
        · exact .inr h
    · intro h
      apply h4
      simpa [Builder.subscribe] using nodup_insertNew _ _ h

theorem ofCalls_spec (kind : SubKind) (calls : List (Exch × List ι)) :
    (Builder.ofCalls kind calls).futures = calls ∧ (Builder.ofCalls kind calls).kind = kind ∧
      (∀ x, x ∈ (Builder.ofCalls kind calls).channels ↔ ∃ call ∈ calls, connId call.1 = x) ∧
      (Builder.ofCalls kind calls).channels.Nodup := by
  obtain ⟨h1, h2, h3, h4⟩ := foldl_subscribe calls ({ kind := kind } : Builder ι)
  unfold Builder.ofCalls
  exact ⟨by simpa using h1, h2, fun x => by simpa using h3 x, h4 (by simp)⟩

theorem multi_add_channels (m : Multi ι) (b : Builder ι) (x : ExchangeId) :
    x ∈ (m.add b).channels ↔ x ∈ m.channels ∨ x ∈ b.channels := by
  simp only [Multi.add]
  generalize m.channels = l
  induction b.channels generalizing l with
  | nil => simp
  | cons a t ih =>
    simp only [List.foldl_cons, ih, mem_insertNew, List.mem_cons]
    constructor
    · rintro ((h | h) | h)
      · exact .inl h
      · exact .inr (.inl h)
      · exact .inr (.inr h)
    · rintro (h | h | h)
      · exact .inl (.inl h)
      · exact .inl (.inr h)
      · exact .inr h

theorem multi_add_nodup (m : Multi ι) (b : Builder ι) (h : m.channels.Nodup) : (m.add b).channels.Nodup := by
  simp only [Multi.add]
  generalize m.channels = l at h
  induction b.channels generalizing l with
  | nil => simpa
  | cons a t ih => exact ih _ (nodup_insertNew _ _ h)

variable [DecidableEq ι] (ops : InstOps ι)

theorem sortDedup_eq_nil {α : Type} [DecidableEq α] (key : α → List Nat) (l : List α) :
    sortDedup key l = [] ↔ l = [] := by
  constructor
  · intro h
    cases l with
    | nil => rfl
    | cons a t =>
      have := (BarterModel.Index.mem_sortDedup key (a :: t) a).mpr (by simp)
      rw [h] at this; simp at this
  · rintro rfl; simp [sortDedup, BarterModel.Index.dedup]

theorem subscribeOutcome_unsupported_iff (c : Exch) (insts : List ι) (i : ι) :
    subscribeOutcome ops c insts = .unsupported i ↔
      ∃ pre post, insts = pre ++ i :: post ∧ (∀ a ∈ pre, staticValid c (ops.cls a) = true) ∧
        staticValid c (ops.cls i) = false := by
  unfold subscribeOutcome
  rw [← collectM_guard_error_iff (fun i => staticValid c (ops.cls i)) insts i]
  cases hc : collectM (fun i => if staticValid c (ops.cls i) = true then Except.ok i else Except.error i) insts with
  | error x => simp
  | ok l =>
    simp only [reduceCtorEq, iff_false]
    cases sortDedup ops.sortKey l <;> simp

theorem subscribeOutcome_of_valid (c : Exch) (insts : List ι)
    (h : ∀ a ∈ insts, staticValid c (ops.cls a) = true) :
    subscribeOutcome ops c insts =
      if insts = [] then .empty else .connect (sortDedup ops.sortKey insts) := by
  unfold subscribeOutcome
  rw [(collectM_guard_ok_iff (fun i => staticValid c (ops.cls i)) insts insts).mpr ⟨rfl, h⟩]
  simp only
  cases hs : sortDedup ops.sortKey insts with
  | nil => simp [(sortDedup_eq_nil _ _).mp hs]
  | cons a t =>
    have : insts ≠ [] := by rintro rfl; simp [sortDedup, BarterModel.Index.dedup] at hs
    simp [this]

theorem subscribeOutcome_of_invalid (c : Exch) (insts : List ι)
    (h : ¬ ∀ a ∈ insts, staticValid c (ops.cls a) = true) :
    ∃ i, subscribeOutcome ops c insts = .unsupported i := by
  unfold subscribeOutcome
  cases hc : collectM (fun i => if staticValid c (ops.cls i) = true then Except.ok i else Except.error i) insts with
  | error x => exact ⟨x, rfl⟩
  | ok l => exact absurd ((collectM_guard_ok_iff (fun i => staticValid c (ops.cls i)) insts l).mp hc).2 h

theorem subscribeOutcome_empty_iff (c : Exch) (insts : List ι) :
    subscribeOutcome ops c insts = .empty ↔ insts = [] := by
  by_cases h : ∀ a ∈ insts, staticValid c (ops.cls a) = true
  · rw [subscribeOutcome_of_valid ops c insts h]
    by_cases h0 : insts = [] <;> simp [h0]
  · obtain ⟨i, hi⟩ := subscribeOutcome_of_invalid ops c insts h
    rw [hi]
    simp only [reduceCtorEq, false_iff]
    rintro rfl; simp at h

theorem subscribeOutcome_connect_iff (c : Exch) (insts l : List ι) :
    subscribeOutcome ops c insts = .connect l ↔
      (∀ a ∈ insts, staticValid c (ops.cls a) = true) ∧ insts ≠ [] ∧ l = sortDedup ops.sortKey insts := by
  by_cases h : ∀ a ∈ insts, staticValid c (ops.cls a) = true
  · rw [subscribeOutcome_of_valid ops c insts h]
    by_cases h0 : insts = []
    · simp [h0]
    · simp only [h0, if_false, SubscribeOutcome.connect.injEq, ne_eq, not_false_eq_true, true_and]
      exact ⟨fun h' => ⟨h, h'.symm⟩, fun h' => h'.2.symm⟩
  · obtain ⟨i, hi⟩ := subscribeOutcome_of_invalid ops c insts h
    rw [hi]
    simp only [reduceCtorEq, false_iff, not_and]
    intro h'; exact absurd h' h

/-! #### the first poll of a `subscribe` future -/

theorem callPoll_ne_none (call : Exch × List ι) : callPoll ops call ≠ none := by
  unfold callPoll; cases subscribeOutcome ops call.1 call.2 <;> simp

theorem callPoll_noErr_iff (call : Exch × List ι) :
    NoErr (callPoll ops call) ↔ ∃ l, subscribeOutcome ops call.1 call.2 = .connect l := by
  unfold callPoll NoErr; cases subscribeOutcome ops call.1 call.2 <;> simp

theorem callPoll_error_iff (call : Exch × List ι) (c : Exch) (o : SubscribeOutcome ι) :
    callPoll ops call = some (.error (c, o)) ↔
      call.1 = c ∧ subscribeOutcome ops call.1 call.2 = o ∧ ∀ l, o ≠ .connect l := by
  unfold callPoll
  cases ho : subscribeOutcome ops call.1 call.2 with
  | connect l => simp only [reduceCtorEq, false_iff, Option.some.injEq]; rintro ⟨_, rfl, h⟩; exact h l rfl
  | unsupported i =>
    simp only [Option.some.injEq, PreNet.error.injEq, Prod.mk.injEq]
    exact ⟨fun h => ⟨h.1, h.2, by rw [← h.2]; simp⟩, fun h => ⟨h.1, h.2.1⟩⟩
  | empty =>
    simp only [Option.some.injEq, PreNet.error.injEq, Prod.mk.injEq]
    exact ⟨fun h => ⟨h.1, h.2, by rw [← h.2]; simp⟩, fun h => ⟨h.1, h.2.1⟩⟩

theorem callPoll_network_iff (call : Exch × List ι) :
    callPoll ops call = some .network ↔ ∃ l, subscribeOutcome ops call.1 call.2 = .connect l := by
  unfold callPoll; cases subscribeOutcome ops call.1 call.2 <;> simp

/-! #### `try_join_all` up to the network -/
section join
variable {ε : Type}

theorem joinSmall_network_cons (t : List (Option (PreNet ε))) (e : ε) :
    joinSmall (some .network :: t) = some (.error e) ↔ joinSmall t = some (.error e) := by
  simp only [joinSmall]
  cases h : joinSmall t with
  | none => simp
  | some r => cases r <;> simp

theorem joinSmall_error_iff (l : List (Option (PreNet ε))) (e : ε) :
    joinSmall l = some (.error e) ↔
      ∃ pre post, l = pre ++ some (.error e) :: post ∧ ∀ x ∈ pre, NoErr x := by
  induction l with
  | nil => simp [joinSmall]
  | cons x t ih =>
    have step : ∀ (hx : NoErr x), (joinSmall (x :: t) = some (.error e) ↔ joinSmall t = some (.error e)) →
        (joinSmall (x :: t) = some (.error e) ↔
          ∃ pre post, x :: t = pre ++ some (.error e) :: post ∧ ∀ y ∈ pre, NoErr y) := by
      intro hx hstep
      rw [hstep, ih]
      constructor
      · rintro ⟨pre, post, rfl, h⟩
        refine ⟨x :: pre, post, rfl, ?_⟩
        intro y hy
        rcases List.mem_cons.mp hy with rfl | hy
        · exact hx
        · exact h y hy
      · rintro ⟨pre, post, h, hp⟩
        cases pre with
        | nil =>
          simp only [List.nil_append, List.cons.injEq] at h
          exact absurd h.1 (hx e)
        | cons p pre =>
          simp only [List.cons_append, List.cons.injEq] at h
          exact ⟨pre, post, h.2, fun y hy => hp y (by simp [hy])⟩
    cases x with
    | none => exact step (fun e' => by simp) (by simp [joinSmall])
    | some r =>
      cases r with
      | network => exact step (fun e' => by simp) (joinSmall_network_cons t e)
      | error e0 =>
        simp only [joinSmall, Option.some.injEq, PreNet.error.injEq]
        constructor
        · rintro rfl; exact ⟨[], t, rfl, by simp⟩
        · rintro ⟨pre, post, h, hp⟩
          cases pre with
          | nil => simp only [List.nil_append, List.cons.injEq, Option.some.injEq, PreNet.error.injEq] at h; exact h.1
          | cons p pre =>
            simp only [List.cons_append, List.cons.injEq] at h
            exact absurd h.1.symm (hp p (by simp) e0)

theorem joinSmall_none_iff (l : List (Option (PreNet ε))) : joinSmall l = none ↔ ∀ x ∈ l, x = none := by
  induction l with
  | nil => simp [joinSmall]
  | cons x t ih =>
    match x with
    | none => simp [joinSmall, ih]
    | some (.error e0) => simp [joinSmall]
    | some .network =>
      simp only [joinSmall]
      cases h : joinSmall t with
      | none => simp
      | some r => cases r <;> simp

/-- the three outcomes of the small mode -/
theorem joinSmall_network_iff (l : List (Option (PreNet ε))) :
    joinSmall l = some .network ↔ (∀ x ∈ l, NoErr x) ∧ ∃ x ∈ l, x ≠ none := by
  constructor
  · intro h
    refine ⟨?_, ?_⟩
    · intro x hx e hxe
      subst hxe
      obtain ⟨pre, post, rfl⟩ := List.append_of_mem hx
      -- first error in the list decides
      have : ∃ e', joinSmall (pre ++ some (.error e) :: post) = some (.error e') := by
        clear h hx
        induction pre with
        | nil => exact ⟨e, by simp [joinSmall]⟩
        | cons p pre ih =>
          obtain ⟨e', he'⟩ := ih
          match p with
          | none => exact ⟨e', by simpa [joinSmall] using he'⟩
          | some (.error e0) => exact ⟨e0, by simp [joinSmall]⟩
          | some .network => exact ⟨e', by rw [List.cons_append, joinSmall_network_cons]; exact he'⟩
      obtain ⟨e', he'⟩ := this
      rw [h] at he'; cases he'
    · apply Classical.byContradiction
      intro hno
      have : ∀ x ∈ l, x = none := fun x hx => Classical.byContradiction fun hne => hno ⟨x, hx, hne⟩
      rw [(joinSmall_none_iff l).mpr this] at h; cases h
  · rintro ⟨hno, x, hx, hxn⟩
    cases h : joinSmall l with
    | none => exact absurd ((joinSmall_none_iff l).mp h x hx) hxn
    | some r =>
      cases r with
      | network => rfl
      | error e =>
        obtain ⟨pre, post, rfl, _⟩ := (joinSmall_error_iff l e).mp h
        exact absurd rfl (hno _ (by simp) e)

theorem joinBig_none_iff (l : List (Option (PreNet ε))) : joinBig l = none ↔ ∀ x ∈ l, x = none := by
  induction l with
  | nil => simp [joinBig]
  | cons x t ih => cases x <;> simp [joinBig, ih]

theorem joinBig_some_iff (l : List (Option (PreNet ε))) (r : PreNet ε) :
    joinBig l = some r ↔ ∃ pre post, l = pre ++ some r :: post ∧ ∀ x ∈ pre, x = none := by
  induction l with
  | nil => simp [joinBig]
  | cons x t ih =>
    cases x with
    | none =>
      simp only [joinBig, ih]
      constructor
      · rintro ⟨pre, post, rfl, h⟩
        exact ⟨none :: pre, post, rfl, by simpa using h⟩
      · rintro ⟨pre, post, h, hp⟩
        cases pre with
        | nil => simp at h
        | cons p pre =>
          simp only [List.cons_append, List.cons.injEq] at h
          exact ⟨pre, post, h.2, fun y hy => hp y (by simp [hy])⟩
    | some r0 =>
      simp only [joinBig, Option.some.injEq]
      constructor
      · rintro rfl; exact ⟨[], t, rfl, by simp⟩
      · rintro ⟨pre, post, h, hp⟩
        cases pre with
        | nil => simp only [List.nil_append, List.cons.injEq, Option.some.injEq] at h; exact h.1
        | cons p pre =>
          simp only [List.cons_append, List.cons.injEq] at h
          have := hp p (by simp); rw [← h.1] at this; cases this

end join

end builders

/-! ### K. `Map` -/
section map
open BarterModel.Connectors (IMap)

theorem mapFromIter_find_aux (l : List (Str × Nat)) (m : IMap) (k : Str) :
    (l.foldl (fun m kv => m.insert kv.1 kv.2) m).find k =
      match l.reverse.find? (fun kv => kv.1 = k) with
      | some kv => some kv.2
      | none => m.find k := by
  induction l generalizing m with
  | nil => simp
  | cons kv t ih =>
    simp only [List.foldl_cons, ih, List.reverse_cons, List.find?_append]
    cases ht : t.reverse.find? (fun kv => kv.1 = k) with
    | some kv' => simp
    | none =>
      simp only [Option.none_or, List.find?_cons, List.find?_nil]
      by_cases h : kv.1 = k
      · subst h; simp [BarterModel.Connectors.find_insert_self]
      · simp [h, BarterModel.Connectors.find_insert_ne _ _ _ _ (Ne.symm h)]

end map

/-! ### L. generic sorted chunking, `generate_indexed_market_data_subscription_batches` -/
section generic
variable {α κ : Type} [DecidableEq κ] (key : α → κ) (code : κ → List Nat) (hinj : Function.Injective code)
  {usort : List α → List α} (hu : UnstableSortBy (fun a => code (key a)) usort)
include hinj hu

theorem chunks_keys (l : List α) :
    (chunkBy key (usort l)).map (·.1) = sortDedup code (l.map key) := by
  have hanti : ∀ a b : κ, code a ≤ code b → code b ≤ code a → a = b :=
    fun a b h1 h2 => hinj (List.le_antisymm h1 h2)
  apply BarterModel.Index.strict_ext (leKey code) (BarterModel.Index.leKey_antisymm code hinj)
  · have := chunkBy_keys_strict key (fun a b => code a ≤ code b) hanti (usort l) (hu.sorted l)
    exact this.imp (fun h => ⟨by simpa [leKey] using h.1, h.2⟩)
  · exact BarterModel.Index.strict_sortDedup code hinj _
  · intro k
    rw [mem_chunkBy_keys, BarterModel.Index.mem_sortDedup, List.mem_map]
    constructor
    · rintro ⟨a, ha, h⟩; exact ⟨a, (hu.perm l).mem_iff.mp ha, h⟩
    · rintro ⟨a, ha, h⟩; exact ⟨a, (hu.perm l).mem_iff.mpr ha, h⟩

theorem chunks_eq (l : List α) :
    chunkBy key (usort l) =
      (sortDedup code (l.map key)).map (fun k => (k, (usort l).filter (fun a => key a = k))) := by
  have hanti : ∀ a b : κ, code a ≤ code b → code b ≤ code a → a = b :=
    fun a b h1 h2 => hinj (List.le_antisymm h1 h2)
  rw [← chunks_keys key code hinj hu l]
  exact eq_map_of_snd_eq _ _
    (chunkBy_eq_filter key (fun a b => code a ≤ code b) hanti (usort l) (hu.sorted l))

end generic

section generic_stable
variable {α κ : Type} [DecidableEq κ] (key : α → κ) (code : κ → List Nat) (hinj : Function.Injective code)

omit [DecidableEq κ] in
theorem mergeSort_unstableSortBy :
    UnstableSortBy (fun a => code (key a)) (fun l : List α => l.mergeSort (leKey (fun a => code (key a)))) :=
  ⟨fun l => List.mergeSort_perm l _, fun l => by
    have := List.pairwise_mergeSort (BarterModel.Index.leKey_trans (fun a : α => code (key a)))
      (BarterModel.Index.leKey_total _) l
    exact this.imp (fun h => by simpa [leKey] using h)⟩

include hinj in
theorem chunks_stable (l : List α) :
    chunkBy key (l.mergeSort (leKey (fun a => code (key a)))) =
      (sortDedup code (l.map key)).map (fun k => (k, l.filter (fun a => key a = k))) := by
  rw [chunks_eq key code hinj (mergeSort_unstableSortBy key code) l]
  apply List.map_congr_left
  intro k _
  rw [mergeSort_filter_key key code l k]

end generic_stable

section generate
open BarterModel.Index (Indexed exchangeKey)

theorem flatMap_congr' {α β : Type} (l : List α) (f g : α → List β) (h : ∀ a ∈ l, f a = g a) :
    l.flatMap f = l.flatMap g := by
  induction l with
  | nil => rfl
  | cons a t ih => simp [h a (by simp), ih (fun x hx => h x (by simp [hx]))]

theorem exchangeKey_inj' : Function.Injective exchangeKey := by
  intro a b h; simpa [exchangeKey] using h

theorem generate_flatten (usort : List (Nat × MInst) → List (Nat × MInst)) (ii : Indexed) (kinds : List SubKind) :
    (generateBatches usort ii kinds).flatten =
      (usort (ii.instruments.map fun k => (k.value.exchange.value, MInst.ofIndexed k))).flatMap
        fun ei => kinds.map fun k => (ei.1, ei.2, k) := by
  unfold generateBatches
  simp only
  generalize (usort (ii.instruments.map fun k => (k.value.exchange.value, MInst.ofIndexed k))) = l
  conv => rhs; rw [← chunkBy_flatten (·.1) l]
  induction chunkBy (fun x : Nat × MInst => x.1) l with
  | nil => simp
  | cons c rest ih => simp [List.flatMap_append, ih]

theorem generate_stable (ii : Indexed) (kinds : List SubKind) :
    generateBatches stableSortIdx ii kinds = specGenerate ii kinds := by
  unfold generateBatches specGenerate stableSortIdx
  simp only
  rw [chunks_stable (fun x : Nat × MInst => x.1) exchangeKey exchangeKey_inj']
  simp only [List.map_map, Function.comp_def]
  apply List.map_congr_left
  intro e _
  rw [List.filter_map, List.flatMap_map]
  apply flatMap_congr'
  intro k hk
  have : k.value.exchange.value = e := by simpa using (List.mem_filter.mp hk).2
  simp [this]

end generate

/-! ### M. `index_market_data_subscription_batches` -/
section index
open BarterModel.Index (Indexed)

theorem indexSub_ok_iff (ii : Indexed) (s : Nat × Inst × SubKind) (r : Nat × KInst × SubKind) :
    indexSub ii s = .ok r ↔
      ∃ b q k, ii.findAssetIndex s.1 s.2.1.base = some b ∧ ii.findAssetIndex s.1 s.2.1.quote = some q ∧
        findInstrument ii s.1 s.2.1.kind b q = some k ∧ r = (s.1, ⟨k, s.2.1⟩, s.2.2) := by
  cases hb : ii.findAssetIndex s.1 s.2.1.base with
  | none => simp [indexSub, hb]
  | some b =>
    cases hq : ii.findAssetIndex s.1 s.2.1.quote with
    | none => simp [indexSub, hb, hq]
    | some q =>
      cases hk : findInstrument ii s.1 s.2.1.kind b q with
      | none => simp [indexSub, hb, hq, hk]
      | some k => simp [indexSub, hb, hq, hk, eq_comm]

theorem indexSub_error_iff (ii : Indexed) (s : Nat × Inst × SubKind) (e : IndexErr) :
    indexSub ii s = .error e ↔
      ((ii.findAssetIndex s.1 s.2.1.base = none ∨ ii.findAssetIndex s.1 s.2.1.quote = none) ∧ e = .assetIndex) ∨
      (∃ b q, ii.findAssetIndex s.1 s.2.1.base = some b ∧ ii.findAssetIndex s.1 s.2.1.quote = some q ∧
        findInstrument ii s.1 s.2.1.kind b q = none ∧ e = .instrumentIndex) := by
  cases hb : ii.findAssetIndex s.1 s.2.1.base with
  | none => simp [indexSub, hb, eq_comm]
  | some b =>
    cases hq : ii.findAssetIndex s.1 s.2.1.quote with
    | none => simp [indexSub, hb, hq, eq_comm]
    | some q =>
      cases hk : findInstrument ii s.1 s.2.1.kind b q with
      | none => simp [indexSub, hb, hq, hk, eq_comm]
      | some k => simp [indexSub, hb, hq, hk]

/-- forgetting the key gives the input back -/
theorem indexSub_forget (ii : Indexed) (s : Nat × Inst × SubKind) (r : Nat × KInst × SubKind)
    (h : indexSub ii s = .ok r) : (r.1, r.2.1.value, r.2.2) = s := by
  obtain ⟨b, q, k, _, _, _, rfl⟩ := (indexSub_ok_iff ii s r).mp h
  rfl

theorem collectM_forget {α β ε : Type} (f : α → Except ε β) (g : β → α) (hg : ∀ a b, f a = .ok b → g b = a)
    (l : List α) (r : List β) (h : collectM f l = .ok r) : r.map g = l := by
  induction l generalizing r with
  | nil => cases r <;> simp_all [collectM]
  | cons a t ih =>
    have h' := (collectM_ok_iff f (a :: t) r).mp h
    cases r with
    | nil => simp at h'
    | cons b r' =>
      simp only [List.map_cons, List.cons.injEq] at h'
      simp only [List.map_cons, List.cons.injEq]
      exact ⟨hg a b h'.1, ih r' ((collectM_ok_iff f t r').mpr h'.2)⟩

theorem findInstrument_some (ii : Indexed) (e : Nat) (kind : IK) (b q k : Nat)
    (h : findInstrument ii e kind b q = some k) :
    ∃ pre x post, ii.instruments = pre ++ x :: post ∧ x.key = k ∧ x.value.exchange.value = e ∧
      eqKind x.value.kind kind = true ∧ x.value.base = b ∧ x.value.quote = q ∧
      ∀ y ∈ pre, ¬ (y.value.exchange.value = e ∧ eqKind y.value.kind kind = true ∧ y.value.base = b ∧
        y.value.quote = q) := by
  unfold findInstrument at h
  generalize ii.instruments = l at h
  induction l with
  | nil => simp at h
  | cons x t ih =>
    simp only [List.findSome?_cons] at h
    by_cases hx : x.value.exchange.value = e ∧ eqKind x.value.kind kind = true ∧ x.value.base = b ∧
        x.value.quote = q
    · simp only [hx, and_self, if_true, Option.some.injEq] at h
      exact ⟨[], x, t, rfl, h, hx.1, hx.2.1, hx.2.2.1, hx.2.2.2, by simp⟩
    · simp only [hx, if_false] at h
      obtain ⟨pre, y, post, hl, h1, h2, h3, h4, h5, h6⟩ := ih h
      refine ⟨x :: pre, y, post, by simp [hl], h1, h2, h3, h4, h5, ?_⟩
      intro z hz
      rcases List.mem_cons.mp hz with rfl | hz
      · exact hx
      · exact h6 z hz

end index

end BarterModel.Subscribe
