import BarterModel.Lemmas.Book
/-!
Lemmas for the second-review additions to C05 (`Props/C05.lean`, section "Review 2"):

* `upsertSingle_delete_absent`: deleting a price no stored level carries is a no-op for EVERY list
  (no order, no non-zero hypothesis) — `binary_search_by` answers `Ok` only on `Equal`;
* `PosAmounts`: all stored amounts strictly positive, preserved by `upsert_single` / `upsert` /
  `OrderBook::update` / histories when every incoming amount is `≥ 0` (and snapshot amounts are
  `≠ 0`): the sufficient condition under which the divisor of `volume_weighted_mid_price`
  (`books/mod.rs:309-312`) is non-zero.
-/
namespace BarterModel.Book

/-- Scenario 2a of `upsert_single` (`books/mod.rs:219-247`) for an arbitrary list: amount zero and
no level with that price ⇒ the list is unchanged. -/
theorem upsertSingle_delete_absent (s : Side) (ls : List Level) (new : Level)
    (hzero : new.amount = 0) (habsent : ∀ l ∈ ls, l.price ≠ new.price) :
    upsertSingle s new ls = ls := by
  induction ls with
  | nil => simp [upsertSingle, hzero]
  | cons x xs ih =>
    have hx : x.price ≠ new.price := habsent x (by simp)
    have ih := ih (fun l hl => habsent l (by simp [hl]))
    simp only [upsertSingle]
    split
    · rw [ih]
    · rename_i hc
      rw [Side.cmp_eq_iff] at hc
      exact absurd hc hx
    · simp [hzero]

/-- every stored amount is strictly positive -/
def PosAmounts (ls : List Level) : Prop := ∀ l ∈ ls, 0 < l.amount

/-- every amount of an incoming level list is `≥ 0` (zero = delete) -/
def NonNegAmounts (ls : List Level) : Prop := ∀ l ∈ ls, 0 ≤ l.amount

instance (ls : List Level) : Decidable (PosAmounts ls) := by unfold PosAmounts; infer_instance
instance (ls : List Level) : Decidable (NonNegAmounts ls) := by unfold NonNegAmounts; infer_instance

/-- `OrderBook::new` on levels that are already in (non-strict) book order stores them as given
(stable sort); in particular it neither dedups equal prices nor drops zero amounts. -/
theorem new_of_pairwise_le {seq : Nat} {bids asks : List Level}
    (hb : bids.Pairwise (fun a b => Side.le .bids a b = true))
    (ha : asks.Pairwise (fun a b => Side.le .asks a b = true)) :
    OrderBook.new seq bids asks = ⟨seq, bids, asks⟩ := by
  unfold OrderBook.new sortLevels
  rw [List.mergeSort_of_pairwise hb, List.mergeSort_of_pairwise ha]

theorem pos_of_nonneg_ne_zero {a : Rat} (h1 : 0 ≤ a) (h2 : a ≠ 0) : 0 < a := by grind

theorem posAmounts_of_nonZero {ls : List Level} (hz : NonZero ls) (hn : NonNegAmounts ls) :
    PosAmounts ls := fun l hl => pos_of_nonneg_ne_zero (hn l hl) (hz l hl)

theorem PosAmounts.nonZero {ls : List Level} (h : PosAmounts ls) : NonZero ls := by
  intro l hl e
  have := h l hl
  rw [e] at this
  exact absurd this (by decide)

theorem posAmounts_upsertSingle {s : Side} {n : Level} {ls : List Level} (h : PosAmounts ls)
    (hn : 0 ≤ n.amount) : PosAmounts (upsertSingle s n ls) := by
  induction ls with
  | nil =>
    simp only [upsertSingle]
    split
    · intro y hy; cases hy
    · rename_i hz
      intro y hy
      simp only [List.mem_cons, List.not_mem_nil, or_false] at hy
      subst hy; exact pos_of_nonneg_ne_zero hn hz
  | cons x xs ih =>
    have ih := ih (fun y hy => h y (by simp [hy]))
    simp only [upsertSingle]
    split
    · intro y hy
      simp only [List.mem_cons] at hy
      rcases hy with hy | hy
      · exact h y (by simp [hy])
      · exact ih y hy
    · split
      · exact fun y hy => h y (by simp [hy])
      · rename_i hz
        intro y hy
        simp only [List.mem_cons] at hy
        rcases hy with hy | hy
        · subst hy; exact pos_of_nonneg_ne_zero hn hz
        · exact h y (by simp [hy])
    · split
      · exact h
      · rename_i hz
        intro y hy
        simp only [List.mem_cons] at hy
        rcases hy with hy | hy
        · subst hy; exact pos_of_nonneg_ne_zero hn hz
        · exact h y (by simpa using hy)

theorem posAmounts_upsert {s : Side} {ls us : List Level} (h : PosAmounts ls)
    (hn : NonNegAmounts us) : PosAmounts (upsert s ls us) := by
  unfold upsert
  induction us generalizing ls with
  | nil => exact h
  | cons u us ih =>
    simp only [List.foldl_cons]
    exact ih (posAmounts_upsertSingle h (hn u (by simp))) (fun l hl => hn l (by simp [hl]))

/-- both sides hold strictly positive amounts only -/
structure PosBook (b : OrderBook) : Prop where
  bids : PosAmounts b.bids
  asks : PosAmounts b.asks

/-- the levels an event carries all have amounts `≥ 0` -/
def Event.NonNeg (ev : Event) : Prop := NonNegAmounts ev.book.bids ∧ NonNegAmounts ev.book.asks

theorem posBook_default : PosBook OrderBook.default :=
  ⟨fun _ h => by simp [OrderBook.default] at h, fun _ h => by simp [OrderBook.default] at h⟩

theorem posBook_update {b : OrderBook} {ev : Event} (h : PosBook b) (hn : ev.NonNeg)
    (hs : ∀ sn, ev = .snapshot sn → WFBook sn) : PosBook (b.update ev) := by
  cases ev with
  | snapshot sn =>
    have hw := hs sn rfl
    exact ⟨posAmounts_of_nonZero hw.bidsNonZero hn.1, posAmounts_of_nonZero hw.asksNonZero hn.2⟩
  | update u => exact ⟨posAmounts_upsert h.bids hn.1, posAmounts_upsert h.asks hn.2⟩

theorem posBook_run {b : OrderBook} {evs : List Event} (h : PosBook b)
    (hn : ∀ ev ∈ evs, ev.NonNeg) (hs : ∀ sn, Event.snapshot sn ∈ evs → WFBook sn) :
    PosBook (b.run evs) := by
  induction evs generalizing b with
  | nil => exact h
  | cons ev evs ih =>
    simp only [OrderBook.run, List.foldl_cons]
    exact ih (posBook_update h (hn ev (by simp)) (fun sn he => hs sn (by simp [he])))
      (fun e he => hn e (by simp [he])) (fun sn he => hs sn (by simp [he]))

end BarterModel.Book
