/-!
# C13 — market-data connectors: subscription ids, instrument map, stateless transformer

Concrete model (mirrors `/repo/barter-data`, one definition per Rust item, `file:line` in each doc
comment) and, at the end, the abstract venue specification written from the property text.

Strings are `List Char` (`Str`). Only ASCII case mapping is modelled (`lowc`/`upc`); the Rust code
uses the Unicode `to_lowercase`/`to_uppercase`, which agree with these on ASCII input (the
correspondence generates ASCII alphanumeric asset names only).

Core Lean only (the driver links as a `lean_exe`).
-/
namespace BarterModel.Connectors

abbrev Str := List Char

/-- ASCII lower-casing of one char (`char::to_lowercase` restricted to ASCII). -/
def lowc (c : Char) : Char :=
  if 65 ≤ c.toNat ∧ c.toNat ≤ 90 then Char.ofNat (c.toNat + 32) else c

/-- ASCII upper-casing of one char (`char::to_uppercase` restricted to ASCII). -/
def upc (c : Char) : Char :=
  if 97 ≤ c.toNat ∧ c.toNat ≤ 122 then Char.ofNat (c.toNat - 32) else c

def lower (s : Str) : Str := s.map lowc
def upper (s : Str) : Str := s.map upc

/-- `barter_instrument::exchange::ExchangeId` values reachable from
`barter-data/src/streams/builder/dynamic/mod.rs:127-527`. -/
inductive Exch
  | binanceSpot | binanceFuturesUsd | bitfinex | bitmex | bybitSpot | bybitPerpetualsUsd | coinbase
  | gateioSpot | gateioFuturesUsd | gateioFuturesBtc | gateioPerpetualsUsd | gateioPerpetualsBtc
  | gateioOptions | kraken | okx
  deriving DecidableEq, Repr, Inhabited

/-- `SubKind` (`barter-data/src/subscription/mod.rs:76-83`), the four kinds the builder routes. -/
inductive Kind
  | publicTrades | orderBooksL1 | orderBooksL2 | liquidations
  deriving DecidableEq, Repr, Inhabited

structure Pair where
  exch : Exch
  kind : Kind
  deriving DecidableEq, Repr, Inhabited

/-- The `(ExchangeId, SubKind)` arms of `DynamicStreams::init`
(`barter-data/src/streams/builder/dynamic/mod.rs:127-527`), in source order. Every other pair ends in
`DataError::Unsupported` (`:543`). -/
def supported : List Pair :=
  [ ⟨.binanceSpot, .publicTrades⟩, ⟨.binanceSpot, .orderBooksL1⟩, ⟨.binanceSpot, .orderBooksL2⟩,
    ⟨.binanceFuturesUsd, .publicTrades⟩, ⟨.binanceFuturesUsd, .orderBooksL1⟩,
    ⟨.binanceFuturesUsd, .orderBooksL2⟩, ⟨.binanceFuturesUsd, .liquidations⟩,
    ⟨.bitfinex, .publicTrades⟩, ⟨.bitmex, .publicTrades⟩, ⟨.bybitSpot, .publicTrades⟩,
    ⟨.bybitPerpetualsUsd, .publicTrades⟩, ⟨.coinbase, .publicTrades⟩, ⟨.gateioSpot, .publicTrades⟩,
    ⟨.gateioFuturesUsd, .publicTrades⟩, ⟨.gateioFuturesBtc, .publicTrades⟩,
    ⟨.gateioPerpetualsUsd, .publicTrades⟩, ⟨.gateioPerpetualsBtc, .publicTrades⟩,
    ⟨.gateioOptions, .publicTrades⟩, ⟨.kraken, .publicTrades⟩, ⟨.kraken, .orderBooksL1⟩,
    ⟨.okx, .publicTrades⟩ ]

/-! (the instrument-kind filter `supports` is defined after `IKind` below) -/

/-! ## Calendar dates (only what `%Y%m%d` / `%y%m%d` need) -/

/-- A proleptic-Gregorian calendar date (`DateTime<Utc>::date_naive()` of a contract expiry). -/
structure Date where
  y : Nat
  m : Nat
  d : Nat
  deriving DecidableEq, Repr, Inhabited

def isLeap (y : Nat) : Bool := (y % 4 == 0 && y % 100 != 0) || y % 400 == 0

def daysInMonth (y m : Nat) : Nat :=
  match m with
  | 1 => 31 | 2 => if isLeap y then 29 else 28 | 3 => 31 | 4 => 30 | 5 => 31 | 6 => 30
  | 7 => 31 | 8 => 31 | 9 => 30 | 10 => 31 | 11 => 30 | 12 => 31 | _ => 0

def Date.valid (dt : Date) : Bool :=
  1 ≤ dt.m && dt.m ≤ 12 && 1 ≤ dt.d && dt.d ≤ daysInMonth dt.y dt.m && 1000 ≤ dt.y && dt.y ≤ 9999

/-- zero-padded decimal of width `w` (least significant `w` digits) -/
def pad (w n : Nat) : Str :=
  let ds := Nat.toDigits 10 n
  (List.replicate (w - ds.length) '0') ++ ds

/-- chrono `format("%Y%m%d")` for 4-digit years — `gateio/market.rs:85-87`. -/
def fmtYmd4 (dt : Date) : Str := pad 4 dt.y ++ pad 2 dt.m ++ pad 2 dt.d

/-- chrono `format("%y%m%d")`: calendar year modulo 100, month, day — `okx/market.rs:78-80`
(since the `fix:` commit ef20a36; it was `%g`, the ISO week-based year, before). -/
def fmtYmd2 (dt : Date) : Str := pad 2 (dt.y % 100) ++ pad 2 dt.m ++ pad 2 dt.d

/-! ## Instruments and subscriptions -/

/-- `MarketDataInstrumentKind` (`barter-instrument/src/instrument/market_data/kind.rs:9-15`);
option contracts carry expiry, strike (integer strikes only: `Decimal` `Display` of an integer)
and call/put. -/
inductive IKind
  | spot
  | perpetual
  | future (expiry : Date)
  | option (expiry : Date) (strike : Nat) (call : Bool)
  deriving DecidableEq, Repr, Inhabited

/-- `MarketDataInstrument` as the user wrote it; `AssetNameInternal::new`
(`barter-instrument/src/asset/name.rs:10-20`) lower-cases base and quote. -/
structure Inst where
  base : Str
  quote : Str
  kind : IKind
  deriving DecidableEq, Repr, Inhabited

/-- `exchange_supports_instrument_kind_sub_kind` (`subscription/mod.rs:248-280`), which
`validate_batches` of the dynamic builder applies to every subscription (`dynamic/mod.rs:103`). -/
def supports (p : Pair) (ik : IKind) : Bool :=
  match p.exch, ik, p.kind with
  | .binanceSpot, .spot, .publicTrades | .binanceSpot, .spot, .orderBooksL1
  | .binanceSpot, .spot, .orderBooksL2 => true
  | .binanceFuturesUsd, .perpetual, _ => true
  | .bitfinex, .spot, .publicTrades => true
  | .bitmex, .perpetual, .publicTrades => true
  | .bybitSpot, .spot, .publicTrades => true
  | .bybitPerpetualsUsd, .perpetual, .publicTrades => true
  | .coinbase, .spot, .publicTrades => true
  | .gateioSpot, .spot, .publicTrades => true
  | .gateioFuturesUsd, .future _, .publicTrades => true
  | .gateioFuturesBtc, .future _, .publicTrades => true
  | .gateioPerpetualsUsd, .perpetual, .publicTrades => true
  | .gateioPerpetualsBtc, .perpetual, .publicTrades => true
  | .gateioOptions, .option _ _ _, .publicTrades => true
  | .kraken, .spot, .publicTrades | .kraken, .spot, .orderBooksL1 => true
  | .okx, _, .publicTrades => true
  | _, _, _ => false

def Inst.b (i : Inst) : Str := lower i.base
def Inst.q (i : Inst) : Str := lower i.quote

def cp (call : Bool) : Str := if call then ['C'] else ['P']

/-- `binance_market` (`binance/market.rs:49-57`), `bybit_market` (`bybit/market.rs:45-49`),
`bitmex_market` (`bitmex/market.rs:43-47`): `"{base}{quote}"` upper-cased. -/
def concatMarket (i : Inst) : Str := upper (i.b ++ i.q)

/-- `coinbase_market` (`coinbase/market.rs:44-46`). -/
def coinbaseMarket (i : Inst) : Str := upper (i.b ++ ['-'] ++ i.q)

/-- `kraken_market` (`kraken/market.rs:44-46`, upper-case since the `fix:` commit). -/
def krakenMarket (i : Inst) : Str := upper (i.b ++ ['/'] ++ i.q)

/-- `bitfinex_market` (`bitfinex/market.rs:43-49`). -/
def bitfinexMarket (i : Inst) : Str := ['t'] ++ upper i.b ++ upper i.q

/-- `okx_market` (`okx/market.rs:53-76`). -/
def okxMarket (i : Inst) : Str :=
  match i.kind with
  | .spot => upper (i.b ++ ['-'] ++ i.q)
  | .future e => upper (i.b ++ ['-'] ++ i.q ++ ['-'] ++ fmtYmd2 e)
  | .perpetual => upper (i.b ++ ['-'] ++ i.q ++ "-SWAP".toList)
  | .option e k c =>
    upper (i.b ++ ['-'] ++ i.q ++ ['-'] ++ fmtYmd2 e ++ ['-'] ++ Nat.toDigits 10 k ++ ['-'] ++ cp c)

/-- `gateio_market` (`gateio/market.rs:55-83`). -/
def gateioMarket (i : Inst) : Str :=
  upper (match i.kind with
  | .spot | .perpetual => i.b ++ ['_'] ++ i.q
  | .future e => i.b ++ ['_'] ++ i.q ++ "_QUARTERLY_".toList ++ fmtYmd4 e
  | .option e k c =>
    i.b ++ ['_'] ++ i.q ++ ['-'] ++ fmtYmd4 e ++ ['-'] ++ Nat.toDigits 10 k ++ ['-'] ++ cp c)

def Exch.isGateio : Exch → Bool
  | .gateioSpot | .gateioFuturesUsd | .gateioFuturesBtc | .gateioPerpetualsUsd
  | .gateioPerpetualsBtc | .gateioOptions => true
  | _ => false

/-- `Identifier<Market>` of `Subscription<Exchange, MarketDataInstrument | Keyed<_, _>, Kind>`:
`binance/market.rs:15-33`, `bitfinex/market.rs:15-28`, `bitmex/market.rs:15-28`,
`bybit/market.rs:15-30`, `coinbase/market.rs:15-28`, `gateio/market.rs:21-37`,
`kraken/market.rs:15-28`, `okx/market.rs:21-33`. -/
def market (e : Exch) (i : Inst) : Str :=
  match e with
  | .binanceSpot | .binanceFuturesUsd | .bitmex | .bybitSpot | .bybitPerpetualsUsd => concatMarket i
  | .bitfinex => bitfinexMarket i
  | .coinbase => coinbaseMarket i
  | .kraken => krakenMarket i
  | .okx => okxMarket i
  | .gateioSpot | .gateioFuturesUsd | .gateioFuturesBtc | .gateioPerpetualsUsd
  | .gateioPerpetualsBtc | .gateioOptions => gateioMarket i

/-- `Identifier<Channel>` of a `Subscription`: `binance/channel.rs:14-66`,
`bitfinex/channel.rs:17-27`, `bitmex/channel.rs:17-26`, `bybit/channel.rs:17-28`,
`coinbase/channel.rs:17-26`, `gateio/channel.rs:15-43` (by instrument kind),
`kraken/channel.rs:14-34`, `okx/channel.rs:17-26`. Pairs outside `supported` have no channel impl
(they do not type-check in Rust); `[]` is a placeholder never used by the theorems. -/
def channel (p : Pair) (ik : IKind) : Str :=
  match p.exch, p.kind with
  | .binanceSpot, .publicTrades | .binanceFuturesUsd, .publicTrades => "@trade".toList
  | .binanceSpot, .orderBooksL1 | .binanceFuturesUsd, .orderBooksL1 => "@bookTicker".toList
  | .binanceSpot, .orderBooksL2 | .binanceFuturesUsd, .orderBooksL2 => "@depth@100ms".toList
  | .binanceFuturesUsd, .liquidations => "@forceOrder".toList
  | .bitfinex, .publicTrades => "trades".toList
  | .bitmex, .publicTrades => "trade".toList
  | .bybitSpot, .publicTrades | .bybitPerpetualsUsd, .publicTrades => "publicTrade".toList
  | .coinbase, .publicTrades => "matches".toList
  | .kraken, .publicTrades => "trade".toList
  | .kraken, .orderBooksL1 => "spread".toList
  | .okx, .publicTrades => "trades".toList
  | e, .publicTrades =>
    if e.isGateio then
      match ik with
      | .spot => "spot.trades".toList
      | .future _ | .perpetual => "futures.trades".toList
      | .option _ _ _ => "options.trades".toList
    else []
  | _, _ => []

/-- `ExchangeSub::id` (`exchange/subscription.rs:45-57`): `"{channel}|{market}"`. -/
def subId (chan mkt : Str) : Str := chan ++ ['|'] ++ mkt

/-- `ExchangeSub::new(sub).id()` (`subscriber/mapper.rs:52-56`). -/
def subscriptionId (p : Pair) (i : Inst) : Str := subId (channel p i.kind) (market p.exch i)

/-! ### The two instrument representations a `Subscription` can carry

Every connector has **three** `Identifier<Market>` impls (e.g. `binance/market.rs:17-42`,
`bitfinex/market.rs:15-36`, `bitmex/market.rs:15-38`, `bybit/market.rs:15-40`,
`coinbase/market.rs:15-36`, `gateio/market.rs:21-46`, `kraken/market.rs:15-36`,
`okx/market.rs:21-44`): for `Subscription<_, MarketDataInstrument, _>` and
`Subscription<_, Keyed<Key, MarketDataInstrument>, _>` the market is *formatted* from the
underlying (base / quote / kind: `market` above); for
`Subscription<_, MarketInstrumentData<Key>, _>` (`barter-data/src/instrument.rs:53-58`, the type
`generate_indexed_market_data_subscription_batches`, `streams/builder/dynamic/indexed.rs:64-99`,
builds from the engine's `IndexedInstruments`) it is the instrument's `name_exchange` **verbatim**:
no case mapping, no base/quote formatting. -/

/-- The instrument a subscription carries: formatted-from-underlying, or `MarketInstrumentData
{ name_exchange, kind }` (`instrument.rs:53-58`; the `kind` is what `InstrumentData::kind` hands to
the Gateio channel impl and to `exchange_supports_instrument_kind_sub_kind`). -/
inductive InstRep
  | formatted (i : Inst)
  | verbatim (name : Str) (kind : IKind)
  deriving DecidableEq, Repr, Inhabited

/-- `InstrumentData::kind` (`instrument.rs:22, 36-38, 47-49, 68-70`). -/
def InstRep.kind : InstRep → IKind
  | .formatted i => i.kind
  | .verbatim _ k => k

/-- `Identifier<Market>` of a `Subscription`, all three impls: the first two format the underlying
(`market`), the third returns `name_exchange` as it is
(`BinanceMarket(self.instrument.name_exchange.name().clone())`, binance/market.rs:39-41 and the
same line in every other connector; Bitfinex writes `name_exchange.to_smolstr()`, its `Display` is
the derived transparent one). -/
def marketR (e : Exch) : InstRep → Str
  | .formatted i => market e i
  | .verbatim n _ => n

/-- `ExchangeSub::new(sub).id()` for either representation (`subscriber/mapper.rs:52-56`; the
channel impls are generic in the instrument type and read only `InstrumentData::kind`). -/
def subscriptionIdR (p : Pair) (r : InstRep) : Str := subId (channel p r.kind) (marketR p.exch r)

/-! ## Instrument map (`Map<InstrumentKey>`, an `FnvHashMap<SubscriptionId, Key>`) -/

/-- association list with unique ids; instrument keys are `Nat` (position in the subscription
list, which is how the harness keys its `Keyed<usize, MarketDataInstrument>`). -/
abbrev IMap := List (Str × Nat)

/-- `HashMap::insert`: replaces the value of an existing key. -/
def IMap.insert (m : IMap) (id : Str) (key : Nat) : IMap :=
  match m with
  | [] => [(id, key)]
  | (i, k) :: rest => if i = id then (id, key) :: rest else (i, k) :: IMap.insert rest id key

/-- `Map::find` (`subscription/mod.rs:304-312`): `None` becomes `SocketError::Unidentifiable`. -/
def IMap.find (m : IMap) (id : Str) : Option Nat :=
  match m with
  | [] => none
  | (i, k) :: rest => if i = id then some k else IMap.find rest id

/-- `HashMap::remove`. -/
def IMap.remove (m : IMap) (id : Str) : IMap := m.filter (fun e => e.1 ≠ id)

/-- `WebSocketSubMapper::map` (`subscriber/mapper.rs:33-75`), the `instrument_map` part: the
`k`-th subscription is inserted under its subscription id with key `start + k`. -/
def mapFrom (p : Pair) (start : Nat) (m : IMap) : List Inst → IMap
  | [] => m
  | i :: rest => mapFrom p (start + 1) (m.insert (subscriptionId p i) start) rest

def mapOf (p : Pair) (subs : List Inst) : IMap := mapFrom p 0 [] subs

/-- `WebSocketSubMapper::map` for a subscription list of either representation (the function is
generic in `Instrument: InstrumentData`; the key is `subscription.instrument.key()`). -/
def mapFromR (p : Pair) (start : Nat) (m : IMap) : List InstRep → IMap
  | [] => m
  | r :: rest => mapFromR p (start + 1) (m.insert (subscriptionIdR p r) start) rest

def mapOfR (p : Pair) (subs : List InstRep) : IMap := mapFromR p 0 [] subs

/-- The `Subscribed` arm of `BitfinexWebSocketSubValidator::validate`
(`bitfinex/validator.rs:93-110`): the entry under `channel|market` is re-keyed to the decimal
text of the numeric channel id the venue assigned; unknown confirmations change nothing. -/
def bitfinexSubscribed (m : IMap) (chan mkt : Str) (chanId : Nat) : IMap :=
  match m.find (subId chan mkt) with
  | some key => (m.remove (subId chan mkt)).insert (Nat.toDigits 10 chanId) key
  | none => m

/-- The validator's loop over the venue's `subscribed` confirmations `(symbol, chanId)` on the
`trades` channel, in arrival order (`bitfinex/validator.rs:60-137`). -/
def bitfinexConfirm (m : IMap) (confs : List (Str × Nat)) : IMap :=
  confs.foldl (fun m c => bitfinexSubscribed m "trades".toList c.1 c.2) m

/-! ## Payloads -/

inductive Side | buy | sell
  deriving DecidableEq, Repr, Inhabited

/-- One trade / level inside a payload: price and amount as written in the JSON (amount signed
where the venue signs it), the side field (ignored by venues that encode the side in the sign),
exchange time in ms. -/
structure Item where
  price : Rat
  amount : Rat
  side : Side
  time : Int
  deriving Repr, Inhabited

/-- A deserialised venue message, reduced to the fields the identification and the event
construction read. `chan` is the channel text carried by the payload (`arg.channel` for Okx,
`channel` for Gateio, `table` for Bitmex, the `topic` prefix for Bybit); `market` the symbol
field; `chanId` Bitfinex's numeric channel id. All items of one message name the same market
(the Bitmex / Gateio-futures payloads carry the symbol per item and the code reads the first). -/
structure Msg where
  chan : Str
  market : Str
  chanId : Nat
  items : List Item
  deriving Repr, Inhabited

/-- connectors whose payload-side id takes the channel text from the payload itself -/
def Exch.readsChan : Exch → Bool
  | .bitmex | .okx | .gateioSpot | .gateioFuturesUsd | .gateioFuturesBtc | .gateioPerpetualsUsd
  | .gateioPerpetualsBtc | .gateioOptions => true
  | _ => false

/-- connectors whose payload-side id is read off the first trade of the batch -/
def Exch.needsItem : Exch → Bool
  | .bitfinex | .bitmex | .gateioFuturesUsd | .gateioFuturesBtc | .gateioPerpetualsUsd
  | .gateioPerpetualsBtc | .gateioOptions => true
  | _ => false

/-- How `Identifier<Option<SubscriptionId>>` of the pair's `Input` type derives the id. -/
def payloadId (p : Pair) (msg : Msg) : Option Str :=
  match p.exch, p.kind with
  -- `de_trade_subscription_id` binance/trade.rs:99-106, `Identifier` :66-70
  | .binanceSpot, .publicTrades | .binanceFuturesUsd, .publicTrades =>
    some (subId "@trade".toList msg.market)
  -- `de_ob_l1_subscription_id` binance/book/l1.rs:104-110
  | .binanceSpot, .orderBooksL1 | .binanceFuturesUsd, .orderBooksL1 =>
    some (subId "@bookTicker".toList msg.market)
  -- `de_ob_l2_subscription_id` binance/book/l2.rs:97-103
  | .binanceSpot, .orderBooksL2 | .binanceFuturesUsd, .orderBooksL2 =>
    some (subId "@depth@100ms".toList msg.market)
  -- `de_liquidation_subscription_id` binance/futures/liquidation.rs:109-116
  | .binanceFuturesUsd, .liquidations => some (subId "@forceOrder".toList msg.market)
  -- bitfinex/message.rs:42-49 (heartbeats have no items ⇒ `None`)
  | .bitfinex, .publicTrades =>
    match msg.items with
    | [] => none
    | _ :: _ => some (Nat.toDigits 10 msg.chanId)
  -- bitmex/message.rs:17-24: `"{table}|{first.symbol}"`
  | .bitmex, .publicTrades =>
    match msg.items with
    | [] => none
    | _ :: _ => some (subId msg.chan msg.market)
  -- `de_message_subscription_id` bybit/message.rs:58-74 (topic `publicTrade.<market>`)
  | .bybitSpot, .publicTrades | .bybitPerpetualsUsd, .publicTrades =>
    some (subId "publicTrade".toList msg.market)
  -- `de_trade_subscription_id` coinbase/trade.rs:75-81
  | .coinbase, .publicTrades => some (subId "matches".toList msg.market)
  -- kraken/trade.rs:137-139 (`format!("trade|{pair}")`)
  | .kraken, .publicTrades => some (subId "trade".toList msg.market)
  -- kraken/book/l1.rs:126-128
  | .kraken, .orderBooksL1 => some (subId "spread".toList msg.market)
  -- `de_okx_message_arg_as_subscription_id` okx/trade.rs:104-119 (channel from the payload)
  | .okx, .publicTrades => some (subId msg.chan msg.market)
  -- gateio/spot/trade.rs:51-55 (channel from the payload)
  | .gateioSpot, .publicTrades => some (subId msg.chan msg.market)
  -- gateio/perpetual/trade.rs:45-51: first trade's contract, channel from the payload
  | e, .publicTrades =>
    if e.isGateio then
      match msg.items with
      | [] => none
      | _ :: _ => some (subId msg.chan msg.market)
    else none
  | _, _ => none

/-- The channel text the payload-side id is built from: the payload's own channel field where
the connector reads it, otherwise the connector's constant (for those connectors `channel` does
not depend on the instrument kind). -/
def payloadChan (p : Pair) (msg : Msg) : Str :=
  if p.exch.readsChan then msg.chan else channel p .spot

/-! ## Events -/

/-- The normalised `MarketEvent.kind`. -/
inductive EvKind
  /-- `PublicTrade { price, amount, side }` -/
  | trade (price amount : Rat) (side : Side)
  /-- `OrderBookL1 { best_bid, best_ask }` as `(price, amount)` levels -/
  | l1 (bid ask : Option (Rat × Rat))
  /-- `OrderBookEvent::Update` bids / asks -/
  | l2 (bids asks : List (Rat × Rat))
  /-- `Liquidation { side, price, quantity }` -/
  | liq (price quantity : Rat) (side : Side)
  deriving Repr, Inhabited

/-- `MarketEvent { time_exchange, exchange, instrument, kind }` (`time_received` is `Utc::now()`,
not modelled). -/
structure Event where
  key : Nat
  exch : Exch
  time : Int
  kind : EvKind
  deriving Repr, Inhabited

def signSide (a : Rat) : Side := if a < 0 then .sell else .buy

def absR (a : Rat) : Rat := if a < 0 then -a else a

/-- side / amount of one trade item as the pair's `From<(ExchangeId, Key, Input)>` builds them. -/
def tradeOf (e : Exch) (it : Item) : EvKind :=
  match e with
  -- bitfinex/trade.rs:67-83: side from the sign, `amount.abs()`
  | .bitfinex => .trade it.price (absR it.amount) (signSide it.amount)
  -- gateio/perpetual/trade.rs:70-78: side from the sign, amount kept signed
  | .gateioFuturesUsd | .gateioFuturesBtc | .gateioPerpetualsUsd | .gateioPerpetualsBtc
  | .gateioOptions => .trade it.price it.amount (signSide it.amount)
  -- everything else copies price, amount and the side field
  | _ => .trade it.price it.amount it.side

/-- Which sign `PublicTrade.amount` carries as the code produces it (review C13-3). The property
text constrains the traded quantity and the side, not the sign; the model mirrors the code. -/
inductive SignConv
  /-- `amount.abs()`: never negative (bitfinex/trade.rs:67-83) -/
  | absolute
  /-- the venue's signed size is kept: negative for sells (gateio/perpetual/trade.rs:70-78) -/
  | signed
  /-- the payload's amount field is copied (the venues send it unsigned, with a side field) -/
  | asStated
  deriving DecidableEq, Repr, Inhabited

def Exch.signConv : Exch → SignConv
  | .bitfinex => .absolute
  | .gateioFuturesUsd | .gateioFuturesBtc | .gateioPerpetualsUsd | .gateioPerpetualsBtc
  | .gateioOptions => .signed
  | _ => .asStated

/-- the `amount` field of a trade event (`none` for the other kinds) -/
def EvKind.amount? : EvKind → Option Rat
  | .trade _ a _ => some a
  | _ => none

/-- venues whose trade payload holds exactly one trade -/
def Exch.singleTrade : Exch → Bool
  | .binanceSpot | .binanceFuturesUsd | .bitfinex | .coinbase | .gateioSpot => true
  | _ => false

def level (it : Item) : Option (Rat × Rat) :=
  if it.price = 0 then none else some (it.price, it.amount)

/-- `MarketIter::from((Exchange::ID, key, input))` of the pair's input type:
trades — binance/trade.rs:72-90, bitfinex/trade.rs:24-41, bitmex/trade.rs:31-57,
bybit/trade.rs:37-63, coinbase/trade.rs:52-69, gateio/spot/trade.rs:57-77,
gateio/perpetual/trade.rs:53-84, kraken/trade.rs:54-83, okx/trade.rs:72-98;
L1 — binance/book/l1.rs:62-96, kraken/book/l1.rs:51-93 (items = `[bid, ask]`);
L2 — binance/spot/l2.rs:152-157 (buy items are bid levels, sell items ask levels);
liquidations — binance/futures/liquidation.rs:64-84.
Total function; the message shapes that exist for a pair are described by `shapeOk`. -/
def events (p : Pair) (key : Nat) (msg : Msg) : List Event :=
  match p.kind with
  | .publicTrades =>
    if p.exch.singleTrade then
      match msg.items with
      | it :: _ => [⟨key, p.exch, it.time, tradeOf p.exch it⟩]
      | [] => []
    else msg.items.map fun it => ⟨key, p.exch, it.time, tradeOf p.exch it⟩
  | .orderBooksL1 =>
    match msg.items with
    | b :: a :: _ => [⟨key, p.exch, b.time, .l1 (level b) (level a)⟩]
    | _ => []
  | .orderBooksL2 =>
    match msg.items with
    | [] => []
    | it :: _ =>
      [⟨key, p.exch, it.time,
        .l2 ((msg.items.filter (·.side = .buy)).map fun i => (i.price, i.amount))
            ((msg.items.filter (·.side = .sell)).map fun i => (i.price, i.amount))⟩]
  | .liquidations =>
    match msg.items with
    | it :: _ => [⟨key, p.exch, it.time, .liq it.price it.amount it.side⟩]
    | [] => []

/-- Message shapes that can be deserialised for the pair: single-trade payloads hold one trade
(Bitfinex: one trade, or none = heartbeat), L1 a bid and an ask, L2 at least one level and at most
one per side (the real `OrderBook::new` sorts levels — C05's subject), a liquidation one order; multi-trade payloads any number of trades. -/
def shapeOk (p : Pair) (msg : Msg) : Bool :=
  match p.kind with
  | .publicTrades =>
    if p.exch = .bitfinex then msg.items.length ≤ 1
    else if p.exch.singleTrade then msg.items.length = 1 else true
  | .orderBooksL1 => msg.items.length = 2
  | .orderBooksL2 =>
    1 ≤ msg.items.length && (msg.items.filter (·.side = .buy)).length ≤ 1
      && (msg.items.filter (·.side = .sell)).length ≤ 1
  | .liquidations => msg.items.length = 1

/-- Result of one `Transformer::transform` call. -/
inductive Out
  | events (evs : List Event)
  /-- `vec![Err(DataError::from(SocketError::Unidentifiable(id)))]` -/
  | unidentifiable (id : Str)
  deriving Repr, Inhabited

/-- `StatelessTransformer::transform` (`transformer/stateless.rs:72-92`); the Binance L2
transformers identify and look up the same way (`binance/spot/l2.rs:132-143`,
`binance/futures/l2.rs`), their sequencing is C06's subject — here every L2 update is presented
to a freshly initialised transformer as a valid first update. -/
def transform (p : Pair) (m : IMap) (msg : Msg) : Out :=
  match payloadId p msg with
  | none => .events []
  | some id =>
    match m.find id with
    | some key => .events (events p key msg)
    | none => .unidentifiable id

/-- Venue messages that are not market data and name no market: Kraken's `{"event":"heartbeat"}` /
`{"event":"error",..}` (`KrakenMessage::Event`, kraken/message.rs) and Bybit's command responses
(`BybitMessage::Response`, bybit/message.rs). `Identifier::id` is `None` for them and
`StatelessTransformer::transform` returns at its first `match` (stateless.rs:64-67). -/
inductive Noise
  | krakenHeartbeat | krakenError | bybitResponse | bybitPong
  deriving DecidableEq, Repr, Inhabited

/-- which venue sends which non-market message -/
def Noise.sentBy : Noise → Exch → Bool
  | .krakenHeartbeat, .kraken | .krakenError, .kraken => true
  | .bybitResponse, .bybitSpot | .bybitResponse, .bybitPerpetualsUsd => true
  | .bybitPong, .bybitSpot | .bybitPong, .bybitPerpetualsUsd => true
  | _, _ => false

/-- a non-market message: nothing is looked up, nothing is emitted -/
def transformNoise (_p : Pair) (_m : IMap) (_n : Noise) : Out := .events []

/-! ## The un-keyed representation: `Subscription<_, MarketDataInstrument, _>`

The FIRST `Identifier<Market>` impl of every connector (binance/market.rs:17-23, bitfinex/market.rs:16-20,
bitmex/market.rs:18-22, bybit/market.rs:18-24, coinbase/market.rs:16-20, gateio/market.rs:24-30,
kraken/market.rs:16-20, okx/market.rs:24-28): the instrument type of the README's
`DynamicStreams::init` / `Streams::builder` examples. The market is formatted from base / quote / kind
exactly as for `Keyed<_, MarketDataInstrument>` (`market`); what differs is the instrument KEY:
`impl InstrumentData for MarketDataInstrument { type Key = Self; fn key(&self) -> &Self { self } }`
(barter-data/src/instrument.rs:41-51), so the instrument map is a `Map<MarketDataInstrument>` and every
event carries the subscribed instrument itself. -/

/-- The `MarketDataInstrument` value a subscription stores: `MarketDataInstrument::new`
(barter-instrument/src/instrument/market_data/mod.rs:42-51) converts base and quote into
`AssetNameInternal`, which lower-cases them (asset/name.rs:10-20). -/
def Inst.canon (i : Inst) : Inst := ⟨lower i.base, lower i.quote, i.kind⟩

/-- `Map<MarketDataInstrument>`: association list with unique ids, instruments as values. -/
abbrev UMap := List (Str × Inst)

/-- `HashMap::insert`. -/
def UMap.insert (m : UMap) (id : Str) (key : Inst) : UMap :=
  match m with
  | [] => [(id, key)]
  | (i, k) :: rest => if i = id then (id, key) :: rest else (i, k) :: UMap.insert rest id key

/-- `Map::find` (`subscription/mod.rs:304-312`). -/
def UMap.find (m : UMap) (id : Str) : Option Inst :=
  match m with
  | [] => none
  | (i, k) :: rest => if i = id then some k else UMap.find rest id

/-- `HashMap::remove`. -/
def UMap.remove (m : UMap) (id : Str) : UMap := m.filter (fun e => e.1 ≠ id)

/-- `WebSocketSubMapper::map` (`subscriber/mapper.rs:33-75`) over
`Subscription<_, MarketDataInstrument, _>`: every subscription is inserted under its subscription id
with `subscription.instrument.key().clone()` = the stored instrument. -/
def mapFromU (p : Pair) (m : UMap) : List Inst → UMap
  | [] => m
  | i :: rest => mapFromU p (m.insert (subscriptionId p i.canon) i.canon) rest

def mapOfU (p : Pair) (subs : List Inst) : UMap := mapFromU p [] subs

/-- The `Subscribed` arm of the Bitfinex validator (`bitfinex/validator.rs:93-110`; generic in the
instrument key) on a `Map<MarketDataInstrument>`. -/
def bitfinexSubscribedU (m : UMap) (chan mkt : Str) (chanId : Nat) : UMap :=
  match m.find (subId chan mkt) with
  | some key => (m.remove (subId chan mkt)).insert (Nat.toDigits 10 chanId) key
  | none => m

/-- `MarketEvent<MarketDataInstrument, _>`. -/
structure EventU where
  key : Inst
  exch : Exch
  time : Int
  kind : EvKind
  deriving Repr, Inhabited

/-- the same event under another instrument key -/
def Event.withKey (ev : Event) (i : Inst) : EventU := ⟨i, ev.exch, ev.time, ev.kind⟩

inductive OutU
  | events (evs : List EventU)
  | unidentifiable (id : Str)
  deriving Repr, Inhabited

/-- `Transformer::transform` of the pair's transformer at `InstrumentKey = MarketDataInstrument`
(the transformers are generic in the key and only `clone` it into the events:
`transformer/stateless.rs:72-92`, `binance/spot/l2.rs:132-157`). -/
def transformU (p : Pair) (m : UMap) (msg : Msg) : OutU :=
  match payloadId p msg with
  | none => .events []
  | some id =>
    match m.find id with
    | some key => .events ((events p 0 msg).map (·.withKey key))
    | none => .unidentifiable id

/-! ## Abstract venue specification (from the property text, not from the code)

What the venues call their markets and channels, restricted to what the repository's own
fixtures and doc comments show the venues sending (DESIGN §7 C13), and the attribution rule of the
property: *a message for market `m` belongs to the instrument subscribed under `m`; if there is
none it must be rejected as unidentifiable*. -/

def up (s : Str) : Str := s.map upc

/-- calendar-date renderings used by the venues -/
def yymmdd (d : Date) : Str := pad 2 (d.y % 100) ++ pad 2 d.m ++ pad 2 d.d
def yyyymmdd (d : Date) : Str := pad 4 d.y ++ pad 2 d.m ++ pad 2 d.d

/-- The venue's symbol for an instrument. -/
def venueSymbol (e : Exch) (i : Inst) : Str :=
  let B := up i.base
  let Q := up i.quote
  match e with
  -- `BTCUSDT`, `XBTUSD`
  | .binanceSpot | .binanceFuturesUsd | .bybitSpot | .bybitPerpetualsUsd | .bitmex => B ++ Q
  -- `tBTCUSD`
  | .bitfinex => 't' :: (B ++ Q)
  -- `BTC-USD`
  | .coinbase => B ++ '-' :: Q
  -- `XBT/USD`
  | .kraken => B ++ '/' :: Q
  -- `BTC-USDT`, `BTC-USDT-SWAP`, `BTC-USD-220930`, `BTC-USD-220930-30000-C`
  | .okx =>
    match i.kind with
    | .spot => B ++ '-' :: Q
    | .perpetual => B ++ '-' :: Q ++ "-SWAP".toList
    | .future d => B ++ '-' :: Q ++ '-' :: yymmdd d
    | .option d k c =>
      B ++ '-' :: Q ++ '-' :: yymmdd d ++ '-' :: Nat.toDigits 10 k ++ '-' :: (if c then ['C'] else ['P'])
  -- `GT_USDT`, `ETH_USDT_QUARTERLY_20201225`, `BTC_USDT-20221130-15000-C`
  | _ =>
    match i.kind with
    | .spot | .perpetual => B ++ '_' :: Q
    | .future d => B ++ '_' :: Q ++ "_QUARTERLY_".toList ++ yyyymmdd d
    | .option d k c =>
      B ++ '_' :: Q ++ '-' :: yyyymmdd d ++ '-' :: Nat.toDigits 10 k ++ '-' :: (if c then ['C'] else ['P'])

/-- positions (counted from `start`) of the subscribed instruments whose venue symbol is `m` -/
def holdersFrom (e : Exch) (start : Nat) : List Inst → Str → List Nat
  | [], _ => []
  | i :: rest, m =>
    if venueSymbol e i = m then start :: holdersFrom e (start + 1) rest m
    else holdersFrom e (start + 1) rest m

def holders (e : Exch) (subs : List Inst) (m : Str) : List Nat := holdersFrom e 0 subs m

/-- The channel name under which the venue publishes the pair's stream (the repository's fixtures:
`@trade`, `@bookTicker`, `@depth@100ms`, `@forceOrder`, `trades`, `trade`, `publicTrade`, `matches`,
`spot.trades`, `futures.trades`, `options.trades`, `spread`). -/
def venueChannel (p : Pair) : Str :=
  match p.exch, p.kind with
  | .binanceSpot, .publicTrades | .binanceFuturesUsd, .publicTrades => "@trade".toList
  | .binanceSpot, .orderBooksL1 | .binanceFuturesUsd, .orderBooksL1 => "@bookTicker".toList
  | .binanceSpot, .orderBooksL2 | .binanceFuturesUsd, .orderBooksL2 => "@depth@100ms".toList
  | .binanceFuturesUsd, .liquidations => "@forceOrder".toList
  | .bitfinex, _ | .okx, _ => "trades".toList
  | .bitmex, _ => "trade".toList
  | .bybitSpot, _ | .bybitPerpetualsUsd, _ => "publicTrade".toList
  | .coinbase, _ => "matches".toList
  | .kraken, .orderBooksL1 => "spread".toList
  | .kraken, _ => "trade".toList
  | .gateioSpot, _ => "spot.trades".toList
  | .gateioOptions, _ => "options.trades".toList
  | _, _ => "futures.trades".toList

/-- What the property requires of one trade: price and time as stated, the traded quantity
(absolute amount) and the side — the stated side field, or the sign where the venue signs. -/
structure SpecTrade where
  price : Rat
  qty : Rat
  side : Side
  time : Int
  deriving Repr, DecidableEq

def Exch.signEncodesSide : Exch → Bool
  | .bitfinex | .gateioFuturesUsd | .gateioFuturesBtc | .gateioPerpetualsUsd
  | .gateioPerpetualsBtc | .gateioOptions => true
  | _ => false

def specTrade (e : Exch) (it : Item) : SpecTrade :=
  ⟨it.price, absR it.amount,
   if e.signEncodesSide then (if it.amount < 0 then .sell else .buy) else it.side, it.time⟩

/-- Specification verdict for a message naming market `m`. -/
inductive SpecOut
  /-- every normalised event must carry this instrument key -/
  | attributed (key : Nat)
  /-- must be rejected as unidentifiable; no event -/
  | rejected
  /-- two subscribed instruments share the venue symbol: the property does not say which -/
  | ambiguous
  deriving Repr, DecidableEq

def specVerdict (e : Exch) (subs : List Inst) (m : Str) : SpecOut :=
  match holders e subs m with
  | [] => .rejected
  | [k] => .attributed k
  | _ => .ambiguous

/-- The venue's symbol for a subscribed instrument of either representation: computed from the
underlying, or — for `MarketInstrumentData` — the `name_exchange` the user supplied, which by the
type's contract (`InstrumentNameExchange`: "the name the exchange uses") IS the venue symbol. -/
def venueSymbolR (e : Exch) : InstRep → Str
  | .formatted i => venueSymbol e i
  | .verbatim n _ => n

def holdersFromR (e : Exch) (start : Nat) : List InstRep → Str → List Nat
  | [], _ => []
  | r :: rest, m =>
    if venueSymbolR e r = m then start :: holdersFromR e (start + 1) rest m
    else holdersFromR e (start + 1) rest m

def holdersR (e : Exch) (subs : List InstRep) (m : Str) : List Nat := holdersFromR e 0 subs m

/-- The attribution rule of the property over either representation. -/
def specVerdictR (e : Exch) (subs : List InstRep) (m : Str) : SpecOut :=
  match holdersR e subs m with
  | [] => .rejected
  | [k] => .attributed k
  | _ => .ambiguous

/-- Bitfinex: the venue confirms each subscription with a numeric channel id and afterwards names
only that id. `confs` is the list of confirmations `(symbol, chanId)` in arrival order; a message
with channel id `c` is *for* the symbol most recently confirmed under `c`. -/
def bitfinexSymbolOf (confs : List (Str × Nat)) (c : Nat) : Option Str :=
  (confs.reverse.find? fun x => x.2 = c).map (·.1)

end BarterModel.Connectors
