/-!
# Local L2 order book (C05; reused by C06)

Concrete, executable model of `barter-data/src/books/mod.rs` (`Level`, `OrderBookSide::<Bids|Asks>`,
`OrderBook`), of the event type `OrderBookEvent` (`barter-data/src/subscription/book.rs:122-126`) and
of the event loop of `OrderBookL2Manager::run` (`barter-data/src/books/manager.rs:40-66`), followed
by the abstract specification written from the property text (a price → amount map).

Core Lean only. `Decimal` is `Rat` (exact), `u64` is `Nat`. `time_engine` (copied verbatim from the
event, no logic) is not modelled.
-/
namespace BarterModel.Book

/-- `books/mod.rs:269-273` `struct Level { price, amount }`. -/
structure Level where
  price : Rat
  amount : Rat
deriving DecidableEq, Repr, Inhabited

/-- The two type tags `Bids` / `Asks` of `OrderBookSide<Side>` (`books/mod.rs:129-135`). -/
inductive Side where
  | bids
  | asks
deriving DecidableEq, Repr, Inhabited

/-- `Decimal::cmp` (total order on prices). -/
def cmpRat (a b : Rat) : Ordering :=
  if a < b then .lt else if a = b then .eq else .gt

/-- The closure handed to `upsert_single` (`books/mod.rs:167-169` for bids:
`existing.price.cmp(&upsert.price).reverse()`; `books/mod.rs:195` for asks:
`existing.price.cmp(&upsert.price)`). -/
def Side.cmp : Side → Rat → Rat → Ordering
  | .asks, existing, new => cmpRat existing new
  | .bids, existing, new => (cmpRat existing new).swap

/-- `side.before a b`: a level priced `a` is stored strictly before a level priced `b` on this
side (bids: higher price first; asks: lower price first). -/
def Side.before : Side → Rat → Rat → Bool
  | .bids, a, b => decide (b < a)
  | .asks, a, b => decide (a < b)

/-- `a` is stored before or at the position of `b`. The comparator of the constructors' sort
(`books/mod.rs:154` `a.price.cmp(&b.price).reverse()`, `:182` `a.price.cmp(&b.price)`), as `≤`. -/
def Side.le (side : Side) (a b : Level) : Bool := !side.before b.price a.price

/-- `OrderBookSide::upsert_single` (`books/mod.rs:219-247`). `slice::binary_search_by` is modelled
by a front-to-back scan for the first position whose level is not ordered before the new price
(the documented result of a binary search on a list sorted by that comparator, which the
invariant of C05 guarantees). The four branches are the four scenarios of the Rust code:

* `.eq`, amount zero  — 1a: level exists, remove it (`levels.remove(index)`)
* `.eq`, amount ≠ 0   — 1b: level exists, replace its amount (`levels[index].amount = new_amount`;
                          the stored price is kept)
* not found, zero     — 2a: nothing to remove, log and continue
* not found, ≠ 0      — 2b: insert the new level at the search position (`levels.insert(index, _)`)
-/
def upsertSingle (side : Side) (new : Level) : List Level → List Level
  | [] => if new.amount = 0 then [] else [new]
  | x :: xs =>
    match side.cmp x.price new.price with
    | .lt => x :: upsertSingle side new xs
    | .eq => if new.amount = 0 then xs else { x with amount := new.amount } :: xs
    | .gt => if new.amount = 0 then x :: xs else new :: x :: xs

/-- `OrderBookSide::<Bids|Asks>::upsert` (`books/mod.rs:160-171`, `188-197`): the update's levels
are upserted one by one, in the order in which they are stored in the update. -/
def upsert (side : Side) (levels : List Level) (update : List Level) : List Level :=
  update.foldl (fun acc u => upsertSingle side u acc) levels

/-- `OrderBookSide::bids` / `::asks` (`books/mod.rs:148-157`, `176-185`): collect and sort by price
(descending for bids, ascending for asks). The code calls `slice::sort_by` (`:154`, `:182`, since
`911b9f8`; earlier `sort_unstable_by`), which is documented stable; `List.mergeSort` is stable too,
so equal-priced levels keep their input order in the code and in the model alike (the
correspondence compares the stored levels of every event, and every theorem about updates holds
for *any* order). -/
def sortLevels (side : Side) (levels : List Level) : List Level :=
  levels.mergeSort side.le

/-- `books/mod.rs:17-23` `struct OrderBook` (without `time_engine`). -/
structure OrderBook where
  sequence : Nat
  bids : List Level
  asks : List Level
deriving DecidableEq, Repr, Inhabited

/-- `OrderBook::default()` (derive): sequence 0, no levels. -/
def OrderBook.default : OrderBook := ⟨0, [], []⟩

/-- `OrderBook::new` (`books/mod.rs:29-46`). -/
def OrderBook.new (sequence : Nat) (bids asks : List Level) : OrderBook :=
  ⟨sequence, sortLevels .bids bids, sortLevels .asks asks⟩

/-- `OrderBookEvent` (`subscription/book.rs:122-126`): both variants carry an `OrderBook`. -/
inductive Event where
  | snapshot (book : OrderBook)
  | update (book : OrderBook)
deriving Repr, Inhabited

/-- The `OrderBook` carried by the event. -/
def Event.book : Event → OrderBook
  | .snapshot b => b
  | .update b => b

/-- `OrderBook::update` (`books/mod.rs:59-71`): a snapshot replaces the book; an update sets
`sequence` and upserts the update's bids, then its asks. -/
def OrderBook.update (self : OrderBook) : Event → OrderBook
  | .snapshot snapshot => snapshot
  | .update update =>
    { sequence := update.sequence
      bids := upsert .bids self.bids update.bids
      asks := upsert .asks self.asks update.asks }

/-- The book after a sequence of events (`OrderBookL2Manager::run` applies them one by one). -/
def OrderBook.run (self : OrderBook) (events : List Event) : OrderBook :=
  events.foldl OrderBook.update self

/-- `OrderBook::snapshot(depth)` (`books/mod.rs:49-56`): same sequence, the first `depth` levels of
each side, passed through the sorting constructors again. -/
def OrderBook.snapshot (self : OrderBook) (depth : Nat) : OrderBook :=
  { sequence := self.sequence
    bids := sortLevels .bids (self.bids.take depth)
    asks := sortLevels .asks (self.asks.take depth) }

/-- free function `mid_price` (`books/mod.rs:301-303`). -/
def midPrice (bestBidPrice bestAskPrice : Rat) : Rat := (bestBidPrice + bestAskPrice) / 2

/-- free function `volume_weighted_mid_price` (`books/mod.rs:309-312`). (`Decimal` division panics
on a zero divisor; `Rat` division yields 0. Not reachable with non-negative amounts.) -/
def volumeWeightedMidPrice (bestBid bestAsk : Level) : Rat :=
  (bestBid.price * bestAsk.amount + bestAsk.price * bestBid.amount) / (bestBid.amount + bestAsk.amount)

/-- `OrderBook::mid_price` (`books/mod.rs:96-103`). -/
def OrderBook.midPrice (self : OrderBook) : Option Rat :=
  match self.bids.head?, self.asks.head? with
  | some bestBid, some bestAsk => some (Book.midPrice bestBid.price bestAsk.price)
  | some bestBid, none => some bestBid.price
  | none, some bestAsk => some bestAsk.price
  | none, none => none

/-- `OrderBook::volume_weighed_mid_price` (`books/mod.rs:109-118`). -/
def OrderBook.volumeWeightedMidPrice (self : OrderBook) : Option Rat :=
  match self.bids.head?, self.asks.head? with
  | some bestBid, some bestAsk => some (Book.volumeWeightedMidPrice bestBid bestAsk)
  | some bestBid, none => some bestBid.price
  | none, some bestAsk => some bestAsk.price
  | none, none => none

/-! ## `OrderBookL2Manager::run` (`books/manager.rs:42-65`) -/

/-- `MarketStreamEvent<Key, OrderBookEvent>`: a reconnecting notice or an item for one instrument. -/
inductive StreamEvent where
  | reconnecting
  | item (instrument : Nat) (event : Event)
deriving Repr, Inhabited

/-- `OrderBookMapMulti` (`books/map.rs:49-69`) as an association list key ↦ book. -/
abbrev Books := List (Nat × OrderBook)

/-- One iteration of the `while let` loop: `Reconnecting` ⇒ `continue`; an item for a
non-configured instrument ⇒ `continue` (no entry matches); otherwise `book.update(event.kind)` on
the instrument's book only. -/
def managerStep (books : Books) : StreamEvent → Books
  | .reconnecting => books
  | .item k ev => books.map fun (k', b) => if k' = k then (k', b.update ev) else (k', b)

def managerRun (books : Books) (stream : List StreamEvent) : Books :=
  stream.foldl managerStep books

/-- The events of the stream addressed to instrument `k`, in stream order. -/
def eventsFor (k : Nat) : List StreamEvent → List Event
  | [] => []
  | .reconnecting :: rest => eventsFor k rest
  | .item k' ev :: rest => if k' = k then ev :: eventsFor k rest else eventsFor k rest

/-! ## Abstract specification (from the property text; independent of the code above)

"A price-to-amount map": per side a function `Rat → Rat`, amount 0 meaning "no level at this
price". "An update with amount zero deletes the level, any other amount sets it, deleting an absent
level is a no-op" is then literally a point update of the function. -/

/-- Point update of a price → amount function. -/
def setLevel (m : Rat → Rat) (price amount : Rat) : Rat → Rat :=
  fun q => if q = price then amount else m q

/-- Apply a list of `(price, amount)` changes in list order (later entries for a price win). -/
def applyLevels (m : Rat → Rat) (changes : List Level) : Rat → Rat :=
  changes.foldl (fun m l => setLevel m l.price l.amount) m

/-- Abstraction of a stored level list to the price → amount function it denotes
(first entry for a price; 0 when there is none). -/
def abs : List Level → Rat → Rat
  | [], _ => 0
  | x :: xs, p => if x.price = p then x.amount else abs xs p

/-- The abstract book: two price → amount functions and a sequence number. -/
structure FBook where
  sequence : Nat
  bids : Rat → Rat
  asks : Rat → Rat

def absBook (b : OrderBook) : FBook := ⟨b.sequence, abs b.bids, abs b.asks⟩

/-- Abstract effect of one event: a snapshot *is* the new map, an update is applied change by
change; the sequence is that of the event. -/
def FBook.step (m : FBook) : Event → FBook
  | .snapshot s => absBook s
  | .update u => ⟨u.sequence, applyLevels m.bids u.bids, applyLevels m.asks u.asks⟩

def FBook.run (m : FBook) (events : List Event) : FBook := events.foldl FBook.step m

/-! ### Executable form of the abstract specification (what the `spec` driver runs)

A finite map is a list of entries with pairwise distinct prices and non-zero amounts, in *no
particular order* (new entries are put in front). Everything observable is then defined
declaratively from the entries: the levels are the entries sorted by price, the best level is the
entry no other entry beats, a depth-`d` snapshot holds the first `d` sorted levels. -/

abbrev PMap := List Level

/-- set / delete one price: amount 0 removes the entry (no-op when absent), any other amount
replaces it. -/
def PMap.set (m : PMap) (price amount : Rat) : PMap :=
  let rest := m.filter (fun e => e.price ≠ price)
  if amount = 0 then rest else ⟨price, amount⟩ :: rest

def PMap.apply (m : PMap) (changes : List Level) : PMap :=
  changes.foldl (fun m l => m.set l.price l.amount) m

/-- the map holding exactly the given levels (a snapshot): the levels themselves are the entries. -/
def PMap.ofLevels (levels : List Level) : PMap := levels

/-- The levels of the map in book order: bids by descending, asks by ascending price. -/
def PMap.levels (side : Side) (m : PMap) : List Level := m.mergeSort side.le

/-- The best level: the entry such that every entry has the same price or a worse one. -/
def PMap.best (side : Side) (m : PMap) : Option Level :=
  m.find? fun l => m.all fun x => x.price = l.price || side.before l.price x.price

structure Spec where
  sequence : Nat
  bids : PMap
  asks : PMap

def Spec.init : Spec := ⟨0, [], []⟩

def Spec.step (s : Spec) : Event → Spec
  | .snapshot b => ⟨b.sequence, PMap.ofLevels b.bids, PMap.ofLevels b.asks⟩
  | .update u => ⟨u.sequence, s.bids.apply u.bids, s.asks.apply u.asks⟩

def Spec.run (s : Spec) (events : List Event) : Spec := events.foldl Spec.step s

/-- mid-price: mean of best bid and best ask price; with one side empty, the other side's best
price; with both empty, none. -/
def Spec.midPrice (s : Spec) : Option Rat :=
  match PMap.best .bids s.bids, PMap.best .asks s.asks with
  | some b, some a => some ((b.price + a.price) / 2)
  | some b, none => some b.price
  | none, some a => some a.price
  | none, none => none

/-- volume-weighted mid-price (micro-price): each best price weighted with the *opposite* best
amount. -/
def Spec.volumeWeightedMidPrice (s : Spec) : Option Rat :=
  match PMap.best .bids s.bids, PMap.best .asks s.asks with
  | some b, some a => some ((b.price * a.amount + a.price * b.amount) / (b.amount + a.amount))
  | some b, none => some b.price
  | none, some a => some a.price
  | none, none => none

/-- depth-limited snapshot: same sequence, the `depth` best levels of each side in book order. -/
def Spec.snapshot (s : Spec) (depth : Nat) : OrderBook :=
  ⟨s.sequence, (PMap.levels .bids s.bids).take depth, (PMap.levels .asks s.asks).take depth⟩

/-- the full book the map denotes. -/
def Spec.book (s : Spec) : OrderBook :=
  ⟨s.sequence, PMap.levels .bids s.bids, PMap.levels .asks s.asks⟩

/-! ## Predicates used in the statements -/

/-- stored strictly in book order (bids: strictly descending prices, asks: strictly ascending);
in particular no price appears twice. -/
def Sorted (s : Side) (ls : List Level) : Prop :=
  ls.Pairwise (fun a b => s.before a.price b.price = true)

/-- no level with amount zero is stored. -/
def NonZero (ls : List Level) : Prop := ∀ l ∈ ls, l.amount ≠ 0

/-- both sides in strict book order. -/
structure SortedBook (b : OrderBook) : Prop where
  bids : Sorted .bids b.bids
  asks : Sorted .asks b.asks

/-- The invariant of C05: both sides in strict book order and free of zero amounts. -/
structure WFBook (b : OrderBook) : Prop extends SortedBook b where
  bidsNonZero : NonZero b.bids
  asksNonZero : NonZero b.asks

/-- well-formed finite map: one entry per price, no zero amounts. -/
def PMap.WF (m : PMap) : Prop := (m.map Level.price).Nodup ∧ NonZero m

instance (s : Side) (ls : List Level) : Decidable (Sorted s ls) := by unfold Sorted; infer_instance
instance (ls : List Level) : Decidable (NonZero ls) := by unfold NonZero; infer_instance

end BarterModel.Book
