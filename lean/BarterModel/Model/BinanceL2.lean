import BarterModel.Model.Book
/-!
# Binance L2 depth-update sequencing (C06)

Concrete, executable model of

* `barter-data/src/exchange/binance/spot/l2.rs`    (`BinanceSpotOrderBookL2Sequencer`,
  `BinanceSpotOrderBooksL2Transformer::{init, transform}`, conversion to `OrderBookEvent::Update`)
* `barter-data/src/exchange/binance/futures/l2.rs` (`BinanceFuturesUsdOrderBookL2Sequencer`,
  `BinanceFuturesUsdOrderBooksL2Transformer::{init, transform}`)
* `barter-data/src/exchange/binance/book/l2.rs`    (`BinanceOrderBookL2Meta`, snapshot → `OrderBookEvent::Snapshot`)
* `barter-data/src/error.rs:48-56`                  (`DataError::is_terminal`)
* `barter-data/src/streams/reconnect/stream.rs:57-85` (`with_termination_on_error`)

composed with the order-book model of C05 (`Model/Book.lean`), followed by the abstract
specification written from the property text: a ground-truth venue (list of elementary book
changes with ids), `bookAt`, genuine depth messages, and the venue's published chaining rule.

The two Rust sequencers / transformers are structurally identical and differ only in the three
comparisons; they are modelled by one set of definitions parameterised by `Rules`, each branch
citing both source locations. Core Lean only. `u64` is `Nat`, `Decimal` is `Rat`;
`time_exchange` / `time_engine` / `time_received` carry no logic and are not modelled.
-/
namespace BarterModel.BinanceL2
open BarterModel.Book

/-- which venue rule set: `BinanceSpot` or `BinanceFuturesUsd`. -/
inductive Rules where
  | spot
  | futures
deriving DecidableEq, Repr, Inhabited

/-- `BinanceSpotOrderBookL2Update` (`spot/l2.rs:296-316`) / `BinanceFuturesOrderBookL2Update`
(`futures/l2.rs:305-332`). `sub` is the `SubscriptionId` derived from the `"s"` field (the
symbol; a `Nat` here). `prevLastUpdateId` (`pu`) exists only on the futures type; the spot
functions never read it. -/
structure Update where
  sub : Nat
  firstUpdateId : Nat
  lastUpdateId : Nat
  prevLastUpdateId : Nat
  bids : List Level
  asks : List Level
deriving DecidableEq, Repr, Inhabited

/-- the two `DataError` variants `transform` can produce (`error.rs:9-44`);
`Unidentifiable` arrives as `DataError::Socket(..)` through `From<SocketError>`. -/
inductive DataError where
  | invalidSequence (prevLastUpdateId firstUpdateId : Nat)
  | unidentifiable (sub : Nat)
deriving DecidableEq, Repr, Inhabited

/-- `DataError::is_terminal` (`error.rs:48-56`): only `InvalidSequence`. -/
def DataError.isTerminal : DataError → Bool
  | .invalidSequence _ _ => true
  | .unidentifiable _ => false

/-- `BinanceSpotOrderBookL2Sequencer` (`spot/l2.rs:186-190`) /
`BinanceFuturesUsdOrderBookL2Sequencer` (`futures/l2.rs:195-198`). The futures struct has no
`prev_last_update_id` field; under `Rules.futures` the field is never written nor read. -/
structure Sequencer where
  updatesProcessed : Nat
  lastUpdateId : Nat
  prevLastUpdateId : Nat
deriving DecidableEq, Repr, Inhabited

/-- `::new(last_update_id)` (`spot/l2.rs:194-200`, `futures/l2.rs:202-207`; the futures
transformer builds the same value with a struct literal, `futures/l2.rs:115-118`). -/
def Sequencer.new (lastUpdateId : Nat) : Sequencer := ⟨0, lastUpdateId, lastUpdateId⟩

/-- `is_first_update` (`spot/l2.rs:234-236`, `futures/l2.rs:240-242`). -/
def Sequencer.isFirstUpdate (self : Sequencer) : Bool := self.updatesProcessed == 0

/-- `Result<(), DataError>` of the two validators. -/
abbrev Check := Except DataError Unit

/-- `validate_first_update`: spot (`spot/l2.rs:242-255`) `U <= last+1 && u >= last+1`;
futures (`futures/l2.rs:248-262`) `U <= last && u >= last`. -/
def Sequencer.validateFirstUpdate (r : Rules) (self : Sequencer) (update : Update) : Check :=
  match r with
  | .spot =>
    let expectedNextId := self.lastUpdateId + 1
    if update.firstUpdateId ≤ expectedNextId ∧ update.lastUpdateId ≥ expectedNextId then .ok ()
    else .error (.invalidSequence self.lastUpdateId update.firstUpdateId)
  | .futures =>
    if update.firstUpdateId ≤ self.lastUpdateId ∧ update.lastUpdateId ≥ self.lastUpdateId then .ok ()
    else .error (.invalidSequence self.lastUpdateId update.firstUpdateId)

/-- `validate_next_update`: spot (`spot/l2.rs:262-275`) `U == last+1`;
futures (`futures/l2.rs:269-281`) `pu == last`. -/
def Sequencer.validateNextUpdate (r : Rules) (self : Sequencer) (update : Update) : Check :=
  match r with
  | .spot =>
    let expectedNextId := self.lastUpdateId + 1
    if update.firstUpdateId = expectedNextId then .ok ()
    else .error (.invalidSequence self.lastUpdateId update.firstUpdateId)
  | .futures =>
    if update.prevLastUpdateId = self.lastUpdateId then .ok ()
    else .error (.invalidSequence self.lastUpdateId update.firstUpdateId)

/-- `Result<Option<Update>, DataError>` of `validate_sequence`. -/
inductive Validated where
  | dropped                       -- `Ok(None)`
  | valid (update : Update)       -- `Ok(Some(update))`
  | error (e : DataError)         -- `Err(e)`
deriving DecidableEq, Repr, Inhabited

/-- the outdated-update test at the top of `validate_sequence`: spot (`spot/l2.rs:210`)
`u <= last`; futures (`futures/l2.rs:217`) `u < last`. -/
def Sequencer.isOutdated (r : Rules) (self : Sequencer) (update : Update) : Bool :=
  match r with
  | .spot => decide (update.lastUpdateId ≤ self.lastUpdateId)
  | .futures => decide (update.lastUpdateId < self.lastUpdateId)

/-- `validate_sequence(&mut self, update)` (`spot/l2.rs:205-228`, `futures/l2.rs:212-234`):
drop outdated; first / next validation (`?` returns the error *before* any field is written);
then `updates_processed += 1`, (spot only) `prev_last_update_id = last_update_id`,
`last_update_id = update.last_update_id`. -/
def Sequencer.validateSequence (r : Rules) (self : Sequencer) (update : Update) :
    Sequencer × Validated :=
  if self.isOutdated r update then (self, .dropped) else
  let check :=
    if self.isFirstUpdate then self.validateFirstUpdate r update
    else self.validateNextUpdate r update
  match check with
  | .error e => (self, .error e)
  | .ok () =>
    ( { updatesProcessed := self.updatesProcessed + 1
        prevLastUpdateId := match r with
          | .spot => self.lastUpdateId
          | .futures => self.prevLastUpdateId
        lastUpdateId := update.lastUpdateId },
      .valid update )

/-- `BinanceOrderBookL2Meta { key, sequencer }` (`book/l2.rs:12-16`). -/
structure Meta where
  key : Nat
  sequencer : Sequencer
deriving DecidableEq, Repr, Inhabited

/-- `Binance*OrderBooksL2Transformer { instrument_map: Map<Meta> }` (`spot/l2.rs:80-82`,
`futures/l2.rs:84-87`); `Map` is a hash map `SubscriptionId ↦ Meta`, an association list here
(first match = the only match when subscription ids are distinct). -/
structure Transformer where
  instrumentMap : List (Nat × Meta)
deriving Repr, Inhabited

/-- errors of `init`. -/
inductive InitError where
  | initialSnapshotMissing (sub : Nat)
  | initialSnapshotInvalid
deriving DecidableEq, Repr, Inhabited

/-- `ExchangeTransformer::init` (`spot/l2.rs:90-120`, `futures/l2.rs:95-128`): for every
`(sub_id, instrument_key)` find the first initial event of that instrument; it must be a
`Snapshot`; the sequencer starts at the snapshot's `sequence`. -/
def Transformer.init (instrumentMap : List (Nat × Nat)) (initialSnapshots : List (Nat × Event)) :
    Except InitError Transformer :=
  let rec go : List (Nat × Nat) → Except InitError (List (Nat × Meta))
    | [] => .ok []
    | (subId, key) :: rest =>
      match initialSnapshots.find? (fun s => s.1 == key) with
      | none => .error (.initialSnapshotMissing subId)
      | some (_, .update _) => .error .initialSnapshotInvalid
      | some (_, .snapshot snapshot) =>
        match go rest with
        | .error e => .error e
        | .ok metas => .ok ((subId, ⟨key, Sequencer.new snapshot.sequence⟩) :: metas)
  match go instrumentMap with
  | .error e => .error e
  | .ok metas => .ok ⟨metas⟩

/-- one element of `Transformer::OutputIter = Vec<Result<MarketEvent<Key, OrderBookEvent>, DataError>>`. -/
inductive Out where
  | event (key : Nat) (ev : Event)
  | error (e : DataError)
deriving Repr, Inhabited

/-- `From<(ExchangeId, Key, Update)> for MarketIter` (`spot/l2.rs:324-347`, `futures/l2.rs:340-363`):
one `OrderBookEvent::Update(OrderBook::new(update.last_update_id, _, bids, asks))`. -/
def Update.toEvent (update : Update) : Event :=
  .update (OrderBook.new update.lastUpdateId update.bids update.asks)

/-- write the sequencer of subscription `sub` back (`find_mut` hands out a `&mut`). -/
def setSequencer (m : List (Nat × Meta)) (sub : Nat) (sq : Sequencer) : List (Nat × Meta) :=
  m.map fun (s, im) => if s = sub then (s, { im with sequencer := sq }) else (s, im)

/-- `Transformer::transform` (`spot/l2.rs:132-158`, `futures/l2.rs:140-166`). `input.id()` is
always `Some` for these message types, so the `None ⇒ vec![]` arm is unreachable and omitted.
Unknown subscription id ⇒ one `Unidentifiable` error, no state change; otherwise the
instrument's sequencer decides: dropped ⇒ `vec![]`, error ⇒ `vec![Err(e)]`, valid ⇒ one
`Update` event for the instrument's key. -/
def Transformer.transform (r : Rules) (self : Transformer) (input : Update) : Transformer × List Out :=
  match self.instrumentMap.lookup input.sub with
  | none => (self, [.error (.unidentifiable input.sub)])
  | some instrument =>
    let (sq, res) := instrument.sequencer.validateSequence r input
    let self' : Transformer := ⟨setSequencer self.instrumentMap input.sub sq⟩
    match res with
    | .valid validUpdate => (self', [.event instrument.key validUpdate.toEvent])
    | .dropped => (self', [])
    | .error e => (self', [.error e])

/-- all outputs of a whole delivery, in order (the `flat_map` of the exchange stream). -/
def Transformer.run (r : Rules) : Transformer → List Update → Transformer × List Out
  | t, [] => (t, [])
  | t, m :: ms =>
    let (t', o) := t.transform r m
    let (t'', os) := Transformer.run r t' ms
    (t'', o ++ os)

/-- `with_termination_on_error(|e| e.is_terminal())` (`reconnect/stream.rs:57-85`,
`consumer.rs:78`): `map_while` — items and non-terminal errors pass, the first terminal error
ends the inner stream (it is *not* forwarded; the outer stream then re-initialises and a
`Reconnecting` notice follows, C12). -/
def terminate : List Out → List Out
  | [] => []
  | .event k ev :: rest => .event k ev :: terminate rest
  | .error e :: rest => if e.isTerminal then [] else .error e :: terminate rest

/-- did the connection end on a terminal error? -/
def terminated : List Out → Bool
  | [] => false
  | .event _ _ :: rest => terminated rest
  | .error e :: rest => e.isTerminal || terminated rest

/-- what a book-keeping consumer (`OrderBookL2Manager`, C05) does with one delivered output:
events go to `managerStep`, errors change no book. -/
def consumeOut (books : Books) : Out → Books
  | .event k ev => managerStep books (.item k ev)
  | .error _ => books

def consume (books : Books) (outs : List Out) : Books := outs.foldl consumeOut books

/-- One live connection as the consumer sees it: the transformer, the consumer's books, and
whether the connection is still delivering (`alive = false` after the terminal error). A message
arriving on a dead connection is never read. -/
structure Conn where
  transformer : Transformer
  books : Books
  alive : Bool
deriving Repr, Inhabited

/-- one websocket message on the connection. -/
def Conn.step (r : Rules) (c : Conn) (m : Update) : Conn :=
  if !c.alive then c else
  let (t, outs) := c.transformer.transform r m
  { transformer := t, books := consume c.books (terminate outs), alive := !terminated outs }

def Conn.run (r : Rules) (c : Conn) (ms : List Update) : Conn := ms.foldl (Conn.step r) c

/-! ## Single-instrument composition used by the theorems: sequencer + that instrument's book -/

/-- sequencer and local book of one instrument. -/
structure Local where
  sequencer : Sequencer
  book : OrderBook
deriving Repr, Inhabited

/-- feed one message to the instrument's sequencer and apply the admitted update to its book. -/
def Local.step (r : Rules) (l : Local) (m : Update) : Local × Validated :=
  let (sq, res) := l.sequencer.validateSequence r m
  match res with
  | .valid u => (⟨sq, l.book.update u.toEvent⟩, res)
  | _ => (⟨sq, l.book⟩, res)

/-- feed messages until the first error (which ends the connection); returns the state and
`some e` when the consumer has been told. -/
def Local.run (r : Rules) : Local → List Update → Local × Option DataError
  | l, [] => (l, none)
  | l, m :: ms =>
    match l.step r m with
    | (l', .error e) => (l', some e)
    | (l', _) => Local.run r l' ms

/-- the sequencer alone over a whole delivery (no termination: shows what it would do even if
the consumer kept feeding it after an error). -/
def Sequencer.run (r : Rules) : Sequencer → List Update → Sequencer × List Validated
  | sq, [] => (sq, [])
  | sq, m :: ms =>
    let (sq', res) := sq.validateSequence r m
    let (sq'', rs) := Sequencer.run r sq' ms
    (sq'', res :: rs)

/-- the admitted updates among the results. -/
def admitted : List Validated → List Update
  | [] => []
  | .valid u :: rest => u :: admitted rest
  | _ :: rest => admitted rest

/-! ## Abstract specification (from the property text; independent of the code above)

A *venue* is the exchange's own history of one instrument's book: a list of elementary changes
"at id `i` the amount at `(side, price)` becomes `a`" (in time order; ids strictly increasing for
a well-formed venue). The exchange's book *as of* id `x` is the map obtained by applying all
changes with id ≤ x. -/

structure Change where
  id : Nat
  side : Side
  price : Rat
  amount : Rat
deriving DecidableEq, Repr, Inhabited

abbrev Venue := List Change

/-- ids strictly increasing (time order). -/
def Venue.WF (v : Venue) : Prop := v.Pairwise (fun a b => a.id < b.id)

/-- the changes of one side with id ≤ x, as `(price, amount)` point updates in time order. -/
def changesUpTo (v : Venue) (x : Nat) (side : Side) : List Level :=
  (v.filter fun c => decide (c.id ≤ x) && decide (c.side = side)).map fun c => ⟨c.price, c.amount⟩

/-- the exchange's book as of id `x` (one side), as a price → amount function (0 = no level). -/
def bookAt (v : Venue) (x : Nat) (side : Side) : Rat → Rat :=
  applyLevels (fun _ => 0) (changesUpTo v x side)

/-- some change of `(side, price)` happened in the id range `(lo, hi]`. -/
def Touched (v : Venue) (lo hi : Nat) (side : Side) (price : Rat) : Prop :=
  ∃ c ∈ v, lo < c.id ∧ c.id ≤ hi ∧ c.side = side ∧ c.price = price

/-- the levels of one side of a genuine depth message for the id range `(lo, hi]`: every carried
level states the amount the exchange's book has at `hi`, and every price touched in the range is
carried (order and repetitions are free). -/
def GenuineSide (v : Venue) (lo hi : Nat) (side : Side) (levels : List Level) : Prop :=
  (∀ l ∈ levels, l.amount = bookAt v hi side l.price) ∧
  (∀ c ∈ v, lo < c.id → c.id ≤ hi → c.side = side → ∃ l ∈ levels, l.price = c.price)

/-- the id fields of a genuine depth message for `(lo, hi]`: `u = hi`; spot: `U = lo + 1`;
futures: `pu = lo` and `U` is an id inside the range not after its first change
(Binance: "first update id in event"). -/
def GenuineIds (r : Rules) (v : Venue) (lo hi : Nat) (m : Update) : Prop :=
  lo < hi ∧ m.lastUpdateId = hi ∧
  (r = .spot → m.firstUpdateId = lo + 1) ∧
  (r = .futures → m.prevLastUpdateId = lo ∧ lo < m.firstUpdateId ∧
    ∀ c ∈ v, lo < c.id → c.id ≤ hi → m.firstUpdateId ≤ c.id)

/-- a genuine depth message of the venue for the id range `(lo, hi]` (the venue's contract). -/
def Genuine (r : Rules) (v : Venue) (lo hi : Nat) (m : Update) : Prop :=
  GenuineIds r v lo hi m ∧ GenuineSide v lo hi .bids m.bids ∧ GenuineSide v lo hi .asks m.asks

/-- the lower cut a message claims: spot `U - 1`, futures `pu`. -/
def Update.lo (r : Rules) (m : Update) : Nat :=
  match r with
  | .spot => m.firstUpdateId - 1
  | .futures => m.prevLastUpdateId

/-- `m` is a genuine message of the venue (for the range its own ids claim). -/
def GenuineMsg (r : Rules) (v : Venue) (m : Update) : Prop := Genuine r v (m.lo r) m.lastUpdateId m

instance (v : Venue) (lo hi : Nat) (s : Side) (ls : List Level) : Decidable (GenuineSide v lo hi s ls) := by
  unfold GenuineSide; infer_instance
instance (r : Rules) (v : Venue) (lo hi : Nat) (m : Update) : Decidable (GenuineIds r v lo hi m) := by
  unfold GenuineIds; infer_instance
instance (r : Rules) (v : Venue) (lo hi : Nat) (m : Update) : Decidable (Genuine r v lo hi m) := by
  unfold Genuine; infer_instance
instance (r : Rules) (v : Venue) (m : Update) : Decidable (GenuineMsg r v m) := by
  unfold GenuineMsg; infer_instance

/-- a REST snapshot taken at id `s` is the exchange's book as of `s`. -/
def GenuineSnapshot (v : Venue) (s : Nat) (b : OrderBook) : Prop :=
  b.sequence = s ∧ abs b.bids = bookAt v s .bids ∧ abs b.asks = bookAt v s .asks

/-! ### The venue's published rule (property text)

spot: drop `u ≤ last`; the first processed message covers `s + 1` (`U ≤ s+1 ≤ u`); afterwards
`U = previous u + 1`. futures: drop `u < last`; first covers `s` (`U ≤ s ≤ u`); afterwards
`pu = previous u`. -/

/-- stale with respect to the last id the local book reports. -/
def Stale (r : Rules) (last : Nat) (m : Update) : Prop :=
  match r with
  | .spot => m.lastUpdateId ≤ last
  | .futures => m.lastUpdateId < last

/-- the first processed message after a snapshot at `s`. -/
def FirstRule (r : Rules) (s : Nat) (m : Update) : Prop :=
  match r with
  | .spot => m.firstUpdateId ≤ s + 1 ∧ s + 1 ≤ m.lastUpdateId
  | .futures => m.firstUpdateId ≤ s ∧ s ≤ m.lastUpdateId

/-- `m` directly follows the message whose last id is `prevU`. -/
def NextRule (r : Rules) (prevU : Nat) (m : Update) : Prop :=
  match r with
  | .spot => m.firstUpdateId = prevU + 1
  | .futures => m.prevLastUpdateId = prevU

instance (r : Rules) (last : Nat) (m : Update) : Decidable (Stale r last m) := by
  unfold Stale; cases r <;> infer_instance
instance (r : Rules) (s : Nat) (m : Update) : Decidable (FirstRule r s m) := by
  unfold FirstRule; cases r <;> infer_instance
instance (r : Rules) (p : Nat) (m : Update) : Decidable (NextRule r p m) := by
  unfold NextRule; cases r <;> infer_instance

/-- `m` extends the chain: `first` says whether nothing has been processed since the snapshot. -/
def Extends (r : Rules) (first : Bool) (last : Nat) (m : Update) : Prop :=
  if first then FirstRule r last m else NextRule r last m

instance (r : Rules) (f : Bool) (l : Nat) (m : Update) : Decidable (Extends r f l m) := by
  unfold Extends; infer_instance

/-- each message directly follows its predecessor, starting after a message ending at `prevU`. -/
def Linked (r : Rules) : Nat → List Update → Prop
  | _, [] => True
  | prevU, m :: ms => NextRule r prevU m ∧ Linked r m.lastUpdateId ms

/-- an unbroken chain from the snapshot at `s`: the first covers the snapshot point, every later
one directly follows its predecessor. -/
def Chain (r : Rules) (s : Nat) : List Update → Prop
  | [] => True
  | m :: ms => FirstRule r s m ∧ Linked r m.lastUpdateId ms

/-- consecutive genuine messages of the venue starting at cut `lo`
(cuts `lo < m₁.u < m₂.u < …`). -/
def GenuineRun (r : Rules) (v : Venue) : Nat → List Update → Prop
  | _, [] => True
  | lo, m :: ms => Genuine r v lo m.lastUpdateId m ∧ GenuineRun r v m.lastUpdateId ms

/-- the delivery's first message is the one covering the snapshot point `s` (its range starts at
cut `c0`): spot `c0 ≤ s < u` (so `U = c0+1 ≤ s+1 ≤ u`); futures `c0 < s ≤ u` where `s` is the id of
an event of the venue (a REST snapshot reports the id of the last event it contains). -/
def Covers (r : Rules) (v : Venue) (s c0 : Nat) : List Update → Prop
  | [] => True
  | m :: _ =>
    match r with
    | .spot => c0 ≤ s ∧ s < m.lastUpdateId
    | .futures => c0 < s ∧ s ≤ m.lastUpdateId ∧ ∃ c ∈ v, c.id = s

/-- the local state after admitting every message of `ms` in order. -/
def Local.admitAll (r : Rules) (l : Local) (ms : List Update) : Local :=
  ms.foldl (fun l m =>
    ⟨{ updatesProcessed := l.sequencer.updatesProcessed + 1
       prevLastUpdateId := match r with
         | .spot => l.sequencer.lastUpdateId
         | .futures => l.sequencer.prevLastUpdateId
       lastUpdateId := m.lastUpdateId }, l.book.update m.toEvent⟩) l

/-! ### Executable form of the specification (what the `spec` driver runs)

The spec tracks, per instrument, only ids: the snapshot id, how many messages extended the chain
and the last id reached; and per connection whether the consumer has been told (`told`). The book
it reports is *computed from the venue* (`specBook` = `bookAt` as a finite map), never from the
messages' levels. -/

/-- the exchange's book as of `x`, as a finite map (`Book.PMap`). -/
def specSide (v : Venue) (x : Nat) (side : Side) : PMap := PMap.apply [] (changesUpTo v x side)

/-- … and as the `OrderBook` a consumer should hold when it reports sequence `x`. -/
def specBook (v : Venue) (x : Nat) : OrderBook :=
  ⟨x, PMap.levels .bids (specSide v x .bids), PMap.levels .asks (specSide v x .asks)⟩

structure SpecInstrument where
  processed : Nat
  last : Nat
deriving Repr, Inhabited

inductive SpecVerdict where
  | ignored     -- stale: silently dropped
  | extended    -- admitted: the book moves to the exchange's book as of `m.u`
  | told        -- anything else: the consumer is told (terminal error, re-initialise)
deriving DecidableEq, Repr, Inhabited

/-- the property's trichotomy for one message. -/
def SpecInstrument.step (r : Rules) (i : SpecInstrument) (m : Update) : SpecInstrument × SpecVerdict :=
  if Stale r i.last m then (i, .ignored)
  else if Extends r (i.processed == 0) i.last m then (⟨i.processed + 1, m.lastUpdateId⟩, .extended)
  else (i, .told)

/-! ## Partial-depth REST snapshots (review of the sub-check theorems, `audit/sub/report_A.md` #1)

The code's own snapshot fetchers ask the REST endpoint for a LIMITED depth
(`spot/l2.rs:54` `…/api/v3/depth?symbol=…&limit=100`, `futures/l2.rs:57` `…/fapi/v1/depth?…&limit=100`):
the snapshot holds the best `limit` levels of each side only, so `GenuineSnapshot` (equality with the
venue's FULL book) is false of it whenever a side of the venue's book is deeper. What is true of such a
snapshot is equality ON A SET OF PRICES (the prices it covers); everything below is stated for an
arbitrary such set `P`, and `GenuineSnapshot` is the special case `P = everything`. -/

/-- one side of a book -/
def sideOf (b : OrderBook) : Side → List Level
  | .bids => b.bids
  | .asks => b.asks

/-- one side of a depth message -/
def Update.levels (m : Update) : Side → List Level
  | .bids => m.bids
  | .asks => m.asks

/-- the depth message carries a level for `(side, price)` (so `OrderBook::update` writes that price) -/
def Update.Writes (m : Update) (side : Side) (price : Rat) : Prop :=
  ∃ l ∈ m.levels side, l.price = price

instance (m : Update) (side : Side) (p : Rat) : Decidable (m.Writes side p) := by
  unfold Update.Writes; infer_instance

/-- a REST snapshot taken at id `s` that is the venue's book as of `s` ON the prices `P`
(`P side price`: the snapshot's amount at that price — 0 when it holds no such level — is the venue's).
Nothing is said about the prices outside `P`. -/
def GenuineSnapshotOn (v : Venue) (s : Nat) (b : OrderBook) (P : Side → Rat → Prop) : Prop :=
  b.sequence = s ∧ ∀ side p, P side p → abs (sideOf b side) p = bookAt v s side p

/-- what the venue's REST endpoint answers to `…&limit=n`: sequence and the best `n` levels per side -/
def truncateBook (limit : Nat) (b : OrderBook) : OrderBook :=
  ⟨b.sequence, b.bids.take limit, b.asks.take limit⟩

/-- the prices one side of a depth-`limit` snapshot determines: all of them when the side holds fewer
than `limit` levels (the venue's side is then complete); otherwise every price at least as good as the
side's worst level (the venue's best `limit` levels contain every non-empty level in that range, so a
price in the range that is absent from the snapshot is empty at the venue). Executable: this is what
`drv_c06 spec` / `drv_c06e spec` use to decide where they speak. -/
def coveredBy (limit : Nat) (side : Side) (levels : List Level) (p : Rat) : Bool :=
  if levels.length < limit then true
  else match levels.getLast? with
    | none => false
    | some worst => !side.before worst.price p

/-- the updates `Local.run` admits (applies to the book), in order, up to the first error -/
def Local.admittedBy (r : Rules) : Local → List Update → List Update
  | _, [] => []
  | l, m :: ms =>
    match l.step r m with
    | (_, .error _) => []
    | (l', .valid u) => u :: Local.admittedBy r l' ms
    | (l', .dropped) => Local.admittedBy r l' ms

/-! ### executable helpers of the partial-depth oracle (shared by `drv_c06 spec` and `drv_c06e spec`) -/

/-- the venue changed `(sd, p)` in the id range `(lo, hi]` (`Touched`, as a Boolean) -/
def touchedB (v : Venue) (lo hi : Nat) (sd : Side) (p : Rat) : Bool :=
  v.any fun c => decide (lo < c.id) && decide (c.id ≤ hi) && decide (c.side = sd) && decide (c.price = p)

/-- the prices of one side the venue's history mentions, ascending, each once (the universe of the
`lv` observation lines) -/
def uniPrices (v : Venue) (sd : Side) : List Rat :=
  (((v.filter fun c => decide (c.side = sd)).map (·.price)).eraseDups).mergeSort fun a b => decide (a ≤ b)

/-- the prices at which `book_is_truth_on` determines the local book of an instrument whose snapshot
`snap` was taken with `limit`, after the admitted updates wrote the prices `written` and the sequencer
reached `last`: covered by the snapshot, written since, or changed by the venue since the snapshot id -/
def knownPrice (limit : Nat) (snap : OrderBook) (written : List (Side × Rat)) (v : Venue) (last : Nat)
    (sd : Side) (p : Rat) : Bool :=
  coveredBy limit sd (sideOf snap sd) p || written.contains (sd, p) || touchedB v snap.sequence last sd p


end BarterModel.BinanceL2
