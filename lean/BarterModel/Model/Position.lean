/-
Model of `barter/src/engine/state/position.rs` (`Position`, `PositionExited`, `PositionManager`),
of `InstrumentState::update_from_trade` (`barter/src/engine/state/instrument/mod.rs:323-333`) and of
the routing of an `AccountEventKind::Trade` to its instrument
(`barter/src/engine/state/mod.rs:153-158`), over exact rationals (`Decimal` rounding, overflow and
the division-by-zero panic of `Decimal` are not modelled, see DESIGN §3).

Identifiers (`TradeId`, `InstrumentIndex`) are `Nat`, `DateTime<Utc>` is an `Int` (ms).
Fields that no C02/C15/C16 clause reads (`order_id`, `strategy`, the fee asset, which is always
`QuoteAsset`) are dropped.

The second half of the file is the **abstract spec** of C02, written from the property text only:
net signed quantity, cash flow, fee total of a fill list, and "reaches or crosses zero".
-/
namespace BarterModel.Position

/-- `barter_instrument::Side`. `buy` = LONG position / buy fill, `sell` = SHORT / sell fill. -/
inductive Side where
  | buy
  | sell
  deriving DecidableEq, Repr, Inhabited

/-- `barter_execution::trade::Trade<QuoteAsset, InstrumentKey>` (barter-execution/src/trade.rs:22-32);
`fees` is `trade.fees.fees`. -/
structure Trade where
  id : Nat
  instrument : Nat
  time : Int
  side : Side
  price : Rat
  quantity : Rat
  fees : Rat
  deriving DecidableEq, Repr, Inhabited

/-- `Position<QuoteAsset, InstrumentKey>` (position.rs:166-209). -/
structure Position where
  instrument : Nat
  side : Side
  priceEntryAverage : Rat
  quantityAbs : Rat
  quantityAbsMax : Rat
  pnlUnrealised : Rat
  pnlRealised : Rat
  feesEnter : Rat
  feesExit : Rat
  timeEnter : Int
  timeExchangeUpdate : Int
  trades : List Nat
  deriving DecidableEq, Repr, Inhabited

/-- `PositionExited<QuoteAsset, InstrumentKey>` (position.rs:410-442). -/
structure PositionExited where
  instrument : Nat
  side : Side
  priceEntryAverage : Rat
  quantityAbsMax : Rat
  pnlRealised : Rat
  feesEnter : Rat
  feesExit : Rat
  timeEnter : Int
  timeExit : Int
  trades : List Nat
  deriving DecidableEq, Repr, Inhabited

/-- `Decimal::abs`. -/
def abs (x : Rat) : Rat := if 0 ≤ x then x else -x

/-- `calculate_price_entry_average` (position.rs:474-488). -/
def calculatePriceEntryAverage (currentAvg currentQtyAbs tradePrice tradeQtyAbs : Rat) : Rat :=
  if currentQtyAbs = 0 ∧ tradeQtyAbs = 0 then 0
  else (currentAvg * currentQtyAbs + tradePrice * tradeQtyAbs) / (currentQtyAbs + tradeQtyAbs)

/-- `approximate_remaining_exit_fees` (position.rs:517-523). The code panics when
`quantity_abs_max = 0` (only reachable through a zero-quantity opening fill); `Rat` division gives
0 there — outside the model. -/
def approximateRemainingExitFees (quantityAbs quantityAbsMax feesEnter : Rat) : Rat :=
  (quantityAbs / quantityAbsMax) * feesEnter

/-- `calculate_pnl_unrealised` (position.rs:492-510). -/
def calculatePnlUnrealised (side : Side) (priceEntryAverage quantityAbs quantityAbsMax feesEnter
    price : Rat) : Rat :=
  let approxExitFees := approximateRemainingExitFees quantityAbs quantityAbsMax feesEnter
  let valueQuoteCurrent := quantityAbs * price
  let valueQuoteEntry := quantityAbs * priceEntryAverage
  match side with
  | .buy => valueQuoteCurrent - valueQuoteEntry - approxExitFees
  | .sell => valueQuoteEntry - valueQuoteCurrent - approxExitFees

/-- `calculate_pnl_realised` (position.rs:527-542). -/
def calculatePnlRealised (side : Side) (priceEntryAverage closedQuantity closedPrice closedFee : Rat) :
    Rat :=
  let closeQuantity := abs closedQuantity
  let valueQuoteClosed := closeQuantity * closedPrice
  let valueQuoteEntry := closeQuantity * priceEntryAverage
  match side with
  | .buy => valueQuoteClosed - valueQuoteEntry - closedFee
  | .sell => valueQuoteEntry - valueQuoteClosed - closedFee

/-- `Position::update_pnl_unrealised` (position.rs:347-356). -/
def Position.updatePnlUnrealised (p : Position) (price : Rat) : Position :=
  { p with pnlUnrealised :=
      calculatePnlUnrealised p.side p.priceEntryAverage p.quantityAbs p.quantityAbsMax p.feesEnter price }

/-- `Position::update_pnl_realised` (position.rs:359-373). -/
def Position.updatePnlRealised (p : Position) (closedQuantity closedPrice closedFee : Rat) : Position :=
  { p with pnlRealised := p.pnlRealised +
      calculatePnlRealised p.side p.priceEntryAverage closedQuantity closedPrice closedFee }

/-- `impl From<&Trade> for Position` (position.rs:376-398). -/
def Position.ofTrade (t : Trade) : Position :=
  { instrument := t.instrument
    side := t.side
    priceEntryAverage := t.price
    quantityAbs := abs t.quantity
    quantityAbsMax := abs t.quantity
    pnlUnrealised := 0
    pnlRealised := -t.fees
    feesEnter := t.fees
    feesExit := 0
    timeEnter := t.time
    timeExchangeUpdate := t.time
    trades := [t.id] }

/-- `impl From<Position> for PositionExited` (position.rs:444-461). -/
def PositionExited.ofPosition (p : Position) : PositionExited :=
  { instrument := p.instrument
    side := p.side
    priceEntryAverage := p.priceEntryAverage
    quantityAbsMax := p.quantityAbsMax
    pnlRealised := p.pnlRealised
    feesEnter := p.feesEnter
    feesExit := p.feesExit
    timeEnter := p.timeEnter
    timeExit := p.timeExchangeUpdate
    trades := p.trades }

/-- `self.trades.push(trade.id.clone())` (position.rs:248). -/
def Position.pushTrade (p : Position) (id : Nat) : Position :=
  { p with trades := p.trades ++ [id] }

/-- Increase arm, `(Buy, Buy) | (Sell, Sell)` (position.rs:253-265); `p` already carries the
pushed trade id. -/
def Position.increase (p : Position) (t : Trade) : Position :=
  let p := { p with priceEntryAverage :=
    calculatePriceEntryAverage p.priceEntryAverage p.quantityAbs t.price (abs t.quantity) }
  let p := { p with quantityAbs := p.quantityAbs + abs t.quantity }
  let p := if p.quantityAbs > p.quantityAbsMax then { p with quantityAbsMax := p.quantityAbs } else p
  let p := { p with pnlRealised := p.pnlRealised - t.fees }
  let p := { p with feesEnter := p.feesEnter + t.fees }
  let p := { p with timeExchangeUpdate := t.time }
  p.updatePnlUnrealised t.price

/-- Reduce arm, opposite side and `quantity_abs > |trade.quantity|` (position.rs:267-280). -/
def Position.reduce (p : Position) (t : Trade) : Position :=
  let p := p.updatePnlRealised t.quantity t.price t.fees
  let p := { p with quantityAbs := p.quantityAbs - abs t.quantity }
  let p := { p with feesExit := p.feesExit + t.fees }
  let p := { p with timeExchangeUpdate := t.time }
  p.updatePnlUnrealised t.price

/-- Exact-close arm, opposite side and `quantity_abs == |trade.quantity|` (position.rs:282-290). -/
def Position.closeExact (p : Position) (t : Trade) : PositionExited :=
  let p := { p with quantityAbs := p.quantityAbs - abs t.quantity }
  let p := { p with feesExit := p.feesExit + t.fees }
  let p := { p with timeExchangeUpdate := t.time }
  let p := p.updatePnlRealised t.quantity t.price t.fees
  let p := p.updatePnlUnrealised t.price
  PositionExited.ofPosition p

/-- Flip arm, opposite side and `quantity_abs < |trade.quantity|` (position.rs:293-325): returns the
next position (from the theoretical remainder trade) and the closed one. -/
def Position.flip (p : Position) (t : Trade) : Position × PositionExited :=
  let nextPositionQuantity := abs t.quantity - p.quantityAbs
  let nextPositionFeeEnter := t.fees * (nextPositionQuantity / abs t.quantity)
  let nextPositionTrade : Trade :=
    { t with quantity := nextPositionQuantity, fees := nextPositionFeeEnter }
  let feeExit := t.fees * (p.quantityAbs / abs t.quantity)
  let p := { p with feesExit := p.feesExit + feeExit }
  let p := { p with timeExchangeUpdate := t.time }
  let p := p.updatePnlRealised p.quantityAbs t.price feeExit
  let p := { p with quantityAbs := 0 }
  let p := p.updatePnlUnrealised t.price
  (Position.ofTrade nextPositionTrade, PositionExited.ofPosition p)

/-- `Position::update_from_trade` (position.rs:227-328). -/
def Position.updateFromTrade (p : Position) (t : Trade) : Option Position × Option PositionExited :=
  if p.instrument ≠ t.instrument then (some p, none) else
  let p := p.pushTrade t.id
  if p.side = t.side then (some (p.increase t), none)
  else if p.quantityAbs > abs t.quantity then (some (p.reduce t), none)
  else if p.quantityAbs = abs t.quantity then (none, some (p.closeExact t))
  else
    let r := p.flip t
    (some r.1, some r.2)

/-- Name required by the framework API (`updateFromTrade`). -/
abbrev updateFromTrade (p : Position) (t : Trade) : Option Position × Option PositionExited :=
  p.updateFromTrade t

/-- `PositionManager<InstrumentKey>` (position.rs:14-17). -/
structure PositionManager where
  current : Option Position
  deriving DecidableEq, Repr, Inhabited

def PositionManager.init : PositionManager := { current := none }

/-- `PositionManager::update_from_trade` (position.rs:32-54); identical to
`InstrumentState::update_from_trade` (instrument/mod.rs:323-333) as far as the position and the
returned `PositionExited` go (the tear sheet update is C16's). -/
def PositionManager.update (pm : PositionManager) (t : Trade) :
    PositionManager × Option PositionExited :=
  match pm.current with
  | some p =>
    let r := p.updateFromTrade t
    ({ current := r.1 }, r.2)
  | none => ({ current := some (Position.ofTrade t) }, none)

/-! ### Histories -/

/-- A position manager together with every `PositionExited` it has returned so far (oldest first):
what an observer of the return values / of `EngineOutput::PositionExit` accumulates. -/
structure Run where
  pm : PositionManager
  exits : List PositionExited
  deriving DecidableEq, Repr, Inhabited

def Run.init : Run := { pm := PositionManager.init, exits := [] }

def Run.step (r : Run) (t : Trade) : Run :=
  let u := r.pm.update t
  { pm := u.1, exits := r.exits ++ u.2.toList }

def Run.run (r : Run) (fs : List Trade) : Run := fs.foldl Run.step r

/-- The state after the fills `fs` from an empty position manager. -/
def runFills (fs : List Trade) : Run := Run.init.run fs

/-! ### Engine routing (`EngineState::update_from_account`, `AccountEventKind::Trade`,
state/mod.rs:153-158): the fill goes to the `InstrumentState` at `trade.instrument`
(`instrument_index_mut` panics when out of range; here: unchanged, and the driver prints `panic`). -/

abbrev Instruments := List Run

def Instruments.init (n : Nat) : Instruments := List.replicate n Run.init

def Instruments.step (s : Instruments) (t : Trade) : Instruments :=
  match s[t.instrument]? with
  | some r => s.set t.instrument (r.step t)
  | none => s

def Instruments.run (s : Instruments) (fs : List Trade) : Instruments := fs.foldl Instruments.step s

/-! ## Abstract spec of C02 (from the property text) -/

/-- All fills are on instrument `i`. -/
def OneInstrument (i : Nat) (fs : List Trade) : Prop := ∀ f ∈ fs, f.instrument = i

instance (i : Nat) (fs : List Trade) : Decidable (OneInstrument i fs) := by
  unfold OneInstrument; infer_instance

/-- All fills have a positive quantity. (The property also says `price > 0` and `fee ≥ 0`; no
theorem needs them, so they are not assumed.) -/
def PosQty (fs : List Trade) : Prop := ∀ f ∈ fs, 0 < f.quantity

instance (fs : List Trade) : Decidable (PosQty fs) := by
  unfold PosQty; infer_instance

/-- Signed quantity of a fill: `+q` for a buy, `−q` for a sell. -/
def signedQty (t : Trade) : Rat :=
  match t.side with
  | .buy => t.quantity
  | .sell => -t.quantity

/-- Cash flow of a fill: sell proceeds `+p·q`, buy cost `−p·q`, minus the fee. -/
def cashOf (t : Trade) : Rat :=
  match t.side with
  | .buy => -(t.price * t.quantity) - t.fees
  | .sell => t.price * t.quantity - t.fees

/-- Net signed filled quantity. -/
def net (fs : List Trade) : Rat := (fs.map signedQty).sum

/-- Total sell proceeds − total buy cost − all fees. -/
def cash (fs : List Trade) : Rat := (fs.map cashOf).sum

/-- All fees of the fills. -/
def feeSum (fs : List Trade) : Rat := (fs.map (·.fees)).sum

/-- "The net quantity reaches or crosses zero": it was non-zero before and is zero or of the
opposite sign after. -/
def ReachesOrCrossesZero (before after : Rat) : Prop :=
  (0 < before ∧ after ≤ 0) ∨ (before < 0 ∧ 0 ≤ after)

instance (b a : Rat) : Decidable (ReachesOrCrossesZero b a) := by
  unfold ReachesOrCrossesZero; infer_instance

/-- How many fills of `fs` make the net quantity reach or cross zero, the net being `n` before. -/
def zeroTouches (n : Rat) : List Trade → Nat
  | [] => 0
  | f :: fs =>
    (if ReachesOrCrossesZero n (n + signedQty f) then 1 else 0) + zeroTouches (n + signedQty f) fs

/-- The net quantity strictly changes sign ("a crossing fill"). -/
def Crosses (before after : Rat) : Prop :=
  (0 < before ∧ after < 0) ∨ (before < 0 ∧ 0 < after)

instance (b a : Rat) : Decidable (Crosses b a) := by
  unfold Crosses; infer_instance

/-- Side of a non-zero net quantity. -/
def sideOfNet (n : Rat) : Option Side :=
  if 0 < n then some .buy else if n < 0 then some .sell else none

/-- The life of the currently open position as the fill history determines it: the net quantity,
the ids of the fills that affected the position since it was opened (oldest first), the largest
absolute net quantity reached since then, and the time of the opening fill. A position is opened by
a fill that takes the net quantity away from zero or across zero; it ends when the net quantity
returns to zero (or crosses, which opens the next one with the same fill). -/
structure Life where
  net : Rat
  ids : List Nat
  maxAbs : Rat
  timeEnter : Int
  deriving DecidableEq, Repr, Inhabited

def Life.init : Life := ⟨0, [], 0, 0⟩

def Life.step (l : Life) (f : Trade) : Life :=
  let a := l.net + signedQty f
  if l.net = 0 ∨ Crosses l.net a then ⟨a, [f.id], abs a, f.time⟩
  else if a = 0 then Life.init
  else ⟨a, l.ids ++ [f.id], if abs a > l.maxAbs then abs a else l.maxAbs, l.timeEnter⟩

def life (fs : List Trade) : Life := fs.foldl Life.step Life.init

/-! Observables of the concrete state the spec talks about. -/

/-- Signed open quantity (0 when flat). -/
def Position.signedQty (p : Position) : Rat :=
  match p.side with
  | .buy => p.quantityAbs
  | .sell => -p.quantityAbs

def PositionManager.signedQty (pm : PositionManager) : Rat :=
  match pm.current with
  | some p => p.signedQty
  | none => 0

def PositionManager.side (pm : PositionManager) : Option Side := pm.current.map (·.side)

/-- Open quantity valued at its average entry price (0 when flat). -/
def PositionManager.openValue (pm : PositionManager) : Rat :=
  match pm.current with
  | some p => p.signedQty * p.priceEntryAverage
  | none => 0

/-- Realised PnL summed over all closed-position records plus the open position's. -/
def Run.pnlRealised (r : Run) : Rat :=
  (r.exits.map (·.pnlRealised)).sum + (match r.pm.current with | some p => p.pnlRealised | none => 0)

/-- Entry plus exit fees over all positions (closed and open). -/
def Run.fees (r : Run) : Rat :=
  (r.exits.map (fun e => e.feesEnter + e.feesExit)).sum +
    (match r.pm.current with | some p => p.feesEnter + p.feesExit | none => 0)

end BarterModel.Position
